"""C08 - 2D contours are closed and lie on the boundary (marching squares, uniform + quadtree).

M  MarchSquares.tla over the extracted tables: all worlds of free corners in a positive ring: all
   16 configurations, all adjacent pairs, the complete 3x3 neighbourhood of a lattice corner over
   {N,z,P} (thorough: {N,n,z,P}).
R  each exported world rendered by the REAL MarchingSquaresUniform / Quadtree through Line2Buffer.
T  LineTrace.tla judges the property on the real segments (even degree, degree 2 away from snapped
   corners, no zero-length segment, end points on straddling lattice edges, inside the box).
"""
import vlib
from worldcheck import run_worlds, run_scenes

LEVEL = "model_checking"

CFG = """SPECIFICATION Spec
CONSTANT DX = %d
CONSTANT DY = %d
CONSTANT Base = %d
CONSTANT LoDigits = %d
CONSTANT Emit = TRUE
CONSTANT Sample = %d
CONSTANT Seed = %d
INVARIANT StaticOK
INVARIANT WorldOK
CHECK_DEADLOCK FALSE
"""


def run(chk, replay):
    chk.build()
    chk.gen()
    chk.assumptions += [
        "lattice-lookup fields (harness) present the enumerated corner classes to the real renderers",
        "end-point identification within 1e-6 cell and the doubled-coordinate projection are harness code (trusted)",
        "worlds have a positive boundary ring (shape inside its bounding box, as the property presupposes)",
    ]
    if chk.tier == "quick":
        plans = [((2, 3), 2, 3, None), ((3, 2), 2, 3, None), ((3, 3), 2, 5, None), ((3, 3), 3, 5, None),
                 ((2, 2), 4, 2, None), ((3, 3), 4, 5, 4000)]
        frac = {2: 1.0, 3: 0.5, 4: 1.0}
    else:
        plans = [((2, 3), 2, 3, None), ((3, 2), 2, 3, None), ((4, 4), 2, 8, None), ((3, 3), 3, 5, None),
                 ((3, 3), 4, 5, None), ((4, 4), 3, 8, 30000), ((5, 5), 2, 13, 20000)]
        frac = {2: 1.0, 3: 1.0, 4: 0.25}
    run_worlds(chk, replay, "MarchSquares", "LineTrace", "c08-replay", ("msu", "msq"), plans, frac,
               lambda d, b, l, n, sd: CFG % (d[0], d[1], b, l, n, sd), "ns")
    if replay and replay["replay"].get("kind") == "scene":
        chk.seed = replay.get("seed", chk.seed)
        chk.tier = replay.get("tier", chk.tier)
        run_scenes(chk, "c08-scenes", only=replay["replay"]["obs"])
    elif not replay and not chk.violations:
        run_scenes(chk, "c08-scenes")
