"""Shared driver for the world-enumeration checks (C05 marching cubes, C08 marching squares)."""
import json, random
import vlib


def run_worlds(chk, replay, machine, tracemod, replay_cmd, renderers, plans, sample_frac, cfg_of, count_key):
    """plans: list of (dims, base, lodigits, sample) - sample None = exhaustive, else number of LCG-drawn worlds"""
    def replay_and_judge(vectors, rs):
        text = "\n".join(json.dumps(v) for v in vectors) + "\n"
        out = chk.vh([replay_cmd] + list(rs), stdin=text, timeout=1800)
        obs = [json.loads(x) for x in out.splitlines() if x.strip()]
        if len(obs) != len(vectors) * len(rs):
            raise vlib.Inconclusive("replay returned %d observations for %d vectors" % (len(obs), len(vectors)))
        bad = chk.validate(tracemod, obs, timeout=1800)
        return obs, bad

    def key_of(e, why):
        return "%s:%s:b%d:%d:%s" % (e["r"], "x".join(map(str, e["dims"])), e["base"], e["code"], why)

    if replay and replay["replay"].get("kind") == "scene":
        return  # the caller re-runs the scene stage (run_scenes with only=...)
    if replay:
        vec = [replay["replay"]["vector"]]
        obs, bad = replay_and_judge(vec, (replay["replay"]["renderer"],))
        chk.traces += len(obs)
        for e, why in bad:
            chk.violation(key_of(e, why), "replayed world rejected: " + why, replay["replay"])
        chk.sample(dict(replayed=vec))
        return

    rnd = random.Random(chk.seed)
    allvec, model_counter, per_plan = [], [], []
    for dims, base, lod, sim in plans:
        res = chk.tlc(machine, cfg_text=cfg_of(dims, base, lod, sim or 0, chk.seed % 60000), timeout=3000,
                      extra=["-continue"],
                      name="%s %s base %d%s" % (machine, dims, base, (" sample %d" % sim) if sim else ""))
        mb = res.printed("MODELBAD")
        if "StaticOK" in res.violated:
            # the tables of the tree are not in the shape the model expects (e.g. a mask bit for an edge
            # that no triangle uses): drift, the verdict still comes from the real outputs below
            chk.cov["table_static_check_failed"] = True
        if [v for v in res.violated if v != "StaticOK"] and not mb:
            raise vlib.Inconclusive("%s model failed without a MODELBAD world: %s\n%s" % (machine, res.violated, res.out[-2000:]))
        vec = [dict(dims=list(dims), base=base, code=int(raw.split(",")[0])) for raw in res.printed("VEC")]
        if sim:
            seen = set()
            vec = [v for v in vec if not (v["code"] in seen or seen.add(v["code"]))]
        flagged = set(int(x.split(",")[0]) for x in mb)
        for c in sorted(flagged):
            model_counter.append(dict(dims=list(dims), base=base, code=c))
            vec.append(dict(dims=list(dims), base=base, code=c))
        frac = 1.0 if sim else sample_frac.get(base, 1.0)
        chosen = [v for v in vec if v["code"] in flagged or rnd.random() < frac]
        per_plan.append(dict(dims=dims, base=base, worlds_model_checked=len(vec), worlds_replayed=len(chosen),
                             exhaustive=not sim, model_flagged=len(flagged)))
        allvec += chosen
    if not allvec:
        raise vlib.Inconclusive("no vectors exported by TLC")
    obs, bad = replay_and_judge(allvec, renderers)
    chk.traces += len(obs)
    aligned = sum(1 for o in obs if o["aligned"])
    nontrivial = sum(1 for o in obs if o[count_key] > 0)
    drift = len(getattr(chk, "last_drift", []))
    confirmed = []
    if bad:
        first = bad[:8]
        for r in sorted(set(e["r"] for e, _ in first)):
            vs = [dict(dims=e["dims"], base=e["base"], code=e["code"]) for e, _ in first if e["r"] == r]
            o2, b2 = replay_and_judge(vs, (r,))
            again = {(e["code"], tuple(e["dims"]), e["base"]): why for e, why in b2}
            lone = [v for v in vs if (v["code"], tuple(v["dims"]), v["base"]) not in again]
            again_seq = {}
            if lone:
                # accepted when rendered alone: does the renderer carry state from the earlier renders of the same
                # process into this one?  Render the whole sequence again, in the same order.
                o3, b3 = replay_and_judge(allvec, renderers)
                again_seq = {(e["code"], tuple(e["dims"]), e["base"]): why for e, why in b3 if e["r"] == r}
            for v in vs:
                k = (v["code"], tuple(v["dims"]), v["base"])
                e = [e for e, _ in first if e["r"] == r and e["code"] == v["code"] and e["dims"] == v["dims"]][0]
                if k in again:
                    confirmed.append((e, again[k], v))
                elif k in again_seq:
                    confirmed.append((e, "after-earlier-renders-of-the-same-process:" + again_seq[k], v))
                else:
                    raise vlib.Inconclusive("rejected observation did not reproduce: %s %s" % (r, v))
    for e, why, v in confirmed:
        chk.violation(key_of(e, why),
                      "real %s output for world dims=%s base=%d code=%d rejected: %s (%d items)" % (
                          e["r"], e["dims"], e["base"], e["code"], why, e[count_key]),
                      dict(vector=v, renderer=e["r"], why=why))
    if model_counter and not bad:
        raise vlib.Inconclusive("model/code divergence: %s flags %d worlds (e.g. %s) but every real output was accepted"
                                % (machine, len(model_counter), model_counter[0]))
    for o in obs[:2000:500]:
        chk.sample({k: o[k] for k in ("r", "dims", "base", "code", count_key, "aligned")})
    chk.cov.update(dict(plans=per_plan, outputs_judged=len(obs), outputs_aligned_with_model=aligned,
                        outputs_nontrivial=nontrivial, drift_from_model=drift,
                        exhaustive=all(p["exhaustive"] for p in per_plan),
                        rule="world = block of free corners (classes N,n,z,P; base 2 = {N,P}, 3 = {N,z,P}) inside a "
                             "positive ring; TLC enumerates world codes and checks the model; each exported world is "
                             "rendered by the real renderers and the real output is judged by the trace spec"))


def run_scenes(chk, cmd, only=None):
    """T part: real shapes at real coordinates / resolutions / alignments, judged by MeshStatTrace.tla.
    only: a recorded observation (replay): the scenes are regenerated from its seed and only that one is reported."""
    out = chk.vh([cmd], timeout=1800)
    obs = [json.loads(x) for x in out.splitlines() if x.strip()]
    bad = chk.validate("MeshStatTrace", obs, chunks=1, timeout=900)
    chk.traces += len(obs)
    if only is not None:
        same = lambda e: all(e[k] == only[k] for k in ("shape", "r", "cells", "param"))
        if not any(same(e) for e in obs):
            raise vlib.Inconclusive("the recorded scene is not regenerated with VERIF_SEED=%s" % chk.seed)
        bad = [(e, why) for e, why in bad if same(e)]
    for e, why in bad:
        chk.violation("scene:%s:%s:%d:%s" % (e["shape"], e["r"], e["cells"], why),
                      "real %s output of %s (%s) at %d cells rejected: %s (items=%d unmatched=%d degenerate=%d outside=%d)" % (
                          e["r"], e["shape"], e["param"], e["cells"], why, e["nt"], e["unmatched"], e["degen"], e["outside"]),
                      dict(kind="scene", obs=e))
    chk.cov["real_scenes_judged"] = len(obs)
    chk.cov["real_scene_slivers_below_1e-6_cell_not_judged"] = sum(e.get("neardegen", 0) for e in obs)
    if obs:
        chk.sample(dict(scene={k: obs[0][k] for k in ("shape", "r", "cells", "nt", "unmatched", "degen")}))
