"""C09 - rendering is deterministic across runs, schedules and CPU counts.

M  EvalPool.tla: main goroutine(s), W workers, the shared bounded channel, WaitGroup, layer slots and
   a heap of point buffers; all interleavings for W in 1..3, 1-2 concurrent renders, 1-2 layers:
   SlotsOnce, NoBufferInFlightReused, EveryLayerCorrect (whatever the interleaving the marching loop
   reads a complete, correct layer), AllDone under fairness.  Vacuity guard: the model with a reused
   point slice (Fresh = FALSE) must violate NoBufferInFlightReused.
R  every complete behaviour (schedule) of the W = 2 model (thorough: sampled W = 3) is forced onto the
   REAL evaluation pool through the hooks in render/march3.go (main parks before each send and before
   Wait, workers before receive / after receive / before wg.Done) on an exact scene whose layers need
   three real batches; the strictly sequential schedule is judged by UniTrace.tla against the exact
   predicted mesh, every other schedule must give the same triangle sequence (DetTrace.tla).
T  hook-event logs of free-running renders (GOMAXPROCS 1, 2, NumCPU) are validated step by step against
   EvalPool.tla with all its invariants (EvalPoolTrace.tla); free runs: GOMAXPROCS in {1,2,3,NumCPU}, randomly slow/yielding Evaluate, earlier and concurrent
   renders, uniform and octree, in-memory, STL bytes, decoded 3MF content, DXF, SVG: DetTrace.tla memo.
"""
import json, random
import vlib

LEVEL = "model_checking"

CFG = """SPECIFICATION Spec
CONSTANT W = %d
CONSTANT NR = %d
CONSTANT N = 5
CONSTANT B = 2
CONSTANT Layers = %d
CONSTANT Cap = %d
CONSTANT Fresh = %s
CONSTANT Emit = %s
INVARIANT SlotsOnce
INVARIANT NoBufferInFlightReused
INVARIANT EveryLayerCorrect
INVARIANT EmitSchedule
%s
CHECK_DEADLOCK FALSE
"""

POOLTRACE_CFG = """SPECIFICATION TraceSpec
CONSTANT W = %d
CONSTANT NR = 1
CONSTANT N = %d
CONSTANT B = %d
CONSTANT Layers = %d
CONSTANT Cap = 100
CONSTANT Fresh = TRUE
CONSTANT Emit = FALSE
INVARIANT SlotsOnce
INVARIANT NoBufferInFlightReused
INVARIANT EveryLayerCorrect
VIEW tview
POSTCONDITION HighWater
CHECK_DEADLOCK FALSE
"""

SCENES = [
    dict(dims=[2, 15, 15], k=1, parts=[dict(kind="box", c=[2, 8, 8], h=[1, 5, 6], w=1, op="u"),
                                       dict(kind="plane", c=[2, 8, 8], h=[1, 2, -1], w=1, op="i")]),
    dict(dims=[3, 14, 16], k=1, parts=[dict(kind="box", c=[2, 7, 9], h=[1, 4, 6], w=1, op="u"),
                                       dict(kind="box", c=[2, 9, 6], h=[1, 2, 3], w=1, op="d")]),
]


def canon(steps):
    """workers are symmetric: rename them in order of first appearance"""
    m = {}
    out = []
    for s in steps:
        if s["op"] in ("R", "P", "D"):
            if s["a"] not in m:
                m[s["a"]] = len(m) + 1
            out.append(dict(op=s["op"], a=m[s["a"]], b=0))
        else:
            out.append(dict(op=s["op"], a=1, b=0))
    return out


def replay(chk, vecs, par=8):
    from concurrent.futures import ThreadPoolExecutor
    chk.build()
    par = max(1, min(par, len(vecs) // 20 + 1))
    chunks = [vecs[i::par] for i in range(par)]

    def one(ch):
        obs = []
        todo = list(ch)
        while todo:
            text = "\n".join(json.dumps(v) for v in todo) + "\n"
            out = chk.vh(["c09-replay"], stdin=text, timeout=1800, ok_rc=(0, 4))
            got = [json.loads(x) for x in out.splitlines() if x.strip()]
            if not got:
                raise vlib.Inconclusive("c09-replay returned nothing")
            obs += got
            todo = todo[len(got):]      # an unrealised schedule ends the process: restart for the rest
        return obs
    with ThreadPoolExecutor(max_workers=par) as ex:
        res = list(ex.map(one, chunks))
    # chunk c holds vectors c, c+par, c+2par, ...: restore the order of vecs
    out = [None] * len(vecs)
    for c, r in enumerate(res):
        for j, o in enumerate(r):
            out[c + j * par] = o
    return out


def free_runs(chk):
    # ---- T: free runs
    out = chk.vh(["c09-record"], timeout=1800)
    det = [json.loads(x) for x in out.splitlines() if x.strip()]
    badd = chk.validate("DetTrace", [dict(key=d["key"], digest=d["digest"], realised=True) for d in det], chunks=1)
    chk.traces += len(det)
    for e, why in badd:
        conds = [d["cond"] for d in det if d["key"] == e["key"] and d["digest"] == e["digest"]]
        chk.violation("free-run:%s:%s" % (e["key"], why), "output of %s differs between runs (%s): e.g. under %s" % (e["key"], why, conds[:2]),
                      dict(kind="free-run", key=e["key"]))
    # ---- T: event-level conformance of the free-running pool with EvalPool.tla
    import os
    ncpu = os.cpu_count() or 4
    rejected = 0
    for gmp in sorted({1, 2, ncpu}):
        out = chk.vh(["c09-pool-record"], timeout=600, env={"GOMAXPROCS": str(gmp)})
        rec = json.loads(out.strip().splitlines()[0])
        rec["events"] = rec.get("events") or []
        if not rec["events"]:
            chk.notes.append("GOMAXPROCS=%d: the render produced no pool events (pool not used?)" % gmp)
            continue
        cfg = POOLTRACE_CFG % (max(ncpu, max([e[1] for e in rec["events"] if e[0] >= 3] + [1])), rec["n"], 100, rec["layers"])
        res = chk.tlc("EvalPoolTrace", cfg_text=cfg, workers=1, timeout=900, count=False,
                      files={"trace.ndjson": json.dumps(dict(events=rec["events"])) + "\n"},
                      name="EvalPoolTrace GOMAXPROCS=%d" % gmp)
        if res.violated:
            chk.violation("pool-trace:invariant:%s" % ",".join(res.violated),
                          "an invariant of EvalPool.tla fails on the event log of a real free-running render (GOMAXPROCS=%d): %s" % (gmp, res.violated),
                          dict(kind="free-run", gomaxprocs=gmp))
            continue
        hw = res.printed("HW")
        if not hw or int(hw[-1]) < 200000:
            rejected += 1
            chk.notes.append("pool event log (GOMAXPROCS=%d) not explained by EvalPool.tla beyond event %s" % (gmp, hw[-1] if hw else "?"))
        chk.events += len(rec["events"])
        chk.traces += 1
    if rejected:
        raise vlib.Inconclusive("real pool event logs are not behaviours of EvalPool.tla (model/code divergence): %s" % chk.notes[-1])
    return det


def run(chk, replay_rec):
    chk.build()
    chk.gen()
    chk.assumptions += [
        "hooks in render/march3.go park the real goroutines; a schedule step not realised within 10 s is drift (exit 2 if frequent), never a violation",
        "the reference output is the exact predicted mesh (UniTrace.tla) of the strictly sequential schedule, not a free run",
        "digests are SHA-256 prefixes computed by the harness",
    ]
    if replay_rec:
        r = replay_rec["replay"]
        if "vectors" not in r:
            chk.seed = replay_rec.get("seed", chk.seed)
            free_runs(chk)
            return
        obs = replay(chk, r["vectors"], par=1)
        ev = [dict(key="scene", digest=o["digest"], realised=o["realised"]) for o in obs]
        for e, why in chk.validate("DetTrace", ev, chunks=1):
            chk.violation("schedule:" + why, "replayed schedules rejected: " + why, r)
        chk.traces += len(obs)
        return
    thorough = chk.tier == "thorough"
    rnd = random.Random(chk.seed)
    # ---- M
    cfgs = [(1, 1, 2, 2), (2, 1, 1, 2), (2, 1, 2, 1), (3, 1, 1, 2), (2, 2, 1, 1)]
    if thorough:
        cfgs += [(3, 1, 2, 2), (2, 2, 1, 2), (3, 2, 1, 1)]
    for w, nr, layers, cap in cfgs:
        res = chk.tlc("EvalPool", cfg_text=CFG % (w, nr, layers, cap, "TRUE", "FALSE", "PROPERTY AllDone\nVIEW view"),
                      timeout=2400, name="EvalPool W=%d NR=%d layers=%d cap=%d" % (w, nr, layers, cap))
        chk.model_ok(res, "EvalPool")
    res = chk.tlc("EvalPool", cfg_text=CFG % (2, 1, 1, 2, "FALSE", "FALSE", "VIEW view"), timeout=600, count=False,
                  name="EvalPool reused point slice (must fail)")
    if "NoBufferInFlightReused" not in res.violated and "EveryLayerCorrect" not in res.violated:
        raise vlib.Inconclusive("vacuity guard: EvalPool with Fresh = FALSE does not violate its invariants")
    # ---- schedules
    res = chk.tlc("EvalPool", cfg_text=CFG % (2, 1, 1, 2, "TRUE", "TRUE", ""), timeout=1200, name="EvalPool schedules W=2")
    chk.model_ok(res, "EvalPool schedules")
    scheds = {}
    for v in res.printed_json("VEC"):
        st = canon(v["steps"])
        scheds[json.dumps(st)] = st
    if thorough:
        res = chk.tlc("EvalPool", cfg_text=CFG % (3, 1, 1, 3, "TRUE", "TRUE", ""), timeout=2400, name="EvalPool schedules W=3")
        chk.model_ok(res, "EvalPool schedules W=3")
        s3 = {}
        for v in res.printed_json("VEC"):
            st = canon(v["steps"])
            s3[json.dumps(st)] = st
        keys = sorted(s3)
        rnd.shuffle(keys)
        for k in keys[:6000]:
            scheds.setdefault(k, s3[k])
    seq = [dict(op=o, a=1, b=0) for o in "SRPDSRPDSRPD"] + [dict(op="W", a=1, b=0)]
    vecs = []
    for si, scene in enumerate(SCENES if thorough else SCENES[:1]):
        vecs.append(dict(w=1, steps=seq, scene=scene, full=True, sid=si))
        for k in sorted(scheds):
            vecs.append(dict(w=3, steps=scheds[k], scene=scene, full=False, sid=si))
    # a long-stalled worker: worker 1 holds the first batch of a layer of > 1100 batches while worker 2
    # handles all the others (generated schedule; the sequential one on the same scene is the reference)
    BIG = dict(dims=[2, 330, 330], k=1, parts=[dict(kind="box", c=[2, 160, 160], h=[1, 158, 150], w=1, op="u"),
                                                dict(kind="plane", c=[2, 160, 160], h=[1, 2, -1], w=1, op="i")])
    vecs.append(dict(w=2, gen="seq", steps=[], scene=BIG, full=False, sid=9))
    vecs.append(dict(w=2, gen="stall", steps=[], scene=BIG, full=False, sid=9))
    obs = replay(chk, vecs)
    if len(obs) != len(vecs):
        raise vlib.Inconclusive("schedule replay returned %d of %d" % (len(obs), len(vecs)))
    chk.traces += len(obs)
    # the sequential schedule against the exact predicted mesh
    full = [o for o in obs if o["full"]]
    badu = chk.validate("UniTrace", [dict(dims=o["dims"], scene=o["scene"], tris=o["tris"], off=o["off"], badnorm=0) for o in full], chunks=1)
    for e, why in badu:
        chk.violation("sequential-schedule:" + why, "the strictly sequential schedule does not produce the predicted mesh: " + why,
                      dict(vectors=[v for v in vecs if v["full"]]))
    if chk.violations:
        return
    # every schedule gives the same triangle sequence
    ev = []
    for v, o in zip(vecs, obs):
        ev.append(dict(key="scene%d" % v["sid"], digest=o["digest"], realised=o["realised"], sched=o["sched"]))
    order = sorted(range(len(ev)), key=lambda i: (not (obs[i]["full"] or vecs[i].get("gen") == "seq"),))
    ev = [ev[i] for i in order]
    bad = chk.validate("DetTrace", [dict(key=e["key"], digest=e["digest"], realised=e["realised"]) for e in ev], chunks=1)
    unreal = len(getattr(chk, "last_drift", []))
    idx = {(e["key"], e["digest"]): e for e in ev}
    for e, why in bad[:5]:
        full_e = idx[(e["key"], e["digest"])]
        sid = int(e["key"][5:])
        culprit = [v for v, o in zip(vecs, obs) if v["sid"] == sid and o["digest"] == e["digest"]][:1]
        ref = [v for v in vecs if v["sid"] == sid and (v["full"] or v.get("gen") == "seq")]
        # confirm
        again = replay(chk, ref + culprit, par=1)
        if len({o["digest"] for o in again}) < 2:
            raise vlib.Inconclusive("schedule-dependent output did not reproduce: " + full_e["sched"])
        chk.violation("schedule:%s:%s" % (e["key"], full_e["sched"].strip().replace(" ", ",")),
                      "forced schedule [%s] of the evaluation pool gives a different triangle sequence than the sequential schedule" % full_e["sched"].strip(),
                      dict(vectors=ref + culprit))
    # schedules the code does not follow are a machinery problem (exit 2) - but the free-running stage is independent
    # of the scheduler gate and still says something about the tree: run it first
    det = free_runs(chk)
    if unreal > len(obs) // 50:
        raise vlib.Inconclusive("%d of %d schedules could not be realised on the real code" % (unreal, len(obs)))
    chk.sample(dict(schedule=obs[1]["sched"], digest=obs[1]["digest"], triangles=obs[1]["nt"], layers=obs[1]["layers"]))
    chk.sample(dict(free_run=det[0]))
    chk.cov.update(dict(schedules_forced=len(obs), schedules_unrealised=unreal, distinct_schedules=len(scheds),
                        free_run_records=len(det), free_run_keys=len({d["key"] for d in det}),
                        exhaustive=not thorough,
                        rule="schedule = complete behaviour of EvalPool.tla (W=2 exhaustively, workers renamed canonically; thorough adds "
                             "sampled W=3) applied to every layer of a real render whose layers need three batches"))
