"""C05 - marching-cubes meshes are closed and consistently outward-oriented.

M  MarchCubes.tla over the tables extracted from the tree: all worlds of free corners with a
   positive boundary ring - every sign configuration, every face-adjacent pair (3 axes x 4096),
   every {N,z,P} (and {N,n,z,P}) zero pattern of a 2x2x2 block.
R  every enumerated world is rendered by the REAL uniform and octree renderers through the public
   API (lattice-lookup field), the real triangles are projected to vertex ids.
T  MeshTrace.tla judges the property on every real mesh (balance, no degenerate triangle, positive
   volume, vertices on straddling edges, inside the box).
"""
import json, random
import vlib

LEVEL = "model_checking"

CFG = """SPECIFICATION Spec
CONSTANT DX = %d
CONSTANT DY = %d
CONSTANT DZ = %d
CONSTANT Base = %d
CONSTANT LoDigits = %d
CONSTANT Emit = TRUE
INVARIANT StaticOK
INVARIANT WorldOK
CHECK_DEADLOCK FALSE
"""


def worlds_from(res, dims, base):
    vec = []
    for raw in res.printed("VEC"):
        code = int(raw.split(",")[0])
        vec.append(dict(dims=list(dims), base=base, code=code))
    return vec


def model_bad(res):
    return res.printed("MODELBAD")


def replay_and_judge(chk, vectors, renderers=("mcu", "mco")):
    text = "\n".join(json.dumps(v) for v in vectors) + "\n"
    out = chk.vh(["c05-replay"] + list(renderers), stdin=text, timeout=1200)
    obs = [json.loads(x) for x in out.splitlines() if x.strip()]
    if len(obs) != len(vectors) * len(renderers):
        raise vlib.Inconclusive("replay returned %d observations for %d vectors" % (len(obs), len(vectors)))
    bad = chk.validate("MeshTrace", obs, timeout=1200)
    return obs, bad


def key_of(e, why):
    return "%s:%s:b%d:%d:%s" % (e["r"], "x".join(map(str, e["dims"])), e["base"], e["code"], why)


def run(chk, replay):
    chk.build()
    chk.gen()
    chk.assumptions += [
        "lattice-lookup fields (harness) present the enumerated corner classes to the real renderers; "
        "the harness checks that the renderer sampled exactly the lattice (else the model comparison is skipped)",
        "vertex identification within 1e-6 cell and the doubled-coordinate projection are harness code (trusted)",
        "worlds have a positive boundary ring: the surface lies inside the sampled box, as the property presupposes",
    ]
    if replay:
        vec = [replay["replay"]["vector"]]
        obs, bad = replay_and_judge(chk, vec, (replay["replay"]["renderer"],))
        chk.traces += len(obs)
        for e, why in bad:
            chk.violation(key_of(e, why), "replayed world rejected: " + why, replay["replay"])
        chk.sample(dict(replayed=vec))
        return

    rnd = random.Random(chk.seed)
    plans = []   # (dims, base, lodigits, simulate)
    if chk.tier == "quick":
        plans = [((2, 2, 3), 2, 6, None), ((2, 3, 2), 2, 6, None), ((3, 2, 2), 2, 6, None),
                 ((2, 2, 2), 3, 4, None)]
        sample_frac = {2: 0.35, 3: 0.5}
    else:
        plans = [((2, 2, 3), 2, 6, None), ((2, 3, 2), 2, 6, None), ((3, 2, 2), 2, 6, None),
                 ((2, 2, 2), 3, 4, None), ((2, 2, 2), 4, 4, None),
                 ((2, 2, 3), 3, 6, "num=20000"), ((2, 3, 2), 3, 6, "num=20000"), ((3, 2, 2), 3, 6, "num=20000"),
                 ((3, 3, 3), 2, 13, "num=6000")]
        sample_frac = {2: 1.0, 3: 1.0, 4: 0.5}
    allvec = []
    model_counter = []
    per_plan = []
    for dims, base, lod, sim in plans:
        cfg = CFG % (dims[0], dims[1], dims[2], base, lod)
        res = chk.tlc("MarchCubes", cfg_text=cfg, timeout=3000, simulate=sim, depth=3 if sim else None,
                      extra=["-continue"],
                      name="MarchCubes %s base %d%s" % (dims, base, " simulate" if sim else ""))
        if sim:
            # simulation mode has no "distinct states" line: count worlds by vectors
            pass
        mb = model_bad(res)
        if res.violated and not mb:
            raise vlib.Inconclusive("MarchCubes model failed without a MODELBAD world: %s\n%s" % (res.violated, res.out[-2000:]))
        vec = worlds_from(res, dims, base)
        if sim:
            seen = set()
            vec = [v for v in vec if not (v["code"] in seen or seen.add(v["code"]))]
        # worlds the MODEL flags are always replayed (rule 2: concretise the counter-example)
        flagged = set(int(x.split(",")[0]) for x in mb)
        for c in flagged:
            model_counter.append(dict(dims=list(dims), base=base, code=c))
            vec.append(dict(dims=list(dims), base=base, code=c))
        frac = 1.0 if sim else sample_frac.get(base, 1.0)
        chosen = [v for v in vec if v["code"] in flagged or rnd.random() < frac]
        per_plan.append(dict(dims=dims, base=base, worlds_model_checked=len(vec), worlds_replayed=len(chosen),
                             exhaustive=not sim, model_flagged=len(flagged)))
        allvec += chosen
    if not allvec:
        raise vlib.Inconclusive("no vectors exported by TLC")
    obs, bad = replay_and_judge(chk, allvec)
    chk.traces += len(obs)
    aligned = sum(1 for o in obs if o["aligned"])
    nontrivial = sum(1 for o in obs if o["nt"] > 0)
    drift = len(getattr(chk, "last_drift", []))
    # confirm each rejected observation by replaying just that vector
    confirmed = []
    if bad:
        # re-run just the rejected vectors (first few) and require the rejection to reproduce
        first = bad[:8]
        for r in sorted(set(e["r"] for e, _ in first)):
            vs = [dict(dims=e["dims"], base=e["base"], code=e["code"]) for e, _ in first if e["r"] == r]
            o2, b2 = replay_and_judge(chk, vs, (r,))
            again = {(e["code"], tuple(e["dims"]), e["base"]): why for e, why in b2}
            for v in vs:
                k = (v["code"], tuple(v["dims"]), v["base"])
                if k not in again:
                    raise vlib.Inconclusive("rejected observation did not reproduce: %s %s" % (r, v))
                e = [e for e, _ in first if e["r"] == r and e["code"] == v["code"] and e["dims"] == v["dims"]][0]
                confirmed.append((e, again[k], v))
    for e, why, v in confirmed:
        chk.violation(key_of(e, why),
                      "real %s mesh of world dims=%s base=%d code=%d rejected: %s (nt=%d)" % (
                          e["r"], e["dims"], e["base"], e["code"], why, e["nt"]),
                      dict(vector=v, renderer=e["r"], why=why))
    if model_counter and not bad:
        # the model (with the extracted tables) has a counter-example that the real code does not show
        raise vlib.Inconclusive("model/code divergence: MarchCubes.tla flags %d worlds (e.g. %s) but every real mesh was accepted"
                                % (len(model_counter), model_counter[0]))
    for o in obs[:2000:500]:
        chk.sample(dict(renderer=o["r"], dims=o["dims"], base=o["base"], code=o["code"], triangles=o["nt"],
                        first_triangles=o["tris"][:3], aligned=o["aligned"]))
    chk.cov.update(dict(plans=per_plan, meshes_judged=len(obs), meshes_aligned_with_model=aligned,
                        meshes_nontrivial=nontrivial, drift_from_model_triangulation=drift,
                        exhaustive=all(p["exhaustive"] for p in per_plan) and chk.tier == "thorough",
                        rule="world = block of free corners (classes N,n,z,P) inside a positive ring; TLC enumerates "
                             "codes; each is rendered by both real renderers and judged by MeshTrace.tla"))
