"""C05 - marching-cubes meshes are closed and consistently outward-oriented.

M  MarchCubes.tla over the tables extracted from the tree: all worlds of free corners with a
   positive boundary ring - every sign configuration, every face-adjacent pair (3 axes x 4096),
   every {N,z,P} (thorough: {N,n,z,P}) zero pattern of a 2x2x2 block, sampled larger blocks.
R  every exported world is rendered by the REAL uniform and octree renderers through the public
   API (lattice-lookup field); the real triangles are projected to vertex ids.
T  MeshTrace.tla judges the property on every real mesh (balance, no degenerate triangle, positive
   volume, vertices on straddling edges, inside the box).
"""
import vlib
from worldcheck import run_worlds, run_scenes

LEVEL = "model_checking"

CFG = """SPECIFICATION Spec
CONSTANT DX = %d
CONSTANT DY = %d
CONSTANT DZ = %d
CONSTANT Base = %d
CONSTANT LoDigits = %d
CONSTANT Emit = TRUE
CONSTANT Sample = %d
CONSTANT Seed = %d
INVARIANT StaticOK
INVARIANT WorldOK
CHECK_DEADLOCK FALSE
"""


def run(chk, replay):
    chk.build()
    chk.gen()
    chk.assumptions += [
        "lattice-lookup fields (harness) present the enumerated corner classes to the real renderers; "
        "the harness checks that the renderer sampled exactly the lattice (else the model comparison is skipped)",
        "vertex identification within 1e-6 cell and the doubled-coordinate projection are harness code (trusted)",
        "worlds have a positive boundary ring: the surface lies inside the sampled box, as the property presupposes",
    ]
    if chk.tier == "quick":
        plans = [((2, 2, 3), 2, 6, None), ((2, 3, 2), 2, 6, None), ((3, 2, 2), 2, 6, None),
                 ((2, 2, 2), 3, 4, None), ((2, 2, 2), 4, 4, 2500), ((1, 2, 3), 4, 3, 1500)]
        frac = {2: 0.35, 3: 0.5, 4: 1.0}
    else:
        plans = [((2, 2, 3), 2, 6, None), ((2, 3, 2), 2, 6, None), ((3, 2, 2), 2, 6, None),
                 ((2, 2, 2), 3, 4, None), ((2, 2, 2), 4, 4, None),
                 ((2, 2, 3), 3, 6, 15000), ((2, 3, 2), 3, 6, 15000), ((3, 2, 2), 3, 6, 15000),
                 ((3, 3, 3), 2, 13, 5000)]
        frac = {2: 1.0, 3: 1.0, 4: 0.4}
    run_worlds(chk, replay, "MarchCubes", "MeshTrace", "c05-replay", ("mcu", "mco"), plans, frac,
               lambda d, b, l, n, sd: CFG % (d[0], d[1], d[2], b, l, n, sd), "nt")
    if replay and replay["replay"].get("kind") == "scene":
        chk.seed = replay.get("seed", chk.seed)
        chk.tier = replay.get("tier", chk.tier)
        run_scenes(chk, "c05-scenes", only=replay["replay"]["obs"])
    elif not replay and not chk.violations:
        run_scenes(chk, "c05-scenes")
