"""Shared pieces of the C11 / C12 checks (Pipeline.tla)."""
import json, re, os
import vlib

PIPE_CFG = """SPECIFICATION Spec
CONSTANT NP = %(np)d
CONSTANT T = %(t)d
CONSTANT Sizes = %(sizes)s
CONSTANT MaxWrites = %(mw)d
CONSTANT Kind = "%(kind)s"
CONSTANT FailAt = %(failat)d
CONSTANT CreateFails = %(cf)s
CONSTANT Coarse = %(coarse)s
CONSTANT Emit = %(emit)s
INVARIANT Conservation
INVARIANT NoAliasing
INVARIANT AtReturn
INVARIANT EmitSchedule
PROPERTY AppendOnly
%(extra)s
CHECK_DEADLOCK FALSE
"""


def pipe_cfg(np=1, t=3, sizes="{0,1,2,3,4,7}", mw=3, kind="collector", failat=0, cf=False, coarse=False,
             emit=False, view=True, live=True):
    extra = []
    if view:
        extra.append("VIEW view")
    if live:
        extra.append("PROPERTY Terminates")
    return PIPE_CFG % dict(np=np, t=t, sizes=sizes, mw=mw, kind=kind, failat=failat, cf="TRUE" if cf else "FALSE",
                           coarse="TRUE" if coarse else "FALSE", emit="TRUE" if emit else "FALSE",
                           extra="\n".join(extra))


def consts(chk):
    g = chk.gen()
    txt = open(os.path.join(g, "CodeConsts.tla")).read()
    return {m.group(1): int(m.group(2)) for m in re.finditer(r"(\w+) == (\d+)", txt)}


TRACE_CFG = """SPECIFICATION TraceSpec
CONSTANT NP = %d
CONSTANT T = %d
CONSTANT Sizes = {0}
CONSTANT MaxWrites = 1000000
CONSTANT Kind = "%s"
CONSTANT FailAt = %d
CONSTANT CreateFails = FALSE
CONSTANT Coarse = TRUE
CONSTANT Emit = FALSE
INVARIANT Conservation
INVARIANT NoAliasing
INVARIANT AtReturn
VIEW tview
POSTCONDITION HighWater
CHECK_DEADLOCK FALSE
"""


def validate_events(chk, runs, np, t, name, kind="collector", failat=0):
    """Event-level validation against Pipeline.tla. runs: list of dict(sink, name, events).
    Returns list of (run, event index) that the specification cannot explain."""
    rejected = []
    todo = list(runs)
    for _ in range(6):
        if not todo:
            break
        text = "\n".join(json.dumps(dict(sink=r["sink"], events=r["events"]), separators=(",", ":")) for r in todo) + "\n"
        res = chk.tlc("PipelineTrace", cfg_text=TRACE_CFG % (np, t, kind, failat), workers=1, timeout=900, files={"trace.ndjson": text},
                      count=False, name=name)
        if res.violated:
            # an invariant of Pipeline.tla failed on a state of the trace
            hw = res.printed("HW")
            raise vlib.Inconclusive("PipelineTrace: %s violated while validating real events (HW=%s)\n%s" % (res.violated, hw, res.out[-1500:]))
        hw = res.printed("HW")
        if not hw:
            raise vlib.Inconclusive("PipelineTrace printed no high-water mark\n" + res.out[-2000:])
        h = int(hw[-1])
        line, ev = h // 100000, h % 100000
        if line >= len(todo) + 1:
            chk.events += sum(len(r["events"]) for r in todo)
            return rejected
        chk.events += sum(len(r["events"]) for r in todo[:line - 1])
        rejected.append((todo[line - 1], ev))
        todo = todo[line:]
    return rejected
