"""C11 - nothing written by a renderer is lost, duplicated or reordered before the sink.

M  Pipeline.tla (buffer + lock + unbuffered channel + writer goroutine + caller): exhaustive for 1-3
   producers, threshold 3, every batch size around the threshold, all interleavings with the writer
   (Conservation as a SEQUENCE, NoAliasing, AtReturn, AppendOnly, Terminates under fairness); and with
   the code's real thresholds (extracted) and coarse consumption to enumerate complete schedules.
R  every schedule is replayed into the REAL Triangle3Buffer / Line2Buffer -> channel -> writer with the
   verif hooks as a scheduler gate (the writer is held on a received batch while producers go on
   writing and block in the next send), into the in-memory collector and the STL / 3MF / DXF / SVG
   writers; the item numbers are read back from memory / from the files by independent readers.
T  PipeRunTrace.tla judges each run (delivered sequence = written sequence, count field);
   PipelineTrace.tla validates hook-event logs of free-running real renders and of gated
   multi-producer runs step by step against Pipeline.tla with all its invariants.
"""
import json, random
import vlib
from pipecommon import pipe_cfg, consts, validate_events

LEVEL = "model_checking"


def schedules(chk, **kw):
    res = chk.tlc("Pipeline", cfg_text=pipe_cfg(emit=True, view=False, live=False, coarse=True, **kw), timeout=1800,
                  name="Pipeline schedules np=%s T=%s" % (kw.get("np"), kw.get("t")))
    chk.model_ok(res, "Pipeline schedules")
    return res.printed_json("VEC")


def replay(chk, vecs, par=8):
    """replay in several harness processes (each vector builds its own pipeline)"""
    from concurrent.futures import ThreadPoolExecutor
    chk.build()
    par = max(1, min(par, len(vecs) // 50 + 1))
    chunks = [vecs[i::par] for i in range(par)]

    def one(ch):
        text = "\n".join(json.dumps(v) for v in ch) + "\n"
        out = chk.vh(["c11-replay"], stdin=text, timeout=1800, ok_rc=(0, 4))
        return [json.loads(x) for x in out.splitlines() if x.strip()]
    with ThreadPoolExecutor(max_workers=par) as ex:
        res = list(ex.map(one, chunks))
    if any(len(r) != len(c) for r, c in zip(res, chunks)):
        # a harness process stopped early (a render call that did not return): keep what was observed
        return [o for r in res for o in r]
    obs = [None] * len(vecs)
    for c, r in enumerate(res):
        for j, o in enumerate(r):
            obs[c + j * par] = o
    return obs


def key_of(o, why):
    st = " ".join("%s%d:%d" % (s["op"], s["p"], s["n"]) for s in o["vec"]["steps"])
    return "%s%s%s:np%d:%s:%s" % (o["vec"]["sink"], "+racing" if o["vec"].get("async") else "",
                                    ("+free/gomaxprocs=%d" % o["vec"].get("gmp", 0)) if o["vec"].get("free") else "", o["vec"]["np"], st, why)


def judge_runs(chk, obs):
    slim = [dict(returned=o["returned"], realised=o["realised"], written=o["written"], delivered=o["delivered"],
                 count=o["count"]) for o in obs]
    bad = chk.validate("PipeRunTrace", slim, timeout=900, chunk_size=4000)
    idx = {id(s): o for s, o in zip(slim, obs)}
    return [(idx[id(e)], why) for e, why in bad]


def run(chk, replay_rec):
    chk.build()
    c = consts(chk)
    TT, TL = c["TBufferSize"], c["LBufferSize"]
    chk.assumptions += [
        "scripted producers (harness) call the real buffer's Write/Close; the gate parks the real writer goroutine at its "
        "'batch received' hook; a schedule step that cannot be realised within its time-out is reported as drift, never as a violation",
        "independent readers of STL (own parser), 3MF (go3mf), DXF (yofu/dxf), SVG (encoding/xml) are trusted",
        "thresholds are read from the tree under test (CodeConsts)",
    ]
    if replay_rec:
        v = replay_rec["replay"]["vector"]
        obs = replay(chk, [v])
        chk.traces += len(obs)
        for o, why in judge_runs(chk, obs):
            chk.violation(key_of(o, why), "replayed schedule rejected: " + why, dict(vector=v))
        return
    rnd = random.Random(chk.seed)
    thorough = chk.tier == "thorough"
    # ---- M: exhaustive small-threshold models with liveness
    for np_, mw in ([(1, 3), (2, 2), (3, 1)] + ([(3, 2), (1, 4)] if thorough else [])):
        res = chk.tlc("Pipeline", cfg_text=pipe_cfg(np=np_, mw=mw), timeout=1800, name="Pipeline np=%d T=3 writes=%d" % (np_, mw))
        chk.model_ok(res, "Pipeline")
    # ---- U: unbounded core.  PipeCore.tla is the single-producer collector pipeline over integers (contents are
    # intervals of append order); Apalache discharges that IndInv is an inductive invariant for EVERY threshold
    # T >= 1, every batch size and any number of writes, and IndInv implies Conservation and AtReturn.  TLC binds
    # PipeCore to the spec the conformance checks use: Pipeline (np=1, collector, no fault) => PipeCore!Spec under
    # a refinement mapping, and PipeCore!IndInv is an invariant of Pipeline's reachable states.
    a0 = chk.apalache("PipeCore", ["--cinit=CInit", "--init=Init", "--inv=IndInv", "--length=0"], name="PipeCore Init => IndInv")
    a1 = chk.apalache("PipeCore", ["--cinit=CInit", "--init=IndInit", "--inv=IndInv", "--length=1"],
                      name="PipeCore IndInv /\\ Next => IndInv'")
    if "error" in (a0, a1):
        raise vlib.Inconclusive("PipeCore.IndInv is not inductive (model-level, not a verdict):\n" + chk.last_apalache[-3000:])
    res = chk.tlc("PipelineRefinesCore", cfg_text=pipe_cfg(np=1, mw=3, live=False).replace("SPECIFICATION Spec", "SPECIFICATION Spec\nINVARIANT CoreIndInv\nPROPERTY CoreSpec\nCONSTANT BatchSize <- [PipeCore] FiniteBatch"),
                  timeout=900, name="Pipeline(np=1) refines PipeCore")
    chk.model_ok(res, "Pipeline => PipeCore!Spec")
    n0 = chk.apalache("PipeCoreN", ["--cinit=CInit", "--init=Init", "--inv=IndInv", "--length=0"], name="PipeCoreN Init => IndInv")
    n1 = chk.apalache("PipeCoreN", ["--cinit=CInit", "--init=IndInit", "--inv=IndInv", "--length=1"],
                      name="PipeCoreN IndInv /\\ Next => IndInv'")
    if "error" in (n0, n1):
        raise vlib.Inconclusive("PipeCoreN.IndInv is not inductive (model-level, not a verdict):\n" + chk.last_apalache[-3000:])
    resn = chk.tlc("PipelineRefinesCoreN", cfg_text=pipe_cfg(np=3, mw=2 if thorough else 1, live=False).replace("SPECIFICATION Spec", "SPECIFICATION Spec\nINVARIANT CoreIndInv\nPROPERTY CoreSpec\nCONSTANT BatchSize <- [PipeCoreN] FiniteBatch"),
                   timeout=1800, name="Pipeline(np=3) refines PipeCoreN")
    chk.model_ok(resn, "Pipeline => PipeCoreN!Spec")
    chk.cov["unbounded_inductive_invariant_3_producers"] = dict(
        spec="PipeCoreN.tla", obligations={"Init => IndInv": n0, "IndInv /\\ [Next]_vars => IndInv'": n1},
        parameters="3 producers sharing the buffer; any T >= 1, any batch size, any number of writes",
        bound_to="Pipeline.tla by TLC: Spec(np=3) => PipeCoreN!Spec (%d distinct states)" % resn.distinct)
    chk.cov["unbounded_inductive_invariant"] = dict(
        spec="PipeCore.tla", tool="apalache-mc 0.58", parameters="any T >= 1, any batch size, any number of writes",
        obligations={"Init => IndInv": a0, "IndInv /\\ [Next]_vars => IndInv'": a1},
        implies=["Conservation (delivered + in flight + buffered = written)", "AtReturn (returned => delivered = written, writer exited)"],
        bound_to="Pipeline.tla by TLC: Spec(np=1) => PipeCore!Spec under a refinement mapping (%d distinct states)" % res.distinct)
    # ---- schedules with the code's real thresholds
    def sizes(t):
        return "{0,1,%d,%d,%d,%d}" % (t - 1, t, t + 1, 2 * t + 1)
    s1 = schedules(chk, np=1, t=TT, sizes=sizes(TT), mw=3)
    s2 = schedules(chk, np=2, t=TT, sizes="{1,%d,%d}" % (TT - 1, TT + 1), mw=2)
    l1 = schedules(chk, np=1, t=TL, sizes=sizes(TL), mw=3)
    l2 = schedules(chk, np=2, t=TL, sizes="{1,%d,%d}" % (TL - 1, TL + 1), mw=2)
    if thorough:
        s2 += schedules(chk, np=3, t=TT, sizes="{%d,%d}" % (TT - 1, TT + 1), mw=1)
    vecs = []
    def add(scheds, sink, frac, log=0, async_=False):
        k = 0
        for s in scheds:
            if frac >= 1 or rnd.random() < frac:
                v = dict(sink=sink, np=s["np"], steps=s["steps"])
                if async_:
                    v["async"] = True
                if k < log:
                    v["log"] = True
                    k += 1
                vecs.append(v)
    f = 1.0 if thorough else 0.05
    add(s1, "mem", 1); add(s1, "stl", 1); add(s1, "3mf", 1)
    add(s2, "mem", 1 if thorough else 0.5, log=150); add(s2, "stl", f); add(s2, "3mf", f)
    add(l1, "dxf", 1); add(l1, "svg", 1)
    add(l2, "dxf", f, log=100); add(l2, "svg", f)
    # the same schedules with the writes of different producers racing each other (multiset judged), and
    # with harness-owned consumers behind a BUFFERED channel that keep every received batch to the end
    fa = 1.0 if thorough else 0.1
    add(s2, "mem", fa, async_=True); add(l2, "dxf", fa / 2, async_=True)
    add(s1, "tmemb", 1, async_=True); add(l1, "lmemb", 1, async_=True)
    add(s2, "tmemb", fa, async_=True); add(l2, "lmemb", fa, async_=True)
    # free-running single-producer runs (no gate): the writes of each schedule issued back to back by the rendering
    # goroutine, also with GOMAXPROCS = 1 (the consumer goroutine may not have run at all before Close)
    for s in s1:
        for sink in ("mem", "stl", "3mf"):
            for gmp in (0, 1):
                vecs.append(dict(sink=sink, np=1, steps=s["steps"], free=True, gmp=gmp))
    for s in l1:
        for sink in ("dxf", "svg"):
            for gmp in (0, 1):
                vecs.append(dict(sink=sink, np=1, steps=s["steps"], free=True, gmp=gmp))
    # the same with a Close() after every write (several parts drawn into one output, each ending with Close)
    for s in s1:
        for sink in ("mem", "stl"):
            vecs.append(dict(sink=sink, np=1, steps=s["steps"], free=True, gmp=0, parts=True))
    for s in l1:
        for sink in ("dxf", "svg"):
            vecs.append(dict(sink=sink, np=1, steps=s["steps"], free=True, gmp=0, parts=True))
    obs = replay(chk, vecs)
    chk.traces += len(obs)
    if len(obs) != len(vecs):
        last = obs[-1] if obs else None
        if last is not None and not last["returned"]:
            chk.violation(key_of(last, "render-call-did-not-return"),
                          "the render call did not return within 60 s for schedule %s" % key_of(last, ""), dict(vector=last["vec"]))
            return
        raise vlib.Inconclusive("replay returned %d observations for %d vectors" % (len(obs), len(vecs)))
    bad = judge_runs(chk, obs)
    unreal = len(getattr(chk, "last_drift", []))
    if bad:
        first = bad[:6]
        again = {}
        # forced schedules normally reproduce at once; a failure that depends on timing the gate does not control (the
        # caller returning before the writer has finished, racing writes) is repeated: 30 single attempts for racing
        # writes, then up to 3 x 300 repetitions of each schedule that has not reproduced yet
        for attempt in range(30):
            todo = [o for o, _ in first if key_of(o, "") not in again and (attempt == 0 or o["vec"].get("async"))]
            if not todo:
                break
            o2 = replay(chk, [o["vec"] for o in todo])
            for o, why in judge_runs(chk, o2):
                again.setdefault(key_of(o, ""), why)
        for attempt in range(3):
            todo = [o for o, _ in first if key_of(o, "") not in again][:3]
            if not todo:
                break
            o2 = replay(chk, [o["vec"] for o in todo for _ in range(300)])
            for o, why in judge_runs(chk, o2):
                again.setdefault(key_of(o, ""), why)
        for o, why in first:
            k = key_of(o, "")
            if k not in again:
                if o["vec"].get("async"):
                    chk.notes.append("racing-writes failure seen once but not reproduced in 30 attempts: " + k)
                    continue
                raise vlib.Inconclusive("rejected run did not reproduce: " + key_of(o, why))
            chk.violation(key_of(o, again[k]), "real pipeline run rejected: %s; written=%d delivered runs=%s count=%d" % (
                again[k], o["written"], o["delivered"][:6], o["count"]),
                dict(vector={x: o["vec"][x] for x in ("sink", "np", "steps", "async", "free", "gmp", "parts") if x in o["vec"]}, why=again[k]))
        if not chk.violations and any("racing-writes failure" in n for n in chk.notes):
            raise vlib.Inconclusive(chk.notes[-1])
    if unreal > len(obs) // 50:
        raise vlib.Inconclusive("%d of %d schedules could not be realised on the real code" % (unreal, len(obs)))
    # ---- T: event-level conformance
    ev_runs = []
    for kind, t in (("tri", TT), ("line", TL)):
        out = chk.vh(["c11-record", kind], timeout=900)
        recs = [json.loads(x) for x in out.splitlines() if x.strip()]
        gated = [dict(sink=o["vec"]["sink"], name="gated " + key_of(o, ""), events=o["events"]) for o in obs
                 if o.get("events") and not o["vec"].get("async") and ((o["vec"]["sink"] in ("mem", "stl", "3mf")) == (kind == "tri"))]
        rej = validate_events(chk, recs, 1, t, "PipelineTrace free-running " + kind)
        rej += validate_events(chk, gated, 2, t, "PipelineTrace gated np=2 " + kind)
        ev_runs += recs + gated
        for r, ev in rej:
            # an event sequence the specification cannot explain: drift unless an invariant is involved
            chk.notes.append("event trace not explained by Pipeline.tla at event %d: %s" % (ev, r["name"]))
            chk.cov["event_traces_rejected"] = chk.cov.get("event_traces_rejected", 0) + 1
    chk.traces += len(ev_runs)
    for o in obs[:len(obs):max(1, len(obs) // 4)]:
        chk.sample(dict(sink=o["vec"]["sink"], np=o["vec"]["np"], schedule=key_of(o, ""), written=o["written"], delivered=o["delivered"]))
    chk.cov.update(dict(schedules_replayed=len(obs), schedules_unrealised=unreal,
                        per_sink={s: sum(1 for o in obs if o["vec"]["sink"] == s) for s in ("mem", "stl", "3mf", "dxf", "svg", "tmemb", "lmemb")},
                        racing_write_runs=sum(1 for o in obs if o["vec"].get("async")),
                        event_traces=len(ev_runs), thresholds=dict(triangles=TT, lines=TL),
                        exhaustive=True,
                        rule="schedule = complete behaviour of Pipeline.tla (writes with sizes around the real threshold, writer "
                             "batch completions, close) for 1-2 (thorough 3) producers; each replayed through the real buffer, channel and sink"))
    if chk.cov.get("event_traces_rejected"):
        raise vlib.Inconclusive("%d real event traces are not behaviours of Pipeline.tla (model/code divergence): %s" % (
            chk.cov["event_traces_rejected"], chk.notes[-1]))
