"""C18 - screw threads are right-handed, periodic, match their designation and mate.

M  Threads.tla: the STANDARDS as data written independently of the code (ISO 261 coarse/fine pitches,
   UNC/UNF number and fractional sizes, NPT outside diameters / TPI / 1:32 half-angle taper) and the
   designation grammar (M<d>x<P>, unc_<n>_<tpi>, unc_<size>, unf_..., npt_<size>).  ThreadsM.tla checks
   the data (fine < coarse, monotone, grammar injective, ToMM = x127/5 idempotent) and enumerates every
   candidate designation of the grammar (a superset of the standards).
   Screw.tla / ScrewM.tla: the right-handed helical map on the (angle, z) lattice for a rectangular
   profile: invariance under "eighth turn + lead/8", z-period = pitch for 1 and 2 starts, absolute hand.
R  sdf.ThreadLookup for EVERY candidate (the set of names that exist in the code is also taken from a
   source scan of the sdf package, so that a database name outside the grammar cannot go unnoticed);
   ThreadTrace.tla recomputes radius / pitch / taper from the designation tokens and judges the real
   entry and its ToMillimetre conversion.  Screw3D(rectangular profile) at every lattice point; judged
   against Screw.tla (this fixes right-handedness absolutely).
T  for every database entry x tolerances {0, 0.05, 0.2 mm}: helical invariance of
   Screw3D(ISOThread external) at random real angles (starts 1, -1, 2, -3), z-periodicity, opposite-hand
   control; mating of the external thread with the material left by the internal thread (same taper) and
   obj.Bolt against obj.Nut, on a stratified sample of the thread annulus over two pitches; the realised
   taper of tapered screws.  Measured by the harness, judged by ScrewTrace.tla.
"""
import json
import vlib

LEVEL = "model_checking"

THREADS_CFG = """SPECIFICATION Spec
CONSTANT CodeNames = {%s}
CONSTANT Emit = TRUE
INVARIANT ThreadsOK
CHECK_DEADLOCK FALSE
"""

SCREW_CFG = """SPECIFICATION Spec
CONSTANT ZMax = %d
CONSTANT Emit = TRUE
INVARIANT ScrewOK
CHECK_DEADLOCK FALSE
"""


def why_guard(modules):
    """TLC wraps printed tuples at 80 columns and vlib reads BAD lines one line at a time: a long reason would be
    lost silently.  Refuse to run with a trace spec whose reasons are too long."""
    import os, re
    for m in modules:
        text = open(os.path.join(vlib.SPEC, "trace", m + ".tla")).read()
        for w in re.findall(r'say\((?:[^"]|\n)*?"([^"]+)"\)', text):
            if len(w) > 50:
                raise vlib.Inconclusive("%s: reason %r is too long to be printed on one line" % (m, w))


def ndjson(vs):
    return "\n".join(json.dumps(v) for v in vs) + "\n"


def parse(out):
    return [json.loads(x) for x in out.splitlines() if x.strip()]


def lookup_and_judge(chk, vectors):
    obs = parse(chk.vh(["c18-lookup"], stdin=ndjson(vectors), timeout=600))
    if len(obs) != len(vectors):
        raise vlib.Inconclusive("lookup returned %d observations for %d vectors" % (len(obs), len(vectors)))
    return obs, chk.validate("ThreadTrace", obs, timeout=900, chunk_size=400)


def lattice_and_judge(chk, vectors):
    obs = parse(chk.vh(["c18-lattice"], stdin=ndjson(vectors), timeout=600))
    if len(obs) != len(vectors):
        raise vlib.Inconclusive("lattice replay returned %d observations for %d vectors" % (len(obs), len(vectors)))
    return obs, chk.validate("ScrewTrace", obs, timeout=900, chunk_size=1500)


def measure_and_judge(chk, names):
    obs = parse(chk.vh(["c18-measure"], stdin=ndjson([dict(name=n) for n in names]), timeout=3000))
    if not obs:
        raise vlib.Inconclusive("no measurements")
    return obs, chk.validate("ScrewTrace", obs, timeout=900, chunk_size=600)


def mkey(e, why):
    if e["ev"] == "lat":
        v = e["v"]
        return "lat:s=%d:k=%d:zq=%d:rho2=%d:%s" % (v["s"], v["k"], v["zq"], v["rho2"], why)
    if e["ev"] == "helix":
        return "helix:%s:tol=%d:starts=%d:%s%s" % (e["name"], e["tolu"], e["starts"], "rod%d:" % e["long"] if e.get("long") else "", why)
    if e["ev"] in ("mate", "boltnut"):
        return "%s:%s%s:tole=%d:toli=%d:%s" % (e["ev"], e["name"], "/" + e["style"] if e.get("style", "hex") != "hex" else "",
                                                e["tole"], e["toli"], why)
    return "%s:%s:%s" % (e["ev"], e.get("name", "?"), why)


def run(chk, replay):
    why_guard(["ThreadTrace", "ScrewTrace"])
    chk.build()
    chk.assumptions += [
        "the standards in Threads.tla (ISO 261, ASME B1.1, ASME B1.20.1) were written from the standards, not from the code",
        "the harness projects each length to the nearest multiple of a fixed unit (1/2000 mm, 1/1000 mm, 1/16000 inch, "
        "threads per two inches) and reports the relative residual; the unit does not depend on the expectation",
        "database names are found by ThreadLookup on every string literal of the sdf package plus every candidate of the "
        "grammar; a name built at run time outside the grammar would be missed",
        "helical invariance, mating and taper are measured by the harness on seeded samples and judged by TLC (DESIGN section 10)",
        "the nut is placed co-centred with the bolt's thread so that both helices have the same phase (a real nut "
        "reaches this position by turning)",
    ]
    if replay:
        r = replay["replay"]
        kind = r.get("kind")
        if kind == "lookup":
            obs, bad = lookup_and_judge(chk, [r["vector"]])
            for e, why in bad:
                chk.violation("lookup:%s:%s" % (e["v"]["name"], why), "replayed lookup rejected: " + why, r)
        elif kind == "lat":
            obs, bad = lattice_and_judge(chk, [r["vector"]])
            for e, why in bad:
                chk.violation(mkey(e, why), "replayed lattice point rejected: " + why, r)
        else:
            obs, bad = measure_and_judge(chk, [r["name"]])
            for e, why in bad:
                chk.violation(mkey(e, why), "replayed measurement rejected: " + why, r)
        chk.traces += len(obs)
        return

    # ---------------------------------------------------------------- names of the real database
    nm = parse(chk.vh(["c18-names"], timeout=120))[0]
    code_names = nm["names"]
    if not code_names:
        raise vlib.Inconclusive("the source scan found no thread name (exporter broken)")
    for n in code_names:
        if '"' in n or "\\" in n or "\n" in n:
            raise vlib.Inconclusive("thread name %r cannot be written into a cfg file" % n)

    # ---------------------------------------------------------------- M: standards + grammar
    res = chk.tlc("ThreadsM", cfg_text=THREADS_CFG % ", ".join('"%s"' % n for n in code_names), timeout=600,
                  extra=["-continue"], name="ThreadsM (standards, grammar, candidates)")
    mb = res.printed("MODELBAD")
    if res.violated or mb:
        raise vlib.Inconclusive("Threads.tla is internally inconsistent: %s %s" % (res.violated, mb[:3]))
    vec = res.printed_json("VEC")
    nogrammar = [json.loads(x) for x in res.printed("NOGRAMMAR")]
    nocode = [json.loads(x) for x in res.printed("NOCODE")]
    if not vec:
        raise vlib.Inconclusive("no candidate vectors")

    # ---------------------------------------------------------------- R: every candidate through ThreadLookup
    obs, bad = lookup_and_judge(chk, vec)
    chk.traces += len(obs)
    drift = {e["v"]["name"] for e in getattr(chk, "last_drift", []) if e["found"]}
    found = sorted(e["v"]["name"] for e in obs if e["found"])
    if bad:
        first = bad[:12]
        o2, b2 = lookup_and_judge(chk, [e["v"] for e, _ in first])
        again = {}
        for e, why in b2:
            again.setdefault(e["v"]["name"], why)
        for e, why in first:
            n = e["v"]["name"]
            if n not in again:
                raise vlib.Inconclusive("rejected lookup did not reproduce: " + n)
            chk.violation("lookup:%s:%s" % (n, again[n]),
                          "ThreadLookup(%r) = radius %s pitch %s (fixed units, %s) but the designation says radius %s pitch %s: %s"
                          % (n, e["r"], e["p"], e["units"], e["v"]["er"], e["v"]["ep"], again[n]),
                          dict(kind="lookup", vector=e["v"], why=again[n]))
    unscanned = sorted(set(found) - set(code_names))
    chk.cov.update(dict(
        database_names_in_source=len(code_names), candidates_of_the_grammar=len(vec), candidates_found_in_database=len(found),
        database_names_judged=len(set(found) | (set(code_names) - set(nogrammar))),
        database_names_outside_the_grammar=nogrammar,
        found_but_not_a_source_literal=unscanned,
        found_but_not_in_any_standard_table=sorted(drift),
        standard_designations_absent_from_code=len(nocode)))
    for e in [o for o in obs if o["found"]][:2]:
        chk.sample(dict(lookup=e))

    # ---------------------------------------------------------------- M + R: lattice helix
    zmax = 24 if chk.tier == "quick" else 40
    res = chk.tlc("ScrewM", cfg_text=SCREW_CFG % zmax, timeout=900, extra=["-continue"], name="ScrewM lattice helix")
    mb = res.printed_json("MODELBAD")
    if res.violated or mb:
        raise vlib.Inconclusive("Screw.tla violates its own helical invariants: %s %s" % (res.violated, mb[:2]))
    lvec = res.printed_json("VEC")
    lobs, lbad = lattice_and_judge(chk, lvec)
    chk.traces += len(lobs)
    if lbad:
        first = lbad[:8]
        o2, b2 = lattice_and_judge(chk, [e["v"] for e, _ in first])
        again = {json.dumps(e["v"], sort_keys=True): why for e, why in b2}
        for e, why in first:
            k = json.dumps(e["v"], sort_keys=True)
            if k not in again:
                raise vlib.Inconclusive("rejected lattice point did not reproduce: " + k)
            chk.violation(mkey(e, again[k]), "Screw3D(rectangular profile, pitch 4, starts %d) at angle %d*45deg z=%d/4 radius %d/2 "
                          "has sign class %d: %s" % (e["v"]["s"], e["v"]["k"], e["v"]["zq"], e["v"]["rho2"], e["cls"], again[k]),
                          dict(kind="lat", vector=e["v"], why=again[k]))
    chk.cov["lattice_points_judged"] = len(lobs)
    chk.cov["lattice_points_strictly_inside_or_outside"] = sum(1 for o in lobs if o["cls"] in (-1, 1))
    chk.sample(dict(lattice=lobs[len(lobs) // 2]))

    # ---------------------------------------------------------------- T: measured geometry for every entry
    mobs, mbad = measure_and_judge(chk, found)
    chk.traces += len(mobs)
    if mbad:
        names = sorted({e["name"] for e, _ in mbad})
        o2, b2 = measure_and_judge(chk, names)
        # the probes are random: a measurement reproduces when the same measurement (designation, tolerance,
        # starts, rod) is rejected again, whichever of its clauses fails first this time
        again = {mkey(e, "") for e, why in b2}
        reported = set()
        for e, why in mbad:
            k = mkey(e, why)
            if mkey(e, "") not in again:
                raise vlib.Inconclusive("rejected measurement did not reproduce: " + k)
            if k in reported:
                continue
            reported.add(k)
            chk.violation(k, "measured %s of %s rejected: %s  [%s]" % (
                e["ev"], e["name"], why, {x: e[x] for x in e if x not in ("ev", "name")}),
                dict(kind="measure", name=e["name"], obs=e, why=why))
    by = {}
    for o in mobs:
        by[o["ev"]] = by.get(o["ev"], 0) + 1
    chk.cov["measured_events"] = by
    chk.cov["mating_samples"] = sum(o["n"] for o in mobs if o["ev"] in ("mate", "boltnut"))
    chk.cov["mating_samples_ambiguous_skipped"] = sum(o["amb"] for o in mobs if o["ev"] in ("mate", "boltnut"))
    chk.cov["tapered_designations"] = sorted({o["name"] for o in mobs if o["ev"] == "taper"})
    chk.sample(dict(helix=next(o for o in mobs if o["ev"] == "helix")))
    chk.sample(dict(mate=next(o for o in mobs if o["ev"] == "boltnut")))
    tp = [o for o in mobs if o["ev"] == "taper"]
    if tp:
        chk.sample(dict(taper=tp[0]))
    chk.cov["evaluations"] = len(obs) + len(lobs) + len(mobs)
    chk.cov["distinct_nontrivial"] = len(found) + chk.cov["lattice_points_strictly_inside_or_outside"] + \
        sum(1 for o in mobs if (o["ev"] == "helix" and o["in"] > 0 and o["out"] > 0) or
            (o["ev"] in ("mate", "boltnut") and o["extin"] > 0 and o["intin"] > 0) or o["ev"] == "taper")
    chk.cov["exhaustive"] = False
    chk.cov["rule"] = ("database: every candidate designation of the grammar (TLC-enumerated) is looked up in the real database; "
                       "non-trivial = the name exists.  lattice: every point of the (angle, z, radius) window x starts in "
                       "{1,-1,2,-2}; non-trivial = strictly inside or outside.  measured: one event per (designation, tolerance, "
                       "starts | tolerance pair); non-trivial = samples on both sides of the surface")
    if nogrammar and not chk.violations:
        raise vlib.Inconclusive("database names outside the designation grammar cannot be judged: %s" % nogrammar)
