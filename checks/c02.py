"""C02 - combinators denote the operation they name.

Stage 1 (checks/csgcommon.py): the three-valued denotation Cmp / exact values Val of spec/CSG.tla are the independent
reference interpreter; CSGTrace.tla clause C02 judges sign and value of the REAL Evaluate on every lattice point of
every explored program.
Stage 2: node laws measured on seeded real-valued compositions (harness c02-laws: union = min, intersection = max,
difference = max(a,-b), Transform = operand at M^-1 p with M^-1 computed independently, ScaleUniform, Offset, Shell,
Cut, Elongate, Array, RotateCopy/RotateUnion, the extrusion family, loft, revolve, slice, screw, twist and screw
handedness markers, RoundMin/ChamferMin/ExpMin/PolyMin <= min and symmetric, voxel corner/range laws), judged by
LawTrace.tla.  Blend.tla: PolyMin/PolyMax exact on a rational grid (all laws of the property), every case replayed on
the real functions.  Cache.tla: every query history of length <= 5 over 3 points (two equal as map keys), replayed
against the real Cache2D over a counting spy operand.
"""
import json
import vlib
import cacheconc
import csgcommon

LEVEL = "model_checking"

BLEND_CFG = "SPECIFICATION Spec\nCONSTANT AMax = 6\nCONSTANT KMax = 4\nINVARIANT CaseOK\nCHECK_DEADLOCK FALSE\n"
CACHE_CFG = ("SPECIFICATION Spec\nCONSTANT MaxLen = %d\nINVARIANT ReturnsWrapped\nINVARIANT CacheCorrect\nINVARIANT Export\n"
             "CHECK_DEADLOCK FALSE\n")


def lines(out):
    return [json.loads(x) for x in out.splitlines() if x.strip()]


def judge_laws(chk, ev, what, rerun):
    bad = chk.validate("LawTrace", ev, chunks=1, timeout=900, name="LawTrace:" + what)
    chk.traces += len(ev)
    if bad:
        again = {json.dumps(e, sort_keys=True) for e, _ in chk.validate("LawTrace", rerun(), chunks=1, timeout=900)}
        for e, why in bad:
            if json.dumps(e, sort_keys=True) not in again:
                raise vlib.Inconclusive("rejected %s observation did not reproduce: %s" % (what, str(e)[:200]))
            name = e.get("law") or ("a=%s/4 b=%s/4 k=%s/4" % (e.get("a"), e.get("b"), e.get("k")) if e["ev"] == "poly" else str(e.get("h")))
            chk.violation("law:%s:%s:%s" % (e["ev"], name, why), "%s: %s  [%s]" % (name, why, str({k: v for k, v in e.items() if k != "law"})[:300]),
                          dict(kind=what, obs=e))
    return bad


def stage2(chk):
    # node laws (measured)
    laws = lambda: lines(chk.vh(["c02-laws"], timeout=1800))
    ev = laws()
    judge_laws(chk, ev, "laws", laws)
    chk.cov["node_laws_measured"] = sorted({e["law"] for e in ev if e["ev"] == "law"})
    chk.cov["node_law_samples"] = sum(e.get("n", 0) for e in ev if e["ev"] == "law")
    chk.sample(dict(law=ev[3]))
    # PolyMin / PolyMax exact on the rational grid
    res = chk.tlc("BlendM", cfg_text=BLEND_CFG, timeout=600, extra=["-continue"], name="Blend grid")
    mb = res.printed_json("MODELBAD")
    vec = res.printed_json("VEC")
    if not vec:
        raise vlib.Inconclusive("Blend exported no case")
    text = "\n".join(json.dumps(v) for v in vec) + "\n"
    poly = lambda: lines(chk.vh(["c02-poly"], stdin=text, timeout=600))
    pev = poly()
    bad = judge_laws(chk, pev, "poly", poly)
    if mb and not bad:
        raise vlib.Inconclusive("model/code divergence: Blend.tla flags %d cases but the real PolyMin was accepted" % len(mb))
    chk.cov["polymin_grid_cases"] = len(pev)
    # Cache2D histories
    res = chk.tlc("Cache", cfg_text=CACHE_CFG % (5 if chk.tier == "quick" else 6), timeout=600, workers=1, name="Cache histories")
    chk.model_ok(res, "Cache")
    hist = res.printed_json("VEC")
    if not hist:
        raise vlib.Inconclusive("Cache exported no history")
    text2 = "\n".join(json.dumps(v) for v in hist) + "\n"
    cache = lambda: lines(chk.vh(["c02-cache"], stdin=text2, timeout=600))
    cev = cache()
    judge_laws(chk, cev, "cache", cache)
    chk.cov["cache_histories_replayed"] = len(cev)
    chk.cov["cache_hit_pattern_drift"] = len(getattr(chk, "last_drift", []))
    chk.sample(dict(cache_history=cev[-1]))
    # Cache2D under concurrent callers: every interleaving of CacheConc.tla forced on the real cache
    cacheconc.run(chk)


def run(chk, replay):
    chk.build()
    chk.assumptions += [
        "lattice sub-domain: integer/half-size parameters, signed-permutation transforms, n in {1,2,4}; points on "
        "sector rays / non-lattice twist levels are compared only where both images agree",
        "projection (values to 1e-6 on the lattice, relative deviations to 1e-12 for measured laws) is harness code",
        "stage 2 laws: TLC judges measured deviations, it does not compute them (DESIGN section 10)",
    ]
    if replay:
        r = replay["replay"]
        chk.seed = replay.get("seed", chk.seed)
        chk.tier = replay.get("tier", chk.tier)
        if r.get("kind") == "cacheconc":
            cacheconc.run(chk, r["vector"])
        elif r.get("kind") == "csg":
            csgcommon.stage1(chk, "C02", r["vector"])
        else:
            stage2(chk)
        return
    csgcommon.stage1(chk, "C02")
    stage2(chk)
    chk.cov["rule"] = ("lattice programs judged point by point against the three-valued denotation; measured node laws on "
                       "random real compositions; PolyMin exact on the rational grid; all Cache2D query histories")
