"""Concurrent histories of sdf.Cache2D (used by C02's cache clause and by C10).

M  CacheConc.tla: the cache as written (lookup under the lock, wrapped Evaluate outside it, store under the lock),
   every interleaving of G goroutines x Q queries over NP points; invariants ReturnsWrapped / CacheCorrect.
R  every exported schedule is forced on the REAL Cache2D through a gated operand (c02-cacheconc).
T  CacheConcTrace.tla judges the real replies.
"""
import json
import vlib

CFG = """SPECIFICATION Spec
CONSTANT G = %d
CONSTANT Q = %d
CONSTANT NP = %d
CONSTANT Sample = %d
CONSTANT Seed = %d
INVARIANT ReturnsWrapped
INVARIANT CacheCorrect
INVARIANT Export
CHECK_DEADLOCK FALSE
"""


def replay(chk, vecs):
    text = "\n".join(json.dumps(v) for v in vecs) + "\n"
    out = chk.vh(["c02-cacheconc"], stdin=text, timeout=1800)
    obs = [json.loads(x) for x in out.splitlines() if x.strip()]
    if len(obs) != len(vecs):
        raise vlib.Inconclusive("c02-cacheconc returned %d observations for %d schedules" % (len(obs), len(vecs)))
    return obs


def run(chk, only=None):
    """only: a recorded schedule (replay mode)"""
    if only is not None:
        vecs = [only]
    else:
        plans = [(2, 3, 2, 0), (3, 2, 2, 7)] if chk.tier == "quick" else [(2, 3, 2, 0), (2, 3, 3, 0), (3, 2, 2, 0), (3, 2, 3, 8), (2, 4, 2, 3)]
        vecs = []
        for g, q, np_, sample in plans:
            res = chk.tlc("CacheConc", cfg_text=CFG % (g, q, np_, sample, chk.seed % 60000), timeout=1800,
                          name="CacheConc G=%d Q=%d NP=%d%s" % (g, q, np_, " sample 1/%d" % sample if sample else ""))
            chk.model_ok(res, "CacheConc")
            v = res.printed_json("VEC")
            if not v:
                raise vlib.Inconclusive("CacheConc exported no schedule")
            vecs += v
            chk.cov.setdefault("cache_concurrent_plans", []).append(
                dict(goroutines=g, queries_each=q, points=np_, exhaustive=(sample == 0), schedules=len(v)))
    obs = replay(chk, vecs)
    chk.traces += len(obs)
    chk.events += sum(len(o["h"]) for o in obs)
    bad = chk.validate("CacheConcTrace", obs, timeout=1800, chunk_size=3000)
    drift = len(getattr(chk, "last_drift", []))
    seen = set()
    for e, why in bad:
        k = "cache-concurrent:%s:%s" % (why, json.dumps(e["h"], separators=(",", ":")))
        if k in seen or len(seen) >= 5:
            continue
        again = replay(chk, [dict(h=e["h"], r=e["r"])])
        if not chk.validate("CacheConcTrace", again, timeout=600, chunk_size=3000):
            raise vlib.Inconclusive("rejected cache schedule did not reproduce: %s" % json.dumps(e["h"]))
        seen.add(k)
        chk.violation(k, "REAL sdf.Cache2D under the forced schedule %s (1 = first critical section of goroutine g for point p, "
                         "2 = return of the wrapped Evaluate + store) replied %s [goroutine, point, value*1e6, hit]; the wrapped "
                         "shape's value at point p is 10p+1" % (e["h"], e["real"]), dict(kind="cacheconc", vector=dict(h=e["h"], r=e["r"])))
    if only is None:
        if drift > len(obs) // 20:
            raise vlib.Inconclusive("%d of %d cache schedules were not realised as modelled (model/code divergence)" % (drift, len(obs)))
        chk.cov["cache_concurrent_schedules_replayed"] = len(obs)
        chk.cov["cache_concurrent_schedules_not_as_modelled"] = drift
        chk.sample(dict(cache_schedule=obs[len(obs) // 2]))
