"""C15 - 3MF, DXF and SVG exports contain exactly the supplied geometry.

M  Export.tla: the 3MF mesh builder as a fold (AddVertex = existing index or append, AddTriangle), one DXF LINE per
   segment on layer "Lines", the SVG running min/max + translation + Y flip + canvas = extent, on exact quarter-integer
   coordinates.  ExportM.tla enumerates all lists of <= 2 triangles over a point set (duplicates, shared vertices,
   degenerate, negative, beyond 2147 mm) and all lists of <= 2 segments over a 3x3 grid with negative coordinates, plus
   LCG-drawn longer lists; invariants: no duplicate vertex, indices in range, table[tri[i][k]] = input[i][k], every
   entry used; SVG lines on the canvas and touching its four sides.
R  every exported list is written by the REAL To3MF (scripted Render3), ToDXF / ToSVG (scripted Render2), SaveDXF,
   SaveSVG and decoded with an independent reader (go3mf reader + raw XML unit, yofu/dxf reader, encoding/xml);
   ExportTrace.tla compares the decoded structure with Export.tla (table order is drift only).
T  seeded real-valued lists at five magnitudes (1e-5 .. 2e5): measured |decoded - expected| against half a unit of
   the format's last decimal, counts, layer, style, size of the vertex table; judged by ExportTrace.tla.
"""
import json
import vlib

LEVEL = "model_checking"

CFG = """SPECIFICATION Spec
CONSTANT Fam = "%s"
CONSTANT NMax = %d
CONSTANT NP = %d
CONSTANT G = %d
CONSTANT Sample = %d
CONSTANT Seed = %d
CONSTANT Emit = TRUE
INVARIANT CaseOK
CHECK_DEADLOCK FALSE
"""
LIMIT_Q = 8589      # quarter-integers above this are beyond 2147.483647 (int32 microns)


def replay_and_judge(chk, vectors):
    """the harness is single-threaded (the DXF library keeps global state): shard over processes"""
    from concurrent.futures import ThreadPoolExecutor
    k = max(1, min(5, len(vectors) // 200))
    bounds = [(i * len(vectors) // k, (i + 1) * len(vectors) // k) for i in range(k)]

    def one(b):
        text = "\n".join(json.dumps(v) for v in vectors[b[0]:b[1]]) + "\n"
        out = chk.vh(["c15-replay"], stdin=text, timeout=1800)
        part = [json.loads(x) for x in out.splitlines() if x.strip()]
        for o in part:
            o["id"] += b[0]
        return part
    chk.build()
    with ThreadPoolExecutor(max_workers=k) as ex:
        obs = [o for part in ex.map(one, bounds) for o in part]
    if sorted(set(o["id"] for o in obs)) != list(range(len(vectors))):
        raise vlib.Inconclusive("replay did not answer every vector (%d vectors)" % len(vectors))
    bad = chk.validate("ExportTrace", obs, timeout=1800, chunk_size=3000)
    return obs, bad


def over(e):
    if e["ev"] == "3mf":
        return int(any(abs(q) > LIMIT_Q for t in e["tris"] for q in t))
    return int(e.get("over", 0))


def key_of(e, why):
    return "%s:%s:%s:over=%d" % (e["ev"], e["kind"], why, over(e))


def run(chk, replay):
    chk.build()
    chk.assumptions += [
        "the independent readers (go3mf reader, yofu/dxf reader, encoding/xml) and the harness's exact decimal parsing are trusted",
        "exact vectors use quarter-integer coordinates (exact in float32 and in 2, 4 and 6 decimals)",
        "measured vectors: bound = half a unit of the last decimal (+ 2 float32 ulps for 3MF, 16 decimals + 2 float64 ulps for DXF, "
        "+ 1e-12 x extent for the SVG translation); tolerance 1e-6 of the bound",
    ]
    if replay:
        obs, bad = replay_and_judge(chk, [replay["replay"]["vector"]])
        chk.traces += len(obs)
        for e, why in bad:
            chk.violation(key_of(e, why), "replayed vector rejected: " + why, replay["replay"])
        return
    quick = chk.tier == "quick"
    seed = chk.seed % 60000
    plans = [("tri", 2, 4 if quick else 6, 1, 0), ("tri", 3, 0, 1, 300 if quick else 4000),
             ("seg", 2, 0, 1, 0), ("seg", 2, 0, 2 if quick else 3, 400 if quick else 5000)]
    vectors, plan_cov = [], []
    for fam, nmax, np_, g, sample in plans:
        res = chk.tlc("ExportM", cfg_text=CFG % (fam, nmax, np_, g, sample, seed), timeout=1800, extra=["-continue"],
                      name="ExportM %s %s" % (fam, "sample %d" % sample if sample else "exhaustive <= %d" % nmax))
        mb = res.printed_json("MODELBAD")
        if res.violated or mb:
            raise vlib.Inconclusive("ExportM: model-level counter-example (not a verdict): %s" % (mb[:1] or res.violated))
        seen, uniq = set(), []
        for v in res.printed_json("VEC"):
            k = json.dumps(v, sort_keys=True)
            if k not in seen:
                seen.add(k)
                uniq.append(v)
        plan_cov.append(dict(family=fam, exhaustive=(sample == 0), cases=len(uniq)))
        vectors += uniq
    nexact = len(vectors)
    if not nexact:
        raise vlib.Inconclusive("no vectors exported by TLC")
    nrnd = 300 if quick else 4000
    vectors += [dict(fam="rnd", seed=chk.seed, i=i) for i in range(nrnd)]
    obs, bad = replay_and_judge(chk, vectors)
    chk.traces += len(obs)
    drift = len(getattr(chk, "last_drift", []))
    if bad:
        bykey = {}
        for e, why in bad:
            bykey.setdefault(key_of(e, why), (e, why))
        first = list(bykey.items())[:8]
        o2, b2 = replay_and_judge(chk, [e["vec"] for _, (e, _) in first])
        again = set((json.dumps(e["vec"], sort_keys=True), e["kind"], why) for e, why in b2)
        for k, (e, why) in first:
            if (json.dumps(e["vec"], sort_keys=True), e["kind"], why) not in again:
                raise vlib.Inconclusive("rejected observation did not reproduce: %s %s" % (k, json.dumps(e["vec"])[:200]))
            got = {x: e[x] for x in ("verts", "idx", "ents", "w", "h", "lines", "n", "cnt", "maxerr", "nverts", "ndist", "dmsg")
                   if e.get(x) not in (None, [], 0, "")}
            chk.violation(k, "%s/%s of %s rejected: %s; decoded %s" % (e["ev"], e["kind"], json.dumps(e["vec"])[:300], why,
                                                                     json.dumps(got)[:400]),
                          dict(vector=e["vec"], kind=e["kind"], why=why))
    ev = lambda k: sum(1 for o in obs if o["ev"] == k)
    chk.cov.update(dict(
        plans=plan_cov, exact_vectors_from_tlc=nexact, seeded_real_valued_lists=nrnd,
        files_decoded={k: ev(k) for k in ("3mf", "dxf", "svg", "m3mf", "mdxf", "msvg")},
        empty_lists=sum(1 for o in obs if o["ev"] in ("3mf", "dxf", "svg") and not o["tris"] and not o["segs"]),
        mesh_tables_with_shared_vertices=sum(1 for o in obs if o["ev"] == "3mf" and 0 < len(o["verts"]) < 3 * len(o["tris"])),
        max_measured_error_ppm_of_bound={k: max([o["maxerr"] for o in obs if o["ev"] == k and not over(o)] or [0]) for k in ("m3mf", "mdxf", "msvg")},
        vertex_table_order_drift=drift, rejected_observations=len(bad),
        rule="TLC-chosen quarter-integer triangle / segment lists (exhaustive <= 2 items, LCG-drawn longer) and seeded "
             "real-valued lists, written by To3MF / ToDXF / SaveDXF / ToSVG / SaveSVG, decoded independently, judged by ExportTrace.tla"))
    for o in (obs[0], obs[nexact // 2], obs[-1]):
        chk.sample({k: o[k] for k in ("ev", "kind", "vec", "verts", "idx", "ents", "w", "h", "lines", "n", "cnt", "maxerr") if o.get(k) not in (None, [], "")})
