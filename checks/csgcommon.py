"""Shared machinery of C01 / C02 / C03: the shape language spec/CSG.tla.

Stage 1 (M + R + T on the exact lattice):
  M  spec/CSGMachine.tla enumerates (Mode exh) or LCG-samples (Mode rnd) programs = expression trees over
     the constructors of sdf/sdf2.go, sdf/sdf3.go and checks on the model: today's box arithmetic encloses
     (bbox), exact chains are Euclidean (exact), lip1 programs are 1-Lipschitz between lattice neighbours (lip).
  R  every program is rebuilt with the REAL constructors (harness csg-replay): BoundingBox() and Evaluate()
     on the integer window chosen by the specification.
  T  spec/trace/CSGTrace.tla judges the clause of the calling check on the real observations.
A rejected observation is re-run, then attributed to a constructor by replaying its sub-programs; the
violation key is  <class>:<Constructor>:<why>:<sub-program>.
"""
import json
import vlib

OPS3 = {"box3", "sphere", "cyl", "tr3", "rot3", "mir3", "scale3", "offset3", "shell3", "cut3", "elong3", "array3",
        "rotcopy3", "union3", "diff3", "inter3", "extrude", "twist", "revolve"}
CTOR = {"box2": "Box2D", "circle": "Circle2D", "tr2": "Transform2D", "rot2": "Transform2D", "mir2": "Transform2D",
        "scale2": "ScaleUniform2D", "offset2": "Offset2D", "cut2": "Cut2D", "elong2": "Elongate2D", "array2": "Array2D",
        "rotcopy2": "RotateCopy2D", "union2": "Union2D", "diff2": "Difference2D", "inter2": "Intersect2D",
        "slice2": "Slice2D", "box3": "Box3D", "sphere": "Sphere3D", "cyl": "Cylinder3D", "tr3": "Transform3D",
        "rot3": "Transform3D", "mir3": "Transform3D", "scale3": "ScaleUniform3D", "offset3": "Offset3D",
        "shell3": "Shell3D", "cut3": "Cut3D", "elong3": "Elongate3D", "array3": "Array3D", "rotcopy3": "RotateCopy3D",
        "union3": "Union3D", "diff3": "Difference3D", "inter3": "Intersect3D", "extrude": "Extrude3D",
        "twist": "TwistExtrude3D", "revolve": "Revolve3D"}
CLASS = {"C01": "bbox", "C02": "denote", "C03": "distance"}
WHYCLASS = {"not-1-lipschitz-on-lattice-neighbours": "lipschitz", "exact-chain-not-euclidean": "exact"}
KINDS = {"C01": {"bbox"}, "C02": set(), "C03": {"exact", "lip"}}

MCFG = """SPECIFICATION Spec
CONSTANT Dim = %d
CONSTANT Mode = "%s"
CONSTANT Depth = %d
CONSTANT Sample = %d
CONSTANT Seed = %d
CONSTANT Emit = TRUE
CONSTANT MaxPts = %d
CONSTANT Clause = "%s"
INVARIANT ProgOK
CHECK_DEADLOCK FALSE
"""


def canon(e):
    return json.dumps(e, sort_keys=True, separators=(",", ":"))


def show(n):
    a = ",".join(str(x) for x in n["a"])
    if not n["k"]:
        return "%s(%s)" % (n["op"], a)
    return "%s(%s%s)" % (n["op"], (a + ";") if a else "", ",".join(show(k) for k in n["k"]))


def size(n):
    return 1 + sum(size(k) for k in n["k"])


def ops_of(n, acc=None):
    acc = acc if acc is not None else set()
    acc.add(n["op"])
    for k in n["k"]:
        ops_of(k, acc)
    return acc


def subtrees(n, out=None):
    out = out if out is not None else []
    for k in n["k"]:
        out.append(k)
        subtrees(k, out)
    return out


def plans(tier, clause):
    """(dim, mode, depth, sample-or-stride, maxpts); C02 / C03 evaluate Val on every point: smaller samples"""
    if tier == "quick":
        if clause == "C01":
            return [(2, "exh", 1, 2, 1300), (2, "rnd", 2, 350, 1300), (3, "exh", 1, 5, 2200), (3, "rnd", 2, 260, 2200)]
        return [(2, "exh", 1, 4, 1300), (2, "rnd", 2, 200, 1300), (3, "exh", 1, 10, 2000), (3, "rnd", 2, 90, 2000)]
    if clause == "C01":
        return [(2, "exh", 1, 0, 1600), (2, "rnd", 2, 1500, 1600), (2, "rnd", 3, 1500, 1600),
                (3, "exh", 1, 0, 2600), (3, "rnd", 2, 800, 2600), (3, "rnd", 3, 800, 2600)]
    return [(2, "exh", 1, 0, 1600), (2, "rnd", 2, 800, 1600), (2, "rnd", 3, 800, 1600),
            (3, "exh", 1, 2, 2600), (3, "rnd", 2, 400, 2600), (3, "rnd", 3, 400, 2600)]


def replay(chk, vectors):
    text = "\n".join(json.dumps(v) for v in vectors) + "\n"
    out = chk.vh(["csg-replay"], stdin=text, timeout=1800)
    obs = [json.loads(x) for x in out.splitlines() if x.strip()]
    if len(obs) != len(vectors):
        raise vlib.Inconclusive("csg-replay returned %d observations for %d vectors" % (len(obs), len(vectors)))
    return obs


def judge(chk, clause, obs, chunk_size=None):
    if chunk_size is None:
        chunk_size = {"C01": 400, "C02": 60, "C03": 250}[clause]
    return chk.validate("CSGTrace", obs, cfg="CSGTrace_%s.cfg" % clause, timeout=2400, chunk_size=chunk_size,
                        name="CSGTrace:" + clause)


def attribute_all(chk, clause, items):
    """items: [(program, why, window)] -> {canon(program): (culprit, ctor name)}; the culprit is the smallest
    sub-program (a constructor applied to operands) that is still rejected for the same reason when replayed
    alone.  A Union2D culprit that is accepted once its bounding-box pruning is bypassed (EvaluateSlow) is
    named Union2D-box-pruning."""
    subs, index = [], {}
    for e, why, w in items:
        for s in subtrees(e):
            c = canon(s)
            if c not in index:
                index[c] = len(subs)
                subs.append(s)
    res = {canon(e): (e, w) for e, _, w in items}
    if subs:
        vec = [dict(id=i, dim=3 if s["op"] in OPS3 else 2, e=s, w=[]) for i, s in enumerate(subs)]
        obs = replay(chk, vec)
        rej = {}
        for ev, w in judge(chk, clause, obs):
            rej[canon(ev["e"])] = (w, ev["w"])
        for e, why, _ in items:
            cand = [s for s in subtrees(e) if rej.get(canon(s), ("", 0))[0] == why]
            if cand:
                cul = min(cand, key=size)
                res[canon(e)] = (cul, rej[canon(cul)][1])
    out = {}
    slow = [(c, cul, w) for c, (cul, w) in res.items() if "union2" in ops_of(cul)]
    accepted_slow = set()
    if slow:
        obs = replay(chk, [dict(id=i, dim=3 if cul["op"] in OPS3 else 2, e=cul, w=w, slow=1) for i, (c, cul, w) in enumerate(slow)])
        badslow = {canon(ev["e"]) for ev, _ in judge(chk, clause, obs)}
        accepted_slow = {canon(cul) for c, cul, w in slow if canon(cul) not in badslow}
    # a culprit that is accepted without the pruning is the recorded limitation only if, wherever the pruned value
    # differs from EvaluateSlow, the operand holding the minimum undercuts the distance to its own bounding box
    # (probe, slow = 2); if a legitimate operand was pruned anywhere it is a different defect and gets another name
    legit = {}
    probe = [(c, cul, w) for c, cul, w in slow if canon(cul) in accepted_slow]
    if probe:
        obs = replay(chk, [dict(id=i, dim=3 if cul["op"] in OPS3 else 2, e=cul, w=w, slow=2) for i, (c, cul, w) in enumerate(probe)])
        for (c, cul, w), o in zip(probe, obs):
            legit[canon(cul)] = (o.get("legit", 0), o.get("under", 0))
    for c, (cul, w) in res.items():
        name = CTOR.get(cul["op"], cul["op"])
        if canon(cul) in accepted_slow:
            lg, un = legit.get(canon(cul), (0, 0))
            name = "Union2D-box-pruning" if lg == 0 and un > 0 else "Union2D-prunes-a-legitimate-operand"
        out[c] = (cul, name)
    return out


def key_of(clause, culprit, name, why):
    return "%s:%s:%s:%s" % (WHYCLASS.get(why, CLASS[clause]), name, why, show(culprit))


def stage1(chk, clause, replay_vec=None):
    if replay_vec is not None:
        obs = replay(chk, [replay_vec])
        chk.traces += 1
        for ev, why in judge(chk, clause, obs):
            cul, name = attribute_all(chk, clause, [(ev["e"], why, ev["w"])])[canon(ev["e"])]
            chk.violation(key_of(clause, cul, name, why), "replayed program %s rejected: %s" % (show(ev["e"]), why),
                          dict(kind="csg", vector=replay_vec))
        return
    allvec, flagged, per_plan, skipped = [], [], [], 0
    seen = set()
    for dim, mode, depth, sample, maxpts in plans(chk.tier, clause):
        res = chk.tlc("CSGMachine", cfg_text=MCFG % (dim, mode, depth, sample, chk.seed % 2000, maxpts, clause), timeout=3000,
                      extra=["-continue"], name="CSGMachine %dD %s depth<=%d%s" % (
                          dim, mode, depth, (" sample %d" % sample) if mode == "rnd" else (" stride %d" % sample)))
        mb = res.printed_json("MODELBAD")
        if res.violated and not mb:
            raise vlib.Inconclusive("CSGMachine failed without a MODELBAD program: %s\n%s" % (res.violated, res.out[-2000:]))
        vec = res.printed_json("VEC")
        if not vec:
            raise vlib.Inconclusive("CSGMachine exported no program (%dD %s)" % (dim, mode))
        nsk = len(res.printed("SKIP"))
        skipped += nsk
        n = 0
        for v in vec:
            c = canon(v["e"])
            if c in seen:
                continue
            seen.add(c)
            v["id"] = len(allvec) + 1
            allvec.append(v)
            n += 1
        for m in mb:
            if m["kind"] == "law":
                raise vlib.Inconclusive("specification defect: Val and Cmp disagree on %s" % show(m["e"]))
            if m["kind"] == "window":
                raise vlib.Inconclusive("specification defect: the window of %s does not contain the solid" % show(m["e"]))
        flagged += mb
        per_plan.append(dict(dim=dim, mode=mode, depth=depth, programs=n, exhaustive=(mode == "exh" and sample == 0),
                             skipped_window_too_large=nsk,
                             model_flagged={k: sum(1 for m in mb if m["kind"] == k) for k in ("bbox", "exact", "lip")}))
    obs = replay(chk, allvec)
    chk.traces += len(obs)
    bad = judge(chk, clause, obs)
    drift = {canon(o["e"]) for o in getattr(chk, "last_drift", [])}
    rejected = {}
    if bad:
        # rule 1: re-run exactly the rejected vectors
        again_obs = replay(chk, [dict(id=ev["id"], dim=ev["dim"], e=ev["e"], w=ev["w"]) for ev, _ in bad])
        again = {canon(ev["e"]): why for ev, why in judge(chk, clause, again_obs)}
        cache = {}
        for ev, why in bad:
            if canon(ev["e"]) not in again:
                raise vlib.Inconclusive("rejected observation did not reproduce: " + show(ev["e"]))
        culprits = attribute_all(chk, clause, [(ev["e"], again[canon(ev["e"])], ev["w"]) for ev, _ in bad])
        for ev, why in bad:
            c = canon(ev["e"])
            why = again[c]
            rejected[c] = why
            cul, name = culprits[c]
            k = key_of(clause, cul, name, why)
            if k in cache:
                continue
            cache[k] = 1
            chk.violation(k, "real %s rejected (%s); smallest rejected sub-program %s; program %s window %s" % (
                name, why, show(cul), show(ev["e"]), ev["w"]),
                dict(kind="csg", vector=dict(id=ev["id"], dim=ev["dim"], e=ev["e"], w=ev["w"]), why=why,
                     culprit=cul))
    # rule 2: a model counter-example is not a verdict; it must be reproduced by the real code
    confirmed = 0
    drifted = 0
    for m in flagged:
        if m["kind"] not in KINDS[clause]:
            continue
        c = canon(m["e"])
        if c in rejected:
            confirmed += 1
        elif m["kind"] == "bbox" and c in drift:
            drifted += 1          # the code's box arithmetic is no longer the transcribed one (e.g. repaired)
        else:
            raise vlib.Inconclusive("model/code divergence: CSGMachine flags %s (%s) but the real observation was accepted"
                                    % (show(m["e"]), m["kind"]))
    opsseen = set()
    for v in allvec:
        ops_of(v["e"], opsseen)
    for o in obs[::max(1, len(obs) // 5)][:5]:
        chk.sample(dict(program=show(o["e"]), window=o["w"], bb_units_2pow_minus10=o["bb"], first_values_1e_minus6=o["v"][:6]))
    chk.cov.update(dict(
        plans=per_plan, programs_judged=len(obs), programs_rejected=len(rejected),
        lattice_points_evaluated=sum(len(o["v"]) for o in obs),
        constructors_covered=sorted({CTOR[o] for o in opsseen if o in CTOR}),
        programs_lip1=sum(1 for v in allvec if v.get("lip")), programs_exact=sum(1 for v in allvec if v.get("exact")),
        model_flagged_confirmed_on_real_code=confirmed, model_flagged_but_code_box_differs_from_transcription=drifted,
        bbox_drift_from_transcription=len(drift) if clause == "C01" else None,
        skipped_window_too_large=skipped))
    return obs
