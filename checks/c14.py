"""C14 - the STL loader is total: error or mesh, never a panic, a hang or an allocation out of proportion.

M  StlLoader.tla is the decision procedure of render.LoadSTL over abstract files (size / header-count relation,
   body = sequence of line kinds as bufio.Scanner + strings.Fields + ParseFloat see them).  The ASCII grouping is
   modelled as the code does it (v[i+1], v[i+2] with i += 3).  StlLoaderM.tla enumerates every body of length <= L
   over the 8 line kinds x 7 layouts: with the grouping guarded (the repaired procedure) TotalOK holds; as written
   the model itself predicts Panic for a vertex count not divisible by 3 (expected TLC counter-example).
R  every abstract file exported by TLC (exhaustive short bodies + LCG-drawn longer ones) is concretised to bytes
   (several seeded variants: separators, number spellings, CRLF, filler, header bytes, counts) and loaded by the REAL
   render.LoadSTL and obj.ImportSTL in a child process (recover, watchdog, address-space limit, allocation measure).
T  seeded byte-level mutations of the shipped STL files and of generated binary / ASCII files (truncate, extend,
   count edits incl. 2^32-1 and the 32-bit wrap, bit flips, splices of vertex lines, deleted / duplicated lines,
   broken numbers, joined lines).
   StlLoaderTrace.tla judges every real observation: outcome in {Err, Mesh}, allocation <= 64*size + 4 MiB, ImportSTL
   neither panics nor hangs; the comparison with the model's predicted outcome is drift only.
"""
import json
import vlib

LEVEL = "model_checking"

CFG = """SPECIFICATION Spec
CONSTANT MaxLen = %d
CONSTANT Guard = %s
CONSTANT Emit = %s
CONSTANT Sample = %d
CONSTANT Seed = %d
INVARIANT %s
CHECK_DEADLOCK FALSE
"""


def rel(o):
    if o["size"] < 84:
        return "short"
    hc = o["hchi"] * 65536 + o["hclo"]
    return "binary" if o["size"] == 84 + 50 * hc else "ascii"


def key_of(o, why):
    """why : path taken : vertex lines mod 3 : panic class : where.  The index-out-of-range panic of the unchecked
    grouping has index = length = number of vertex lines; any other index/length is a different defect."""
    where = "-"
    if o["pmsg"] == "index-out-of-range":
        where = "at-vertex-count" if o["pidx"] == o["plen"] == o["cnv"] else "index%d-length%d" % (o["pidx"], o["plen"])
    return "%s:%s:nvmod3=%d:%s:%s" % (why, rel(o), o["cnv"] % 3, o["pmsg"] or o["impmsg"] or "-", where)


def run_recipes(chk, recipes):
    text = "\n".join(json.dumps(r) for r in recipes) + "\n"
    out = chk.vh(["c14-run"], stdin=text, timeout=2400)
    obs = [json.loads(x) for x in out.splitlines() if x.strip()]
    if len(obs) != len(recipes):
        raise vlib.Inconclusive("c14-run returned %d observations for %d recipes" % (len(obs), len(recipes)))
    skipped = sum(1 for o in obs if o["out"] == "Skipped")
    if skipped:
        chk.cov["files_not_loaded_after_12_hangs"] = chk.cov.get("files_not_loaded_after_12_hangs", 0) + skipped
    bad = chk.validate("StlLoaderTrace", [o for o in obs if o["out"] != "Skipped"], timeout=1800, chunk_size=4000)
    for e, why in bad:
        if why.startswith("harness-"):
            raise vlib.Inconclusive("concretisation problem (%s) for recipe %s" % (why, json.dumps(e["recipe"])))
    return obs, bad


def describe(o, why):
    r = o["recipe"]
    what = ("abstract file layout=%s lines=%s variant=%d" % (r["layout"], r["lines"], r["variant"])) if r["kind"] == "abs" \
        else ("mutation %s(s=%d) of %s" % (r["op"], r["s"], r["src"]))
    return ("render.LoadSTL on %s (size %d, header count %d, %d vertex lines, scan ends by %s): %s; outcome %s %s "
            "[index %d, length %d], ImportSTL %s %s, allocated %d bytes" % (
                what, o["size"], o["hchi"] * 65536 + o["hclo"], o["cnv"], o["cstop"], why, o["out"], o["pmsg"],
                o["pidx"], o["plen"], o["imp"], o["impmsg"], o["alloc"]))


def run(chk, replay):
    chk.build()
    chk.assumptions += [
        "the harness's concretisation of a line kind (token lists checked against strconv at start) and its line "
        "classifier for mutated files are trusted; the trace spec cross-checks them against each other",
        "outcome classes Hang / OverAlloc / Crash are observed through a child process (watchdog 20 s, RLIMIT_AS 6 GiB, "
        "runtime.MemStats.TotalAlloc delta); timing alone never decides: a Hang is a call that has not returned after 20 s",
        "allocation bound 64 x size + 4 MiB (measured ratios are below 20)",
    ]
    if replay:
        r = replay["replay"]["recipe"]
        obs, bad = run_recipes(chk, [r])
        chk.traces += 1
        for e, why in bad:
            chk.violation(key_of(e, why), describe(e, why), dict(recipe=e["recipe"], why=why))
        return
    quick = chk.tier == "quick"
    seed = chk.seed % 60000
    # ---- M: the repaired procedure is total on every abstract file of the bound
    L = 5 if quick else 6
    res = chk.tlc("StlLoaderM", cfg_text=CFG % (L, "TRUE", "FALSE", 0, seed, "TotalOK"), timeout=1500,
                  name="StlLoaderM guarded, all bodies <= %d x 7 layouts" % L)
    chk.model_ok(res, "StlLoaderM (guarded grouping)")
    cases_m = res.distinct
    # ---- M: as written, the model itself predicts the panic (named deviation: unchecked v[i+1], v[i+2])
    res = chk.tlc("StlLoaderM", cfg_text=CFG % (2, "FALSE", "FALSE", 0, seed, "TotalOK"), timeout=600, workers=1,
                  name="StlLoaderM as written (expected counter-example)", count=False)
    mb = res.printed_json("MODELBAD")
    if "TotalOK" not in res.violated or not mb:
        raise vlib.Inconclusive("the as-written model no longer predicts the grouping panic: %s" % res.out[-1500:])
    chk.cov["model_counterexample_as_written"] = mb[0]
    # ---- vectors
    recipes = []
    nvar = 2 if quick else 5
    plans = []
    for maxlen, sample in ((3, 0), (4, 1500 if quick else 25000)):
        res = chk.tlc("StlLoaderM", cfg_text=CFG % (maxlen, "FALSE", "TRUE", sample, seed, "EmitVec"), timeout=1500,
                      name="StlLoaderM vectors %s" % ("exhaustive <= %d" % maxlen if not sample else "sample %d" % sample))
        chk.model_ok(res, "StlLoaderM vector export")
        vec = res.printed_json("VEC")
        seen = set()
        uniq = []
        for v in vec:
            k = (v["layout"], tuple(v["lines"]))
            if k not in seen:
                seen.add(k)
                uniq.append(v)
        plans.append(dict(maxlen=maxlen, sample=sample, exhaustive=(sample == 0), cases=len(uniq),
                          model_predicts_panic=sum(1 for v in uniq if v["pred"] == "Panic")))
        for v in uniq:
            for k in range(nvar):
                recipes.append(dict(kind="abs", j=v["j"], layout=v["layout"], lines=v["lines"], variant=k,
                                    seed=chk.seed, pred=v["pred"], src="", op="", s=0))
    if not recipes:
        raise vlib.Inconclusive("no vectors exported by TLC")
    nabs = len(recipes)
    # ---- T: seeded mutations
    out = chk.vh(["c14-plan"], timeout=120)
    muts = [json.loads(x) for x in out.splitlines() if x.strip()]
    if not muts:
        raise vlib.Inconclusive("no mutation recipes")
    preds = [r.pop("pred") for r in recipes]
    recipes += muts
    obs, bad = run_recipes(chk, recipes)
    chk.traces += len(obs)
    drift = getattr(chk, "last_drift", [])
    # ---- verdicts: confirm each rejected class by re-running its first recipe
    bykey = {}
    for e, why in bad:
        bykey.setdefault(key_of(e, why), (e, why))
    if bykey:
        first = list(bykey.items())[:12]
        o2, b2 = run_recipes(chk, [e["recipe"] for _, (e, _) in first])
        def rkey(r):
            return json.dumps({k: v for k, v in r.items() if k != "id"}, sort_keys=True)
        again = {rkey(e["recipe"]): why for e, why in b2}
        for k, (e, why) in first:
            rk = rkey(e["recipe"])
            if again.get(rk) != why:
                raise vlib.Inconclusive("rejected observation did not reproduce: %s (%s)" % (rk, why))
            chk.violation(k, describe(e, why), dict(recipe=e["recipe"], why=why))
    # ---- model counter-examples (predicted Panic) against the real code (verdict rule 2)
    flagged = [o for o, p in zip(obs[:nabs], preds) if p == "Panic" and o["out"] != "Skipped"]
    reproduced = [o for o in flagged if o["out"] == "Panic"]
    if flagged and not reproduced:
        others = [o for o in flagged if o["out"] not in ("Err", "Mesh")]
        if others:
            raise vlib.Inconclusive("model/code divergence on predicted panics: %s" % json.dumps(others[0])[:500])
        chk.notes.append("the model's named deviation (unchecked v[i+1], v[i+2] in loadSTLAscii) is no longer present in "
                         "the code: %d files with a vertex count not divisible by 3 now give %s" % (
                             len(flagged), sorted(set(o["out"] for o in flagged))))
    chk.cov.update(dict(
        plans=plans, abstract_cases_model_checked=cases_m, files_loaded=len(obs), abstract_files=nabs,
        mutated_files=len(muts), variants_per_abstract_file=nvar,
        outcomes={k: sum(1 for o in obs if o["out"] == k) for k in sorted(set(o["out"] for o in obs))},
        importstl_outcomes={k: sum(1 for o in obs if o["imp"] == k) for k in sorted(set(o["imp"] for o in obs))},
        paths={k: sum(1 for o in obs if rel(o) == k) for k in ("short", "binary", "ascii")},
        model_predicted_panics=len(flagged), predicted_panics_reproduced_by_real_code=len(reproduced),
        max_alloc_ratio_x100=max([(100 * o["alloc"]) // max(o["size"], 1) for o in obs if o["size"] >= 4096] or [0]),
        drift_from_model_outcome=len(drift), rejected_observations=len(bad), rejected_classes=sorted(bykey),
        ambiguous_line_lengths_skipped=sum(o["amb"] for o in obs),
        mutation_sources=sorted(set(m["src"] for m in muts)), mutation_ops=sorted(set(m["op"] for m in muts)),
        rule="abstract file = layout x line kinds (TLC: exhaustive <= 3 lines, LCG sample 4..8 lines), each concretised "
             "in several seeded variants; plus seeded byte mutations of shipped and generated STL files; each file is "
             "loaded by the real LoadSTL / ImportSTL in a child process and judged by StlLoaderTrace.tla"))
    if drift:
        chk.cov["drift_example"] = {k: drift[0][k] for k in ("recipe", "size", "hchi", "hclo", "cnv", "cstop", "out", "n")}
    for o in (obs[0], obs[nabs // 2], obs[nabs - 1], obs[nabs], obs[-1]):
        chk.sample({k: o[k] for k in ("recipe", "size", "hchi", "hclo", "cnv", "cstop", "out", "n", "alloc", "imp")})
