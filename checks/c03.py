"""C03 - exact primitives are Euclidean; compositions never overestimate distance.

Stage 1 (checks/csgcommon.py): CSGMachine.tla carries the flags exact / lip1 as the property states them and checks
Val = Dist (independent clamp-form distance) for exact chains and |Val(p)-Val(q)| <= |p-q| for lattice neighbours;
CSGTrace.tla clause C03 judges the REAL values: exact chains equal Dist, lip1 programs change by at most |p-q| between
lattice neighbours (axis and diagonal).
Stage 2 (measured, judged by LawTrace.tla): every exact primitive against closed-form / brute-force distance oracles at
seeded points (inside, outside, medial, on the axis, far away; rounding up to the admissible maximum), exactness of
rigid transform / uniform scale / outward offset / one-sided full revolution; Lipschitz ratio on random point pairs
(steps 1e-6 .. 2) for every listed composition of the seeded catalogue.
"""
import json
import vlib
import csgcommon

LEVEL = "model_checking"


def lines(out):
    return [json.loads(x) for x in out.splitlines() if x.strip()]


def stage2(chk):
    ex = lambda: lines(chk.vh(["c03-exact"], timeout=1800))
    ev = ex()
    bad = chk.validate("LawTrace", ev, chunks=1, timeout=900, name="LawTrace:exact")
    chk.traces += len(ev)
    if bad:
        again = {e["law"] for e, _ in chk.validate("LawTrace", ex(), chunks=1, timeout=900)}
        for e, why in bad:
            if e["law"] not in again:
                raise vlib.Inconclusive("rejected oracle comparison did not reproduce: " + e["law"])
            chk.violation("%s:%s" % (e["law"], why), "%s deviates from the distance oracle by %d e-12 (relative): %s" % (
                e["law"], e["maxerr"], e["worst"][:300]), dict(kind="exact", obs=e))
    chk.cov["oracle_comparisons"] = {e["law"]: e["n"] for e in ev}
    lp = lambda: lines(chk.vh(["c03-lip"], timeout=1800))
    lev = lp()
    bad = chk.validate("LipTrace", lev, chunks=1, timeout=900)
    chk.traces += len(lev)
    if bad:
        again = {(e["ctor"], e["name"]) for e, _ in chk.validate("LipTrace", lp(), chunks=1, timeout=900)}
        for e, why in bad:
            if (e["ctor"], e["name"]) not in again:
                raise vlib.Inconclusive("rejected Lipschitz sample did not reproduce: %s %s" % (e["ctor"], e["name"]))
            chk.violation("lipschitz:%s:%s:%s" % (e["ctor"], why, e["name"]),
                          "%s (%s): measured |df|/|dp| - 1 = %d e-12 over %d pairs; worst %s" % (
                              e["ctor"], e["name"], e["excess"], e["n"], e["worst"][:300]), dict(kind="lip", obs=e))
    chk.cov["lipschitz_shapes"] = len(lev)
    chk.cov["lipschitz_pairs"] = sum(e["n"] for e in lev)
    chk.cov["lipschitz_constructors"] = sorted({e["ctor"] for e in lev})
    chk.sample(dict(oracle=ev[0], lipschitz={k: lev[0][k] for k in ("ctor", "name", "n", "excess")}))


def run(chk, replay):
    chk.build()
    chk.assumptions += [
        "exactness under offsetting is claimed (and checked) for outward offsets of convex primitives only: an inward "
        "offset of a sharp-cornered shape is an under-estimate by construction, which the never-overestimate clause allows",
        "lattice sub-domain as in C01/C02; Lipschitz between lattice neighbours uses logged values in 1e-6 units",
        "stage 2: distance oracles (clamp form, segment / polygon brute force, inset-and-dilate cone) are harness code; "
        "TLC judges measured deviations (DESIGN section 10)",
    ]
    if replay:
        r = replay["replay"]
        chk.seed = replay.get("seed", chk.seed)
        chk.tier = replay.get("tier", chk.tier)
        if r.get("kind") == "csg":
            csgcommon.stage1(chk, "C03", r["vector"])
        else:
            stage2(chk)
        return
    csgcommon.stage1(chk, "C03")
    stage2(chk)
    chk.cov["rule"] = ("lattice programs with the exact / lip1 flags of the property, judged on real values; measured "
                       "oracle comparisons and Lipschitz ratios on seeded real-valued shapes")
