"""C01 - bounding boxes enclose the solid they describe.

Stage 1 (checks/csgcommon.py): M CSGMachine.tla (BBcode encloses, on the exact lattice) / R real constructors /
T CSGTrace.tla clause C01 (box finite, ordered, contains every logged strictly negative lattice point; BBcode only as drift).
Stage 2: harness c01-probe builds every remaining constructor named in the property with seeded real parameters,
placed away from the origin / in negative quadrants / rotated / mirrored (rounded primitives, cones, capsules, Line2D,
polygons, arbitrary rotations, non-uniform scale, the extrusion family, loft, revolve, screw, slice, voxel, text, cams,
flange, rack, gear, spiral, splines and every obj part with the examples' parameter sets) and probes Evaluate on a
stratified grid over the box enlarged by 50 %, on its faces and outside; BBoxTrace.tla judges the measured counts.
"""
import json
import vlib
import csgcommon

LEVEL = "model_checking"


def run_probe(chk):
    out = chk.vh(["c01-probe"], timeout=2400)
    ev = [json.loads(x) for x in out.splitlines() if x.strip()]
    if not ev:
        raise vlib.Inconclusive("c01-probe produced nothing")
    return ev


def probes(chk, only=None):
    ev = run_probe(chk)
    errs = [e for e in ev if e["err"]]
    ok = [e for e in ev if not e["err"]]
    if only:
        ok = [e for e in ok if (e["ctor"], e["name"]) == only]
        if not ok:
            raise vlib.Inconclusive("shape %s/%s not in the catalogue of this seed/tier" % only)
    bad = chk.validate("BBoxTrace", ok, chunks=1, timeout=900)
    empty = [(e["ctor"], e["name"]) for e in getattr(chk, "last_drift", [])]
    chk.traces += len(ok)
    if bad:
        again = {(e["ctor"], e["name"]) for e in run_probe(chk) if not e["err"] and (e["fin"] == 0 or e["ord"] == 0 or e["negout"] > 0)}
        for e, why in bad:
            if (e["ctor"], e["name"]) not in again:
                raise vlib.Inconclusive("rejected probe did not reproduce: %s %s" % (e["ctor"], e["name"]))
            chk.violation("bbox:%s:%s:%s" % (e["ctor"], why, e["name"]),
                          "%s (%s): %s; box finite=%d ordered=%d, %d of %d probes strictly negative, %d of them outside the box; "
                          "worst escaping probe (coordinates, value; units 1e-6): %s" % (
                              e["ctor"], e["name"], why, e["fin"], e["ord"], e["neg"], e["probes"], e["negout"], e["worst"]),
                          dict(kind="probe", ctor=e["ctor"], name=e["name"]))
    ctors = sorted({e["ctor"] for e in ok})
    chk.sample(dict(probe=dict((k, ok[0][k]) for k in ("ctor", "name", "probes", "neg", "negout", "size"))))
    chk.cov.update(dict(
        probed_shapes=len(ok), probed_constructors=len(ctors), probed_constructor_names=ctors,
        probes_evaluated=sum(e["probes"] for e in ok),
        shapes_where_no_probe_was_negative=len(empty),
        constructor_errors=["%s:%s:%s" % (e["ctor"], e["name"], e["err"][:80]) for e in errs][:40],
        probe_rule="seeded real parameters; stratified jittered grid over the box enlarged by 50%, on/just outside "
                   "its faces and a shell 60% out; a probe counts as outside/negative beyond 1e-9 of the box diagonal"))


def run(chk, replay):
    chk.build()
    chk.assumptions += [
        "lattice sub-domain: integer/half-size parameters, signed-permutation transforms, n in {1,2,4}; the "
        "quantifier 'all points' is the integer window two cells larger than the boxes",
        "projection (outward rounding of boxes to 2^-10, values to 1e-6, sign class w.r.t. 1e-9) is harness code",
        "stage 2: 'all points of space' is a stratified sample; TLC judges measured counts, it does not compute them "
        "(DESIGN section 10); the gyroid (documented point box) is excluded as the property says",
    ]
    if replay:
        r = replay["replay"]
        chk.seed = replay.get("seed", chk.seed)
        chk.tier = replay.get("tier", chk.tier)
        if r.get("kind") == "csg":
            csgcommon.stage1(chk, "C01", r["vector"])
        elif r.get("kind") == "probe":
            probes(chk, (r["ctor"], r["name"]))
        else:
            raise vlib.Inconclusive("unknown replay kind")
        return
    csgcommon.stage1(chk, "C01")
    probes(chk)
    chk.cov["rule"] = ("programs = expression trees over the real constructors on the exact lattice (exhaustive over "
                       "placed primitives x one constructor, LCG-sampled deeper), each judged on its whole integer "
                       "window; plus measured probes of every constructor without lattice semantics")
