"""C16 - pruned evaluation equals exhaustive evaluation; the point-to-box distance interval is exact.

M  BoxDistM.tla: every integer box in [0..B]^d x every point of [-2..B+2]^d (all 9 / 27 position
   classes): the definition (clamp / farthest corner) is cross-checked against brute force, and the
   transcription of Box2/Box3.MinMaxDist2 AS WRITTEN is compared with it (differences are printed as
   MODELBAD and are not a verdict).  OverlapM.tla: Interval.Overlap vs "share a value".
   UnionM.tla: operand sets (archetype x every placement of a second shape, both orders; LCG-drawn
   sets of 2-3 boxes/circles: nested, equal, far apart) x {min, PolyMin(k)}: the transcription of
   UnionSDF2.Evaluate against the min over all operands, in outward-rounded interval arithmetic.
R  every exported box / interval batch / operand set is executed on the REAL Box2/Box3.MinMaxDist2,
   Interval.Overlap, Union2D(...).Evaluate and (*UnionSDF2).EvaluateSlow at every point of the window.
T  seeded random dyadic and float boxes/points, interval pairs with ties, random real operand sets
   and blend radii.  BoxTrace.tla / UnionTrace.tla judge every real observation against the
   DEFINITION (verdict); differences from the code-shaped transcription are drift only.
"""
import json, re
import vlib

LEVEL = "model_checking"

BOX_CFG = """SPECIFICATION Spec
CONSTANT Dim = %d
CONSTANT BMax = %d
CONSTANT Margin = 2
CONSTANT Brute = %s
CONSTANT Emit = TRUE
INVARIANT BoxOK
CHECK_DEADLOCK FALSE
"""
OVL_CFG = """SPECIFICATION Spec
CONSTANT IMax = %d
CONSTANT Emit = TRUE
INVARIANT OverlapOK
CHECK_DEADLOCK FALSE
"""
UNI_CFG = """SPECIFICATION Spec
CONSTANT W = %d
CONSTANT Mg = 2
CONSTANT Fam = "%s"
CONSTANT NArch = %d
CONSTANT Ks = {%s}
CONSTANT Sample = %d
CONSTANT Seed = %d
CONSTANT Emit = TRUE
INVARIANT SetOK
CHECK_DEADLOCK FALSE
"""

REPORT_ONLY = ("box", "p", "desc", "bits")      # float / text fields of random observations: not read by TLC
MAX_CONFIRM = 6                          # examples confirmed (and reported) per violation class


def strip(e):
    return {k: v for k, v in e.items() if k not in REPORT_ONLY}


def ints(s):
    return [int(x) for x in re.findall(r"-?\d+", s)]


def replay(chk, vectors, timeout=1800):
    text = "\n".join(json.dumps(v) for v in vectors) + "\n"
    out = chk.vh(["c16-replay"], stdin=text, timeout=timeout)
    obs = [json.loads(x) for x in out.splitlines() if x.strip()]
    if len(obs) != len(vectors):
        raise vlib.Inconclusive("replay returned %d observations for %d vectors" % (len(obs), len(vectors)))
    return obs


def parts_of(why):
    """'min:edge-region:<<1, 3, 3>>|max:...|' -> [(kind, region, [ints])]"""
    if why.startswith("machinery:"):
        raise vlib.Inconclusive("trace spec reports a machinery problem: " + why)
    res = []
    for part in why.split("|"):
        if not part:
            continue
        f = part.split(":")
        res.append((f[0], f[1] if len(f) > 2 else "", ints(f[-1])))
    if not res:
        raise vlib.Inconclusive("unparsable rejection: %r" % why)
    return res


# ------------------------------------------------------------------ boxes / intervals
def box_key(d, kind, region):
    return "box%d-minmax:%s%s" % (d, "" if kind == "min" else "max-", region)


def judge_boxes(chk, obs, chunk_size):
    """-> {class key: [single-point vector, ...]} of rejected real observations (not yet confirmed)"""
    stripped = [strip(o) for o in obs]
    full = {id(t): o for t, o in zip(stripped, obs)}
    bad = chk.validate("BoxTrace", stripped, timeout=2400, chunk_size=chunk_size)
    found = {}
    for e, why in bad:
        e = full[id(e)]
        for kind, region, p in parts_of(why):
            if kind == "overlap":
                v = dict(t="ovl", prs=[p])
                # the pair was drawn as floats (p are the ranks of its end points): replay the same floats
                want = 1 if (p[2] <= p[1] and p[0] <= p[3]) else 0
                ks = [k for k, q in enumerate(e["prs"]) if q == p and e["res"][k] != want and k < len(e.get("bits", []))]
                if ks:
                    v["bits"] = [e["bits"][ks[0]]]
                found.setdefault("interval-overlap", []).append(v)
            elif e["ev"] == "boxf":
                found.setdefault(box_key(e["d"], kind, region) + ":float", []).append(dict(t="boxf", idx=e["idx"], point=p[0]))
            else:
                found.setdefault(box_key(e["d"], kind, region), []).append(
                    dict(t="pts", d=e["d"], q=e.get("q", 0), lo=e["lo"], hi=e["hi"], pts=[p]))
    return found


def confirm_boxes(chk, found, where):
    """re-run single cases; report confirmed ones"""
    total = {}
    for cls, vecs in sorted(found.items()):
        total[cls] = len(vecs)
        if cls.endswith(":float"):
            continue            # confirmed by the caller (re-run of the seeded generator)
        first = vecs[:MAX_CONFIRM]
        obs = replay(chk, first)
        again = judge_boxes(chk, obs, 50)
        if len(again.get(cls, [])) != len(first):
            raise vlib.Inconclusive("rejected %s observation did not reproduce: %s" % (cls, first[0]))
        for v, o in zip(first, obs):
            if v["t"] == "ovl":
                key = "%s:%s" % (cls, v["prs"][0])
                ends = v["prs"][0]
                if v.get("bits"):
                    import struct
                    ends = [struct.unpack("<d", struct.pack("<Q", int(t)))[0] for t in v["bits"][0]]
                    key += ":float"
                desc = "REAL Interval%s.Overlap(Interval%s) = %s, but the closed intervals %s a value" % (
                    list(ends[:2]), list(ends[2:]), bool(o["res"][0]), "do not share" if o["res"][0] else "share")
            else:
                q = v["q"] or 1
                key = "%s:q=%d:lo=%s:hi=%s:p=%s" % (cls, q, v["lo"], v["hi"], v["pts"][0])
                desc = ("REAL Box%d.MinMaxDist2: box lo=%s hi=%s point %s (units 1/%d): returned [min,max]=[%d,%d] "
                        "(units 1/%d^2); the %s squared distance of the definition differs (%s, %s)" % (
                            v["d"], v["lo"], v["hi"], v["pts"][0], q, o["mins"][0], o["maxs"][0], q,
                            "farthest" if ":max-" in cls else "nearest", cls, where))
            chk.violation(key.replace(" ", ""), desc, dict(kind="vector", part="box", vector=v))
    return total


def run_boxes(chk, dim, bmax, brute, model_only=False):
    res = chk.tlc("BoxDistM", cfg_text=BOX_CFG % (dim, bmax, "TRUE" if brute else "FALSE"), timeout=3000,
                  extra=["-continue"], name="BoxDistM %dD boxes in [0..%d]" % (dim, bmax))
    chk.model_ok(res, "BoxDistM (definition vs brute force)")
    vec = res.printed_json("VEC")
    flagged = res.printed_json("MODELBAD")
    if not vec:
        raise vlib.Inconclusive("BoxDistM exported no vectors")
    if model_only:       # oracle cross-check against brute force; these boxes are replayed by the larger run
        chk.cov.setdefault("box_plans", []).append(dict(dim=dim, boxes=len(vec), coords="[0..%d]" % bmax, model_only=True,
                                                        definition_equals_brute_force=True))
        return
    obs = replay(chk, vec)
    chk.traces += len(obs)
    npts = sum(len(o["mins"]) for o in obs)
    found = judge_boxes(chk, obs, 60 if dim == 3 else 40)
    drift = len(getattr(chk, "last_drift", []))
    total = confirm_boxes(chk, found, "lattice")
    if flagged and not found:
        chk.notes.append("BoxDist.tla's transcription of Box%d.MinMaxDist2 differs from the definition for %d boxes "
                         "(regions %s) but the REAL code was accepted everywhere (%d drifting boxes): the code no "
                         "longer matches the transcription there (repaired?)" % (
                             dim, len(flagged), sorted({r for f in flagged for r in f["minregions"]}), drift))
    chk.cov.setdefault("box_plans", []).append(dict(
        dim=dim, boxes=len(obs), box_point_pairs=npts, exhaustive=True, coords="[0..%d]" % bmax,
        points="[-2..%d]^%d" % (bmax + 2, dim), transcription_differs_from_definition_boxes=len(flagged),
        real_rejected_boxes_by_class=total, real_drift_from_transcription_boxes=drift))
    chk.sample(dict(box=dict(lo=obs[-1]["lo"], hi=obs[-1]["hi"]), points=len(obs[-1]["mins"]),
                    first_min_max=[obs[-1]["mins"][0], obs[-1]["maxs"][0]]))


def run_overlap(chk, imax):
    res = chk.tlc("OverlapM", cfg_text=OVL_CFG % imax, timeout=300, workers=2, extra=["-continue"], name="OverlapM")
    flagged = res.printed_json("MODELBAD")
    if res.violated and not flagged:
        raise vlib.Inconclusive("OverlapM failed: %s\n%s" % (res.violated, res.out[-2000:]))
    vec = res.printed_json("VEC")
    obs = replay(chk, vec)
    chk.traces += len(obs)
    found = judge_boxes(chk, obs, 100)
    total = confirm_boxes(chk, found, "lattice")
    if flagged and not found:
        chk.notes.append("OverlapCode differs from ShareValue in the model but the real Interval.Overlap was accepted")
    chk.cov["interval_pairs"] = sum(len(o["prs"]) for o in obs)
    chk.cov["interval_pairs_rejected"] = total


# ------------------------------------------------------------------ union
def uni_key(kind):
    return {"blend-sign": "union2d-blend-prune", "default-min-value": "union2d-default-min",
            "default-min-value-undercut": "union2d-default-min-undercutting-operand",
            "exhaustive-not-min-of-operands": "union2d-exhaustive-not-min-of-operands"}[kind]


def judge_unions(chk, obs, chunk_size=100):
    bad = chk.validate("UnionTrace", [strip(o) for o in obs], timeout=2400, chunk_size=chunk_size)
    found = {}
    for e, why in bad:
        for kind, _, p in parts_of(why):
            if e["ev"] == "uni":
                v = dict(t="uni", ops=e["ops"], kn=e["kn"], kd=e["kd"], win=[p[0], p[1], p[0], p[1]])
            else:
                v = dict(t="unir", idx=e["idx"], point=p[0])
            found.setdefault(uni_key(kind) + (":random" if e["ev"] == "unir" else ""), []).append(v)
    return found


def opstr(ops):
    return "+".join(("box[%d,%d]x[%d,%d]" % (o["a"], o["c"], o["b"], o["d"])) if o["t"] == "b"
                    else ("circle(%d,%d;r=%d)" % (o["a"], o["b"], o["c"])) for o in ops)


def confirm_unions(chk, found):
    total = {}
    for cls, vecs in sorted(found.items()):
        total[cls] = len(vecs)
        if cls.endswith(":random"):
            continue
        first = vecs[:MAX_CONFIRM]
        obs = replay(chk, first)
        again = judge_unions(chk, obs, 50)
        if len(again.get(cls, [])) != len(first):
            raise vlib.Inconclusive("rejected %s observation did not reproduce: %s" % (cls, first[0]))
        for v, o in zip(first, obs):
            k = "min" if v["kn"] == 0 else "PolyMin(%d/%d)" % (v["kn"], v["kd"])
            key = "%s:%s:%s:p=%s" % (cls, opstr(v["ops"]), k, v["win"][:2])
            desc = ("REAL Union2D(%s) with %s at p=%s: Evaluate = %.6f but EvaluateSlow = %.6f (%s)" % (
                opstr(v["ops"]), k, v["win"][:2], o["fv"][0] / 1e6, o["sv"][0] / 1e6,
                "different inside/outside" if v["kn"] else "values differ"))
            chk.violation(key.replace(" ", ""), desc, dict(kind="vector", part="union", vector=v))
    return total


def run_unions(chk, plans):
    allvec, flagged = [], []
    for w, fam, narch, ks, sample in plans:
        res = chk.tlc("UnionM", cfg_text=UNI_CFG % (w, fam, narch, ", ".join(map(str, ks)), sample, chk.seed % 60000),
                      timeout=3000, extra=["-continue"], name="UnionM %s W=%d" % (fam, w))
        chk.model_ok(res, "UnionM")
        vec = res.printed_json("VEC")
        mb = res.printed_json("MODELBAD")
        flagged += mb
        allvec += vec
        chk.cov.setdefault("union_plans", []).append(dict(
            family=fam, window=w, operand_sets_x_blends=len(vec), exhaustive=(fam == "slide"),
            blends=["min"] + ["PolyMin(%d/%d)" % (k // 100, k % 100) for k in ks],
            points_per_set=(w + 5) ** 2, model_flags_pruning=len(mb)))
    seen, uniq = set(), []
    for v in allvec:
        k = json.dumps(v, sort_keys=True)
        if k not in seen:
            seen.add(k)
            uniq.append(v)
    obs = replay(chk, uniq)
    chk.traces += len(obs)
    found = judge_unions(chk, obs)
    drift = len(getattr(chk, "last_drift", []))
    total = confirm_unions(chk, found)
    if flagged and not found:
        chk.notes.append("UnionPrune.tla's transcription of UnionSDF2.Evaluate loses the sign under a blend for %d "
                         "operand sets but the REAL code was accepted everywhere (%d drifting sets): the code no longer "
                         "prunes like the transcription (repaired?)" % (len(flagged), drift))
    chk.cov["union_sets_judged"] = len(obs)
    chk.cov["union_points_judged"] = sum(len(o["fs"]) for o in obs)
    chk.cov["union_sets_where_pruning_changed_the_result"] = sum(1 for o in obs if 0 in o["eq"])
    chk.cov["union_real_rejected_by_class"] = total
    chk.cov["union_real_drift_from_transcription"] = drift
    o = obs[len(obs) // 2]
    chk.sample(dict(union=opstr(o["ops"]), kn=o["kn"], kd=o["kd"], points=len(o["fs"]), fast_1e6=o["fv"][:3], slow_1e6=o["sv"][:3]))


# ------------------------------------------------------------------ T: random
def random_boxes(chk, only=None):
    def run_once():
        out = chk.vh(["c16-random"], timeout=600)
        return [json.loads(x) for x in out.splitlines() if x.strip()]
    obs = run_once()
    if only is not None:
        obs = [o for o in obs if o["ev"] == "boxf" and o["idx"] == only]
    found = judge_boxes(chk, obs, 60)
    chk.traces += len(obs)
    total = confirm_boxes(chk, found, "seeded random dyadic reals")
    fl = {c: v for c, v in found.items() if c.endswith(":float")}
    if fl:
        byidx = {o["idx"]: o for o in run_once() if o["ev"] == "boxf"}
        again = judge_boxes(chk, [byidx[v["idx"]] for vs in fl.values() for v in vs[:MAX_CONFIRM]], 50)
        for cls, vs in sorted(fl.items()):
            for v in vs[:MAX_CONFIRM]:
                if v not in again.get(cls, []):
                    raise vlib.Inconclusive("rejected float observation did not reproduce: %s" % v)
                o = byidx[v["idx"]]
                i = v["point"] - 1
                chk.violation("%s:seed=%d:idx=%d:point=%d" % (cls[:-6], chk.seed, v["idx"], v["point"]),
                              "REAL Box%d.MinMaxDist2 box %s point %s (%s): relative error of min %de-12, of max %de-12" % (
                                  o["d"], o["box"], o["p"][i], o["reg"][i], o["emin"][i], o["emax"][i]),
                              dict(kind="random", part="boxf", idx=v["idx"], seed=chk.seed, tier=chk.tier))
    chk.cov["random_box_events"] = len(obs)
    chk.cov["random_box_point_pairs"] = sum(len(o.get("mins", o.get("emin", []))) for o in obs if o["ev"] != "ovl")
    chk.cov["random_rejected_by_class"] = total


def random_unions(chk, only=None):
    def run_once(idx=None):
        out = chk.vh(["c16-urandom"] + ([str(idx)] if idx is not None else []), timeout=900)
        return [json.loads(x) for x in out.splitlines() if x.strip()]
    obs = run_once(only)
    found = judge_unions(chk, obs, 40)
    chk.traces += len(obs)
    for cls, vs in sorted(found.items()):
        for v in vs[:MAX_CONFIRM]:
            o = run_once(v["idx"])[0]
            if v not in judge_unions(chk, [o], 50).get(cls, []):
                raise vlib.Inconclusive("rejected random union observation did not reproduce: %s" % v)
            i = v["point"] - 1
            chk.violation("%s:seed=%d:idx=%d:point=%d" % (cls[:-7], chk.seed, v["idx"], v["point"]),
                          "REAL Union2D of %s at p=%s: Evaluate = %.9f but EvaluateSlow = %.9f" % (
                              o["desc"], o["p"][i], o["fv"][i] / 1e6, o["sv"][i] / 1e6),
                          dict(kind="random", part="unir", idx=v["idx"], seed=chk.seed, tier=chk.tier))
    chk.cov["random_union_sets"] = len(obs)
    chk.cov["random_union_sets_with_blend"] = sum(1 for o in obs if o["kn"])
    chk.cov["random_union_points"] = sum(len(o["fs"]) for o in obs)
    chk.cov["random_union_rejected_by_class"] = {c: len(v) for c, v in found.items()}


def run(chk, replay_rec):
    chk.build()
    chk.assumptions += [
        "boxes and intervals are proper (lo <= hi); an improper Interval is outside the documented domain",
        "operand bounding boxes are those the library computes for Box2D / Circle2D under a translation",
        "the projection (float64 -> integer squared distance, sign class w.r.t. 1e-9, value in 1e-6 units, error in "
        "1e-12 units) is harness code; squared distances of lattice and dyadic inputs are exact in float64",
        "union values in the model are outward-rounded intervals (1/16 units): a sign is compared only when certain",
    ]
    if replay_rec:
        r = replay_rec["replay"]
        if r["kind"] == "vector" and r["part"] == "box":
            obs = replay(chk, [r["vector"]])
            chk.traces += 1
            confirm_boxes(chk, judge_boxes(chk, obs, 50), "replay")
        elif r["kind"] == "vector":
            obs = replay(chk, [r["vector"]])
            chk.traces += 1
            confirm_unions(chk, judge_unions(chk, obs, 50))
        else:
            chk.seed = r.get("seed", chk.seed)
            chk.tier = r.get("tier", chk.tier)
            (random_boxes if r["part"] == "boxf" else random_unions)(chk, r["idx"])
        return
    quick = chk.tier == "quick"
    run_boxes(chk, 2, 4, True)
    run_boxes(chk, 3, 2, True, model_only=True)
    run_boxes(chk, 3, 3 if quick else 4, False)
    run_overlap(chk, 5 if quick else 7)
    if quick:
        plans = [(6, "slide", 2, [102, 1201], 0), (8, "mix", 0, [102, 301, 1201], 120)]
    else:
        plans = [(8, "slide", 6, [102, 301, 1201], 0), (8, "mix", 0, [102, 301, 601, 1201], 800)]
    run_unions(chk, plans)
    random_boxes(chk)
    random_unions(chk)
    chk.cov["rule"] = ("every box x point and every operand set x blend x point exported by TLC is executed on the real "
                       "library; the trace specs judge the real results against the definition (clamp / farthest "
                       "corner / share-a-value / EvaluateSlow)")
