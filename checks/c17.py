"""C17 - profile builders (sdf.Polygon, sdf.Nagon, sdf.Bezier) produce the geometry they specify.

M  PolyBuilder.tla: the vertex-list rewriting machine of Polygon.Vertices() (Drop, Polar, RelToAbs, createArcs,
   smoothVertices in index order with the exact fit rule - tangent lengths in Q(sqrt 2) -, Chamfer as a 1-facet
   fillet, Reverse, Close) producing one ITEM per output vertex (exact point / exact circle / measured fillet or
   arc point); the property's clauses (count, tangent points, on-circle, centre tangent to both edges,
   unchanged-when-it-does-not-fit) are invariants on the rational family.  PolyBuilderM.tla enumerates all single
   corners (8 x 6 compass direction pairs = 45/90/135 degrees both ways, edge lengths 1..3, radii 1..2, facets 1..3
   + chamfer), all w x h rectangles with four competing fillets (exact fits included), LCG-drawn compass walks
   of 3..5 vertices mixing absolute / relative / polar vertices, Smooth, Chamfer, Arc, Close, Reverse, Drop, Nagon(4).
   Bezier.tla / BezierM.tla: structure of lattice control polygons (spans, degrees 1..4, closing).
R  every program on the REAL builder; every output vertex measured against its item; PolyTrace.tla recomputes the
   expectation from the program and judges.
T  seeded real-valued corners (angles near 0 and 180 degrees, both turning directions, either edge too short, near
   the fit boundary), arcs (random chords / radii / signs, semicircles), N-gons 3..24, Bezier curves (lattice
   vectors + random control polygons and handle specifications): nearest-parameter search by de Casteljau;
   PolyMeasTrace.tla judges.
"""
import hashlib
import json
import vlib

LEVEL = "model_checking"

POLY_CFG = """SPECIFICATION Spec
CONSTANT Fam = "%s"
CONSTANT Emit = TRUE
CONSTANT Sample = %d
CONSTANT Seed = %d
INVARIANT PolyOK
CHECK_DEADLOCK FALSE
"""

BEZ_CFG = """SPECIFICATION Spec
CONSTANT Emit = TRUE
CONSTANT Sample = %d
CONSTANT Seed = %d
INVARIANT BezOK
CHECK_DEADLOCK FALSE
"""


def why_guard(modules):
    import os, re
    for m in modules:
        text = open(os.path.join(vlib.SPEC, "trace", m + ".tla")).read()
        for w in re.findall(r'"([a-zA-Z0-9+.\-]+-[a-zA-Z0-9+.\-]+)"', text):
            if len(w) > 50:
                raise vlib.Inconclusive("%s: reason %r is too long to be printed on one line" % (m, w))


def ndjson(vs):
    return "\n".join(json.dumps(v) for v in vs) + "\n"


def parse(out):
    return [json.loads(x) for x in out.splitlines() if x.strip()]


def vec_of(e):
    if e["kind"] == "nagon":
        return dict(kind="nagon", n=e["ng"], r=e["rg"], exp=e["exp"], exact=0)
    return dict(kind="poly", prog=e["prog"], exp=e["exp"], exact=e.get("_exact", 0))


def pkey(e, why):
    if e["kind"] == "nagon":
        return "nagon4:r=%d:%s" % (e["rg"], why)
    js = json.dumps(e["prog"], sort_keys=True, separators=(",", ":"))
    # a tangent point of an exactly fitting fillet coincides with the neighbouring vertex
    return "poly:%s:%s:%s" % (why, "exactfit" if e.get("_exact", 0) > 0 else "noexact", hashlib.sha1(js.encode()).hexdigest()[:10])


def replay_and_judge(chk, vectors):
    obs = parse(chk.vh(["c17-replay"], stdin=ndjson(vectors), timeout=900))
    if len(obs) != len(vectors):
        raise vlib.Inconclusive("replay returned %d observations for %d vectors" % (len(obs), len(vectors)))
    for o, v in zip(obs, vectors):
        o["_exact"] = v.get("exact", 0)
    clean = [{k: x for k, x in o.items() if not k.startswith("_")} for o in obs]
    bad = chk.validate("PolyTrace", clean, timeout=1800, chunk_size=500)
    idx = {json.dumps(c, sort_keys=True): o for c, o in zip(clean, obs)}
    return obs, [(idx[json.dumps(e, sort_keys=True)], why) for e, why in bad]


def mkey(e, why):
    if e["ev"] == "corner":
        return "corner:%s:%s:id=%d" % (why, e["cls"], e["id"])
    if e["ev"] == "arc":
        return "arc:%s:%s:id=%d" % (why, "semi" if e["semi"] else "gen", e["id"])
    if e["ev"] == "nagon":
        return "nagon:%s:n=%d" % (why, e["ng"])
    return "bezier:%s:%s:id=%d" % (why, e["kind"], e["id"])


def measured(chk, bez_vectors):
    m1 = parse(chk.vh(["c17-measure"], timeout=1800))
    m2 = parse(chk.vh(["c17-bezier"], stdin=ndjson(bez_vectors), timeout=3000))
    obs = m1 + m2
    if not m1 or not m2:
        raise vlib.Inconclusive("no measurements")
    return obs, chk.validate("PolyMeasTrace", obs, timeout=1800, chunk_size=700)


def run(chk, replay):
    why_guard(["PolyTrace", "PolyMeasTrace"])
    chk.build()
    chk.assumptions += [
        "the analytic fillet / arc / de Casteljau geometry against which real vertices are measured is harness code "
        "(independent of the library: half-angle by atan2, tangent points, centre on the bisector)",
        "a fillet that fits EXACTLY (tangent length = remaining edge) is the boundary of the fit rule: a vertex count that "
        "differs from the model there is drift, not a violation; NaN coordinates are never accepted",
        "measured corners within 1e-6 (relative) of the fit boundary and arcs whose radius is below half the chord in exact "
        "arithmetic are not judged (counted)",
        "the side of an arc for a positive radius is taken from the first arc observed; the code's present convention is "
        "compared as drift only",
        "T part: TLC judges measured numbers, it does not compute them (DESIGN section 10)",
    ]
    if replay:
        r = replay["replay"]
        if r.get("kind") == "measure":
            raise vlib.Inconclusive("measured observations are re-run by the seed, not by vector: use VERIF_SEED=%s" % replay.get("seed"))
        obs, bad = replay_and_judge(chk, [r["vector"]])
        chk.traces += 1
        for e, why in bad:
            chk.violation(pkey(e, why), "replayed program rejected: " + why, r)
        return

    # ---------------------------------------------------------------- M: programs
    nwalk = 1500 if chk.tier == "quick" else 12000
    allvec, plans = [], []
    for fam, sample in (("corner", 0), ("rect", 0), ("nagon", 0), ("walk", nwalk)):
        res = chk.tlc("PolyBuilderM", cfg_text=POLY_CFG % (fam, sample, chk.seed % 60000), timeout=3000,
                      extra=["-continue"], name="PolyBuilderM " + fam)
        mb = res.printed("MODELBAD")
        if res.violated or mb:
            raise vlib.Inconclusive("PolyBuilder.tla violates its own clauses (model-level, not a verdict): %s %s" % (res.violated, mb[:2]))
        vec = res.printed_json("VEC")
        seen, uniq = set(), []
        for v in vec:
            k = json.dumps(v, sort_keys=True)
            if k not in seen:
                seen.add(k)
                uniq.append(v)
        plans.append(dict(family=fam, programs=len(uniq), exhaustive=(sample == 0),
                          with_an_exactly_fitting_fillet=sum(1 for v in uniq if v.get("exact", 0) > 0)))
        allvec += uniq
    if not allvec:
        raise vlib.Inconclusive("no vectors exported by TLC")

    # ---------------------------------------------------------------- R
    obs, bad = replay_and_judge(chk, allvec)
    chk.traces += len(obs)
    drift = len(getattr(chk, "last_drift", []))
    if bad:
        # known findings must not use up the quota of confirmations
        import re
        kn = [k["key"] for k in chk.known()]
        is_known = lambda e, why: any(re.fullmatch(k, pkey(e, why)) for k in kn)
        first = [b for b in bad if is_known(*b)][:5] + [b for b in bad if not is_known(*b)][:40]
        vs = []
        for e, _ in first:
            vs.append(vec_of(e))
        o2, b2 = replay_and_judge(chk, vs)
        again = {}
        for e, why in b2:
            again.setdefault(pkey(e, why), why)
        for e, why in first:
            k = pkey(e, why)
            if k not in again:
                raise vlib.Inconclusive("rejected program did not reproduce: " + k)
            chk.violation(k, "real Polygon.Vertices() of %s rejected: %s (n=%d, expected %d items, first vertices %s e-6)" % (
                json.dumps(e.get("prog") or dict(nagon=e["ng"], r=e["rg"]), separators=(",", ":")), why, e["n"], len(e["exp"]), e["first"][:4]),
                dict(kind="poly", vector=vec_of(e), why=why))
    kinds = {}
    for o in obs:
        for it in o["exp"]:
            kinds[it["t"]] = kinds.get(it["t"], 0) + 1
    chk.cov.update(dict(plans=plans, programs_judged=len(obs), items_by_kind=kinds,
                        programs_with_fillet_or_arc=sum(1 for o in obs if any(it["t"] != "p" for it in o["exp"])),
                        programs_with_unfitted_smooth_vertex=sum(
                            1 for o in obs if o["kind"] == "poly" and
                            sum(1 for v in o["prog"]["vs"] if v["k"] in ("s", "c")) > 0 and all(it["t"] in ("p", "a") for it in o["exp"])),
                        drift_exact_fit_or_arc_convention=drift))
    for o in obs[:3000:900]:
        chk.sample(dict(program=o.get("prog"), expected=o["exp"], real_n=o["n"], deviations_e12=o["d"]))

    # ---------------------------------------------------------------- M: Bezier structure ; T: measured
    nb = 300 if chk.tier == "quick" else 2500
    res = chk.tlc("BezierM", cfg_text=BEZ_CFG % (nb, chk.seed % 60000), timeout=1200, extra=["-continue"], name="BezierM")
    mb = res.printed("MODELBAD")
    if res.violated or mb:
        raise vlib.Inconclusive("Bezier.tla structural invariants fail on the model: %s %s" % (res.violated, mb[:2]))
    bvec = res.printed_json("VEC")
    mobs, mbad = measured(chk, bvec)
    chk.traces += len(mobs)
    if mbad:
        o2, b2 = measured(chk, bvec)
        again = {mkey(e, why) for e, why in b2}
        for e, why in mbad:
            k = mkey(e, why)
            if k not in again:
                raise vlib.Inconclusive("rejected measurement did not reproduce: " + k)
            chk.violation(k, "measured %s rejected: %s  [%s]" % (e["ev"], why, {x: e[x] for x in e if x not in ("ev", "v", "u")}),
                          dict(kind="measure", obs=e, why=why))
    by = {}
    for o in mobs:
        k = o["ev"] + (":" + o["cls"] if o["ev"] == "corner" else "") + (":" + o["kind"] if o["ev"] == "bezier" else "")
        by[k] = by.get(k, 0) + 1
    chk.cov["measured_events"] = by
    chk.cov["bezier_max_degree_seen"] = max(o["maxdeg"] for o in mobs if o["ev"] == "bezier")
    chk.cov["bezier_linear_curves"] = sum(1 for o in mobs if o["ev"] == "bezier" and o["linear"])
    chk.cov["arcs_not_judged_radius_below_half_chord"] = sum(1 for o in mobs if o["ev"] == "arc" and not o["feas"])
    chk.sample(dict(corner=next(o for o in mobs if o["ev"] == "corner" and o["cls"] == "fit")))
    chk.sample(dict(bezier={k: v for k, v in next(o for o in mobs if o["ev"] == "bezier" and o["maxdeg"] >= 3).items() if k != "v"}))
    chk.cov["evaluations"] = len(obs) + len(mobs)
    chk.cov["distinct_nontrivial"] = chk.cov["programs_with_fillet_or_arc"] + sum(
        1 for o in mobs if (o["ev"] == "corner" and o["cls"] != "amb") or (o["ev"] == "arc" and o["f"] >= 2 and o["feas"]) or
        o["ev"] == "nagon" or (o["ev"] == "bezier" and o["n"] >= 2))
    chk.cov["exhaustive"] = False
    chk.cov["rule"] = ("programs: all single compass corners and all rectangles of the stated bounds (exhaustive), LCG-drawn walks "
                       "(distinct by program); non-trivial = the expectation contains a fillet or arc item.  measured: seeded "
                       "corners / arcs / N-gons / Bezier curves; non-trivial = judged (not ambiguous)")
