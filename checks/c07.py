"""C07 - hierarchical (octree / quadtree) rendering loses nothing.

M  Octree.tla / Quadtree.tla: the traversal (isEmpty with the half-diagonal test, child order,
   leaf marching) on an exact lattice; invariant NoEmittingCellSkipped for every scene of the
   families: all single L-infinity boxes, sampled two-box unions/differences (thin features), boxes
   cut by a diagonal plane of gradient 0.99 (the tight case of the emptiness test).
R  every exported scene is rendered by the REAL renderer, for f and for f/1024 (nothing prunable).
T  exact Euclidean balls / discs whose surface clips the corner of a level-n cube by 3e-6 .. 3e-3 of its side
   (the tight case of the half-diagonal test), and sequences of renders of one object at changing
   resolutions in one process; HierTrace.tla judges hierarchical = exhaustive (f vs f/1024, exact floats).
   OctTrace.tla / QuadTrace.tla judge: hierarchical output = exhaustive output (the property),
   = the flat-scan model, every vertex the linear zero crossing of a straddling lattice edge;
   the hook-recorded isEmpty decisions are compared with the model's traversal (drift only).
"""
import json
import vlib

LEVEL = "model_checking"

CFG = """SPECIFICATION Spec
CONSTANT M = %d
CONSTANT HMax = %d
CONSTANT Fam = "%s"
CONSTANT Emit = TRUE
CONSTANT Sample = %d
CONSTANT Seed = %d
INVARIANT SceneOK
CHECK_DEADLOCK FALSE
"""


def run_dim(chk, dim, machine, tracemod, cmd, plans, replay_vecs=None):
    def replay_and_judge(vectors):
        text = "\n".join(json.dumps(v) for v in vectors) + "\n"
        out = chk.vh([cmd], stdin=text, timeout=1800)
        obs = [json.loads(x) for x in out.splitlines() if x.strip()]
        if len(obs) != len(vectors):
            raise vlib.Inconclusive("replay returned %d observations for %d vectors" % (len(obs), len(vectors)))
        bad = chk.validate(tracemod, obs, timeout=1800, chunk_size=400)
        return obs, bad

    def key_of(e, why):
        return "%s:%s:%s" % (e["ev"], json.dumps(e["scene"], sort_keys=True, separators=(",", ":")), why)

    if replay_vecs is not None:
        obs, bad = replay_and_judge(replay_vecs)
        chk.traces += len(obs)
        for e, why in bad:
            chk.violation(key_of(e, why), "replayed scene rejected: " + why, dict(dim=dim, vector=e["scene"]))
        return
    allvec, flagged_all, per_plan = [], [], []
    for m, hmax, fam, sample in plans:
        res = chk.tlc(machine, cfg_text=CFG % (m, hmax, fam, sample, chk.seed % 60000), timeout=3000,
                      extra=["-continue"], name="%s M=%d %s%s" % (machine, m, fam, (" sample %d" % sample) if sample else ""))
        mb = res.printed_json("MODELBAD")
        if res.violated and not mb:
            raise vlib.Inconclusive("%s failed without a MODELBAD scene: %s\n%s" % (machine, res.violated, res.out[-2000:]))
        vec = res.printed_json("VEC") + mb
        seen = set()
        uniq = []
        for v in vec:
            v["m"] = m
            k = json.dumps(v, sort_keys=True)
            if k not in seen:
                seen.add(k)
                uniq.append(v)
        flagged_all += mb
        per_plan.append(dict(dim=dim, m=m, hmax=hmax, family=fam, scenes=len(uniq), exhaustive=(sample == 0),
                             model_flagged=len(mb)))
        allvec += uniq
    if not allvec:
        raise vlib.Inconclusive("no vectors exported by TLC")
    obs, bad = replay_and_judge(allvec)
    chk.traces += len(obs)
    drift = len(getattr(chk, "last_drift", []))
    nontrivial = sum(1 for o in obs if len(o["tris" if dim == 3 else "segs"]) > 0)
    pruned = sum(1 for o in obs if any(d[-1] == 1 and d[-2] > 1 for d in o["decisions"]))
    if bad:
        first = bad[:8]
        o2, b2 = replay_and_judge([e["scene"] for e, _ in first])
        again = {json.dumps(e["scene"], sort_keys=True): why for e, why in b2}
        lone = [(e, why) for e, why in first if json.dumps(e["scene"], sort_keys=True) not in again]
        if lone:
            # not rejected when rendered alone: does it depend on the renders that came before it in the same process?
            # (a renderer that keeps state between renders).  Render the whole sequence again, in the same order.
            o3, b3 = replay_and_judge(allvec)
            again3 = {json.dumps(e["scene"], sort_keys=True): why for e, why in b3}
            for e, why in lone:
                k = json.dumps(e["scene"], sort_keys=True)
                if k not in again3:
                    raise vlib.Inconclusive("rejected observation did not reproduce: %s" % k)
                i = next(j for j, o in enumerate(o3) if json.dumps(o["scene"], sort_keys=True) == k)
                chk.violation("after-earlier-renders:" + key_of(e, again3[k]),
                              "real %dD hierarchical render of scene %s is rejected (%s) when it follows the %d earlier renders of the "
                              "same process, twice in a row, but not when rendered alone: the renderer carries state from one render "
                              "into the next" % (dim, k, again3[k], i), dict(dim=dim, vectors=allvec[:i + 1], why=again3[k]))
        for e, why in first:
            k = json.dumps(e["scene"], sort_keys=True)
            if k not in again:
                continue
            chk.violation(key_of(e, again[k]), "real %dD hierarchical render of scene %s rejected: %s" % (dim, k, again[k]),
                          dict(dim=dim, vector=e["scene"], why=again[k]))
    if flagged_all and not bad:
        raise vlib.Inconclusive("model/code divergence: %s flags %d scenes (e.g. %s) but every real output was accepted"
                                % (machine, len(flagged_all), flagged_all[0]))
    for o in obs[:3000:700]:
        chk.sample(dict(dim=dim, scene=o["scene"], items=len(o["tris" if dim == 3 else "segs"]),
                        decisions=len(o["decisions"])))
    chk.cov.setdefault("plans", []).extend(per_plan)
    chk.cov["scenes_judged_%dd" % dim] = len(obs)
    chk.cov["scenes_nontrivial_%dd" % dim] = nontrivial
    chk.cov["scenes_with_a_coarse_cube_skipped_%dd" % dim] = pruned
    chk.cov["traversal_drift_%dd" % dim] = drift


def run(chk, replay):
    chk.build()
    chk.gen()
    chk.assumptions += [
        "scene fields (L-infinity boxes, diagonal planes of gradient 0.99, min/max) are 1-Lipschitz; the harness "
        "evaluates the same closed form at the renderer's real sample points",
        "the renderer is positioned so that its samples fall on the integer lattice; if it does not, vertices are "
        "reported as not on a lattice edge",
        "projection of real vertices to lattice edges (harness) is trusted",
    ]
    if replay:
        r = replay["replay"]
        if r.get("kind") == "tight":
            out = chk.vh(["c07-tight"], timeout=1800)
            hobs = [json.loads(x) for x in out.splitlines() if x.strip()]
            for e, why in chk.validate("HierTrace", hobs, chunks=1, timeout=600):
                chk.violation("hier:%s:%dd:cells%d:seq%d" % (e["name"], e["dim"], e["cells"], e["seq"]), why, dict(kind="tight", obs=e))
            chk.traces += len(hobs)
            return
        # a history-dependent finding carries the whole sequence of renders up to the rejected one
        vecs = r["vectors"] if "vectors" in r else [r["vector"]]
        if r["dim"] == 3:
            run_dim(chk, 3, "OctreeM", "OctTrace", "c07-replay", None, vecs)
        else:
            run_dim(chk, 2, "QuadtreeM", "QuadTrace", "c07-replay2", None, vecs)
        return
    if chk.tier == "quick":
        p3 = [(2, 3, "box", 0), (2, 3, "box2", 1500), (2, 3, "diag", 1500), (4, 5, "diag", 300)]
        p2 = [(2, 3, "box", 0), (4, 6, "box", 0), (4, 6, "box2", 3000), (4, 6, "diag", 3000), (8, 10, "diag", 1500)]
    else:
        p3 = [(2, 3, "box", 0), (3, 3, "box2", 6000), (2, 3, "diag", 6000), (4, 6, "box", 3000),
              (4, 6, "box2", 3000), (5, 6, "diag", 4000)]
        p2 = [(2, 3, "box", 0), (4, 6, "box", 0), (4, 6, "box2", 20000), (4, 6, "diag", 20000),
              (8, 12, "box2", 10000), (8, 12, "diag", 10000), (16, 20, "diag", 4000)]
    run_dim(chk, 3, "OctreeM", "OctTrace", "c07-replay", p3)
    if chk.violations:
        return
    run_dim(chk, 2, "QuadtreeM", "QuadTrace", "c07-replay2", p2)
    # ---- T: real Euclidean fields: tight tangency to cube corners, render sequences in one process
    out = chk.vh(["c07-tight"], timeout=1800)
    hobs = [json.loads(x) for x in out.splitlines() if x.strip()]
    badh = chk.validate("HierTrace", hobs, chunks=1, timeout=600)
    chk.traces += len(hobs)
    for e, why in badh:
        chk.violation("hier:%s:%dd:cells%d:seq%d:%s" % (e["name"], e["dim"], e["cells"], e["seq"], e["param"].strip().replace(" ", ",")),
                      "real %dD hierarchical render '%s' (cells=%d, %s) differs from the exhaustive render: %d items differ (%d vs %d)" % (
                          e["dim"], e["name"], e["cells"], e["param"], e["diff"], e["n"], e["nflat"]),
                      dict(kind="tight", obs=e))
    chk.cov["euclidean_tight_and_sequence_renders"] = len(hobs)
    chk.cov["rule"] = ("scene = exact lattice field (boxes / diagonal planes, union, difference, intersection); TLC "
                       "enumerates or LCG-samples scenes, checks the traversal model, and each scene is rendered by "
                       "the real hierarchical renderer and judged by the trace spec")
