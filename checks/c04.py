"""C04 - the polygon SDF is exact and agrees with its brute-force reference everywhere.

M  PolygonM.tla builds simple lattice polygons vertex by vertex (partial simplicity test at every step):
   every simple polygon with <= N vertices on a G x G vertex grid (collinear vertices allowed, every
   second one exported clockwise) and every hole-free polyomino outline with all its collinear
   vertices (unit-step mode).  At every half-lattice point of the bounding box enlarged by one unit
   (level with a vertex, on an edge line, at a vertex, on the box, outside) TLC checks that three
   independently written inside definitions agree (half-open crossings, even-odd ray, quarter-turn
   winding number), that the exact rational squared distance vanishes exactly on the boundary, and
   exports polygon + expected squared distances.
R  every polygon through the REAL sdf.Polygon2D, sdf.Mesh2D (quadtree) and sdf.Mesh2DSlow at every such
   point, plus probes taken from the REAL quadtree ((*MeshSDF2).Boxes(): corners, split-line midpoints,
   split line x vertex level, +-1 ulp) judged against an exact-orientation brute force.
T  seeded random star-shaped / thin / many-vertex / staircase / grid-snapped polygons (some with
   vertices moved onto split lines of their own quadtree), points level with vertices, at vertices,
   on edges, random, and quadtree probes.
PolygonTrace.tla recomputes Inside and D2 exactly for lattice points and judges every real observation.
"""
import json, re
import vlib

LEVEL = "model_checking"

CFG = """SPECIFICATION Spec
CONSTANT G = %d
CONSTANT NMax = %d
CONSTANT Mode = "%s"
CONSTANT Emit = TRUE
INVARIANT PolyOK
CHECK_DEADLOCK FALSE
"""
REPORT_ONLY = ("desc", "p", "poly")
MAX_CONFIRM = 6
KEYS = {"psign-fast@split": "mesh2d-winding:on-split-line",
        "psign-fast@vlevel": "mesh2d-winding:level-with-vertex",
        "psign-fast@other": "mesh2d-winding:other-point",
        "psign-fast@snap": "mesh2d-winding:vertex-in-snap-band",
        "sign-fast@snap": "mesh2d-winding:vertex-in-snap-band",
        "sign-polygon2d@snap": "mesh2d-winding:vertex-in-snap-band",
        # only the quadtree's DISTANCE (fast) classes: the brute force and every sign stay judged as usual
        "pdist-fast@far": "mesh2d-distance:far-from-origin", "pfast-vs-slow@far": "mesh2d-distance:far-from-origin"}


def strip(e):
    return {k: v for k, v in e.items() if k not in REPORT_ONLY}


def vec_of(e):
    return dict(t="poly", v=e["v"], win=e["win"], exp=e["exp"])


def replay(chk, vectors):
    text = "\n".join(json.dumps(v) for v in vectors) + "\n"
    out = chk.vh(["c04-replay"], stdin=text, timeout=1800)
    obs = [json.loads(x) for x in out.splitlines() if x.strip()]
    if len(obs) != len(vectors):
        raise vlib.Inconclusive("replay returned %d observations for %d vectors" % (len(obs), len(vectors)))
    return obs


def judge(chk, obs, chunk_size=120):
    """-> {class key: [(event, class name, where)]}; where = [x, y] (lattice) or probe index"""
    bad = chk.validate("PolygonTrace", [strip(o) for o in obs], timeout=2400, chunk_size=chunk_size)
    found = {}
    for e, why in bad:
        if why.startswith("machinery:"):
            raise vlib.Inconclusive("trace spec reports a machinery problem: %s (%s)" % (why, e.get("v", e.get("idx"))))
        for part in why.split("|"):
            if not part:
                continue
            name, where = part.rsplit(":", 1)
            w = [int(x) for x in re.findall(r"-?\d+", where)]
            if name.startswith("p"):
                key = KEYS.get(name, "polygon-probe:" + name)
            else:
                key = KEYS.get(name, "polygon-lattice:" + name)
            found.setdefault(key, []).append((e, name, w))
    return found


def describe(o, name, w):
    if not name.startswith("p") or name.startswith("polygon"):
        i = (w[1] - o["win"][1]) * (o["win"][2] - o["win"][0] + 1) + (w[0] - o["win"][0])
        return ("polygon %s at lattice point %s: expected d^2=%s; sign classes fast/slow/Polygon2D = %d/%d/%d, "
                "errors (1e-12) %d/%d/%d, ||fast|-|slow|| %d" % (o["v"], w, o["exp"][i], o["lsf"][i], o["lss"][i], o["lsp"][i],
                                                                  o["lef"][i], o["les"][i], o["lep"][i], o["ldfs"][i]))
    if name == "pctor-error":
        return "a simple polygon (%s, %d vertices) is refused by Polygon2D / Mesh2D / Mesh2DSlow" % (o.get("desc"), o.get("nv", 0))
    i = w[0] - 1
    q = o["pr"]
    poly = o.get("v") or (o.get("poly") if o.get("nv", 99) <= 8 else "%s with %d vertices (seeded)" % (o.get("desc"), o["nv"]))
    return ("polygon %s at p=(%r, %r) [probe kind %d, level class %d]: oracle sign %d, Mesh2D sign %d, Mesh2DSlow sign %d; "
            "distance errors (1e-12) fast %d slow %d" % (poly, o["p"][i][0], o["p"][i][1], q["kind"][i], q["lvl"][i], q["so"][i],
                                                        q["sf"][i], q["ss"][i], q["ef"][i], q["es"][i]))


def confirm(chk, found, rerun):
    """rerun(event) -> fresh observation of the same polygon; report the confirmed examples"""
    total = {}
    for key, items in sorted(found.items()):
        total[key] = len(items)
        for e, name, w in items[:MAX_CONFIRM]:
            o = rerun(e)
            again = judge(chk, [o], 50)
            base = key.replace("beyond-recorded-extent|", "")
            if not any(n2 == name and w2 == w for _, n2, w2 in again.get(base, [])):
                raise vlib.Inconclusive("rejected observation did not reproduce: %s %s %s" % (key, name, w))
            ident = ("v=%s" % json.dumps(e["v"], separators=(",", ":"))) if e["ev"] == "poly" else \
                    ("random:seed=%d:idx=%d" % (chk.seed, e["idx"]))
            rep = dict(kind="vector", vector=vec_of(e)) if e["ev"] == "poly" else \
                dict(kind="random", idx=e["idx"], seed=chk.seed, tier=chk.tier)
            chk.violation("%s:%s:at=%s" % (key, ident, json.dumps(w, separators=(",", ":"))),
                          "REAL " + describe(o, name, w) + " -> " + name, rep)
    return total


def extent_guard(chk, plan_id, found):
    """The lattice plans are deterministic, so the exact set of inputs that fail in a KNOWN class is fixed on the
    unrepaired tree.  It is committed in known_extents.json; a failing input of a known class that is not in that
    set is a different violation and is reported (a known finding must not hide new failures of its own class)."""
    import hashlib, os
    path = os.path.join(vlib.ROOT, "known_extents.json")
    ext = json.load(open(path)) if os.path.exists(path) else {}
    record = os.environ.get("VERIF_RECORD_EXTENTS") == "1"
    out = {}
    for key, items in found.items():
        hs = {}
        for e, name, w in items:
            h = hashlib.sha1(json.dumps([e.get("v"), name, w], separators=(",", ":")).encode()).hexdigest()[:12]
            hs[h] = (e, name, w)
        pid = "%s|%s" % (plan_id, key)
        if record:
            ext[pid] = sorted(hs)
            continue
        known = set(ext.get(pid, []))
        keep = []
        for h, it in hs.items():
            if h in known:
                keep.append(it)
            else:
                out.setdefault("beyond-recorded-extent|" + key, []).append(it)
        if keep:
            out[key] = keep
    if record:
        json.dump(ext, open(path, "w"), indent=0, sort_keys=True)
        return found
    return out


def run_lattice(chk, g, nmax, mode):
    res = chk.tlc("PolygonM", cfg_text=CFG % (g, nmax, mode), timeout=3000, extra=["-continue"],
                  name="PolygonM %s G=%d N<=%d" % (mode, g, nmax))
    chk.model_ok(res, "PolygonM (inside definitions / boundary / simplicity)")
    vec = res.printed_json("VEC")
    if not vec:
        raise vlib.Inconclusive("PolygonM exported no polygons")
    obs = replay(chk, vec)
    chk.traces += len(obs)
    found = judge(chk, obs)
    found = extent_guard(chk, "C04:%s:%d:%d" % (mode, g, nmax), found)
    total = confirm(chk, found, lambda e: replay(chk, [vec_of(e)])[0])
    npts = sum(len(o["lsf"]) for o in obs)
    chk.cov.setdefault("plans", []).append(dict(
        mode=mode, grid="%dx%d" % (g, g), max_vertices=nmax, polygons=len(obs), exhaustive=True,
        by_vertices={str(k): sum(1 for o in obs if o["nv"] == k) for k in sorted({o["nv"] for o in obs})},
        lattice_points=npts, quadtree_probes=sum(len(o["pr"]["so"]) for o in obs),
        probes_not_compared_near_boundary=sum(o["pr"]["so"].count(0) for o in obs),
        rejected_by_class=total))
    o = obs[len(obs) // 2]
    chk.sample(dict(polygon=o["v"], window=o["win"], quadtree_boxes=o["boxes"], lattice_sign_classes=o["lsf"][:12]))


def run_random(chk, only=None):
    def run_once(idx=None):
        out = chk.vh(["c04-random"] + ([str(idx)] if idx is not None else []), timeout=1800)
        return [json.loads(x) for x in out.splitlines() if x.strip()]
    obs = run_once(only)
    chk.traces += len(obs)
    found = judge(chk, obs, 40)
    total = confirm(chk, found, lambda e: run_once(e["idx"])[0])
    fam = {}
    for o in obs:
        fam[o["desc"]] = fam.get(o["desc"], 0) + 1
    chk.cov["random_polygons"] = len(obs)
    chk.cov["random_polygons_by_family"] = fam
    chk.cov["random_points"] = sum(len(o["pr"]["so"]) for o in obs)
    chk.cov["random_points_not_compared_near_boundary"] = sum(o["pr"]["so"].count(0) for o in obs)
    chk.cov["random_rejected_by_class"] = total
    chk.cov["random_max_vertices"] = max(o["nv"] for o in obs)


CLIP_CFG = """SPECIFICATION Spec
CONSTANT K = %d
CONSTANT Emit = TRUE
INVARIANT ClipOK
CHECK_DEADLOCK FALSE
"""
CLIP_REPORT_ONLY = ("desc",)


def clip_replay(chk, vectors):
    text = "\n".join(json.dumps(v) for v in vectors) + "\n"
    out = chk.vh(["c04-clip"], stdin=text, timeout=1800)
    obs = [json.loads(x) for x in out.splitlines() if x.strip()]
    if len(obs) != len(vectors):
        raise vlib.Inconclusive("c04-clip returned %d observations for %d vectors" % (len(obs), len(vectors)))
    return obs


def clip_judge(chk, vectors, obs):
    """-> [(vector, observation, why)] of rejected real observations"""
    stripped = [{k: v for k, v in o.items() if k not in CLIP_REPORT_ONLY} for o in obs]
    back = {id(t): (v, o) for t, v, o in zip(stripped, vectors, obs)}
    bad = chk.validate("ClipTrace", stripped, timeout=1800, chunk_size=400)
    res = []
    for e, why in bad:
        if why.startswith("machinery:"):
            raise vlib.Inconclusive("ClipTrace reports a machinery problem: " + why)
        v, o = back[id(e)]
        res.append((v, o, why))
    return res


def clip_report(chk, v, o, why):
    cls = why.split(":")[0]
    var = int(re.findall(r"-?\d+", why.split("|")[0])[-1])
    i = o["var"].index(var)
    box = o["desc"][i]
    chk.violation("clip:%s:k=%d:p=%s:q=%s:variant=%d" % (cls, v["k"], v["p"], v["q"], var),
                  "REAL Box2.lineIntersect / quad0..3, node box and segment (box min, box max, p, q) = %s [lattice k=%d p=%s q=%s, "
                  "variant %d%s]: %s; children with a piece %s (specification %s), longest lost part %d, end point error %d, "
                  "stray %d (units 1e-3 snapping distance)" % (
                      box, v["k"], v["p"], v["q"], var, "" if o["exact"][i] else ", end point moved / non-dyadic placement",
                      why, format(o["pat"][i], "04b"), format(v["pat"], "04b"), o["gap"][i], o["perr"][i], o["stray"][i]),
                  dict(kind="clip", vector=v))


def run_clip(chk, ks, only=None):
    if only is not None:
        vectors = [only]
    else:
        vectors = []
        for k in ks:
            res = chk.tlc("ClipM", cfg_text=CLIP_CFG % k, timeout=1800, name="ClipM K=%d" % k)
            if res.violated:
                raise vlib.Inconclusive("ClipM: the model's own partition property fails (%s)\n%s" % (res.violated, res.out[-1500:]))
            vs = res.printed_json("VEC")
            if not vs:
                raise vlib.Inconclusive("ClipM K=%d exported nothing" % k)
            vectors += vs
    obs = clip_replay(chk, vectors)
    chk.traces += len(obs)
    bad = clip_judge(chk, vectors, obs)
    for v, o, why in bad[:MAX_CLIP_CONFIRM]:
        o2 = clip_replay(chk, [v])
        again = clip_judge(chk, [v], o2)
        if not again:
            raise vlib.Inconclusive("rejected clipper observation did not reproduce: %s" % v)
        clip_report(chk, v, o2[0], again[0][2])
    chk.cov["clipper_segments"] = len(vectors)
    chk.cov["clipper_calls_judged"] = 4 * sum(len(o["var"]) for o in obs)
    chk.cov["clipper_segments_rejected"] = len(bad)
    chk.cov["clipper_rule"] = ("ClipM.tla: every lattice segment of a node box [0,2K]^2; TLC checks that the four children "
                               "partition each owned segment (exact rationals) and exports the expected pieces; the real "
                               "Box2.lineIntersect / quad0..3 get the same box and segment at 4 dyadic and 2 non-dyadic "
                               "placements and with an end point moved by 0.3 .. 10 snapping distances; ClipTrace.tla judges "
                               "children, end points, lost parts and stray pieces")
    if obs:
        chk.sample(dict(clip={k: obs[0][k] for k in ("k", "p", "q", "pat", "gap")}))


MAX_CLIP_CONFIRM = 6


def run(chk, replay_rec):
    chk.build()
    chk.assumptions += [
        "lattice polygons: vertices on even integers <= 18 (doubled units), query points on all integers; float64 "
        "represents them exactly",
        "the harness measures | |value| - sqrt(num/den) | with the num/den exported by TLC (PolygonTrace.tla re-derives "
        "them) and, for real-valued points, against its own brute force with exact orientation tests (math/big)",
        "value tolerance 2e-9 (the quadtree snaps clipped end points by up to sdf.tolerance = 1e-9); signs are compared "
        "unless a value is within 1e-9 of 0 (real-valued probes: unless the point is within 1e-6 of the boundary)",
        "random polygons are simple by construction (star-shaped about a centre, slivers, monotone staircases), "
        "re-checked by the harness with a margin; rejected candidates are discarded",
    ]
    if replay_rec:
        r = replay_rec["replay"]
        if r["kind"] == "clip":
            run_clip(chk, [], only=r["vector"])
        elif r["kind"] == "vector":
            obs = replay(chk, [r["vector"]])
            chk.traces += 1
            confirm(chk, judge(chk, obs, 50), lambda e: replay(chk, [vec_of(e)])[0])
        else:
            chk.seed = r.get("seed", chk.seed)
            chk.tier = r.get("tier", chk.tier)
            run_random(chk, r["idx"])
        return
    if chk.tier == "quick":
        run_lattice(chk, 4, 4, "free")
        run_lattice(chk, 4, 10, "unit")
    else:
        run_lattice(chk, 4, 5, "free")
        run_lattice(chk, 5, 4, "free")
        run_lattice(chk, 5, 12, "unit")
    run_clip(chk, [2, 3] if chk.tier == "quick" else [2, 3, 4, 5])
    run_random(chk)
    chk.cov["rule"] = ("TLC builds every simple lattice polygon of the stated bounds and its exact distances; each is "
                       "evaluated by the real Polygon2D / Mesh2D / Mesh2DSlow at every half-lattice point of the enlarged "
                       "box and at probes of the real quadtree; PolygonTrace.tla judges sign and distance")
