"""C10 - shapes may be evaluated concurrently.

M  ConcEval.tla: G concurrent Evaluate calls on a shape abstracted to the shared cells it touches:
   immutable shapes and lock-bracketed caches satisfy NoConflictingAccess, ValuesEqualSequential,
   CacheHoldsF for all interleavings; the unguarded cache (sdf/cache2.go as written at the pinned
   commit) violates NoConflictingAccess - the model reproduces "concurrent map writes".
   EvalPool.tla (C09) is the model of the renderer side (one worker per CPU calling Evaluate).
T  which kind a REAL shape is comes from two observers, per shape type the library constructs
   (primitives, combinators, cache, voxel, mesh import, text, rotate/array wrappers, obj parts):
   (a) deep digest of the reachable state across Evaluate (immutable / mutating);
   (b) the Go race detector and the runtime's fault detection in a -race build of the harness, one
       child process per shape, Evaluate hammered from one goroutine per CPU on a cold instance and
       the shape rendered by the uniform renderer; (c) concurrent values = sequential values.
   ConcTrace.tla judges: no race/fault, no changed value.
"""
import json
import vlib
import cacheconc

LEVEL = "model_checking"

CFG = """SPECIFICATION Spec
CONSTANT G = %d
CONSTANT Kind = "%s"
CONSTANT Points = {1, 2}
INVARIANT NoConflictingAccess
INVARIANT ValuesEqualSequential
INVARIANT CacheHoldsF
PROPERTY AllReturn
CHECK_DEADLOCK FALSE
"""


def run(chk, replay_rec):
    chk.build()
    chk.assumptions += [
        "the race detector reports only races that happen in the schedules that were run (16 goroutines x 400 evaluations "
        "on 64/125 shared points, plus a uniform and an octree render per 3D shape)",
        "the deep digest (reflection + unsafe) cannot see state that is mutated and restored within a call, nor globals",
        "shape list = harness/cmd/vh/c10.go shapeList(): every shape type named in the property plus obj parts used by examples",
    ]
    only = []
    if replay_rec and replay_rec["replay"].get("kind") == "cacheconc":
        cacheconc.run(chk, replay_rec["replay"]["vector"])
        return
    if replay_rec:
        only = [replay_rec["replay"]["shape"]]
    else:
        # ---- the one shape that keeps state across Evaluate calls: every interleaving of its two critical
        # sections and the wrapped Evaluate (CacheConc.tla) forced on the real Cache2D; values must be the
        # wrapped shape's own under all of them
        cacheconc.run(chk)
        # ---- M
        gs = (2, 3) if chk.tier == "quick" else (2, 3, 4)
        for kind in ("immutable", "locked"):
            for g in gs:
                res = chk.tlc("ConcEval", cfg_text=CFG % (g, kind), timeout=1800, name="ConcEval %s G=%d" % (kind, g))
                chk.model_ok(res, "ConcEval " + kind)
        res = chk.tlc("ConcEval", cfg_text=CFG % (2, "unlocked"), timeout=600, name="ConcEval unlocked G=2 (must fail)")
        if "NoConflictingAccess" not in res.violated:
            raise vlib.Inconclusive("vacuity guard: the unguarded cache model does not violate NoConflictingAccess")
    # ---- T
    race_bin = chk.build_race()
    out = chk.vh(["c10-run", race_bin] + only, timeout=2400)
    obs = [json.loads(x) for x in out.splitlines() if x.strip()]
    if not obs:
        raise vlib.Inconclusive("no shape observed")
    notbuilt = [o["shape"] for o in obs if not o["built"] and not o["race"]]
    if notbuilt:
        raise vlib.Inconclusive("shapes could not be constructed / observed: %s" % [(o["shape"], o.get("err")) for o in obs if not o["built"] and not o["race"]][:3])
    bad = chk.validate("ConcTrace", [dict(race=o["race"], mismatch=o["mismatch"], built=o["built"] or o["race"]) for o in obs], chunks=1)
    chk.traces += len(obs)
    # the rejected observations are those with a race or a mismatch (cross-checked with TLC's count below)
    for o in obs:
        if o["race"] or o["mismatch"]:
            why = "data-race-or-fault-in-concurrent-evaluate" if o["race"] else "concurrent-value-differs-from-sequential"
            # confirm by re-running that shape
            out2 = chk.vh(["c10-run", race_bin, o["shape"]], timeout=600)
            o2 = [json.loads(x) for x in out2.splitlines() if x.strip()][0]
            if not (o2["race"] or o2["mismatch"]):
                chk.notes.append("race on %s did not reproduce on the second run" % o["shape"])
                continue
            chk.violation("%s:%s" % (o["shape"], o["site"] or o["fault"] or "values"),
                          "%s: %s at %s %s; mismatching values %d of %d" % (o["shape"], why, o["site"], o["fault"], o["mismatch"], o["evals"]),
                          dict(shape=o["shape"], why=why))
    if len(bad) != sum(1 for o in obs if o["race"] or o["mismatch"]):
        raise vlib.Inconclusive("ConcTrace and the harness disagree on the rejected observations")
    chk.sample(dict(shape=obs[0]["shape"], mutating=obs[0]["mutating"], race=obs[0]["race"], evals=obs[0]["evals"]))
    mut = [o["shape"] for o in obs if o["mutating"]]
    chk.sample(dict(mutating_shapes=mut))
    chk.cov.update(dict(shapes_observed=len(obs), shapes_mutating_under_evaluate=mut,
                        shapes_immutable=len(obs) - len(mut), evaluations_concurrent=sum(o["evals"] for o in obs),
                        rule="one observation per shape type: cold instance hammered by NumCPU goroutines in a -race build + uniform/octree render"))
