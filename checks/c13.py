"""C13 - STL files are well-formed and round-trip exactly.

M  StlFormat.tla: token-level layout (80-byte header, u32 count, 12 float32 + u16 per triangle), Encode / Decode,
   float32 image of dyadic numbers by integer arithmetic (F32Dy).  StlFormatM.tla: LCG-drawn lists of 0..3 triangles
   over scales 2^-149 .. 2^104 and lists of 0, 1, 2, 255, 256, 257, 1000 triangles: Decode(Encode(img)) = img,
   well-formed, 84 + 50 n bytes.  StlStream.tla: the streaming writer as a machine (placeholder header, records through
   a bufio buffer of every capacity, flush, seek 0, header rewrite) for every split into batches: final file = Encode.
R  every exported list is written by the REAL SaveSTL, by ToSTL through a scripted Render3, by writeSTL directly
   (VerifWriteSTL), and as hand-made ASCII; the bytes are parsed by the harness's own little-endian reader, loaded back by
   the real LoadSTL; StlTrace.tla judges tokens against F32Dy, count, size, attribute, order/winding, normals (exact
   integer test + measured), streamed = batch, LoadSTL = image.
T  seeded real-valued lists (unit, tiny incl. float32 subnormals, huge, any exponent, exact ties, signed zeros): the
   float32 image is data (math/big, cross-checked by bit manipulation and the conversion), normals are measured.
"""
import json
import vlib

LEVEL = "model_checking"

STREAM_CFG = """SPECIFICATION Spec
CONSTANT N = %d
CONSTANT Cap = %d
INVARIANT StreamOK
INVARIANT LengthOK
INVARIANT NoRecordLost
PROPERTY Terminates
CHECK_DEADLOCK FALSE
"""
FMT_CFG = """SPECIFICATION Spec
CONSTANT Fam = "%s"
CONSTANT Sample = %d
CONSTANT Seed = %d
CONSTANT KMax = 6
CONSTANT Emit = TRUE
INVARIANT CaseOK
CHECK_DEADLOCK FALSE
"""


def replay_and_judge(chk, vectors):
    text = "\n".join(json.dumps(v) for v in vectors) + "\n"
    out = chk.vh(["c13-replay"], stdin=text, timeout=1800)
    obs = [json.loads(x) for x in out.splitlines() if x.strip()]
    ids = sorted(set(o["id"] for o in obs))
    if ids != list(range(len(vectors))):
        raise vlib.Inconclusive("replay returned observations for %d of %d vectors" % (len(ids), len(vectors)))
    bad = chk.validate("StlTrace", obs, timeout=1800, chunk_size=300)
    for e, why in bad:
        if why.startswith("harness-"):
            raise vlib.Inconclusive("harness/specification disagreement (%s) on vector %s" % (why, json.dumps(e["vec"])[:300]))
    return obs, bad


def key_of(e, why):
    return "%s:%s:%s" % (e["kind"], why, "n=0" if e["n"] == 0 else "n>0")


def run(chk, replay):
    chk.build()
    chk.assumptions += [
        "float32 rounding of non-dyadic inputs is data computed by the harness (math/big Float32, cross-checked with a "
        "bit-manipulation rounding and the compiler's conversion; any disagreement aborts the run)",
        "the harness's little-endian STL reader and the measured normal errors (exact rational cross product) are trusted",
        "values that overflow float32 to +-Inf are outside the property's range and are not generated",
    ]
    if replay:
        obs, bad = replay_and_judge(chk, [replay["replay"]["vector"]])
        chk.traces += len(obs)
        for e, why in bad:
            chk.violation(key_of(e, why), "replayed vector rejected: " + why, replay["replay"])
        return
    quick = chk.tier == "quick"
    seed = chk.seed % 60000
    # ---- M: the streaming writer machine
    for n, cap in ((4, 3),) if quick else ((4, 3), (6, 4), (7, 2)):
        res = chk.tlc("StlStream", cfg_text=STREAM_CFG % (n, cap), timeout=900, workers=2, name="StlStream N=%d Cap<=%d" % (n, cap))
        chk.model_ok(res, "StlStream")
    # ---- M + vectors
    vectors, plans = [], []
    for fam, sample in (("small", 250 if quick else 2500), ("sizes", 0)):
        res = chk.tlc("StlFormatM", cfg_text=FMT_CFG % (fam, sample, seed), timeout=1500, extra=["-continue"],
                      name="StlFormatM " + fam)
        mb = res.printed_json("MODELBAD")
        if res.violated or mb:
            raise vlib.Inconclusive("StlFormatM: model-level counter-example (not a verdict): %s" % (mb[:1] or res.violated))
        vec = res.printed_json("VEC")
        seen, uniq = set(), []
        for v in vec:
            k = json.dumps(v, sort_keys=True)
            if k not in seen:
                seen.add(k)
                uniq.append(dict(kind="dy", s=v["s"], tris=v["tris"]))
        plans.append(dict(family=fam, cases=len(uniq), triangles=sum(len(v["tris"]) for v in uniq)))
        vectors += uniq
    ndy = len(vectors)
    if not ndy:
        raise vlib.Inconclusive("no vectors exported by TLC")
    nrnd = 250 if quick else 3000
    vectors += [dict(kind="rnd", seed=chk.seed, i=i, s=0, tris=[]) for i in range(nrnd)]
    obs, bad = replay_and_judge(chk, vectors)
    chk.traces += len(obs)
    if bad:
        bykey = {}
        for e, why in bad:
            bykey.setdefault(key_of(e, why), (e, why))
        first = list(bykey.items())[:8]
        o2, b2 = replay_and_judge(chk, [e["vec"] for _, (e, _) in first])
        again = set((json.dumps(e["vec"], sort_keys=True), e["kind"], why) for e, why in b2)
        for k, (e, why) in first:
            if (json.dumps(e["vec"], sort_keys=True), e["kind"], why) not in again:
                raise vlib.Inconclusive("rejected observation did not reproduce: %s %s" % (k, json.dumps(e["vec"])[:200]))
            chk.violation(k, "%s of %d triangles (vector %s): %s [size %d, count %d, LoadSTL err %d n %d]" % (
                e["kind"], e["n"], json.dumps(e["vec"])[:300], why, e["size"], e["count"], e["lerr"], e["ln"]),
                dict(vector=e["vec"], kind=e["kind"], why=why))
    # ---- very long lists (beyond 2^20 triangles), compared element by element in the harness
    if not chk.violations:
        lout = chk.vh(["c13-large"], timeout=900)
        lobs = [json.loads(x) for x in lout.splitlines() if x.strip()]
        for e, why in chk.validate("StlLargeTrace", lobs, chunks=1, timeout=300):
            chk.violation("large:n=%d:%s" % (e["n"], why),
                          "list of %d triangles: %s (size=%d count=%d records=%d first bad record=%d loaded=%d first bad loaded=%d)" % (
                              e["n"], why, e["size"], e["count"], e["recs"], e["recbad"], e["loaded"], e["loadbad"]),
                          dict(kind="large", n=e["n"]))
        chk.traces += len(lobs)
        chk.cov["large_lists"] = [o["n"] for o in lobs]
    binobs = [o for o in obs if o["kind"] != "ascii"]
    chk.cov.update(dict(
        plans=plans, vectors_from_tlc=ndy, seeded_real_valued_lists=nrnd, files_written_and_parsed=len(binobs),
        ascii_files_loaded=len(obs) - len(binobs), triangles_in_files=sum(o["n"] for o in obs),
        largest_list=max(o["n"] for o in obs),
        normals_judged=sum(1 for o in binobs for m in o["nm"] if m[0] == 0),
        normals_skipped_degenerate=sum(1 for o in binobs for m in o["nm"] if m[0] == 2),
        normals_skipped_nearly_degenerate=sum(1 for o in binobs for m in o["nm"] if m[0] == 1),
        max_unit_length_error_e9=max([m[1] for o in binobs for m in o["nm"] if m[0] == 0] or [0]),
        max_one_minus_cos_e9=max([m[2] for o in binobs for m in o["nm"] if m[0] == 0] or [0]),
        tostl_lists_with_several_batches=sum(1 for o in obs if o["kind"] == "tostl" and len(o["batches"]) > 1),
        rejected_observations=len(bad),
        rule="TLC-chosen dyadic triangle lists (exact float32 image by F32Dy) and seeded real-valued lists, each written by "
             "SaveSTL / ToSTL(scripted renderer) / writeSTL and as ASCII, parsed independently, loaded back, judged by StlTrace.tla"))
    for o in (obs[0], obs[3], obs[-1]):
        chk.sample(dict(kind=o["kind"], vector=json.loads(json.dumps(o["vec"])[:400] + ("" if len(json.dumps(o["vec"])) <= 400 else '"..."]]}')) if len(json.dumps(o["vec"])) <= 400 else "large", n=o["n"], size=o["size"],
                        count=o["count"], first_record=o["recs"][:1], normal_measure=o["nm"][:1], loaded=o["ln"]))
