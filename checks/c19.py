"""C19 - dual-contouring meshes are closed, oriented outward, near the surface, inside the sampled box,
identical on repeated runs (surface strictly inside the sampled volume, no simplification).

M  DualContour.tla: the uniform-grid renderer (dc3v2.go: one vertex per mixed cell, a quad per sign-changing
   far edge with the code's k1,k2,k3 offsets and xor flip) and the octree renderer (dc3v1.go: cellProc /
   faceProc / edgeProc / processEdge over the mask tables READ FROM THE TREE, leaves only) on worlds of free
   lattice corners inside a positive ring: all 256 sign fields of a 2x2x2 block, LCG-sampled 3x3x3, non-cubic
   and {N,z,P} blocks.  Invariants: every directed edge matched, one quad per sign-changing lattice edge, no
   missing neighbour, signed volume with cell centres = number of solid corners.
R  every exported world as a continuous trilinear field through the REAL DualContouringV2 (vertex clamping on)
   and DualContouringV1 (vertex locking on, simplification off), each twice; DCTrace.tla judges the property on
   the real triangles (balance after identifying coincident vertices, no degenerate triangle, positive volume,
   finite vertices inside the sampled box, repeated run identical); which cell owns which vertex and which
   quads exist is compared with the model as DRIFT only.
T  spheres, boxes, rotated boxes, cylinders, unions and differences built with the library's constructors
   (plus two boxes whose faces pass through lattice corners), boxes enlarged by >= 2 cells, at several
   resolutions through both renderers: unmatched directed edges, degenerate triangles, volume, max
   vertex-to-surface distance in cell diagonals, determinism - measured by the harness, judged by
   DCMeasureTrace.tla.
"""
import json, random
import vlib

LEVEL = "model_checking"

CFG = """SPECIFICATION Spec
CONSTANT DX = %d
CONSTANT DY = %d
CONSTANT DZ = %d
CONSTANT Base = %d
CONSTANT LoDigits = %d
CONSTANT Emit = TRUE
CONSTANT Sample = %d
CONSTANT Seed = %d
INVARIANT StaticOK
INVARIANT WorldOK
CHECK_DEADLOCK FALSE
"""

RENDERERS = ("dc2", "dc1")
MEAS_KEYS = ("nt", "nv", "unmatched", "degenerate", "nan", "outside", "maxdist", "vol", "same", "margin", "warn")
CONFIRM_PER_CLASS = 4


# ------------------------------------------------------------------ worlds (M + R)
def replay_worlds(chk, vectors, rs):
    text = "\n".join(json.dumps(v) for v in vectors) + "\n"
    out = chk.vh(["c19-replay"] + list(rs), stdin=text, timeout=1800)
    obs = [json.loads(x) for x in out.splitlines() if x.strip()]
    if len(obs) != len(vectors) * len(rs):
        raise vlib.Inconclusive("replay returned %d observations for %d vectors" % (len(obs), len(vectors)))
    random.Random(chk.seed).shuffle(obs)      # independent lines: spread the big worlds over the parallel chunks
    bad = chk.validate("DCTrace", obs, timeout=1800, chunks=max(1, min(6, len(obs) // 150)))
    return obs, bad


def world_key(e, why):
    return "%s:%s:b%d:%d:%s" % (e["r"], "x".join(map(str, e["dims"])), e["base"], e["code"], why)


def world_vec(e):
    return dict(dims=e["dims"], base=e["base"], code=e["code"])


def worlds(chk, plans):
    allvec, model_counter, per_plan = [], [], []
    for dims, base, lod, sim in plans:
        res = chk.tlc("DualContourM", cfg_text=CFG % (dims[0], dims[1], dims[2], base, lod, sim or 0, chk.seed % 60000),
                      timeout=3000, extra=["-continue"],
                      name="DualContourM %s base %d%s" % (dims, base, (" sample %d" % sim) if sim else ""))
        mb = res.printed("MODELBAD")
        if res.violated and not mb:
            raise vlib.Inconclusive("DualContourM failed without a MODELBAD world: %s\n%s" % (res.violated, res.out[-2000:]))
        vec = [dict(dims=list(dims), base=base, code=int(raw.split(",")[0])) for raw in res.printed("VEC")]
        seen = set()
        vec = [v for v in vec if not (v["code"] in seen or seen.add(v["code"]))]
        flagged = set(int(x.split(",")[0]) for x in mb)
        for c in sorted(flagged):
            model_counter.append(dict(dims=list(dims), base=base, code=c))
            if c not in seen:
                vec.append(dict(dims=list(dims), base=base, code=c))
        if not vec:
            raise vlib.Inconclusive("no vectors exported by TLC for %s base %d" % (dims, base))
        per_plan.append(dict(dims=dims, base=base, worlds_model_checked=len(vec), worlds_replayed=len(vec),
                             exhaustive=not sim, model_flagged=len(flagged)))
        allvec += vec
    obs, bad = replay_worlds(chk, allvec, RENDERERS)
    chk.traces += len(obs)
    drift = len(getattr(chk, "last_drift", []))
    # confirm: re-run some rejected worlds of EVERY (renderer, reason) class
    classes = {}
    for e, why in bad:
        classes.setdefault((e["r"], why), []).append(e)
    for (r, why), es in sorted(classes.items()):
        pick = es[:CONFIRM_PER_CLASS]
        o2, b2 = replay_worlds(chk, [world_vec(e) for e in pick], (r,))
        again = {(e["code"], tuple(e["dims"]), e["base"]): w for e, w in b2}
        for e in pick:
            k = (e["code"], tuple(e["dims"]), e["base"])
            if k not in again:
                # accepted when rendered alone: repeat the whole sequence in order
                o3, b3 = replay_worlds(chk, allvec, RENDERERS)
                again3 = {(e3["code"], tuple(e3["dims"]), e3["base"]): w3 for e3, w3 in b3 if e3["r"] == r}
                if k not in again3:
                    raise vlib.Inconclusive("rejected observation did not reproduce: %s %s" % (r, world_vec(e)))
                again[k] = "after-earlier-renders-of-the-same-process:" + again3[k]
            chk.violation(world_key(e, again[k]),
                          "real %s output for world dims=%s base=%d code=%d rejected: %s (%d triangles; %d worlds of this "
                          "class in this run)" % (r, e["dims"], e["base"], e["code"], again[k], e["nt"], len(es)),
                          dict(vector=world_vec(e), renderer=r, why=again[k]))
    if model_counter and not bad:
        raise vlib.Inconclusive("model/code divergence: DualContourM flags %d worlds (e.g. %s) but every real output was "
                                "accepted" % (len(model_counter), model_counter[0]))
    for o in obs[:2000:500]:
        chk.sample({k: o[k] for k in ("r", "dims", "base", "code", "nt", "aligned", "vol", "same")})
    chk.cov.update(dict(plans=per_plan, outputs_judged=len(obs),
                        outputs_aligned_with_model=sum(1 for o in obs if o["aligned"]),
                        outputs_nontrivial=sum(1 for o in obs if o["nt"] > 0),
                        outputs_where_v2_clamped_a_vertex=sum(1 for o in obs if o["warn"]["clamp"]),
                        drift_from_model=drift,
                        rejected_by_class={"%s:%s" % k: len(v) for k, v in sorted(classes.items())},
                        exhaustive=all(p["exhaustive"] for p in per_plan),
                        rule="world = block of free corners (base 2 = {N,P}, 3 = {N,z,P}: v<0, v=0, v>0) inside a positive "
                             "ring; TLC enumerates / LCG-samples world codes and checks both transcriptions; every exported "
                             "world is rendered twice by each real renderer and the real output is judged by DCTrace.tla"))


# ------------------------------------------------------------------ measured shapes (T)
def meas_id(e):
    return (e["rep"], e["shape"], e["r"], e["cells"])


def meas_key(e, why):
    return "measure:%s:%s:%d:%s" % (e["shape"], e["r"], e["cells"], why)


def measure_and_judge(chk, seed=None, tier=None):
    env = {}
    if seed is not None:
        env = {"VERIF_SEED": str(seed), "VERIF_TIER": tier}
    out = chk.vh(["c19-measure"], timeout=2400, env=env)
    meas = [json.loads(x) for x in out.splitlines() if x.strip()]
    if not meas:
        raise vlib.Inconclusive("c19-measure produced no observations (dead driver)")
    return meas, chk.validate("DCMeasureTrace", meas, chunks=1, timeout=600)


def measured(chk):
    meas, bad = measure_and_judge(chk)
    chk.traces += len(meas)
    if bad:
        m2, b2 = measure_and_judge(chk)
        again = {meas_id(e): why for e, why in b2}
        for e, why in bad:
            if meas_id(e) not in again:
                raise vlib.Inconclusive("rejected measured observation did not reproduce: %s" % (meas_id(e),))
            w2 = again[meas_id(e)]
            chk.violation(meas_key(e, w2),
                          "real %s mesh of %s (%s) at %d cells rejected: %s  [%s]" % (
                              e["r"], e["shape"], e["param"].strip(), e["cells"], w2, {k: e[k] for k in MEAS_KEYS}),
                          dict(kind="measure", seed=chk.seed, tier=chk.tier, id=list(meas_id(e)), why=w2, obs=e))
    worst = {}
    for e in meas:
        k = e["r"] + ":" + e["kind"]
        worst[k] = max(worst.get(k, 0), e["maxdist"])
    chk.sample(dict(measured={k: meas[0][k] for k in ("shape", "r", "cells") + MEAS_KEYS}))
    chk.cov.update(dict(measured_meshes=len(meas),
                        measured_shapes=sorted(set(e["shape"] for e in meas)),
                        measured_resolutions=sorted(set(e["cells"] for e in meas)),
                        measured_triangles=sum(e["nt"] for e in meas),
                        measured_max_vertex_distance_in_cell_diagonals_e6=worst,
                        measured_meshes_with_degenerate_triangles=sum(1 for e in meas if e["degenerate"] > 0),
                        measured_min_margin_cells_e3=min(e["margin"] for e in meas),
                        v2_runs_that_clamped_a_vertex=sum(1 for e in meas if e["warn"]["clamp"]),
                        v2_runs_that_warned_of_holes=sum(1 for e in meas if e["warn"]["holes"])))


def run(chk, replay):
    chk.build()
    d = chk.gen()
    chk.vh(["c19-extract", d])     # DCData.tla: the mask tables of render/dc of the tree under test
    chk.assumptions += [
        "worlds are presented to the real renderers as continuous trilinear lattice fields (harness); the harness "
        "checks that the renderer sampled every lattice corner of the world (else the model comparison is skipped)",
        "worlds have a positive boundary ring and the measured shapes an enlarged box (>= 2 cells): the surface is "
        "strictly inside the sampled volume, which the property presupposes (quads at the volume boundary are the "
        "acknowledged gap of dc3v2.go and are outside this check)",
        "vertex identification within 1e-6 cell, the vertex -> closed-cell boxes, volumes and distances are harness "
        "code (trusted); the render/dc tables are read through go:linkname (no verif export exists for them)",
        "the QEF solve is not modelled: a vertex may be anywhere in its cell; the distance clause is measured (T) and "
        "for CSG shapes |f| is only a lower bound of the distance (DESIGN section 10)",
        "renderer settings: NewDualContouringDefault (FarAway 0.499999: vertex clamped to its cell), "
        "NewDualContouringV1(simplify -1 = off, RCond default, lockVertices true)",
    ]
    if replay:
        r = replay["replay"]
        if r.get("kind") == "measure":
            meas, bad = measure_and_judge(chk, seed=r["seed"], tier=r["tier"])
            chk.traces += len(meas)
            for e, why in bad:
                if list(meas_id(e)) == list(r["id"]):
                    chk.violation(meas_key(e, why), "replayed measured mesh rejected: " + why, r)
        else:
            obs, bad = replay_worlds(chk, [r["vector"]], (r["renderer"],))
            chk.traces += len(obs)
            for e, why in bad:
                chk.violation(world_key(e, why), "replayed world rejected: " + why, r)
            chk.sample(dict(replayed=r["vector"]))
        return
    if chk.tier == "quick":
        plans = [((2, 2, 2), 2, 4, None), ((3, 3, 3), 2, 13, 200), ((2, 3, 4), 2, 12, 150),
                 ((2, 2, 2), 3, 4, 300), ((1, 3, 3), 3, 4, 300)]
    else:
        # (2,2,2) base 3 has 6561 worlds; all of them were replayed once by hand (both renderers accepted every one)
        plans = [((2, 2, 2), 2, 4, None), ((2, 2, 2), 3, 4, 2500), ((3, 3, 3), 2, 13, 1500),
                 ((2, 3, 4), 2, 12, 400), ((4, 2, 3), 2, 12, 300), ((1, 3, 3), 3, 4, 2000),
                 ((2, 3, 3), 3, 9, 1000), ((1, 2, 5), 3, 5, 400)]
    worlds(chk, plans)
    measured(chk)
