"""C06 - mesh vertices lie on the surface; the mesh is complete and accurate.

M  Lattice3Scan.tla: the uniform renderer's layer cache / batch offsets / corner pairing, for several
   lattice shapes and batch sizes (PairingOK, LayerComplete, termination).
   UniformM.tla: exact integer scenes (boxes cut by arbitrary small-integer planes, unions and
   differences) on non-cubic lattices including layers larger than one evaluation batch.
R  each scene through the REAL MarchingCubesUniform; UniTrace.tla judges: every vertex is the linear
   zero crossing of a straddling lattice edge (exact rational t), every strictly straddling lattice edge
   carries a vertex, nothing outside the padded box.  (The octree renderer's vertex rule is judged by
   OctTrace.tla under C07.)
T  measured numerics on analytic shapes with real parameters through both renderers at three
   resolutions, judged by MeasureTrace.tla (plane exact, sphere h^2/(8(R-h)), |f(v)| <= h, one cell
   diagonal both ways, normals, second-order volume convergence).
"""
import json
import vlib

LEVEL = "model_checking"

SCAN_CFG = """SPECIFICATION Spec
CONSTANT NX = %d
CONSTANT NY = %d
CONSTANT NZ = %d
CONSTANT BatchSize = %d
INVARIANT PairingOK
INVARIANT LayerComplete
PROPERTY Terminates
CHECK_DEADLOCK FALSE
"""

UNI_CFG = """SPECIFICATION Spec
CONSTANT Fam = "%s"
CONSTANT Emit = TRUE
CONSTANT Sample = %d
CONSTANT Seed = %d
CONSTANT D1 = %d
CONSTANT D2 = %d
CONSTANT D3 = %d
CONSTANT D4 = %d
INVARIANT SceneOK
CHECK_DEADLOCK FALSE
"""


def replay_and_judge(chk, vectors):
    text = "\n".join(json.dumps(v) for v in vectors) + "\n"
    out = chk.vh(["c06-replay"], stdin=text, timeout=420)
    obs = [json.loads(x) for x in out.splitlines() if x.strip()]
    if len(obs) != len(vectors):
        raise vlib.Inconclusive("replay returned %d observations for %d vectors" % (len(obs), len(vectors)))
    return obs, chk.validate("UniTrace", obs, timeout=1800, chunk_size=150)


def key_of(e, why):
    return "uni:%s:%s:%s" % (e["dims"], json.dumps(e["scene"], sort_keys=True, separators=(",", ":")), why)


def vec_of(e):
    return dict(dims=e["dims"], k=e["scene"]["k"], parts=e["scene"]["parts"])


def run(chk, replay):
    chk.build()
    chk.gen()
    chk.assumptions += [
        "exact scenes are integer fields evaluated by the harness with the same closed form as Scene3.tla",
        "projection of real vertices to lattice edges, and all measurements of the T part, are harness code",
        "T part: TLC judges measured numbers, it does not compute them (DESIGN section 10)",
    ]
    if replay:
        r = replay["replay"]
        if r.get("kind") == "measure":
            raise vlib.Inconclusive("measured observations are re-run by the seed, not by vector: use VERIF_SEED=%s" % replay.get("seed"))
        obs, bad = replay_and_judge(chk, [r["vector"]])
        chk.traces += 1
        for e, why in bad:
            chk.violation(key_of(e, why), "replayed scene rejected: " + why, r)
        return
    # ---- M: data flow of the uniform renderer
    scans = [(2, 2, 3, 5), (2, 3, 2, 4), (3, 2, 2, 3), (2, 1, 5, 12), (2, 4, 4, 7)]
    if chk.tier == "thorough":
        scans += [(3, 5, 4, 7), (2, 9, 9, 100), (2, 6, 3, 28), (2, 3, 6, 1)]
    for nx, ny, nz, b in scans:
        res = chk.tlc("Lattice3Scan", cfg_text=SCAN_CFG % (nx, ny, nz, b), timeout=600, workers=2,
                      name="Lattice3Scan %dx%dx%d batch %d" % (nx, ny, nz, b))
        chk.model_ok(res, "Lattice3Scan")
    # ---- M + R: exact scenes
    n = 400 if chk.tier == "quick" else 2500
    dims = (30405, 50304, 20808, 21808)   # 8x8 -> 100 points per layer, 18x8 -> 200: exact multiples of the batch size
    allvec, flagged = [], []
    plans = []
    for fam, dims in (("plane", dims), ("box2", dims), ("box", dims), ("plane", (31010, 21515, 40305, 30808))):
        res = chk.tlc("UniformM", cfg_text=UNI_CFG % ((fam, n if fam != "box" else n // 2, chk.seed % 60000) + dims),
                      timeout=3000, extra=["-continue"], name="UniformM " + fam)
        mb = res.printed_json("MODELBAD")
        if res.violated and not mb:
            raise vlib.Inconclusive("UniformM failed without a MODELBAD scene: %s\n%s" % (res.violated, res.out[-2000:]))
        vec = res.printed_json("VEC") + [dict(dims=m["dims"], k=m["scene"]["k"], parts=m["scene"]["parts"]) for m in mb]
        flagged += mb
        plans.append(dict(family=fam, dims=dims, scenes=len(vec), model_flagged=len(mb)))
        allvec += vec
    obs, bad = replay_and_judge(chk, allvec)
    chk.traces += len(obs)
    drift = len(getattr(chk, "last_drift", []))
    if bad:
        first = bad[:8]
        o2, b2 = replay_and_judge(chk, [vec_of(e) for e, _ in first])
        again = {json.dumps(vec_of(e), sort_keys=True): why for e, why in b2}
        again_seq = None
        for e, why in first:
            k = json.dumps(vec_of(e), sort_keys=True)
            if k not in again:
                # accepted when rendered alone: repeat the whole sequence of renders in order (state carried from one
                # render into the next?)
                if again_seq is None:
                    o3, b3 = replay_and_judge(chk, allvec)
                    again_seq = {json.dumps(vec_of(e3), sort_keys=True): w3 for e3, w3 in b3}
                if k not in again_seq:
                    raise vlib.Inconclusive("rejected observation did not reproduce: " + k)
                chk.violation("after-earlier-renders:" + key_of(e, again_seq[k]),
                              "real uniform render of %s is rejected (%s) when it follows the earlier renders of the same process, "
                              "twice in a row, but not when rendered alone" % (k, again_seq[k]), dict(vector=vec_of(e), why=again_seq[k]))
                continue
            chk.violation(key_of(e, again[k]), "real uniform render of %s rejected: %s" % (k, again[k]),
                          dict(vector=vec_of(e), why=again[k]))
    if flagged and not bad:
        raise vlib.Inconclusive("model/code divergence: UniformM flags %d scenes but every real mesh was accepted" % len(flagged))
    multi = sum(1 for o in obs if (o["dims"][1] + 2) * (o["dims"][2] + 2) > 100)
    for o in obs[:1200:300]:
        chk.sample(dict(dims=o["dims"], scene=o["scene"], triangles=len(o["tris"]), first=o["tris"][:1]))
    # ---- all 256 sign configurations: every triangle's normal agrees with the (discrete) gradient
    wcfg = ("SPECIFICATION Spec\nCONSTANT DX = 2\nCONSTANT DY = 2\nCONSTANT DZ = 2\nCONSTANT Base = 2\nCONSTANT LoDigits = 4\n"
            "CONSTANT Emit = TRUE\nCONSTANT Sample = 0\nCONSTANT Seed = 1\nINVARIANT StaticOK\nINVARIANT WorldOK\nCHECK_DEADLOCK FALSE\n")
    res = chk.tlc("MarchCubes", cfg_text=wcfg, timeout=900, extra=["-continue"], name="MarchCubes 2x2x2 sign worlds (orientation)")
    wvec = [dict(dims=[2, 2, 2], base=2, code=int(raw.split(",")[0])) for raw in res.printed("VEC") + res.printed("MODELBAD")]
    wout = chk.vh(["c05-replay", "mcu", "mco"], stdin="\n".join(json.dumps(v) for v in wvec) + "\n", timeout=600)
    wobs = [json.loads(x) for x in wout.splitlines() if x.strip()]
    for e, why in chk.validate("MeshTrace", wobs, chunks=2, timeout=900):
        chk.violation("world:%s:2x2x2:b2:%d:%s" % (e["r"], e["code"], why),
                      "real %s mesh of sign world %d rejected: %s" % (e["r"], e["code"], why),
                      dict(kind="world", vector=dict(dims=[2, 2, 2], base=2, code=e["code"]), renderer=e["r"]))
    chk.traces += len(wobs)
    chk.cov["sign_worlds_judged_for_orientation"] = len(wobs)
    # ---- T: measured numerics
    out = chk.vh(["c06-measure"], timeout=1800)
    meas = [json.loads(x) for x in out.splitlines() if x.strip()]
    badm = chk.validate("MeasureTrace", meas, chunks=1, timeout=600)
    chk.traces += len(meas)
    for e, why in badm:
        chk.violation("measure:%s:%s:%d:%s" % (e["shape"], e["r"], e["cells"], why),
                      "measured %s mesh of %s (%s) at %d cells rejected: %s  [%s]" % (
                          e["r"], e["shape"], e["param"], e["cells"], why,
                          {k: e[k] for k in ("maxf", "sphere", "planef", "meshsurf", "surfmesh", "outside", "badnorm", "volerr")}),
                      dict(kind="measure", obs=e))
    chk.sample(dict(measured={k: meas[0][k] for k in ("shape", "r", "cells", "maxf", "sphere", "volerr")}))
    chk.cov.update(dict(plans=plans, scenes_judged=len(obs), scenes_nontrivial=sum(1 for o in obs if o["tris"]),
                        scenes_with_multi_batch_layers=multi, drift_from_model_triangulation=drift,
                        measured_meshes=len(meas),
                        rule="exact scene = LCG-drawn integer field on a non-cubic lattice; each rendered by the real "
                             "uniform renderer and judged by UniTrace.tla; measured meshes judged by MeasureTrace.tla"))
