"""What MANIFEST.json claims, per property (bin/mkmanifest renders it)."""
HOOK_COMMITS = ["0d2849f"]

TB = ("Trusted base: TLC; the harness projection (vertex identification, lattice-lookup fields, file parsers); "
      "the extracted tables/constants are read from the tree under test at check time.")

CLAIMS = {
 "C05": dict(
  text="TLC enumerates every world of free lattice corners over the tables extracted from the tree (all 256 "
       "configurations, all 3x4096 face-adjacent pairs, all {N,z,P} zero patterns of a 2x2x2 block; thorough adds "
       "{N,n,z,P} and sampled larger blocks) and checks closedness/orientation of the model; every exported world is "
       "rendered by the real uniform and octree renderers and MeshTrace.tla judges the property on the real triangles.",
  design_ref="DESIGN.md section 6 C05", technique="TLC exhaustive world enumeration + replay into real renderers + TLC trace validation of real meshes",
  note=TB + " Exhaustive over configurations and zero patterns within the stated blocks; 'all shapes' is sampled."),
 "C08": dict(
  text="As C05 in 2D: TLC enumerates all worlds (16 configurations, adjacent pairs, the full 3x3 neighbourhood of a "
       "lattice corner over {N,z,P}, 2x2 over {N,n,z,P}); each is rendered by the real uniform and quadtree marching "
       "squares renderers through Line2Buffer; LineTrace.tla judges even degree, degree 2 away from snapped corners, "
       "no zero-length segment, end points on straddling edges.",
  design_ref="DESIGN.md section 6 C08", technique="TLC exhaustive world enumeration + replay into real renderers + TLC trace validation of real segments",
  note=TB + " Circle/perimeter convergence clauses are measured numerics (see DESIGN section 10)."),
}

NOT_APPLICABLE = {}
