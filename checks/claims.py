"""What MANIFEST.json claims, per property (bin/mkmanifest renders it)."""
HOOK_COMMITS = ["0d2849f", "ee1b138"]
FIX_COMMITS = ["637e9cd", "9c26294", "53d59b1", "7c81d73", "b8335d9", "ba69dd9", "426de79", "35bd7d0", "c1ef8b6", "c8e6887", "847a1a5", "91556b7", "78156aa", "83bb8c4", "8065739", "64898f8", "70d2ff8", "96d6c55", "1ef9f29", "ec644a6", "826ef07", "d9567de", "552f738", "0658b0a", "2e5c985"]

TB = ("Trusted base: TLC; the harness projection (vertex identification, lattice-lookup fields, file parsers); "
      "the extracted tables/constants are read from the tree under test at check time.")

CLAIMS = {
 "C05": dict(
  text="TLC enumerates every world of free lattice corners over the tables extracted from the tree (all 256 "
       "configurations, all 3x4096 face-adjacent pairs, all {N,z,P} zero patterns of a 2x2x2 block; thorough adds "
       "{N,n,z,P} and sampled larger blocks) and checks closedness/orientation of the model; every exported world is "
       "rendered by the real uniform and octree renderers and MeshTrace.tla judges the property on the real triangles.",
  design_ref="DESIGN.md section 6 C05", technique="TLC exhaustive world enumeration + replay into real renderers + TLC trace validation of real meshes",
  note=TB + " Exhaustive over configurations and zero patterns within the stated blocks; 'all shapes' is sampled."),
 "C08": dict(
  text="As C05 in 2D: TLC enumerates all worlds (16 configurations, adjacent pairs, the full 3x3 neighbourhood of a "
       "lattice corner over {N,z,P}, 2x2 over {N,n,z,P}); each is rendered by the real uniform and quadtree marching "
       "squares renderers through Line2Buffer; LineTrace.tla judges even degree, degree 2 away from snapped corners, "
       "no zero-length segment, end points on straddling edges.",
  design_ref="DESIGN.md section 6 C08", technique="TLC exhaustive world enumeration + replay into real renderers + TLC trace validation of real segments",
  note=TB + " Circle/perimeter convergence clauses are measured numerics (see DESIGN section 10)."),
 "C06": dict(
  text="Lattice3Scan.tla model-checks the uniform renderer's layer cache, batch offsets and corner pairing; UniformM.tla "
       "draws exact integer scenes (boxes cut by arbitrary small-integer planes, unions, differences) on non-cubic lattices "
       "with layers larger than one evaluation batch; each is rendered by the real uniform renderer and UniTrace.tla judges "
       "with exact rationals that every vertex is the linear zero crossing of a straddling lattice edge, every strictly "
       "straddling edge carries a vertex and nothing leaves the padded box. The accuracy clauses (plane, sphere bound, one "
       "cell diagonal both ways, normals, second-order volume convergence) are measured on analytic shapes through both "
       "renderers and judged by MeasureTrace.tla.",
  design_ref="DESIGN.md section 6 C06 and section 10", technique="TLC model of the scan data flow + exact-lattice scene replay + TLC trace validation; measured numerics judged by a TLC trace spec",
  note=TB + " The measured clauses are seeded samples judged (not computed) by TLC."),
 "C07": dict(
  text="Octree.tla / Quadtree.tla model the hierarchical traversal (emptiness test, child order, leaf marching) on an exact "
       "lattice; TLC checks NoEmittingCellSkipped for all single L-infinity boxes and LCG-drawn two-box and diagonal-plane "
       "scenes (gradient 0.99: the tight case of the half-diagonal test). Every scene is rendered by the real octree and "
       "quadtree renderers for f and for f/1024 (nothing prunable); OctTrace/QuadTrace judge hierarchical = exhaustive output "
       "= flat-scan model, and compare the hook-recorded isEmpty decisions with the model traversal (drift only). Real shapes "
       "(tangency scenes, thousands of discs at 1000 cells, features thinner than a cell on diagonal lattice points, surfaces "
       "clipping a lattice point by 1e-12 .. 1e-7 of a cell) are additionally compared with a full-lattice reference built in the "
       "harness from the real per-cell routines (every finest cell, field values untouched); HierTrace.tla judges.",
  design_ref="DESIGN.md section 6 C07", technique="TLC model checking of the traversal + replay into the real renderers + TLC trace validation (metamorphic and model-based)",
  note=TB + " Scenes are 1-Lipschitz by construction; 'all shapes' is the stated lattice families."),
 "C11": dict(
  text="Pipeline.tla models buffer, lock, unbuffered channel, writer goroutine and caller action by action; TLC checks "
       "sequence conservation, no aliasing of a sent slice, the at-return count, append-only delivery and termination for "
       "1-3 producers and every batch size around the threshold over all interleavings, and enumerates every complete "
       "schedule with the code's real thresholds (read from the tree). Each schedule is replayed into the real "
       "Triangle3Buffer/Line2Buffer, channel and writer with the verif hooks as a scheduler gate, into the in-memory "
       "collector and the STL/3MF/DXF/SVG writers; the item sequence read back by independent readers is judged by "
       "PipeRunTrace.tla, and hook-event logs of free-running and gated runs are validated step by step against "
       "Pipeline.tla (PipelineTrace.tla). Beyond the bounded instances, Apalache discharges an inductive invariant "
       "(PipeCore.tla, PipeCoreN.tla: 1 and 3 producers, ANY threshold, batch size and number of writes) that implies "
       "conservation and the at-return count, and TLC checks that Pipeline.tla refines those cores.",
  design_ref="DESIGN.md section 6 C11", technique="TLC exhaustive model checking of the pipeline + Apalache inductive invariant (unbounded parameters) with a TLC refinement check + schedule replay with a hook-based scheduler gate + TLC trace validation of real event logs",
  note=TB + " Schedules are exhaustive for the stated producer counts/batch sizes; larger runs are covered by event-trace validation only."),
 "C12": dict(
  text="Pipeline.tla with a sink fault: TLC checks termination under fairness for every writer kind x fault position x "
       "volume (a writer that returns on a write error while the channel is open violates it; draining, at-end and "
       "create failures do not) and RenderTop.tla bounds goroutines over render histories. The real ToSTL/To3MF/ToDXF/ToSVG "
       "are then run, one child process per case, with RLIMIT_FSIZE at every flush boundary (+-1, header, final flush), "
       "/dev/full and uncreatable paths, for volumes around the buffer threshold; a hang is reported only if the call did "
       "not return and the goroutine dump shows the producer blocked in the buffer's send. Goroutine counts after "
       "1..16 renders of every entry point are judged against a bound independent of k (FaultTrace.tla). "
       "The goroutine stage also runs fail-then-good and pause histories for every sink under an in-process watchdog that takes a goroutine dump; all watchdogs measure silence (no hook event for an interval), not duration.",
  design_ref="DESIGN.md section 6 C12", technique="TLC liveness checking of the pipeline under sink faults + fault enumeration on the real code in child processes + TLC trace judgement",
  note=TB + " Fault points are enumerated per flush boundary for the streamed STL and sampled for the at-end writers; the two defects found (ToSTL hang, goroutine leak) are repaired by fix: commits 637e9cd and 9c26294."),
 "C09": dict(
  text="EvalPool.tla models the main goroutine(s), the W evaluation workers, the shared bounded channel, the WaitGroup, the "
       "layer slots and the point buffers; TLC checks for all interleavings (W 1..3, 1-2 concurrent renders, 1-2 layers) that "
       "every slot is written once with its own point, that no in-flight point buffer is reused and that the marching loop "
       "always reads a complete correct layer. Every complete schedule of the W=2 model is then forced onto the real pool "
       "through the hooks in render/march3.go on an exact scene whose layers need three real batches: the sequential "
       "schedule is judged against the exact predicted mesh (UniTrace.tla), all others must give the identical triangle "
       "sequence. Free runs under GOMAXPROCS 1..NumCPU, slow/yielding Evaluate, earlier and concurrent renders, all "
       "sinks, are judged by a memo (DetTrace.tla). "
       "Further free runs: NaN holes, a render that sleeps for seconds, 1200 repetitions of a small octree render and simultaneous file writes in a child process, deep (> 2^9 cells) octree and quadtree renders, a cached 2D shape inside an extrusion.",
  design_ref="DESIGN.md section 6 C09", technique="TLC exhaustive interleaving model + forced-schedule replay through a hook scheduler gate + TLC memo validation of output digests",
  note=TB + " Forced schedules cover the evaluation pool; the writer side is covered by C11's schedules. Digests are SHA-256 prefixes."),
 "C10": dict(
  text="ConcEval.tla model-checks G concurrent Evaluate calls on a shape abstracted to the shared cells it reads and writes "
       "(immutable, lock-bracketed cache, unguarded cache): no conflicting access, values equal the sequential values, the "
       "cache holds F, for all interleavings; the unguarded cache of the pinned commit violates it. Which kind a real shape is "
       "is observed for every shape type the library constructs (57: primitives, combinators, cache, voxel, mesh import, text, "
       "wrappers, obj parts): deep digest of the reachable state across Evaluate, the Go race detector and runtime fault "
       "detection in a -race build (one child per shape, cold instance hammered by one goroutine per CPU, plus uniform and "
       "octree renders), and concurrent values against sequential values; ConcTrace.tla judges the observations. "
       "For the one shape that keeps state, CacheConc.tla's schedules (every interleaving of its critical sections) are forced on the real Cache2D through a gated operand; per shape two simultaneous renders are compared with the render that ran alone.",
  design_ref="DESIGN.md section 6 C10", technique="TLC model checking of access interleavings + race-detector / deep-digest observation of every shape type judged by a TLC trace spec",
  note=TB + " The race detector sees only races in the schedules run; the defect found (Cache2D) is repaired by fix: commit 53d59b1."),
 "C13": dict(
  text="StlFormat.tla gives the binary STL layout at token level (80-byte header, u32 count, 12 float32 + u16 per triangle), "
       "Encode / Decode and the float32 image of dyadic numbers by integer arithmetic; StlStream.tla is the streaming writer "
       "(placeholder header, records through a bufio buffer, flush, seek 0, header rewrite) checked for every split into "
       "batches and every buffer capacity. TLC-drawn triangle lists (0..3 triangles at scales 2^-149..2^104; 0, 1, 2, 255, "
       "256, 257, 1000 triangles) and seeded real-valued lists (tiny, huge, exact ties, signed zeros) are written by the real "
       "SaveSTL, ToSTL (scripted renderer) and writeSTL, parsed by an independent little-endian reader and loaded back by "
       "LoadSTL; StlTrace.tla judges size, count, float32 tokens in order and winding, zero attribute, unit right-hand-rule "
       "normals (exact integer test and measured), streamed = batch bytes, LoadSTL = float32 image, and hand-made ASCII files.",
  design_ref="DESIGN.md section 6 C13", technique="TLC model of the format and of the streaming writer + replay into the real writers/loader + TLC trace validation of the real bytes",
  note=TB + " float32 rounding of non-dyadic inputs is data (math/big, cross-checked by bit manipulation), not derived by TLC. "
       "Known finding: an ASCII STL shorter than 84 bytes (empty solid) fails to load."),
 "C14": dict(
  text="StlLoader.tla is the decision procedure of LoadSTL over abstract files (size / header-count relation; body = sequence "
       "of line kinds as bufio.Scanner, strings.Fields and ParseFloat classify them), with the ASCII grouping written as the code "
       "does it. TLC checks totality of the guarded procedure for every body of <= 5 (thorough 6) lines x 7 layouts and shows that "
       "the procedure as written panics for a vertex count not divisible by 3. Every exported abstract file is concretised to "
       "bytes in several seeded variants and, with seeded byte mutations of the shipped and generated STL files (truncation, "
       "extension, count edits incl. 2^32-1 and the 32-bit wrap, flips, splices, line edits), loaded by the real LoadSTL and "
       "ImportSTL in a child process (recover, watchdog, address-space limit, allocation measure); StlLoaderTrace.tla rejects "
       "Panic / Crash / Hang / OverAlloc and allocation above 64 x size + 4 MiB.",
  design_ref="DESIGN.md section 6 C14", technique="TLC model of the loader's decision procedure + replay of concretised abstract files and seeded mutations into the real loader + TLC trace validation",
  note=TB + " 'All byte strings' is sampled through the line-kind abstraction and seeded mutations, not enumerated. "
       "Known finding: loadSTLAscii panics when the number of vertex lines is not a multiple of 3."),
 "C15": dict(
  text="Export.tla specifies the 3MF mesh builder as a fold (AddVertex = existing index or append, AddTriangle), one DXF LINE per "
       "segment on layer Lines in order, and the SVG running min/max, translation to the minimum corner, Y flip and canvas = "
       "extent, on exact quarter-integer coordinates. TLC enumerates all lists of <= 2 triangles over a point set (duplicates, "
       "shared vertices, degenerate, negative, beyond 2147 mm) and <= 2 segments over a 3x3 grid, plus LCG-drawn longer lists; "
       "each is written by the real To3MF / ToDXF / SaveDXF / ToSVG / SaveSVG (scripted renderers) and decoded with the go3mf "
       "reader + raw XML, the yofu/dxf reader and encoding/xml; ExportTrace.tla compares structure, order, winding, layer, unit, "
       "canvas. Seeded real-valued lists at five magnitudes are measured against half a unit of each format's last decimal.",
  design_ref="DESIGN.md section 6 C15", technique="TLC model of the three writers + replay into the real exporters + independent decoding + TLC trace validation",
  note=TB + " Known finding: beyond |x| = 2147.483647 the go3mf mesh builder used by write3MF merges distinct vertices."),
 "C01": dict(
  text="spec/CSG.tla defines the shape language of sdf2.go/sdf3.go on an exact lattice (three-valued membership Cmp without "
       "square roots, exact values Val, the code's box arithmetic BBcode); CSGMachine.tla enumerates every placed primitive x "
       "every constructor applied once and LCG-samples deeper expression trees (depth <= 2 quick, <= 3 thorough; translations "
       "into negative quadrants, 90-degree rotations, mirrors, scale, offset, shell, cut, elongate, array, rotate-copy, extrude, "
       "twist, revolve, slice, union/difference/intersection) and checks that BBcode encloses every certainly-negative point. Every "
       "program is rebuilt with the real constructors; CSGTrace.tla accepts iff the real box is finite, ordered and contains every "
       "logged strictly negative lattice point of the window two cells larger than the boxes (BBcode only as drift). Constructors "
       "without lattice semantics (rounded primitives, cones, capsules, lines, polygons, arbitrary rotations, non-uniform scale, "
       "the extrusion family, loft, revolve, screw, slice, voxel, text, cams, flange, rack, gear, spiral, splines, every obj part "
       "with the examples' parameter sets) are probed on a stratified grid over the box enlarged by 50 %; BBoxTrace.tla judges. "
       "The same clause judges every box handed out when two first BoundingBox() calls on one combinator overlap: the schedule "
       "is forced through an operand whose BoundingBox() can be held (21 combinators, c01conc.go).",
  design_ref="DESIGN.md section 6 C01, sections 3 and 10", technique="TLC program enumeration on an exact lattice + replay on the real constructors + TLC trace validation; measured probes judged by a TLC trace spec",
  note=TB + " Exhaustive only over depth-1 programs on the reduced parameter grid; deeper programs and all real-valued shapes are seeded samples; "
       "'all points' is the integer window (stage 1) or a stratified sample (stage 2). Known findings are keyed by constructor."),
 "C02": dict(
  text="The same CSG.tla is the independent reference interpreter: for every explored program and every lattice point of its window "
       "CSGTrace.tla compares the sign of the real Evaluate with Cmp wherever the lattice decides it and the value with Val where it "
       "is rational (union = min, intersection = max, difference = max(a,-b), transforms / scale / offset / shell / elongate / array / "
       "rotate-copy / extrude / twist / revolve / slice map the point or the level). Off the lattice the node laws are measured on "
       "seeded real compositions (operand evaluated at the independently mapped point, incl. arbitrary rotation axes, mirrors, "
       "non-uniform scale, loft, rounded extrusion, screw; twist and screw handedness markers; blends <= min and symmetric; voxel "
       "corner / range laws) and judged by LawTrace.tla. Blend.tla: PolyMin/PolyMax exact on a rational grid, all laws of the property, "
       "every case replayed on the real functions. Cache.tla: every query history of length <= 5 over 3 points (two equal as map "
       "keys) replayed against the real Cache2D over a counting spy. "
       "CacheConc.tla models the cache as written (lookup under the lock, wrapped Evaluate outside it, store under the lock); every interleaving of 2-3 callers x 2-3 queries is forced on the real Cache2D through a gated operand and judged by CacheConcTrace.tla.",
  design_ref="DESIGN.md section 6 C02, sections 3 and 10", technique="exact-lattice denotation as reference interpreter + replay + TLC trace validation; TLC-exact rational blend laws; TLC history enumeration for the cache; measured node laws judged by a TLC trace spec",
  note=TB + " Node laws off the lattice are measured numerics (seeded) judged, not computed, by TLC."),
 "C03": dict(
  text="CSGMachine.tla carries the flags exact / lip1 with the propagation rules of the property and checks on the lattice Val = Dist "
       "(an independently written clamp-form Euclidean distance) for exact chains and |Val(p)-Val(q)| <= |p-q| for neighbouring "
       "lattice points of lip1 programs; CSGTrace.tla judges the same on the REAL values of every explored program (axis and diagonal "
       "neighbours). Off the lattice every exact primitive (sphere, (rounded) box, (rounded) cylinder, capsule, (rounded) truncated cone, "
       "circle, (rounded) 2D box, Line2D, polygon) is compared with closed-form / brute-force oracles at seeded points (inside, outside, "
       "medial, on the axis, far away, rounding up to the admissible maximum), exactness under rigid transform / uniform scale / outward "
       "offset / one-sided revolution, and the Lipschitz ratio is measured on random point pairs for every listed composition; judged "
       "by LawTrace.tla / LipTrace.tla.",
  design_ref="DESIGN.md section 6 C03, sections 3 and 10", technique="TLC flag propagation and exact lattice distances + replay + TLC trace validation; measured oracle comparisons and Lipschitz ratios judged by TLC trace specs",
  note=TB + " The Lipschitz inequality at irrational values and the oracle comparisons are measured in Go and judged in TLC (DESIGN section 10)."),
 "C17": dict(
  text="PolyBuilder.tla is the vertex-list rewriting machine of Polygon.Vertices() (Drop, Polar, RelToAbs, createArcs, "
       "smoothVertices in index order with the exact fit rule in Q(sqrt 2), Chamfer as a 1-facet fillet, Reverse, Close); TLC checks "
       "the property's clauses (facets+1 points, tangent points, on-circle, centre tangent to both edges, unchanged when it does not "
       "fit, facets-1 arc points) on every single compass corner (45/90/135 degrees, both turning directions, edge lengths 1..3, "
       "radii 1..2, facets 1..3, chamfer), every w x h rectangle with four competing fillets (exact fits included), LCG-drawn "
       "walks of 3..5 vertices mixing absolute/relative/polar vertices, Smooth, Chamfer, Arc, Close, Reverse, Drop, and Nagon(4); "
       "every program runs on the real builder and PolyTrace.tla judges each real vertex against its item of the recomputed "
       "expectation. Real-valued corners (near 0 and 180 degrees, either edge too short), arcs (chords/radii/signs, semicircles), "
       "N-gons 3..24 and Bezier curves of degree 1..4 (lattice control polygons whose structure Bezier.tla checks, random control "
       "polygons and handles; nearest-parameter search by de Casteljau) are measured by the harness and judged by PolyMeasTrace.tla.",
  design_ref="DESIGN.md section 6 C17 and section 10", technique="TLC model of the builder's rewriting machine + replay into the real builder + TLC trace validation; measured geometry judged by a TLC trace spec",
  note=TB + " Exact TLC geometry covers the rational family (axis-aligned 90-degree corners); all other geometry is measured against "
       "analytic fillets/arcs/de Casteljau computed by the harness and only judged by TLC. An exactly fitting fillet is the boundary "
       "of the fit rule: a differing vertex count there is drift. Known findings: NaN vertices next to an exactly fitting fillet, NaN "
       "semicircle arcs."),
 "C18": dict(
  text="Threads.tla holds the standards as data written independently of the code (ISO 261 coarse/fine pitches, UNC/UNF number and "
       "fractional sizes, NPT outside diameters/TPI/1:32 half-angle taper) and the designation grammar; TLC checks the data (fine < "
       "coarse, monotone, names injective, ToMM = x127/5 idempotent) and enumerates every candidate designation of the grammar; "
       "sdf.ThreadLookup is called for every candidate (database names are also taken from a source scan so that a name outside the "
       "grammar is noticed) and ThreadTrace.tla recomputes radius/pitch/taper from the designation tokens and judges the real entry "
       "and its ToMillimetre conversion. Screw.tla is the right-handed helical map on the (45-degree, quarter-unit) lattice of a "
       "rectangular profile; every lattice point x starts in {1,-1,2,-2} is evaluated on the real Screw3D and judged (absolute "
       "handedness, pitch periodicity). For every database entry x tolerances {0, 0.05, 0.2 mm}: helical invariance at random real "
       "angles (starts 1,-1,2,-3), z-periodicity, opposite-hand control, mating of the external thread with the material left by the "
       "internal thread (same taper) and obj.Bolt against obj.Nut on a stratified sample of the thread annulus over two pitches, and "
       "the realised taper - measured by the harness, judged by ScrewTrace.tla.",
  design_ref="DESIGN.md section 6 C18 and section 10", technique="TLC-checked standards data + exhaustive replay of the thread database + lattice helix model + TLC trace validation of measured screw geometry",
  note=TB + " The database clause is exhaustive over the real entries; helical invariance and mating are seeded samples judged (not "
       "computed) by TLC; starts beyond +-3 and thread lengths are not varied. Known finding: ScrewSDF3.Evaluate uses atan(taper) "
       "for the taper slope."),
 "C19": dict(
  text="DualContour.tla transcribes both dual-contouring renderers on symbolic vertices (the cell that owns the vertex): "
       "the uniform grid of dc3v2.go (one vertex per mixed cell, a quad per sign-changing far edge with the code's k1,k2,k3 "
       "offsets and xor flip) and the octree recursion of dc3v1.go (cellProc/faceProc/edgeProc/processEdge, leaves only) over "
       "the mask tables read from the tree under test. TLC checks, for all 256 sign fields of a 2x2x2 block of free corners "
       "inside a positive ring and LCG-sampled 3x3x3, non-cubic and {N,z,P} blocks, that every directed edge is matched, "
       "there is one quad per sign-changing lattice edge, no neighbour is missing and the signed volume with cell centres "
       "equals the number of solid corners. Every world is rendered twice by the real DualContouringV2 (vertex clamping on) "
       "and DualContouringV1 (vertex locking on, no simplification) as a continuous trilinear field; DCTrace.tla judges the "
       "property on the real triangles (balance after identifying coincident vertices, no degenerate triangle, positive "
       "volume, finite vertices inside the sampled box, identical repeated run) and compares vertex-to-cell ownership and "
       "the quad set with the model as drift. Spheres, boxes, rotated boxes, cylinders, unions and differences with enlarged "
       "boxes at several resolutions are measured (unmatched directed edges, degenerate triangles, volume, vertex-to-surface "
       "distance in cell diagonals, determinism) and judged by DCMeasureTrace.tla.",
  design_ref="DESIGN.md section 6 C19 and section 10", technique="TLC world enumeration over the code's tables + replay into both real renderers + TLC trace validation of real meshes; measured numerics judged by a TLC trace spec",
  note=TB + " The QEF vertex position is not modelled (any point of the cell); the one-cell-diagonal clause is measured on seeded "
       "shapes (for CSG shapes |f| is a lower bound of the distance). The premise 'surface strictly inside the sampled volume' is "
       "built into the worlds (positive ring) and the enlarged boxes; quads at the volume boundary are outside the property. "
       "The render/dc tables are read through go:linkname (no verif export exists). Three genuine defects are recorded in "
       "known_findings.json (V2 drops a proper triangle together with a degenerate one -> hole; V2 and V1 emit zero-area "
       "triangles)."),
 "C20": dict(
  text="Delaunay.tla defines DT(P) with exact integer Orient/InCircle determinants; DelaunayM.tla enumerates every point set in "
       "general position of 3..5 points on a 5x5 grid (quick: n=3 exhaustive, n=4,5 and 6 points on 6x6 LCG-sampled) in several "
       "input orders and checks |DT| = 2n-2-h, DT triangulates the hull, area(DT) = area(hull). TriSet.tla transcribes "
       "TriangleI.Canonical, TriangleIByIndex.Less as written, Go's insertion sort and TriangleISet.Equals; TriSetM.tla checks "
       "whether the comparator is a strict total order on the canonical triples over 5..7 indices and whether Equals accepts every "
       "permuted and rotated copy of every set of up to 3 (sampled: 4..6) triangles. BowyerWatson.tla runs the incremental algorithm "
       "as Delaunay2d writes it (x-sorted insertion in three tie orders, symbolic super triangle with polynomial-in-k arithmetic, done "
       "flags with the early-out, copy-the-tail removal, edge buffer with duplicate cancellation, super-triangle removal) on sampled "
       "grid sets with the invariant result = DT(P) at termination. Every exported point set runs through the real "
       "Delaunay2d and Delaunay2dSlow, every triangle set through the real Equals against all its permutations, every ordered pair "
       "of canonical triples through the real Less; DelTrace.tla judges result = DT(P), fast = slow as sets, 2n-2-h, Equals true "
       "exactly for equal multisets of canonical triples, comparator a strict total order. Seeded random real point sets "
       "(10..300 points; uniform, clustered, near-collinear hulls, rings, aspect ratios to 1000, offsets to 1000 extents, scales "
       "1e-2..1e4) are measured with exact math/big predicates and judged by the same trace spec from counts.",
  design_ref="DESIGN.md section 6 C20 and section 9", technique="TLC enumeration of exact grid cases and triangle sets + replay into the real code + TLC trace validation; random real sets measured exactly and judged by TLC",
  note=TB + " Grid cases are exhaustive within the stated bounds (thorough tier); real-valued sets are seeded samples; cases with a point "
       "within 1e-9 (relative) of a result circumcircle are not judged. Four defect classes of the pinned tree are recorded in "
       "known_findings.json (Less not a strict weak order; Equals order-dependent; hull slivers beyond the finite super triangle "
       "omitted; absolute epsilon in InCircumcircle at small scales)."),
 "C16": dict(
  text="BoxDistM.tla enumerates every integer box in [0..4]^d with every point of [-2..6]^d (2D and 3D: all 9 / 27 position "
       "classes, faces, edges and corners themselves; quick tier 3D: [0..3]^3 x [-2..5]^3), cross-checks the definition (clamp / "
       "farthest corner) against brute force and compares it with the transcription of Box2/Box3.MinMaxDist2 as written; "
       "OverlapM.tla does the same for Interval.Overlap vs 'share a value'; UnionM.tla enumerates operand sets (archetype x "
       "every placement of a second box/circle in both orders, plus LCG-drawn sets of 2-3 operands: nested, equal, far apart) x "
       "{min, PolyMin(k), k in 1/2, 3, 12} and evaluates the transcription of UnionSDF2.Evaluate against the minimum over all "
       "operands in outward-rounded exact arithmetic. Every exported case is executed on the real MinMaxDist2 / Overlap / "
       "Union2D(...).Evaluate / (*UnionSDF2).EvaluateSlow at every window point, seeded random dyadic and float boxes and real "
       "operand sets are added, and BoxTrace.tla / UnionTrace.tla judge each real observation against the definition. "
       "Random real operand sets include nil operands, operands with loose or empty boxes (Cut2D / Difference2D / Intersect2D), nested unions whose blend is set afterwards and tiny shapes; EvaluateSlow itself is compared with the minimum over the operands as passed, and a difference is the recorded limitation only where the harness establishes that the operand holding the minimum undercuts the distance to its own box.",
  design_ref="DESIGN.md section 6 C16 and section 9", technique="TLC exhaustive lattice enumeration + replay into the real functions + TLC trace validation (definition as oracle; code transcription as drift)",
  note=TB + " Two genuine defects found on the unchanged tree are listed in known_findings.json (Box3 edge regions; pruning under a blend); "
       "sign equality under a blend is decided only where the sign is certain (|value| > 1e-9)."),
 "C04": dict(
  text="PolygonM.tla builds every simple lattice polygon with <= 4 (thorough: 5) vertices on a 4x4 (thorough also 5x5) vertex "
       "grid, collinear vertices allowed, both orientations exported, and every hole-free polyomino outline with its collinear "
       "vertices (perimeter <= 10 / 12); at every half-lattice point of the bounding box enlarged by one unit TLC checks that "
       "three independently written inside definitions agree and exports the exact rational squared distances. Each polygon is "
       "evaluated by the real Polygon2D, Mesh2D and Mesh2DSlow at every such point and at probes taken from the real quadtree "
       "((*MeshSDF2).Boxes(): corners, split lines, split line x vertex level, +-1 ulp); seeded random star / thin / many-vertex / "
       "staircase polygons (some with vertices moved onto their own split lines, or 5e-10 .. 1e-8 of the polygon size beside "
       "them) are probed level with vertices and on split lines. PolyTrace.tla recomputes Inside and D2 exactly and judges sign, "
       "distance (twice the clipper's snapping distance max(1e-9, 1e-14 x largest coordinate)) and quadtree vs brute force. "
       "Clip.tla / ClipM.tla specify the quadtree clipper in exact rationals (the four children partition every segment of a "
       "node); every lattice segment of a node box goes through the real Box2.lineIntersect / quad0..3 at 6 placements and with "
       "end points moved by about the snapping distance; ClipTrace.tla judges children, end points, lost parts, stray pieces.",
  design_ref="DESIGN.md section 6 C04", technique="TLC state-machine enumeration of simple lattice polygons + replay into the real polygon SDFs + TLC trace validation; real-valued probes measured against an exact-orientation brute force",
  note=TB + " Real-valued probe points (quadtree split lines are not lattice points) are judged against the harness's brute force, "
       "not against a TLC-computed value. The genuine defects this check found in the quadtree (winding, clipper) are repaired; "
       "see known_findings.json (fixed entries)."),
}

NOT_APPLICABLE = {}
