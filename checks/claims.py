"""What MANIFEST.json claims, per property (bin/mkmanifest renders it)."""
HOOK_COMMITS = ["0d2849f"]
FIX_COMMITS = ["637e9cd", "9c26294", "53d59b1", "7c81d73", "b8335d9", "ba69dd9"]

TB = ("Trusted base: TLC; the harness projection (vertex identification, lattice-lookup fields, file parsers); "
      "the extracted tables/constants are read from the tree under test at check time.")

CLAIMS = {
 "C05": dict(
  text="TLC enumerates every world of free lattice corners over the tables extracted from the tree (all 256 "
       "configurations, all 3x4096 face-adjacent pairs, all {N,z,P} zero patterns of a 2x2x2 block; thorough adds "
       "{N,n,z,P} and sampled larger blocks) and checks closedness/orientation of the model; every exported world is "
       "rendered by the real uniform and octree renderers and MeshTrace.tla judges the property on the real triangles.",
  design_ref="DESIGN.md section 6 C05", technique="TLC exhaustive world enumeration + replay into real renderers + TLC trace validation of real meshes",
  note=TB + " Exhaustive over configurations and zero patterns within the stated blocks; 'all shapes' is sampled."),
 "C08": dict(
  text="As C05 in 2D: TLC enumerates all worlds (16 configurations, adjacent pairs, the full 3x3 neighbourhood of a "
       "lattice corner over {N,z,P}, 2x2 over {N,n,z,P}); each is rendered by the real uniform and quadtree marching "
       "squares renderers through Line2Buffer; LineTrace.tla judges even degree, degree 2 away from snapped corners, "
       "no zero-length segment, end points on straddling edges.",
  design_ref="DESIGN.md section 6 C08", technique="TLC exhaustive world enumeration + replay into real renderers + TLC trace validation of real segments",
  note=TB + " Circle/perimeter convergence clauses are measured numerics (see DESIGN section 10)."),
 "C06": dict(
  text="Lattice3Scan.tla model-checks the uniform renderer's layer cache, batch offsets and corner pairing; UniformM.tla "
       "draws exact integer scenes (boxes cut by arbitrary small-integer planes, unions, differences) on non-cubic lattices "
       "with layers larger than one evaluation batch; each is rendered by the real uniform renderer and UniTrace.tla judges "
       "with exact rationals that every vertex is the linear zero crossing of a straddling lattice edge, every strictly "
       "straddling edge carries a vertex and nothing leaves the padded box. The accuracy clauses (plane, sphere bound, one "
       "cell diagonal both ways, normals, second-order volume convergence) are measured on analytic shapes through both "
       "renderers and judged by MeasureTrace.tla.",
  design_ref="DESIGN.md section 6 C06 and section 10", technique="TLC model of the scan data flow + exact-lattice scene replay + TLC trace validation; measured numerics judged by a TLC trace spec",
  note=TB + " The measured clauses are seeded samples judged (not computed) by TLC."),
 "C07": dict(
  text="Octree.tla / Quadtree.tla model the hierarchical traversal (emptiness test, child order, leaf marching) on an exact "
       "lattice; TLC checks NoEmittingCellSkipped for all single L-infinity boxes and LCG-drawn two-box and diagonal-plane "
       "scenes (gradient 0.99: the tight case of the half-diagonal test). Every scene is rendered by the real octree and "
       "quadtree renderers for f and for f/1024 (nothing prunable); OctTrace/QuadTrace judge hierarchical = exhaustive output "
       "= flat-scan model, and compare the hook-recorded isEmpty decisions with the model traversal (drift only).",
  design_ref="DESIGN.md section 6 C07", technique="TLC model checking of the traversal + replay into the real renderers + TLC trace validation (metamorphic and model-based)",
  note=TB + " Scenes are 1-Lipschitz by construction; 'all shapes' is the stated lattice families."),
 "C11": dict(
  text="Pipeline.tla models buffer, lock, unbuffered channel, writer goroutine and caller action by action; TLC checks "
       "sequence conservation, no aliasing of a sent slice, the at-return count, append-only delivery and termination for "
       "1-3 producers and every batch size around the threshold over all interleavings, and enumerates every complete "
       "schedule with the code's real thresholds (read from the tree). Each schedule is replayed into the real "
       "Triangle3Buffer/Line2Buffer, channel and writer with the verif hooks as a scheduler gate, into the in-memory "
       "collector and the STL/3MF/DXF/SVG writers; the item sequence read back by independent readers is judged by "
       "PipeRunTrace.tla, and hook-event logs of free-running and gated runs are validated step by step against "
       "Pipeline.tla (PipelineTrace.tla).",
  design_ref="DESIGN.md section 6 C11", technique="TLC exhaustive model checking of the pipeline + schedule replay with a hook-based scheduler gate + TLC trace validation of real event logs",
  note=TB + " Schedules are exhaustive for the stated producer counts/batch sizes; larger runs are covered by event-trace validation only."),
 "C12": dict(
  text="Pipeline.tla with a sink fault: TLC checks termination under fairness for every writer kind x fault position x "
       "volume (a writer that returns on a write error while the channel is open violates it; draining, at-end and "
       "create failures do not) and RenderTop.tla bounds goroutines over render histories. The real ToSTL/To3MF/ToDXF/ToSVG "
       "are then run, one child process per case, with RLIMIT_FSIZE at every flush boundary (+-1, header, final flush), "
       "/dev/full and uncreatable paths, for volumes around the buffer threshold; a hang is reported only if the call did "
       "not return and the goroutine dump shows the producer blocked in the buffer's send. Goroutine counts after "
       "1..16 renders of every entry point are judged against a bound independent of k (FaultTrace.tla).",
  design_ref="DESIGN.md section 6 C12", technique="TLC liveness checking of the pipeline under sink faults + fault enumeration on the real code in child processes + TLC trace judgement",
  note=TB + " Fault points are enumerated per flush boundary for the streamed STL and sampled for the at-end writers; the two defects found (ToSTL hang, goroutine leak) are repaired by fix: commits 637e9cd and 9c26294."),
 "C09": dict(
  text="EvalPool.tla models the main goroutine(s), the W evaluation workers, the shared bounded channel, the WaitGroup, the "
       "layer slots and the point buffers; TLC checks for all interleavings (W 1..3, 1-2 concurrent renders, 1-2 layers) that "
       "every slot is written once with its own point, that no in-flight point buffer is reused and that the marching loop "
       "always reads a complete correct layer. Every complete schedule of the W=2 model is then forced onto the real pool "
       "through the hooks in render/march3.go on an exact scene whose layers need three real batches: the sequential "
       "schedule is judged against the exact predicted mesh (UniTrace.tla), all others must give the identical triangle "
       "sequence. Free runs under GOMAXPROCS 1..NumCPU, slow/yielding Evaluate, earlier and concurrent renders, all "
       "sinks, are judged by a memo (DetTrace.tla).",
  design_ref="DESIGN.md section 6 C09", technique="TLC exhaustive interleaving model + forced-schedule replay through a hook scheduler gate + TLC memo validation of output digests",
  note=TB + " Forced schedules cover the evaluation pool; the writer side is covered by C11's schedules. Digests are SHA-256 prefixes."),
 "C10": dict(
  text="ConcEval.tla model-checks G concurrent Evaluate calls on a shape abstracted to the shared cells it reads and writes "
       "(immutable, lock-bracketed cache, unguarded cache): no conflicting access, values equal the sequential values, the "
       "cache holds F, for all interleavings; the unguarded cache of the pinned commit violates it. Which kind a real shape is "
       "is observed for every shape type the library constructs (57: primitives, combinators, cache, voxel, mesh import, text, "
       "wrappers, obj parts): deep digest of the reachable state across Evaluate, the Go race detector and runtime fault "
       "detection in a -race build (one child per shape, cold instance hammered by one goroutine per CPU, plus uniform and "
       "octree renders), and concurrent values against sequential values; ConcTrace.tla judges the observations.",
  design_ref="DESIGN.md section 6 C10", technique="TLC model checking of access interleavings + race-detector / deep-digest observation of every shape type judged by a TLC trace spec",
  note=TB + " The race detector sees only races in the schedules run; the defect found (Cache2D) is repaired by fix: commit 53d59b1."),
 "C13": dict(
  text="StlFormat.tla gives the binary STL layout at token level (80-byte header, u32 count, 12 float32 + u16 per triangle), "
       "Encode / Decode and the float32 image of dyadic numbers by integer arithmetic; StlStream.tla is the streaming writer "
       "(placeholder header, records through a bufio buffer, flush, seek 0, header rewrite) checked for every split into "
       "batches and every buffer capacity. TLC-drawn triangle lists (0..3 triangles at scales 2^-149..2^104; 0, 1, 2, 255, "
       "256, 257, 1000 triangles) and seeded real-valued lists (tiny, huge, exact ties, signed zeros) are written by the real "
       "SaveSTL, ToSTL (scripted renderer) and writeSTL, parsed by an independent little-endian reader and loaded back by "
       "LoadSTL; StlTrace.tla judges size, count, float32 tokens in order and winding, zero attribute, unit right-hand-rule "
       "normals (exact integer test and measured), streamed = batch bytes, LoadSTL = float32 image, and hand-made ASCII files.",
  design_ref="DESIGN.md section 6 C13", technique="TLC model of the format and of the streaming writer + replay into the real writers/loader + TLC trace validation of the real bytes",
  note=TB + " float32 rounding of non-dyadic inputs is data (math/big, cross-checked by bit manipulation), not derived by TLC. "
       "Known finding: an ASCII STL shorter than 84 bytes (empty solid) fails to load."),
 "C14": dict(
  text="StlLoader.tla is the decision procedure of LoadSTL over abstract files (size / header-count relation; body = sequence "
       "of line kinds as bufio.Scanner, strings.Fields and ParseFloat classify them), with the ASCII grouping written as the code "
       "does it. TLC checks totality of the guarded procedure for every body of <= 5 (thorough 6) lines x 7 layouts and shows that "
       "the procedure as written panics for a vertex count not divisible by 3. Every exported abstract file is concretised to "
       "bytes in several seeded variants and, with seeded byte mutations of the shipped and generated STL files (truncation, "
       "extension, count edits incl. 2^32-1 and the 32-bit wrap, flips, splices, line edits), loaded by the real LoadSTL and "
       "ImportSTL in a child process (recover, watchdog, address-space limit, allocation measure); StlLoaderTrace.tla rejects "
       "Panic / Crash / Hang / OverAlloc and allocation above 64 x size + 4 MiB.",
  design_ref="DESIGN.md section 6 C14", technique="TLC model of the loader's decision procedure + replay of concretised abstract files and seeded mutations into the real loader + TLC trace validation",
  note=TB + " 'All byte strings' is sampled through the line-kind abstraction and seeded mutations, not enumerated. "
       "Known finding: loadSTLAscii panics when the number of vertex lines is not a multiple of 3."),
 "C15": dict(
  text="Export.tla specifies the 3MF mesh builder as a fold (AddVertex = existing index or append, AddTriangle), one DXF LINE per "
       "segment on layer Lines in order, and the SVG running min/max, translation to the minimum corner, Y flip and canvas = "
       "extent, on exact quarter-integer coordinates. TLC enumerates all lists of <= 2 triangles over a point set (duplicates, "
       "shared vertices, degenerate, negative, beyond 2147 mm) and <= 2 segments over a 3x3 grid, plus LCG-drawn longer lists; "
       "each is written by the real To3MF / ToDXF / SaveDXF / ToSVG / SaveSVG (scripted renderers) and decoded with the go3mf "
       "reader + raw XML, the yofu/dxf reader and encoding/xml; ExportTrace.tla compares structure, order, winding, layer, unit, "
       "canvas. Seeded real-valued lists at five magnitudes are measured against half a unit of each format's last decimal.",
  design_ref="DESIGN.md section 6 C15", technique="TLC model of the three writers + replay into the real exporters + independent decoding + TLC trace validation",
  note=TB + " Known finding: beyond |x| = 2147.483647 the go3mf mesh builder used by write3MF merges distinct vertices."),
}

NOT_APPLICABLE = {}
