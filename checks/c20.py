"""C20 - Delaunay triangulation correct; its equality test order-independent.

M  Delaunay.tla: exact integer Orient / InCircle; DT(P) = counter-clockwise canonical triples with an
   empty circumcircle; DelaunayM.tla enumerates (or LCG-samples) point sets in general position on a
   small grid, in several input orders, and checks per case |DT| = 2n-2-h, DT triangulates the hull,
   area(DT) = area(hull).
   TriSet.tla: Canonical, TriangleIByIndex.Less as the code writes it (CodeLess), LexLess, Go's
   insertion sort, Equals; TriSetM.tla checks whether the comparator is a strict total order on the
   canonical triples over K indices and whether Equals(S, permuted+rotated S) for every permutation,
   over all small sets (sampled for 4 triangles).
   BowyerWatson.tla: the incremental algorithm as Delaunay2d runs it (x-sorted insertion in three tie
   orders, symbolic super triangle, done flags with the early-out, copy-the-tail removal, edge buffer
   with duplicate cancellation, super-triangle removal) with exact arithmetic; result = DT(P) at
   termination, for LCG-sampled grid sets.
R  every exported point set through the REAL render.Delaunay2d and Delaunay2dSlow; every exported
   triangle set through the REAL TriangleISet.Equals against all permutations; the REAL
   TriangleIByIndex.Less on every ordered pair of canonical triples over K indices.
T  seeded random REAL point sets of 10..300 points (uniform, clustered, near-collinear hulls, rings,
   wide aspect ratios, far offsets, scales 1e-2..1e4) with exact math/big predicates in the harness,
   logged as counts; permuted/rotated copies of the real triangulations through the real Equals.
   spec/trace/DelTrace.tla judges every observation.
"""
import json
import vlib

LEVEL = "model_checking"

DM_CFG = """SPECIFICATION Spec
CONSTANT G = %d
CONSTANT N = %d
CONSTANT Sample = %d
CONSTANT Seed = %d
CONSTANT Orders = %d
CONSTANT Emit = TRUE
INVARIANT CaseOK
CHECK_DEADLOCK FALSE
"""

TS_CFG = """SPECIFICATION Spec
CONSTANT K = %d
CONSTANT MaxT = %d
CONSTANT Cmp = "%s"
CONSTANT Sample = %d
CONSTANT Seed = %d
CONSTANT Emit = TRUE
INVARIANT OrderOK
INVARIANT SetOK
CHECK_DEADLOCK FALSE
"""

BW_CFG = """SPECIFICATION Spec
CONSTANT G = %d
CONSTANT N = %d
CONSTANT Sample = %d
CONSTANT Seed = %d
INVARIANT ResultOK
INVARIANT TypeOK
CHECK_DEADLOCK FALSE
"""

WHAT = {
    "less": "TriangleIByIndex.Less holds both ways for canonical triples with equal [1] and oppositely ordered [0], [2] "
            "(third clause does not require [0] equal): not a strict weak order",
    "equals-permutation": "TriangleISet.Equals is false for a permuted copy of a triangle set (sort with the non-asymmetric comparator)",
    "hull-sliver": "Delaunay2d omits hull triangles whose circumradius exceeds ~4096 extents (finite super triangle)",
    "small-scale": "Delaunay2d returns a non-Delaunay triangulation when input points are closer than ~1e-6 "
                   "(absolute epsilon 1e-12 on squared distances in Triangle2.InCircumcircle)",
}


def vec_of(e):
    if e["ev"] == "dt":
        return dict(pts=e["pts"])
    if e["ev"] == "eqs":
        return dict(s=e["a"])
    if e["ev"] == "less":
        return dict(less=e["k"])
    return dict(rnd=e["rnd"], seed=e["seed"])


def vkey(v):
    return json.dumps(v, sort_keys=True, separators=(",", ":"))


def key_of(e, why):
    return "%s|%s|%s" % (why, e["ev"], vkey(vec_of(e)))


def describe(e, why):
    cls = why.split(":")[0]
    d = "real observation rejected (%s) for %s" % (why, vkey(vec_of(e)))
    if e["ev"] == "dt":
        d += "; fast=%s slow=%s Equals(fast,slow)=%s results-on-copies=%s" % (e["fast"], e["slow"], e["fseq"], e["res"])
    elif e["ev"] == "eqs":
        bad = [e["copies"][i] for i in range(len(e["res"]) - 1) if not e["res"][i]]
        d += "; Equals(a, copy) is false for copies %s" % bad[:3]
    elif e["ev"] == "less":
        t, rel = e["tris"], e["rel"]
        both = [(t[i], t[j]) for i in range(len(t)) for j in range(i + 1, len(t)) if rel[i][j] and rel[j][i]]
        d += "; Less(a,b) and Less(b,a) both true for %d pairs, e.g. %s" % (len(both), both[:3])
    else:
        d += "; %s %s n=%d h=%d fast=%s slow=%s fast-slow=%d slow-fast=%d Equals(fast,slow)=%s permuted-copies-false=%d/%d" % (
            e["fam"], e["param"], e["n"], e["h"], e["f"], e["s"], e["dfs"], e["dsf"], e["fseq"], e["permfalse"], e["permk"])
    if cls in WHAT:
        d += "  [" + WHAT[cls] + "]"
    return d


def replay_and_judge(chk, vectors, chunk_size=1200):
    """vectors -> real code -> observations -> DelTrace. Returns (obs, [(event, why)])."""
    rnd = [v for v in vectors if "rnd" in v]
    oth = [v for v in vectors if "rnd" not in v]
    obs = []
    for cmd, vs in (("c20-replay", oth), ("c20-random", rnd)):
        if not vs:
            continue
        text = "\n".join(json.dumps(v) for v in vs) + "\n"
        out = chk.vh([cmd], stdin=text, timeout=1800)
        o = [json.loads(x) for x in out.splitlines() if x.strip()]
        if len(o) != len(vs):
            raise vlib.Inconclusive("%s returned %d observations for %d vectors" % (cmd, len(o), len(vs)))
        obs += o
    bad = chk.validate("DelTrace", obs, timeout=1800, chunk_size=chunk_size)
    for e, why in bad:
        if why.startswith("machinery:"):
            raise vlib.Inconclusive("trace spec reports a machinery problem: %s for %s" % (why, vkey(vec_of(e))))
    return obs, bad


def in_batch_only(chk, batch):
    """rejections of a batch run (several goroutines) that are accepted when each set is triangulated in a
    process of its own."""
    _, b3 = replay_and_judge(chk, batch, chunk_size=400)
    b3 = b3[:12]
    if not b3:
        return []
    obs = []
    for e, _ in b3:
        out = chk.vh(["c20-random"], stdin=json.dumps(vec_of(e)) + "\n", timeout=600)
        obs += [json.loads(x) for x in out.splitlines() if x.strip()]
    alone = set(vkey(vec_of(e)) for e, _ in chk.validate("DelTrace", obs, timeout=600))
    return [(e, w) for e, w in b3 if vkey(vec_of(e)) not in alone]


def report(chk, bad, limit=6, batch=None):
    """confirm (re-run just those vectors) and record; at most `limit` per reason class.
    `batch`: the vectors of the stage the rejections come from. The harness triangulates a batch in several
    goroutines; a rejection that does not reproduce alone is re-run within its batch (twice): a call that
    returns a wrong triangulation only while other calls are in flight has still returned a wrong
    triangulation for that set."""
    per = {}
    todo = []
    for e, why in bad:
        c = why.split(";")[0]
        per[c] = per.get(c, 0) + 1
        if per[c] <= limit:
            todo.append((e, why))
    if not todo:
        return per
    o2, b2 = replay_and_judge(chk, [vec_of(e) for e, _ in todo])
    again = {vkey(vec_of(e)) + "|" + e["ev"]: why for e, why in b2}
    for e, why in todo:
        k = vkey(vec_of(e)) + "|" + e["ev"]
        if again.get(k) != why:
            if batch:
                runs = [in_batch_only(chk, batch) for _ in range(2)]
                if all(runs):
                    e3, w3 = runs[0][0]
                    chk.violation("in-batch-only|%s" % w3.split(";")[0],
                                  "Delaunay2d returns a rejected triangulation only while other Delaunay2d calls are in flight: "
                                  "in 3 of 3 runs of the batch of %d random sets (6 goroutines) some sets were rejected that are "
                                  "accepted when triangulated alone (%d and %d sets in the re-runs); first: %s"
                                  % (len(batch), len(runs[0]), len(runs[1]), describe(e3, w3)),
                                  dict(batch=batch, why=w3))
                    return per
            raise vlib.Inconclusive("rejected observation did not reproduce: %s (%s, then %s)" % (k, why, again.get(k)))
        chk.violation(key_of(e, why), describe(e, why), dict(vector=vec_of(e), why=why))
    return per


def add_counts(dst, src):
    for k, v in src.items():
        dst[k] = dst.get(k, 0) + v


def run(chk, replay):
    chk.build()
    chk.assumptions += [
        "R: grid coordinates 0..5 are exact in float64; triples returned by Delaunay2d (indices into its x-sorted "
        "copy) are translated to the numbering of the vector through the coordinates (points are distinct)",
        "T: float64 inputs are converted exactly to integers on a common binary scale; orientation / in-circle signs "
        "are exact (math/big); relative margins are float64 measurements; a case with a point within 1e-9 (relative) "
        "of a circumcircle of either result, or with exactly cocircular / collinear-hull points, is not judged",
        "Go's sort.Sort uses insertion sort for at most 12 elements (model prediction of Equals: drift only)",
        "cocircular or duplicate points are outside the property (GeneralPosition) and are not generated",
    ]
    if replay:
        r = replay["replay"]
        if "batch" in r:
            bad = in_batch_only(chk, r["batch"])
            if bad:
                e, why = bad[0]
                chk.violation("in-batch-only|%s" % why.split(";")[0], describe(e, why), dict(batch=r["batch"], why=why))
            return
        obs, bad = replay_and_judge(chk, [r["vector"]])
        chk.traces += len(obs)
        for e, why in bad:
            chk.violation(key_of(e, why), describe(e, why), dict(vector=vec_of(e), why=why))
        return
    quick = chk.tier == "quick"
    seed = chk.seed % 60000
    rejected = {}

    # ---- R0: the real comparator on every ordered pair of canonical triples
    ks = [5, 6] if quick else [5, 6, 7]
    obs, bad = replay_and_judge(chk, [dict(less=k) for k in ks])
    chk.traces += len(obs)
    stale = len(getattr(chk, "last_drift", [])) > 0      # real relation differs from the transcription CodeLess
    less_bad = [(e, w) for e, w in bad]
    add_counts(rejected, report(chk, bad))
    chk.cov["comparator_pairs_observed"] = sum(len(o["tris"]) ** 2 for o in obs)
    chk.cov["comparator_transcription_matches_tree"] = not stale
    o6 = [o for o in obs if o["k"] == 6][0]
    chk.sample(dict(less_pairs_true_both_ways=sum(1 for i in range(40) for j in range(i + 1, 40)
                                                  if o6["rel"][i][j] and o6["rel"][j][i]), k=6))

    # ---- M + R: TriSetM (the comparator of the tree: as written, or lexicographic once repaired)
    cmp_ = "lex" if stale else "code"
    tplans = [(5, 3, 0), (6, 2, 0), (6, 4, 500)] if quick else [(6, 3, 0), (6, 4, 5000), (7, 4, 3000), (7, 6, 1500)]
    tvec, tflag, order_flag = [], [], []
    for k, maxt, sample in tplans:
        res = chk.tlc("TriSetM", cfg_text=TS_CFG % (k, maxt, cmp_, sample, seed), timeout=1500, extra=["-continue"],
                      name="TriSetM K=%d MaxT=%d %s%s" % (k, maxt, cmp_, (" sample %d" % sample) if sample else ""))
        mb = res.printed_json("MODELBAD")
        mo = res.printed_json("MODELORDER")
        if res.violated and not (mb or mo):
            raise vlib.Inconclusive("TriSetM failed without a flagged case: %s\n%s" % (res.violated, res.out[-2000:]))
        seen = set()
        for v in res.printed_json("VEC") + [dict(s=m["s"]) for m in mb]:
            kk = vkey(v)
            if kk not in seen:
                seen.add(kk)
                tvec.append(v)
        tflag += [vkey(dict(s=m["s"])) for m in mb]
        order_flag += mo
        chk.cov.setdefault("plans", []).append(dict(machine="TriSetM", K=k, MaxT=maxt, comparator=cmp_, sets=len(seen),
                                                    exhaustive=(sample == 0), model_flagged_sets=len(mb),
                                                    model_order_facts=(mo[0]["facts"] if mo else "strict total order")))
    if not tvec:
        raise vlib.Inconclusive("no vectors exported by TriSetM")
    obs, bad = replay_and_judge(chk, tvec)
    chk.traces += len(obs)
    tdrift = len(getattr(chk, "last_drift", []))
    add_counts(rejected, report(chk, bad))
    badkeys = set(vkey(vec_of(e)) for e, _ in bad)
    if tflag and not (set(tflag) & badkeys):
        raise vlib.Inconclusive("model/code divergence: TriSetM (%s) flags %d sets (e.g. %s) but the real Equals accepted "
                                "every permuted copy" % (cmp_, len(tflag), tflag[0]))
    if order_flag and not less_bad:
        raise vlib.Inconclusive("model/code divergence: TriSetM (%s) says the comparator is not a strict total order but "
                                "the real relation was accepted" % cmp_)
    chk.cov["triangle_sets_judged"] = len(obs)
    chk.cov["triangle_sets_model_flagged"] = len(set(tflag))
    chk.cov["triangle_sets_real_rejected"] = len(badkeys)
    chk.cov["equals_prediction_drift"] = tdrift
    for o in obs[:2000:900]:
        chk.sample(dict(set=o["a"], copies=len(o["copies"]), equals_results=o["res"]))

    # ---- M + R: DelaunayM
    if quick:
        dplans = [(5, 3, 0, 1), (5, 4, 2000, 1), (5, 5, 4000, 1), (6, 6, 1200, 1)]
    else:
        dplans = [(5, 3, 0, 3), (5, 4, 0, 3), (5, 5, 0, 3), (6, 6, 60000, 1)]
    dvec, dflag = [], []
    for g, n, sample, orders in dplans:
        res = chk.tlc("DelaunayM", cfg_text=DM_CFG % (g, n, sample, seed, orders), timeout=2400, extra=["-continue"],
                      name="DelaunayM %dx%d n=%d%s orders=%d" % (g, g, n, (" sample %d" % sample) if sample else "", orders))
        mb = res.printed_json("MODELBAD")
        if res.violated and not mb:
            raise vlib.Inconclusive("DelaunayM failed without a MODELBAD case: %s\n%s" % (res.violated, res.out[-2000:]))
        seen = set()
        for v in res.printed_json("VEC") + mb:
            kk = vkey(v)
            if kk not in seen:
                seen.add(kk)
                dvec.append(v)
        dflag += mb
        chk.cov["plans"].append(dict(machine="DelaunayM", grid=g, n=n, cases=len(seen), exhaustive=(sample == 0),
                                     input_orders=orders, model_flagged=len(mb)))
    if dflag:
        # DTOK states theorems about DT(P); a counter-example means the specification is wrong
        raise vlib.Inconclusive("Delaunay.tla: DTOK fails for %s (specification error, not a verdict)" % dflag[0])
    if not dvec:
        raise vlib.Inconclusive("no vectors exported by DelaunayM")
    obs, bad = replay_and_judge(chk, dvec)
    chk.traces += len(obs)
    ddrift = len(getattr(chk, "last_drift", []))
    add_counts(rejected, report(chk, bad))
    chk.cov["point_sets_judged"] = len(obs)
    chk.cov["point_sets_rejected"] = len(bad)
    chk.cov["point_set_drift(winding or Equals prediction)"] = ddrift
    chk.cov["point_sets_whose_real_triangulation_has_a_comparator_conflict"] = sum(
        1 for o in obs if any(not r for r in o["res"][:-1]) or not o["fseq"])
    for o in obs[:6000:2500]:
        chk.sample(dict(pts=o["pts"], fast=o["fast"], slow=o["slow"], equals_fast_slow=o["fseq"]))

    # ---- M: the incremental algorithm as the code runs it (exact arithmetic)
    run_bw(chk, quick, seed)

    # ---- T: random real point sets
    nr = 108 if quick else 648
    rbatch = [dict(rnd=i, seed=chk.seed) for i in range(1, nr + 1)]
    obs, bad = replay_and_judge(chk, rbatch, chunk_size=400)
    chk.traces += len(obs)
    add_counts(rejected, report(chk, bad, batch=rbatch))
    amb = sum(1 for o in obs if o["duppt"] or o["hcol"] or o["f"]["oncirc"] or o["s"]["oncirc"]
              or o["f"]["minmargin"] < 1000 or o["s"]["minmargin"] < 1000)
    fams = {}
    for o in obs:
        fams[o["fam"]] = fams.get(o["fam"], 0) + 1
    chk.cov["random_sets_judged"] = len(obs) - amb
    chk.cov["random_sets_skipped_as_ambiguous"] = amb
    chk.cov["random_sets_by_family"] = fams
    chk.cov["random_set_sizes"] = sorted(set(o["n"] for o in obs))
    chk.cov["random_sets_rejected"] = len(bad)
    chk.cov["random_sets_with_permuted_copy_rejected_by_real_Equals"] = sum(1 for o in obs if o.get("permfalse"))
    o = obs[min(len(obs) - 1, 40)]
    chk.sample(dict(random=dict(fam=o["fam"], param=o["param"], n=o["n"], h=o["h"], nt=o["f"]["nt"],
                                inside=o["f"]["inside"], fast_minus_slow=o["dfs"], permfalse=o["permfalse"])))
    chk.cov["rejected_observations_by_reason"] = rejected
    chk.cov["rule"] = ("TLC enumerates / LCG-samples grid point sets in general position and small triangle sets; each is run "
                       "through the real Delaunay2d, Delaunay2dSlow, TriangleIByIndex.Less and TriangleISet.Equals and judged by "
                       "DelTrace.tla (result = DT(P), fast = slow, 2n-2-h, Equals invariant under permutation/rotation, "
                       "comparator a strict total order); random real sets are judged from exact counts")


def run_bw(chk, quick, seed):
    import os
    if not os.path.exists(os.path.join(vlib.SPEC, "BowyerWatson.tla")):
        return
    plans = [(5, 5, 100)] if quick else [(5, 4, 300), (5, 5, 600), (6, 6, 700)]     # ~10 complete runs/s
    for g, n, sample in plans:
        res = chk.tlc("BowyerWatson", cfg_text=BW_CFG % (g, n, sample, seed), timeout=2400, extra=["-continue"],
                      name="BowyerWatson %dx%d n=%d sample %d" % (g, g, n, sample))
        mb = res.printed_json("MODELBAD")
        done = res.printed("BWDONE")
        chk.cov["plans"].append(dict(machine="BowyerWatson", grid=g, n=n, runs_completed=len(done), model_flagged=len(mb)))
        if res.violated and not mb:
            raise vlib.Inconclusive("BowyerWatson failed without a MODELBAD case: %s\n%s" % (res.violated, res.out[-2000:]))
        if mb:
            # rule 2: a model counter-example is replayed on the real code
            vecs = [dict(pts=m["pts"]) for m in mb[:50]]
            obs, bad = replay_and_judge(chk, vecs)
            chk.traces += len(obs)
            if not bad:
                raise vlib.Inconclusive("model/code divergence: BowyerWatson.tla ends with a result other than DT(P) for %s "
                                        "but the real Delaunay2d was accepted" % vecs[0])
            report(chk, bad)
        if not done:
            raise vlib.Inconclusive("BowyerWatson.tla: no run reached termination")
