"""C12 - rendering always returns and does not accumulate goroutines.

M  Pipeline.tla with a sink fault: Terminates (liveness under fairness, no state constraint) for every
   writer kind x fault position x volume; the kind "early" (a writer that returns from its goroutine on
   a write error while the channel is open) violates it, "drain", "atend" and a failing create do not.
   RenderTop.tla: goroutines alive after k renders bounded independently of k iff the evaluation pool is
   started once.
R  fault enumeration on the REAL ToSTL / To3MF / ToDXF / ToSVG, each case in a child process: output
   path that cannot be created (missing directory, parent is a file), RLIMIT_FSIZE at every flush
   boundary of the streamed file (+-1 byte, header, final flush), /dev/full; volumes below, at and
   above the buffer threshold; and the real renderers without a scripted producer (uniform layers of
   exactly 1-4 evaluation batches, octree, 2D) with and without faults.  A case is a hang only if the call did not return AND the goroutine
   dump shows the producer blocked in the buffer's channel send.
T  FaultTrace.tla judges every observation; goroutine counts after 1,2,4,8,16 renders of every entry
   point / renderer in one process are judged against a bound independent of k.
"""
import json
import vlib
from pipecommon import pipe_cfg, consts, validate_events

LEVEL = "model_checking"

RT_CFG = """SPECIFICATION Spec
CONSTANT W = %d
CONSTANT K = %d
CONSTANT PoolOnce = %s
INVARIANT BoundedGoroutines
CHECK_DEADLOCK FALSE
"""


def fault_vectors(tier, TT, TL):
    vs = []
    vols = [0, 1, TT - 1, TT, 2 * TT + 1, 5 * TT + 3]
    if tier == "thorough":
        vols += [TT + 1, 3 * TT, 20 * TT + 7]
    for items in vols:
        size = 84 + 50 * items
        for mode in ("none", "nodir", "underfile", "devfull"):
            vs.append(dict(sink="stl", mode=mode, limit=0, items=items, batch=100))
        limits = {0, 1, 83, 84, 85, size - 1, size, max(0, size - 50)}
        step = 4096
        ks = range(0, size // step + 2)
        if tier != "thorough" and len(ks) > 12:
            ks = list(ks)[:6] + list(ks)[-6:]
        for k in ks:
            for d in (-1, 0, 1):
                limits.add(max(0, k * step + d))
        for lim in sorted(limits):
            vs.append(dict(sink="stl", mode="fsize", limit=lim, items=items, batch=100))
    for sink, T in (("3mf", TT), ("dxf", TL), ("svg", TL)):
        for items in (0, 1, T, 3 * T + 1):
            for mode in ("none", "nodir", "underfile", "devfull"):
                vs.append(dict(sink=sink, mode=mode, limit=0, items=items, batch=37))
            for lim in (0, 1, 100, 1000, 4096, 20000):
                vs.append(dict(sink=sink, mode="fsize", limit=lim, items=items, batch=37))
    # paths whose creation fails with "no such file" although their directory exists: a dangling symbolic link, the
    # empty path (a writer that "creates the missing directory and retries" must give up)
    for sink, T in (("stl", TT), ("3mf", TT), ("dxf", TL), ("svg", TL)):
        for items in (0, 1, T + 1):
            for mode in ("dangling", "emptypath"):
                vs.append(dict(sink=sink, mode=mode, limit=0, items=items, batch=37))
    # real renderers (no scripted producer): the call must return whatever the lattice size -
    # layers of exactly 1, 2, 3, 4 evaluation batches, and just off them
    for d in ([3, 6, 6], [3, 8, 8], [3, 10, 10], [2, 8, 18], [2, 15, 15], [2, 13, 18], [2, 18, 18], [2, 8, 8], [2, 7, 8], [2, 8, 9]):
        vs.append(dict(sink="stl", mode="none", limit=0, items=0, batch=1, real="mcu:%d" % max(d), dims=d))
    vs.append(dict(sink="3mf", mode="none", limit=0, items=0, batch=1, real="mcu:8", dims=[3, 8, 8]))
    # a dense 16^3 lattice of balls through the octree renderer at cell counts just below powers of two
    for cells in (31, 63):
        vs.append(dict(sink="stl", mode="none", limit=0, items=0, batch=1, real="mcol:%d" % cells, dims=[16, 16, 16]))
    for real, sink in (("mco:20", "stl"), ("msu:30", "svg"), ("msq:40", "dxf")):
        for mode in ("none", "nodir", "devfull"):
            vs.append(dict(sink=sink, mode=mode, limit=0, items=0, batch=1, real=real, dims=[3, 4, 5]))
    for lim in (0, 84, 4096, 20000):
        vs.append(dict(sink="stl", mode="fsize", limit=lim, items=0, batch=1, real="mcu:10", dims=[10, 10, 10]))
        vs.append(dict(sink="stl", mode="fsize", limit=lim, items=0, batch=1, real="mco:24", dims=[10, 10, 10]))
    return vs


def key_of(o, why):
    v = o["vec"]
    if v.get("real"):
        return "%s:%s:%s:%s:%s" % (v["sink"], v["mode"], v["real"], "x".join(map(str, v["dims"])), why)
    return "%s:%s:%s" % (v["sink"], v["mode"], why)


def run(chk, replay_rec):
    chk.build()
    c = consts(chk)
    TT, TL = c["TBufferSize"], c["LBufferSize"]
    chk.assumptions += [
        "faults are injected with RLIMIT_FSIZE (SIGXFSZ ignored), /dev/full and uncreatable paths in a child process",
        "a hang is reported only when the call did not return AND the child's goroutine dump (SIGQUIT, or the Go runtime's "
        "own 'all goroutines are asleep' report) shows the producer blocked in the buffer's channel send",
        "goroutine counts are runtime.NumGoroutine() after the calls returned and the count settled",
    ]
    if replay_rec:
        v = replay_rec["replay"]["vector"]
        out = chk.vh(["c12-replay", "10"], stdin=json.dumps(v) + "\n", timeout=600)
        obs = [json.loads(x) for x in out.splitlines() if x.strip()]
        for e, why in chk.validate("FaultTrace", obs, chunks=1):
            chk.violation(key_of(e, why) + ":limit%d:items%d" % (v["limit"], v["items"]), "replayed fault case rejected: " + why, dict(vector=v))
        chk.traces += len(obs)
        return
    # ---- M: liveness of the pipeline under sink faults, per writer kind
    model = {}
    fails = [0, 1, 2, 3, 4, 5, 7] if chk.tier == "quick" else list(range(0, 10))
    for kind in ("early", "drain", "atend", "collector"):
        bad_at = []
        for fa in (fails if kind in ("early", "drain") else ([0, 1] if kind == "atend" else [0])):
            res = chk.tlc("Pipeline", cfg_text=pipe_cfg(np=1, mw=3, kind=kind, failat=fa), timeout=900,
                          name="Pipeline %s FailAt=%d" % (kind, fa))
            if res.violated:
                if res.violated != ["TEMPORAL"]:
                    raise vlib.Inconclusive("Pipeline %s FailAt=%d: %s" % (kind, fa, res.violated))
                bad_at.append(fa)
        model[kind] = bad_at
    res = chk.tlc("Pipeline", cfg_text=pipe_cfg(np=2, mw=2, kind="drain", failat=3), timeout=900, name="Pipeline drain np=2")
    chk.model_ok(res, "Pipeline drain np=2")
    res = chk.tlc("Pipeline", cfg_text=pipe_cfg(np=1, mw=2, cf=True), timeout=900, name="Pipeline create fails")
    chk.model_ok(res, "Pipeline create fails")
    if model["drain"] or model["atend"] or model["collector"]:
        raise vlib.Inconclusive("Pipeline.tla: Terminates fails for a draining / at-end writer: %s" % model)
    chk.cov["model_terminates_violated_for_kind_early_at"] = model["early"]
    pool = {}
    for once in ("TRUE", "FALSE"):
        res = chk.tlc("RenderTop", cfg_text=RT_CFG % (3, 4, once), timeout=300, workers=2, name="RenderTop PoolOnce=" + once)
        pool[once] = bool(res.violated)
    if pool["TRUE"] or not pool["FALSE"]:
        raise vlib.Inconclusive("RenderTop.tla unexpected: %s" % pool)
    # ---- R: fault enumeration on the real code
    vecs = fault_vectors(chk.tier, TT, TL)
    text = "\n".join(json.dumps(v) for v in vecs) + "\n"
    out = chk.vh(["c12-replay", "8"], stdin=text, timeout=3000)
    obs = [json.loads(x) for x in out.splitlines() if x.strip()]
    if len(obs) != len(vecs):
        raise vlib.Inconclusive("fault replay returned %d of %d" % (len(obs), len(vecs)))
    bad = chk.validate("FaultTrace", obs, chunks=1, timeout=900)
    chk.traces += len(obs)
    incon = list(getattr(chk, "last_drift", []))
    # a run that neither returned nor is blocked in a channel operation: slow, or spinning?  A scripted producer of a
    # few hundred items has nothing to compute: run it again alone with four times the watchdog; still not back =
    # the call does not return (a busy loop is no better than a blocked send).
    still = []
    for e in incon:
        v = e["vec"]
        if v.get("real"):
            still.append(e)
            continue
        o2 = [json.loads(x) for x in chk.vh(["c12-replay", "32"], stdin=json.dumps(v) + "\n", timeout=600).splitlines() if x.strip()]
        if len(o2) == 1 and not o2[0]["returned"]:
            chk.violation(key_of(e, "did-not-return-and-is-not-blocked") + ":limit%d:items%d" % (v["limit"], v["items"]),
                          "real %s call did not return within 32 s although the producer has only %d items to hand over and no "
                          "goroutine is blocked in a send (busy loop?): mode=%s; last events %s" % (
                              v["sink"], v["items"], v["mode"], o2[0]["events"][-4:]), dict(vector=v))
        else:
            still.append(e)
    incon = still
    for e, why in bad:
        v = e["vec"]
        chk.violation(key_of(e, why) + ":limit%d:items%d" % (v["limit"], v["items"]),
                      "real %s call did not return (%s %s): mode=%s limit=%d items=%d renderer=%s dims=%s; writer error after %d items; last events %s" % (
                          v["sink"], why, e.get("fault", ""), v["mode"], v["limit"], v["items"], v.get("real", "scripted"), v.get("dims"), e["failitem"], e["events"][-4:]), dict(vector=v))
    gor = []
    if not chk.violations:
        # ---- goroutine counts (in one process: only meaningful when every call returns)
        out = chk.vh(["c12-goroutines"], timeout=900)
        gor = [json.loads(x) for x in out.splitlines() if x.strip()]
        first = {}
        for g in gor:
            if g["k"] == 1:
                first[g["what"]] = g["live"]
        for g in gor:
            g["first"] = first.get(g["what"], g["live"])
        badg = chk.validate("FaultTrace", gor, chunks=1, timeout=900)
        chk.traces += len(gor)
        for e, why in badg:
            chk.violation("goroutines:%s:%s" % (e["what"], why),
                          ("render %d of the history %s did not return: a goroutine is blocked in the library" % (e["k"], e["what"]))
                          if e.get("hung") else
                          "goroutines alive after %d x %s: %d (after the first: %d, before: %d, NumCPU %d)" % (
                              e["k"], e["what"], e["live"], e["first"], e["base"], e["numcpu"]), dict(kind="goroutines", what=e["what"]))
    allobs = obs + gor
    # ---- T: event-level conformance of faulty STL runs with Pipeline.tla, writer kind "drain"
    # (binds the code's reaction to a write error to the kind for which TLC proved termination)
    fl = [dict(sink="stl", mode="fsize", limit=lim, items=items, batch=100, evlog=True)
          for items, lim in ((700, 8191), (3 * TT + 5, 4096), (2 * TT + 1, 84), (5 * TT + 3, 40000))] + \
         [dict(sink="stl", mode="devfull", limit=0, items=3 * TT, batch=100, evlog=True)]
    out = chk.vh(["c12-replay", "8"], stdin="\n".join(json.dumps(v) for v in fl) + "\n", timeout=900)
    fobs = [json.loads(x) for x in out.splitlines() if x.strip()]
    unexplained = 0
    for o in fobs:
        if not o["returned"] or not o.get("evlog") or o["failitem"] < 0:
            continue
        rej = validate_events(chk, [dict(sink="stl", name="fault %s" % o["vec"], events=o["evlog"])], 1, TT,
                              "PipelineTrace fault run limit=%d" % o["vec"]["limit"], kind="drain", failat=o["failitem"] + 1)
        chk.traces += 1
        if rej:
            unexplained += 1
            chk.notes.append("fault run %s: event %d not explained by Pipeline.tla with a draining writer" % (o["vec"], rej[0][1]))
    chk.cov["fault_event_traces_validated"] = len(fobs)
    if unexplained:
        raise vlib.Inconclusive("the writer's reaction to a sink fault is not the 'drain' behaviour of Pipeline.tla: " + chk.notes[-1])
    if incon:
        raise vlib.Inconclusive("%d fault runs neither returned nor showed a blocked send, e.g. %s" % (len(incon), incon[0]["vec"]))
    faulted = sum(1 for o in obs if o["errs"] > 0 or "top.createfail" in " ".join(o["events"]))
    for o in obs[:len(obs):max(1, len(obs) // 4)]:
        chk.sample(dict(vec=o["vec"], returned=o["returned"], writer_errors=o["errs"], fail_item=o["failitem"], filesize=o["filesize"]))
    if gor:
        chk.sample(dict(goroutines=[(g["what"], g["k"], g["live"]) for g in gor[:5]]))
    chk.cov.update(dict(fault_cases=len(obs), fault_cases_where_the_sink_failed=faulted,
                        evaluations=len(allobs), distinct_nontrivial=faulted,
                        goroutine_observations=len(gor), exhaustive=False,
                        rule="fault case = (sink, fault mode, byte limit at every flush boundary +-1 / header / final, volume around the "
                             "buffer threshold); non-trivial = the sink actually reported a failure or the create failed"))
