"""Common machinery for the /verif checks.

Every check is `bin/check <id> [--tier quick|thorough] [--replay file]`:
  1. build the Go harness against /repo's *current* working tree (-tags verif)
  2. extract tables/constants of that tree into generated TLA+ data modules
  3. M: TLC model-checks the specification (and prints vectors)
  4. R: the vectors are replayed into the real code by the harness -> observations
  5. T: observations (and recorded runs) are validated by a TLC trace spec
  6. evidence/<id>.json is rewritten

Exit codes: 0 = held on everything explored, 1 = VIOLATION (a real-code
observation was rejected and re-confirmed), 2 = inconclusive (machinery
problem: build failure, time-out, model/code divergence, dead driver).
"""
import json, os, re, shutil, subprocess, sys, tempfile, time, fcntl, hashlib

ROOT = os.path.dirname(os.path.dirname(os.path.abspath(__file__)))
REPO = os.environ.get("VERIF_REPO", "/repo")
SPEC = os.path.join(ROOT, "spec")
HARNESS = os.path.join(ROOT, "harness")
VH = os.path.join(ROOT, "bin", "vh.bin")
TLA_CP = "/opt/veriftools/tla/tla2tools.jar:/opt/veriftools/tla/CommunityModules-deps.jar"


class Inconclusive(Exception):
    pass


def goenv():
    e = dict(os.environ)
    e.update(GOFLAGS="-mod=mod", GOPROXY="off", GOSUMDB="off", GOTOOLCHAIN="local",
             CGO_ENABLED=e.get("CGO_ENABLED", "0"))
    return e


def log(*a):
    print("[verif]", *a, file=sys.stderr, flush=True)


def run(cmd, cwd=None, env=None, timeout=600, stdin=None, check=False):
    t0 = time.time()
    try:
        p = subprocess.run(cmd, cwd=cwd, env=env, timeout=timeout, input=stdin,
                           stdout=subprocess.PIPE, stderr=subprocess.PIPE)
    except subprocess.TimeoutExpired as ex:
        raise Inconclusive("time-out after %ss: %s" % (timeout, " ".join(map(str, cmd))[:200]))
    out = p.stdout.decode("utf-8", "replace")
    err = p.stderr.decode("utf-8", "replace")
    if check and p.returncode != 0:
        raise Inconclusive("command failed rc=%d: %s\n%s\n%s" % (
            p.returncode, " ".join(map(str, cmd))[:300], out[-3000:], err[-3000:]))
    return p.returncode, out, err, time.time() - t0


class TLCResult:
    def __init__(self, rc, out, wall):
        self.rc = rc
        self.out = out
        self.wall = wall
        self.generated = 0
        self.distinct = 0
        m = None
        for m in re.finditer(r"(\d+) states generated, (\d+) distinct states found", out):
            pass
        if m:
            self.generated, self.distinct = int(m.group(1)), int(m.group(2))
        m = re.search(r"The depth of the complete state graph search is (\d+)", out)
        self.depth = int(m.group(1)) if m else 0
        self.ok = "Model checking completed. No error has been found." in out or \
            ("Finished in" in out and "Error:" not in out and rc == 0)
        self.violated = re.findall(r"Error: Invariant (\w+) is violated", out)
        self.violated += re.findall(r"Error: Action property (\w+) is violated", out)
        if re.search(r"Temporal propert(y|ies) .*violated", out):
            self.violated.append("TEMPORAL")
        if "Error: Deadlock reached" in out:
            self.violated.append("DEADLOCK")
        if re.search(r"Error: The postcondition|Error: Evaluating.*POSTCONDITION|Error: Postcondition", out):
            self.violated.append("POSTCONDITION")
        self.error = None
        if not self.ok and not self.violated:
            m = re.search(r"Error: (.*)", out)
            self.error = m.group(1) if m else "unknown TLC failure rc=%d" % rc

    def printed(self, tag):
        """values printed with PrintT(<<"TAG", x>>); x is returned as raw text.  TLC pretty-prints
        tuples wider than 80 columns over several lines (`<< "TAG",\n   1,\n   "why" >>`): both
        layouts are read, wrapped ones are joined."""
        res = []
        pat = re.compile(r'^<<\s*"%s",\s*(.*?)\s*>>[ \t]*$' % re.escape(tag), re.M | re.S)
        for m in pat.finditer(self.out):
            raw = m.group(1)
            if "\n" in raw:
                raw = re.sub(r"\s*\n\s*", " ", raw)
            res.append(raw)
        return res

    def printed_json(self, tag):
        res = []
        for raw in self.printed(tag):
            if raw.startswith('"'):
                s = json.loads(raw)       # TLA+ string literal uses JSON-compatible escapes
                res.append(json.loads(s))
        return res

    def coverage_zero(self):
        """actions / expressions with zero count in -coverage output (top-level action lines)"""
        z = []
        for m in re.finditer(r"<(\w+) line (\d+), col \d+ to line \d+, col \d+ of module (\w+)>: (\d+):(\d+)", self.out):
            if int(m.group(5)) == 0 and m.group(1) not in ("Init",):
                z.append(m.group(1))
        return sorted(set(z))

    def action_counts(self):
        c = {}
        for m in re.finditer(r"<(\w+) line (\d+), col \d+ to line \d+, col \d+ of module (\w+)>: (\d+):(\d+)", self.out):
            c[m.group(1)] = c.get(m.group(1), 0) + int(m.group(5))
        return c


class Check:
    def __init__(self, pid, tier, seed, level="model_checking"):
        self.pid = pid
        self.tier = tier
        self.seed = seed
        self.level = level
        self.t0 = time.time()
        self.scratch = tempfile.mkdtemp(prefix="verif-%s-" % pid)
        self.states = 0
        self.transitions = 0
        self.traces = 0
        self.events = 0
        self.samples = []
        self.cov = {}
        self.assumptions = []
        self.violations = []      # list of dict(key=, desc=, replay=dict)
        self.known_hits = []
        self.notes = []
        self.tlc_runs = []
        self._built = False

    # ---------------------------------------------------------------- build
    def harness_dir(self):
        """the harness module; when VERIF_REPO names another tree (a scratch worktree with a seeded
        change) a private copy of the module whose `replace` points there"""
        if REPO == "/repo":
            return HARNESS
        d = os.path.join(self.scratch, "harness")
        if not os.path.isdir(d):
            shutil.copytree(HARNESS, d)
            gm = open(os.path.join(d, "go.mod")).read().replace("=> /repo", "=> " + REPO)
            open(os.path.join(d, "go.mod"), "w").write(gm)
        return d

    def build(self):
        if self._built:
            return
        os.makedirs(os.path.join(ROOT, "bin"), exist_ok=True)
        gosum_src = os.path.join(REPO, "go.sum")
        hd = self.harness_dir()
        self.vhbin = os.path.join(self.scratch, "vh.bin")
        with open(os.path.join(ROOT, "bin", ".build.lock"), "w") as lk:
            if hd == HARNESS:
                fcntl.flock(lk, fcntl.LOCK_EX)
            shutil.copyfile(gosum_src, os.path.join(hd, "go.sum"))
            # private binary so that a concurrent rebuild cannot swap it under us
            e = goenv()
            flags = []
            if os.environ.get("VERIF_RACE_HARNESS") == "1":  # audit aid: the whole harness under the Go race detector
                flags, e["CGO_ENABLED"] = ["-race"], "1"
            rc, out, err, w = run(["go", "build"] + flags + ["-tags", "verif", "-o", self.vhbin, "./cmd/vh"],
                                  cwd=hd, env=e, timeout=900)
            if rc != 0:
                raise Inconclusive("harness does not build against %s:\n%s%s" % (REPO, out[-3000:], err[-3000:]))
        self._built = True
        log("harness built in %.1fs against %s" % (w, REPO))

    def build_race(self):
        p = os.path.join(self.scratch, "vh-race.bin")
        if os.path.exists(p):
            return p
        e = goenv()
        e["CGO_ENABLED"] = "1"
        rc, out, err, w = run(["go", "build", "-race", "-tags", "verif", "-o", p, "./cmd/vh"],
                              cwd=self.harness_dir(), env=e, timeout=900)
        if rc != 0:
            raise Inconclusive("race build failed:\n%s%s" % (out[-2000:], err[-2000:]))
        return p

    def vh(self, args, stdin=None, timeout=600, binary=None, env=None, ok_rc=(0,)):
        self.build()
        e = goenv()
        e["VERIF_SEED"] = str(self.seed)
        e["VERIF_TIER"] = self.tier
        if env:
            e.update(env)
        if isinstance(stdin, str):
            stdin = stdin.encode()
        rc, out, err, w = run([binary or self.vhbin] + list(args), cwd=self.scratch, env=e,
                              timeout=timeout, stdin=stdin)
        if rc not in ok_rc:
            raise Inconclusive("harness %s failed rc=%d:\n%s\n%s" % (args, rc, out[-2000:], err[-3000:]))
        return out

    def gen(self):
        """generated data modules from the current tree -> scratch/gen"""
        d = os.path.join(self.scratch, "gen")
        if not os.path.isdir(d):
            os.makedirs(d)
            self.vh(["extract", d])
        return d

    # ------------------------------------------------------------------ TLC
    def tlc(self, module, cfg=None, cfg_text=None, workers=None, timeout=900, extra=None,
            files=None, simulate=None, coverage=False, heap=None, depth=None, deadlock=None,
            count=True, name=None):
        """Run TLC on spec/<module>.tla in a fresh directory.
        files: {filename: text or path} placed beside the spec (trace files, data modules)."""
        wd = tempfile.mkdtemp(prefix="tlc-", dir=self.scratch)
        for f in os.listdir(SPEC):
            p = os.path.join(SPEC, f)
            if os.path.isfile(p) and (f.endswith(".tla") or f.endswith(".cfg")):
                shutil.copy(p, wd)
        tr = os.path.join(SPEC, "trace")
        if os.path.isdir(tr):
            for f in os.listdir(tr):
                shutil.copy(os.path.join(tr, f), wd)
        g = os.path.join(self.scratch, "gen")
        if os.path.isdir(g):
            for f in os.listdir(g):
                shutil.copy(os.path.join(g, f), wd)
        for fn, content in (files or {}).items():
            dst = os.path.join(wd, fn)
            if isinstance(content, str) and os.path.isabs(content) and os.path.exists(content):
                shutil.copy(content, dst)
            else:
                with open(dst, "w") as fh:
                    fh.write(content)
        if cfg_text is not None:
            cfg = "_gen_%s.cfg" % module
            with open(os.path.join(wd, cfg), "w") as fh:
                fh.write(cfg_text)
        if cfg is None:
            cfg = module + ".cfg"
        w = str(workers if workers else int(os.environ.get("VERIF_TLC_WORKERS", min(16, os.cpu_count() or 4))))
        # TLC and SANY create tlc-<n> / SANY<n> directories in java.io.tmpdir and leave them behind: keep them in the
        # run's own scratch directory, which is removed at the end
        cmd = ["java", "-XX:+UseG1GC", "-Xss256m", "-Xmx%s" % (heap or "8g"), "-Djava.io.tmpdir=" + wd]
        cmd += ["-cp", TLA_CP, "tlc2.TLC", "-workers", w, "-metadir", os.path.join(wd, "meta"),
                "-config", cfg, "-noGenerateSpecTE"]
        if deadlock is False:
            cmd.append("-deadlock")  # -deadlock DISABLES deadlock checking
        if coverage:
            cmd += ["-coverage", "1"]
        if simulate:
            cmd += ["-simulate", simulate, "-seed", str(self.seed)]
            if depth:
                cmd += ["-depth", str(depth)]
        if extra:
            cmd += extra
        cmd.append(module + ".tla")
        rc, out, err, wall = run(cmd, cwd=wd, timeout=timeout)
        res = TLCResult(rc, out + err, wall)
        res.wd = wd
        if count:
            self.states += res.distinct
            self.transitions += res.generated
        self.tlc_runs.append(dict(name=name or (module + ":" + cfg), generated=res.generated,
                                  distinct=res.distinct, wall_s=round(wall, 2), rc=rc))
        log("TLC %s/%s: %d generated, %d distinct, rc=%d, %.1fs %s" % (
            module, cfg, res.generated, res.distinct, rc, wall,
            ("violated=" + ",".join(res.violated)) if res.violated else ""))
        if res.error:
            raise Inconclusive("TLC %s/%s failed: %s\n%s" % (module, cfg, res.error, res.out[-4000:]))
        return res

    def apalache(self, module, args, timeout=600, name=None):
        """Run apalache-mc check on spec/<module>.tla in a fresh directory -> "ok" | "error" | "unavailable".
        A symbolic (unbounded-parameter) obligation: never a verdict about the code by itself."""
        exe = shutil.which("apalache-mc")
        if not exe:
            self.notes.append("apalache-mc not on PATH: %s skipped" % (name or module))
            return "unavailable"
        wd = tempfile.mkdtemp(prefix="apa-", dir=self.scratch)
        for f in os.listdir(SPEC):
            if f.endswith(".tla"):
                shutil.copy(os.path.join(SPEC, f), wd)
        env = dict(os.environ)
        env.setdefault("JVM_ARGS", "-Xmx4g")
        rc, out, err, wall = run(["timeout", "-k", "5", str(timeout), exe, "check", "--out-dir=" + os.path.join(wd, "out"),
                                  "--run-dir=" + os.path.join(wd, "run")] + args + [module + ".tla"],
                                 cwd=wd, timeout=timeout + 60, env=env)
        txt = out + err
        if "EXITCODE: OK" in txt:
            st = "ok"
        elif rc == 124 or "EXITCODE" not in txt:
            st = "unavailable"
            self.notes.append("apalache %s did not finish (rc=%d, %.0fs): skipped" % (name or module, rc, wall))
        else:
            st = "error"
        self.tlc_runs.append(dict(name="apalache " + (name or module), generated=0, distinct=0, wall_s=round(wall, 2), rc=rc))
        log("APALACHE %s %s: %s rc=%d %.1fs" % (module, " ".join(args), st, rc, wall))
        self.last_apalache = txt
        return st

    def model_ok(self, res, what):
        """A model-level run that is expected to pass on the current specification. A failure is a
        model/code divergence (exit 2) unless concretised and reproduced by the caller."""
        if res.violated:
            raise Inconclusive("model check %s: %s violated (model-level counter-example, not a verdict)\n%s"
                               % (what, res.violated, res.out[-3000:]))

    def validate(self, module, events, cfg=None, timeout=900, name=None, files=None, heap="3g",
                 chunks=None, chunk_size=1500):
        """Trace validation: events (list of dicts) -> trace.ndjson -> TLC on the trace spec
        (-workers 1, deadlock checking off).  The trace spec prints <<"BAD", line, "why">> for each
        rejected line, <<"DRIFT", line>> for accepted lines that differ from the code-shaped model,
        and <<"CONSUMED", n>> when every line was consumed.  Independent traces may be validated
        in parallel chunks (one TLC process each).  Returns [(event, why)], and sets self.last_drift."""
        if not events:
            raise Inconclusive("no events to validate for %s (dead driver)" % module)
        if chunks is None:
            chunks = max(1, min(12, (len(events) + chunk_size - 1) // chunk_size))
        n = len(events)
        bounds = [(i * n // chunks, (i + 1) * n // chunks) for i in range(chunks)]
        from concurrent.futures import ThreadPoolExecutor

        def one(b):
            lo, hi = b
            text = "\n".join(json.dumps(e, separators=(",", ":")) for e in events[lo:hi]) + "\n"
            fs = {"trace.ndjson": text}
            if files:
                fs.update(files)
            res = self.tlc(module, cfg=cfg, workers=1, timeout=timeout, files=fs, deadlock=False,
                           count=False, name=name or (module + ":trace"), heap=heap)
            if res.violated:
                raise Inconclusive("trace spec %s aborted: %s\n%s" % (module, res.violated, res.out[-3000:]))
            cons = res.printed("CONSUMED")
            if not cons or int(cons[-1]) != hi - lo:
                raise Inconclusive("trace spec %s consumed %s of %d lines\n%s" % (
                    module, cons[-1] if cons else "?", hi - lo, res.out[-3000:]))
            bad = []
            for raw in res.printed("BAD"):
                m = re.match(r'(\d+), "(.*)"$', raw)
                if not m:
                    raise Inconclusive("unparsable BAD line: " + raw)
                bad.append((lo + int(m.group(1)) - 1, m.group(2)))
            drift = [lo + int(x) - 1 for x in res.printed("DRIFT")]
            return bad, drift

        with ThreadPoolExecutor(max_workers=min(chunks, 12)) as ex:
            results = list(ex.map(one, bounds))
        bad, drift = [], []
        for b, d in results:
            bad += b
            drift += d
        self.events += n
        self.last_drift = [events[i] for i in sorted(set(drift))]
        seen = set()
        out = []
        for i, why in sorted(bad):
            if i in seen:
                continue
            seen.add(i)
            out.append((events[i], why))
        return out

    # ------------------------------------------------------------ verdicts
    def known(self):
        p = os.path.join(ROOT, "known_findings.json")
        if not os.path.exists(p):
            return []
        return [k for k in json.load(open(p)).get("findings", [])
                if k.get("property") == self.pid and k.get("status") == "known"]

    def violation(self, key, desc, replay):
        """Record a rejected real-code observation. key identifies the failing input/call site."""
        for k in self.known():
            if re.fullmatch(k["key"], key):
                if os.environ.get("VERIF_DUMP_KNOWN"):  # development aid: every key matched by a known finding
                    with open(os.environ["VERIF_DUMP_KNOWN"], "a") as fh:
                        fh.write("%s\t%s\t%s\n" % (self.pid, key, desc[:300].replace("\n", " ")))
                if k["key"] not in [h["key"] for h in self.known_hits]:
                    self.known_hits.append(dict(key=k["key"], what=k["what"], example=key))
                return
        self.violations.append(dict(key=key, desc=desc, replay=replay))

    def sample(self, x, limit=6):
        if len(self.samples) < limit:
            self.samples.append(x)

    def finish(self, extra_cov=None, explanation=None):
        wall = time.time() - self.t0
        cov = dict(states=self.states, transitions=self.transitions,
                   traces_validated_against_impl=self.traces, samples=self.samples[:8],
                   events_validated=self.events, tlc_runs=self.tlc_runs)
        cov.update(self.cov)
        if extra_cov:
            cov.update(extra_cov)
        if explanation:
            cov["explanation"] = explanation
        if self.notes:
            cov["notes"] = self.notes
        if self.known_hits:
            cov["known_findings_hit"] = self.known_hits
        ev = dict(property_id=self.pid, tier=self.tier, seed=self.seed, level=self.level,
                  coverage=cov, assumptions=self.assumptions, wall_s=round(wall, 2),
                  violations=len(self.violations))
        # supplementary specifications (ids X..: behaviour outside the listed properties) keep their evidence apart
        evdir = os.path.join(ROOT, "evidence", "ext") if self.pid.startswith("X") else os.path.join(ROOT, "evidence")
        os.makedirs(evdir, exist_ok=True)
        if not getattr(self, "replay_mode", False):
            with open(os.path.join(evdir, self.pid + ".json"), "w") as fh:
                json.dump(ev, fh, indent=1, sort_keys=True)
                fh.write("\n")
        for h in self.known_hits:
            print("KNOWN-FINDING: property=%s %s [%s]" % (self.pid, h["what"], h["key"]))
        rc = 0
        if self.violations:
            d = os.path.join(ROOT, "out", "replays")
            os.makedirs(d, exist_ok=True)
            seen = set()
            for v in self.violations:
                if v["key"] in seen:
                    continue
                seen.add(v["key"])
                hname = hashlib.sha1(v["key"].encode()).hexdigest()[:10]
                path = os.path.join(d, "%s-%s.json" % (self.pid, hname))
                with open(path, "w") as fh:
                    json.dump(dict(property=self.pid, key=v["key"], desc=v["desc"], replay=v["replay"],
                                   tier=self.tier, seed=self.seed), fh, indent=1)
                print("VIOLATION property=%s replay=%s" % (self.pid, path))
                print("  " + v["desc"][:400])
                if len(seen) >= 10:
                    break
            rc = 1
        else:
            print("OK property=%s tier=%s seed=%d states=%d transitions=%d traces=%d events=%d wall=%.1fs" % (
                self.pid, self.tier, self.seed, self.states, self.transitions, self.traces, self.events, wall))
        self.cleanup()
        return rc

    def cleanup(self):
        if os.environ.get("VERIF_KEEP"):
            log("scratch kept:", self.scratch)
            return
        shutil.rmtree(self.scratch, ignore_errors=True)
