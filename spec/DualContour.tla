---------------------------- MODULE DualContour ----------------------------
(* Dual contouring on a uniform grid as render/dc/dc3v2.go does it            *)
(* (placeVertices, computeCornersInside, generateTriangles), and the octree   *)
(* variant of render/dc/dc3v1.go (contourCellProc / FaceProc / EdgeProc /     *)
(* ProcessEdge) over the mask tables of the tree under test (DCData,          *)
(* generated), leaves only: no simplification.                                *)
(*                                                                            *)
(* A *world* w = [dx, dy, dz, base, code] is a block of dx x dy x dz free      *)
(* lattice corners (coordinates 1..d) inside a ring of positive corners       *)
(* (0 and d+1): the surface is strictly inside the sampled volume, which is   *)
(* the premise of the property; cells are 0..d per axis.  Corner classes as   *)
(* in MC3 (0 = N v<0, 2 = z v=0, 3 = P v>0): both renderers test `v < 0`, so  *)
(* an exact zero is outside.  Vertices are symbolic: the cell <<cx,cy,cz>>    *)
(* that owns the vertex (its position inside the cell - the QEF solve - is    *)
(* not modelled), so closedness and orientation are combinatorial.            *)
EXTENDS Integers, Sequences, FiniteSets, TLC, DCData

RECURSIVE Pow(_, _)
Pow(b, e) == IF e = 0 THEN 1 ELSE b * Pow(b, e - 1)

NDigits(w) == w.dx * w.dy * w.dz
ClassOf(base, d) == IF base = 2 THEN (IF d = 1 THEN 0 ELSE 3)
                    ELSE IF base = 3 THEN <<0, 2, 3>>[d + 1] ELSE d
Digit(w, i) == (w.code \div Pow(w.base, i)) % w.base
Cls(w, x, y, z) ==
  IF x \in 1..w.dx /\ y \in 1..w.dy /\ z \in 1..w.dz
  THEN ClassOf(w.base, Digit(w, (x - 1) + w.dx * ((y - 1) + w.dy * (z - 1))))
  ELSE 3
\* the world carries the set of its solid corners (isSolid := Evaluate(corner) < 0: classes N, n),
\* evaluated once (TLCEval) because every operator below asks for corner signs many times
World(dx, dy, dz, base, code) ==
  LET w0 == [dx |-> dx, dy |-> dy, dz |-> dz, base |-> base, code |-> code]
  IN [dx |-> dx, dy |-> dy, dz |-> dz, base |-> base, code |-> code,
      sol |-> TLCEval({p \in (1..dx) \X (1..dy) \X (1..dz) : Cls(w0, p[1], p[2], p[3]) <= 1})]
Solid(w, x, y, z) == <<x, y, z>> \in w.sol
SolidCorners(w) == w.sol
HasN(w) == w.sol # {}

Add3(p, q) == <<p[1] + q[1], p[2] + q[2], p[3] + q[3]>>

\* ---- V2: dc3v2.go ----
\* dcCorners[i] (extracted; in the code {i>>2 & 1, i>>1 & 1, i & 1})
Corner(i) == dcCornersV2[i + 1]
\* computeCornersInside: bit i of `inside`
InsideBit(w, c, i) == LET p == Add3(c, Corner(i)) IN IF Solid(w, p[1], p[2], p[3]) THEN 1 ELSE 0
Mixed(w, c) == \E i \in 1..7 : InsideBit(w, c, i) # InsideBit(w, c, 0)
InGrid(w, c) == c[1] \in 0..w.dx /\ c[2] \in 0..w.dy /\ c[3] \in 0..w.dz
\* placeVertices: a vertex for every cell of the grid with mixed corner signs (infoI lookup)
HasVertex(w, c) == InGrid(w, c) /\ Mixed(w, c)

FarEdge == dcFarEdgesV2                                             \* dcFarEdges (extracted)
\* generateTriangles: the offsets of k1, k2, k3 for ai = 0, 1, 2
KOff == << << <<0, 0, 1>>, <<0, 1, 0>>, <<0, 1, 1>> >>,
           << <<0, 0, 1>>, <<1, 0, 0>>, <<1, 0, 1>> >>,
           << <<0, 1, 0>>, <<1, 0, 0>>, <<1, 1, 0>> >> >>
Crossing(w, c, ai) == InsideBit(w, c, FarEdge[ai + 1][1]) # InsideBit(w, c, FarEdge[ai + 1][2])
KCells(c, ai) == [j \in 1..3 |-> Add3(c, KOff[ai + 1][j])]
KMissing(w, c, ai) == \E j \in 1..3 : ~HasVertex(w, KCells(c, ai)[j])
\* the two triangles of the quad of cell c, axis ai ("Get the normals right": xor flip)
QuadTris(w, c, ai) ==
  IF ~Crossing(w, c, ai) \/ KMissing(w, c, ai) THEN <<>>
  ELSE LET k == KCells(c, ai)
           flip == InsideBit(w, c, FarEdge[ai + 1][1]) # (ai % 2)
       IN IF flip THEN << <<c, k[3], k[1]>>, <<c, k[2], k[3]>> >>
                  ELSE << <<c, k[1], k[3]>>, <<c, k[3], k[2]>> >>
\* "no vertex found for completing face, there will be holes"
Holes(w) == {ca \in ((0..w.dx) \X (0..w.dy) \X (0..w.dz)) \X (0..2) :
               HasVertex(w, ca[1]) /\ Crossing(w, ca[1], ca[2]) /\ KMissing(w, ca[1], ca[2])}

\* cells in the order placeVertices visits them (x outer, z inner)
CellSeq(w) == [k \in 1..((w.dx + 1) * (w.dy + 1) * (w.dz + 1)) |->
                LET j == k - 1
                IN <<j \div ((w.dy + 1) * (w.dz + 1)), (j \div (w.dz + 1)) % (w.dy + 1), j % (w.dz + 1)>>]

RECURSIVE Flatten(_)
Flatten(ss) == IF ss = <<>> THEN <<>> ELSE Head(ss) \o Flatten(Tail(ss))

CellTris(w, c) == IF HasVertex(w, c)
                  THEN QuadTris(w, c, 0) \o QuadTris(w, c, 1) \o QuadTris(w, c, 2)
                  ELSE <<>>
WorldTrisV2(w) == LET cs == CellSeq(w) IN Flatten([k \in 1..Len(cs) |-> CellTris(w, cs[k])])

\* ---- V1: dc3v1.go, every leaf at the same depth (no simplification) ----
\* A node is <<minOffset, size>>; the octree is a cube of side S = 2^k >= d+1 leaves at the origin.
\* A leaf without a sign change is nil; internal nodes always exist (Populate creates all 8 children).
Nil == <<>>
IsNil(n) == n = Nil
IsLeafN(n) == n[2] = 1
Child(n, i) ==
  LET h == n[2] \div 2
      m == <<n[1][1] + h * dcChildMinOffsets[i + 1][1], n[1][2] + h * dcChildMinOffsets[i + 1][2],
             n[1][3] + h * dcChildMinOffsets[i + 1][3]>>
  IN <<m, h>>
\* a leaf's drawInfo.corners bit i: corner minOffset + dcChildMinOffsets[i]
LeafBit(w, n, i) == LET p == Add3(n[1], dcChildMinOffsets[i + 1]) IN IF Solid(w, p[1], p[2], p[3]) THEN 1 ELSE 0
LeafMixed(w, n) == \E i \in 1..7 : LeafBit(w, n, i) # LeafBit(w, n, 0)
\* children[i] as the recursion sees it: nil for a leaf without surface
Kid(w, n, i) == LET c == Child(n, i) IN IF IsLeafN(c) /\ ~LeafMixed(w, c) THEN Nil ELSE c

\* dcContourProcessEdge: all four nodes are leaves of the same size, so minIndex = 0
ProcessEdge(w, ns, dir) ==
  LET edge == dcProcessEdgeMask[dir + 1][1]
      c1 == dcEdgevmap[edge + 1][1]
      c2 == dcEdgevmap[edge + 1][2]
      m1 == LeafBit(w, ns[1], c1)
      m2 == LeafBit(w, ns[1], c2)
      v(j) == ns[j][1]
  IN IF m1 = m2 THEN <<>>
     ELSE IF m1 = 0 THEN << <<v(1), v(2), v(4)>>, <<v(1), v(4), v(3)>> >>
                    ELSE << <<v(1), v(4), v(2)>>, <<v(1), v(3), v(4)>> >>

RECURSIVE EdgeProc(_, _, _)
EdgeProc(w, ns, dir) ==
  IF \E j \in 1..4 : IsNil(ns[j]) THEN <<>>
  ELSE IF \A j \in 1..4 : IsLeafN(ns[j]) THEN ProcessEdge(w, ns, dir)
  ELSE Flatten([i \in 1..2 |->
         EdgeProc(w, [j \in 1..4 |-> IF IsLeafN(ns[j]) THEN ns[j]
                                      ELSE Kid(w, ns[j], dcEdgeProcEdgeMask[dir + 1][i][j])],
                  dcEdgeProcEdgeMask[dir + 1][i][5])])

Orders == << <<0, 0, 1, 1>>, <<0, 1, 0, 1>> >>
RECURSIVE FaceProc(_, _, _)
FaceProc(w, ns, dir) ==
  IF IsNil(ns[1]) \/ IsNil(ns[2]) THEN <<>>
  ELSE IF IsLeafN(ns[1]) /\ IsLeafN(ns[2]) THEN <<>>
  ELSE Flatten([i \in 1..4 |->
         FaceProc(w, [j \in 1..2 |-> IF IsLeafN(ns[j]) THEN ns[j]
                                      ELSE Kid(w, ns[j], dcFaceProcFaceMask[dir + 1][i][j])],
                  dcFaceProcFaceMask[dir + 1][i][3])])
    \o Flatten([i \in 1..4 |->
         LET row == dcFaceProcEdgeMask[dir + 1][i]
             order == Orders[row[1] + 1]
         IN EdgeProc(w, [j \in 1..4 |-> LET nd == ns[order[j] + 1]
                                         IN IF IsLeafN(nd) THEN nd ELSE Kid(w, nd, row[j + 1])],
                     row[6])])

RECURSIVE CellProc(_, _)
CellProc(w, n) ==
  IF IsNil(n) \/ IsLeafN(n) THEN <<>>
  ELSE Flatten([i \in 1..8 |-> CellProc(w, Kid(w, n, i - 1))])
    \o Flatten([i \in 1..12 |->
         FaceProc(w, <<Kid(w, n, dcCellProcFaceMask[i][1]), Kid(w, n, dcCellProcFaceMask[i][2])>>,
                  dcCellProcFaceMask[i][3])])
    \o Flatten([i \in 1..6 |->
         EdgeProc(w, [j \in 1..4 |-> Kid(w, n, dcCellProcEdgeMask[i][j])], dcCellProcEdgeMask[i][5])])

RECURSIVE P2(_)
P2(v) == IF v <= 1 THEN 1 ELSE 2 * P2((v + 1) \div 2)       \* nextPowerOfTwo
Max3(a, b, c) == IF a >= b /\ a >= c THEN a ELSE IF b >= c THEN b ELSE c
RootSize(w) == Max3(P2(w.dx + 1), P2(w.dy + 1), P2(w.dz + 1))
WorldTrisV1(w) == CellProc(w, <<<<0, 0, 0>>, RootSize(w)>>)

WorldTris(w, r) == IF r = "dc1" THEN WorldTrisV1(w) ELSE WorldTrisV2(w)

\* ---- properties of a triangle sequence (vertices: any values with equality) ----
EdgesOf(ts) == Flatten([i \in 1..Len(ts) |->
                 << <<ts[i][1], ts[i][2]>>, <<ts[i][2], ts[i][3]>>, <<ts[i][3], ts[i][1]>> >>])
Count(E, e) == Cardinality({i \in 1..Len(E) : E[i] = e})
\* every directed edge occurs as often as its reverse (when no directed edge repeats - the manifold
\* case - this is "the reverse of every edge is an edge"; the general case counts)
Balanced(ts) == LET E == EdgesOf(ts)
                    S == {E[i] : i \in 1..Len(E)}
                IN IF Cardinality(S) = Len(E)
                   THEN \A e \in S : <<e[2], e[1]>> \in S
                   ELSE \A e \in S : Count(E, e) = Count(E, <<e[2], e[1]>>)
NoDegenerate(ts) == \A i \in 1..Len(ts) :
                      ts[i][1] # ts[i][2] /\ ts[i][2] # ts[i][3] /\ ts[i][3] # ts[i][1]
Det3(a, b, c) == a[1] * (b[2] * c[3] - b[3] * c[2])
               - a[2] * (b[1] * c[3] - b[3] * c[1])
               + a[3] * (b[1] * c[2] - b[2] * c[1])
RECURSIVE SumDet(_, _)
SumDet(ts, i) == IF i > Len(ts) THEN 0 ELSE Det3(ts[i][1], ts[i][2], ts[i][3]) + SumDet(ts, i + 1)
\* 6 * volume in doubled coordinates, every vertex at the centre of its cell
Centre(c) == <<2 * c[1] + 1, 2 * c[2] + 1, 2 * c[3] + 1>>
Vol48(ts) == SumDet([i \in 1..Len(ts) |-> <<Centre(ts[i][1]), Centre(ts[i][2]), Centre(ts[i][3])>>], 1)

\* lattice edges with a sign change: each must carry exactly one quad
CrossEdges(w) ==
  {pa \in ((0..w.dx) \X (0..(w.dy + 1)) \X (0..(w.dz + 1))) \X {1} :
      Solid(w, pa[1][1], pa[1][2], pa[1][3]) # Solid(w, pa[1][1] + 1, pa[1][2], pa[1][3])} \cup
  {pa \in ((0..(w.dx + 1)) \X (0..w.dy) \X (0..(w.dz + 1))) \X {2} :
      Solid(w, pa[1][1], pa[1][2], pa[1][3]) # Solid(w, pa[1][1], pa[1][2] + 1, pa[1][3])} \cup
  {pa \in ((0..(w.dx + 1)) \X (0..(w.dy + 1)) \X (0..w.dz)) \X {3} :
      Solid(w, pa[1][1], pa[1][2], pa[1][3]) # Solid(w, pa[1][1], pa[1][2], pa[1][3] + 1)}

\* ---- real mesh against the model (drift only) ----
\* vb[id] = <<lox, loy, loz, hix, hiy, hiz>>: the closed unit cells that contain real vertex id
InBox(c, b) == b[1] <= c[1] /\ c[1] <= b[4] /\ b[2] <= c[2] /\ c[2] <= b[5] /\ b[3] <= c[3] /\ c[3] <= b[6]
MatchTri(rt, mt, vb) == \E r \in 0..2 : \A j \in 1..3 : InBox(mt[((j - 1 + r) % 3) + 1], vb[rt[j]])
\* same triangles in the same order (both transcriptions follow the code's emission order), or at
\* least the same triangles in any order
SameAsModel(T, vb, M) ==
  /\ Len(T) = Len(M)
  /\ \/ \A i \in 1..Len(T) : MatchTri(T[i], M[i], vb)
     \/ /\ \A i \in 1..Len(T) : \E k \in 1..Len(M) : MatchTri(T[i], M[k], vb)
        /\ \A k \in 1..Len(M) : \E i \in 1..Len(T) : MatchTri(T[i], M[k], vb)

\* ---- static checks of the V1 tables (shape and meaning) ----
TablesShape ==
  /\ Len(dcChildMinOffsets) = 8 /\ Len(dcEdgevmap) = 12 /\ Len(dcCellProcFaceMask) = 12
  /\ Len(dcCellProcEdgeMask) = 6 /\ Len(dcFaceProcFaceMask) = 3 /\ Len(dcFaceProcEdgeMask) = 3
  /\ Len(dcEdgeProcEdgeMask) = 3 /\ Len(dcProcessEdgeMask) = 3
  /\ Len(dcCornersV2) = 8 /\ Len(dcFarEdgesV2) = 3
  /\ \A i \in 0..7 : dcChildMinOffsets[i + 1] = <<(i \div 4) % 2, (i \div 2) % 2, i % 2>>
  /\ \A i \in 0..7 : dcCornersV2[i + 1] = <<(i \div 4) % 2, (i \div 2) % 2, i % 2>>
\* an edge of dcEdgevmap joins two corners that differ in exactly its axis (edges 0-3 x, 4-7 y, 8-11 z)
EdgevmapOK == \A e \in 0..11 :
  LET a == dcChildMinOffsets[dcEdgevmap[e + 1][1] + 1]
      b == dcChildMinOffsets[dcEdgevmap[e + 1][2] + 1]
      ax == (e \div 4) + 1
  IN \A k \in 1..3 : IF k = ax THEN a[k] = 0 /\ b[k] = 1 ELSE a[k] = b[k]
\* dcCellProcFaceMask: the two children are face neighbours along the stated direction
CellFaceOK == \A i \in 1..12 :
  LET a == dcChildMinOffsets[dcCellProcFaceMask[i][1] + 1]
      b == dcChildMinOffsets[dcCellProcFaceMask[i][2] + 1]
      d == dcCellProcFaceMask[i][3] + 1
  IN \A k \in 1..3 : IF k = d THEN a[k] = 0 /\ b[k] = 1 ELSE a[k] = b[k]
\* dcCellProcEdgeMask: the four children share the interior edge along the stated direction
CellEdgeOK == \A i \in 1..6 :
  LET d == dcCellProcEdgeMask[i][5] + 1
      cs == {dcChildMinOffsets[dcCellProcEdgeMask[i][j] + 1] : j \in 1..4}
  IN /\ Cardinality(cs) = 4
     /\ \A a, b \in cs : a[d] = b[d]
=============================================================================
