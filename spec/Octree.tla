------------------------------- MODULE Octree -------------------------------
(* The octree marching-cubes renderer (render/march3x.go) on an exact lattice. *)
(* Units: the level-0 cube has side 1 (half the finest cell); the finest cells *)
(* (level 1) have side 2 and corners on even coordinates; cube centres of      *)
(* level n are at origin + 2^(n-1).  The renderer is positioned so that its    *)
(* sample points are exactly these integer points (see harness).               *)
(*   processCube(c):  isEmpty(c) -> nothing                                    *)
(*                    c.n = 1    -> marching cubes on the 8 corners            *)
(*                    else       -> the 8 children in the code's order         *)
(*   isEmpty(c):      |f(centre)| >= 0.5*sqrt(3)*2^n    (squared: integers)    *)
EXTENDS MC3, Scene3

\* number of levels as marchingCubesOctree computes it for a cube box of side 2m scaled by 1.01:
\* levels = ceil(log2(2.02 m)) + 1 = the least L with 2^(L-1) >= 2.02 m
RECURSIVE LeastL(_, _)
LeastL(m, L) == IF 100 * Pow(2, L - 1) >= 202 * m THEN L ELSE LeastL(m, L + 1)
Levels(m) == LeastL(m, 1)
TopLevel(m) == Levels(m) - 1
Side(m) == Pow(2, TopLevel(m))

\* isEmpty on the exact lattice: |num/k| >= hdiag[n]  <=>  4 num^2 >= 3 * 4^n * k^2
Centre(v, n) == LET s == Pow(2, n - 1) IN <<v[1] + s, v[2] + s, v[3] + s>>
IsEmpty(scene, v, n) == LET d == Num(scene, Centre(v, n))
                        IN 4 * d * d >= 3 * Pow(4, n) * scene.k * scene.k

ChildOff == << <<0,0,0>>, <<1,0,0>>, <<1,1,0>>, <<0,1,0>>, <<0,0,1>>, <<1,0,1>>, <<1,1,1>>, <<0,1,1>> >>

\* the leaves (finest cells, by origin) reached by the traversal, in the code's order
RECURSIVE Leaves(_, _, _)
Leaves(scene, v, n) ==
  IF IsEmpty(scene, v, n) THEN <<>>
  ELSE IF n = 1 THEN << v >>
  ELSE LET s == Pow(2, n - 1)
       IN Flatten([i \in 1..8 |-> Leaves(scene, <<v[1] + s * ChildOff[i][1], v[2] + s * ChildOff[i][2],
                                                  v[3] + s * ChildOff[i][3]>>, n - 1)])

\* the sequence of isEmpty decisions <<x, y, z, n, empty>> in the code's order
RECURSIVE Decisions(_, _, _)
Decisions(scene, v, n) ==
  IF IsEmpty(scene, v, n) THEN << <<v[1], v[2], v[3], n, 1>> >>
  ELSE << <<v[1], v[2], v[3], n, 0>> >> \o
       (IF n = 1 THEN <<>>
        ELSE LET s == Pow(2, n - 1)
             IN Flatten([i \in 1..8 |-> Decisions(scene, <<v[1] + s * ChildOff[i][1], v[2] + s * ChildOff[i][2],
                                                           v[3] + s * ChildOff[i][3]>>, n - 1)]))

\* marching cubes on the finest cell with origin v (half-lattice units; corner i at v + 2*Off[i]);
\* symbolic vertices are in cell units doubled = half-lattice units
LeafTris(scene, v) ==
  CellTrisOf(<<v[1] \div 2, v[2] \div 2, v[3] \div 2>>,
             [i \in 1..8 |-> ClassOfVal(Num(scene, <<v[1] + 2 * Off[i][1], v[2] + 2 * Off[i][2], v[3] + 2 * Off[i][3]>>))])

AllCells(m) == LET c == Side(m) \div 2
               IN [j \in 1..(c * c * c) |-> <<2 * ((j - 1) \div (c * c)), 2 * (((j - 1) \div c) % c), 2 * ((j - 1) % c)>>]

OctreeTris(scene, m) == LET ls == Leaves(scene, <<0, 0, 0>>, TopLevel(m))
                        IN Flatten([i \in 1..Len(ls) |-> LeafTris(scene, ls[i])])
FlatTris(scene, m) == LET cs == AllCells(m)
                      IN Flatten([i \in 1..Len(cs) |-> LeafTris(scene, cs[i])])

\* THE PROPERTY on the model: the hierarchical traversal emits exactly what the flat scan emits
OctreeEqualsFlat(scene, m) == SameBag(OctreeTris(scene, m), FlatTris(scene, m))
\* equivalent and cheaper (LeafTris is a function of the cell): every emitting finest cell is
\* reached, and no cell is reached twice
NoEmittingCellSkipped(scene, m) ==
  LET ls == Leaves(scene, <<0, 0, 0>>, TopLevel(m))
      cs == AllCells(m)
  IN /\ \A i \in 1..Len(cs) : LeafTris(scene, cs[i]) # <<>> => \E j \in 1..Len(ls) : ls[j] = cs[i]
     /\ \A i, j \in 1..Len(ls) : ls[i] = ls[j] => i = j
=============================================================================
