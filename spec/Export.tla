------------------------------- MODULE Export -------------------------------
(* C15 - what the 3MF, DXF and SVG writers of render/ put into a file, on exact   *)
(* inputs: coordinates are QUARTER-INTEGERS, stored as integers q (value q/4);    *)
(* they are exact in float32, in the 4 decimals of 3MF, the 16 decimals of DXF and *)
(* the 2 decimals of SVG (0.25 steps).                                            *)
(*   triangle = <<x1,y1,z1, x2,y2,z2, x3,y3,z3>>     segment = <<x1,y1, x2,y2>>    *)
EXTENDS Integers, Sequences, TLC

\* ------------------------------------------------------------------ 3MF
\* the mesh builder as a machine: AddVertex(p) = existing index or append; AddTriangle
Vtx(t, k) == <<t[(3 * k) - 2], t[(3 * k) - 1], t[3 * k]>>
IndexOf(tab, p) == IF \E i \in 1..Len(tab) : tab[i] = p
                   THEN (CHOOSE i \in 1..Len(tab) : tab[i] = p /\ \A m \in 1..(i - 1) : tab[m] # p) ELSE 0
AddVertex(tab, p) == IF IndexOf(tab, p) # 0 THEN tab ELSE Append(tab, p)
RECURSIVE Build(_, _, _, _)
\* state after the first i-1 triangles: vertex table tab, triangle list tris (0-based indices as in the file)
Build(ts, i, tab, tris) ==
  IF i > Len(ts) THEN [verts |-> tab, tris |-> tris]
  ELSE LET t1 == AddVertex(tab, Vtx(ts[i], 1))
           t2 == AddVertex(t1, Vtx(ts[i], 2))
           t3 == AddVertex(t2, Vtx(ts[i], 3))
       IN Build(ts, i + 1, t3, Append(tris, <<IndexOf(t3, Vtx(ts[i], 1)) - 1, IndexOf(t3, Vtx(ts[i], 2)) - 1,
                                                IndexOf(t3, Vtx(ts[i], 3)) - 1>>))
Mesh3MF(ts) == Build(ts, 1, <<>>, <<>>)

NoDup(tab) == \A i, m \in 1..Len(tab) : i # m => tab[i] # tab[m]
\* the PROPERTY for a decoded mesh m against the input ts (any table order is acceptable)
IndicesInRange(m) == \A i \in 1..Len(m.tris) : \A k \in 1..3 : m.tris[i][k] >= 0 /\ m.tris[i][k] < Len(m.verts)
TrianglesAreInputs(m, ts) ==
  /\ Len(m.tris) = Len(ts)
  /\ \A i \in 1..Len(ts) : \A k \in 1..3 : m.verts[m.tris[i][k] + 1] = Vtx(ts[i], k)     \* order and winding
AllUsed(m) == \A v \in 1..Len(m.verts) : \E i \in 1..Len(m.tris) : \E k \in 1..3 : m.tris[i][k] = v - 1
Mesh3MFOK(m, ts) == IndicesInRange(m) /\ TrianglesAreInputs(m, ts) /\ NoDup(m.verts) /\ AllUsed(m)

\* ------------------------------------------------------------------ DXF
\* one LINE entity per segment, on layer "Lines", z = 0, in order
LineOf(s) == [t |-> "LINE", layer |-> "Lines", c |-> <<s[1], s[2], 0, s[3], s[4], 0>>]
DXF(segs) == [i \in 1..Len(segs) |-> LineOf(segs[i])]

\* ------------------------------------------------------------------ SVG
\* running min / max over all end points (SVG.Line), then at Save: x' = x - minx, y' = maxy - y,
\* canvas = extent; output in HUNDREDTHS (2 decimals): 25 per quarter
Min2(a, b) == IF a < b THEN a ELSE b
Max2(a, b) == IF a > b THEN a ELSE b
RECURSIVE Ext(_, _, _)
\* e = <<minx, miny, maxx, maxy>> after the first i-1 segments
Ext(segs, i, e) ==
  IF i > Len(segs) THEN e
  ELSE LET s == segs[i]
           lo == <<Min2(s[1], s[3]), Min2(s[2], s[4])>>
           hi == <<Max2(s[1], s[3]), Max2(s[2], s[4])>>
       IN IF i = 1 THEN Ext(segs, 2, <<lo[1], lo[2], hi[1], hi[2]>>)
          ELSE Ext(segs, i + 1, <<Min2(e[1], lo[1]), Min2(e[2], lo[2]), Max2(e[3], hi[1]), Max2(e[4], hi[2])>>)
Extent(segs) == Ext(segs, 1, <<0, 0, 0, 0>>)
SVG(segs) ==
  LET e == Extent(segs)
  IN [w |-> 25 * (e[3] - e[1]), h |-> 25 * (e[4] - e[2]),
      lines |-> [i \in 1..Len(segs) |-> <<25 * (segs[i][1] - e[1]), 25 * (e[4] - segs[i][2]),
                                          25 * (segs[i][3] - e[1]), 25 * (e[4] - segs[i][4])>>]]
\* properties of the SVG model itself: everything lies on the canvas, the extent is attained
OnCanvas(v) == \A i \in 1..Len(v.lines) : /\ v.lines[i][1] >= 0 /\ v.lines[i][1] <= v.w /\ v.lines[i][3] >= 0 /\ v.lines[i][3] <= v.w
                                          /\ v.lines[i][2] >= 0 /\ v.lines[i][2] <= v.h /\ v.lines[i][4] >= 0 /\ v.lines[i][4] <= v.h
Touches(v) == Len(v.lines) = 0 \/
  /\ \E i \in 1..Len(v.lines) : v.lines[i][1] = 0 \/ v.lines[i][3] = 0
  /\ \E i \in 1..Len(v.lines) : v.lines[i][2] = 0 \/ v.lines[i][4] = 0
  /\ \E i \in 1..Len(v.lines) : v.lines[i][1] = v.w \/ v.lines[i][3] = v.w
  /\ \E i \in 1..Len(v.lines) : v.lines[i][2] = v.h \/ v.lines[i][4] = v.h
=============================================================================
