------------------------------- MODULE Delaunay -------------------------------
(* C20: the Delaunay triangulation of a small point set, exactly.              *)
(* P is a sequence of grid points <<x, y>>; point ids are 0-based like the     *)
(* index triples of render.TriangleI (id i is P[i+1]).  All predicates are     *)
(* integer determinants.  Magnitudes: with coordinates in 0..5 every           *)
(* difference is <= 5, a lifted coordinate <= 50, an InCircle determinant      *)
(* <= 6 * 5 * 5 * 50 = 7500: far below 2^31.                                   *)
EXTENDS Integers, Sequences, FiniteSets

Pt(P, i) == P[i + 1]
Ids(P) == 0..(Len(P) - 1)

\* twice the signed area of abc: > 0 counter-clockwise, < 0 clockwise, 0 collinear
Orient(a, b, c) == (b[1] - a[1]) * (c[2] - a[2]) - (b[2] - a[2]) * (c[1] - a[1])
\* > 0 iff d is strictly inside the circle through a, b, c when abc is counter-clockwise
InCircle(a, b, c, d) ==
  LET ax == a[1] - d[1]  ay == a[2] - d[2]
      bx == b[1] - d[1]  by == b[2] - d[2]
      cx == c[1] - d[1]  cy == c[2] - d[2]
  IN   (ax * ax + ay * ay) * (bx * cy - by * cx)
     - (bx * bx + by * by) * (ax * cy - ay * cx)
     + (cx * cx + cy * cy) * (ax * by - ay * bx)
Sgn(x) == IF x > 0 THEN 1 ELSE IF x < 0 THEN -1 ELSE 0
\* orientation-independent: 1 strictly inside the circumcircle of abc, 0 on it, -1 outside
InCirc(a, b, c, d) == Sgn(InCircle(a, b, c, d)) * Sgn(Orient(a, b, c))

OrientI(P, t) == Orient(Pt(P, t[1]), Pt(P, t[2]), Pt(P, t[3]))
InCircI(P, t, m) == InCirc(Pt(P, t[1]), Pt(P, t[2]), Pt(P, t[3]), Pt(P, m))

Distinct(P) == \A i, j \in Ids(P) : i # j => Pt(P, i) # Pt(P, j)
NoThreeCollinear(P) ==
  \A i, j, k \in Ids(P) : (i < j /\ j < k) => Orient(Pt(P, i), Pt(P, j), Pt(P, k)) # 0
NoFourCocircular(P) ==
  \A i, j, k, m \in Ids(P) :
    (i < j /\ j < k /\ k < m) => InCircle(Pt(P, i), Pt(P, j), Pt(P, k), Pt(P, m)) # 0
GeneralPosition(P) == Distinct(P) /\ NoThreeCollinear(P) /\ NoFourCocircular(P)

\* index triples with the smallest id first (the code's canonical rotation), winding free
CanonTriples(P) == {t \in Ids(P) \X Ids(P) \X Ids(P) : t[1] < t[2] /\ t[1] < t[3] /\ t[2] # t[3]}
IsTriple(P, t) == /\ t[1] \in Ids(P) /\ t[2] \in Ids(P) /\ t[3] \in Ids(P)
                  /\ t[1] # t[2] /\ t[2] # t[3] /\ t[1] # t[3]
EmptyCircle(P, t) == \A m \in Ids(P) \ {t[1], t[2], t[3]} : InCircI(P, t, m) < 0
Flip(t) == <<t[1], t[3], t[2]>>

\* THE DEFINITION: counter-clockwise triples whose circumcircle contains no other point
DT(P) == {t \in CanonTriples(P) : OrientI(P, t) > 0 /\ EmptyCircle(P, t)}
\* the same triangulation wound clockwise (the convention of render.Delaunay2d / Delaunay2dSlow)
DTcw(P) == {Flip(t) : t \in DT(P)}

\* directed hull edge: every other point strictly to the left of i -> j
HullEdge(P, i, j) == i # j /\ \A m \in Ids(P) \ {i, j} : Orient(Pt(P, i), Pt(P, j), Pt(P, m)) > 0
HullIds(P) == {i \in Ids(P) : \E j \in Ids(P) : HullEdge(P, i, j)}
HullSize(P) == Cardinality(HullIds(P))
ExpectedCount(P) == 2 * Len(P) - 2 - HullSize(P)

DirEdges(t) == {<<t[1], t[2]>>, <<t[2], t[3]>>, <<t[3], t[1]>>}
AllDirEdges(T) == UNION {DirEdges(t) : t \in T}
\* T (counter-clockwise triples) is a triangulation of the convex hull of P:
\* oriented 2-chain whose boundary is exactly the hull cycle and which uses every point
TriangulatesHull(P, T) ==
  LET E == AllDirEdges(T)
  IN /\ \A t \in T : IsTriple(P, t) /\ OrientI(P, t) > 0
     /\ \A t, u \in T : t # u => DirEdges(t) \cap DirEdges(u) = {}
     /\ \A e \in E : (<<e[2], e[1]>> \in E) # HullEdge(P, e[1], e[2])
     /\ \A i, j \in Ids(P) : HullEdge(P, i, j) => <<i, j>> \in E
     /\ \A i \in Ids(P) : \E e \in E : e[1] = i
TwiceArea(P, T) ==
  LET RECURSIVE Sum(_)
      Sum(S) == IF S = {} THEN 0 ELSE LET t == CHOOSE x \in S : TRUE IN OrientI(P, t) + Sum(S \ {t})
  IN Sum(T)
\* shoelace area of the hull through a fan from the smallest hull id
HullTwiceArea(P) ==
  LET RECURSIVE Walk(_, _)
      Nxt(i) == CHOOSE j \in Ids(P) : HullEdge(P, i, j)
      s == CHOOSE i \in HullIds(P) : \A k \in HullIds(P) : i <= k
      Walk(i, acc) == LET j == Nxt(i)
                      IN IF j = s THEN acc ELSE Walk(j, acc + Orient(Pt(P, s), Pt(P, i), Pt(P, j)))
  IN Walk(Nxt(s), 0)

\* model-level facts about DT(P) for points in general position (theorems; TLC checks them per case)
DTOK(P) == /\ Cardinality(DT(P)) = ExpectedCount(P)
           /\ TriangulatesHull(P, DT(P))
           /\ TwiceArea(P, DT(P)) = HullTwiceArea(P)
=============================================================================
