------------------------------- MODULE BezierM -------------------------------
(* LCG-drawn lattice control polygons for Bezier.tla: 2..7 control vertices in   *)
(* [-4,4]^2, random end/mid flags, open or closed.  The state is the curve.      *)
EXTENDS Bezier, TLC, Json
CONSTANTS Emit, Sample, Seed
VARIABLES phase, j
vars == <<phase, j>>
R(x) == (75 * (x % 65537) + 74) % 65537
RECURSIVE Rn(_, _)
Rn(jj, i) == IF i = 0 THEN R(R(Seed * 37 + jj)) ELSE R(Rn(jj, i - 1) + i)
Curve(jj) ==
  LET n == 2 + (Rn(jj, 1) % 6)
      lin == Rn(jj, 2) % 4 = 0          \* a quarter of the curves are polylines (degree 1 only)
  IN [pts |-> [i \in 1..n |-> [x |-> (Rn(jj, 4 * i) % 9) - 4, y |-> (Rn(jj, 4 * i + 1) % 9) - 4,
                              mid |-> IF i = 1 \/ lin THEN 0 ELSE (IF Rn(jj, 4 * i + 2) % 5 < 3 THEN 1 ELSE 0)]],
      closed |-> (Rn(jj, 3) % 3 = 0)]
Init == phase = 0 /\ j = 0
Pick == phase = 0 /\ phase' = 1 /\ j' \in 1..Sample
Next == Pick
Spec == Init /\ [][Next]_vars
BezOK == phase = 1 =>
  LET c == Curve(j)
  IN WellFormedB(c.pts, c.closed) =>
       /\ ((/\ NSpans(c.pts, c.closed) >= 1
            /\ MaxDeg(c.pts) \in 1..4
            /\ (Linear(c.pts) => MaxDeg(c.pts) = 1)
            /\ NLinear(c.pts, c.closed) >= 2) \/ (PrintT(<<"MODELBAD", ToJson(c)>>) /\ FALSE))
       /\ (Emit => PrintT(<<"VEC", ToJson(c)>>))
=============================================================================
