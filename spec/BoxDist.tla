------------------------------- MODULE BoxDist -------------------------------
(* C16: the point-to-box squared-distance interval and the interval overlap.   *)
(* A box is a pair of integer sequences lo, hi (length 2 or 3, lo[a] <= hi[a]);*)
(* a point is an integer sequence.  Everything is an integer on the lattice.   *)
(*   MinD2true / MaxD2true   the definition (clamping / farthest corner)       *)
(*   MinMaxCode2 / 3         Box2.MinMaxDist2 / Box3.MinMaxDist2 as WRITTEN    *)
(*                           (vertices, then side / face cases with strict     *)
(*                           `within` tests; Box3 has no edge case)            *)
(*   OverlapCode             Interval.Overlap as written                       *)
(*   ShareValue              "the two closed intervals have a common value"    *)
EXTENDS Integers, Sequences, FiniteSets, TLC

Abs(x) == IF x < 0 THEN -x ELSE x
Min2(a, b) == IF a < b THEN a ELSE b
Max2(a, b) == IF a > b THEN a ELSE b
Sq(x) == x * x
ClampI(x, a, b) == IF x < a THEN a ELSE IF x > b THEN b ELSE x
Sum(s) == IF Len(s) = 2 THEN s[1] + s[2] ELSE s[1] + s[2] + s[3]
SetMin(S) == CHOOSE x \in S : \A y \in S : x <= y
SetMax(S) == CHOOSE x \in S : \A y \in S : y <= x
Dist2(u, v) == Sum([a \in 1..Len(u) |-> Sq(u[a] - v[a])])

\* ---------------------------------------------------------------- definition
MinD2true(lo, hi, p) == Sum([a \in 1..Len(p) |-> Sq(p[a] - ClampI(p[a], lo[a], hi[a]))])
Corners(lo, hi) == {[a \in 1..Len(lo) |-> IF s[a] = 0 THEN lo[a] ELSE hi[a]] : s \in [1..Len(lo) -> {0, 1}]}
MaxD2true(lo, hi, p) == SetMax({Dist2(c, p) : c \in Corners(lo, hi)})
\* the same maximum axis by axis (used by the trace judge: cheaper; equality is checked in BoxDistM)
MaxD2axis(lo, hi, p) == Sum([a \in 1..Len(p) |-> Max2(Sq(p[a] - lo[a]), Sq(p[a] - hi[a]))])
\* independent brute force over the lattice points of the box (oracle cross-check in BoxDistM)
BoxPoints(lo, hi) == IF Len(lo) = 2 THEN {<<x, y>> : x \in lo[1]..hi[1], y \in lo[2]..hi[2]}
                     ELSE {<<x, y, z>> : x \in lo[1]..hi[1], y \in lo[2]..hi[2], z \in lo[3]..hi[3]}
MinD2brute(lo, hi, p) == SetMin({Dist2(q, p) : q \in BoxPoints(lo, hi)})
MaxD2brute(lo, hi, p) == SetMax({Dist2(q, p) : q \in BoxPoints(lo, hi)})

\* position class of p relative to the box: the number of axes on which p is STRICTLY between the
\* two planes of the box.  3D: 3 inside, 2 face region, 1 edge region, 0 vertex region.
Within(lo, hi, p, a) == lo[a] < p[a] /\ p[a] < hi[a]
NWithin(lo, hi, p) == Cardinality({a \in 1..Len(p) : Within(lo, hi, p, a)})
Region(lo, hi, p) ==
  LET n == NWithin(lo, hi, p)
  IN IF n = Len(p) THEN "inside"
     ELSE IF n = 0 THEN "vertex-region"
     ELSE IF Len(p) = 2 THEN "side-region"
     ELSE IF n = 2 THEN "face-region" ELSE "edge-region"

\* ------------------------------------------------- the code, as it is written
\* Box2.MinMaxDist2 (sdf/box2.go): translate so that p is the origin; min and max over the four
\* vertices; then, for the minimum only, the side cases.
MinMaxCode2(lo, hi, p) ==
  LET ax == lo[1] - p[1]   bx == hi[1] - p[1]
      ay == lo[2] - p[2]   by == hi[2] - p[2]
      v == <<Sq(ax) + Sq(ay), Sq(bx) + Sq(ay), Sq(ax) + Sq(by), Sq(bx) + Sq(by)>>
      vmin == Min2(Min2(v[1], v[2]), Min2(v[3], v[4]))
      vmax == Max2(Max2(v[1], v[2]), Max2(v[3], v[4]))
      withinX == ax < 0 /\ bx > 0
      withinY == ay < 0 /\ by > 0
      m1 == IF withinX THEN Min2(vmin, Sq(Min2(Abs(by), Abs(ay)))) ELSE vmin
      m2 == IF withinY THEN Min2(m1, Sq(Min2(Abs(bx), Abs(ax)))) ELSE m1
  IN <<IF withinX /\ withinY THEN 0 ELSE m2, vmax>>

\* Box3.MinMaxDist2 (sdf/box3.go): eight vertices, then the three FACE cases.  There is no case for
\* a point beside an edge (exactly one axis within): the minimum then stays a vertex distance.
\* min / max over the eight vertex sums, written axis by axis (the axes are independent)
VMinMax3(lo, hi, p) ==
  LET x0 == Sq(lo[1] - p[1])  x1 == Sq(hi[1] - p[1])
      y0 == Sq(lo[2] - p[2])  y1 == Sq(hi[2] - p[2])
      z0 == Sq(lo[3] - p[3])  z1 == Sq(hi[3] - p[3])
  IN <<Min2(x0, x1) + Min2(y0, y1) + Min2(z0, z1), Max2(x0, x1) + Max2(y0, y1) + Max2(z0, z1)>>
MinMaxCode3(lo, hi, p) ==
  LET ax == lo[1] - p[1]   bx == hi[1] - p[1]
      ay == lo[2] - p[2]   by == hi[2] - p[2]
      az == lo[3] - p[3]   bz == hi[3] - p[3]
      vmin == VMinMax3(lo, hi, p)[1]
      vmax == VMinMax3(lo, hi, p)[2]
      withinX == ax < 0 /\ bx > 0
      withinY == ay < 0 /\ by > 0
      withinZ == az < 0 /\ bz > 0
      m1 == IF withinX /\ withinY THEN Min2(vmin, Sq(Min2(Abs(bz), Abs(az)))) ELSE vmin
      m2 == IF withinX /\ withinZ THEN Min2(m1, Sq(Min2(Abs(by), Abs(ay)))) ELSE m1
      m3 == IF withinY /\ withinZ THEN Min2(m2, Sq(Min2(Abs(bx), Abs(ax)))) ELSE m2
  IN <<IF withinX /\ withinY /\ withinZ THEN 0 ELSE m3, vmax>>
\* the literal eight-vertex loop (BoxDistM checks that the axis-wise form above equals it)
Vertex8(lo, hi, p) ==
  LET V == {<<sx, sy, sz>> : sx \in {lo[1], hi[1]}, sy \in {lo[2], hi[2]}, sz \in {lo[3], hi[3]}}
      D == {Dist2(v, p) : v \in V}
  IN <<SetMin(D), SetMax(D)>>

MinMaxCode(lo, hi, p) == IF Len(p) = 2 THEN MinMaxCode2(lo, hi, p) ELSE MinMaxCode3(lo, hi, p)
MinMaxTrue(lo, hi, p) == <<MinD2true(lo, hi, p), MaxD2axis(lo, hi, p)>>

\* ------------------------------------------------------------------ intervals
OverlapCode(a, b) == b[1] <= a[2] /\ a[1] <= b[2]          \* Interval.Overlap (sdf/line.go)
\* two closed proper intervals share a value iff one of the four end points lies in both
ShareValue(a, b) == \E v \in {a[1], a[2], b[1], b[2]} : a[1] <= v /\ v <= a[2] /\ b[1] <= v /\ v <= b[2]
=============================================================================
