------------------------------ MODULE UnionPrune ------------------------------
(* C16: UnionSDF2.Evaluate (sdf/sdf2.go) prunes operands by the distance        *)
(* intervals of their bounding boxes; UnionSDF2.EvaluateSlow evaluates all.     *)
(* Operands are lattice shapes  [t |-> "b", a,b,c,d] = box [a,c] x [b,d]  and   *)
(* [t |-> "c", a,b,c, d |-> 0] = circle centre (a,b) radius c; points are       *)
(* integer pairs.  Distances are irrational in general, so every value is a     *)
(* closed interval <<lo, hi>> of integers in units of 1/S that CONTAINS the     *)
(* real value (square roots bracketed by integer arithmetic; exact when the     *)
(* argument is a perfect square).  min and the blend PolyMin(k) are monotone    *)
(* non-decreasing in both arguments, so they map intervals end point by end     *)
(* point; PolyMin(k), k = kn/kd, is evaluated as an exact rational and rounded  *)
(* outwards.  A sign is certain only if the interval excludes 0.                *)
EXTENDS BoxDist
S == 16
ISqrt(n) == CHOOSE r \in 0..64 : r * r <= n /\ (r + 1) * (r + 1) > n          \* n < 4225
SqrtLo(n) == LET r == ISqrt(n) IN CHOOSE f \in (S * r)..(S * r + S - 1) : f * f <= S * S * n /\ (f + 1) * (f + 1) > S * S * n
SqrtIv(n) == LET f == SqrtLo(n) IN IF f * f = S * S * n THEN <<f, f>> ELSE <<f, f + 1>>

BBlo(e) == IF e.t = "b" THEN <<e.a, e.b>> ELSE <<e.a - e.c, e.b - e.c>>
BBhi(e) == IF e.t = "b" THEN <<e.c, e.d>> ELSE <<e.a + e.c, e.b + e.c>>
\* exact Euclidean signed distance of the operand, as an interval in units of 1/S
ValIv(e, p) ==
  IF e.t = "b"
  THEN LET dx == Max2(e.a - p[1], p[1] - e.c)
           dy == Max2(e.b - p[2], p[2] - e.d)
       IN IF dx > 0 /\ dy > 0 THEN SqrtIv(Sq(dx) + Sq(dy)) ELSE <<S * Max2(dx, dy), S * Max2(dx, dy)>>
  ELSE LET r == SqrtIv(Sq(p[1] - e.a) + Sq(p[2] - e.b)) IN <<r[1] - S * e.c, r[2] - S * e.c>>

\* ---------------------------------------------------------------- minimum functions
\* poly(a,b,k) of sdf/utils.go:  h = clamp(0.5 + 0.5 (b-a)/k, 0, 1);  mix(b,a,h) - k h (1-h)
\* at a = A/S, b = B/S, k = kn/kd:  h = Hn/Hd with Hd = 2 S kn, Hn = clamp(S kn + (B-A) kd, 0, Hd)
\* value * S = PolyNum / PolyDen   (|B| Hd^2 kd < 2^31 for kn <= 12, kd <= 2, |B| < 7000)
PolyHn(A, B, kn, kd) == ClampI(S * kn + (B - A) * kd, 0, 2 * S * kn)
PolyNum(A, B, kn, kd) == LET Hd == 2 * S * kn  Hn == PolyHn(A, B, kn, kd)
                         IN B * Hd * Hd * kd + Hn * Hd * (A - B) * kd - S * kn * Hn * (Hd - Hn)
PolyDen(kn, kd) == 4 * S * S * kn * kn * kd
FloorDiv(n, d) == n \div d
CeilDiv(n, d) == 0 - ((0 - n) \div d)
\* kn = 0: the default math.Min
MinIv(x, y, kn, kd) ==
  IF kn = 0 THEN <<Min2(x[1], y[1]), Min2(x[2], y[2])>>
  ELSE <<FloorDiv(PolyNum(x[1], y[1], kn, kd), PolyDen(kn, kd)), CeilDiv(PolyNum(x[2], y[2], kn, kd), PolyDen(kn, kd))>>
RECURSIVE FoldIv(_, _, _, _)
FoldIv(vals, n, kn, kd) == IF n = 1 THEN vals[1] ELSE MinIv(FoldIv(vals, n - 1, kn, kd), vals[n], kn, kd)

\* ---------------------------------------------------------------- the two evaluations
UnionAll(es, p, kn, kd) == FoldIv([i \in 1..Len(es) |-> ValIv(es[i], p)], Len(es), kn, kd)
\* UnionSDF2.Evaluate as written (sdf/sdf2.go after the repair of the loose-box pruning): with a blend installed every
\* operand is evaluated; otherwise the minimum squared distance to every bounding box (Box2.MinMaxDist2 as written), the
\* FIRST operand with the smallest one is evaluated first, then, in index order, an operand is skipped when its box is
\* no closer than the minimum found so far (d > 0: mind2 >= d^2; d <= 0: mind2 > 0).  Values are intervals: an operand
\* is skipped in the model only when the code certainly skips it for every real value in the interval.
BoxIvs(es, p) == [i \in 1..Len(es) |-> MinMaxCode2(BBlo(es[i]), BBhi(es[i]), p)]
MinIndex(vs) == CHOOSE i \in 1..Len(vs) :
                  (\A i2 \in 1..Len(vs) : vs[i][1] <= vs[i2][1]) /\ (\A i3 \in 1..(i - 1) : vs[i3][1] > vs[i][1])
RECURSIVE PruneFold(_, _, _, _, _)
PruneFold(vals, vs, mi, d, i) ==
  IF i > Len(vals) THEN d
  ELSE IF i = mi THEN PruneFold(vals, vs, mi, d, i + 1)
  ELSE LET skipPos == d[1] > 0 /\ S * S * vs[i][1] >= d[2] * d[2]
           skipNeg == d[2] <= 0 /\ vs[i][1] > 0
       IN IF skipPos \/ skipNeg THEN PruneFold(vals, vs, mi, d, i + 1)
          ELSE PruneFold(vals, vs, mi, MinIv(d, vals[i], 0, 1), i + 1)
UnionPruned(es, p, kn, kd) ==
  IF kn # 0 THEN UnionAll(es, p, kn, kd)
  ELSE LET vals == [i \in 1..Len(es) |-> ValIv(es[i], p)]
           vs == BoxIvs(es, p)
           mi == MinIndex(vs)
       IN PruneFold(vals, vs, mi, vals[mi], 1)
\* the rule before the repair (kept for reference: it needs the value of the nearest-box operand to be at most the
\* farthest distance of its box, which fails for an operand whose box is not tight, e.g. a cut that removed everything)
KeptOld(es, p) == LET vs == BoxIvs(es, p)  mi == MinIndex(vs)
                  IN {i \in 1..Len(es) : i = mi \/ OverlapCode(vs[mi], vs[i])}

SignIv(iv) == IF iv[2] < 0 THEN 0 - 1 ELSE IF iv[1] > 0 THEN 1 ELSE 0
\* model-level property at one point: with the default minimum the pruned result is not certainly
\* above the exhaustive one; with a blend the two signs are not certainly different
PrunedOKAt(es, p, kn, kd) ==
  LET f == UnionPruned(es, p, kn, kd)  s == UnionAll(es, p, kn, kd)
  IN IF kn = 0 THEN ~(s[2] < f[1])
     ELSE ~(SignIv(f) # 0 /\ SignIv(s) # 0 /\ SignIv(f) # SignIv(s))
=============================================================================
