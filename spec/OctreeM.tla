------------------------------- MODULE OctreeM -------------------------------
(* Scene-enumeration machine for Octree.tla; the state is the scene.           *)
(*   Fam = "box"   one L-infinity box                                          *)
(*   Fam = "box2"  union / difference of two boxes                             *)
(*   Fam = "diag"  a box cut by a diagonal plane (gradient 0.99: the tight     *)
(*                 case of the half-diagonal test)                             *)
(* Sample = 0 enumerates family "box" exhaustively; otherwise Sample scenes    *)
(* are drawn with a small linear congruential generator from Seed.             *)
EXTENDS Octree, Json
CONSTANTS M,        \* meshCells (1: 2 finest cells per axis, 2,3: 4, 4..7: 8)
          HMax,     \* largest half-size
          Fam, Emit, Sample, Seed
VARIABLES phase, j, s1, s2
vars == <<phase, j, s1, s2>>
S == Side(M)
K == IF Fam = "diag" THEN 7 ELSE 1
Box(c, h, op) == [kind |-> "box", c |-> c, h |-> h, w |-> K, op |-> op]
Plane(c, h, op) == [kind |-> "plane", c |-> c, h |-> h, w |-> 1, op |-> op]
Scene == IF Fam = "box" THEN [parts |-> <<s1>>, k |-> K] ELSE [parts |-> <<s1, s2>>, k |-> K]
Zero == Box(<<0,0,0>>, <<0,0,0>>, "u")
Init == phase = 0 /\ j = 0 /\ s1 = Zero /\ s2 = Zero
Fits(c, h) == \A a \in 1..3 : c[a] - h[a] >= 1 /\ c[a] + h[a] <= S - 1

R(x) == (75 * (x % 65537) + 74) % 65537
\* the i-th pseudo-random number of sample jj
RECURSIVE Rn(_, _)
Rn(jj, i) == IF i = 0 THEN R(R(Seed * 31 + jj)) ELSE R(Rn(jj, i - 1) + i)
\* a box that fits: half-size first, then a centre that fits
RBox(jj, o, hm, op) ==
  LET h == <<Rn(jj, o) % (hm + 1), Rn(jj, o + 1) % (hm + 1), Rn(jj, o + 2) % (hm + 1)>>
      c == [a \in 1..3 |-> 1 + h[a] + (Rn(jj, o + 2 + a) % (S - 1 - 2 * h[a]))]
  IN Box(c, h, op)
Sgn(x) == IF x % 2 = 0 THEN 4 ELSE -4

PickJ == /\ phase = 0 /\ phase' = 1 /\ s1' = s1 /\ s2' = s2
         /\ j' \in 1..(IF Sample = 0 THEN S - 1 ELSE Sample)
PickScene ==
  /\ phase = 1 /\ phase' = 2 /\ j' = j
  /\ IF Sample = 0
     THEN /\ s2' = s2
          /\ \E y \in 1..(S - 1), z \in 1..(S - 1), a \in 0..HMax, b \in 0..HMax, c \in 0..HMax :
               /\ Fits(<<j, y, z>>, <<a, b, c>>)
               /\ s1' = Box(<<j, y, z>>, <<a, b, c>>, "u")
     ELSE /\ s1' = RBox(j, 0, HMax, "u")
          /\ s2' = IF Fam = "box2"
                   THEN RBox(j, 6, IF Rn(j, 12) % 2 = 0 THEN 1 ELSE HMax, IF Rn(j, 13) % 2 = 0 THEN "u" ELSE "d")
                   ELSE IF Fam = "diag"
                   THEN Plane(<<Rn(j, 6) % (3 * S + 1), 0, 0>>, <<Sgn(Rn(j, 7)), Sgn(Rn(j, 8)), Sgn(Rn(j, 9))>>, "i")
                   ELSE s2
Next == PickJ \/ PickScene
Spec == Init /\ [][Next]_vars

SceneOK == phase = 2 =>
  /\ (NoEmittingCellSkipped(Scene, M) \/ (PrintT(<<"MODELBAD", ToJson(Scene)>>) /\ FALSE))
  /\ (Emit => PrintT(<<"VEC", ToJson(Scene)>>))
=============================================================================
