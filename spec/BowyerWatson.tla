---------------------------- MODULE BowyerWatson ----------------------------
(* C20 (thorough): render.Delaunay2d AS THE CODE RUNS IT, with exact           *)
(* arithmetic: vertices sorted by x (three tie orders), the super triangle,    *)
(* one insertion per step with the scan of the triangle list (done flag with   *)
(* the early-out, copy-the-tail removal), the edge buffer with duplicate       *)
(* cancellation, the new triangles, and the final removal of triangles that    *)
(* use a super-triangle vertex.  Invariant at termination: result = DT(P).     *)
(*                                                                             *)
(* Numbers.  Coordinates are doubled and translated to the centre of the       *)
(* bounding box (the code's super triangle is centred there), so finite        *)
(* points are integers in -10..10.  The super triangle of the code is          *)
(* centre + k(-1,-1), centre + k(0,1), centre + k(1,-1) with k = 4096 * 2 *    *)
(* extent; here k is SYMBOLIC: every quantity is a polynomial in k (degree     *)
(* <= 6, coefficient vectors of length 7) and a sign is the sign for all       *)
(* sufficiently large k, i.e. of the highest non-zero coefficient.  Dominates  *)
(* asserts that the code's k (>= KMin in these units) is large enough for      *)
(* every sign that is taken.                                                   *)
(* Circumcentre c = (Ux, Uy) / 2D;  d2 - r2 = (|p|^2 - |a|^2) - (Ux (px - ax)  *)
(* + Uy (py - ay)) / D;  dx = (2 D px - Ux) / 2D.                              *)
EXTENDS Delaunay, TriSet, Json, TLC
CONSTANTS G, N, Sample, Seed
VARIABLES phase, j, P, i, ts, dn
vars == <<phase, j, P, i, ts, dn>>

\* ------------------------------------------------------------- polynomials in k
Deg == 7
Const(v) == <<v, 0, 0, 0, 0, 0, 0>>
KTimes(v) == <<0, v, 0, 0, 0, 0, 0>>
PAdd(p, q) == <<p[1] + q[1], p[2] + q[2], p[3] + q[3], p[4] + q[4], p[5] + q[5], p[6] + q[6], p[7] + q[7]>>
PSub(p, q) == <<p[1] - q[1], p[2] - q[2], p[3] - q[3], p[4] - q[4], p[5] - q[5], p[6] - q[6], p[7] - q[7]>>
\* explicit tuples: TLC evaluates them eagerly (a function constructor would be re-evaluated lazily)
PMul(p, q) == <<p[1] * q[1],
               p[1] * q[2] + p[2] * q[1],
               p[1] * q[3] + p[2] * q[2] + p[3] * q[1],
               p[1] * q[4] + p[2] * q[3] + p[3] * q[2] + p[4] * q[1],
               p[1] * q[5] + p[2] * q[4] + p[3] * q[3] + p[4] * q[2] + p[5] * q[1],
               p[1] * q[6] + p[2] * q[5] + p[3] * q[4] + p[4] * q[3] + p[5] * q[2] + p[6] * q[1],
               p[1] * q[7] + p[2] * q[6] + p[3] * q[5] + p[4] * q[4] + p[5] * q[3] + p[6] * q[2] + p[7] * q[1]>>
Lead(p) == IF \E d \in 1..Deg : p[d] # 0 THEN CHOOSE d \in 1..Deg : p[d] # 0 /\ \A m \in (d + 1)..Deg : p[m] = 0 ELSE 0
Abs(x) == IF x < 0 THEN -x ELSE x
KMin == 16384          \* 2 k of the code in doubled units, for an extent of one grid step (the smallest)
\* every root of p is below 2 max_m |c_m / c_d|^(1/(d-m)) (Fujiwara), so the leading term decides the
\* sign when |c_m| 2^(d-m) < |c_d| k^(d-m) for every lower m; with 32-bit coefficients and k >= 2^14 this
\* can only fail for d-m <= 2
Dominates(p) == LET d == Lead(p)
                IN d <= 1 \/ \A m \in 1..(d - 1) :
                     IF d - m = 1 THEN ((2 * Abs(p[m])) \div Abs(p[d])) < KMin
                     ELSE IF d - m = 2 THEN ((4 * Abs(p[m])) \div Abs(p[d])) < KMin * KMin
                     ELSE TRUE
PSign(p) == LET d == Lead(p)
            IN IF d = 0 THEN 0
               ELSE IF ~Dominates(p) THEN Assert(FALSE, <<"super triangle too small for a sign", p>>)
               ELSE Sgn(p[d])

\* ------------------------------------------------------------- vertices
NPts == Len(P)
MinOf(S) == CHOOSE a \in S : \A b \in S : a <= b
MaxOf(S) == CHOOSE a \in S : \A b \in S : a >= b
Xs == {P[m][1] : m \in 1..NPts}
Ys == {P[m][2] : m \in 1..NPts}
Cx2 == MinOf(Xs) + MaxOf(Xs)          \* doubled centre of the bounding box
Cy2 == MinOf(Ys) + MaxOf(Ys)
\* vertex id 0..n-1: input points (sorted); n, n+1, n+2: the super triangle
Vx(id) == IF id < NPts THEN Const(2 * P[id + 1][1] - Cx2)
          ELSE IF id = NPts THEN KTimes(-1) ELSE IF id = NPts + 1 THEN KTimes(0) ELSE KTimes(1)
Vy(id) == IF id < NPts THEN Const(2 * P[id + 1][2] - Cy2)
          ELSE IF id = NPts + 1 THEN KTimes(1) ELSE KTimes(-1)

\* Triangle2.InCircumcircle(p) for triangle t and the finite vertex v, exactly
Test(t, v) ==
  LET ax == Vx(t[1])  ay == Vy(t[1])
      bx == Vx(t[2])  by == Vy(t[2])
      cx == Vx(t[3])  cy == Vy(t[3])
      px == Vx(v)     py == Vy(v)
      la == PAdd(PMul(ax, ax), PMul(ay, ay))
      lb == PAdd(PMul(bx, bx), PMul(by, by))
      lc == PAdd(PMul(cx, cx), PMul(cy, cy))
      lp == PAdd(PMul(px, px), PMul(py, py))
      D == PAdd(PAdd(PMul(ax, PSub(by, cy)), PMul(bx, PSub(cy, ay))), PMul(cx, PSub(ay, by)))
      Ux == PAdd(PAdd(PMul(la, PSub(by, cy)), PMul(lb, PSub(cy, ay))), PMul(lc, PSub(ay, by)))
      Uy == PAdd(PAdd(PMul(la, PSub(cx, bx)), PMul(lb, PSub(ax, cx))), PMul(lc, PSub(bx, ax)))
      sD == PSign(D)
      \* sign(d2 - r2) = sign(M) * sign(D)
      M == PSub(PSub(PMul(D, PSub(lp, la)), PMul(Ux, PSub(px, ax))), PMul(Uy, PSub(py, ay)))
      \* dx = E / 2D
      E == PSub(PMul(PAdd(D, D), px), Ux)
      Fx == PSub(PMul(PAdd(D, D), ax), Ux)
      Fy == PSub(PMul(PAdd(D, D), ay), Uy)
      far == PSign(PSub(PMul(E, E), PAdd(PMul(Fx, Fx), PMul(Fy, Fy)))) > 0     \* dx^2 > r2
  IN IF sD = 0 THEN Assert(FALSE, <<"flat triangle in the mesh", t>>)
     ELSE [inside |-> PSign(M) * sD <= 0,                     \* d2 - r2 <= epsilon, exactly: <= 0
           complete |-> PSign(E) * sD > 0 /\ far]             \* (dx > 0) && (dx*dx > r2)

\* ------------------------------------------------------------- one insertion, as the code's loops
\* for j := 0; j < nt; j++ { if done[j] {continue}; inside, complete := ...; done[j] = complete;
\*   if inside { es += 3 edges; ts[j] = ts[nt-1]; done[j] = done[nt-1]; nt--; j-- } }
RECURSIVE Scan(_, _, _, _, _, _)
Scan(v, T, Dn, nt, jj, es) ==
  IF jj > nt THEN [ts |-> SubSeq(T, 1, nt), dn |-> SubSeq(Dn, 1, nt), es |-> es]
  ELSE IF Dn[jj] THEN Scan(v, T, Dn, nt, jj + 1, es)
  ELSE LET t == T[jj]
           r == Test(t, v)
           Dn1 == [Dn EXCEPT ![jj] = r.complete]
       IN IF r.inside
          THEN Scan(v, [T EXCEPT ![jj] = T[nt]], [Dn1 EXCEPT ![jj] = Dn1[nt]], nt - 1, jj,
                    es \o <<<<t[1], t[2]>>, <<t[2], t[3]>>, <<t[3], t[1]>>>>)
          ELSE Scan(v, T, Dn1, nt, jj + 1, es)
\* for j := 0; j < len(es)-1; j++ { for k := j+1; k < len(es); k++ { if opposite or equal { es[j] = es[k] = {-1,-1} } } }
RECURSIVE DedupK(_, _, _)
DedupK(es, a, b) ==
  IF b > Len(es) THEN es
  ELSE LET m == \/ es[a][1] = es[b][2] /\ es[a][2] = es[b][1]
                \/ es[a][2] = es[b][2] /\ es[a][1] = es[b][1]
       IN DedupK(IF m THEN [es EXCEPT ![a] = <<-1, -1>>, ![b] = <<-1, -1>>] ELSE es, a, b + 1)
RECURSIVE DedupJ(_, _)
DedupJ(es, a) == IF a >= Len(es) THEN es ELSE DedupJ(DedupK(es, a, a + 1), a + 1)
Keep(es) == SelectSeq(es, LAMBDA e : e[1] >= 0 /\ e[2] >= 0)
\* remove any triangle with a vertex of the super triangle (copy in the tail, j--)
RECURSIVE Strip(_, _, _)
Strip(T, nt, jj) ==
  IF jj > nt THEN SubSeq(T, 1, nt)
  ELSE IF T[jj][1] >= NPts \/ T[jj][2] >= NPts \/ T[jj][3] >= NPts
       THEN Strip([T EXCEPT ![jj] = T[nt]], nt - 1, jj)
       ELSE Strip(T, nt, jj + 1)

\* ------------------------------------------------------------- cases
GG == G * G
PointOf(g) == <<g \div G, g % G>>
R(x) == (75 * (x % 65537) + 74) % 65537
RECURSIVE Rn(_, _)
Rn(jj, m) == IF m = 0 THEN R(R(Seed * 31 + jj)) ELSE R(Rn(jj, m - 1) + m)
RemoveAt(s, k) == [m \in 1..(Len(s) - 1) |-> IF m < k THEN s[m] ELSE s[m + 1]]
RECURSIVE Draw(_, _, _, _)
Draw(avail, k, jj, m) == IF k = 0 THEN <<>>
                         ELSE LET q == 1 + (Rn(jj, m) % Len(avail))
                              IN <<avail[q]>> \o Draw(RemoveAt(avail, q), k - 1, jj, m + 1)
Points(s) == [m \in 1..Len(s) |-> PointOf(s[m])]
Reverse(s) == [m \in 1..Len(s) |-> s[Len(s) + 1 - m]]
\* stable insertion sort by x: the tie order of the input survives (sort.Sort is not stable: three
\* tie orders are explored - ascending y, descending y, drawn order)
RECURSIVE SinkX(_, _)
SinkX(s, m) == IF m > 1 /\ s[m][1] < s[m - 1][1] THEN SinkX(Swap(s, m, m - 1), m - 1) ELSE s
RECURSIVE SortXFrom(_, _)
SortXFrom(s, m) == IF m > Len(s) THEN s ELSE SortXFrom(SinkX(s, m), m + 1)
SortX(s) == SortXFrom(s, 2)
RECURSIVE SortIds(_)
SortIds(S) == IF S = {} THEN <<>> ELSE LET a == MinOf(S) IN <<a>> \o SortIds(S \ {a})

Init == phase = 0 /\ j = 0 /\ P = <<>> /\ i = 0 /\ ts = <<>> /\ dn = <<>>
PickJ == /\ phase = 0 /\ phase' = 1 /\ j' \in 1..Sample /\ UNCHANGED <<P, i, ts, dn>>
Build == /\ phase = 1 /\ phase' = 2 /\ j' = j
         /\ LET drawn == Draw([m \in 1..GG |-> m - 1], N, j, 1)
                asc == SortIds({drawn[m] : m \in 1..N})
            IN /\ GeneralPosition(Points(drawn))
               /\ \E tie \in 0..2 :
                    P' = SortX(Points(IF tie = 0 THEN asc ELSE IF tie = 1 THEN Reverse(asc) ELSE drawn))
         /\ i' = 0 /\ ts' = <<<<N, N + 1, N + 2>>>> /\ dn' = <<FALSE>>
Insert == /\ phase = 2 /\ i < NPts /\ i' = i + 1 /\ UNCHANGED <<phase, j, P>>
          /\ LET s == Scan(i, ts, dn, Len(ts), 1, <<>>)
                 es == Keep(DedupJ(s.es, 1))
             IN /\ ts' = s.ts \o [m \in 1..Len(es) |-> <<es[m][1], es[m][2], i>>]
                /\ dn' = s.dn \o [m \in 1..Len(es) |-> FALSE]
Finish == /\ phase = 2 /\ i = NPts /\ phase' = 3 /\ UNCHANGED <<j, P, i, dn>>
          /\ ts' = Strip(ts, Len(ts), 1)
Next == PickJ \/ Build \/ Insert \/ Finish
Spec == Init /\ [][Next]_vars

TypeOK == /\ phase \in 0..3
          /\ phase = 2 => (Len(ts) = Len(dn) /\ \A m \in 1..Len(ts) : \A q \in 1..3 : ts[m][q] \in 0..(NPts + 2))
Result == {Canonical(ts[m]) : m \in 1..Len(ts)}
\* THE INVARIANT: at termination the result is the Delaunay triangulation (clockwise, no repeats)
ResultOK == phase = 3 =>
  /\ PrintT(<<"BWDONE", j>>)
  /\ ((Cardinality(Result) = Len(ts) /\ Result = DTcw(P))
        \/ (PrintT(<<"MODELBAD", ToJson([pts |-> P, result |-> ts])>>) /\ FALSE))
=============================================================================
