------------------------------- MODULE Polygon -------------------------------
(* C04: exact semantics of a polygon SDF on the lattice.                        *)
(* A polygon is a sequence of distinct integer vertices <<x, y>> (doubled       *)
(* units: vertices are even, query points any integer = the half-lattice);      *)
(* edge i joins poly[i] to poly[i mod n + 1].  Coordinates stay within          *)
(* [-4..22], so cross^2 * len^2 < 2^31 (TLC integers are 32-bit).               *)
(*   Inside       the half-open upward/downward crossing rule (winding number)  *)
(*   InsideParity an independently written even-odd ray rule                    *)
(*   WindQuad     the winding number as the exact sum of signed quarter turns   *)
(*   OnBoundary, D2 = min over edges of the exact squared point-segment         *)
(*   distance <<num, den>>, Simple                                              *)
EXTENDS Integers, Sequences, FiniteSets, TLC

Sq(x) == x * x
Cross(o, a, b) == (a[1] - o[1]) * (b[2] - o[2]) - (a[2] - o[2]) * (b[1] - o[1])
Dot(o, a, b) == (a[1] - o[1]) * (b[1] - o[1]) + (a[2] - o[2]) * (b[2] - o[2])
Dist2(a, b) == Sq(a[1] - b[1]) + Sq(a[2] - b[2])
Sgn(x) == IF x > 0 THEN 1 ELSE IF x < 0 THEN 0 - 1 ELSE 0
A(poly, i) == poly[i]
B(poly, i) == poly[(i % Len(poly)) + 1]
RECURSIVE SumTo(_, _)
SumTo(f, n) == IF n = 0 THEN 0 ELSE f[n] + SumTo(f, n - 1)

\* ------------------------------------------------------------------ boundary
OnSeg(a, b, p) == /\ Cross(a, b, p) = 0
                  /\ p[1] >= (IF a[1] < b[1] THEN a[1] ELSE b[1]) /\ p[1] <= (IF a[1] < b[1] THEN b[1] ELSE a[1])
                  /\ p[2] >= (IF a[2] < b[2] THEN a[2] ELSE b[2]) /\ p[2] <= (IF a[2] < b[2] THEN b[2] ELSE a[2])
OnBoundary(poly, p) == \E i \in 1..Len(poly) : OnSeg(A(poly, i), B(poly, i), p)

\* ------------------------------------------------------------------ inside
\* (1) winding number by half-open crossings: an edge counts +1 when it crosses the level of p
\*     upwards (a.y <= p.y < b.y) with p strictly on its left, -1 downwards with p strictly on its right
WindCross(poly, p) ==
  SumTo([i \in 1..Len(poly) |->
           LET a == A(poly, i)  b == B(poly, i)  c == Cross(a, b, p)
           IN IF a[2] <= p[2] THEN (IF b[2] > p[2] /\ c > 0 THEN 1 ELSE 0)
              ELSE (IF b[2] <= p[2] /\ c < 0 THEN 0 - 1 ELSE 0)], Len(poly))
Inside(poly, p) == WindCross(poly, p) # 0
\* (2) even-odd rule: edges whose end points are on different sides of the level of p (one <=, one >)
\*     and whose intersection with that level lies strictly to the right of p
InsideParity(poly, p) ==
  Cardinality({i \in 1..Len(poly) :
      LET a == A(poly, i)  b == B(poly, i)
      IN /\ (a[2] <= p[2]) # (b[2] <= p[2])
         /\ ((b[1] - a[1]) * (p[2] - a[2]) - (p[1] - a[1]) * (b[2] - a[2])) * Sgn(b[2] - a[2]) > 0}) % 2 = 1
\* (3) winding number as the sum of signed quarter turns of the direction p -> vertex (p not on the boundary)
Quad(v) == IF v[1] > 0 /\ v[2] >= 0 THEN 0 ELSE IF v[1] <= 0 /\ v[2] > 0 THEN 1
           ELSE IF v[1] < 0 /\ v[2] <= 0 THEN 2 ELSE 3
WindQuad(poly, p) ==
  SumTo([i \in 1..Len(poly) |->
           LET a == <<A(poly, i)[1] - p[1], A(poly, i)[2] - p[2]>>
               b == <<B(poly, i)[1] - p[1], B(poly, i)[2] - p[2]>>
               dq == (Quad(b) - Quad(a) + 4) % 4
           IN IF dq = 0 THEN 0 ELSE IF dq = 1 THEN 1 ELSE IF dq = 3 THEN 0 - 1
              ELSE 2 * Sgn(a[1] * b[2] - a[2] * b[1])], Len(poly)) \div 4

\* ------------------------------------------------------------------ distance
\* squared distance from p to the segment a-b as a rational <<num, den>>, den > 0
D2Seg(a, b, p) ==
  LET L == Dist2(a, b)  t == Dot(a, b, p)
  IN IF t <= 0 THEN <<Dist2(p, a), 1>> ELSE IF t >= L THEN <<Dist2(p, b), 1>> ELSE <<Sq(Cross(a, b, p)), L>>
RatLess(x, y) == x[1] * y[2] < y[1] * x[2]
RatEq(x, y) == x[1] * y[2] = y[1] * x[2]
RECURSIVE D2To(_, _, _)
D2To(poly, p, n) == IF n = 1 THEN D2Seg(A(poly, 1), B(poly, 1), p)
                    ELSE LET r == D2To(poly, p, n - 1)  s == D2Seg(A(poly, n), B(poly, n), p)
                         IN IF RatLess(s, r) THEN s ELSE r
D2(poly, p) == D2To(poly, p, Len(poly))

\* ------------------------------------------------------------------ simplicity
\* closed segments a-b and c-d have a common point
SegMeet(a, b, c, d) ==
  LET o1 == Sgn(Cross(a, b, c))  o2 == Sgn(Cross(a, b, d))  o3 == Sgn(Cross(c, d, a))  o4 == Sgn(Cross(c, d, b))
  IN \/ (o1 # o2 /\ o3 # o4)
     \/ OnSeg(a, b, c) \/ OnSeg(a, b, d) \/ OnSeg(c, d, a) \/ OnSeg(c, d, b)
\* consecutive edges a-b, b-c fold back onto each other
FoldBack(a, b, c) == Cross(a, b, c) = 0 /\ Dot(b, a, c) > 0
Area2(poly) == SumTo([i \in 1..Len(poly) |-> A(poly, i)[1] * B(poly, i)[2] - B(poly, i)[1] * A(poly, i)[2]], Len(poly))
Simple(poly) ==
  LET n == Len(poly) IN
  /\ n >= 3
  /\ \A i, k \in 1..n : i < k => poly[i] # poly[k]
  /\ \A i \in 1..n : ~FoldBack(A(poly, i), B(poly, i), B(poly, (i % n) + 1))
  /\ \A i, k \in 1..n : (i < k /\ k # i + 1 /\ ~(i = 1 /\ k = n)) =>
        ~SegMeet(A(poly, i), B(poly, i), A(poly, k), B(poly, k))
  /\ Area2(poly) # 0
=============================================================================
