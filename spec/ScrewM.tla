------------------------------- MODULE ScrewM -------------------------------
(* Lattice machine for Screw.tla: every point (k, zq, rho2) of the window x     *)
(* starts in {1, -1, 2, -2} (encoded 1..4: cfg files have no negative numbers). *)
EXTENDS Screw, TLC, Json
CONSTANTS ZMax, Emit
VARIABLES phase, si, k, zq, rho2
vars == <<phase, si, k, zq, rho2>>
StartsOf(i) == IF i = 1 THEN 1 ELSE IF i = 2 THEN -1 ELSE IF i = 3 THEN 2 ELSE -2
S == StartsOf(si)
Init == phase = 0 /\ si = 1 /\ k = 0 /\ zq = 0 /\ rho2 = 5
PickA == phase = 0 /\ phase' = 1 /\ si' \in 1..4 /\ k' \in 0..7 /\ zq' = zq /\ rho2' = rho2
PickB == phase = 1 /\ phase' = 2 /\ si' = si /\ k' = k /\ zq' \in (-ZMax)..ZMax /\ rho2' \in {3, 5, 7}
Next == PickA \/ PickB
Spec == Init /\ [][Next]_vars
Case == [s |-> S, k |-> k, zq |-> zq, rho2 |-> rho2]
ScrewOK == phase = 2 =>
  /\ ((/\ HelixInvariant(S, k, zq, rho2) /\ Periodic(S, k, zq, rho2) /\ FullTurn(S, k, zq, rho2) /\ Handed(S))
        \/ (PrintT(<<"MODELBAD", ToJson(Case)>>) /\ FALSE))
  /\ (Emit => PrintT(<<"VEC", ToJson(Case)>>))
=============================================================================
