------------------------------- MODULE ExportM -------------------------------
(* Case machine for Export.tla; the state IS the case.                            *)
(*   Fam = "tri"  lists of 0..NMax triangles whose vertices come from a small set  *)
(*                of NP points (duplicates, shared vertices, degenerate triangles) *)
(*   Fam = "seg"  lists of 0..NMax segments over a (2G+1) x (2G+1) grid of         *)
(*                quarter-integer points with negative coordinates                 *)
(* Sample = 0: exhaustive; otherwise LCG-drawn longer lists.                       *)
EXTENDS Export, Json
CONSTANTS Fam, NMax, NP, G, Sample, Seed, Emit
VARIABLES phase, j, tris, segs
vars == <<phase, j, tris, segs>>

\* the point set for triangles: quarter-integers, negative, large, shared coordinates
Pts == <<<<0, 0, 0>>, <<4, 0, 0>>, <<0, 4, 0>>, <<0 - 3, 1, 10>>, <<12000, 0, 0>>, <<20000, 0, 0>>, <<4, 0, 1>>,
        <<4000, 0 - 8001, 2>>, <<1, 1, 1>>, <<0, 0, 0 - 1>>, <<0 - 12000, 20000, 0 - 40000>>>>
R(x) == (75 * (x % 65537) + 74) % 65537
RECURSIVE Rn(_, _)
Rn(jj, i) == IF i = 0 THEN R(R(Seed * 31 + jj)) ELSE R(Rn(jj, i - 1) + i)
TriOf(a, b, c) == Pts[a] \o Pts[b] \o Pts[c]
GridC(r) == (r % ((2 * G) + 1)) - G

Init == phase = 0 /\ j = 0 /\ tris = <<>> /\ segs = <<>>
PickJ == /\ phase = 0 /\ phase' = 1 /\ UNCHANGED <<tris, segs>>
         /\ j' \in (IF Sample = 0 THEN 0..NMax ELSE 1..Sample)
PickCase ==
  /\ phase = 1 /\ phase' = 2 /\ j' = j
  /\ IF Fam = "tri"
     THEN /\ segs' = segs
          /\ IF Sample = 0
             THEN \E f \in [1..j -> (1..NP) \X (1..NP) \X (1..NP)] :
                    tris' = [i \in 1..j |-> TriOf(f[i][1], f[i][2], f[i][3])]
             ELSE tris' = [i \in 1..(NMax + 1 + (Rn(j, 1) % 6)) |->
                             TriOf(1 + (Rn(j, 3 * i) % Len(Pts)), 1 + (Rn(j, (3 * i) + 1) % Len(Pts)), 1 + (Rn(j, (3 * i) + 2) % Len(Pts)))]
     ELSE /\ tris' = tris
          /\ IF Sample = 0
             THEN \E f \in [1..j -> ((0 - G)..G) \X ((0 - G)..G) \X ((0 - G)..G) \X ((0 - G)..G)] :
                    segs' = [i \in 1..j |-> <<f[i][1], f[i][2], f[i][3], f[i][4]>>]
             ELSE segs' = [i \in 1..(NMax + 1 + (Rn(j, 1) % 6)) |->
                             <<GridC(Rn(j, 4 * i)) * (1 + (Rn(j, 2) % 40)), GridC(Rn(j, (4 * i) + 1)), GridC(Rn(j, (4 * i) + 2)), GridC(Rn(j, (4 * i) + 3)) * 1001>>]
Next == PickJ \/ PickCase
Spec == Init /\ [][Next]_vars

Case == IF Fam = "tri" THEN [fam |-> "tri", tris |-> tris] ELSE [fam |-> "seg", segs |-> segs]
CaseOK == phase = 2 =>
  LET ok == IF Fam = "tri"
            THEN Mesh3MFOK(Mesh3MF(tris), tris)
            ELSE /\ Len(DXF(segs)) = Len(segs)
                 /\ OnCanvas(SVG(segs)) /\ Touches(SVG(segs)) /\ Len(SVG(segs).lines) = Len(segs)
  IN /\ (ok \/ (PrintT(<<"MODELBAD", ToJson(Case)>>) /\ FALSE))
     /\ (Emit => PrintT(<<"VEC", ToJson(Case)>>))
=============================================================================
