------------------------------- MODULE Threads -------------------------------
(* C18 - screw thread STANDARDS as data, written independently of the code,     *)
(* and the designation grammar of sdf.ThreadLookup names.                        *)
(*                                                                              *)
(* Lengths are exact rationals expressed as integers in fixed units:            *)
(*   metric  radius in 1/2000 mm,   pitch in 1/1000 mm                          *)
(*   inch    radius in 1/16000 inch, pitch as "threads per two inches" (so that *)
(*           11.5 TPI is the integer 23); pitch = 2 / tpi2 inch                 *)
(* ToMM multiplies a length by 127/5 (25.4) and is the identity on mm values.   *)
EXTENDS Integers, Sequences, FiniteSets, TLC

\* ---------------------------------------------------------------- ISO 261 / 262
\* <<diameter in 1/10 mm, coarse pitch in 1/100 mm, set of fine pitches in 1/100 mm>>
ISO == <<
  <<10, 25, {20}>>,        <<11, 25, {20}>>,        <<12, 25, {20}>>,        <<14, 30, {20}>>,
  <<16, 35, {20}>>,        <<18, 35, {20}>>,        <<20, 40, {25}>>,        <<22, 45, {25}>>,
  <<25, 45, {35}>>,        <<30, 50, {35}>>,        <<35, 60, {35}>>,        <<40, 70, {50}>>,
  <<45, 75, {50}>>,        <<50, 80, {50}>>,        <<60, 100, {75}>>,       <<70, 100, {75}>>,
  <<80, 125, {100, 75}>>,  <<100, 150, {125, 100, 75}>>,  <<120, 175, {150, 125, 100}>>,
  <<140, 200, {150, 125, 100}>>,  <<160, 200, {150, 100}>>,  <<180, 250, {200, 150, 100}>>,
  <<200, 250, {200, 150, 100}>>,  <<220, 250, {200, 150, 100}>>,  <<240, 300, {200, 150, 100}>>,
  <<270, 300, {200, 150, 100}>>,  <<300, 350, {300, 200, 150, 100}>>,  <<330, 350, {300, 200, 150}>>,
  <<360, 400, {300, 200, 150}>>,  <<390, 400, {300, 200, 150}>>,  <<420, 450, {400, 300, 200, 150}>>,
  <<450, 450, {400, 300, 200, 150}>>,  <<480, 500, {400, 300, 200, 150}>>,  <<520, 500, {400, 300, 200, 150}>>,
  <<560, 550, {400, 300, 200, 150}>>,  <<600, 550, {400, 300, 200, 150}>>,  <<640, 600, {400, 300, 200, 150}>> >>
IsoPitches == {20, 25, 30, 35, 40, 45, 50, 60, 70, 75, 80, 100, 125, 150, 175, 200, 250, 300, 350, 400, 450, 500, 550, 600}
IsoIdx(d10) == CHOOSE i \in 1..Len(ISO) : ISO[i][1] = d10
IsoDiams == {ISO[i][1] : i \in 1..Len(ISO)}

\* ---------------------------------------------------------------- Unified (ASME B1.1)
\* number sizes: diameter = 0.060 + 0.013 n inch;  <<n, tpi>>
UNCnum == << <<1, 64>>, <<2, 56>>, <<3, 48>>, <<4, 40>>, <<5, 40>>, <<6, 32>>, <<8, 32>>, <<10, 24>>, <<12, 24>> >>
UNFnum == << <<0, 80>>, <<1, 72>>, <<2, 64>>, <<3, 56>>, <<4, 48>>, <<5, 44>>, <<6, 40>>, <<8, 36>>, <<10, 32>>, <<12, 28>> >>
\* fractional sizes: <<diameter in 1/16 inch, threads per two inches>>
UNCfrac == << <<4, 40>>, <<5, 36>>, <<6, 32>>, <<7, 28>>, <<8, 26>>, <<9, 24>>, <<10, 22>>, <<12, 20>>, <<14, 18>>,
              <<16, 16>>, <<18, 14>>, <<20, 14>>, <<22, 12>>, <<24, 12>>, <<28, 10>>, <<32, 9>> >>
UNFfrac == << <<4, 56>>, <<5, 48>>, <<6, 48>>, <<7, 40>>, <<8, 40>>, <<9, 36>>, <<10, 36>>, <<12, 32>>, <<14, 28>>,
              <<16, 24>>, <<18, 24>>, <<20, 24>>, <<22, 24>>, <<24, 24>> >>
NumTpis == {80, 72, 64, 56, 48, 44, 40, 36, 32, 28, 24, 20}

\* ---------------------------------------------------------------- NPT (ASME B1.20.1)
\* <<nominal size in 1/16 inch, outside diameter in 1/10000 inch, threads per two inches>>; taper 1:32 on the
\* half angle (1:16 on the diameter): cot(taper) = 32
NPT == << <<1, 3125, 54>>, <<2, 4050, 54>>, <<4, 5400, 36>>, <<6, 6750, 36>>, <<8, 8400, 28>>, <<12, 10500, 28>>,
          <<16, 13150, 23>>, <<20, 16600, 23>>, <<24, 19000, 23>>, <<32, 23750, 23>>, <<40, 28750, 16>>,
          <<48, 35000, 16>>, <<56, 40000, 16>>, <<64, 45000, 16>>, <<80, 55630, 16>>, <<96, 66250, 16>> >>
NptCot == 32

Lookup(T, k) == LET S == {i \in 1..Len(T) : T[i][1] = k} IN IF S = {} THEN 0 ELSE T[CHOOSE i \in S : TRUE][2]
NptRow(k) == LET S == {i \in 1..Len(NPT) : NPT[i][1] = k} IN IF S = {} THEN <<k, 0, 0>> ELSE NPT[CHOOSE i \in S : TRUE]

\* ---------------------------------------------------------------- designation grammar
\*   M<d>x<P>               d, P decimal numbers in mm
\*   unc_<n>_<tpi>          number size n, unf_ likewise
\*   unc_<size>             fractional size  a/b | w | w_a/b
\*   npt_<size>
Digits(n) == ToString(n)
\* decimal rendering of v / den (den = 10 or 100) without trailing zeros
Dec(v, den) ==
  LET w == v \div den
      f == v % den
  IN IF f = 0 THEN Digits(w)
     ELSE IF den = 10 THEN Digits(w) \o "." \o Digits(f)
     ELSE IF f % 10 = 0 THEN Digits(w) \o "." \o Digits(f \div 10)
     ELSE IF f < 10 THEN Digits(w) \o ".0" \o Digits(f)
     ELSE Digits(w) \o "." \o Digits(f)
\* s16 sixteenths of an inch -> "a/b", "w", "w_a/b"
Frac(n) == IF n % 8 = 0 THEN Digits(n \div 8) \o "/2"
           ELSE IF n % 4 = 0 THEN Digits(n \div 4) \o "/4"
           ELSE IF n % 2 = 0 THEN Digits(n \div 2) \o "/8"
           ELSE Digits(n) \o "/16"
Size(s16) == LET w == s16 \div 16
                 f == s16 % 16
             IN IF f = 0 THEN Digits(w) ELSE IF w = 0 THEN Frac(f) ELSE Digits(w) \o "_" \o Frac(f)

Fams == {"M", "uncn", "unfn", "uncf", "unff", "npt"}
NameOf(fam, a, b) ==
  CASE fam = "M"    -> "M" \o Dec(a, 10) \o "x" \o Dec(b, 100)
    [] fam = "uncn" -> "unc_" \o Digits(a) \o "_" \o Digits(b)
    [] fam = "unfn" -> "unf_" \o Digits(a) \o "_" \o Digits(b)
    [] fam = "uncf" -> "unc_" \o Size(a)
    [] fam = "unff" -> "unf_" \o Size(a)
    [] fam = "npt"  -> "npt_" \o Size(a)

Metric(fam) == fam = "M"
Units(fam) == IF Metric(fam) THEN "mm" ELSE "inch"

\* expected radius (1/2000 mm | 1/16000 inch) from the DESIGNATION (and the NPT table: the nominal pipe size
\* is not the thread diameter)
ER(fam, a, b) ==
  CASE fam = "M" -> a * 100
    [] fam \in {"uncn", "unfn"} -> (60 + 13 * a) * 8
    [] fam \in {"uncf", "unff"} -> 500 * a
    [] fam = "npt" -> (NptRow(a)[2] * 4) \div 5
\* expected pitch (1/1000 mm | threads per two inches); 0 = neither the designation nor the standard determines it
EP(fam, a, b) ==
  CASE fam = "M" -> b * 10
    [] fam \in {"uncn", "unfn"} -> 2 * b
    [] fam = "uncf" -> Lookup(UNCfrac, a)
    [] fam = "unff" -> Lookup(UNFfrac, a)
    [] fam = "npt" -> NptRow(a)[3]
ET(fam) == IF fam = "npt" THEN NptCot ELSE 0
Std(fam, a, b) ==
  CASE fam = "M" -> (IF a \notin IsoDiams THEN "none"
                     ELSE IF ISO[IsoIdx(a)][2] = b THEN "coarse"
                     ELSE IF b \in ISO[IsoIdx(a)][3] THEN "fine" ELSE "none")
    [] fam = "uncn" -> (IF Lookup(UNCnum, a) = b THEN "std" ELSE "none")
    [] fam = "unfn" -> (IF Lookup(UNFnum, a) = b THEN "std" ELSE "none")
    [] fam = "uncf" -> (IF Lookup(UNCfrac, a) # 0 THEN "std" ELSE "none")
    [] fam = "unff" -> (IF Lookup(UNFfrac, a) # 0 THEN "std" ELSE "none")
    [] fam = "npt" -> (IF NptRow(a)[2] # 0 THEN "std" ELSE "none")

\* ---------------------------------------------------------------- unit conversion
\* a length as a rational <<num, den>>; ToMM multiplies by 127/5 once, whatever the number of applications
ToMM(units, q) == IF units = "mm" THEN q ELSE <<127 * q[1], 5 * q[2]>>
UnitsAfter(units) == "mm"
RatEq(p, q) == p[1] * q[2] = q[1] * p[2]

\* ---------------------------------------------------------------- internal consistency of the data
Rows(T) == 1..Len(T)
DataOK ==
  /\ \A i \in Rows(ISO) : \A f \in ISO[i][3] : f < ISO[i][2]                       \* fine < coarse
  /\ \A i \in Rows(ISO) : ISO[i][2] \in IsoPitches /\ ISO[i][3] \subseteq IsoPitches
  /\ \A i, j \in Rows(ISO) : i < j => (ISO[i][1] < ISO[j][1] /\ ISO[i][2] <= ISO[j][2])   \* coarse pitch monotone
  /\ \A T \in {UNCnum, UNFnum, UNCfrac, UNFfrac} :
       \A i, j \in Rows(T) : i < j => (T[i][1] < T[j][1] /\ T[i][2] >= T[j][2])    \* TPI falls with size
  /\ \A i \in Rows(UNCnum) : Lookup(UNFnum, UNCnum[i][1]) > UNCnum[i][2]           \* fine has more threads
  /\ \A i \in Rows(UNFfrac) : Lookup(UNCfrac, UNFfrac[i][1]) \in 1..(UNFfrac[i][2] - 1)
  /\ \A i \in Rows(UNCnum) : UNCnum[i][2] \in NumTpis
  /\ \A i \in Rows(UNFnum) : UNFnum[i][2] \in NumTpis
  /\ (60 + 13 * 12) * 8 < 500 * 4                                                  \* #12 is smaller than 1/4
  /\ \A i, j \in Rows(NPT) : i < j => (NPT[i][1] < NPT[j][1] /\ NPT[i][2] < NPT[j][2] /\ NPT[i][3] >= NPT[j][3])
  /\ \A i \in Rows(NPT) : (NPT[i][2] * 4) % 5 = 0
  \* ToMM is idempotent and scales by 25.4 = 127/5
  /\ \A u \in {"mm", "inch"} : \A n \in {1, 3, 500} :
       /\ ToMM(UnitsAfter(u), ToMM(u, <<n, 16>>)) = ToMM(u, <<n, 16>>)
       /\ (u = "inch" => RatEq(ToMM(u, <<n, 16>>), <<254 * n, 160>>))
=============================================================================
