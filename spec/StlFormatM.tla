------------------------------ MODULE StlFormatM ------------------------------
(* Case machine for StlFormat.tla: the state IS the case, a list of triangles with  *)
(* integer coordinates k and a common binary scale s (value = k * 2^s).             *)
(*   Fam = "small"  n in 0..3 triangles, coordinates drawn by LCG from -KMax..KMax, *)
(*                  scales from Scales (huge, tiny, subnormal-in-float32, unit)      *)
(*   Fam = "sizes"  n in Sizes (0, 1, 255, 256, 257, 1000: the Triangle3Buffer and  *)
(*                  bufio boundaries), scale 0                                       *)
(* Invariant: Decode(Encode(img)) = img, WellFormed, ByteLen = 84 + 50 n.           *)
EXTENDS StlFormat, Json
CONSTANTS Fam, Sample, Seed, KMax, Emit
VARIABLES phase, j, s, tris
vars == <<phase, j, s, tris>>
Scales == <<0, 0, 1, 100, 104, 0 - 2, 0 - 20, 0 - 126, 0 - 140, 0 - 149>>
Sizes == <<0, 1, 2, 255, 256, 257, 1000, 1023, 1024, 1025, 2048, 4096>>  \* also round multiples of plausible chunk sizes

R(x) == (75 * (x % 65537) + 74) % 65537
RECURSIVE Rn(_, _)
Rn(jj, i) == IF i = 0 THEN R(R(Seed * 31 + jj)) ELSE R(Rn(jj, i - 1) + i)
\* a cheap per-coordinate hash for the large cases (no deep recursion)
H(jj, i, c) == LET x == R(R((jj * 1009) + Seed) + (i * 9) + c) IN R(((x % 4093) * (x % 4099)) % 65537)
Coord(r) == (r % ((2 * KMax) + 1)) - KMax

Init == phase = 0 /\ j = 0 /\ s = 0 /\ tris = <<>>
PickJ == /\ phase = 0 /\ phase' = 1 /\ s' = s /\ tris' = tris
         /\ j' \in 1..(IF Fam = "sizes" THEN Len(Sizes) ELSE Sample)
PickCase ==
  /\ phase = 1 /\ phase' = 2 /\ j' = j
  /\ IF Fam = "sizes"
     THEN /\ s' = 0
          /\ tris' = [i \in 1..Sizes[j] |-> [c \in 1..9 |-> Coord(H(j, i, c))]]
     ELSE /\ s' = Scales[1 + (Rn(j, 1) % Len(Scales))]
          /\ tris' = [i \in 1..(Rn(j, 2) % 4) |-> [c \in 1..9 |-> Coord(Rn(j, 2 + (9 * i) + c))]]
Next == PickJ \/ PickCase
Spec == Init /\ [][Next]_vars

Nrm0 == [i \in 1..Len(tris) |-> <<<<0, 0>>, <<0, 0>>, <<0, 0>>>>]
CaseOK == phase = 2 =>
  LET img == Img(tris, s)
      f == Encode(img, Nrm0)
      ok == /\ \A i \in 1..Len(tris) : \A c \in 1..9 : F32Representable(tris[i][c], s)
            /\ WellFormed(f) /\ ByteLen(f) = HdrBytes + (RecBytes * Len(tris))
            /\ Decode(f) = img
  IN /\ (ok \/ (PrintT(<<"MODELBAD", ToJson([s |-> s, tris |-> tris])>>) /\ FALSE))
     /\ (Emit => PrintT(<<"VEC", ToJson([s |-> s, tris |-> tris])>>))
=============================================================================
