--------------------------- MODULE Lattice3Scan ---------------------------
(* Data flow of the uniform marching-cubes renderer (render/march3.go):        *)
(*   marchingCubes: for x in 0..nx-1: layer.Evaluate(x+1); for y, z: the 8      *)
(*   values l.Get(0|1, y|y+1, z|z+1) are paired with the 8 corner coordinates   *)
(*   layerYZ.Evaluate: swap val0/val1; fill val1 in batches of BatchSize via a  *)
(*   shifted output slice; Get(x,y,z) = (x = 0 ? val0 : val1)[y*(nz+1)+z]       *)
(* Values are symbolic: the lattice point whose field value the slot holds.    *)
(* The machine steps batch by batch and cell by cell; the invariant says every *)
(* cell handed to mcToTriangles pairs corner i with the value AT corner i.     *)
EXTENDS Integers, Sequences, FiniteSets, TLC

CONSTANTS NX, NY, NZ,      \* cells per axis
          BatchSize
VARIABLES x,               \* layer index being evaluated / marched
          pc,              \* "eval" | "march" | "done"
          val0, val1,      \* layer caches: sequences of lattice points (or <<>> = nil)
          outBase, nextIdx,\* Evaluate: offset of the shifted out slice; next point index to append
          batch,           \* points appended to eReq.p so far (their layer indices)
          cell,            \* march: index of the next cell (y*NZ + z)
          handed           \* the (corners, values) pair last handed to mcToTriangles
vars == <<x, pc, val0, val1, outBase, nextIdx, batch, cell, handed>>

N == (NY + 1) * (NZ + 1)
\* the point with index idx in layer lx (the loop order: y outer, z inner)
Pt(lx, idx) == <<lx, idx \div (NZ + 1), idx % (NZ + 1)>>
Nil == <<>>
Unwritten == <<-1, -1, -1>>

Init == /\ x = 0 /\ pc = "eval" /\ val0 = Nil /\ val1 = Nil
        /\ outBase = 0 /\ nextIdx = 0 /\ batch = <<>> /\ cell = 0 /\ handed = <<>>

\* entering Evaluate(x): swap, allocate
BeginEval == /\ pc = "eval" /\ nextIdx = 0 /\ batch = <<>> /\ outBase = 0
             /\ val0' = val1
             /\ val1' = IF val0 = Nil THEN [i \in 1..N |-> Unwritten] ELSE val0
             /\ pc' = "fill"
             /\ UNCHANGED <<x, outBase, nextIdx, batch, cell, handed>>
\* append one point; when the batch is full, "send" it: the worker writes out[i] = F(p[i])
\* through the slice that starts at outBase, then the slice is shifted by BatchSize
Store(base, b) == [i \in 1..N |-> IF i - 1 >= base /\ i - 1 < base + Len(b) THEN Pt(x, b[i - base]) ELSE val1[i]]
AppendPoint == /\ pc = "fill" /\ nextIdx < N
          /\ (LET b == Append(batch, nextIdx)
              IN IF Len(b) = BatchSize
                 THEN (val1' = Store(outBase, b) /\ outBase' = outBase + BatchSize /\ batch' = <<>>)
                 ELSE (val1' = val1 /\ outBase' = outBase /\ batch' = b))
          /\ nextIdx' = nextIdx + 1
          /\ UNCHANGED <<x, pc, val0, cell, handed>>
\* send the remainder, wait
EndEval == /\ pc = "fill" /\ nextIdx = N
           /\ val1' = IF batch # <<>> THEN Store(outBase, batch) ELSE val1
           /\ batch' = <<>> /\ outBase' = 0 /\ nextIdx' = 0
           /\ (IF x = 0 THEN (pc' = "eval" /\ x' = 1 /\ cell' = 0)     \* marchingCubes: Evaluate(0), then x loop
               ELSE (pc' = "march" /\ x' = x /\ cell' = 0))
           /\ UNCHANGED <<val0, handed>>
Get(lx, y, z) == IF lx = 0 THEN val0[y * (NZ + 1) + z + 1] ELSE val1[y * (NZ + 1) + z + 1]
\* one cell of the layer pair (x-1, x)
MarchCell == /\ pc = "march" /\ cell < NY * NZ
             /\ (LET y == cell \div NZ
                    z == cell % NZ
                    x0 == x - 1
                    corners == << <<x0, y, z>>, <<x0 + 1, y, z>>, <<x0 + 1, y + 1, z>>, <<x0, y + 1, z>>,
                                  <<x0, y, z + 1>>, <<x0 + 1, y, z + 1>>, <<x0 + 1, y + 1, z + 1>>, <<x0, y + 1, z + 1>> >>
                    values == << Get(0, y, z), Get(1, y, z), Get(1, y + 1, z), Get(0, y + 1, z),
                                 Get(0, y, z + 1), Get(1, y, z + 1), Get(1, y + 1, z + 1), Get(0, y + 1, z + 1) >>
                 IN handed' = <<corners, values>>)
             /\ cell' = cell + 1
             /\ UNCHANGED <<x, pc, val0, val1, outBase, nextIdx, batch>>
NextLayer == /\ pc = "march" /\ cell = NY * NZ
             /\ (IF x = NX THEN (pc' = "done" /\ x' = x) ELSE (pc' = "eval" /\ x' = x + 1))
             /\ cell' = 0
             /\ UNCHANGED <<val0, val1, outBase, nextIdx, batch, handed>>
Next == BeginEval \/ AppendPoint \/ EndEval \/ MarchCell \/ NextLayer
Spec == Init /\ [][Next]_vars /\ WF_vars(Next)

\* every cell handed to marching cubes pairs each corner with the value at that corner
PairingOK == handed # <<>> => handed[1] = handed[2]
\* when a layer has been evaluated every slot was written exactly with its own point
LayerComplete == pc = "march" => /\ \A i \in 1..N : val1[i] = Pt(x, i - 1)
                                 /\ \A i \in 1..N : val0[i] = Pt(x - 1, i - 1)
Terminates == <>(pc = "done")
=============================================================================
