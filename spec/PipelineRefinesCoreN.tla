------------------------- MODULE PipelineRefinesCoreN -------------------------
(* Pipeline.tla with NP = 3 producers, the collector writer and no fault        *)
(* IMPLEMENTS PipeCoreN.tla (inductive invariant discharged by Apalache for      *)
(* unbounded thresholds, batch sizes and numbers of writes) under the refinement *)
(* mapping below; TLC checks Spec => Core!Spec on a bounded instance.            *)
EXTENDS Pipeline
ASSUME NP = 3
Core == INSTANCE PipeCoreN WITH
          pc <- IF pc = "create" THEN "render" ELSE pc,
          offerOn <- offer # <<>>,
          offerLo <- IF offer = <<>> THEN 0 ELSE offer[1],
          offerLen <- IF offer = <<>> THEN 0 ELSE offer[2],
          curOn <- cur # <<>>,
          curLo <- IF cur = <<>> THEN 0 ELSE cur[1],
          curLen <- IF cur = <<>> THEN 0 ELSE cur[2],
          curI <- IF cur = <<>> THEN 0 ELSE cur[4],
          wpc <- IF wpc = "none" THEN "run" ELSE wpc
FiniteBatch == 0..64
CoreSpec == Core!Spec
CoreIndInv == Core!IndInv
=============================================================================
