------------------------------ MODULE DelaunayM ------------------------------
(* Case machine for Delaunay.tla: the state is a point set in general position *)
(* on the G x G grid, given in one of several input orders.                    *)
(*   Sample = 0  every N-subset of the grid (level 1 picks the smallest grid   *)
(*               id, level 2 the rest), each in Orders input orders            *)
(*   Sample > 0  Sample draws with a small linear congruential generator       *)
(* Sets that are not in general position are not cases (no successor state).   *)
EXTENDS Delaunay, Json, TLC
CONSTANTS G, N, Sample, Seed, Orders, Emit
VARIABLES phase, j, pts
vars == <<phase, j, pts>>
GG == G * G
PointOf(g) == <<g \div G, g % G>>
R(x) == (75 * (x % 65537) + 74) % 65537
RECURSIVE Rn(_, _)
Rn(jj, i) == IF i = 0 THEN R(R(Seed * 31 + jj)) ELSE R(Rn(jj, i - 1) + i)

\* strictly increasing id sequences of length k within lo..hi
RECURSIVE IncSeqs(_, _, _)
IncSeqs(lo, hi, k) ==
  IF k = 0 THEN {<<>>}
  ELSE UNION {{<<a>> \o s : s \in IncSeqs(a + 1, hi, k - 1)} : a \in lo..hi}
RemoveAt(s, k) == [i \in 1..(Len(s) - 1) |-> IF i < k THEN s[i] ELSE s[i + 1]]
\* pseudo-random order of s driven by r
RECURSIVE Shuffle(_, _)
Shuffle(s, r) == IF Len(s) <= 1 THEN s
                 ELSE LET k == 1 + (R(r) % Len(s))
                      IN <<s[k]>> \o Shuffle(RemoveAt(s, k), R(r) + 1)
Reverse(s) == [i \in 1..Len(s) |-> s[Len(s) + 1 - i]]
RECURSIVE KeyTo(_, _)
KeyTo(s, i) == IF i = 0 THEN 7 ELSE (KeyTo(s, i - 1) * 37 + s[i]) % 65521
Key(s) == KeyTo(s, Len(s))
\* input order o of the ascending id sequence s (ascending ids = sorted by x, then y)
Ordered(s, o) == IF o = 0 THEN s ELSE IF o = 1 THEN Reverse(s) ELSE Shuffle(s, Seed * 131 + o * 7919 + Key(s))
Points(s) == [i \in 1..Len(s) |-> PointOf(s[i])]
\* N distinct grid ids drawn without replacement
RECURSIVE Draw(_, _, _, _)
Draw(avail, k, jj, i) == IF k = 0 THEN <<>>
                         ELSE LET m == 1 + (Rn(jj, i) % Len(avail))
                              IN <<avail[m]>> \o Draw(RemoveAt(avail, m), k - 1, jj, i + 1)
AllIds == [i \in 1..GG |-> i - 1]

Init == phase = 0 /\ j = 0 /\ pts = <<>>
PickJ == /\ phase = 0 /\ phase' = 1 /\ pts' = pts
         /\ j' \in (IF Sample = 0 THEN 0..(GG - N) ELSE 1..Sample)
Build ==
  /\ phase = 1 /\ phase' = 2 /\ j' = j
  /\ IF Sample = 0
     THEN \E s \in IncSeqs(j + 1, GG - 1, N - 1), o \in 0..(Orders - 1) :
            /\ GeneralPosition(Points(<<j>> \o s))
            /\ pts' = Points(Ordered(<<j>> \o s, o))
     ELSE LET s == Draw(AllIds, N, j, 1)
          IN /\ GeneralPosition(Points(s))
             /\ pts' = Points(s)
Next == PickJ \/ Build
Spec == Init /\ [][Next]_vars

CaseOK == phase = 2 =>
  /\ (DTOK(pts) \/ (PrintT(<<"MODELBAD", ToJson([pts |-> pts])>>) /\ FALSE))
  /\ (Emit => PrintT(<<"VEC", ToJson([pts |-> pts])>>))
=============================================================================
