------------------------------ MODULE StlFormat ------------------------------
(* C13 - the binary STL format at TOKEN level and the two writers of render/stl.go *)
(*                                                                                 *)
(*   file  = [hdr |-> 80, count |-> u32, recs |-> Seq(record), tail |-> bytes]     *)
(*   record = <<n1..n3, v1..v9, attr>> : 12 float32 tokens + one u16 token           *)
(*   a float32 token is its bit pattern split in two 16-bit halves <<hi, lo>>       *)
(*                                                                                 *)
(* float32 rounding: F32Dy(k, s) is the IEEE-754 single image of the dyadic number *)
(* k * 2^s, computed here with integer arithmetic for |k| < 2^24 (exact, normal or *)
(* subnormal).  For inputs that need rounding the graph of F32 is DATA supplied by  *)
(* the harness (math/big, cross-checked by bit manipulation) - see StlTrace.        *)
EXTENDS Integers, Sequences, TLC

HdrBytes == 84
RecBytes == 50

RECURSIVE Pow2(_)
Pow2(n) == IF n <= 0 THEN 1 ELSE 2 * Pow2(n - 1)
RECURSIVE Log2(_)
Log2(a) == IF a <= 1 THEN 0 ELSE 1 + Log2(a \div 2)
Abs(x) == IF x < 0 THEN -x ELSE x

\* IEEE-754 binary32 bit pattern of k * 2^s as <<hi16, lo16>>; defined when the value is
\* representable (|k| < 2^24, result normal, or subnormal with an integral significand)
F32Dy(k, s) ==
  IF k = 0 THEN <<0, 0>>
  ELSE LET a == Abs(k)
           e == Log2(a)
           sign == IF k < 0 THEN 32768 ELSE 0
           E == 127 + e + s
       IN IF E >= 1
          THEN LET mant == (a - Pow2(e)) * Pow2(23 - e)
               IN <<sign + (E * 128) + (mant \div 65536), mant % 65536>>
          ELSE LET m == a * Pow2(s + 149)            \* subnormal: value / 2^-149
               IN <<sign + (m \div 65536), m % 65536>>
F32Representable(k, s) ==
  k = 0 \/ (LET E == 127 + Log2(Abs(k)) + s IN Abs(k) < 16777216 /\ E <= 254 /\ (E >= 1 \/ s + 149 >= 0))

\* image of a triangle given as 9 integers with a common scale 2^s: 9 tokens
ImgTri(t, s) == [c \in 1..9 |-> F32Dy(t[c], s)]
Img(ts, s) == [i \in 1..Len(ts) |-> ImgTri(ts[i], s)]

\* ---- layout
Rec(nrm, img, attr) == [n |-> nrm, v |-> img, a |-> attr]
\* Encode: imgs = sequence of 9-token vertex images, nrms = sequence of 3-token normals
Encode(imgs, nrms) == [hdr |-> 80, count |-> Len(imgs),
                       recs |-> [i \in 1..Len(imgs) |-> Rec(nrms[i], imgs[i], 0)], tail |-> 0]
ByteLen(f) == f.hdr + 4 + (RecBytes * Len(f.recs)) + f.tail
WellFormed(f) == f.hdr = 80 /\ f.tail = 0 /\ f.count = Len(f.recs) /\ \A i \in 1..Len(f.recs) : f.recs[i].a = 0
\* Decode (loadSTLBinary, taken when ByteLen = 84 + 50*count): the vertex tokens in order
Decode(f) == [i \in 1..f.count |-> f.recs[i].v]

\* ---- exact normal test on integer triangles (direction is invariant under the common scale):
\* c = (b - a) x (c - a); nq = the file's normal scaled by Q and rounded
Cross(t) == LET ux == t[4] - t[1]   uy == t[5] - t[2]   uz == t[6] - t[3]
                vx == t[7] - t[1]   vy == t[8] - t[2]   vz == t[9] - t[3]
            IN <<(uy * vz) - (uz * vy), (uz * vx) - (ux * vz), (ux * vy) - (uy * vx)>>
Degenerate(t) == Cross(t) = <<0, 0, 0>>
Q == 1024
NormalOK(t, nq) ==
  LET c == Cross(t)
      l1 == Abs(c[1]) + Abs(c[2]) + Abs(c[3])
      x == <<(nq[2] * c[3]) - (nq[3] * c[2]), (nq[3] * c[1]) - (nq[1] * c[3]), (nq[1] * c[2]) - (nq[2] * c[1])>>
      len2 == (nq[1] * nq[1]) + (nq[2] * nq[2]) + (nq[3] * nq[3])
  IN /\ Abs(x[1]) <= l1 /\ Abs(x[2]) <= l1 /\ Abs(x[3]) <= l1            \* parallel (rounding of nq: 1/2 per component)
     /\ (nq[1] * c[1]) + (nq[2] * c[2]) + (nq[3] * c[3]) > 0             \* positively
     /\ Abs(len2 - (Q * Q)) <= (4 * Q)                                    \* unit length
=============================================================================
