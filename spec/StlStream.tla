------------------------------ MODULE StlStream ------------------------------
(* C13 - the streaming writer writeSTL (render/stl.go:176-244) as a machine, at   *)
(* cell level: one cell = the 84-byte header [count] or one 50-byte record [tri]. *)
(*   create (truncate) ; placeholder header (count 0) into the bufio buffer ;      *)
(*   for each batch received: one record per triangle, count++ ; (bufio flushes    *)
(*   whenever its buffer is full) ; at channel close: Flush, Seek(0), rewrite the  *)
(*   header with the real count directly on the file ; Close.                      *)
(* TLC explores every split of N triangles into batches and buffer capacities      *)
(* 1..Cap cells.  Invariant at the end: file = Encode(triangles), length 84+50 N.  *)
EXTENDS Integers, Sequences, TLC
CONSTANTS N, Cap
VARIABLES pc, file, pos, buf, count, sent, cap, batch
vars == <<pc, file, pos, buf, count, sent, cap, batch>>

Hdr(c) == [k |-> "hdr", x |-> c]
RecCell(i) == [k |-> "rec", x |-> i]
\* write cells w at position p of f (overwrite, extend at the end)
WriteAt(f, p, w) == [i \in 1..(IF p + Len(w) > Len(f) THEN p + Len(w) ELSE Len(f)) |->
                       IF i > p /\ i <= p + Len(w) THEN w[i - p] ELSE f[i]]

Init == /\ pc = "create" /\ file = <<Hdr(99), RecCell(99)>> /\ pos = 0 /\ buf = <<>> /\ count = 0 /\ sent = 0
        /\ cap \in 1..Cap /\ batch = 0
Create == /\ pc = "create" /\ pc' = "hdr0" /\ file' = <<>> /\ pos' = 0      \* os.Create truncates
          /\ UNCHANGED <<buf, count, sent, cap, batch>>
\* bufio.Writer.Write of one cell: flush first when the buffer is full
BufWrite(c) == IF Len(buf) >= cap
               THEN /\ file' = WriteAt(file, pos, buf) /\ pos' = pos + Len(buf) /\ buf' = <<c>>
               ELSE /\ buf' = Append(buf, c) /\ UNCHANGED <<file, pos>>
Hdr0 == /\ pc = "hdr0" /\ pc' = "recv" /\ BufWrite(Hdr(0)) /\ UNCHANGED <<count, sent, cap, batch>>
\* the renderer sends a batch of b >= 1 triangles (any split)
Recv == /\ pc = "recv" /\ sent < N /\ batch = 0
        /\ \E b \in 1..(N - sent) : batch' = b
        /\ UNCHANGED <<pc, file, pos, buf, count, sent, cap>>
WriteRec == /\ pc = "recv" /\ batch > 0
            /\ BufWrite(RecCell(sent + 1)) /\ sent' = sent + 1 /\ count' = count + 1 /\ batch' = batch - 1
            /\ UNCHANGED <<pc, cap>>
Eof == /\ pc = "recv" /\ sent = N /\ batch = 0 /\ pc' = "seek"        \* channel closed: buf.Flush()
       /\ file' = WriteAt(file, pos, buf) /\ pos' = pos + Len(buf) /\ buf' = <<>>
       /\ UNCHANGED <<count, sent, cap, batch>>
Seek0 == /\ pc = "seek" /\ pc' = "rewrite" /\ pos' = 0 /\ UNCHANGED <<file, buf, count, sent, cap, batch>>
Rewrite == /\ pc = "rewrite" /\ pc' = "done"                           \* binary.Write(f, hdr) unbuffered
           /\ file' = WriteAt(file, pos, <<Hdr(count)>>) /\ pos' = pos + 1
           /\ UNCHANGED <<buf, count, sent, cap, batch>>
Next == Create \/ Hdr0 \/ Recv \/ WriteRec \/ Eof \/ Seek0 \/ Rewrite
Spec == Init /\ [][Next]_vars /\ WF_vars(Next)

Expected == <<Hdr(N)>> \o [i \in 1..N |-> RecCell(i)]
StreamOK == pc = "done" => (file = Expected /\ buf = <<>>)
LengthOK == pc = "done" => (84 * 1) + (50 * (Len(file) - 1)) = 84 + (50 * N)
\* the placeholder header is on disk from the first flush on, and is never counted as a record
NoRecordLost == pc \in {"seek", "rewrite", "done"} => Len(file) = N + 1
Terminates == <>(pc = "done")
=============================================================================
