----------------------------- MODULE CSGMachine -----------------------------
(* Program-enumeration machine for CSG.tla (C01, C02, C03); the state IS the  *)
(* program (expression tree).                                                 *)
(*   Mode = "exh": every placed primitive (Sample = 0) or every Sample-th one  *)
(*                 (offset Seed) x every constructor applied once             *)
(*                 over a reduced parameter grid (all programs of depth <= 1  *)
(*                 over placed primitives, binaries with a second operand).   *)
(*   Mode = "rnd": Sample programs of depth <= Depth drawn with a small LCG   *)
(*                 from Seed (placed primitives are the leaves; shapes sit     *)
(*                 away from the origin, in negative quadrants, rotated,      *)
(*                 mirrored).                                                 *)
(* Invariant ProgOK states, for the program of the state, on the integer      *)
(* window two cells larger than its boxes:                                    *)
(*   bbox   BBcode (today's box arithmetic) encloses every certainly-negative *)
(*          lattice point                                              (C01)  *)
(*   exact  Val = Dist for exact chains                                (C03)  *)
(*   lip    |Val(p) - Val(q)| <= |p - q| for lattice neighbours of lip1        *)
(*          programs                                                   (C03)  *)
(* Flagged programs are printed as MODELBAD; every usable program is printed  *)
(* as VEC and replayed on the real constructors.                              *)
EXTENDS CSG, Json
CONSTANTS Dim, Mode, Depth, Sample, Seed, Emit, MaxPts, Clause
VARIABLES phase, j, e
vars == <<phase, j, e>>

N(op, a, k) == [op |-> op, a |-> a, k |-> k]
Nil == N("nil", <<>>, <<>>)

R(x) == (75 * (x % 65537) + 74) % 65537
RECURSIVE Rk(_, _)
Rk(s, i) == IF i = 0 THEN R(s) ELSE R(Rk(s, i - 1) + i)

\* ---------------------------------------------------------------- guards
MinSide(x) == LET b == BBcode(x)
                  n == Len(b) \div 2
              IN CHOOSE m \in {b[i + n] - b[i] : i \in 1..n} : \A i \in 1..n : m <= b[i + n] - b[i]
Off(x, o) == IF o >= 0 \/ MinSide(x) >= 2 * (-o) * U + 2 * U THEN o ELSE 1

\* ---------------------------------------------------------------- random programs
Dirs2 == <<<<1, 0>>, <<-1, 0>>, <<0, 1>>, <<0, -1>>, <<1, 1>>, <<-1, 1>>, <<1, -1>>, <<-1, -1>>, <<2, 1>>, <<-1, 2>>>>
Dirs3 == <<<<1, 0, 0>>, <<-1, 0, 0>>, <<0, 1, 0>>, <<0, -1, 0>>, <<0, 0, 1>>, <<0, 0, -1>>,
           <<1, 1, 0>>, <<0, -1, 1>>, <<1, 1, 1>>, <<-1, 1, -1>>>>
Steps == <<-4, -3, -2, 2, 3, 4, 5, 0>>
RCn == <<2, 4, 4, 1>>
Offs == <<1, 1, 2, -1, -1>>

RECURSIVE Gen2(_, _), Gen3(_, _)
Gen2(s, dep) ==
  LET r1 == Rk(s, 1)
      r2 == Rk(s, 2)
      r3 == Rk(s, 3)
      r4 == Rk(s, 4)
      r5 == Rk(s, 5)
      r6 == Rk(s, 6)
      r7 == Rk(s, 7)
  IN IF dep = 0
     THEN LET prim == IF r1 % 3 = 2 THEN N("circle", <<1 + (r2 % 3)>>, <<>>)
                      ELSE N("box2", <<1 + (r2 % 3), 1 + (r3 % 3)>>, <<>>)
          IN IF r4 % 4 = 0 THEN prim ELSE N("tr2", <<(r5 % 11) - 5, (r6 % 11) - 5>>, <<prim>>)
     ELSE LET o == r1 % 21
              c1 == IF o = 20 THEN Gen3(R(r7 + 7), dep - 1) ELSE Gen2(R(r7 + 7), dep - 1)
              c2 == Gen2(R(r7 + 4711), r6 % dep)
          IN CASE o \in {0, 1} -> N("tr2", <<(r2 % 11) - 5, (r3 % 11) - 5>>, <<c1>>)
               [] o = 2 -> N("rot2", <<1 + (r2 % 3)>>, <<c1>>)
               [] o = 3 -> N("mir2", <<1 + (r2 % 2)>>, <<c1>>)
               [] o = 4 -> N("scale2", <<2>>, <<c1>>)
               [] o \in {5, 6} -> N("offset2", <<Off(c1, Offs[1 + (r2 % 5)])>>, <<c1>>)
               [] o = 7 -> LET v == Dirs2[1 + (r2 % 10)] IN N("cut2", <<(r3 % 5) - 2, (r4 % 5) - 2, v[1], v[2]>>, <<c1>>)
               [] o = 8 -> N("elong2", <<r2 % 3, r3 % 3>>, <<c1>>)
               [] o \in {9, 10} -> N("array2", <<1 + (r2 % 3), 1 + (r3 % 2), Steps[1 + (r4 % 8)], Steps[1 + (r5 % 8)]>>, <<c1>>)
               [] o \in {11, 12, 13} -> N("rotcopy2", <<RCn[1 + (r2 % 4)]>>, <<c1>>)
               [] o \in {14, 15, 16} -> N("union2", <<>>, <<c1, c2>>)
               [] o \in {17, 18} -> N("diff2", <<>>, <<c1, c2>>)
               [] o = 19 -> N("inter2", <<>>, <<c1, c2>>)
               [] o = 20 -> N("slice2", <<(r2 % 3) - 1, (r3 % 3) - 1, (r4 % 3) - 1, 1 + (r5 % 3)>>, <<c1>>)
Gen3(s, dep) ==
  LET r1 == Rk(s, 1)
      r2 == Rk(s, 2)
      r3 == Rk(s, 3)
      r4 == Rk(s, 4)
      r5 == Rk(s, 5)
      r6 == Rk(s, 6)
      r7 == Rk(s, 7)
      r8 == Rk(s, 8)
  IN IF dep = 0
     THEN LET prim == IF r1 % 4 = 2 THEN N("sphere", <<1 + (r2 % 2)>>, <<>>)
                      ELSE IF r1 % 4 = 3 THEN N("cyl", <<1 + (r2 % 2), 1 + (r3 % 2)>>, <<>>)
                      ELSE N("box3", <<1 + (r2 % 2), 1 + (r3 % 2), 1 + (r8 % 2)>>, <<>>)
          IN IF r4 % 4 = 0 THEN prim ELSE N("tr3", <<(r5 % 7) - 3, (r6 % 7) - 3, (r7 % 5) - 2>>, <<prim>>)
     ELSE LET o == r1 % 26
              c1 == IF o >= 17 THEN Gen2(R(r7 + 7), dep - 1) ELSE Gen3(R(r7 + 7), dep - 1)
              c2 == Gen3(R(r7 + 4711), r6 % dep)
          IN CASE o \in {0, 1} -> N("tr3", <<(r2 % 7) - 3, (r3 % 7) - 3, (r4 % 5) - 2>>, <<c1>>)
               [] o = 2 -> N("rot3", <<1 + (r2 % 3), 1 + (r3 % 3)>>, <<c1>>)
               [] o = 3 -> N("mir3", <<1 + (r2 % 4)>>, <<c1>>)
               [] o = 4 -> N("scale3", <<2>>, <<c1>>)
               [] o = 5 -> N("offset3", <<Off(c1, Offs[1 + (r2 % 5)])>>, <<c1>>)
               [] o = 6 -> N("shell3", <<1>>, <<c1>>)
               [] o = 7 -> LET v == Dirs3[1 + (r2 % 10)] IN N("cut3", <<(r3 % 3) - 1, (r4 % 3) - 1, (r5 % 3) - 1, v[1], v[2], v[3]>>, <<c1>>)
               [] o = 8 -> N("elong3", <<r2 % 2, r3 % 3, r4 % 2>>, <<c1>>)
               [] o = 9 -> N("array3", <<1 + (r2 % 2), 1 + (r3 % 2), 1 + (r4 % 2), Steps[1 + (r5 % 8)], Steps[1 + (r8 % 8)], Steps[1 + (r6 % 8)]>>, <<c1>>)
               [] o \in {10, 11} -> N("rotcopy3", <<RCn[1 + (r2 % 4)]>>, <<c1>>)
               [] o \in {12, 13, 14} -> N("union3", <<>>, <<c1, c2>>)
               [] o = 15 -> N("diff3", <<>>, <<c1, c2>>)
               [] o = 16 -> N("inter3", <<>>, <<c1, c2>>)
               [] o \in {17, 18} -> N("extrude", <<1 + (r2 % 2)>>, <<c1>>)
               [] o \in {19, 20, 21, 22} -> N("twist", <<1 + (r2 % 2), <<1, -1, 2, 1>>[1 + (r3 % 4)]>>, <<c1>>)
               [] o \in {23, 24, 25} -> N("revolve", <<r2 % 4>>, <<c1>>)

\* ---------------------------------------------------------------- exhaustive level 1
Prims2 == <<N("box2", <<1, 1>>, <<>>), N("box2", <<2, 1>>, <<>>), N("box2", <<1, 3>>, <<>>), N("box2", <<2, 2>>, <<>>),
            N("circle", <<1>>, <<>>), N("circle", <<2>>, <<>>)>>
Place2 == <<<<0, 0>>, <<3, 1>>, <<-4, -3>>, <<-5, 5>>>>
Leaves2 == [i \in 1..(Len(Prims2) * Len(Place2)) |->
             LET pr == Prims2[1 + ((i - 1) % Len(Prims2))]
                 t == Place2[1 + ((i - 1) \div Len(Prims2))]
             IN IF t = <<0, 0>> THEN pr ELSE N("tr2", t, <<pr>>)]
Level2(x) ==
  {x}
  \cup {N("tr2", t, <<x>>) : t \in {<<-5, -5>>, <<4, 0>>, <<-1, 2>>}}
  \cup {N("rot2", <<q>>, <<x>>) : q \in 1..3}
  \cup {N("mir2", <<q>>, <<x>>) : q \in 1..2}
  \cup {N("scale2", <<2>>, <<x>>)}
  \cup {N("offset2", <<Off(x, o)>>, <<x>>) : o \in {-1, 1, 2}}
  \cup {N("cut2", <<a[1], a[2], Dirs2[v][1], Dirs2[v][2]>>, <<x>>) : a \in {<<0, 0>>, <<1, -1>>}, v \in 1..8}
  \cup {N("elong2", h, <<x>>) : h \in {<<1, 0>>, <<0, 2>>, <<1, 1>>}}
  \cup {N("array2", a, <<x>>) : a \in {<<2, 1, 3, 0>>, <<1, 3, 0, -2>>, <<2, 2, 4, 3>>, <<3, 1, -2, 1>>, <<5, 1, 1, 0>>, <<1, 4, 0, -1>>}}
  \cup {N("rotcopy2", <<n>>, <<x>>) : n \in {1, 2, 4}}
  \cup {N(o, <<>>, <<x, Leaves2[y]>>) : o \in {"union2", "diff2", "inter2"}, y \in {2, 5, 9, 16}}
  \cup {N(o, <<>>, <<Leaves2[y], x>>) : o \in {"diff2", "inter2"}, y \in {4, 12}}

Prims3 == <<N("box3", <<1, 1, 1>>, <<>>), N("box3", <<2, 1, 1>>, <<>>), N("box3", <<1, 2, 2>>, <<>>),
            N("sphere", <<1>>, <<>>), N("sphere", <<2>>, <<>>), N("cyl", <<1, 2>>, <<>>), N("cyl", <<2, 1>>, <<>>)>>
Place3 == <<<<0, 0, 0>>, <<2, 1, 0>>, <<-3, -3, 1>>>>
Leaves3 == [i \in 1..(Len(Prims3) * Len(Place3)) |->
             LET pr == Prims3[1 + ((i - 1) % Len(Prims3))]
                 t == Place3[1 + ((i - 1) \div Len(Prims3))]
             IN IF t = <<0, 0, 0>> THEN pr ELSE N("tr3", t, <<pr>>)]
Level3(x) ==
  {x}
  \cup {N("tr3", t, <<x>>) : t \in {<<-3, -3, -2>>, <<2, 0, 1>>}}
  \cup {N("rot3", <<ax, q>>, <<x>>) : ax \in 1..3, q \in 1..3}
  \cup {N("mir3", <<q>>, <<x>>) : q \in 1..4}
  \cup {N("scale3", <<2>>, <<x>>)}
  \cup {N("offset3", <<Off(x, o)>>, <<x>>) : o \in {-1, 1}}
  \cup {N("shell3", <<1>>, <<x>>)}
  \cup {N("cut3", <<0, 1, 0, Dirs3[v][1], Dirs3[v][2], Dirs3[v][3]>>, <<x>>) : v \in 1..10}
  \cup {N("elong3", h, <<x>>) : h \in {<<1, 0, 0>>, <<0, 1, 1>>}}
  \cup {N("array3", a, <<x>>) : a \in {<<2, 1, 1, 3, 0, 0>>, <<1, 2, 2, 0, -3, 2>>, <<5, 1, 1, 1, 0, 0>>, <<1, 1, 4, 0, 0, -1>>}}
  \cup {N("rotcopy3", <<n>>, <<x>>) : n \in {1, 2, 4}}
  \cup {N(o, <<>>, <<x, Leaves3[y]>>) : o \in {"union3", "diff3", "inter3"}, y \in {2, 4, 13}}
\* 3D constructors over a 2D operand
Lift(x) ==
  {N("extrude", <<h>>, <<x>>) : h \in 1..2}
  \cup {N("twist", <<h, q>>, <<x>>) : h \in 1..2, q \in {-1, 1, 2}}
  \cup {N("revolve", <<m>>, <<x>>) : m \in 0..3}

NLeaves == IF Dim = 2 THEN Len(Leaves2) ELSE Len(Leaves3) + Len(Leaves2)

\* ---------------------------------------------------------------- machine
Init == phase = 0 /\ j = 0 /\ e = Nil
PickJ == /\ phase = 0 /\ phase' = 1 /\ e' = e
         /\ j' \in (IF Mode = "exh" THEN {i \in 1..NLeaves : Sample = 0 \/ (i % Sample) = (Seed % Sample)} ELSE 1..Sample)
PickE == /\ phase = 1 /\ phase' = 2 /\ j' = j
         /\ IF Mode = "exh"
            THEN e' \in (IF Dim = 2 THEN Level2(Leaves2[j])
                         ELSE IF j <= Len(Leaves3) THEN Level3(Leaves3[j]) ELSE Lift(Leaves2[j - Len(Leaves3)]))
            ELSE e' = (IF Dim = 2 THEN Gen2(R(Seed * 31 + j), Depth) ELSE Gen3(R(Seed * 31 + j), Depth))
Next == PickJ \/ PickE
Spec == Init /\ [][Next]_vars

Tup(f) == IF Len(f) = 4 THEN <<f[1], f[2], f[3], f[4]>> ELSE <<f[1], f[2], f[3], f[4], f[5], f[6]>>

Usable(w) == /\ Ordered(BBcode(e))
             /\ WinCount(w) <= MaxPts
             /\ \A i \in 1..Len(w) : Abs(w[i]) <= 28
Flag(kind) == PrintT(<<"MODELBAD", ToJson([id |-> j, kind |-> kind, e |-> e])>>)

\* Clause selects the model-level conjuncts: "C01" bbox (+ window sanity), "C03" exact and lip,
\* "C02" the denotation laws below; every usable program is exported in all cases.
\* Laws of the denotation itself (sanity of Cmp / Val against each other, C02): where Val is known it
\* must agree with the three-valued sign, and a negative offset / a shell never adds interior points.
LawBad(n, CT, VT) == \E i \in 1..n : /\ VT[i][1] = 1
                                       /\ CT[i] # 2
                                       /\ CT[i] # CmpInt(VT[i][2], 0)

ProgOK == phase = 2 =>
  LET w == Tup(Window(e))
  IN IF ~Usable(w) THEN PrintT(<<"SKIP", j>>)
     ELSE LET n == WinCount(w)
              I == 1..n
              CT == [i \in I |-> Cmp(e, PointAt(i, w), 0, 1)]
              needV == (Clause = "C02") \/ (Clause = "C03" /\ (IsLip1(e) \/ IsExact(e)))
              VT == IF needV THEN [i \in I |-> Val(e, PointAt(i, w), 1)] ELSE [i \in I |-> NoVal]
              bb == Clause = "C01" /\ ~(Ordered(BBcode(e)) /\ \A i \in I : CT[i] = -1 => InBB(PointAt(i, w), BBcode(e)))
              rg == \E i \in I : OnRing(PointAt(i, w), w) /\ CT[i] = -1
              ex == Clause = "C03" /\ IsExact(e) /\ \E i \in I : VT[i] # Dist(e, PointAt(i, w), 1)
              lp == Clause = "C03" /\ IsLip1(e) /\ \E i \in I : VT[i][1] = 1 /\ \E dl \in NeighDeltas(Len(w) \div 2) :
                      LET q == AddV(PointAt(i, w), dl)
                      IN InWin(q, w) /\ LET vq == VT[Idx(q, w)]
                                        IN vq[1] = 1 /\ (VT[i][2] - vq[2]) * (VT[i][2] - vq[2]) > Norm2(dl)
              lw == Clause = "C02" /\ LawBad(n, CT, VT)
          IN /\ (Emit => PrintT(<<"VEC", ToJson([id |-> j, dim |-> Dim, e |-> e, w |-> w,
                                              lip |-> IF IsLip1(e) THEN 1 ELSE 0,
                                              exact |-> IF IsExact(e) THEN 1 ELSE 0])>>))
             /\ (IF bb THEN Flag("bbox") ELSE TRUE)
             /\ (IF ex THEN Flag("exact") ELSE TRUE)
             /\ (IF lp THEN Flag("lip") ELSE TRUE)
             /\ (IF rg THEN Flag("window") ELSE TRUE)
             /\ (IF lw THEN Flag("law") ELSE TRUE)
             /\ ~bb /\ ~ex /\ ~lp /\ ~rg /\ ~lw
=============================================================================
