-------------------------------- MODULE ClipM --------------------------------
(* Enumeration machine for Clip.tla: every segment with both end points on the  *)
(* lattice of a node box [0,2K]^2 (end points on the split lines, on the box,   *)
(* segments along the split lines, through the centre, touching a child in one  *)
(* point ... are all there).  TLC checks that the four children partition each  *)
(* segment the node owns and exports the expected pieces; the harness gives the *)
(* same box and segment (at several scales / offsets, and with end points moved *)
(* by about the snapping distance) to the real Box2.lineIntersect.              *)
EXTENDS Clip, TLC, Json
CONSTANTS K, Emit
VARIABLES phase, P, Q
vars == <<phase, P, Q>>
Pts == (0..2 * K) \X (0..2 * K)
Init == phase = 0 /\ P = <<0, 0>> /\ Q = <<0, 0>>
PickP == phase = 0 /\ phase' = 1 /\ P' \in Pts /\ Q' = Q
PickQ == phase = 1 /\ phase' = 2 /\ Q' \in Pts \ {P} /\ P' = P
Next == PickP \/ PickQ
Spec == Init /\ [][Next]_vars

Flat(pc) == IF pc = <<>> THEN <<>> ELSE <<pc[1][1], pc[1][2], pc[2][1], pc[2][2]>>
ClipOK == phase = 2 =>
  /\ (Owned(K, P, Q) => Covered(K, P, Q))
  \* pieces of different children overlap in at most a point: with Covered this is a partition
  /\ \A i \in 0..3 : LET pc == Piece(Quad(K, i), P, Q) IN pc # <<>> => FLess(pc[1], pc[2])
  /\ (Emit => PrintT(<<"VEC", ToJson([k |-> K, p |-> P, q |-> Q, pat |-> Pattern(K, P, Q),
                                      owned |-> IF Owned(K, P, Q) THEN 1 ELSE 0,
                                      t |-> [i \in 1..4 |-> Flat(Piece(Quad(K, i - 1), P, Q))]])>>))
=============================================================================
