----------------------------- MODULE CacheConc -----------------------------
(* sdf.Cache2D (sdf/cache2.go) called from several goroutines, as written:      *)
(*                                                                             *)
(*   Evaluate(p):  lock ; reads++ ; if d, ok := cache[p]; ok { hits++ ;         *)
(*                 unlock ; return d } ; unlock                     -- Begin    *)
(*                 d := s.sdf.Evaluate(p)          (outside the lock)           *)
(*                 lock ; cache[p] = d ; unlock ; return d          -- Finish   *)
(*                                                                             *)
(* Begin(g, p) is the first critical section (a hit returns at once, a miss     *)
(* leaves g inside the wrapped shape's Evaluate); Finish(g) is the return of    *)
(* the wrapped Evaluate followed by the second critical section.  Any number    *)
(* of goroutines may be between the two.  The invariant is the property (C02    *)
(* cache clause, C10): every value returned is the wrapped shape's own value    *)
(* for the point asked, under every interleaving; every stored entry is right.  *)
(* Every complete behaviour is exported as a schedule and replayed against the  *)
(* real Cache2D over a gated operand (the gate holds a goroutine inside the     *)
(* wrapped Evaluate, so the interleaving is forced, not hoped for).             *)
EXTENDS Integers, Sequences, FiniteSets, TLC, Json
CONSTANTS G,        \* goroutines
          Q,        \* queries per goroutine (at most)
          NP,       \* distinct points
          Sample,   \* 0: every behaviour; n > 0: pseudo-random subset of about 1/n of the behaviours
          Seed
Gor == 1..G
Pts == 1..NP
F(p) == 10 * p + 1                       \* the wrapped shape's value at point p (distinct per point)
VARIABLES todo, pc, cur, cache, hist, rets
vars == <<todo, pc, cur, cache, hist, rets>>
Init == /\ todo = [g \in Gor |-> Q] /\ pc = [g \in Gor |-> "idle"] /\ cur = [g \in Gor |-> 0]
        /\ cache = [p \in Pts |-> 0] /\ hist = <<>> /\ rets = <<>>
Begin(g, p) ==
  /\ pc[g] = "idle" /\ todo[g] > 0
  /\ todo' = [todo EXCEPT ![g] = @ - 1]
  /\ hist' = Append(hist, <<1, g, p>>)
  /\ IF cache[p] # 0
     THEN /\ rets' = Append(rets, <<g, p, cache[p], 1>>) /\ UNCHANGED <<pc, cur, cache>>
     ELSE /\ pc' = [pc EXCEPT ![g] = "eval"] /\ cur' = [cur EXCEPT ![g] = p] /\ UNCHANGED <<cache, rets>>
Finish(g) ==
  /\ pc[g] = "eval"
  /\ hist' = Append(hist, <<2, g, cur[g]>>)
  /\ cache' = [cache EXCEPT ![cur[g]] = F(cur[g])]
  /\ rets' = Append(rets, <<g, cur[g], F(cur[g]), 0>>)
  /\ pc' = [pc EXCEPT ![g] = "idle"] /\ cur' = [cur EXCEPT ![g] = 0]
  /\ UNCHANGED todo
Stop(g) == pc[g] = "idle" /\ todo[g] > 0 /\ todo' = [todo EXCEPT ![g] = 0] /\ UNCHANGED <<pc, cur, cache, hist, rets>>
Next == \E g \in Gor : Finish(g) \/ Stop(g) \/ (\E p \in Pts : Begin(g, p))
Spec == Init /\ [][Next]_vars

ReturnsWrapped == \A i \in 1..Len(rets) : rets[i][3] = F(rets[i][2])
CacheCorrect == \A p \in Pts : cache[p] \in {0, F(p)}
Done == \A g \in Gor : pc[g] = "idle" /\ todo[g] = 0
R(x) == (75 * (x % 65537) + 74) % 65537
RECURSIVE HashH(_, _)
HashH(h, n) == IF n = 0 THEN R(Seed + 1) ELSE R(HashH(h, n - 1) + 7 * h[n][1] + 3 * h[n][2] + h[n][3])
Chosen == Sample = 0 \/ HashH(hist, Len(hist)) % Sample = 0
\* symmetry reduction by hand: goroutine numbers first appear in increasing order
Canon == \A i \in 1..Len(hist) : \A g2 \in 1..(hist[i][2] - 1) : \E j \in 1..(i - 1) : hist[j][2] = g2
Export == (Done /\ Len(hist) >= 2 /\ Canon /\ Chosen) => PrintT(<<"VEC", ToJson([h |-> hist, r |-> rets])>>)
=============================================================================
