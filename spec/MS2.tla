------------------------------- MODULE MS2 -------------------------------
(* Marching squares as render/march2.go does it (msToLines, msInterpolate),    *)
(* over the tables extracted from the tree under test (MSData, generated).    *)
(* Worlds, classes and symbolic vertices as in MC3, in two dimensions.         *)
EXTENDS Integers, Sequences, FiniteSets, TLC, MSData

RECURSIVE Pow(_, _)
Pow(b, e) == IF e = 0 THEN 1 ELSE b * Pow(b, e - 1)

World(dx, dy, base, code) == [dx |-> dx, dy |-> dy, base |-> base, code |-> code]
NDigits(w) == w.dx * w.dy
ClassOf(base, d) == IF base = 2 THEN (IF d = 1 THEN 0 ELSE 3)
                    ELSE IF base = 3 THEN <<0, 2, 3>>[d + 1] ELSE d
Digit(w, i) == (w.code \div Pow(w.base, i)) % w.base
Cls(w, x, y) == IF x \in 1..w.dx /\ y \in 1..w.dy
                THEN ClassOf(w.base, Digit(w, (x - 1) + w.dx * (y - 1)))
                ELSE 3
Neg(k) == k <= 1
Close(k) == k \in {1, 2}
Off == << <<0,0>>, <<1,0>>, <<1,1>>, <<0,1>> >>
Bit(m, i) == (m \div Pow(2, i)) % 2
Unset == <<-9, -9>>
Add2(p, q) == <<p[1] + q[1], p[2] + q[2]>>
Dbl(p) == <<2 * p[1], 2 * p[2]>>
Interp(pa, pb, ka, kb) ==
  IF Close(ka) /\ ~Close(kb) THEN Dbl(pa)
  ELSE IF Close(kb) /\ ~Close(ka) THEN Dbl(pb)
  ELSE Add2(pa, pb)
ConfigIndex(cv) == (IF Neg(cv[1]) THEN 1 ELSE 0) + (IF Neg(cv[2]) THEN 2 ELSE 0)
                 + (IF Neg(cv[3]) THEN 4 ELSE 0) + (IF Neg(cv[4]) THEN 8 ELSE 0)

\* msToLines for the cell whose low corner is o
CellLinesOf(o, cv) ==
  LET idx == ConfigIndex(cv)
      mask == msEdge[idx + 1]
      pt(e) == IF Bit(mask, e) = 1
               THEN LET a == msPair[e + 1][1]
                        b == msPair[e + 1][2]
                    IN Interp(Add2(o, Off[a + 1]), Add2(o, Off[b + 1]), cv[a + 1], cv[b + 1])
               ELSE Unset
      tab == msLine[idx + 1]
      n == Len(tab) \div 2
      seg(i) == <<pt(tab[2 * i + 2]), pt(tab[2 * i + 1])>>
      keep(s) == s[1] # s[2]
  IN IF mask = 0 THEN <<>> ELSE SelectSeq([i \in 1..n |-> seg(i - 1)], keep)

CellLines(w, cx, cy) ==
  CellLinesOf(<<cx, cy>>, [i \in 1..4 |-> Cls(w, cx + Off[i][1], cy + Off[i][2])])

\* cells in the order the uniform renderer visits them (x outer, y inner)
CellSeq(w) == [k \in 1..((w.dx + 1) * (w.dy + 1)) |-> <<(k - 1) \div (w.dy + 1), (k - 1) % (w.dy + 1)>>]

RECURSIVE Flatten(_)
Flatten(ss) == IF ss = <<>> THEN <<>> ELSE Head(ss) \o Flatten(Tail(ss))
WorldLines(w) == LET cs == CellSeq(w)
                 IN Flatten([k \in 1..Len(cs) |-> CellLines(w, cs[k][1], cs[k][2])])

\* ---- properties of a segment sequence ----
Ends(ls) == Flatten([i \in 1..Len(ls) |-> <<ls[i][1], ls[i][2]>>])
Degree(ls, p) == LET E == Ends(ls) IN Cardinality({i \in 1..Len(E) : E[i] = p})
OutDeg(ls, p) == Cardinality({i \in 1..Len(ls) : ls[i][1] = p})
InDeg(ls, p) == Cardinality({i \in 1..Len(ls) : ls[i][2] = p})
EvenDegree(ls) == \A i \in 1..Len(ls) : \A j \in 1..2 : Degree(ls, ls[i][j]) % 2 = 0
\* stronger, oriented form: every point is entered as often as it is left
OrientedClosed(ls) == \A i \in 1..Len(ls) : \A j \in 1..2 : OutDeg(ls, ls[i][j]) = InDeg(ls, ls[i][j])
NoZeroLength(ls) == \A i \in 1..Len(ls) : ls[i][1] # ls[i][2]
NoUnset(ls) == \A i \in 1..Len(ls) : ls[i][1] # Unset /\ ls[i][2] # Unset
\* 2 * signed area in doubled coordinates (the code keeps the solid to the right: negative)
RECURSIVE SumCross(_, _)
SumCross(ls, i) == IF i > Len(ls) THEN 0
                   ELSE ls[i][1][1] * ls[i][2][2] - ls[i][1][2] * ls[i][2][1] + SumCross(ls, i + 1)
Area8(ls) == SumCross(ls, 1)
HasN(w) == \E i \in 0..(NDigits(w) - 1) : ClassOf(w.base, Digit(w, i)) = 0

GCls(w, p) == Cls(w, p[1], p[2])
IsCorner(v) == v[1] % 2 = 0 /\ v[2] % 2 = 0
Half(v) == <<v[1] \div 2, v[2] \div 2>>
OnBoundaryVertex(w, v) ==
  IF IsCorner(v) THEN Close(GCls(w, Half(v)))
  ELSE LET odd == {a \in 1..2 : v[a] % 2 # 0}
       IN /\ Cardinality(odd) = 1
          /\ LET a == CHOOSE a \in odd : TRUE
                 lo == [v EXCEPT ![a] = v[a] - 1]
                 hi2 == [v EXCEPT ![a] = v[a] + 1]
             IN Neg(GCls(w, Half(lo))) # Neg(GCls(w, Half(hi2)))
VerticesOnBoundary(w, ls) == \A i \in 1..Len(ls) : \A j \in 1..2 : OnBoundaryVertex(w, ls[i][j])
\* "exactly 2 away from degenerate saddle cells": a point of degree > 2 must be a lattice corner
\* within eps of zero or lie in a saddle cell (configurations 5 and 10 have two segments)
Count(S, e) == Cardinality({i \in 1..Len(S) : S[i] = e})
SameBag(A, B) == Len(A) = Len(B) /\ \A i \in 1..Len(A) : Count(A, A[i]) = Count(B, A[i])

EdgeMaskOK == \A idx \in 0..15 : \A e \in 0..3 :
                (Bit(msEdge[idx + 1], e) = 1) <=>
                (Bit(idx, msPair[e + 1][1]) # Bit(idx, msPair[e + 1][2]))
UsesOnlyMasked == \A idx \in 0..15 : \A k \in 1..Len(msLine[idx + 1]) :
                    Bit(msEdge[idx + 1], msLine[idx + 1][k]) = 1
TablesShape == /\ Len(msEdge) = 16 /\ Len(msLine) = 16 /\ Len(msPair) = 4
               /\ \A idx \in 0..15 : Len(msLine[idx + 1]) % 2 = 0
=============================================================================
