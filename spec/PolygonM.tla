------------------------------- MODULE PolygonM -------------------------------
(* Polygon machine for Polygon.tla: polygons are BUILT vertex by vertex, with   *)
(* the partial simplicity test at every step, so that TLC prunes early and the  *)
(* workers share the search.  Vertices: the G x G grid (doubled units 0,2,..).  *)
(*   Mode = "free"  any grid vertex may follow (collinear vertices allowed);    *)
(*                  at most NMax vertices                                       *)
(*   Mode = "unit"  unit steps only: the closed paths are exactly the outlines  *)
(*                  of the hole-free polyominoes, with every lattice point of   *)
(*                  the outline a (mostly collinear) vertex; perimeter <= NMax  *)
(* Canonical form: poly[1] is the lexicographically smallest vertex and the     *)
(* orientation is counter-clockwise; every second polygon is exported in the    *)
(* reverse (clockwise) order.  A closed state is judged at EVERY point of the   *)
(* half-lattice over its bounding box enlarged by one unit.                     *)
EXTENDS Polygon, Json
CONSTANTS G, NMax, Mode, Emit
VARIABLES poly, closed
vars == <<poly, closed>>
Grid == {<<2 * x, 2 * y>> : x \in 0..(G - 1), y \in 0..(G - 1)}
Lex(v) == v[1] * 100 + v[2]
Init == poly = <<>> /\ closed = FALSE
Step(a, v) == IF Mode = "unit" THEN Dist2(a, v) = 4 ELSE TRUE
AddOK(v) ==
  LET n == Len(poly) IN
  IF n = 0 THEN TRUE ELSE
     /\ \A i \in 1..n : poly[i] # v
     /\ Lex(poly[1]) < Lex(v)
     /\ Step(poly[n], v)
     /\ (IF n >= 2 THEN ~FoldBack(poly[n - 1], poly[n], v) ELSE TRUE)
     /\ \A i \in 1..(n - 2) : ~SegMeet(poly[i], poly[i + 1], poly[n], v)
AddVertex == /\ ~closed /\ Len(poly) < NMax /\ closed' = FALSE
             /\ \E v \in Grid : AddOK(v) /\ poly' = Append(poly, v)
CloseOK ==
  LET n == Len(poly) IN
  IF n < 3 THEN FALSE ELSE
  /\ Step(poly[n], poly[1])
  /\ ~FoldBack(poly[n - 1], poly[n], poly[1])
  /\ ~FoldBack(poly[n], poly[1], poly[2])
  /\ \A i \in 2..(n - 2) : ~SegMeet(poly[i], poly[i + 1], poly[n], poly[1])
  /\ Area2(poly) > 0
Close == ~closed /\ CloseOK /\ closed' = TRUE /\ poly' = poly
Next == AddVertex \/ Close
Spec == Init /\ [][Next]_vars

\* query window: bounding box enlarged by one unit (2 in doubled units), every half-lattice point
RECURSIVE MinC(_, _, _), MaxC(_, _, _)
MinC(p, a, n) == IF n = 1 THEN p[1][a] ELSE LET m == MinC(p, a, n - 1) IN IF p[n][a] < m THEN p[n][a] ELSE m
MaxC(p, a, n) == IF n = 1 THEN p[1][a] ELSE LET m == MaxC(p, a, n - 1) IN IF p[n][a] > m THEN p[n][a] ELSE m
Win == <<MinC(poly, 1, Len(poly)) - 2, MinC(poly, 2, Len(poly)) - 2, MaxC(poly, 1, Len(poly)) + 2, MaxC(poly, 2, Len(poly)) + 2>>
NX == Win[3] - Win[1] + 1
NY == Win[4] - Win[2] + 1
Pt(i) == <<Win[1] + ((i - 1) % NX), Win[2] + ((i - 1) \div NX)>>
Rev(s) == [i \in 1..Len(s) |-> s[Len(s) + 1 - i]]
Out == IF (Area2(poly) \div 4 + Len(poly)) % 2 = 0 THEN poly ELSE Rev(poly)

\* the three inside definitions agree off the boundary; the distance vanishes exactly on the boundary
ConsistentAt(p) ==
  /\ OnBoundary(poly, p) = (D2(poly, p)[1] = 0)
  /\ (~OnBoundary(poly, p) =>
        /\ Inside(poly, p) = InsideParity(poly, p)
        /\ WindQuad(poly, p) = (IF Inside(poly, p) THEN 1 ELSE 0)
        /\ Inside(Rev(poly), p) = Inside(poly, p))
  /\ RatEq(D2(Rev(poly), p), D2(poly, p))
PolyOK == closed =>
  /\ Simple(poly)
  /\ \A i \in 1..(NX * NY) : ConsistentAt(Pt(i))
  /\ (Emit => PrintT(<<"VEC", ToJson([t |-> "poly", v |-> Out, win |-> Win,
                                      exp |-> [i \in 1..(NX * NY) |-> D2(poly, Pt(i))]])>>))
=============================================================================
