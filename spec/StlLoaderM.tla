------------------------------ MODULE StlLoaderM ------------------------------
(* Case-enumeration machine for StlLoader.tla; the state IS the abstract file:   *)
(* a layout (how size and header count relate) and a body of line kinds.          *)
(*   Sample = 0 : every body of length <= MaxLen over the 8 line kinds, for each  *)
(*                of the 7 layouts                                                *)
(*   Sample > 0 : Sample LCG-drawn cases with bodies of length MaxLen..2*MaxLen,  *)
(*                biased towards vertex lines                                     *)
(* Guard = FALSE is the code as written (unchecked v[i+1], v[i+2]); TotalOK then  *)
(* FAILS in the model for a vertex count not divisible by 3.  Guard = TRUE is the *)
(* repaired procedure, for which TotalOK holds.                                   *)
EXTENDS StlLoader, Json
CONSTANTS MaxLen, Guard, Emit, Sample, Seed
VARIABLES phase, j, lay, lines
vars == <<phase, j, lay, lines>>

Init == phase = 0 /\ j = 0 /\ lay = "short" /\ lines = <<>>

R(x) == (75 * (x % 65537) + 74) % 65537
RECURSIVE Rn(_, _)
Rn(jj, i) == IF i = 0 THEN R(R(Seed * 31 + jj)) ELSE R(Rn(jj, i - 1) + i)
\* biased kind: half of the lines are good vertex lines
KindOf(r) == LET k == r % 16 IN IF k < 8 THEN "VertexOK" ELSE Kinds[k - 7]

PickJ == /\ phase = 0 /\ phase' = 1 /\ lines' = lines /\ lay' = lay
         /\ j' \in 1..(IF Sample = 0 THEN Len(Layouts) ELSE Sample)
PickCase ==
  /\ phase = 1 /\ phase' = 2 /\ j' = j
  /\ IF Sample = 0
     THEN /\ lay' = Layouts[j]
          /\ \E n \in 0..MaxLen : \E f \in [1..n -> 1..Len(Kinds)] :
               lines' = [i \in 1..n |-> Kinds[f[i]]]
     ELSE /\ lay' = Layouts[1 + (Rn(j, 1) % Len(Layouts))]
          /\ lines' = [i \in 1..(MaxLen + (Rn(j, 2) % (MaxLen + 1))) |-> KindOf(Rn(j, 2 + i))]
Next == PickJ \/ PickCase
Spec == Init /\ [][Next]_vars

Out(g) == Decide(LayoutRel(lay), 0, Scan(lines), g)
Case == [j |-> j, layout |-> lay, lines |-> lines, pred |-> Out(FALSE).out, ideal |-> Out(TRUE).out,
         nv |-> Scan(lines).nv, stop |-> Scan(lines).stop]

\* the property on the model
TotalOK == phase = 2 => (Total(Out(Guard)) \/ (PrintT(<<"MODELBAD", ToJson(Case)>>) /\ FALSE))
\* vector export (always true)
EmitVec == (phase = 2 /\ Emit) => PrintT(<<"VEC", ToJson(Case)>>)
=============================================================================
