-------------------------------- MODULE Bezier --------------------------------
(* C17 - structure of a Bezier curve specification (sdf.Bezier): a list of       *)
(* control vertices [x, y, mid]; mid = 0 is an end point (on the curve), mid = 1 *)
(* a control point between two end points.  A run of m mid points between two    *)
(* end points is one span of degree m + 1 (1..4).  A closed curve returns to the *)
(* first end point (an extra span unless the list already ends there).           *)
EXTENDS Integers, Sequences, FiniteSets

Ends(pts) == {i \in 1..Len(pts) : pts[i].mid = 0}
Same(p, q) == p.x = q.x /\ p.y = q.y
LastEnd(pts) == CHOOSE i \in Ends(pts) : \A k \in Ends(pts) : k <= i
NeedsClosing(pts) == pts[Len(pts)].mid = 1 \/ ~Same(pts[Len(pts)], pts[1])
\* number of mid points following end point i (up to the next end point or the end of the list)
RECURSIVE MidsAfter(_, _)
MidsAfter(pts, i) == IF i + 1 > Len(pts) \/ pts[i + 1].mid = 0 THEN 0 ELSE 1 + MidsAfter(pts, i + 1)
WellFormedB(pts, closed) ==
  /\ Len(pts) >= 2 /\ pts[1].mid = 0
  /\ Cardinality(Ends(pts)) >= (IF closed THEN 1 ELSE 2)
  /\ (~closed => pts[Len(pts)].mid = 0)
  /\ \A i \in Ends(pts) : MidsAfter(pts, i) <= 3
  \* no degenerate (single point) span: consecutive end points differ
  /\ \A i \in Ends(pts) : (i < Len(pts) /\ pts[i + 1].mid = 0) => ~Same(pts[i], pts[i + 1])
  /\ (closed => (Cardinality(Ends(pts)) >= 2 \/ MidsAfter(pts, 1) >= 1))
  \* no repeated consecutive control vertices (a span whose control points all coincide is a point, not a curve:
  \* the library skips it and the polygon is empty)
  /\ \A i \in 1..(Len(pts) - 1) : ~Same(pts[i], pts[i + 1])
  /\ ((closed /\ pts[Len(pts)].mid = 1) => ~Same(pts[Len(pts)], pts[1]))
NSpans(pts, closed) == (Cardinality(Ends(pts)) - 1) + (IF closed /\ NeedsClosing(pts) THEN 1 ELSE 0)
Linear(pts) == \A i \in 1..Len(pts) : pts[i].mid = 0
MaxDeg(pts) == LET S == {MidsAfter(pts, i) : i \in Ends(pts)}
               IN 1 + (CHOOSE m \in S : \A k \in S : k <= m)
\* the polyline of a curve whose spans all have degree 1 is exactly its end points (a degree-1 span is two points)
NLinear(pts, closed) == NSpans(pts, closed) + 1
=============================================================================
