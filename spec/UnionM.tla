------------------------------- MODULE UnionM -------------------------------
(* Operand-set machine for UnionPrune.tla: the state is (operand set, blend).   *)
(*  Fam = "slide"  an archetype (circle r=1,2; 2x2, 1x1, thin, big box) with    *)
(*                 every placement of a second shape (circle r=1, 1x1, 2x2,     *)
(*                 4x1, 1x4, 6x6, the whole window) in both orders: nested,     *)
(*                 overlapping, touching, far apart, equal boxes - exhaustive   *)
(*  Fam = "mix"    Sample LCG-drawn sets of 2-3 operands (nested, equal boxes,  *)
(*                 far apart, independent)                                      *)
(* Blends: kn = 0 (default min) and PolyMin(k) for every k in Ks (encoded       *)
(* 100 kn + kd).  Points: every integer point of [-Mg .. W+Mg]^2.               *)
EXTENDS UnionPrune, Json
CONSTANTS W, Mg, Fam, NArch, Ks, Sample, Seed, Emit
VARIABLES phase, j, es, kk
vars == <<phase, j, es, kk>>
B(a, b, c, d) == [t |-> "b", a |-> a, b |-> b, c |-> c, d |-> d]
C(a, b, r) == [t |-> "c", a |-> a, b |-> b, c |-> r, d |-> 0]
H == W \div 2
Arch == <<C(H, H, 1), B(H - 1, H - 1, H + 1, H + 1), B(H, H, H + 1, H + 1), C(H, H, 2),
          B(H, H - 2, H + 1, H + 2), B(1, 1, W - 1, W - 1)>>
Placed == {C(x, y, 1) : x \in 1..(W - 1), y \in 1..(W - 1)}
   \cup {B(x, y, x + 1, y + 1) : x \in 0..(W - 1), y \in 0..(W - 1)}
   \cup {B(x, y, x + 2, y + 2) : x \in 0..(W - 2), y \in 0..(W - 2)}
   \cup {B(x, y, x + 4, y + 1) : x \in 0..(W - 4), y \in 0..(W - 1)}
   \cup {B(x, y, x + 1, y + 4) : x \in 0..(W - 1), y \in 0..(W - 4)}
   \cup {B(x, y, x + W - 2, y + W - 2) : x \in 0..2, y \in 0..2}
   \cup {B(0, 0, W, W)}

R(x) == (75 * (x % 65537) + 74) % 65537
RECURSIVE Rn(_, _)
Rn(jj, i) == IF i = 0 THEN R(R(Seed * 31 + jj)) ELSE R(Rn(jj, i - 1) + i)
\* a box inside [x0..x1] x [y0..y1] (non-degenerate), or a circle whose box is inside it
RBoxIn(jj, o, x0, x1, y0, y1) ==
  LET a == x0 + (Rn(jj, o) % (x1 - x0))
      c == a + 1 + (Rn(jj, o + 1) % (x1 - a))
      b == y0 + (Rn(jj, o + 2) % (y1 - y0))
      d == b + 1 + (Rn(jj, o + 3) % (y1 - b))
  IN B(a, b, c, d)
RCircIn(jj, o, x0, x1, y0, y1) ==
  LET rmax == Min2(2, Min2((x1 - x0) \div 2, (y1 - y0) \div 2))
      r == 1 + (Rn(jj, o) % rmax)
  IN C(x0 + r + (Rn(jj, o + 1) % (x1 - x0 - 2 * r + 1)), y0 + r + (Rn(jj, o + 2) % (y1 - y0 - 2 * r + 1)), r)
RShapeIn(jj, o, x0, x1, y0, y1) ==
  IF Rn(jj, o + 4) % 3 = 0 THEN RCircIn(jj, o, x0, x1, y0, y1) ELSE RBoxIn(jj, o, x0, x1, y0, y1)
RSet(jj) ==
  LET mode == Rn(jj, 0) % 5
      s1 == RShapeIn(jj, 1, 0, W, 0, W)
      s2 == RShapeIn(jj, 7, 0, W, 0, W)
      s3 == RShapeIn(jj, 13, 0, W, 0, W)
      big == RBoxIn(jj, 1, 0, W, 0, W)
  IN IF mode = 0 THEN <<s1, s2, s3>>
     ELSE IF mode = 1 THEN (IF big.c - big.a >= 2 /\ big.d - big.b >= 2
                            THEN <<big, RShapeIn(jj, 7, big.a, big.c, big.b, big.d), s3>>
                            ELSE <<big, s2>>)
     ELSE IF mode = 2 THEN <<big, s2, big>>
     ELSE IF mode = 3 THEN <<RShapeIn(jj, 1, 0, 2, 0, W), RShapeIn(jj, 7, W - 2, W, 0, W)>>
     ELSE <<s1, s2>>

KSet == {0} \cup Ks        \* Ks is a set of codes 100*kn + kd
Init == phase = 0 /\ j = 0 /\ es = <<>> /\ kk = 0
PickJ == /\ phase = 0 /\ phase' = 1 /\ es' = es /\ kk' = kk
         /\ j' \in 1..(IF Fam = "slide" THEN 2 * NArch ELSE Sample)
PickSet ==
  /\ phase = 1 /\ phase' = 2 /\ j' = j
  /\ \E k \in KSet :
       /\ kk' = k
       /\ IF Fam = "slide"
          THEN \E s \in Placed : es' = IF j <= NArch THEN <<Arch[j], s>> ELSE <<s, Arch[j - NArch]>>
          ELSE es' = RSet(j)
Next == PickJ \/ PickSet
Spec == Init /\ [][Next]_vars

Kn == kk \div 100
Kd == IF kk = 0 THEN 1 ELSE kk % 100
Win == (0 - Mg)..(W + Mg)
BadPts == {p \in Win \X Win : ~PrunedOKAt(es, p, Kn, Kd)}
Vec == [t |-> "uni", ops |-> es, kn |-> Kn, kd |-> Kd, win |-> <<0 - Mg, 0 - Mg, W + Mg, W + Mg>>]
SetOK == phase = 2 =>
  /\ (Emit => PrintT(<<"VEC", ToJson(Vec)>>))
  /\ (IF BadPts # {} THEN PrintT(<<"MODELBAD", ToJson([vec |-> Vec, n |-> Cardinality(BadPts),
                                                        p |-> CHOOSE p \in BadPts : TRUE])>>) ELSE TRUE)
=============================================================================
