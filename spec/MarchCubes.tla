--------------------------- MODULE MarchCubes ---------------------------
(* The world-enumeration machine over MC3: the state is a world code, so the   *)
(* number of distinct states is the number of worlds examined.  Worlds are     *)
(* enumerated in two levels so that TLC's workers share them.                  *)
EXTENDS MC3

CONSTANTS DX, DY, DZ,     \* free corners per axis
          Sample, Seed,   \* Sample = 0: exhaustive; else that many pseudo-random worlds (LCG from Seed)
          Base,           \* 2 = {N,P}, 3 = {N,z,P}, 4 = {N,n,z,P}
          LoDigits,       \* digits enumerated at the second level (parallelism)
          Emit            \* TRUE: print every world as a vector for the replay

VARIABLES phase, hi, code
vars == <<phase, hi, code>>

W(c) == World(DX, DY, DZ, Base, c)
LoN == Pow(Base, LoDigits)
HiN == Pow(Base, DX * DY * DZ - LoDigits)

Init == phase = 0 /\ hi = 0 /\ code = 0
\* a small linear congruential generator (all products stay below 2^31)
R(x) == (75 * (x % 65537) + 74) % 65537
PickHi == /\ phase = 0 /\ phase' = 1 /\ code' = 0
          /\ hi' \in 0..((IF Sample = 0 THEN HiN ELSE Sample) - 1)
PickLo == /\ phase = 1 /\ phase' = 2 /\ hi' = hi
          /\ IF Sample = 0
             THEN \E lo \in 0..(LoN - 1) : code' = hi * LoN + lo
             ELSE LET r1 == R(R(Seed * 31 + hi))
                      r2 == R(r1 + 7)
                  IN code' = (r1 % HiN) * LoN + (r2 % LoN)
Next == PickHi \/ PickLo
Spec == Init /\ [][Next]_vars

StaticOK == phase = 0 => (TablesShape /\ EdgeMaskOK /\ UsesOnlyMasked)

\* one evaluation of the world's triangles per state
WorldOK == phase = 2 =>
  LET w == W(code)
      ts == WorldTris(w)
      v == Vol48(ts)
  IN /\ (Balanced(ts) \/ (PrintT(<<"MODELBAD", code, "balance">>) /\ FALSE))
     /\ (NoUnset(ts) \/ (PrintT(<<"MODELBAD", code, "unset">>) /\ FALSE))
     /\ ((v >= 0 /\ (HasN(w) => v > 0)) \/ (PrintT(<<"MODELBAD", code, "volume">>) /\ FALSE))
     /\ ((Base = 2 => LocalOriented(w, ts)) \/ (PrintT(<<"MODELBAD", code, "localorient">>) /\ FALSE))
     /\ (VerticesOnSurface(w, ts) \/ (PrintT(<<"MODELBAD", code, "onsurface">>) /\ FALSE))
     /\ (Emit => PrintT(<<"VEC", code, Len(ts)>>))
=============================================================================
