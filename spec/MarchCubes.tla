--------------------------- MODULE MarchCubes ---------------------------
(* The world-enumeration machine over MC3: the state is a world code, so the   *)
(* number of distinct states is the number of worlds examined.  Worlds are     *)
(* enumerated in two levels so that TLC's workers share them.                  *)
EXTENDS MC3

CONSTANTS DX, DY, DZ,     \* free corners per axis
          Base,           \* 2 = {N,P}, 3 = {N,z,P}, 4 = {N,n,z,P}
          LoDigits,       \* digits enumerated at the second level (parallelism)
          Emit            \* TRUE: print every world as a vector for the replay

VARIABLES phase, hi, code
vars == <<phase, hi, code>>

W(c) == World(DX, DY, DZ, Base, c)
LoN == Pow(Base, LoDigits)
HiN == Pow(Base, DX * DY * DZ - LoDigits)

Init == phase = 0 /\ hi = 0 /\ code = 0
PickHi == /\ phase = 0 /\ phase' = 1 /\ hi' \in 0..(HiN - 1) /\ code' = 0
PickLo == /\ phase = 1 /\ phase' = 2 /\ hi' = hi
          /\ \E lo \in 0..(LoN - 1) : code' = hi * LoN + lo
Next == PickHi \/ PickLo
Spec == Init /\ [][Next]_vars

StaticOK == phase = 0 => (TablesShape /\ EdgeMaskOK /\ UsesOnlyMasked)

\* one evaluation of the world's triangles per state
WorldOK == phase = 2 =>
  LET w == W(code)
      ts == WorldTris(w)
      v == Vol48(ts)
  IN /\ (Balanced(ts) \/ (PrintT(<<"MODELBAD", code, "balance">>) /\ FALSE))
     /\ (NoUnset(ts) \/ (PrintT(<<"MODELBAD", code, "unset">>) /\ FALSE))
     /\ ((v >= 0 /\ (HasN(w) => v > 0)) \/ (PrintT(<<"MODELBAD", code, "volume">>) /\ FALSE))
     /\ (VerticesOnSurface(w, ts) \/ (PrintT(<<"MODELBAD", code, "onsurface">>) /\ FALSE))
     /\ (Emit => PrintT(<<"VEC", code, Len(ts)>>))
=============================================================================
