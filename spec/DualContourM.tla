--------------------------- MODULE DualContourM ---------------------------
(* World-enumeration machine over DualContour (C19): the state is a world code. *)
(* For each world both transcriptions (V2 uniform grid, V1 octree recursion)    *)
(* must give a closed, outward-oriented surface with one quad per sign-changing *)
(* lattice edge; the enclosed volume with cell centres as vertex positions is   *)
(* exactly the number of solid corners.                                         *)
EXTENDS DualContour

CONSTANTS DX, DY, DZ,     \* free corners per axis
          Sample, Seed,   \* Sample = 0: exhaustive; else that many pseudo-random worlds (LCG from Seed)
          Base,           \* 2 = {N,P}, 3 = {N,z,P}
          LoDigits,       \* digits enumerated at the second level (parallelism)
          Emit            \* TRUE: print every world as a vector for the replay

VARIABLES phase, hi, code
vars == <<phase, hi, code>>

W(c) == World(DX, DY, DZ, Base, c)
LoN == Pow(Base, LoDigits)
HiN == Pow(Base, DX * DY * DZ - LoDigits)

Init == phase = 0 /\ hi = 0 /\ code = 0
R(x) == (75 * (x % 65537) + 74) % 65537
PickHi == /\ phase = 0 /\ phase' = 1 /\ code' = 0
          /\ hi' \in 0..((IF Sample = 0 THEN HiN ELSE Sample) - 1)
PickLo == /\ phase = 1 /\ phase' = 2 /\ hi' = hi
          /\ IF Sample = 0
             THEN \E lo \in 0..(LoN - 1) : code' = hi * LoN + lo
             ELSE LET r1 == R(R(Seed * 31 + hi))
                      r2 == R(r1 + 7)
                  IN code' = (r1 % HiN) * LoN + (r2 % LoN)
Next == PickHi \/ PickLo
Spec == Init /\ [][Next]_vars

StaticOK == phase = 0 => (TablesShape /\ EdgevmapOK /\ CellFaceOK /\ CellEdgeOK)

Flag(c, r, why) == PrintT(<<"MODELBAD", c, r, why>>) /\ FALSE
MeshOK(c, w, r, ts) ==
  /\ (Balanced(ts) \/ Flag(c, r, "balance"))
  /\ (NoDegenerate(ts) \/ Flag(c, r, "degenerate"))
  /\ (Len(ts) = 2 * Cardinality(CrossEdges(w)) \/ Flag(c, r, "quad-count"))
  /\ (Vol48(ts) = 48 * Cardinality(SolidCorners(w)) \/ Flag(c, r, "volume"))

WorldOK == phase = 2 =>
  LET w == W(code)
      t2 == WorldTrisV2(w)
      t1 == WorldTrisV1(w)
  IN /\ (Holes(w) = {} \/ Flag(code, "dc2", "missing-neighbour"))
     /\ MeshOK(code, w, "dc2", t2)
     /\ MeshOK(code, w, "dc1", t1)
     /\ (Emit => PrintT(<<"VEC", code, Len(t2)>>))
=============================================================================
