------------------------------- MODULE TriSet -------------------------------
(* C20: the canonical form and the equality test of triangle sets              *)
(* (render/delaunay.go: TriangleI.Canonical, TriangleIByIndex.Less,            *)
(* TriangleISet.Canonical, TriangleISet.Equals).  Triples are <<a, b, c>>.     *)
EXTENDS Integers, Sequences, FiniteSets

\* TriangleI.Canonical as the code writes it: smallest index first, winding preserved
Canonical(t) ==
  IF t[1] < t[2] /\ t[1] < t[3] THEN t
  ELSE IF t[2] < t[1] /\ t[2] < t[3] THEN <<t[2], t[3], t[1]>>
  ELSE <<t[3], t[1], t[2]>>
Rot(t, r) == IF r = 0 THEN t ELSE IF r = 1 THEN <<t[2], t[3], t[1]>> ELSE <<t[3], t[1], t[2]>>
IsCanonical(t) == t[1] < t[2] /\ t[1] < t[3] /\ t[2] # t[3]
\* all canonical triples over the indices 0..k-1
Universe(k) == {t \in (0..(k - 1)) \X (0..(k - 1)) \X (0..(k - 1)) : IsCanonical(t)}

\* TriangleIByIndex.Less AS THE CODE WRITES IT (pinned tree): the third clause does not
\* require [0] to be equal
CodeLess(a, b) ==
  IF a[1] < b[1] THEN TRUE
  ELSE IF a[1] = b[1] /\ a[2] < b[2] THEN TRUE
  ELSE IF a[2] = b[2] /\ a[3] < b[3] THEN TRUE
  ELSE FALSE
\* the lexicographic order the comment above the type promises
LexLess(a, b) ==
  \/ a[1] < b[1]
  \/ a[1] = b[1] /\ a[2] < b[2]
  \/ a[1] = b[1] /\ a[2] = b[2] /\ a[3] < b[3]
Less(cmp, a, b) == IF cmp = "code" THEN CodeLess(a, b) ELSE LexLess(a, b)

\* the pairs on which the comparator as written differs from the lexicographic order:
\* exactly those with equal [1], a[0] > b[0] and a[2] < b[2] (the third clause fires alone)
ThirdClauseOnly(a, b) == a[1] > b[1] /\ a[2] = b[2] /\ a[3] < b[3]
\* an unordered pair of triples on which the comparator as written is not asymmetric
Conflict(a, b) == ThirdClauseOnly(a, b) \/ ThirdClauseOnly(b, a)

\* order properties of a relation L(_, _) given as a set of pairs over U
Irreflexive(U, L) == \A a \in U : <<a, a>> \notin L
Asymmetric(U, L) == \A a, b \in U : <<a, b>> \in L => <<b, a>> \notin L
Transitive(U, L) == \A a, b, c \in U : (<<a, b>> \in L /\ <<b, c>> \in L) => <<a, c>> \in L
Incomp(L, a, b) == <<a, b>> \notin L /\ <<b, a>> \notin L
IncompTransitive(U, L) == \A a, b, c \in U : (Incomp(L, a, b) /\ Incomp(L, b, c)) => Incomp(L, a, c)
StrictWeakOrder(U, L) == Irreflexive(U, L) /\ Asymmetric(U, L) /\ Transitive(U, L) /\ IncompTransitive(U, L)
Total(U, L) == \A a, b \in U : a # b => (<<a, b>> \in L \/ <<b, a>> \in L)
\* what a sort-based equality needs: different canonical triples are never tied
StrictTotalOrder(U, L) == StrictWeakOrder(U, L) /\ Total(U, L)
RelOf(cmp, U) == {p \in U \X U : Less(cmp, p[1], p[2])}

\* sort.Sort for n <= 12 is insertionSort (go/src/sort/zsortinterface.go):
\*   for i := a+1; i < b; i++ { for j := i; j > a && data.Less(j, j-1); j-- { data.Swap(j, j-1) } }
Swap(s, i, j) == [s EXCEPT ![i] = s[j], ![j] = s[i]]
RECURSIVE Sink(_, _, _)
Sink(cmp, s, j) == IF j > 1 /\ Less(cmp, s[j], s[j - 1]) THEN Sink(cmp, Swap(s, j, j - 1), j - 1) ELSE s
RECURSIVE InsFrom(_, _, _)
InsFrom(cmp, s, i) == IF i > Len(s) THEN s ELSE InsFrom(cmp, Sink(cmp, s, i), i + 1)
InsertionSort(cmp, s) == InsFrom(cmp, s, 2)
MaxInsertion == 12

\* TriangleISet.Canonical / Equals as the code runs them (for sets of at most 12 triangles)
CanonSeq(s) == [i \in 1..Len(s) |-> Canonical(s[i])]
SetCanonical(cmp, s) == InsertionSort(cmp, CanonSeq(s))
EqualsModel(cmp, s, t) == Len(s) = Len(t) /\ SetCanonical(cmp, s) = SetCanonical(cmp, t)

\* THE PROPERTY: equality of the multisets of canonical triples
BagOf(s) == [x \in {s[i] : i \in 1..Len(s)} |-> Cardinality({i \in 1..Len(s) : s[i] = x})]
SameTriangles(s, t) == BagOf(CanonSeq(s)) = BagOf(CanonSeq(t))
\* t is s with every triple rotated in place (same order)
RotationOnly(s, t) == Len(s) = Len(t) /\ \A i \in 1..Len(s) : Canonical(s[i]) = Canonical(t[i])
HasConflict(s) == \E i, j \in 1..Len(s) : i < j /\ Conflict(Canonical(s[i]), Canonical(s[j]))

Perms(n) == {p \in [1..n -> 1..n] : \A i, j \in 1..n : i # j => p[i] # p[j]}
Permuted(s, p) == [i \in 1..Len(s) |-> s[p[i]]]
=============================================================================
