------------------------------- MODULE MC3 -------------------------------
(* Marching cubes as render/march3.go does it (mcToTriangles, mcInterpolate),   *)
(* over the tables extracted from the tree under test (MCData, generated).    *)
(*                                                                            *)
(* A *world* w = [dx, dy, dz, base, code] is a block of dx x dy x dz free      *)
(* lattice corners surrounded by a ring of positive corners; each free corner  *)
(* carries a class                                                             *)
(*   0 = N  v <= -eps      1 = n  -eps < v < 0                                 *)
(*   2 = z  0 <= v < eps   3 = P  v >= eps                                     *)
(* which is exactly what the code's index bits (v < 0) and its eps-snapping    *)
(* (|v| < eps) can distinguish.  Vertices are symbolic: doubled lattice        *)
(* coordinates (a corner 2p, or the doubled mid-point pa+pb standing for the   *)
(* interior crossing of the lattice edge pa-pb).                               *)
EXTENDS Integers, Sequences, FiniteSets, TLC, MCData

RECURSIVE Pow(_, _)
Pow(b, e) == IF e = 0 THEN 1 ELSE b * Pow(b, e - 1)

World(dx, dy, dz, base, code) == [dx |-> dx, dy |-> dy, dz |-> dz, base |-> base, code |-> code]
NDigits(w) == w.dx * w.dy * w.dz

ClassOf(base, d) == IF base = 2 THEN (IF d = 1 THEN 0 ELSE 3)
                    ELSE IF base = 3 THEN <<0, 2, 3>>[d + 1] ELSE d
Digit(w, i) == (w.code \div Pow(w.base, i)) % w.base
Cls(w, x, y, z) ==
  IF x \in 1..w.dx /\ y \in 1..w.dy /\ z \in 1..w.dz
  THEN ClassOf(w.base, Digit(w, (x - 1) + w.dx * ((y - 1) + w.dy * (z - 1))))
  ELSE 3

Neg(k) == k <= 1
Close(k) == k \in {1, 2}

Off == << <<0,0,0>>, <<1,0,0>>, <<1,1,0>>, <<0,1,0>>,
          <<0,0,1>>, <<1,0,1>>, <<1,1,1>>, <<0,1,1>> >>

Bit(m, i) == (m \div Pow(2, i)) % 2
Unset == <<-9, -9, -9>>     \* the zero value of points[]: never a mesh vertex

Add3(p, q) == <<p[1] + q[1], p[2] + q[2], p[3] + q[3]>>
Dbl(p) == <<2 * p[1], 2 * p[2], 2 * p[3]>>

\* mcInterpolate on classes
Interp(pa, pb, ka, kb) ==
  IF Close(ka) /\ ~Close(kb) THEN Dbl(pa)
  ELSE IF Close(kb) /\ ~Close(ka) THEN Dbl(pb)
  ELSE Add3(pa, pb)

ConfigIndex(cv) ==
    (IF Neg(cv[1]) THEN 1 ELSE 0) + (IF Neg(cv[2]) THEN 2 ELSE 0)
  + (IF Neg(cv[3]) THEN 4 ELSE 0) + (IF Neg(cv[4]) THEN 8 ELSE 0)
  + (IF Neg(cv[5]) THEN 16 ELSE 0) + (IF Neg(cv[6]) THEN 32 ELSE 0)
  + (IF Neg(cv[7]) THEN 64 ELSE 0) + (IF Neg(cv[8]) THEN 128 ELSE 0)

\* mcToTriangles for the cell whose low corner is o, with corner classes cv (1..8)
CellTrisOf(o, cv) ==
  LET idx == ConfigIndex(cv)
      mask == mcEdge[idx + 1]
      pt(e) == IF Bit(mask, e) = 1
               THEN LET a == mcPair[e + 1][1]
                        b == mcPair[e + 1][2]
                    IN Interp(Add3(o, Off[a + 1]), Add3(o, Off[b + 1]), cv[a + 1], cv[b + 1])
               ELSE Unset
      tab == mcTri[idx + 1]
      n == Len(tab) \div 3
      tri(i) == <<pt(tab[3 * i + 3]), pt(tab[3 * i + 2]), pt(tab[3 * i + 1])>>
      keep(t) == t[1] # t[2] /\ t[2] # t[3] /\ t[3] # t[1]
  IN IF mask = 0 THEN <<>> ELSE SelectSeq([i \in 1..n |-> tri(i - 1)], keep)

CellTris(w, cx, cy, cz) ==
  CellTrisOf(<<cx, cy, cz>>,
             [i \in 1..8 |-> Cls(w, cx + Off[i][1], cy + Off[i][2], cz + Off[i][3])])

\* cells in the order the uniform renderer visits them (x outer, z inner)
CellSeq(w) == [k \in 1..((w.dx + 1) * (w.dy + 1) * (w.dz + 1)) |->
                LET j == k - 1
                IN <<j \div ((w.dy + 1) * (w.dz + 1)), (j \div (w.dz + 1)) % (w.dy + 1), j % (w.dz + 1)>>]

RECURSIVE Flatten(_)
Flatten(ss) == IF ss = <<>> THEN <<>> ELSE Head(ss) \o Flatten(Tail(ss))

WorldTris(w) == LET cs == CellSeq(w)
                IN Flatten([k \in 1..Len(cs) |-> CellTris(w, cs[k][1], cs[k][2], cs[k][3])])

\* ---- properties of a triangle sequence (used on the model and on real meshes) ----
EdgesOf(ts) == Flatten([i \in 1..Len(ts) |->
                 << <<ts[i][1], ts[i][2]>>, <<ts[i][2], ts[i][3]>>, <<ts[i][3], ts[i][1]>> >>])
Count(E, e) == Cardinality({i \in 1..Len(E) : E[i] = e})
Balanced(ts) == LET E == EdgesOf(ts)
                IN \A i \in 1..Len(E) : Count(E, E[i]) = Count(E, <<E[i][2], E[i][1]>>)
NoDegenerate(ts) == \A i \in 1..Len(ts) :
                      ts[i][1] # ts[i][2] /\ ts[i][2] # ts[i][3] /\ ts[i][3] # ts[i][1]
Det3(a, b, c) == a[1] * (b[2] * c[3] - b[3] * c[2])
               - a[2] * (b[1] * c[3] - b[3] * c[1])
               + a[3] * (b[1] * c[2] - b[2] * c[1])
RECURSIVE SumDet(_, _)
SumDet(ts, i) == IF i > Len(ts) THEN 0 ELSE Det3(ts[i][1], ts[i][2], ts[i][3]) + SumDet(ts, i + 1)
Vol48(ts) == SumDet(ts, 1)      \* 6 * volume in doubled coordinates
NoUnset(ts) == \A i \in 1..Len(ts) : \A j \in 1..3 : ts[i][j] # Unset

HasN(w) == \E i \in 0..(NDigits(w) - 1) : ClassOf(w.base, Digit(w, i)) = 0

\* every vertex lies on a lattice edge whose end classes straddle, or on a corner within eps of 0
GCls(w, p) == Cls(w, p[1], p[2], p[3])
IsCorner(v) == v[1] % 2 = 0 /\ v[2] % 2 = 0 /\ v[3] % 2 = 0
Half(v) == <<v[1] \div 2, v[2] \div 2, v[3] \div 2>>
OnSurfaceVertex(w, v) ==
  IF IsCorner(v) THEN Close(GCls(w, Half(v)))
  ELSE LET odd == {a \in 1..3 : v[a] % 2 # 0}
       IN /\ Cardinality(odd) = 1
          /\ LET a == CHOOSE a \in odd : TRUE
                 lo == [v EXCEPT ![a] = v[a] - 1]
                 hi2 == [v EXCEPT ![a] = v[a] + 1]
             IN Neg(GCls(w, Half(lo))) # Neg(GCls(w, Half(hi2)))
VerticesOnSurface(w, ts) == \A i \in 1..Len(ts) : \A j \in 1..3 : OnSurfaceVertex(w, ts[i][j])

\* C06 "normals agree with the gradient", on class worlds: each vertex of a triangle sits on a lattice
\* edge with a negative and a non-negative end; Dir(v) is the unit step from the negative to the other
\* end (zero for a vertex snapped onto a corner).  The normal (solid -> void) must have a positive
\* component along the sum of the three directions.
DirOf(w, v) ==
  IF IsCorner(v) THEN <<0, 0, 0>>
  ELSE LET a == CHOOSE a \in 1..3 : v[a] % 2 # 0
           lo == [v EXCEPT ![a] = v[a] - 1]
           e == [i \in 1..3 |-> IF i = a THEN 1 ELSE 0]
       IN IF Neg(GCls(w, Half(lo))) THEN e ELSE <<-e[1], -e[2], -e[3]>>
Cross3(p, q) == <<p[2] * q[3] - p[3] * q[2], p[3] * q[1] - p[1] * q[3], p[1] * q[2] - p[2] * q[1]>>
Sub3(p, q) == <<p[1] - q[1], p[2] - q[2], p[3] - q[3]>>
Dot3(p, q) == p[1] * q[1] + p[2] * q[2] + p[3] * q[3]
TriOriented(w, t) ==
  LET n == Cross3(Sub3(t[2], t[1]), Sub3(t[3], t[1]))
      d == Add3(Add3(DirOf(w, t[1]), DirOf(w, t[2])), DirOf(w, t[3]))
  IN n = <<0, 0, 0>> \/ d = <<0, 0, 0>> \/ Dot3(n, d) > 0
LocalOriented(w, ts) == \A i \in 1..Len(ts) : TriOriented(w, ts[i])

\* triangles as a bag modulo rotation of the triple (winding preserved)
MinIdx(t) == CHOOSE i \in 1..3 : \A j \in 1..3 : 
               \/ t[i][1] < t[j][1]
               \/ (t[i][1] = t[j][1] /\ t[i][2] < t[j][2])
               \/ (t[i][1] = t[j][1] /\ t[i][2] = t[j][2] /\ t[i][3] <= t[j][3])
Canon(t) == LET i == MinIdx(t) IN <<t[i], t[(i % 3) + 1], t[((i + 1) % 3) + 1]>>
SameBag(A, B) == LET CA == [i \in 1..Len(A) |-> Canon(A[i])]
                     CB == [i \in 1..Len(B) |-> Canon(B[i])]
                 IN /\ Len(A) = Len(B)
                    /\ \A i \in 1..Len(CA) : Count(CA, CA[i]) = Count(CB, CA[i])

\* ---- static table checks ----
EdgeMaskOK == \A idx \in 0..255 : \A e \in 0..11 :
                (Bit(mcEdge[idx + 1], e) = 1) <=>
                (Bit(idx, mcPair[e + 1][1]) # Bit(idx, mcPair[e + 1][2]))
UsesOnlyMasked == \A idx \in 0..255 : \A k \in 1..Len(mcTri[idx + 1]) :
                    Bit(mcEdge[idx + 1], mcTri[idx + 1][k]) = 1
TablesShape == /\ Len(mcEdge) = 256 /\ Len(mcTri) = 256 /\ Len(mcPair) = 12
               /\ \A idx \in 0..255 : Len(mcTri[idx + 1]) % 3 = 0
=============================================================================
