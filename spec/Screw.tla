-------------------------------- MODULE Screw --------------------------------
(* C18 - the helical map of Screw3D on the (angle, z) lattice.                  *)
(*                                                                              *)
(* Rectangular thread profile, pitch 4: root cylinder of radius 2, one tooth    *)
(* per pitch, |x| < 1, up to radius 3.  A point of space is                      *)
(*    angle = k * 45 degrees,  z = zq / 4,  radius = rho2 / 2                    *)
(* A RIGHT-HANDED screw with s starts (s < 0: left-handed) is the set           *)
(*    { p : profile( z - s * pitch * angle / 360 degrees  (mod pitch), radius ) }*)
(* i.e. the tooth climbs by lead/8 = s/2 (2s quarter units) per eighth turn     *)
(* counter-clockwise seen from +z.  Everything in quarter units: period 16,     *)
(* tooth |xq| < 4.                                                              *)
EXTENDS Integers

Cent16(w) == ((w + 8) % 16) - 8                 \* representative in -8..7
ProfXq(s, k, zq) == Cent16(zq - 2 * s * k)      \* profile abscissa of the point, quarter units
Abs(x) == IF x < 0 THEN -x ELSE x
\* -1 inside the material, 0 on the surface, 1 outside
Cls(s, k, zq, rho2) ==
  IF rho2 < 4 THEN -1
  ELSE IF rho2 > 6 THEN 1
  ELSE IF rho2 = 4 \/ rho2 = 6 THEN (IF Abs(ProfXq(s, k, zq)) <= 4 \/ rho2 = 4 THEN 0 ELSE 1)
  ELSE IF Abs(ProfXq(s, k, zq)) < 4 THEN -1
  ELSE IF Abs(ProfXq(s, k, zq)) = 4 THEN 0 ELSE 1

\* the property on the model -------------------------------------------------
\* invariant under "rotate by one eighth turn, advance s * pitch / 8"
HelixInvariant(s, k, zq, rho2) == Cls(s, k, zq, rho2) = Cls(s, k + 1, zq + 2 * s, rho2)
\* periodic in z with the pitch (16 quarter units), whatever the number of starts
Periodic(s, k, zq, rho2) == Cls(s, k, zq, rho2) = Cls(s, k, zq + 16, rho2)
\* a full turn is the identity (the atan2 branch cut is invisible)
FullTurn(s, k, zq, rho2) == Cls(s, k, zq, rho2) = Cls(s, k + 8, zq, rho2)
\* absolute handedness: the marker (tooth centre at angle 0, z = 0) is found again after every eighth turn
\* lead/8 further UP for s > 0 (DOWN for s < 0), and the mirror-image helix is not all material
Handed(s) == /\ \A k \in 0..7 : Cls(s, k, 2 * s * k, 5) = -1
             /\ \E k \in 0..7 : Cls(s, k, -2 * s * k, 5) = 1
=============================================================================
