------------------------------ MODULE ThreadsM ------------------------------
(* Candidate-enumeration machine for Threads.tla.  The state is one candidate   *)
(* designation drawn from the GRAMMAR (a superset of the standards):            *)
(*   M<d>x<P>        every ISO 261 diameter x every ISO pitch                    *)
(*   unc_/unf_n_tpi  every number size 0..12 x every number-size TPI            *)
(*   unc_/unf_<size> every fractional size of either unified table              *)
(*   npt_<size>      every NPT size                                             *)
(* CodeNames = the names found in the tree under test (harness, source scan).   *)
(* Prints one VEC per candidate, NOGRAMMAR for code names no candidate renders, *)
(* NOCODE for standard designations the code does not have.                     *)
EXTENDS Threads, Json
CONSTANTS CodeNames, Emit
VARIABLES phase, fam, a, b
vars == <<phase, fam, a, b>>

FracSizes == {UNCfrac[i][1] : i \in Rows(UNCfrac)} \cup {UNFfrac[i][1] : i \in Rows(UNFfrac)}
NptSizes == {NPT[i][1] : i \in Rows(NPT)}
Args(f) ==
  CASE f = "M" -> IsoDiams \X IsoPitches
    [] f \in {"uncn", "unfn"} -> (0..12) \X NumTpis
    [] f \in {"uncf", "unff"} -> FracSizes \X {0}
    [] f = "npt" -> NptSizes \X {0}
AllNames == UNION {{NameOf(f, x[1], x[2]) : x \in Args(f)} : f \in Fams}
RECURSIVE SumCard(_)
SumCard(S) == IF S = {} THEN 0 ELSE LET f == CHOOSE g \in S : TRUE IN Cardinality(Args(f)) + SumCard(S \ {f})
NCand == SumCard(Fams)

Init == phase = 0 /\ fam = "" /\ a = 0 /\ b = 0
PickFam == phase = 0 /\ phase' = 1 /\ fam' \in Fams /\ a' = a /\ b' = b
PickArgs == phase = 1 /\ phase' = 2 /\ fam' = fam /\ \E x \in Args(fam) : a' = x[1] /\ b' = x[2]
Next == PickFam \/ PickArgs
Spec == Init /\ [][Next]_vars

Vec == [name |-> NameOf(fam, a, b), fam |-> fam, a |-> a, b |-> b, code |-> NameOf(fam, a, b) \in CodeNames,
        std |-> Std(fam, a, b), er |-> ER(fam, a, b), ep |-> EP(fam, a, b), et |-> ET(fam)]

ThreadsOK ==
  /\ (phase = 0 =>
        /\ (DataOK \/ (PrintT(<<"MODELBAD", "DataOK">>) /\ FALSE))
        \* the grammar is unambiguous: no two candidates render the same name
        /\ ((Cardinality(AllNames) = NCand) \/ (PrintT(<<"MODELBAD", "NameOf-not-injective">>) /\ FALSE))
        /\ \A n \in CodeNames \ AllNames : PrintT(<<"NOGRAMMAR", n>>))
  /\ (phase = 2 =>
        /\ (Emit => PrintT(<<"VEC", ToJson(Vec)>>))
        /\ ((Vec.std # "none" /\ ~Vec.code) => PrintT(<<"NOCODE", Vec.name>>))
        \* every standard designation determines radius and pitch
        /\ ((Vec.std # "none" => (Vec.er > 0 /\ Vec.ep > 0)) \/ (PrintT(<<"MODELBAD", Vec.name>>) /\ FALSE)))
=============================================================================
