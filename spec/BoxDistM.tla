------------------------------- MODULE BoxDistM -------------------------------
(* Enumeration machine for BoxDist.tla: the state is a box; the invariant       *)
(* quantifies over every lattice point of the window.                           *)
(*   boxes : every integer box lo <= hi inside [0..BMax]^Dim (degenerate ones   *)
(*           included: the bounding box of a line has a zero extent)            *)
(*   points: every point of [-Margin .. BMax+Margin]^Dim  -> all 9 / 27         *)
(*           position classes, faces, edges and corners themselves included     *)
(* phase 0 -> 1 picks the x extent, 1 -> 2 the other extents (workers share).   *)
EXTENDS BoxDist, Json
CONSTANTS Dim, BMax, Margin, Brute, Emit
VARIABLES phase, lo, hi
vars == <<phase, lo, hi>>
Ext == {<<a, b>> : a \in 0..BMax, b \in 0..BMax} \cap {e \in (0..BMax) \X (0..BMax) : e[1] <= e[2]}
Zero == [a \in 1..Dim |-> 0]
Init == phase = 0 /\ lo = Zero /\ hi = Zero
PickX == /\ phase = 0 /\ phase' = 1
         /\ \E e \in Ext : lo' = [lo EXCEPT ![1] = e[1]] /\ hi' = [hi EXCEPT ![1] = e[2]]
PickRest ==
  /\ phase = 1 /\ phase' = 2
  /\ IF Dim = 2
     THEN \E e \in Ext : lo' = [lo EXCEPT ![2] = e[1]] /\ hi' = [hi EXCEPT ![2] = e[2]]
     ELSE \E e \in Ext, f \in Ext : /\ lo' = [lo EXCEPT ![2] = e[1], ![3] = f[1]]
                                    /\ hi' = [hi EXCEPT ![2] = e[2], ![3] = f[2]]
Next == PickX \/ PickRest
Spec == Init /\ [][Next]_vars

W == (0 - Margin)..(BMax + Margin)
Points == IF Dim = 2 THEN {<<x, y>> : x \in W, y \in W} ELSE {<<x, y, z>> : x \in W, y \in W, z \in W}

\* the definition agrees with brute force over the lattice points of the box, the axis-wise maximum
\* with the farthest corner, and the axis-wise vertex minimum with the literal eight-vertex loop
OracleOK ==
  \A p \in Points :
    /\ MaxD2axis(lo, hi, p) = MaxD2true(lo, hi, p)
    /\ (Dim = 3 => VMinMax3(lo, hi, p) = Vertex8(lo, hi, p))
    /\ (Brute => /\ MinD2true(lo, hi, p) = MinD2brute(lo, hi, p)
                 /\ MaxD2true(lo, hi, p) = MaxD2brute(lo, hi, p))
    /\ MinD2true(lo, hi, p) <= MaxD2true(lo, hi, p)
    /\ (MinD2true(lo, hi, p) = 0) = (\A a \in 1..Dim : lo[a] <= p[a] /\ p[a] <= hi[a])

\* where does the code, as written, differ from the definition?  (a model-level finding: it is
\* replayed on the real code, which alone gives the verdict)
DiffMin == {p \in Points : MinMaxCode(lo, hi, p)[1] # MinD2true(lo, hi, p)}
DiffMax == {p \in Points : MinMaxCode(lo, hi, p)[2] # MaxD2axis(lo, hi, p)}
Some(S) == CHOOSE p \in S : TRUE
BoxOK == phase = 2 =>
  /\ OracleOK
  /\ (Emit => PrintT(<<"VEC", ToJson([t |-> "grid", d |-> Dim, lo |-> lo, hi |-> hi, m |-> Margin,
                                      n |-> BMax + 2 * Margin + 1])>>))
  /\ (IF DiffMin # {} \/ DiffMax # {}
      THEN PrintT(<<"MODELBAD", ToJson([d |-> Dim, lo |-> lo, hi |-> hi,
                     minregions |-> {Region(lo, hi, p) : p \in DiffMin},
                     nmin |-> Cardinality(DiffMin), nmax |-> Cardinality(DiffMax)])>>)
      ELSE TRUE)
\* position classes seen for this box (vacuity guard, printed once per box when Emit is off)
=============================================================================
