------------------------------- MODULE Cache -------------------------------
(* C02, cache clause: sdf.Cache2D (sdf/cache2.go) as a state machine.  Points   *)
(* 1 = (+0,1), 2 = (-0,1) (equal as map keys), 3 = (2,3); F is the wrapped      *)
(* shape.  Every query history of length <= MaxLen is explored; the invariant   *)
(* is the property: every returned value is the wrapped shape's own value and   *)
(* every stored entry is correct.  Each complete history is replayed against    *)
(* the real Cache2D over a counting spy operand.                                *)
EXTENDS Integers, Sequences, TLC, Json
CONSTANT MaxLen
Points == 1..3
Key(p) == IF p = 2 THEN 1 ELSE p            \* +0 and -0 are the same map key
F(p) == IF p = 3 THEN 1 ELSE -1             \* wrapped values (exact integers for the spy operand)
VARIABLES hist, cache, calls, rets
vars == <<hist, cache, calls, rets>>
Init == hist = <<>> /\ cache = [x \in {} |-> 0] /\ calls = 0 /\ rets = <<>>
Query(p) ==
  /\ Len(hist) < MaxLen
  /\ hist' = Append(hist, p)
  /\ IF Key(p) \in DOMAIN cache
     THEN /\ rets' = Append(rets, cache[Key(p)]) /\ cache' = cache /\ calls' = calls
     ELSE /\ rets' = Append(rets, F(p)) /\ calls' = calls + 1
          /\ cache' = [x \in DOMAIN cache \cup {Key(p)} |-> IF x = Key(p) THEN F(p) ELSE cache[x]]
Next == \E p \in Points : Query(p)
Spec == Init /\ [][Next]_vars
ReturnsWrapped == \A i \in 1..Len(hist) : rets[i] = F(hist[i])
CacheCorrect == \A x \in DOMAIN cache : cache[x] = F(x)
Export == Len(hist) >= 1 => PrintT(<<"VEC", ToJson([h |-> hist, calls |-> calls])>>)
=============================================================================
