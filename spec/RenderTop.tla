------------------------------- MODULE RenderTop -------------------------------
(* Goroutine accounting of a history of render calls (render/render.go,        *)
(* render/march3.go evalRoutines):  every ToX call starts one writer goroutine *)
(* that exits before the call returns; the uniform marching-cubes renderer     *)
(* calls evalRoutines(), which starts W = NumCPU workers ranging over a global *)
(* channel that is never closed.                                               *)
(*   PoolOnce = FALSE : evalRoutines starts W new workers on EVERY call        *)
(*                      (the code at the pinned commit)                        *)
(*   PoolOnce = TRUE  : the pool is started once                               *)
EXTENDS Integers, TLC
CONSTANTS W, K, PoolOnce
VARIABLES k,        \* renders completed
          phase,    \* "idle" | "rendering"
          workers,  \* evaluation workers alive
          writers   \* writer goroutines alive
vars == <<k, phase, workers, writers>>
Init == k = 0 /\ phase = "idle" /\ workers = 0 /\ writers = 0
StartRender(uniform) ==
  /\ phase = "idle" /\ k < K
  /\ phase' = "rendering" /\ writers' = writers + 1
  /\ workers' = IF uniform /\ (~PoolOnce \/ workers = 0) THEN workers + W ELSE workers
  /\ k' = k
Return == /\ phase = "rendering" /\ phase' = "idle" /\ writers' = writers - 1 /\ k' = k + 1 /\ workers' = workers
Next == StartRender(TRUE) \/ StartRender(FALSE) \/ Return
Spec == Init /\ [][Next]_vars
\* the number of goroutines alive after k renders is bounded by a constant independent of k
BoundedGoroutines == phase = "idle" => workers + writers <= W
=============================================================================
