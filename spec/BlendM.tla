------------------------------- MODULE BlendM -------------------------------
(* Grid-enumeration machine for Blend.tla: a = A/4, b = B/4, k = K/4 with       *)
(* |A|,|B| <= AMax, 1 <= K <= KMax; the state is the case.                      *)
EXTENDS Blend
CONSTANTS AMax, KMax
VARIABLES phase, a, b, k
vars == <<phase, a, b, k>>
Init == phase = 0 /\ a = 0 /\ b = 0 /\ k = 1
PickA == phase = 0 /\ phase' = 1 /\ a' \in (-AMax)..AMax /\ b' = b /\ k' = k
PickBK == phase = 1 /\ phase' = 2 /\ a' = a /\ b' \in (-AMax)..AMax /\ k' \in 1..KMax
Next == PickA \/ PickBK
Spec == Init /\ [][Next]_vars
CaseOK == phase = 2 =>
  /\ PrintT(<<"VEC", ToJson([a |-> a, b |-> b, k |-> k])>>)
  /\ (Laws(a, b, k) \/ (PrintT(<<"MODELBAD", ToJson([a |-> a, b |-> b, k |-> k])>>) /\ FALSE))
=============================================================================
