------------------------------- MODULE PipeCoreN-------------------------------
(* PipeCore.tla with NP concurrent producers sharing the buffer (the octree and *)
(* quadtree renderers write from several goroutines).  Same unbounded check:   *)
(* The NP-producer core of Pipeline.tla (collector writer, no faults) with     *)
(* type annotations, for an UNBOUNDED check with Apalache: any threshold T >= 1, *)
(* any batch sizes, any number of writes.  IndInv is inductive:                 *)
(*     Init => IndInv          IndInv /\ Next => IndInv'                         *)
(* and implies sequence conservation (Conservation) and AtReturn.               *)
(* Items are numbered in append order, so contents are intervals.               *)
EXTENDS Integers

CONSTANT
    \* @type: Int;
    T

VARIABLES
    \* @type: Str;
    pc,        \* caller: "render" | "closing" | "close" | "wait" | "returned"
    \* @type: Int -> Str;
    ppc,       \* producer p: "ready" | "sending" | "done"
    \* @type: Int;
    lock,      \* 0 free, p = producer p, NP+1 closer
    \* @type: Int;
    bufLo,
    \* @type: Int;
    bufLen,
    \* @type: Bool;
    offerOn,   \* a blocked sender offers the slice [offerLo+1 .. offerLo+offerLen]
    \* @type: Int;
    offerLo,
    \* @type: Int;
    offerLen,
    \* @type: Bool;
    curOn,     \* the writer iterates [curLo+1 .. curLo+curLen], curI items done
    \* @type: Int;
    curLo,
    \* @type: Int;
    curLen,
    \* @type: Int;
    curI,
    \* @type: Int;
    delivered,
    \* @type: Int;
    written,
    \* @type: Str;
    wpc,       \* writer: "run" | "final" | "exited"
    \* @type: Bool;
    chClosed

vars == <<pc, ppc, lock, bufLo, bufLen, offerOn, offerLo, offerLen, curOn, curLo, curLen, curI, delivered, written, wpc, chClosed>>

NP == 3
Prod == 1..NP
Closer == NP + 1
CInit == T \in Nat /\ T >= 1

Init == /\ pc = "render" /\ ppc = [p \in Prod |-> "ready"] /\ lock = 0 /\ bufLo = 0 /\ bufLen = 0
        /\ offerOn = FALSE /\ offerLo = 0 /\ offerLen = 0
        /\ curOn = FALSE /\ curLo = 0 /\ curLen = 0 /\ curI = 0
        /\ delivered = 0 /\ written = 0 /\ wpc = "run" /\ chClosed = FALSE

\* buffer.Write with a batch of n items (any n >= 0); TLC overrides BatchSize with a finite set
BatchSize == Nat
Write == \E n \in BatchSize, p \in Prod :
  /\ pc = "render" /\ ppc[p] = "ready" /\ lock = 0
  /\ written' = written + n /\ bufLen' = bufLen + n
  /\ IF bufLen + n >= T
     THEN /\ offerOn' = TRUE /\ offerLo' = bufLo /\ offerLen' = bufLen + n
          /\ lock' = p /\ ppc' = [ppc EXCEPT ![p] = "sending"]
     ELSE /\ UNCHANGED <<offerOn, offerLo, offerLen>> /\ lock' = 0 /\ ppc' = ppc
  /\ UNCHANGED <<pc, bufLo, curOn, curLo, curLen, curI, delivered, wpc, chClosed>>
SendDone == \E p \in Prod :
  /\ ppc[p] = "sending" /\ lock = p /\ ~offerOn
  /\ bufLo' = bufLo + bufLen /\ bufLen' = 0 /\ lock' = 0 /\ ppc' = [ppc EXCEPT ![p] = "ready"]
  /\ UNCHANGED <<pc, offerOn, offerLo, offerLen, curOn, curLo, curLen, curI, delivered, written, wpc, chClosed>>
Finish == \E p \in Prod : /\ pc = "render" /\ ppc[p] = "ready" /\ ppc' = [ppc EXCEPT ![p] = "done"]
          /\ UNCHANGED <<pc, lock, bufLo, bufLen, offerOn, offerLo, offerLen, curOn, curLo, curLen, curI, delivered, written, wpc, chClosed>>
CloseBuffer ==
  /\ pc = "render" /\ (\A p \in Prod : ppc[p] = "done") /\ lock = 0
  /\ IF bufLen # 0
     THEN /\ offerOn' = TRUE /\ offerLo' = bufLo /\ offerLen' = bufLen /\ lock' = Closer /\ pc' = "closing"
     ELSE /\ UNCHANGED <<offerOn, offerLo, offerLen>> /\ lock' = 0 /\ pc' = "close"
  /\ UNCHANGED <<ppc, bufLo, bufLen, curOn, curLo, curLen, curI, delivered, written, wpc, chClosed>>
CloseSendDone ==
  /\ pc = "closing" /\ lock = Closer /\ ~offerOn
  /\ bufLo' = bufLo + bufLen /\ bufLen' = 0 /\ lock' = 0 /\ pc' = "close"
  /\ UNCHANGED <<ppc, offerOn, offerLo, offerLen, curOn, curLo, curLen, curI, delivered, written, wpc, chClosed>>
CloseChannel == /\ pc = "close" /\ pc' = "wait" /\ chClosed' = TRUE
                /\ UNCHANGED <<ppc, lock, bufLo, bufLen, offerOn, offerLo, offerLen, curOn, curLo, curLen, curI, delivered, written, wpc>>
Return == /\ pc = "wait" /\ wpc = "exited" /\ pc' = "returned"
          /\ UNCHANGED <<ppc, lock, bufLo, bufLen, offerOn, offerLo, offerLen, curOn, curLo, curLen, curI, delivered, written, wpc, chClosed>>
Recv == /\ wpc = "run" /\ ~curOn /\ offerOn
        /\ curOn' = TRUE /\ curLo' = offerLo /\ curLen' = offerLen /\ curI' = 0
        /\ offerOn' = FALSE /\ offerLo' = 0 /\ offerLen' = 0
        /\ UNCHANGED <<pc, ppc, lock, bufLo, bufLen, delivered, written, wpc, chClosed>>
Consume == /\ wpc = "run" /\ curOn /\ curI < curLen
           /\ curI' = curI + 1 /\ delivered' = delivered + 1
           /\ UNCHANGED <<pc, ppc, lock, bufLo, bufLen, offerOn, offerLo, offerLen, curOn, curLo, curLen, written, wpc, chClosed>>
BatchDone == /\ wpc = "run" /\ curOn /\ curI = curLen
             /\ curOn' = FALSE /\ curLo' = 0 /\ curLen' = 0 /\ curI' = 0
             /\ UNCHANGED <<pc, ppc, lock, bufLo, bufLen, offerOn, offerLo, offerLen, delivered, written, wpc, chClosed>>
EndOfStream == /\ wpc = "run" /\ ~curOn /\ ~offerOn /\ chClosed /\ wpc' = "final"
               /\ UNCHANGED <<pc, ppc, lock, bufLo, bufLen, offerOn, offerLo, offerLen, curOn, curLo, curLen, curI, delivered, written, chClosed>>
Finalise == /\ wpc = "final" /\ wpc' = "exited"
            /\ UNCHANGED <<pc, ppc, lock, bufLo, bufLen, offerOn, offerLo, offerLen, curOn, curLo, curLen, curI, delivered, written, chClosed>>

Next == Write \/ SendDone \/ Finish \/ CloseBuffer \/ CloseSendDone \/ CloseChannel \/ Return
        \/ Recv \/ Consume \/ BatchDone \/ EndOfStream \/ Finalise

Spec == Init /\ [][Next]_vars

\* ---- the properties
InFlight == (IF offerOn THEN offerLen ELSE 0) + (IF curOn THEN curLen - curI ELSE 0)
Conservation ==
  /\ delivered + InFlight + (IF lock # 0 THEN 0 ELSE bufLen) = written
  /\ (curOn => curLo + curI = delivered)
  /\ ((~curOn /\ offerOn) => offerLo = delivered)
AtReturn == pc = "returned" => (delivered = written /\ bufLen = 0 /\ ~offerOn /\ ~curOn)

\* ---- the inductive invariant
TypeOK ==
  /\ pc \in {"render", "closing", "close", "wait", "returned"}
  /\ ppc \in [Prod -> {"ready", "sending", "done"}]
  /\ wpc \in {"run", "final", "exited"}
  /\ lock \in 0..Closer
  /\ bufLo >= 0 /\ bufLen >= 0 /\ offerLo >= 0 /\ offerLen >= 0 /\ curLo >= 0 /\ curLen >= 0
  /\ curI >= 0 /\ delivered >= 0 /\ written >= 0 /\ T >= 1
IndInv ==
  /\ TypeOK
  /\ Conservation
  /\ AtReturn
  \* who holds the lock
  /\ (\A p \in Prod : (lock = p <=> ppc[p] = "sending"))
  /\ (lock = Closer <=> pc = "closing")
  /\ (\A p \in Prod : (ppc[p] = "sending" => pc = "render"))
  /\ (pc # "render" => (\A p \in Prod : ppc[p] = "done"))
  \* the buffer holds the newest items
  /\ bufLo + bufLen = written
  /\ (lock = 0 => bufLen < T)
  \* a pending offer is the whole buffer of the blocked sender
  /\ (offerOn => (lock # 0 /\ offerLo = bufLo /\ offerLen = bufLen /\ offerLen >= 1))
  \* the slice the writer iterates lies below the buffer (or is the buffer of a sender not yet resumed)
  /\ (curOn => (curI <= curLen /\ curLen >= 1
                /\ ((lock # 0 /\ ~offerOn /\ curLo = bufLo /\ curLen = bufLen)
                    \/ curLo + curLen = (IF lock # 0 THEN bufLo ELSE bufLo))))
  /\ ((curOn /\ ~(lock # 0 /\ ~offerOn /\ curLo = bufLo)) => curLo + curLen = bufLo)
  \* a sender that is no longer offering has been received from
  /\ ((lock # 0 /\ ~offerOn) => ((curOn /\ curLo = bufLo /\ curLen = bufLen) \/ delivered = bufLo + bufLen))
  /\ ((lock # 0 /\ ~offerOn) => bufLen >= 1)
  \* with nothing in flight everything below the buffer has been delivered
  /\ ((~curOn /\ ~offerOn /\ lock = 0) => delivered = bufLo)
  \* channel / writer life cycle
  /\ (chClosed <=> pc \in {"wait", "returned"})
  /\ (wpc # "run" => (chClosed /\ ~curOn /\ ~offerOn))
  /\ (pc \in {"close", "wait", "returned"} => (bufLen = 0 /\ lock = 0))
  /\ (pc = "returned" => wpc = "exited")
  \* canonical form of the unused fields (makes the refinement mapping from Pipeline.tla a function)
  /\ (~offerOn => (offerLo = 0 /\ offerLen = 0))
  /\ (~curOn => (curLo = 0 /\ curLen = 0 /\ curI = 0))
\* Apalache needs an initial predicate that assigns every variable from a set: any state of the right type ...
TypeAssign ==
  /\ pc \in {"render", "closing", "close", "wait", "returned"}
  /\ ppc \in [Prod -> {"ready", "sending", "done"}]
  /\ wpc \in {"run", "final", "exited"}
  /\ lock \in 0..Closer
  /\ bufLo \in Nat /\ bufLen \in Nat /\ offerLo \in Nat /\ offerLen \in Nat /\ curLo \in Nat /\ curLen \in Nat
  /\ curI \in Nat /\ delivered \in Nat /\ written \in Nat
  /\ offerOn \in BOOLEAN /\ curOn \in BOOLEAN /\ chClosed \in BOOLEAN
\* ... that satisfies the invariant
IndInit == TypeAssign /\ IndInv
=============================================================================
