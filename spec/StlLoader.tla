------------------------------ MODULE StlLoader ------------------------------
(* C14 - the decision procedure of render.LoadSTL (render/stl.go) over ABSTRACT  *)
(* files.  A file is seen as                                                     *)
(*    size            its length in bytes                                        *)
(*    hc              the little-endian u32 at bytes 80..83 (two 16-bit halves)   *)
(*    lines           the text view: a sequence of LINE KINDS, as bufio.Scanner   *)
(*                    + strings.Fields + strconv.ParseFloat classify them         *)
(* Outcome: [out |-> "Err" | "Mesh" | "Panic", n, idx, len]                       *)
(* ("Hang" and "OverAlloc" have no transition in the model: the code reads a      *)
(* regular file once and allocates by a count that the size test has validated;   *)
(* they exist as outcome classes of REAL observations, see StlLoaderTrace.)       *)
(*                                                                               *)
(* The ASCII grouping is written AS THE CODE DOES IT                              *)
(*      for i := 0; i < len(v); i += 3 { ... v[i+0], v[i+1], v[i+2] ... }         *)
(* so the model itself predicts Panic (index out of range) when the number of     *)
(* vertex lines is not a multiple of three.  Guard = TRUE is the repaired         *)
(* procedure (an error instead of the unchecked index).                           *)
EXTENDS Integers, Sequences, TLC

Kinds == <<"VertexOK", "VertexBadFloat", "VertexShort", "VertexLong",
           "Keyword", "Garbage", "Empty", "Overlong">>
Layouts == <<"short", "text", "binExact", "binTrunc", "binLong", "binHuge", "binWrap">>

HdrLen == 84          \* STLHeader: 80 bytes + u32 count
RecLen == 50          \* STLTriangle: 12 float32 + u16

Err == [out |-> "Err", n |-> 0, idx |-> 0, len |-> 0]
Mesh(k) == [out |-> "Mesh", n |-> k, idx |-> 0, len |-> 0]
Panic(i, l) == [out |-> "Panic", n |-> 0, idx |-> i, len |-> l]

\* ---- the scanner loop: for scanner.Scan() { fields; if vertex ... parseFloats ... append }
\* result: number of vertices collected and why the loop ended
RECURSIVE ScanFrom(_, _, _)
ScanFrom(lines, i, nv) ==
  IF i > Len(lines) THEN [nv |-> nv, stop |-> "eof"]
  ELSE IF lines[i] = "VertexOK" THEN ScanFrom(lines, i + 1, nv + 1)
  ELSE IF lines[i] = "VertexBadFloat" THEN [nv |-> nv, stop |-> "badfloat"]   \* return nil, err
  ELSE IF lines[i] = "Overlong" THEN [nv |-> nv, stop |-> "toolong"]          \* Scan() = false, Err() = ErrTooLong
  ELSE ScanFrom(lines, i + 1, nv)     \* len(fields) # 4 or fields[0] # "vertex": ignored
Scan(lines) == ScanFrom(lines, 1, 0)

\* ---- "make triangles out of every 3 vertices", index arithmetic as in the code
RECURSIVE Group(_, _, _)
Group(nv, i, n) ==
  IF i >= nv THEN Mesh(n)
  ELSE IF i + 1 >= nv THEN Panic(i + 1, nv)        \* v[i+1]
  ELSE IF i + 2 >= nv THEN Panic(i + 2, nv)        \* v[i+2]
  ELSE Group(nv, i + 3, n + 1)

\* ---- loadSTLAscii
Ascii(s, guard) ==
  IF s.stop = "badfloat" THEN Err
  ELSE IF guard /\ (s.nv % 3) # 0 THEN Err
  ELSE LET g == Group(s.nv, 0, 0)
       IN IF g.out = "Panic" THEN g
          ELSE IF s.stop = "toolong" THEN Err       \* return mesh, scanner.Err()
          ELSE g

\* ---- LoadSTL: rel = "short" (size < 84: binary.Read of the header fails),
\*      "eq" (size = 84 + 50*count: binary path), "ne" (ASCII path)
Decide(rel, hc, s, guard) ==
  IF rel = "short" THEN Err
  ELSE IF rel = "eq" THEN Mesh(hc)     \* make([]*Triangle3, hc); hc reads succeed because the size is exact
  ELSE Ascii(s, guard)

\* size test on real numbers; hc = hi * 65536 + lo is only formed when it is small
Rel(size, hi, lo) ==
  IF size < HdrLen THEN "short"
  ELSE IF hi < 16384 /\ ((size - HdrLen) % RecLen) = 0 /\ ((size - HdrLen) \div RecLen) = hi * 65536 + lo
       THEN "eq" ELSE "ne"

\* the relation a layout is meant to produce
LayoutRel(lay) == IF lay = "short" THEN "short" ELSE IF lay = "binExact" THEN "eq" ELSE "ne"

\* ---- allocation of the binary path: slice of hc pointers + hc triangles of 72 bytes, reached
\* only when size = 84 + 50*hc: bounded by 2 * size whatever the count
BinAlloc(hc) == 80 * hc
BinSize(hc) == HdrLen + RecLen * hc
ASSUME \A h \in {0, 1, 2, 3, 1000, 65535, 65536, 10000000} : BinAlloc(h) <= 2 * BinSize(h)

Total(o) == o.out \in {"Err", "Mesh"}
=============================================================================
