--------------------------- MODULE MarchSquares ---------------------------
(* World-enumeration machine over MS2 (see MarchCubes.tla). *)
EXTENDS MS2
CONSTANTS DX, DY, Base, LoDigits, Emit,
          Sample, Seed    \* Sample = 0: exhaustive; else that many pseudo-random worlds (LCG from Seed)
VARIABLES phase, hi, code
vars == <<phase, hi, code>>
W(c) == World(DX, DY, Base, c)
LoN == Pow(Base, LoDigits)
HiN == Pow(Base, DX * DY - LoDigits)
Init == phase = 0 /\ hi = 0 /\ code = 0
\* a small linear congruential generator (all products stay below 2^31)
R(x) == (75 * (x % 65537) + 74) % 65537
PickHi == /\ phase = 0 /\ phase' = 1 /\ code' = 0
          /\ hi' \in 0..((IF Sample = 0 THEN HiN ELSE Sample) - 1)
PickLo == /\ phase = 1 /\ phase' = 2 /\ hi' = hi
          /\ IF Sample = 0
             THEN \E lo \in 0..(LoN - 1) : code' = hi * LoN + lo
             ELSE LET r1 == R(R(Seed * 31 + hi))
                      r2 == R(r1 + 7)
                  IN code' = (r1 % HiN) * LoN + (r2 % LoN)
Next == PickHi \/ PickLo
Spec == Init /\ [][Next]_vars
StaticOK == phase = 0 => (TablesShape /\ EdgeMaskOK /\ UsesOnlyMasked)
WorldOK == phase = 2 =>
  LET w == W(code)
      ls == WorldLines(w)
      deg2 == \A i \in 1..Len(ls) : \A j \in 1..2 : IsCorner(ls[i][j]) \/ Degree(ls, ls[i][j]) = 2
  IN /\ (EvenDegree(ls) \/ (PrintT(<<"MODELBAD", code, "open">>) /\ FALSE))
     /\ (deg2 \/ (PrintT(<<"MODELBAD", code, "degree">>) /\ FALSE))
     /\ (NoUnset(ls) \/ (PrintT(<<"MODELBAD", code, "unset">>) /\ FALSE))
     \* (the code's line table is not consistently oriented, and C08 does not ask for it)
     /\ (VerticesOnBoundary(w, ls) \/ (PrintT(<<"MODELBAD", code, "onboundary">>) /\ FALSE))
     /\ (Emit => PrintT(<<"VEC", code, Len(ls)>>))
=============================================================================
