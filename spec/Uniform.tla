------------------------------- MODULE Uniform -------------------------------
(* The uniform marching-cubes renderer on an exact lattice: lattice points     *)
(* 0..dims[a]+1 per axis (the bounding box of dims cells padded by one cell,   *)
(* as MarchingCubesUniform.Render sizes it), cells visited x outer, z inner.   *)
EXTENDS MC3, Scene3
NCells(d) == <<d[1] + 1, d[2] + 1, d[3] + 1>>
CellAt(d, k) == LET n == NCells(d)
                    j == k - 1
                IN <<j \div (n[2] * n[3]), (j \div n[3]) % n[2], j % n[3]>>
UniCellTris(scene, o) ==
  CellTrisOf(o, [i \in 1..8 |-> ClassOfVal(Num(scene, Add3(o, Off[i])))])
UniTris(scene, d) == LET n == NCells(d)
                     IN Flatten([k \in 1..(n[1] * n[2] * n[3]) |-> UniCellTris(scene, CellAt(d, k))])
\* lattice edges whose end values have strictly opposite signs
E3(i) == IF i = 1 THEN <<1, 0, 0>> ELSE IF i = 2 THEN <<0, 1, 0>> ELSE <<0, 0, 1>>
StrictEdges(scene, d) ==
  {<<a, ax>> \in ((0..(d[1] + 1)) \X (0..(d[2] + 1)) \X (0..(d[3] + 1))) \X (1..3) :
     /\ a[ax] <= d[ax]
     /\ LET va == Num(scene, a)
            vb == Num(scene, Add3(a, E3(ax)))
        IN (va < 0 /\ vb > 0) \/ (va > 0 /\ vb < 0)}
=============================================================================
