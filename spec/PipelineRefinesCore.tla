------------------------- MODULE PipelineRefinesCore -------------------------
(* Pipeline.tla with one producer, the collector writer and no fault IMPLEMENTS  *)
(* PipeCore.tla (whose inductive invariant Apalache discharges for unbounded     *)
(* thresholds and batch sizes) under the refinement mapping below.  TLC checks   *)
(* the implication Spec => Core!Spec on a bounded instance; the caller's create  *)
(* step is a stuttering step of the core.                                        *)
EXTENDS Pipeline
Core == INSTANCE PipeCore WITH
          pc <- IF pc = "create" THEN "render" ELSE pc,
          ppc <- ppc[1],
          offerOn <- offer # <<>>,
          offerLo <- IF offer = <<>> THEN 0 ELSE offer[1],
          offerLen <- IF offer = <<>> THEN 0 ELSE offer[2],
          curOn <- cur # <<>>,
          curLo <- IF cur = <<>> THEN 0 ELSE cur[1],
          curLen <- IF cur = <<>> THEN 0 ELSE cur[2],
          curI <- IF cur = <<>> THEN 0 ELSE cur[4],
          wpc <- IF wpc = "none" THEN "run" ELSE wpc
FiniteBatch == 0..64
CoreSpec == Core!Spec
CoreIndInv == Core!IndInv
=============================================================================
