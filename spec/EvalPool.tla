------------------------------- MODULE EvalPool -------------------------------
(* The evaluation pool of the uniform marching-cubes renderer                  *)
(* (render/march3.go: layerYZ.Evaluate, evalRoutines, evalProcessCh).          *)
(*                                                                             *)
(*   main (one per concurrent render r), for each layer:                       *)
(*      append points to eReq.p ; when len = BatchSize:                        *)
(*         wg.Add(1) ; ch <- eReq ; out = out[BatchSize:] ; p = fresh slice    *)
(*      send the remainder ; wg.Wait() ; (march the cells of the layer pair)   *)
(*   worker w (W of them, shared by all renders, started once):                *)
(*      for r := range ch { for i, p := range r.p { r.out[i] = fn(p) } ;       *)
(*                          r.wg.Done() }                                      *)
(*                                                                             *)
(* A batch message carries the slot range it writes (base, n) and the identity *)
(* of its point buffer.  A slot holds the set of (point) values written to it, *)
(* so "written once, with its own point" is checkable; point buffers are a     *)
(* small heap so that re-using a buffer that is still in flight is expressible *)
(* (Fresh = FALSE models `p = p[:0]` instead of a fresh slice).                *)
EXTENDS Integers, Sequences, FiniteSets, TLC, Json

CONSTANTS W,          \* workers
          NR,         \* concurrent renders
          N,          \* points per layer
          B,          \* batch size
          Layers,     \* layers per render
          Cap,        \* channel capacity
          Fresh,      \* TRUE: a fresh point slice per batch (the code); FALSE: the slice is reused
          Emit        \* print the schedule of every complete behaviour

VARIABLES mpc,        \* main r: "fill" | "wait" | "done"
          layer,      \* current layer of render r
          nextIdx,    \* next point index to append
          outBase,    \* offset of the shifted out slice
          cur,        \* <<bufId, seq of point indices>>: eReq.p being filled
          wg,         \* WaitGroup counter of render r (current layer)
          slots,      \* slots[r][i]: set of <<layer, point>> values stored in slot i during this layer
          heap,       \* heap[b]: contents of point buffer b as last written by its owner
          nextBuf,
          ch,         \* FIFO of messages [r, base, buf, n, lay]
          wst,        \* worker w: <<>> idle | message being processed
          wphase,     \* "idle" | "got" | "stored"
          marched,    \* marched[r]: layers whose values were consumed complete and correct
          hist
vars == <<mpc, layer, nextIdx, outBase, cur, wg, slots, heap, nextBuf, ch, wst, wphase, marched, hist>>
view == <<mpc, layer, nextIdx, outBase, cur, wg, slots, heap, nextBuf, ch, wst, wphase, marched>>

Renders == 1..NR
MaxBuf == NR * (1 + Layers * ((N + B - 1) \div B))
Workers == 1..W

Init == /\ mpc = [r \in Renders |-> "fill"]
        /\ layer = [r \in Renders |-> 1]
        /\ nextIdx = [r \in Renders |-> 0]
        /\ outBase = [r \in Renders |-> 0]
        /\ cur = [r \in Renders |-> <<r, <<>> >>]
        /\ wg = [r \in Renders |-> 0]
        /\ slots = [r \in Renders |-> [i \in 0..(N - 1) |-> {}]]
        /\ heap = [b \in 1..MaxBuf |-> <<>>]
        /\ nextBuf = NR + 1
        /\ ch = <<>>
        /\ wst = [w \in Workers |-> <<>>]
        /\ wphase = [w \in Workers |-> "idle"]
        /\ marched = [r \in Renders |-> 0]
        /\ hist = <<>>

H(op, a, b) == hist' = Append(hist, [op |-> op, a |-> a, b |-> b])

\* main r appends points until the batch is full or the layer is exhausted, then sends (one step:
\* nothing else can observe the partially filled private slice ... unless it is NOT fresh)
FillAndSend(r) ==
  /\ mpc[r] = "fill" /\ nextIdx[r] < N /\ Len(ch) < Cap
  /\ LET k == IF N - nextIdx[r] < B THEN N - nextIdx[r] ELSE B
         pts == [i \in 1..k |-> nextIdx[r] + i - 1]
         b == cur[r][1]
         msg == [r |-> r, base |-> outBase[r], buf |-> b, n |-> k, lay |-> layer[r]]
     IN /\ heap' = [heap EXCEPT ![b] = pts]
        /\ ch' = Append(ch, msg)
        /\ wg' = [wg EXCEPT ![r] = @ + 1]
        /\ nextIdx' = [nextIdx EXCEPT ![r] = @ + k]
        /\ outBase' = [outBase EXCEPT ![r] = @ + k]
        /\ IF Fresh
           THEN /\ cur' = [cur EXCEPT ![r] = <<nextBuf, <<>> >>]
                /\ nextBuf' = nextBuf + 1
           ELSE /\ cur' = cur /\ nextBuf' = nextBuf
        /\ H("S", r, k)
  /\ UNCHANGED <<mpc, layer, slots, wst, wphase, marched>>

BeginWait(r) == /\ mpc[r] = "fill" /\ nextIdx[r] = N
                /\ mpc' = [mpc EXCEPT ![r] = "wait"]
                /\ UNCHANGED <<layer, nextIdx, outBase, cur, wg, slots, heap, nextBuf, ch, wst, wphase, marched, hist>>
\* wg.Wait returns; the marching loop reads the layer: it must be complete and hold its own points
EndWait(r) ==
  /\ mpc[r] = "wait" /\ wg[r] = 0
  /\ marched' = [marched EXCEPT ![r] = IF \A i \in 0..(N - 1) : slots[r][i] = {<<layer[r], i>>} THEN @ + 1 ELSE @]
  /\ IF layer[r] = Layers
     THEN /\ mpc' = [mpc EXCEPT ![r] = "done"] /\ layer' = layer
     ELSE /\ mpc' = [mpc EXCEPT ![r] = "fill"] /\ layer' = [layer EXCEPT ![r] = @ + 1]
  /\ nextIdx' = [nextIdx EXCEPT ![r] = 0] /\ outBase' = [outBase EXCEPT ![r] = 0]
  /\ slots' = [slots EXCEPT ![r] = [i \in 0..(N - 1) |-> {}]]
  /\ H("W", r, 0)
  /\ UNCHANGED <<cur, wg, heap, nextBuf, ch, wst, wphase>>

Recv(w) == /\ wphase[w] = "idle" /\ ch # <<>>
           /\ wst' = [wst EXCEPT ![w] = Head(ch)] /\ ch' = Tail(ch)
           /\ wphase' = [wphase EXCEPT ![w] = "got"]
           /\ H("R", w, Head(ch).base)
           /\ UNCHANGED <<mpc, layer, nextIdx, outBase, cur, wg, slots, heap, nextBuf, marched>>
\* the worker evaluates the points it finds in the buffer NOW and stores them
Process(w) ==
  /\ wphase[w] = "got"
  /\ LET m == wst[w]
         pts == heap[m.buf]
     IN slots' = [slots EXCEPT ![m.r] =
                    [i \in 0..(N - 1) |->
                       IF i >= m.base /\ i < m.base + m.n /\ i - m.base + 1 <= Len(pts)
                       THEN @[i] \cup {<<m.lay, pts[i - m.base + 1]>>} ELSE @[i]]]
  /\ wphase' = [wphase EXCEPT ![w] = "stored"]
  /\ H("P", w, 0)
  /\ UNCHANGED <<mpc, layer, nextIdx, outBase, cur, wg, heap, nextBuf, ch, wst, marched>>
Done(w) == /\ wphase[w] = "stored"
           /\ wg' = [wg EXCEPT ![wst[w].r] = @ - 1]
           /\ wst' = [wst EXCEPT ![w] = <<>>] /\ wphase' = [wphase EXCEPT ![w] = "idle"]
           /\ H("D", w, 0)
           /\ UNCHANGED <<mpc, layer, nextIdx, outBase, cur, slots, heap, nextBuf, ch, marched>>

Next == \/ \E r \in Renders : FillAndSend(r) \/ BeginWait(r) \/ EndWait(r)
        \/ \E w \in Workers : Recv(w) \/ Process(w) \/ Done(w)
Spec == Init /\ [][Next]_vars /\ WF_vars(Next)
     /\ \A w \in Workers : WF_vars(Recv(w) \/ Process(w) \/ Done(w))
     /\ \A r \in Renders : WF_vars(FillAndSend(r) \/ BeginWait(r) \/ EndWait(r))

\* ---- properties ---------------------------------------------------------------
\* no slot is ever written twice or with a foreign point
SlotsOnce == \A r \in Renders : \A i \in 0..(N - 1) :
               slots[r][i] \subseteq {<<layer[r], i>>}
\* a point buffer that is in flight (queued or being processed) is not the one main appends to
NoBufferInFlightReused ==
  \A r \in Renders :
    /\ \A j \in 1..Len(ch) : ch[j].buf # cur[r][1]
    /\ \A w \in Workers : (wphase[w] = "got" => wst[w].buf # cur[r][1])
\* every layer the marching loop consumed was complete and correct, whatever the interleaving
EveryLayerCorrect == \A r \in Renders : (mpc[r] = "done" => marched[r] = Layers)
AllDone == <>(\A r \in Renders : mpc[r] = "done")
EmitSchedule == (Emit /\ \A r \in Renders : mpc[r] = "done") =>
                   PrintT(<<"VEC", ToJson([w |-> W, steps |-> hist])>>)
=============================================================================
