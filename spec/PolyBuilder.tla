----------------------------- MODULE PolyBuilder -----------------------------
(* C17 - the vertex-list rewriting machine of sdf.Polygon.Vertices():           *)
(*   Drop ; RelToAbs (Polar first) ; createArcs ; smoothVertices ; Reverse      *)
(* on lattice programs.  A program is                                           *)
(*   [vs |-> <<vertex, ...>>, closed, rev, drop]                                *)
(*   vertex = [x, y, rel, pol, k, r, f]                                         *)
(*     pol = 1: (x, y) = (radius, quarter turns)  -> (x cos, x sin)(90 y deg)   *)
(*     rel = 1: position relative to the previous vertex                        *)
(*     k = "n" normal | "s" Smooth(r, f) | "c" Chamfer(r) | "a" Arc(r, f)       *)
(* The result is a list of ITEMS, one per output vertex:                        *)
(*   [t |-> "p", v |-> <<2x, 2y>>]          exactly this point                  *)
(*   [t |-> "c", v |-> <<2cx, 2cy, 2r>>]    on this circle (fillet interior)    *)
(*   [t |-> "m", v |-> <<i, j, f>>]         j-th of the f+1 points of the fillet *)
(*                                          of program vertex i (geometry not   *)
(*                                          rational: 45/135 degree corners,    *)
(*                                          diagonal edges, chamfers) - judged  *)
(*                                          by measured clauses                 *)
(*   [t |-> "a", v |-> <<i, j, f>>]         j-th of the f-1 inserted points of  *)
(*                                          the arc ending at program vertex i  *)
(* Lengths that involve sqrt(2) are kept exactly as pairs <<a, b>> = (a+b*sqrt2)/2.*)
EXTENDS Integers, Sequences, TLC

Abs1(x) == IF x < 0 THEN -x ELSE x
Sgn(x) == IF x < 0 THEN -1 ELSE IF x > 0 THEN 1 ELSE 0

\* ---------------------------------------------------------------- Q(sqrt 2) / 2
SAdd(p, q) == <<p[1] + q[1], p[2] + q[2]>>
SSub(p, q) == <<p[1] - q[1], p[2] - q[2]>>
\* (a + b s)/2 * (c + d s) with integer c, d
SMulI(p, c, d) == <<p[1] * c + 2 * p[2] * d, p[1] * d + p[2] * c>>
\* a + b sqrt2 >= 0
SNonNeg(p) == LET a == p[1]
                  b == p[2]
              IN IF a >= 0 /\ b >= 0 THEN TRUE
                 ELSE IF a <= 0 /\ b <= 0 THEN (a = 0 /\ b = 0)
                 ELSE IF a > 0 THEN a * a >= 2 * b * b
                 ELSE 2 * b * b >= a * a
SLe(p, q) == SNonNeg(SSub(q, p))

\* ---------------------------------------------------------------- the program
QX(q) == IF q % 4 = 0 THEN 1 ELSE IF q % 4 = 2 THEN -1 ELSE 0
QY(q) == IF q % 4 = 1 THEN 1 ELSE IF q % 4 = 3 THEN -1 ELSE 0
Raw(v) == IF v.pol = 1 THEN <<v.x * QX(v.y), v.x * QY(v.y)>> ELSE <<v.x, v.y>>
VS(P) == IF P.drop THEN SubSeq(P.vs, 1, Len(P.vs) - 1) ELSE P.vs
N(P) == Len(VS(P))
\* RelToAbs: a relative vertex is added to its (already absolute) predecessor; the first vertex must be absolute
RECURSIVE AbsAt(_, _)
AbsAt(P, i) == LET v == VS(P)[i]
               IN IF v.rel = 1 /\ i > 1 THEN <<Raw(v)[1] + AbsAt(P, i - 1)[1], Raw(v)[2] + AbsAt(P, i - 1)[2]>>
                  ELSE Raw(v)
Prev(P, i) == IF i > 1 THEN i - 1 ELSE IF P.closed THEN N(P) ELSE 0
Succ(P, i) == IF i < N(P) THEN i + 1 ELSE IF P.closed THEN 1 ELSE 0

\* ---------------------------------------------------------------- compass geometry
Delta(P, i, j) == <<AbsAt(P, j)[1] - AbsAt(P, i)[1], AbsAt(P, j)[2] - AbsAt(P, i)[2]>>
Compass(d) == (d[1] # 0 \/ d[2] # 0) /\ (d[1] = 0 \/ d[2] = 0 \/ Abs1(d[1]) = Abs1(d[2]))
Axis(d) == (d[1] = 0) # (d[2] = 0)
Dir(d) == LET sx == Sgn(d[1])
              sy == Sgn(d[2])
          IN CASE sx = 1 /\ sy = 0 -> 0 [] sx = 1 /\ sy = 1 -> 1 [] sx = 0 /\ sy = 1 -> 2 [] sx = -1 /\ sy = 1 -> 3
               [] sx = -1 /\ sy = 0 -> 4 [] sx = -1 /\ sy = -1 -> 5 [] sx = 0 /\ sy = -1 -> 6 [] sx = 1 /\ sy = -1 -> 7
\* edge length as a surd pair (a + b sqrt2)/2
ELen(d) == IF Axis(d) THEN <<2 * (Abs1(d[1]) + Abs1(d[2])), 0>> ELSE <<0, 2 * Abs1(d[1])>>
\* corner class at i: interior angle in units of 45 degrees (1, 2, 3; 0 = spike, 4 = straight)
Turn(P, i) == (Dir(Delta(P, i, Succ(P, i))) - Dir(Delta(P, i, Prev(P, i)))) % 8
Class(P, i) == LET m == Turn(P, i) IN IF m <= 4 THEN m ELSE 8 - m
IsSmooth(v) == (v.k = "s" /\ v.r # 0 /\ v.f # 0) \/ (v.k = "c" /\ v.r # 0)
Facets(v) == IF v.k = "c" THEN 1 ELSE v.f
\* fillet radius: Smooth -> r ; Chamfer(size) -> size * sqrt(1/2)
Rho(v) == IF v.k = "c" THEN <<0, v.r>> ELSE <<2 * v.r, 0>>
\* tangent length d1 = rho * cot(theta / 2): cot 22.5 = 1 + sqrt2, cot 45 = 1, cot 67.5 = sqrt2 - 1
D1(P, i) == LET c == Class(P, i)
                rho == Rho(VS(P)[i])
            IN IF c = 1 THEN SMulI(rho, 1, 1) ELSE IF c = 2 THEN rho ELSE SMulI(rho, -1, 1)

\* programs of the family: every smoothed vertex with two neighbours sits between compass edges at 45/90/135
\* degrees; arcs are at least semicircle-feasible and not next to a smoothed vertex
Smoothable(P, i) == IsSmooth(VS(P)[i]) /\ Prev(P, i) # 0 /\ Succ(P, i) # 0
WellFormed(P) ==
  /\ N(P) >= 1
  /\ VS(P)[1].rel = 0
  /\ \A i \in 1..N(P) : \A j \in 1..N(P) : i # j => AbsAt(P, i) # AbsAt(P, j)
  /\ \A i \in 1..N(P) : Smoothable(P, i) =>
       /\ N(P) >= 3
       /\ Compass(Delta(P, i, Prev(P, i))) /\ Compass(Delta(P, i, Succ(P, i)))
       /\ Class(P, i) \in {1, 2, 3}
       /\ VS(P)[i].r > 0 /\ Facets(VS(P)[i]) \in 1..3
  /\ \A i \in 1..N(P) : VS(P)[i].k = "a" =>
       /\ VS(P)[i].f \in 1..3 /\ VS(P)[i].r # 0
       /\ (Prev(P, i) # 0 =>
             LET d == Delta(P, i, Prev(P, i))
             IN /\ 4 * VS(P)[i].r * VS(P)[i].r >= d[1] * d[1] + d[2] * d[2]
                /\ ~IsSmooth(VS(P)[Prev(P, i)]))
       /\ ~IsSmooth(VS(P)[i])

\* smoothVertices: vertices are filleted in index order; a fillet fits iff its tangent length does not exceed
\* what is left of either adjacent edge (an earlier fillet has already consumed its own tangent length)
RECURSIVE Fit(_, _)
Used(P, i, j) == IF j < i /\ Fit(P, j) THEN D1(P, j) ELSE <<0, 0>>
Fit(P, i) ==
  /\ Smoothable(P, i)
  /\ LET pi == Prev(P, i)
         ni == Succ(P, i)
     IN /\ SLe(D1(P, i), SSub(ELen(Delta(P, i, pi)), Used(P, i, pi)))
        /\ SLe(D1(P, i), SSub(ELen(Delta(P, i, ni)), Used(P, i, ni)))
\* "exactly fits": equality on either side (the boundary case of the fit rule)
ExactFit(P, i) ==
  /\ Fit(P, i)
  /\ LET pi == Prev(P, i)
         ni == Succ(P, i)
     IN \/ D1(P, i) = SSub(ELen(Delta(P, i, pi)), Used(P, i, pi))
        \/ D1(P, i) = SSub(ELen(Delta(P, i, ni)), Used(P, i, ni))

Unit(d) == <<Sgn(d[1]), Sgn(d[2])>>
Pt(x, y) == [t |-> "p", v |-> <<x, y>>]
Rational(P, i) == /\ VS(P)[i].k = "s" /\ Class(P, i) = 2
                  /\ Axis(Delta(P, i, Prev(P, i))) /\ Axis(Delta(P, i, Succ(P, i)))
FilletItems(P, i) ==
  LET v == VS(P)[i]
      f == Facets(v)
      a == AbsAt(P, i)
      u0 == Unit(Delta(P, i, Prev(P, i)))
      u1 == Unit(Delta(P, i, Succ(P, i)))
  IN IF Rational(P, i)
     THEN [j \in 1..(f + 1) |->
             IF j = 1 THEN Pt(2 * a[1] + 2 * v.r * u0[1], 2 * a[2] + 2 * v.r * u0[2])
             ELSE IF j = f + 1 THEN Pt(2 * a[1] + 2 * v.r * u1[1], 2 * a[2] + 2 * v.r * u1[2])
             ELSE [t |-> "c", v |-> <<2 * a[1] + 2 * v.r * (u0[1] + u1[1]), 2 * a[2] + 2 * v.r * (u0[2] + u1[2]), 2 * v.r>>]]
     ELSE [j \in 1..(f + 1) |-> [t |-> "m", v |-> <<i, j - 1, f>>]]
ArcItems(P, i) ==
  LET v == VS(P)[i]
  IN IF v.k = "a" /\ Prev(P, i) # 0 THEN [j \in 1..(v.f - 1) |-> [t |-> "a", v |-> <<i, j, v.f>>]] ELSE <<>>
ItemsAt(P, i) ==
  IF Fit(P, i) THEN FilletItems(P, i)
  ELSE ArcItems(P, i) \o <<Pt(2 * AbsAt(P, i)[1], 2 * AbsAt(P, i)[2])>>
RECURSIVE Cat(_, _)
Cat(P, i) == IF i > N(P) THEN <<>> ELSE ItemsAt(P, i) \o Cat(P, i + 1)
Rev(s) == [i \in 1..Len(s) |-> s[Len(s) + 1 - i]]
Expected(P) == IF P.rev THEN Rev(Cat(P, 1)) ELSE Cat(P, 1)

\* ---------------------------------------------------------------- the property's clauses on the model
\* (squared distances, doubled coordinates)
Sq(x) == x * x
OnCircle(p, c) == Sq(p.v[1] - c.v[1]) + Sq(p.v[2] - c.v[2]) = Sq(c.v[3])
ClausesOK(P) ==
  /\ \A i \in 1..N(P) :
       LET f == Facets(VS(P)[i])
           it == ItemsAt(P, i)
       IN /\ (Fit(P, i) => Len(it) = f + 1)                                   \* facets+1 points
          /\ ((Smoothable(P, i) /\ ~Fit(P, i)) => it = <<Pt(2 * AbsAt(P, i)[1], 2 * AbsAt(P, i)[2])>>)   \* unchanged
          /\ ((~IsSmooth(VS(P)[i]) /\ VS(P)[i].k = "a" /\ Prev(P, i) # 0) => Len(it) = VS(P)[i].f)   \* facets-1 inserted
          /\ ((Fit(P, i) /\ Rational(P, i) /\ f >= 2) =>
                LET c == it[2]
                    a == AbsAt(P, i)
                    dp == Delta(P, i, Prev(P, i))
                    dn == Delta(P, i, Succ(P, i))
                IN /\ OnCircle(it[1], c) /\ OnCircle(it[f + 1], c)               \* tangent points on the circle
                   \* the centre is at distance r from both edge lines (axis-aligned: one coordinate offset = r)
                   /\ (IF dp[1] = 0 THEN Abs1(c.v[1] - 2 * a[1]) = c.v[3] ELSE Abs1(c.v[2] - 2 * a[2]) = c.v[3])
                   /\ (IF dn[1] = 0 THEN Abs1(c.v[1] - 2 * a[1]) = c.v[3] ELSE Abs1(c.v[2] - 2 * a[2]) = c.v[3])
                   \* the tangent points are the feet of the perpendiculars from the centre
                   /\ (IF dp[1] = 0 THEN it[1].v[2] = c.v[2] ELSE it[1].v[1] = c.v[1])
                   /\ (IF dn[1] = 0 THEN it[f + 1].v[2] = c.v[2] ELSE it[f + 1].v[1] = c.v[1]))
  /\ Len(Expected(P)) >= N(P)
=============================================================================
