------------------------------- MODULE Quadtree -------------------------------
(* The quadtree marching-squares renderer (render/march2x.go) on an exact      *)
(* lattice; the two-dimensional twin of Octree.tla.                            *)
EXTENDS MS2, Scene2
RECURSIVE LeastL(_, _)
LeastL(m, L) == IF 100 * Pow(2, L - 1) >= 202 * m THEN L ELSE LeastL(m, L + 1)
Levels(m) == LeastL(m, 1)
TopLevel(m) == Levels(m) - 1
Side(m) == Pow(2, TopLevel(m))
Centre(v, n) == LET s == Pow(2, n - 1) IN <<v[1] + s, v[2] + s>>
\* |num/k| >= 0.5*sqrt(2)*2^n  <=>  4 num^2 >= 2 * 4^n * k^2
IsEmpty(scene, v, n) == LET d == Num(scene, Centre(v, n))
                        IN 4 * d * d >= 2 * Pow(4, n) * scene.k * scene.k
ChildOff == << <<0,0>>, <<1,0>>, <<1,1>>, <<0,1>> >>
RECURSIVE Leaves(_, _, _)
Leaves(scene, v, n) ==
  IF IsEmpty(scene, v, n) THEN <<>>
  ELSE IF n = 1 THEN << v >>
  ELSE LET s == Pow(2, n - 1)
       IN Flatten([i \in 1..4 |-> Leaves(scene, <<v[1] + s * ChildOff[i][1], v[2] + s * ChildOff[i][2]>>, n - 1)])
RECURSIVE Decisions(_, _, _)
Decisions(scene, v, n) ==
  IF IsEmpty(scene, v, n) THEN << <<v[1], v[2], 0, n, 1>> >>
  ELSE << <<v[1], v[2], 0, n, 0>> >> \o
       (IF n = 1 THEN <<>>
        ELSE LET s == Pow(2, n - 1)
             IN Flatten([i \in 1..4 |-> Decisions(scene, <<v[1] + s * ChildOff[i][1], v[2] + s * ChildOff[i][2]>>, n - 1)]))
LeafLines(scene, v) ==
  CellLinesOf(<<v[1] \div 2, v[2] \div 2>>,
              [i \in 1..4 |-> ClassOfVal(Num(scene, <<v[1] + 2 * Off[i][1], v[2] + 2 * Off[i][2]>>))])
AllCells(m) == LET c == Side(m) \div 2
               IN [j \in 1..(c * c) |-> <<2 * ((j - 1) \div c), 2 * ((j - 1) % c)>>]
QuadLines(scene, m) == LET ls == Leaves(scene, <<0, 0>>, TopLevel(m))
                       IN Flatten([i \in 1..Len(ls) |-> LeafLines(scene, ls[i])])
FlatLines(scene, m) == LET cs == AllCells(m)
                       IN Flatten([i \in 1..Len(cs) |-> LeafLines(scene, cs[i])])
NoEmittingCellSkipped(scene, m) ==
  LET ls == Leaves(scene, <<0, 0>>, TopLevel(m))
      cs == AllCells(m)
  IN /\ \A i \in 1..Len(cs) : LeafLines(scene, cs[i]) # <<>> => \E j \in 1..Len(ls) : ls[j] = cs[i]
     /\ \A i, j \in 1..Len(ls) : ls[i] = ls[j] => i = j
=============================================================================
