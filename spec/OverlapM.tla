------------------------------- MODULE OverlapM -------------------------------
(* Interval.Overlap (sdf/line.go) as written vs "the closed intervals share a   *)
(* value", for every pair of proper intervals with end points in 0..IMax        *)
(* (touching end points, nested, equal, degenerate point intervals included).   *)
(* The state is the first interval; the invariant quantifies over the second.   *)
EXTENDS BoxDist, Json
CONSTANTS IMax, Emit
VARIABLES phase, a
Ivs == {e \in (0..IMax) \X (0..IMax) : e[1] <= e[2]}
Init == phase = 0 /\ a = <<0, 0>>
Next == phase = 0 /\ phase' = 1 /\ a' \in Ivs
Spec == Init /\ [][Next]_<<phase, a>>
\* independent definition on the doubled lattice: some (half-)integer value lies in both
ShareHalf(x, y) == \E v \in 0..(2 * IMax) : 2 * x[1] <= v /\ v <= 2 * x[2] /\ 2 * y[1] <= v /\ v <= 2 * y[2]
RECURSIVE SetToSeq(_)
SetToSeq(T) == IF T = {} THEN <<>> ELSE LET x == CHOOSE x \in T : TRUE IN <<x>> \o SetToSeq(T \ {x})
OverlapOK == phase = 1 =>
  /\ \A b \in Ivs : ShareValue(a, b) = ShareHalf(a, b)
  /\ ((\A b \in Ivs : OverlapCode(a, b) = ShareValue(a, b)) \/ (PrintT(<<"MODELBAD", ToJson([a |-> a])>>) /\ FALSE))
  /\ (Emit => PrintT(<<"VEC", ToJson([t |-> "ovl", prs |-> SetToSeq({<<a[1], a[2], b[1], b[2]>> : b \in Ivs})])>>))
=============================================================================
