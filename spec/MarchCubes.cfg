SPECIFICATION Spec
CONSTANT DX = 2
CONSTANT DY = 2
CONSTANT DZ = 2
CONSTANT Base = 3
CONSTANT LoDigits = 4
CONSTANT Emit = TRUE
INVARIANT StaticOK
INVARIANT WorldOK
CHECK_DEADLOCK FALSE
