------------------------------- MODULE QuadtreeM -------------------------------
(* Scene-enumeration machine for Quadtree.tla (see OctreeM.tla). *)
EXTENDS Quadtree, Json
CONSTANTS M, HMax, Fam, Emit, Sample, Seed
VARIABLES phase, j, s1, s2
vars == <<phase, j, s1, s2>>
S == Side(M)
K == IF Fam = "diag" THEN 10 ELSE 1
Box(c, h, op) == [kind |-> "box", c |-> c, h |-> h, w |-> K, op |-> op]
Plane(c, h, op) == [kind |-> "plane", c |-> c, h |-> h, w |-> 1, op |-> op]
Scene == IF Fam = "box" THEN [parts |-> <<s1>>, k |-> K] ELSE [parts |-> <<s1, s2>>, k |-> K]
Zero == Box(<<0,0>>, <<0,0>>, "u")
Init == phase = 0 /\ j = 0 /\ s1 = Zero /\ s2 = Zero
Fits(c, h) == \A a \in 1..2 : c[a] - h[a] >= 1 /\ c[a] + h[a] <= S - 1
R(x) == (75 * (x % 65537) + 74) % 65537
RECURSIVE Rn(_, _)
Rn(jj, i) == IF i = 0 THEN R(R(Seed * 31 + jj)) ELSE R(Rn(jj, i - 1) + i)
RBox(jj, o, hm, op) ==
  LET hmm == IF 2 * hm > S - 2 THEN (S - 2) \div 2 ELSE hm
      h == <<Rn(jj, o) % (hmm + 1), Rn(jj, o + 1) % (hmm + 1)>>
      c == [a \in 1..2 |-> 1 + h[a] + (Rn(jj, o + 1 + a) % (S - 1 - 2 * h[a]))]
  IN Box(c, h, op)
Sgn(x) == IF x % 2 = 0 THEN 7 ELSE -7
PickJ == /\ phase = 0 /\ phase' = 1 /\ s1' = s1 /\ s2' = s2
         /\ j' \in 1..(IF Sample = 0 THEN S - 1 ELSE Sample)
PickScene ==
  /\ phase = 1 /\ phase' = 2 /\ j' = j
  /\ IF Sample = 0
     THEN /\ s2' = s2
          /\ \E y \in 1..(S - 1), a \in 0..HMax, b \in 0..HMax :
               /\ Fits(<<j, y>>, <<a, b>>)
               /\ s1' = Box(<<j, y>>, <<a, b>>, "u")
     ELSE /\ s1' = RBox(j, 0, HMax, "u")
          /\ s2' = IF Fam = "box2"
                   THEN RBox(j, 4, IF Rn(j, 8) % 2 = 0 THEN 1 ELSE HMax, IF Rn(j, 9) % 2 = 0 THEN "u" ELSE "d")
                   ELSE IF Fam = "diag"
                   THEN Plane(<<Rn(j, 4) % (2 * S + 1), 0>>, <<Sgn(Rn(j, 5)), Sgn(Rn(j, 6))>>, "i")
                   ELSE s2
Next == PickJ \/ PickScene
Spec == Init /\ [][Next]_vars
SceneOK == phase = 2 =>
  /\ (NoEmittingCellSkipped(Scene, M) \/ (PrintT(<<"MODELBAD", ToJson(Scene)>>) /\ FALSE))
  /\ (Emit => PrintT(<<"VEC", ToJson(Scene)>>))
=============================================================================
