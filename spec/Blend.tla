------------------------------- MODULE Blend -------------------------------
(* C02, blend functions: sdf.PolyMin / sdf.PolyMax (sdf/utils.go) are rational  *)
(* functions, so on the rational grid a = A/4, b = B/4, k = K/4 they are exact: *)
(*   h = clamp(1/2 + (b-a)/(2k), 0, 1) = Hn / (2K),  Hn = clamp(K + B - A, 0, 2K)*)
(*   poly(a,b,k) = b + h(a-b) - k h (1-h) = PolyNum / (16 K)                     *)
(* BlendM.tla enumerates the whole grid; the invariant states the laws of the  *)
(* property; every case is replayed on the real functions (BlendTrace clause of *)
(* LawTrace.tla).                                                               *)
EXTENDS Integers, TLC, Json
Min(a, b) == IF a < b THEN a ELSE b
Max(a, b) == IF a > b THEN a ELSE b
Abs(x) == IF x < 0 THEN -x ELSE x
Hn(A, B, K) == Max(0, Min(2 * K, K + B - A))
PolyNum(A, B, K) == 4 * K * B + 2 * Hn(A, B, K) * (A - B) - Hn(A, B, K) * (2 * K - Hn(A, B, K))
PolyMaxNum(A, B, K) == -PolyNum(-A, -B, K)
\* the laws, all over the denominator 16 K
Laws(A, B, K) ==
  /\ PolyNum(A, B, K) <= 4 * K * Min(A, B)                        \* never removes material
  /\ PolyNum(A, B, K) = PolyNum(B, A, K)                          \* symmetric
  /\ 4 * K * Min(A, B) - K * K <= PolyNum(A, B, K)                \* fillet bounded by k/4
  /\ (Abs(A - B) >= K => PolyNum(A, B, K) = 4 * K * Min(A, B))    \* equal to min once the operands differ by k
  /\ PolyMaxNum(A, B, K) >= 4 * K * Max(A, B)
  /\ PolyMaxNum(A, B, K) <= 4 * K * Max(A, B) + K * K
=============================================================================
