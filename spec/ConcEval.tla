------------------------------- MODULE ConcEval -------------------------------
(* Concurrent Evaluate calls on one shape (C10).  What matters for             *)
(* concurrency is which shared cells an Evaluate reads and writes and whether  *)
(* a lock brackets them:                                                       *)
(*   "immutable"  Evaluate only reads the shape's fields                       *)
(*   "unlocked"   the caching wrapper as written at the pinned commit          *)
(*                (sdf/cache2.go): reads++ ; lookup map ; on a miss evaluate   *)
(*                the operand and store map[p] ; on a hit hits++               *)
(*   "locked"     the same steps bracketed by a mutex                          *)
(* An access is a window (begin ... end) so that overlap is expressible; a     *)
(* data race is two overlapping accesses to one cell, one of them a write      *)
(* (the runtime turns overlapping map writes into "concurrent map writes").    *)
EXTENDS Integers, Sequences, FiniteSets, TLC
CONSTANTS G,        \* goroutines
          Kind,
          Points    \* query points (keys)
VARIABLES pc,       \* per goroutine program counter
          q,        \* the point goroutine g evaluates
          open,     \* set of <<g, cell, mode>> accesses in progress
          lock,     \* 0 or holder
          cache,    \* the map: point -> value (values are the points themselves: F = identity)
          ret       \* value returned by g's call (0 = none yet)
vars == <<pc, q, open, lock, cache, ret>>
Gs == 1..G
Init == /\ pc = [g \in Gs |-> "start"] /\ q \in [Gs -> Points] /\ open = {} /\ lock = 0
        /\ cache = [p \in {} |-> 0] /\ ret = [g \in Gs |-> 0]
Begin(g, cell, mode, nxt) == /\ open' = open \cup {<<g, cell, mode>>} /\ pc' = [pc EXCEPT ![g] = nxt]
End(g, cell, mode, nxt) == /\ open' = open \ {<<g, cell, mode>>} /\ pc' = [pc EXCEPT ![g] = nxt]
Step(g) ==
  \/ /\ pc[g] = "start" /\ Kind = "immutable" /\ Begin(g, "fields", "r", "imm") /\ UNCHANGED <<q, lock, cache, ret>>
  \/ /\ pc[g] = "imm" /\ End(g, "fields", "r", "done") /\ ret' = [ret EXCEPT ![g] = q[g]] /\ UNCHANGED <<q, lock, cache>>
  \/ /\ pc[g] = "start" /\ Kind = "locked" /\ lock = 0 /\ lock' = g /\ pc' = [pc EXCEPT ![g] = "count"] /\ UNCHANGED <<q, open, cache, ret>>
  \/ /\ pc[g] = "start" /\ Kind = "unlocked" /\ pc' = [pc EXCEPT ![g] = "count"] /\ UNCHANGED <<q, open, lock, cache, ret>>
  \/ /\ pc[g] = "count" /\ Begin(g, "reads", "w", "count2") /\ UNCHANGED <<q, lock, cache, ret>>
  \/ /\ pc[g] = "count2" /\ End(g, "reads", "w", "look") /\ UNCHANGED <<q, lock, cache, ret>>
  \/ /\ pc[g] = "look" /\ Begin(g, "map", "r", "look2") /\ UNCHANGED <<q, lock, cache, ret>>
  \/ /\ pc[g] = "look2"
     /\ IF q[g] \in DOMAIN cache
        THEN End(g, "map", "r", "hit") /\ ret' = [ret EXCEPT ![g] = cache[q[g]]]
        ELSE End(g, "map", "r", "miss") /\ ret' = ret
     /\ UNCHANGED <<q, lock, cache>>
  \/ /\ pc[g] = "hit" /\ Begin(g, "hits", "w", "hit2") /\ UNCHANGED <<q, lock, cache, ret>>
  \/ /\ pc[g] = "hit2" /\ End(g, "hits", "w", "unlock") /\ UNCHANGED <<q, lock, cache, ret>>
  \/ /\ pc[g] = "miss" /\ Begin(g, "map", "w", "miss2") /\ ret' = [ret EXCEPT ![g] = q[g]] /\ UNCHANGED <<q, lock, cache>>
  \/ /\ pc[g] = "miss2" /\ End(g, "map", "w", "unlock")
     /\ cache' = [p \in DOMAIN cache \cup {q[g]} |-> IF p = q[g] THEN q[g] ELSE cache[p]]
     /\ UNCHANGED <<q, lock, ret>>
  \/ /\ pc[g] = "unlock" /\ pc' = [pc EXCEPT ![g] = "done"]
     /\ lock' = IF Kind = "locked" THEN 0 ELSE lock
     /\ UNCHANGED <<q, open, cache, ret>>
Next == \E g \in Gs : Step(g)
Spec == Init /\ [][Next]_vars /\ WF_vars(Next)
NoConflictingAccess ==
  \A a, b \in open : (a[1] # b[1] /\ a[2] = b[2]) => (a[3] = "r" /\ b[3] = "r")
ValuesEqualSequential == \A g \in Gs : pc[g] = "done" => ret[g] = q[g]
CacheHoldsF == \A p \in DOMAIN cache : cache[p] = p
AllReturn == <>(\A g \in Gs : pc[g] = "done")
=============================================================================
