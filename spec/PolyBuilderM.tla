---------------------------- MODULE PolyBuilderM ----------------------------
(* Program-enumeration machine for PolyBuilder.tla; the state is the program.   *)
(*  Fam = "corner"  one smoothed / chamfered corner between two compass edges:  *)
(*                  8 x 6 direction pairs (45, 90, 135 degrees, both turning    *)
(*                  directions) x edge lengths 1..3 x radii {1,2} x facets      *)
(*                  {1,2,3} + chamfer - exhaustive (includes edges too short    *)
(*                  and fillets that exactly fit)                               *)
(*  Fam = "rect"    closed w x h rectangles with all four corners smoothed      *)
(*                  (adjacent fillets compete for the same edge; w = 2r fits    *)
(*                  exactly) - exhaustive                                       *)
(*  Fam = "walk"    LCG-drawn compass walks of 3..5 vertices mixing absolute,   *)
(*                  relative and polar vertices, Smooth, Chamfer, Arc, Close,   *)
(*                  Reverse, Drop                                               *)
(*  Fam = "nagon"   Nagon(4, r)                                                 *)
EXTENDS PolyBuilder, Json
CONSTANTS Fam, Emit, Sample, Seed
VARIABLES phase, j, prog
vars == <<phase, j, prog>>

V(x, y, rel, pol, k, r, f) == [x |-> x, y |-> y, rel |-> rel, pol |-> pol, k |-> k, r |-> r, f |-> f]
P0 == [vs |-> <<V(0, 0, 0, 0, "n", 0, 0)>>, closed |-> FALSE, rev |-> FALSE, drop |-> FALSE]
DX(d) == IF d \in {0, 1, 7} THEN 1 ELSE IF d \in {3, 4, 5} THEN -1 ELSE 0
DY(d) == IF d \in {1, 2, 3} THEN 1 ELSE IF d \in {5, 6, 7} THEN -1 ELSE 0

R(x) == (75 * (x % 65537) + 74) % 65537
RECURSIVE Rn(_, _)
Rn(jj, i) == IF i = 0 THEN R(R(Seed * 31 + jj)) ELSE R(Rn(jj, i - 1) + i)

Kinds == <<"s1", "s2", "s3", "c">>
Corner(d0, d1, l0, l1, r, kk) ==
  [vs |-> <<V(l0 * DX(d0), l0 * DY(d0), 0, 0, "n", 0, 0),
            V(0, 0, 0, 0, IF kk = 4 THEN "c" ELSE "s", r, IF kk = 4 THEN 0 ELSE kk),
            V(l1 * DX(d1), l1 * DY(d1), 0, 0, "n", 0, 0)>>,
   closed |-> FALSE, rev |-> FALSE, drop |-> FALSE]
Rect(w, h, r, f, rv) ==
  [vs |-> <<V(0, 0, 0, 0, "s", r, f), V(w, 0, 0, 0, "s", r, f), V(w, h, 0, 0, "s", r, f), V(0, h, 0, 0, "s", r, f)>>,
   closed |-> TRUE, rev |-> rv, drop |-> FALSE]

\* a compass walk: vertex i > 1 = previous + len * dir, written as an absolute, a relative or (when it happens to lie
\* on an axis) a polar vertex
RECURSIVE WalkPos(_, _)
WalkPos(jj, i) == IF i = 1 THEN <<(Rn(jj, 1) % 5) - 2, (Rn(jj, 2) % 5) - 2>>
                  ELSE LET d == Rn(jj, 10 * i) % 8
                           ln == 1 + (Rn(jj, 10 * i + 1) % 3)
                           p == WalkPos(jj, i - 1)
                       IN <<p[1] + ln * DX(d), p[2] + ln * DY(d)>>
WalkV(jj, i) ==
  LET p == WalkPos(jj, i)
      q == IF i = 1 THEN <<0, 0>> ELSE WalkPos(jj, i - 1)
      kr == Rn(jj, 10 * i + 2) % 8
      k == IF kr <= 1 THEN "n" ELSE IF kr <= 4 THEN "s" ELSE IF kr = 5 THEN "c" ELSE "a"
      r0 == 1 + (Rn(jj, 10 * i + 3) % 2)
      r == IF k = "a" THEN (IF Rn(jj, 10 * i + 4) % 2 = 0 THEN 1 ELSE -1) * (2 + (Rn(jj, 10 * i + 3) % 4)) ELSE r0
      f == 1 + (Rn(jj, 10 * i + 5) % 3)
      form == Rn(jj, 10 * i + 6) % 3
  IN IF form = 1 /\ i > 1 THEN V(p[1] - q[1], p[2] - q[2], 1, 0, k, r, f)
     ELSE IF form = 2 /\ (p[1] = 0) # (p[2] = 0)
          THEN V(Abs1(p[1]) + Abs1(p[2]), IF p[1] > 0 THEN 0 ELSE IF p[2] > 0 THEN 1 ELSE IF p[1] < 0 THEN 2 ELSE 3, 0, 1, k, r, f)
     ELSE V(p[1], p[2], 0, 0, k, r, f)
Walk(jj) ==
  LET n == 3 + (Rn(jj, 3) % 3)
  IN [vs |-> [i \in 1..n |-> WalkV(jj, i)], closed |-> (Rn(jj, 4) % 2 = 0), rev |-> (Rn(jj, 5) % 3 = 0),
      drop |-> (Rn(jj, 6) % 5 = 0)]

NJ == IF Fam = "corner" THEN 48 ELSE IF Fam = "rect" THEN 16 ELSE IF Fam = "nagon" THEN 4 ELSE Sample
Init == phase = 0 /\ j = 0 /\ prog = P0
PickJ == phase = 0 /\ phase' = 1 /\ prog' = prog /\ j' \in 1..NJ
Build ==
  /\ phase = 1 /\ phase' = 2 /\ j' = j
  /\ IF Fam = "corner"
     THEN LET d0 == (j - 1) \div 6
              t == 1 + ((j - 1) % 6)                \* turn 1,2,3,5,6,7 (x 45 degrees)
              d1 == (d0 + (IF t <= 3 THEN t ELSE t + 1)) % 8
          IN \E l0 \in 1..3, l1 \in 1..3, r \in 1..2, kk \in 1..4 : prog' = Corner(d0, d1, l0, l1, r, kk)
     ELSE IF Fam = "rect"
     THEN \E r \in 1..2, f \in 1..3, rv \in BOOLEAN : prog' = Rect(1 + ((j - 1) % 4), 1 + ((j - 1) \div 4), r, f, rv)
     ELSE IF Fam = "nagon" THEN prog' = P0
     ELSE prog' = Walk(j)
Next == PickJ \/ Build
Spec == Init /\ [][Next]_vars

NExact(P) == LET RECURSIVE Cnt(_)
                 Cnt(i) == IF i > N(P) THEN 0 ELSE (IF ExactFit(P, i) THEN 1 ELSE 0) + Cnt(i + 1)
             IN Cnt(1)
NagonVec == [kind |-> "nagon", n |-> 4, r |-> j,
             exp |-> <<Pt(2 * j, 0), Pt(0, 2 * j), Pt(-2 * j, 0), Pt(0, -2 * j)>>]
PolyOK == phase = 2 =>
  IF Fam = "nagon" THEN (Emit => PrintT(<<"VEC", ToJson(NagonVec)>>))
  ELSE (WellFormed(prog) =>
          /\ (ClausesOK(prog) \/ (PrintT(<<"MODELBAD", ToJson(prog)>>) /\ FALSE))
          /\ (Emit => PrintT(<<"VEC", ToJson([kind |-> "poly", prog |-> prog, exp |-> Expected(prog),
                                              exact |-> NExact(prog)])>>)))
=============================================================================
