------------------------------- MODULE Pipeline -------------------------------
(* The output pipeline of every render-to-X call (render/render.go,            *)
(* sdf/triangle3.go, sdf/line.go, render/stl.go, 3mf.go, dxf.go, svg.go):       *)
(*                                                                             *)
(*   caller:   create sink (may fail) ; start writer goroutine ; Render ;      *)
(*             close(channel) ; wg.Wait ; return                               *)
(*   Render:   NP producer goroutines call buffer.Write(batch) any number of   *)
(*             times, then the renderer calls buffer.Close()                   *)
(*   buffer:   Write: lock ; append ; if len >= T { ch <- buf ; buf = fresh }  *)
(*             ; unlock        Close: lock ; if len # 0 { ch <- buf ; buf=nil }*)
(*             ; unlock     (the send happens WHILE HOLDING the lock)          *)
(*   channel:  unbuffered: a send completes only when the writer receives      *)
(*   writer:   for batch := range ch { for item := range batch { sink(item) }} *)
(*             ; finalise ; wg.Done                                            *)
(*                                                                             *)
(* Items are numbered in the order in which they are appended under the lock,  *)
(* so contents are intervals and "written" is just a counter.                  *)
(*                                                                             *)
(* Writer kinds (how the code reacts to a sink fault):                         *)
(*   "collector"  in-memory collector: never fails                             *)
(*   "early"      returns from the goroutine at the failing item while the     *)
(*                channel is still open  (writeSTL as written at the pinned    *)
(*                commit)                                                      *)
(*   "drain"      notes the error and keeps draining the channel               *)
(*   "atend"      can only fail when finalising (3MF, DXF, SVG)                *)
EXTENDS Integers, Sequences, FiniteSets, TLC, Json

CONSTANTS NP,          \* producers
          T,           \* buffer threshold (tBufferSize / lBufferSize)
          Sizes,       \* batch sizes a Write may carry
          MaxWrites,   \* writes per producer
          Kind,        \* writer kind, see above
          FailAt,      \* sink fails when asked to store item number FailAt (0 = never);
                       \* for "atend": any value > 0 makes finalisation fail
          CreateFails, \* the sink cannot be created
          Coarse,      \* TRUE: the writer consumes a batch in one step (used with the code's real threshold)
          Emit         \* TRUE: print the schedule of every complete behaviour (vectors for the replay)

VARIABLES pc,          \* caller: "create" | "render" | "closing" | "close" | "wait" | "returned"
          ppc,         \* producer p: "ready" | "sending" | "done"
          nw,          \* writes done by producer p
          lock,        \* 0 = free, p = producer p, NP+1 = the renderer (Close)
          bufLo, bufLen, bufId,   \* the buffer holds items bufLo+1 .. bufLo+bufLen; identity of its array
          nextId,
          offer,       \* <<>> or <<lo, len, id>>: the slice a blocked sender offers
          cur,         \* <<>> or <<lo, len, id, i>>: the slice the writer iterates, i items done
          delivered,   \* items stored by the sink: 1..delivered (sequence conservation => a counter)
          written,     \* items appended so far
          wpc,         \* writer: "none" | "run" | "final" | "exited"
          failed,      \* the sink reported an error
          chClosed,
          hist         \* history of sizes written (for vectors; not part of the VIEW)

vars == <<pc, ppc, nw, lock, bufLo, bufLen, bufId, nextId, offer, cur, delivered, written, wpc, failed, chClosed, hist>>
view == <<pc, ppc, nw, lock, bufLo, bufLen, bufId, nextId, offer, cur, delivered, written, wpc, failed, chClosed>>

Producers == 1..NP
Closer == NP + 1

Init == /\ pc = "create"
        /\ ppc = [p \in Producers |-> "ready"]
        /\ nw = [p \in Producers |-> 0]
        /\ lock = 0 /\ bufLo = 0 /\ bufLen = 0 /\ bufId = 1 /\ nextId = 2
        /\ offer = <<>> /\ cur = <<>> /\ delivered = 0 /\ written = 0
        /\ wpc = "none" /\ failed = FALSE /\ chClosed = FALSE /\ hist = <<>>

\* ---- caller -----------------------------------------------------------------
CreateOK == /\ pc = "create" /\ ~CreateFails
            /\ pc' = "render" /\ wpc' = "run"
            /\ UNCHANGED <<ppc, nw, lock, bufLo, bufLen, bufId, nextId, offer, cur, delivered, written, failed, chClosed, hist>>
CreateFail == /\ pc = "create" /\ CreateFails
              /\ pc' = "returned"
              /\ UNCHANGED <<ppc, nw, lock, bufLo, bufLen, bufId, nextId, offer, cur, delivered, written, wpc, failed, chClosed, hist>>

\* ---- producers: buffer.Write ---------------------------------------------------
\* lock ; append n items ; below the threshold: unlock, else offer the buffer (still locked)
Write(p, n) ==
  /\ pc = "render" /\ ppc[p] = "ready" /\ nw[p] < MaxWrites /\ lock = 0
  /\ written' = written + n
  /\ nw' = [nw EXCEPT ![p] = @ + 1]
  /\ hist' = Append(hist, [op |-> "W", p |-> p, n |-> n])
  /\ IF bufLen + n >= T
     THEN /\ offer' = <<bufLo, bufLen + n, bufId>>
          /\ bufLen' = bufLen + n
          /\ lock' = p /\ ppc' = [ppc EXCEPT ![p] = "sending"]
     ELSE /\ bufLen' = bufLen + n /\ offer' = offer
          /\ lock' = 0 /\ ppc' = ppc
  /\ UNCHANGED <<pc, bufLo, bufId, nextId, cur, delivered, wpc, failed, chClosed>>
\* the send completed (the writer took the slice): fresh buffer ; unlock
SendDone(p) ==
  /\ ppc[p] = "sending" /\ lock = p /\ offer = <<>>
  /\ bufLo' = bufLo + bufLen /\ bufLen' = 0 /\ bufId' = nextId /\ nextId' = nextId + 1
  /\ lock' = 0 /\ ppc' = [ppc EXCEPT ![p] = "ready"]
  /\ UNCHANGED <<pc, nw, offer, cur, delivered, written, wpc, failed, chClosed, hist>>
Finish(p) == /\ pc = "render" /\ ppc[p] = "ready"
             /\ ppc' = [ppc EXCEPT ![p] = "done"]
             /\ hist' = Append(hist, [op |-> "F", p |-> p, n |-> 0])
             /\ UNCHANGED <<pc, nw, lock, bufLo, bufLen, bufId, nextId, offer, cur, delivered, written, wpc, failed, chClosed>>

\* ---- the renderer: buffer.Close after all producers finished ------------------
CloseBuffer ==
  /\ pc = "render" /\ \A p \in Producers : ppc[p] = "done" /\ lock = 0
  /\ IF bufLen # 0
     THEN /\ offer' = <<bufLo, bufLen, bufId>> /\ lock' = Closer /\ pc' = "closing"
     ELSE /\ offer' = offer /\ lock' = 0 /\ pc' = "close"
  /\ hist' = Append(hist, [op |-> "X", p |-> 0, n |-> 0])
  /\ UNCHANGED <<ppc, nw, bufLo, bufLen, bufId, nextId, cur, delivered, written, wpc, failed, chClosed>>
CloseSendDone ==
  /\ pc = "closing" /\ lock = Closer /\ offer = <<>>
  /\ bufLo' = bufLo + bufLen /\ bufLen' = 0 /\ bufId' = 0      \* buf = nil
  /\ lock' = 0 /\ pc' = "close"
  /\ UNCHANGED <<ppc, nw, nextId, offer, cur, delivered, written, wpc, failed, chClosed, hist>>
CloseChannel == /\ pc = "close" /\ pc' = "wait" /\ chClosed' = TRUE
                /\ UNCHANGED <<ppc, nw, lock, bufLo, bufLen, bufId, nextId, offer, cur, delivered, written, wpc, failed, hist>>
Return == /\ pc = "wait" /\ wpc = "exited" /\ pc' = "returned"
          /\ UNCHANGED <<ppc, nw, lock, bufLo, bufLen, bufId, nextId, offer, cur, delivered, written, wpc, failed, chClosed, hist>>

\* ---- writer goroutine -----------------------------------------------------------
Recv == /\ wpc = "run" /\ cur = <<>> /\ offer # <<>>
        /\ cur' = <<offer[1], offer[2], offer[3], 0>> /\ offer' = <<>>
        /\ UNCHANGED <<pc, ppc, nw, lock, bufLo, bufLen, bufId, nextId, delivered, written, wpc, failed, chClosed, hist>>
\* Recv immediately followed by the sender's completion (SendDone / CloseSendDone) as ONE step: used by
\* the trace specification when the sender's hook is logged before the writer's
RecvAndSendDone ==
  /\ wpc = "run" /\ cur = <<>> /\ offer # <<>> /\ lock # 0
  /\ cur' = <<offer[1], offer[2], offer[3], 0>> /\ offer' = <<>>
  /\ bufLo' = bufLo + bufLen /\ bufLen' = 0 /\ lock' = 0
  /\ IF pc = "closing"
     THEN /\ bufId' = 0 /\ nextId' = nextId /\ pc' = "close" /\ ppc' = ppc
     ELSE /\ bufId' = nextId /\ nextId' = nextId + 1 /\ pc' = pc
          /\ ppc' = [p \in Producers |-> IF ppc[p] = "sending" THEN "ready" ELSE ppc[p]]
  /\ UNCHANGED <<nw, delivered, written, wpc, failed, chClosed, hist>>
\* store one item of the current slice
Consume ==
  /\ wpc = "run" /\ cur # <<>> /\ cur[4] < cur[2]
  /\ LET item == cur[1] + cur[4] + 1
         faultNow == Kind \in {"early", "drain"} /\ FailAt # 0 /\ item >= FailAt
         \* items consumed by this step: one, or (Coarse) the rest of the batch up to the faulting item
         last == cur[1] + cur[2]
         k == IF ~Coarse \/ faultNow THEN 1
              ELSE IF Kind \in {"early", "drain"} /\ FailAt # 0 /\ FailAt <= last THEN FailAt - item
              ELSE cur[2] - cur[4]
     IN IF faultNow /\ Kind = "early"
        THEN \* writeSTL: "fmt.Printf(err); return" - the goroutine is gone, the channel still open
             /\ wpc' = "exited" /\ failed' = TRUE /\ cur' = cur /\ delivered' = delivered
        ELSE IF faultNow
        THEN /\ wpc' = wpc /\ failed' = TRUE /\ cur' = [cur EXCEPT ![4] = cur[2]] /\ delivered' = delivered
        ELSE /\ wpc' = wpc /\ failed' = failed /\ cur' = [cur EXCEPT ![4] = @ + k]
             /\ delivered' = IF failed THEN delivered ELSE delivered + k
  /\ UNCHANGED <<pc, ppc, nw, lock, bufLo, bufLen, bufId, nextId, offer, written, chClosed, hist>>
BatchDone == /\ wpc = "run" /\ cur # <<>> /\ cur[4] = cur[2]
             /\ cur' = <<>>
             /\ hist' = Append(hist, [op |-> "D", p |-> 0, n |-> 0])
             /\ UNCHANGED <<pc, ppc, nw, lock, bufLo, bufLen, bufId, nextId, offer, delivered, written, wpc, failed, chClosed>>
\* range loop ends when the channel is closed and empty; then finalise (flush / encode / save)
EndOfStream == /\ wpc = "run" /\ cur = <<>> /\ offer = <<>> /\ chClosed
               /\ wpc' = "final"
               /\ UNCHANGED <<pc, ppc, nw, lock, bufLo, bufLen, bufId, nextId, offer, cur, delivered, written, failed, chClosed, hist>>
Finalise == /\ wpc = "final"
            /\ wpc' = "exited"
            /\ failed' = (failed \/ (Kind = "atend" /\ FailAt # 0))
            /\ UNCHANGED <<pc, ppc, nw, lock, bufLo, bufLen, bufId, nextId, offer, cur, delivered, written, chClosed, hist>>

Next == \/ CreateOK \/ CreateFail
        \/ \E p \in Producers : (\E n \in Sizes : Write(p, n)) \/ SendDone(p) \/ Finish(p)
        \/ CloseBuffer \/ CloseSendDone \/ CloseChannel \/ Return
        \/ Recv \/ Consume \/ BatchDone \/ EndOfStream \/ Finalise

Fairness == /\ WF_vars(CreateOK \/ CreateFail \/ CloseBuffer \/ CloseSendDone \/ CloseChannel \/ Return)
            /\ WF_vars(Recv \/ Consume \/ BatchDone \/ EndOfStream \/ Finalise)
            /\ \A p \in Producers : WF_vars(SendDone(p) \/ Finish(p))
Spec == Init /\ [][Next]_vars /\ Fairness

\* ---- properties -------------------------------------------------------------------
InFlight == (IF offer = <<>> THEN 0 ELSE offer[2]) + (IF cur = <<>> THEN 0 ELSE cur[2] - cur[4])
\* C11: nothing lost, duplicated or reordered: the items are partitioned, in order, into
\* delivered | rest of cur | offer | buffer   (while the sink has not failed)
Conservation ==
  ~failed =>
    /\ delivered + InFlight + (IF lock # 0 THEN 0 ELSE bufLen) = written
    /\ (cur # <<>> => cur[1] + cur[4] = delivered)
    /\ (cur = <<>> /\ offer # <<>> => offer[1] = delivered)
\* a slice handed to the channel is never appended to again
NoAliasing == /\ (offer # <<>> /\ lock = 0 => offer[3] # bufId)
              /\ (cur # <<>> => (cur[3] # bufId \/ (lock # 0 /\ bufLo = cur[1])))
\* at return every item reached the sink exactly once and in order (the count field of the file)
AtReturn == (pc = "returned" /\ ~failed /\ ~CreateFails) => (delivered = written /\ bufLen = 0 /\ offer = <<>> /\ cur = <<>>)
AppendOnly == [][delivered' >= delivered /\ written' >= written]_vars
\* C12: the call returns, whatever the fault
Terminates == <>(pc = "returned")
\* a buffer never exceeds threshold + the largest batch (the margin the code allocates for)
Bounded == bufLen < T + 8 + 600
\* vectors: the schedule of each complete behaviour
EmitSchedule == (Emit /\ pc = "returned") => PrintT(<<"VEC", ToJson([np |-> NP, steps |-> hist])>>)
=============================================================================
