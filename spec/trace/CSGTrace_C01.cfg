SPECIFICATION Spec
CONSTANT Clause = "C01"
INVARIANT Report
CHECK_DEADLOCK FALSE
