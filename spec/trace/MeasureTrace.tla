--------------------------- MODULE MeasureTrace ---------------------------
(* C06, measured clauses: the harness MEASURES real meshes of analytic shapes  *)
(* (errors scaled to integers), this specification JUDGES them with its own    *)
(* constants.  TLC does not compute the geometry here (DESIGN section 10).     *)
(*   maxf      max |f(v)| / h            * 1e6                                  *)
(*   sphere    max |f(v)| 8(R-h) / h^2   * 1e6   (spheres)                      *)
(*   planef    max |f(v)| / h            * 1e12  (planes)                       *)
(*   meshsurf  max |f| on the mesh / cell diagonal * 1e6 (exact distance fields)*)
(*   surfmesh  max distance surface point -> mesh / cell diagonal * 1e6         *)
(*   volerr    |V - Vtrue| / Vtrue * 1e6, seq = resolution index (h halves)     *)
EXTENDS Integers, Sequences, TLC, Json
Trace == ndJsonDeserialize("trace.ndjson")
VARIABLES l, prev      \* prev: volume error of the previous resolution of the same shape/renderer
Init == l = 1 /\ prev = <<"", 0, 0>>
Exact(e) == e.kind \in {"plane", "sphere", "exact"}
Judge(e) ==
  LET say(ok, why) == IF ok THEN TRUE ELSE (PrintT(<<"BAD", l, why>>) /\ FALSE)
  IN /\ say(e.nt > 0, "empty-mesh")
     /\ say(e.outside = 0, "vertex-outside-the-sampled-box")
     /\ (e.kind = "plane" => say(e.planef <= 1000, "plane-vertex-not-on-the-plane"))
     /\ (e.kind = "sphere" => say(e.sphere <= 1001000, "sphere-vertex-error-exceeds-h2-over-8(R-h)"))
     /\ (Exact(e) => say(e.maxf <= 1000001, "vertex-error-exceeds-h"))
     /\ (Exact(e) => say(e.meshsurf <= 1000001, "mesh-point-farther-than-a-cell-diagonal-from-the-surface"))
     /\ (Exact(e) => say(e.surfmesh <= 1000001, "surface-point-farther-than-a-cell-diagonal-from-the-mesh"))
     /\ (e.kind \in {"plane", "sphere"} => say(e.badnorm = 0, "normal-disagrees-with-gradient"))
     \* second-order convergence of the enclosed volume for the smooth shape: halving h divides
     \* the error by ~4; accept >= 2.5
     /\ ((e.kind = "sphere" /\ e.seq > 1 /\ prev[1] = e.r /\ prev[2] = e.seq - 1)
           => say(5 * e.volerr <= 2 * prev[3] + 5, "volume-error-not-second-order"))
Next == /\ l <= Len(Trace) /\ l' = l + 1 /\ (IF Judge(Trace[l]) THEN TRUE ELSE TRUE)
        /\ prev' = IF Trace[l].hasvol THEN <<Trace[l].r, Trace[l].seq, Trace[l].volerr>> ELSE <<"", 0, 0>>
Spec == Init /\ [][Next]_<<l, prev>>
Report == l = Len(Trace) + 1 => PrintT(<<"CONSUMED", l - 1>>)
=============================================================================
