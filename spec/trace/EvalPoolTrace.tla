--------------------------- MODULE EvalPoolTrace ---------------------------
(* Event-level trace validation of the REAL evaluation pool against           *)
(* EvalPool.tla.  One line = one real uniform render (free running, all CPUs); *)
(* events are the verif hooks of render/march3.go in the order of a global     *)
(* log (taken under the harness's log mutex):                                  *)
(*   1 send(lenOut, lenP)   main, before `evalProcessCh <- eReq`               *)
(*   2 waited               main, after wg.Wait() returned                     *)
(*   3 recv(w, lenOut, lenP) worker w, after receiving a batch                 *)
(*   4 done(w)              worker w, batch evaluated, before wg.Done()        *)
(*   5 idle(w)              worker w, after wg.Done(), before the next receive *)
(* wg.Done() itself is not logged: main may log `waited` before the last       *)
(* worker logs `idle`, so Done(w) is a silent step and a later idle(w) of a    *)
(* worker that is already idle in the model is accepted as a no-op.            *)
(* Workers log `recv` after the receive, so the log may show the receive of a  *)
(* later batch before that of an earlier one: a receive whose log line is      *)
(* still to come is taken silently by exactly the worker whose next logged     *)
(* event is that receive, and the log line is then accepted as a no-op.        *)
(* The model constants N (points per layer), B (batch size), Layers, W come    *)
(* from the configuration generated for the run.                               *)
EXTENDS EvalPool
Trace == ndJsonDeserialize("trace.ndjson")
VARIABLES l, k,
          unlogged      \* workers that received silently and whose recv line is still to come
tvars == <<vars, l, k, unlogged>>
Events == Trace[l].events
Ev == Events[k]
Has == l <= Len(Trace) /\ k <= Len(Events)
Step == /\ k' = k + 1 /\ l' = l /\ TLCSet(1, IF TLCGet(1) < l * 100000 + k THEN l * 100000 + k ELSE TLCGet(1))
TraceInit == Init /\ l = 1 /\ k = 1 /\ unlogged = {} /\ TLCSet(1, 0)

\* index of the next event of worker w at or after position j (0 = none)
RECURSIVE NextOf(_, _)
NextOf(w, j) == IF j > Len(Events) THEN 0
                ELSE IF Events[j][1] \in {3, 4, 5} /\ Events[j][2] = w THEN j
                ELSE NextOf(w, j + 1)

EvSend == /\ Has /\ Ev[1] = 1
          /\ FillAndSend(1)
          /\ ch'[Len(ch')].n = Ev[3] /\ ch'[Len(ch')].base = N - Ev[2]
          /\ Step /\ UNCHANGED unlogged
\* main passes Wait: BeginWait (silent) must have happened; all Done steps too
EvWaited == /\ Has /\ Ev[1] = 2 /\ EndWait(1) /\ Step /\ UNCHANGED unlogged
EvRecv == /\ Has /\ Ev[1] = 3 /\ Ev[2] \in Workers
          /\ \/ /\ Ev[2] \notin unlogged
                /\ Recv(Ev[2]) /\ wst'[Ev[2]].n = Ev[4] /\ wst'[Ev[2]].base = N - Ev[3]
                /\ UNCHANGED unlogged
             \/ /\ Ev[2] \in unlogged /\ wphase[Ev[2]] = "got"
                /\ wst[Ev[2]].n = Ev[4] /\ wst[Ev[2]].base = N - Ev[3]
                /\ UNCHANGED vars /\ unlogged' = unlogged \ {Ev[2]}
          /\ Step
EvDone == /\ Has /\ Ev[1] = 4 /\ Ev[2] \in Workers /\ Ev[2] \notin unlogged /\ Process(Ev[2]) /\ Step /\ UNCHANGED unlogged
EvIdle == /\ Has /\ Ev[1] = 5 /\ Ev[2] \in Workers
          /\ \/ Done(Ev[2])
             \/ (wphase[Ev[2]] = "idle" /\ UNCHANGED vars)
          /\ Step /\ UNCHANGED unlogged
Silent == /\ l <= Len(Trace)
          /\ \/ BeginWait(1) /\ UNCHANGED unlogged
             \/ (\E w \in Workers : Done(w)) /\ UNCHANGED unlogged
             \/ \E w \in Workers :
                  /\ ch # <<>> /\ k <= Len(Events)
                  /\ LET j == NextOf(w, k)
                     IN j # 0 /\ j # k /\ Events[j][1] = 3
                        /\ Events[j][3] = N - Head(ch).base /\ Events[j][4] = Head(ch).n
                  /\ Recv(w) /\ unlogged' = unlogged \cup {w}
          /\ UNCHANGED <<l, k>>
\* end of the line: every event consumed and the render is done
Reset == /\ l <= Len(Trace) /\ k = Len(Events) + 1 /\ mpc[1] = "done"
         /\ l' = l + 1 /\ k' = 1 /\ unlogged = {} /\ UNCHANGED unlogged
         /\ TLCSet(1, IF TLCGet(1) < (l + 1) * 100000 THEN (l + 1) * 100000 ELSE TLCGet(1))
         /\ UNCHANGED vars
TraceNext == EvSend \/ EvWaited \/ EvRecv \/ EvDone \/ EvIdle \/ Silent \/ Reset
TraceSpec == TraceInit /\ [][TraceNext]_tvars
tview == <<view, l, k, unlogged>>
HighWater == PrintT(<<"HW", TLCGet(1)>>)
=============================================================================
