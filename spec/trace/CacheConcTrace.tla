--------------------------- MODULE CacheConcTrace ---------------------------
(* One line = one schedule of CacheConc.tla executed on the real sdf.Cache2D    *)
(* over a gated operand.  Property (C02 cache clause, C10): every reply is the  *)
(* wrapped shape's own value for the point that was asked - F(p) = 10 p + 1 -   *)
(* whatever the interleaving.  A schedule that could not be executed, or whose  *)
(* hit/miss pattern differs from the model, is DRIFT (the code took a different *)
(* but possibly legal path), never a violation.                                 *)
EXTENDS Integers, Sequences, TLC, Json
Trace == ndJsonDeserialize("trace.ndjson")
VARIABLE l
Init == l = 1
F(p) == 10 * p + 1
Judge(e) ==
  LET say(ok, why) == IF ok THEN TRUE ELSE (PrintT(<<"BAD", l, why>>) /\ FALSE)
      n == Len(e.real)
  IN /\ say(\A i \in 1..n : e.real[i][3] = 1000000 * F(e.real[i][2]), "cache-returned-a-value-that-is-not-the-wrapped-shape's")
     /\ (IF e.realised /\ e.real = [i \in 1..Len(e.r) |-> <<e.r[i][1], e.r[i][2], 1000000 * e.r[i][3], e.r[i][4]>>]
         THEN TRUE ELSE PrintT(<<"DRIFT", l>>))
Next == /\ l <= Len(Trace) /\ l' = l + 1 /\ (IF Judge(Trace[l]) THEN TRUE ELSE TRUE)
Spec == Init /\ [][Next]_l
Report == l = Len(Trace) + 1 => PrintT(<<"CONSUMED", l - 1>>)
=============================================================================
