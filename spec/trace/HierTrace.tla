----------------------------- MODULE HierTrace -----------------------------
(* C07, real Euclidean fields (tight tangency to a cube corner, render        *)
(* sequences in one process): one line = the hierarchical render of f compared *)
(* by the harness, as exact multisets, with the render of f/1024 for which no  *)
(* cube can be skipped.  diff = size of the symmetric difference.              *)
EXTENDS Integers, Sequences, TLC, Json
Trace == ndJsonDeserialize("trace.ndjson")
VARIABLE l
Init == l = 1
Judge(e) ==
  LET say(ok, why) == IF ok THEN TRUE ELSE (PrintT(<<"BAD", l, why>>) /\ FALSE)
  IN /\ say(e.nflat > 0, "empty-reference-render")
     /\ say(e.diff = 0, "hierarchical-differs-from-exhaustive")
Next == /\ l <= Len(Trace) /\ l' = l + 1 /\ (IF Judge(Trace[l]) THEN TRUE ELSE TRUE)
Spec == Init /\ [][Next]_l
Report == l = Len(Trace) + 1 => PrintT(<<"CONSUMED", l - 1>>)
=============================================================================
