----------------------------- MODULE BoxTrace -----------------------------
(* Trace validation for C16, interval part.  One line = one box (or one batch)  *)
(* measured on the REAL code:                                                   *)
(*  grid  Box2/Box3.MinMaxDist2 at every point of the window (integers)          *)
(*  pts   the same at listed points (integers: lattice, or dyadic reals in units *)
(*        of 1/q, squared distances in units of 1/q^2 - exact in float64)        *)
(*  boxf  random float boxes/points: relative errors against the clamp / corner  *)
(*        oracle measured by the harness in 1e-12 units, position class logged   *)
(*  ovl   Interval.Overlap on proper closed intervals (integers or ranks)        *)
(* The property is judged against the DEFINITION (MinD2true, MaxD2axis,          *)
(* ShareValue); the transcription of the code is compared as DRIFT only.         *)
EXTENDS BoxDist, Json
Trace == ndJsonDeserialize("trace.ndjson")
VARIABLE l
Init == l = 1
TolE12 == 1000          \* relative 1e-9 for measured float cases

Regs == <<"inside", "face-region", "side-region", "vertex-region", "edge-region">>
GridPt(e, i) == LET k == i - 1 IN
  IF e.d = 2 THEN <<(k % e.n) - e.m, (k \div e.n) - e.m>>
  ELSE <<(k % e.n) - e.m, ((k \div e.n) % e.n) - e.m, (k \div (e.n * e.n)) - e.m>>
NPts(e) == Len(e.mins)
Pt(e, i) == IF e.ev = "grid" THEN GridPt(e, i) ELSE e.pts[i]

\* "min:edge-region:<<1, 3, 3>>|" for the first failing point of each position class
Part(kind, e, bad) ==
  LET f(r) == LET S == {i \in bad : Region(e.lo, e.hi, Pt(e, i)) = Regs[r]}
              IN IF S = {} THEN "" ELSE kind \o ":" \o Regs[r] \o ":" \o ToString(Pt(e, SetMin(S))) \o "|"
  IN f(1) \o f(2) \o f(3) \o f(4) \o f(5)

JudgeBox(e) ==
  LET n == NPts(e)
      badmin == {i \in 1..n : e.mins[i] # MinD2true(e.lo, e.hi, Pt(e, i))}
      badmax == {i \in 1..n : e.maxs[i] # MaxD2axis(e.lo, e.hi, Pt(e, i))}
      say(ok, why) == IF ok THEN TRUE ELSE (PrintT(<<"BAD", l, why>>) /\ FALSE)
  IN /\ say(Len(e.maxs) = n /\ (e.ev = "grid" => n = (IF e.d = 2 THEN e.n * e.n ELSE e.n * e.n * e.n)), "machinery:wrong-number-of-points")
     /\ say(badmin = {} /\ badmax = {}, Part("min", e, badmin) \o Part("max", e, badmax))
     /\ (IF \A i \in 1..n : <<e.mins[i], e.maxs[i]>> = MinMaxCode(e.lo, e.hi, Pt(e, i)) THEN TRUE ELSE PrintT(<<"DRIFT", l>>))

PartF(kind, e, bad) ==
  LET f(r) == LET S == {i \in bad : e.reg[i] = Regs[r]}
              IN IF S = {} THEN "" ELSE kind \o ":" \o Regs[r] \o ":" \o ToString(SetMin(S)) \o "|"
  IN f(1) \o f(2) \o f(3) \o f(4) \o f(5)
JudgeBoxF(e) ==
  LET n == Len(e.emin)
      badmin == {i \in 1..n : e.emin[i] > TolE12}
      badmax == {i \in 1..n : e.emax[i] > TolE12}
      say(ok, why) == IF ok THEN TRUE ELSE (PrintT(<<"BAD", l, why>>) /\ FALSE)
  IN say(badmin = {} /\ badmax = {}, PartF("min", e, badmin) \o PartF("max", e, badmax))

JudgeOvl(e) ==
  LET n == Len(e.prs)
      bad == {i \in 1..n : (e.res[i] = 1) # ShareValue(<<e.prs[i][1], e.prs[i][2]>>, <<e.prs[i][3], e.prs[i][4]>>)}
      say(ok, why) == IF ok THEN TRUE ELSE (PrintT(<<"BAD", l, why>>) /\ FALSE)
  IN /\ say(Len(e.res) = n, "machinery:wrong-number-of-results")
     /\ say(bad = {}, IF bad = {} THEN "" ELSE "overlap:" \o ToString(e.prs[SetMin(bad)]) \o "|")
     /\ (IF \A i \in 1..n : (e.res[i] = 1) = OverlapCode(<<e.prs[i][1], e.prs[i][2]>>, <<e.prs[i][3], e.prs[i][4]>>)
         THEN TRUE ELSE PrintT(<<"DRIFT", l>>))

Judge(e) == IF e.ev = "ovl" THEN JudgeOvl(e) ELSE IF e.ev = "boxf" THEN JudgeBoxF(e) ELSE JudgeBox(e)
Next == /\ l <= Len(Trace) /\ l' = l + 1 /\ (IF Judge(Trace[l]) THEN TRUE ELSE TRUE)
Spec == Init /\ [][Next]_l
Report == l = Len(Trace) + 1 => PrintT(<<"CONSUMED", l - 1>>)
=============================================================================
