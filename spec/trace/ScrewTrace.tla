----------------------------- MODULE ScrewTrace -----------------------------
(* C18 trace validation, geometry part.  One line = one observation of the REAL *)
(* library:                                                                     *)
(*  lat      sign class of Screw3D(rectangular profile) at a lattice point      *)
(*           -> must equal the right-handed helical map of Screw.tla            *)
(*  helix    Screw3D(ISOThread external, untapered): measured                   *)
(*             inv   max |f(p) - f(H p)| / pitch * 1e12, H = rotate phi, advance *)
(*                   starts*pitch*phi/2pi, phi real random                      *)
(*             per   max |f(p) - f(p + pitch e_z)| / pitch * 1e12               *)
(*             anti  the same for the opposite-handed motion * 1e6 (must NOT    *)
(*                   vanish: otherwise the hand is not determined)              *)
(*  mate     counts over a stratified sample of the thread annulus (two         *)
(*           pitches): samples in the external thread AND in the material left  *)
(*           after cutting the internal thread                                  *)
(*  boltnut  the same for obj.Bolt against obj.Nut on the threaded section      *)
(*  taper    cot of the realised crest-line slope of a tapered screw            *)
(* The harness measures; the constants and the verdict are here.                *)
EXTENDS Screw, Sequences, TLC, Json
Trace == ndJsonDeserialize("trace.ndjson")
VARIABLE l
Init == l = 1
TolE12 == 1000       \* 1e-9 (relative to the pitch)
AntiMin == 1000      \* 1e-3 pitch
NptCot == 32

Judge(e) ==
  LET say(ok, why) == IF ok THEN TRUE ELSE (PrintT(<<"BAD", l, why>>) /\ FALSE)
  IN CASE e.ev = "lat" ->
            LET want == Cls(e.v.s, e.v.k, e.v.zq, e.v.rho2)
            IN /\ say(e.cls # 9, "screw-construction-failed")
               \* points on the surface (model) or within 1e-9 of it (measured) are not judged
               /\ (IF want = 0 \/ e.cls = 0 THEN TRUE
                   ELSE say(e.cls = want, "lattice-point-wrong-side-of-right-handed-helix"))
       [] e.ev = "helix" ->
            /\ say(~e.err, "screw-construction-failed")
            /\ say(e.in > 0 /\ e.out > 0, "vacuous-sample")
            /\ say(e.inv <= TolE12, "not-invariant-under-the-helical-motion")
            /\ say(e.per <= TolE12, "not-periodic-in-z-with-the-pitch")
            /\ say(e.anti >= AntiMin, "invariant-under-the-opposite-handed-motion-too")
       [] e.ev \in {"mate", "boltnut"} ->
            /\ say(~e.err, "construction-failed")
            /\ say(e.extin > 0 /\ e.intin > 0, "vacuous-sample")
            /\ say(e.bad = 0, "external-thread-intersects-nut-material")
       [] e.ev = "taper" ->
            /\ say(~e.err, "crest-line-not-found")
            /\ say(e.cot = NptCot /\ e.res <= TolE12, "taper-slope-is-not-tan-of-the-taper-angle")
       [] OTHER -> say(FALSE, "unknown-event")

Next == /\ l <= Len(Trace) /\ l' = l + 1 /\ (IF Judge(Trace[l]) THEN TRUE ELSE TRUE)
Spec == Init /\ [][Next]_l
Report == l = Len(Trace) + 1 => PrintT(<<"CONSUMED", l - 1>>)
=============================================================================
