---------------------------- MODULE PolyMeasTrace ----------------------------
(* C17 trace validation, measured part: real-valued corners, arcs, N-gons and   *)
(* Bezier curves run through the REAL builders; the harness measures against    *)
(* analytic geometry (deviations relative to the size of the input, 1e-12       *)
(* units), this specification judges.  (DESIGN section 10.)                     *)
(*  corner  cls fit -> f+1 points replace the vertex: ends = tangent points,    *)
(*          all on the circle, in order, inside the wedge, neighbours untouched; *)
(*          cls unfit -> the three vertices unchanged; cls amb (within 1e-6 of   *)
(*          the fit boundary) -> either outcome                                 *)
(*  arc     f-1 points inserted, on a circle of radius |r| through both end     *)
(*          points, in order, all on one side of the chord, the minor arc, the  *)
(*          side a function of the sign of r                                    *)
(*  nagon   n vertices at distance r, equal edges, one orientation, first (r,0) *)
(*  bezier  every vertex on the curve, non-decreasing parameters, first / last  *)
(*          vertex = end control points (closed: back at the first), degree-1   *)
(*          curves reproduced exactly (as many vertices as end points)          *)
EXTENDS Bezier, TLC, Json
Trace == ndJsonDeserialize("trace.ndjson")
VARIABLES l, conv
Init == l = 1 /\ conv = 0
Tol == 1000          \* 1e-9 relative to the input size
SemiTol == 1000000   \* semicircles (r = half chord in floating point): sqrt(r^2 - d^2) is ill-conditioned

NonDecreasing(u) == \A k \in 1..(Len(u) - 1) : u[k] <= u[k + 1]

OnCurve(x) == x.first <= Tol /\ x.last <= Tol /\ x.dist <= Tol /\ x.mono /\ NonDecreasing(x.u)
Judge(e) ==
  LET say(ok, why) == IF ok THEN TRUE ELSE (PrintT(<<"BAD", l, why>>) /\ FALSE)
  IN CASE e.ev = "corner" ->
            /\ say(~e.panic, "builder-panicked")
            /\ say(e.nan = 0, "NaN-vertex")
            /\ (IF e.cls = "fit"
                THEN /\ say(e.n = e.f + 3, "fillet-is-not-facets+1-points")
                     /\ say(e.ends <= Tol, "fillet-end-is-not-the-tangent-point")
                     /\ say(e.circ <= Tol, "fillet-point-not-on-the-circle")
                     /\ say(e.ctr <= Tol, "harness-centre-not-tangent-to-the-edges")
                     /\ say(e.mono /\ e.side, "points-not-in-order-inside-the-corner")
                     /\ say(e.keep <= Tol, "neighbour-vertex-moved")
                ELSE IF e.cls = "unfit"
                THEN say(e.n = 3 /\ e.keep <= Tol, "vertex-changed-although-fillet-does-not-fit")
                ELSE say(e.n = 3 \/ e.n = e.f + 3, "vertex-count"))
       [] e.ev = "arc" ->
            /\ say(~e.panic, "builder-panicked")
            \* a radius below half the chord (in exact arithmetic on the float inputs) has no circle: not judged
            /\ say(e.nan = 0 \/ ~e.feas, IF e.semi THEN "semicircle-NaN-vertex" ELSE "NaN-vertex")
            /\ (e.nan = 0 =>
                 /\ say(e.n = e.f + 2, "arc-is-not-facets-1-inserted-points")
                 /\ say(e.keep <= Tol, "arc-end-point-moved")
                 /\ (e.f >= 2 =>
                      /\ say(e.circ <= (IF e.semi THEN SemiTol ELSE Tol), "arc-point-not-on-the-circle")
                      /\ say(e.mono, "points-not-in-order-along-the-arc")
                      /\ say(e.pside # 0, "arc-points-not-on-one-side-of-the-chord")
                      /\ say(e.cside = 0 \/ e.cside = -e.pside, "arc-is-not-the-minor-arc")
                      /\ say(conv = 0 \/ e.signr * e.pside = conv, "arc-side-not-selected-by-the-sign")
                      /\ (IF e.signr * e.pside # 1 THEN PrintT(<<"DRIFT", l>>) ELSE TRUE)))
       [] e.ev = "nagon" ->
            /\ say(e.n = e.ng, "nagon-vertex-count")
            /\ say(e.rad <= Tol /\ e.edge <= Tol /\ e.ccw /\ e.first <= Tol, "nagon-not-regular")
       [] e.ev = "bezier" ->
            /\ (e.kind = "lattice" =>
                  /\ say(WellFormedB(e.v.pts, e.v.closed), "curve-outside-the-family")
                  /\ say(e.spans = NSpans(e.v.pts, e.v.closed) /\ e.maxdeg = MaxDeg(e.v.pts)
                           /\ e.linear = Linear(e.v.pts) /\ e.closed = e.v.closed, "harness-structure-differs-from-model")
                  /\ say(e.linear => e.nlin = NLinear(e.v.pts, e.v.closed), "harness-structure-differs-from-model"))
            /\ say(~e.panic /\ ~e.err, "bezier-builder-failed")
            /\ say(e.nan = 0 /\ e.n >= 2, "bezier-output-degenerate")
            \* negative handle lengths are not defined by the property: either reading (|r|, or signed: e.s) is
            \* accepted, but one reading must explain the whole curve - both handle setters read lengths alike
            /\ (IF e.alt
                THEN say(OnCurve(e) \/ OnCurve(e.s), "no-reading-of-negative-handles-fits")
                ELSE /\ say(e.first <= Tol, "first-vertex-is-not-the-first-end-point")
                     /\ say(e.last <= Tol, IF e.closed THEN "closed-curve-does-not-return-to-start" ELSE "last-vertex-is-not-the-last-end-point")
                     /\ say(e.dist <= Tol, "vertex-not-on-the-curve")
                     /\ say(e.mono /\ NonDecreasing(e.u), "parameters-not-in-increasing-order"))
            /\ (e.linear => say(e.n = e.nlin /\ e.lin <= Tol, "degree-1-span-not-reproduced-exactly"))
       [] OTHER -> say(FALSE, "unknown-event")

Next == /\ l <= Len(Trace) /\ l' = l + 1 /\ (IF Judge(Trace[l]) THEN TRUE ELSE TRUE)
        /\ conv' = IF conv = 0 /\ Trace[l].ev = "arc" /\ Trace[l].nan = 0 /\ ~Trace[l].panic /\ Trace[l].f >= 2
                      /\ Trace[l].pside # 0
                   THEN Trace[l].signr * Trace[l].pside ELSE conv
Spec == Init /\ [][Next]_<<l, conv>>
Report == l = Len(Trace) + 1 => PrintT(<<"CONSUMED", l - 1>>)
=============================================================================
