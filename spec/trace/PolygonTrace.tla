----------------------------- MODULE PolygonTrace -----------------------------
(* Trace validation for C04.  One line = one polygon evaluated by the REAL      *)
(* Polygon2D / Mesh2D (quadtree) / Mesh2DSlow (brute force).                    *)
(*  poly   a lattice polygon exported by PolygonM.tla; at every half-lattice    *)
(*         point of the window: sign classes (w.r.t. +-1e-9) lsf/lss/lsp of     *)
(*         Mesh2D/Mesh2DSlow/Polygon2D, errors lef/les/lep of |value| against   *)
(*         sqrt(exp) and |fast-slow| ldfs, in 1e-12 units.  This module         *)
(*         recomputes Inside and D2 exactly and judges.                         *)
(*  pr     probes at real-valued points taken from the REAL quadtree (box       *)
(*         corners, split-line midpoints, +-1 ulp, vertex levels): the oracle   *)
(*         sign so (0 = within 1e-6 of the boundary: not compared) and the      *)
(*         errors were measured by the harness against an exact-orientation     *)
(*         brute force; this module judges them.                                *)
(*  polyr  random real polygons: probes only.                                   *)
EXTENDS Polygon, Json
Trace == ndJsonDeserialize("trace.ndjson")
VARIABLE l
Init == l = 1
TolE12 == 2000     \* 2e-9: the quadtree snaps clipped end points by up to 1e-9 (sdf.tolerance)

NX(e) == e.win[3] - e.win[1] + 1
WPt(e, i) == <<e.win[1] + ((i - 1) % NX(e)), e.win[2] + ((i - 1) \div NX(e))>>
SetMin(T) == CHOOSE x \in T : \A y \in T : x <= y
SignsDiffer(a, b) == a # 0 /\ b # 0 /\ a # b

JudgeLattice(e) ==
  LET n == Len(e.lsf)
      d2 == [i \in 1..n |-> D2(e.v, WPt(e, i))]
      want == [i \in 1..n |-> IF d2[i][1] = 0 THEN 0 ELSE IF Inside(e.v, WPt(e, i)) THEN 0 - 1 ELSE 1]
      C(name, T) == IF T = {} THEN "" ELSE name \o ":" \o ToString(WPt(e, SetMin(T))) \o "|"
      bsf == {i \in 1..n : want[i] # 0 /\ e.lsf[i] # want[i]}
      bss == {i \in 1..n : want[i] # 0 /\ e.lss[i] # want[i]}
      bsp == {i \in 1..n : want[i] # 0 /\ e.lsp[i] # want[i]}
      bvf == {i \in 1..n : e.lef[i] > TolE12}
      bvs == {i \in 1..n : e.les[i] > TolE12}
      bvp == {i \in 1..n : e.lep[i] > TolE12}
      bfs == {i \in 1..n : e.ldfs[i] > TolE12 \/ SignsDiffer(e.lsf[i], e.lss[i])} \ bsf
      say(ok, why) == IF ok THEN TRUE ELSE (PrintT(<<"BAD", l, why>>) /\ FALSE)
  IN /\ say(n = NX(e) * (e.win[4] - e.win[2] + 1) /\ Len(e.exp) = n, "machinery:wrong-number-of-points")
     /\ say(Simple(e.v), "machinery:polygon-not-simple")
     /\ say(\A i \in 1..n : RatEq(<<e.exp[i][1], e.exp[i][2]>>, d2[i]), "machinery:expected-distance-differs")
     /\ say(bsf \cup bss \cup bsp \cup bvf \cup bvs \cup bvp \cup bfs = {},
            \* e.snap > 0: the polygon has a vertex inside the 1e-9 snapping band of a quadtree split line
            C(IF e.snap > 0 THEN "sign-fast@snap" ELSE "sign-fast", bsf) \o C("sign-slow", bss)
            \o C(IF e.snap > 0 THEN "sign-polygon2d@snap" ELSE "sign-polygon2d", bsp) \o C("dist-fast", bvf)
            \o C("dist-slow", bvs) \o C("dist-polygon2d", bvp) \o C("fast-vs-slow", bfs))

\* probe kinds: 1 quadtree box corner, 2 split-line midpoint / split line x vertex level, 3 one ulp beside
\* those (all: "split"); 4 level with a vertex ("vlevel"); 5 random, 6 vertex / edge point ("other")
Group(k) == IF k <= 3 THEN "split" ELSE IF k = 4 THEN "vlevel" ELSE "other"
JudgeProbes(e) ==
  LET q == e.pr
      m == Len(q.so)
      C1(name, T) == IF T = {} THEN "" ELSE name \o ":" \o ToString(SetMin(T)) \o "|"
      \* polygons farther than 3e5 from the origin: a few ulps of a coordinate exceed the clipper's absolute 1e-9
      \* tolerance, pieces are dropped from the quadtree (recorded limitation): kept apart as "@far"
      C(name, T) == IF e.far = 1 THEN C1(name \o "@far", T) ELSE
                    C1(name \o "@split", {i \in T : Group(q.kind[i]) = "split"})
                    \o C1(name \o "@vlevel", {i \in T : Group(q.kind[i]) = "vlevel"})
                    \* ordinary points: when a vertex of the polygon lies in the 1e-9 snapping band of a split line
                    \* the quadtree double-counts or drops that edge and whole regions get the wrong sign
                    \o C1(name \o (IF e.snap > 0 THEN "@snap" ELSE "@other"), {i \in T : Group(q.kind[i]) = "other"})
      \* the brute-force implementation against the oracle; the quadtree against the brute force
      bss == {i \in 1..m : SignsDiffer(q.ss[i], q.so[i])}
      bsf == {i \in 1..m : SignsDiffer(q.sf[i], q.ss[i])}
      bvf == {i \in 1..m : q.ef[i] > TolE12}
      bvs == {i \in 1..m : q.es[i] > TolE12}
      bfs == {i \in 1..m : q.dfs[i] > TolE12}
      say(ok, why) == IF ok THEN TRUE ELSE (PrintT(<<"BAD", l, why>>) /\ FALSE)
  IN /\ say(Len(q.sf) = m /\ Len(q.ss) = m /\ Len(q.ef) = m /\ Len(q.es) = m /\ Len(q.dfs) = m, "machinery:probe-lengths")
     \* a simple polygon must be accepted by all three constructors
     /\ say(e.cerr = 0, "pctor-error:1|")
     /\ say(bsf \cup bss \cup bvf \cup bvs \cup bfs = {},
            C("psign-slow", bss) \o C("psign-fast", bsf) \o C("pdist-fast", bvf) \o C("pdist-slow", bvs)
            \o C("pfast-vs-slow", bfs))

\* both parts are always judged (each prints its own BAD line)
Next == /\ l <= Len(Trace) /\ l' = l + 1
        /\ (IF (IF Trace[l].ev = "poly" THEN JudgeLattice(Trace[l]) ELSE TRUE) THEN TRUE ELSE TRUE)
        /\ (IF JudgeProbes(Trace[l]) THEN TRUE ELSE TRUE)
Spec == Init /\ [][Next]_l
Report == l = Len(Trace) + 1 => PrintT(<<"CONSUMED", l - 1>>)
=============================================================================
