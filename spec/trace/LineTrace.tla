----------------------------- MODULE LineTrace -----------------------------
(* Trace validation of real marching-squares output (C08): one line = one real *)
(* segment list projected by the harness (ids within 1e-6 cell; doubled        *)
(* lattice positions when the renderer sampled the lattice exactly).           *)
EXTENDS MS2, Json
Trace == ndJsonDeserialize("trace.ndjson")
VARIABLE l
Init == l = 1
Judge(e) ==
  LET L == e.segs
      w == World(e.dims[1], e.dims[2], e.base, e.code)
      PL == [i \in 1..Len(L) |-> <<e.pos[L[i][1]], e.pos[L[i][2]]>>]
      a == IF e.aligned THEN Area8(PL) ELSE e.area
      say(ok, why) == IF ok THEN TRUE ELSE (PrintT(<<"BAD", l, why>>) /\ FALSE)
      nonCornerDeg2 == \A i \in 1..Len(PL) : \A j \in 1..2 :
                         IsCorner(PL[i][j]) \/ Degree(PL, PL[i][j]) = 2
  IN /\ say(EvenDegree(L), "odd-degree-endpoint")
     /\ say(NoZeroLength(L), "zero-length-segment")
     /\ say(e.outside = 0, "vertex-outside-box")
     /\ (e.aligned => say(VerticesOnBoundary(w, PL), "endpoint-not-on-straddling-edge"))
     /\ (e.aligned => say(nonCornerDeg2, "degree-not-2-away-from-degenerate-corner"))
     /\ (e.aligned => say(a = e.area, "projection-area-mismatch"))
     \* not demanded by the property (orientation convention, segment direction, cell-internal order): drift only
     /\ (IF (e.aligned => SameBag(PL, WorldLines(w))) THEN TRUE ELSE PrintT(<<"DRIFT", l>>))
Next == /\ l <= Len(Trace) /\ l' = l + 1 /\ (IF Judge(Trace[l]) THEN TRUE ELSE TRUE)
Spec == Init /\ [][Next]_l
Report == l = Len(Trace) + 1 => PrintT(<<"CONSUMED", l - 1>>)
=============================================================================
