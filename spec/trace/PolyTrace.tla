------------------------------ MODULE PolyTrace ------------------------------
(* C17 trace validation, polygon builder.  One line = one program run on the    *)
(* REAL sdf.Polygon builder; every output vertex measured against its item of   *)
(* the model's expectation (PolyBuilder.tla), deviations in 1e-12 units.        *)
(* The expectation is recomputed here from the program; the echo must agree.    *)
EXTENDS PolyBuilder, Json
Trace == ndJsonDeserialize("trace.ndjson")
VARIABLES l, conv       \* conv: side of the arc points for a positive radius seen so far (0 = none yet)
Init == l = 1 /\ conv = 0
Tol == 1000             \* 1e-9

RECURSIVE NExactFrom(_, _)
NExactFrom(P, i) == IF i > N(P) THEN 0 ELSE (IF ExactFit(P, i) THEN 1 ELSE 0) + NExactFrom(P, i + 1)

\* the run of equal-kind items around position k: (fillet / arc) points must be ordered along the arc
SameRun(X, a, b) == /\ X[a].t = X[b].t
                    /\ (X[a].t \in {"m", "a"} => X[a].v[1] = X[b].v[1])
Ordered(e, X) ==
  \A k \in 1..(Len(X) - 1) :
     (X[k].t \in {"c", "m", "a"} /\ SameRun(X, k, k + 1) /\ e.frac[k] >= 0 /\ e.frac[k + 1] >= 0)
       \* "c" positions are measured along the output order, "m" / "a" positions along the program order
       => (IF e.prog.rev /\ X[k].t # "c" THEN e.frac[k] > e.frac[k + 1] ELSE e.frac[k] < e.frac[k + 1])
Interior(e, X) ==
  \A k \in 1..Len(X) :
     (X[k].t = "c" \/ X[k].t = "a" \/ (X[k].t = "m" /\ X[k].v[2] # 0 /\ X[k].v[2] # X[k].v[3]))
       => (e.frac[k] > 0 /\ e.frac[k] < 1000000)
ArcConv(e) == IF Len(e.arcs) = 0 THEN 0 ELSE e.arcs[1][2] * e.arcs[1][3]

Judge(e) ==
  LET say(ok, why) == IF ok THEN TRUE ELSE (PrintT(<<"BAD", l, why>>) /\ FALSE)
  IN IF e.kind = "nagon"
     THEN /\ say(~e.panic /\ e.n = e.ng /\ e.nan = 0, "nagon-vertex-count")
          /\ say(e.ng = 4 /\ e.exp = <<Pt(2 * e.rg, 0), Pt(0, 2 * e.rg), Pt(-2 * e.rg, 0), Pt(0, -2 * e.rg)>>, "echo-differs-from-model")
          /\ say(\A k \in 1..Len(e.d) : e.d[k] <= Tol, "nagon-not-regular")
     ELSE LET P == e.prog
              X == Expected(P)
          IN /\ say(WellFormed(P), "program-outside-the-family")
             /\ say(e.exp = X, "echo-differs-from-model")
             /\ say(~e.panic, "builder-panicked")
             /\ say(e.nan = 0, "NaN-vertex")
             \* a fillet that fits EXACTLY is the boundary of the fit rule: a rounding error of the real arithmetic may
             \* decide either way, so a different count is not judged there (reported as drift)
             /\ (IF e.n = Len(X) THEN TRUE
                 ELSE IF NExactFrom(P, 1) > 0 THEN PrintT(<<"DRIFT", l>>)
                 ELSE say(FALSE, "vertex-count"))
             /\ (e.n = Len(X) =>
                   /\ say(Len(e.d) = Len(X), "harness-measured-nothing")
                   /\ say(\A k \in 1..Len(X) : X[k].t = "p" => e.d[k] <= Tol, "vertex-not-at-the-stated-position")
                   /\ say(\A k \in 1..Len(X) : X[k].t = "c" => e.d[k] <= Tol, "fillet-point-not-on-the-circle")
                   /\ say(\A k \in 1..Len(X) : (X[k].t = "m" /\ (X[k].v[2] = 0 \/ X[k].v[2] = X[k].v[3])) => e.d[k] <= Tol,
                          "fillet-end-is-not-the-tangent-point")
                   /\ say(\A k \in 1..Len(X) : (X[k].t = "m" /\ X[k].v[2] # 0 /\ X[k].v[2] # X[k].v[3]) => e.d[k] <= Tol,
                          "fillet-point-not-on-the-circle")
                   /\ say(\A k \in 1..Len(X) : X[k].t = "a" => e.d[k] <= Tol, "arc-point-not-on-the-circle")
                   /\ say(e.ctr <= Tol, "harness-centre-not-tangent-to-the-edges")
                   /\ say(Ordered(e, X) /\ Interior(e, X), "points-not-in-order-along-the-arc")
                   \* arcs: all inserted points strictly on one side of the chord, the minor arc (opposite the centre),
                   \* and the side is a function of the sign of the radius (same convention for every arc)
                   /\ say(\A a \in 1..Len(e.arcs) : e.arcs[a][3] # 0, "arc-points-not-on-one-side-of-the-chord")
                   /\ say(\A a \in 1..Len(e.arcs) : e.arcs[a][4] = 0 \/ e.arcs[a][4] = -e.arcs[a][3], "arc-is-not-the-minor-arc")
                   /\ say(\A a \in 1..Len(e.arcs) : e.arcs[a][2] * e.arcs[a][3] = ArcConv(e)
                                                     /\ (conv = 0 \/ ArcConv(e) = conv), "arc-side-not-selected-by-the-sign")
                   \* the code's present convention (positive radius: arc to the left of the chord) is drift only
                   /\ (IF Len(e.arcs) > 0 /\ ArcConv(e) # 1 THEN PrintT(<<"DRIFT", l>>) ELSE TRUE))

Next == /\ l <= Len(Trace) /\ l' = l + 1 /\ (IF Judge(Trace[l]) THEN TRUE ELSE TRUE)
        /\ conv' = IF conv = 0 /\ Trace[l].kind = "poly" /\ Len(Trace[l].arcs) > 0 /\ Len(Trace[l].d) > 0
                   THEN ArcConv(Trace[l]) ELSE conv
Spec == Init /\ [][Next]_<<l, conv>>
Report == l = Len(Trace) + 1 => PrintT(<<"CONSUMED", l - 1>>)
=============================================================================
