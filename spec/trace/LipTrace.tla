------------------------------ MODULE LipTrace ------------------------------
(* C03, measured Lipschitz clause: for a real shape of a constructor the        *)
(* property lists as 1-Lipschitz, excess = max over random point pairs of       *)
(* |f(p)-f(q)| / |p-q| - 1 in units of 1e-12 (rounding of the evaluations       *)
(* removed by the harness).  Judged here: excess <= 1e-9.                       *)
EXTENDS Integers, Sequences, TLC, Json
Trace == ndJsonDeserialize("trace.ndjson")
VARIABLE l
Init == l = 1
Judge(e) ==
  LET say(ok, why) == IF ok THEN TRUE ELSE (PrintT(<<"BAD", l, why>>) /\ FALSE)
  IN /\ say(e.n > 0, "no-pair-sampled")
     /\ say(e.excess <= 1000, "not-1-lipschitz-on-random-pairs")
Next == /\ l <= Len(Trace) /\ l' = l + 1 /\ (IF Judge(Trace[l]) THEN TRUE ELSE TRUE)
Spec == Init /\ [][Next]_l
Report == l = Len(Trace) + 1 => PrintT(<<"CONSUMED", l - 1>>)
=============================================================================
