----------------------------- MODULE ClipTrace -----------------------------
(* Trace validation for C04, clipper part.  One line = one vector of ClipM      *)
(* (node box [0,2K]^2, lattice segment p -> q) measured on the REAL             *)
(* Box2.lineIntersect / quad0..quad3 in several variants (placement, end point  *)
(* moved by about the snapping distance).  Arrays are indexed by variant:       *)
(*   exact  1: dyadic placement, end points not moved                           *)
(*   pat    which children returned a piece                                     *)
(*   perr   distance of the returned end points from the expected ones          *)
(*   gap    longest part of the segment no child returned                       *)
(*   stray  distance of a returned end point from the segment / its child box   *)
(*   align  1: every piece runs in the direction of the segment                 *)
(* distances in 1e-3 of the clipper's snapping distance.                        *)
(* Judged against Clip.tla: on exact variants the children that get a piece are *)
(* exactly those of the specification and the end points are the expected ones; *)
(* on every variant nothing of an owned segment is lost (gap) and nothing is    *)
(* returned that is not on the segment and in the child (stray, align).         *)
EXTENDS Clip, TLC, Json
Trace == ndJsonDeserialize("trace.ndjson")
VARIABLE l
Init == l = 1
TolEnd == 2000     \* 2 snapping distances: each coordinate of an end point is snapped by at most one
TolGap == 6000     \* two neighbouring pieces snapped apart, or a piece shorter than the snapping distance dropped
SetMin(S) == CHOOSE x \in S : \A y \in S : x <= y

Judge(e) ==
  LET n == Len(e.var)
      P == <<e.p[1], e.p[2]>>
      Q == <<e.q[1], e.q[2]>>
      want == Pattern(e.k, P, Q)
      owned == Owned(e.k, P, Q)
      badpat == {i \in 1..n : e.exact[i] = 1 /\ e.pat[i] # want}
      badend == {i \in 1..n : e.exact[i] = 1 /\ e.perr[i] > TolEnd}
      badgap == {i \in 1..n : owned /\ e.gap[i] > TolGap}
      \* each piece clipped twice more (children of its child, and theirs): still nothing lost (a piece moved onto the
      \* top / right edge of its child by snapping would belong to a neighbour that never saw it)
      badgap2 == {i \in 1..n : owned /\ e.gap[i] <= TolGap /\ e.gap2[i] > 2 * TolGap}
      badstray == {i \in 1..n : e.stray[i] > TolEnd \/ e.align[i] # 1}
      C(name, T) == IF T = {} THEN "" ELSE name \o ":" \o ToString(e.var[SetMin(T)]) \o "|"
      say(ok, why) == IF ok THEN TRUE ELSE (PrintT(<<"BAD", l, why>>) /\ FALSE)
  IN /\ say(n > 0 /\ Len(e.exact) = n /\ Len(e.pat) = n /\ Len(e.perr) = n /\ Len(e.gap) = n /\ Len(e.gap2) = n /\ Len(e.stray) = n
            /\ Len(e.align) = n /\ P # Q, "machinery:clip-lengths")
     /\ say(badpat \cup badend \cup badgap \cup badgap2 \cup badstray = {},
            C("piece-lost", badgap) \o C("piece-lost-further-down", badgap2) \o C("children-differ", badpat \ badgap) \o C("end-point", badend) \o C("stray-piece", badstray))

Next == /\ l <= Len(Trace) /\ l' = l + 1 /\ (IF Judge(Trace[l]) THEN TRUE ELSE TRUE)
Spec == Init /\ [][Next]_l
Report == l = Len(Trace) + 1 => PrintT(<<"CONSUMED", l - 1>>)
=============================================================================
