--------------------------- MODULE MeshStatTrace ---------------------------
(* C05 / C08, real shapes at real coordinates: the harness identifies          *)
(* coincident vertices (1e-6 cell) of the REAL output and counts; this spec    *)
(* judges the counts.                                                          *)
(*   unmatched  3D: directed edges a->b whose reverse b->a does not occur      *)
(*              equally often;  2D: end points of odd degree                   *)
(*   degen      triangles with two identical vertices / zero-length segments   *)
(*   circle     2D circles: max |f(endpoint)| 8(R-h)/h^2 * 1e6                 *)
(*   perimerr   2D: |length - perimeter| / perimeter * 1e6, seq = resolution   *)
(*              index (cells double from one to the next); judged against the  *)
(*              envelope 2/cells and 1 % at the finest resolution              *)
EXTENDS Integers, Sequences, TLC, Json
Trace == ndJsonDeserialize("trace.ndjson")
VARIABLES l, prev
Init == l = 1 /\ prev = <<"", "", 0, 0>>
Judge(e) ==
  LET say(ok, why) == IF ok THEN TRUE ELSE (PrintT(<<"BAD", l, why>>) /\ FALSE)
  IN \* (an empty output is legitimate: e.g. a difference whose second operand swallows the first)
     /\ say(e.unmatched = 0, "open-or-misoriented-edge")
     /\ say(e.degen = 0, "degenerate-item")
     /\ say(e.outside = 0, "vertex-outside-sampled-box")
     /\ say(e.nt = 0 \/ e.volpos, "volume-not-positive")
     /\ (e.circle > 0 => say(e.circle <= 1001000, "circle-endpoint-error-too-large"))
     \* convergence: a polygonal contour loses at most ~0.83 h per right-angled corner, so the relative error is
     \* bounded by C / cells (C = 2 covers every rotated box; circles are O(h^2)); it need not be monotone -
     \* the loss depends on how the corners happen to sit in their cells
     /\ (e.hasperim => say(e.perimerr <= 2000000 \div e.cells, "length-does-not-converge"))
     /\ ((e.hasperim /\ e.seq = 4) => say(e.perimerr <= 10000, "length-far-from-perimeter"))
Next == /\ l <= Len(Trace) /\ l' = l + 1 /\ (IF Judge(Trace[l]) THEN TRUE ELSE TRUE)
        /\ prev' = IF Trace[l].hasperim THEN <<Trace[l].shape, Trace[l].r, Trace[l].seq, Trace[l].perimerr>> ELSE <<"", "", 0, 0>>
Spec == Init /\ [][Next]_<<l, prev>>
Report == l = Len(Trace) + 1 => PrintT(<<"CONSUMED", l - 1>>)
=============================================================================
