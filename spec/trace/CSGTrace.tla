------------------------------ MODULE CSGTrace ------------------------------
(* Trace validation for C01, C02, C03 (stage 1): one line = one program of    *)
(* CSG.tla rebuilt with the REAL constructors.  Logged: BoundingBox() outward *)
(* rounded in units 2^-10 (bb), Evaluate on every integer point of the window *)
(* w in units 1e-6 (v; 0 iff |f| <= 1e-9; scan order x, y(, z) with the last  *)
(* coordinate fastest).                                                       *)
(*   Clause = "C01": the box is finite, ordered and contains every logged     *)
(*            strictly negative point (any enclosing box passes); comparison  *)
(*            with BBcode only as DRIFT.                                      *)
(*   Clause = "C02": the sign agrees with Cmp wherever the lattice semantics  *)
(*            decides it, the value agrees with Val where it is rational.     *)
(*   Clause = "C03": exact chains equal the Euclidean distance Dist; lip1     *)
(*            programs change by at most |p - q| between lattice neighbours.  *)
EXTENDS CSG, Json
CONSTANT Clause
Trace == ndJsonDeserialize("trace.ndjson")
VARIABLE l
Init == l = 1

Tol == 2                \* units 1e-6 (rounding of the projection included)
G6 == 1000000

Step(dl) == IF Norm2(dl) = 1 THEN G6 ELSE 1414214       \* |dp| in units 1e-6, rounded up
Near(x, y) == Abs(x - y) <= Tol

Judge(ev) ==
  LET e == ev.e
      w == ev.w
      P == WinPoints(w)
      v(p) == ev.v[Idx(p, w)]
      say(ok, why) == IF ok THEN TRUE ELSE (PrintT(<<"BAD", l, why>>) /\ FALSE)
  IN
  /\ say(ev.err = "", "constructor-failed-on-valid-parameters")
  /\ say(Len(ev.v) = WinCount(w), "window-not-fully-evaluated")
  /\ say(\A i \in 1..Len(ev.v) : Abs(ev.v[i]) < 1000000000, "value-out-of-range")
  /\ (Clause = "C01" =>
        /\ say(ev.fin = 1, "bbox-not-finite")
        /\ say(Ordered(ev.bb), "bbox-not-ordered")
        /\ say(\A p \in P : v(p) < 0 => InBB(p, ev.bb), "negative-point-outside-bbox")
        /\ (IF \A i \in 1..Len(ev.bb) : Abs(ev.bb[i] - BBcode(e)[i]) <= 2 THEN TRUE ELSE PrintT(<<"DRIFT", l>>)))
  /\ (Clause = "C02" =>
        /\ say(ev.nan = 0, "evaluate-returned-nan")
        /\ say(\A p \in P : LET c == Cmp(e, p, 0, 1)
                                x == v(p)
                            IN (c = -1 => x <= 0) /\ (c = 1 => x >= 0) /\ (c = 0 => Abs(x) <= Tol),
               "sign-disagrees-with-denotation")
        /\ say(\A p \in P : LET vv == Val(e, p, 1) IN vv[1] = 1 => Near(v(p), vv[2] * G6),
               "value-disagrees-with-denotation"))
  /\ (Clause = "C03" =>
        /\ (IsExact(e) => say(\A p \in P : LET dd == Dist(e, p, 1) IN dd[1] = 1 => Near(v(p), dd[2] * G6),
                              "exact-chain-not-euclidean"))
        /\ (IsLip1(e) => say(\A p \in P : \A dl \in NeighDeltas(Len(p)) :
                                LET q == AddV(p, dl) IN InWin(q, w) => Abs(v(p) - v(q)) <= Step(dl) + 2 * Tol,
                              "not-1-lipschitz-on-lattice-neighbours")))

Next == /\ l <= Len(Trace) /\ l' = l + 1 /\ (IF Judge(Trace[l]) THEN TRUE ELSE TRUE)
Spec == Init /\ [][Next]_l
Report == l = Len(Trace) + 1 => PrintT(<<"CONSUMED", l - 1>>)
=============================================================================
