--------------------------- MODULE DCMeasureTrace ---------------------------
(* C19, measured clauses on real shapes (spheres, boxes, rotated boxes,        *)
(* cylinders, unions, differences built with the library's constructors,       *)
(* wrapped with an enlarged box so that the surface is strictly inside the     *)
(* sampled volume) through the REAL dual contouring renderers.  The harness    *)
(* MEASURES, this specification JUDGES with its own constants; TLC does not    *)
(* compute the geometry here (DESIGN section 10).                              *)
(*   unmatched   directed edges without a reverse partner (vertices identified *)
(*               within 1e-6 cell), counted over the whole mesh                *)
(*   degenerate  triangles with two identified vertices                        *)
(*   nan/outside non-finite vertex coordinates / coordinates outside the       *)
(*               sampled box                                                   *)
(*   vol         enclosed volume in cells, rounded towards zero                *)
(*   maxdist     max |f(v)| / cell diagonal * 1e6, rounded down; f is the      *)
(*               Euclidean distance for kind "exact" and a lower bound of it   *)
(*               for "csg", so maxdist > 1e6 proves a vertex farther than one  *)
(*               cell diagonal from the true surface                           *)
(*   same        a second run gave bit-identical triangles in the same order   *)
EXTENDS Integers, Sequences, TLC, Json
Trace == ndJsonDeserialize("trace.ndjson")
VARIABLE l
Init == l = 1
OneDiagonal == 1000000
Judge(e) ==
  LET say(ok, why) == IF ok THEN TRUE ELSE (PrintT(<<"BAD", l, why>>) /\ FALSE)
  IN /\ say(e.outcome = "ok", "renderer-panicked")
     /\ say(e.nt > 0, "empty-mesh")
     /\ say(e.nan = 0, "non-finite-vertex")
     /\ say(e.unmatched = 0, "open-or-misoriented-edge")
     /\ say(e.outside = 0, "vertex-outside-box")
     /\ say(e.vol > 0, "volume-not-positive")
     /\ say(e.maxdist <= OneDiagonal, "vertex-beyond-one-cell-diagonal")
     /\ say(e.same, "repeated-run-differs")
     \* last, so that it never hides one of the clauses above
     \* zero-area triangles are not excluded by C19 (edge balance is): drift only
     /\ (IF e.degenerate = 0 THEN TRUE ELSE PrintT(<<"DRIFT", l>>))
Next == /\ l <= Len(Trace) /\ l' = l + 1 /\ (IF Judge(Trace[l]) THEN TRUE ELSE TRUE)
Spec == Init /\ [][Next]_l
Report == l = Len(Trace) + 1 => PrintT(<<"CONSUMED", l - 1>>)
=============================================================================
