--------------------------- MODULE StlLoaderTrace ---------------------------
(* C14 trace validation: one line = one REAL call of render.LoadSTL (and of      *)
(* obj.ImportSTL) on a concrete file, made in a child process under recover(),   *)
(* a watchdog, an address-space limit and an allocation measure.                 *)
(*   ev = "abs": the bytes concretise an abstract file chosen by TLC (lines)     *)
(*   ev = "mut": the bytes are a seeded mutation of a shipped / generated file;   *)
(*               the harness's line classifier supplies the scan summary          *)
(* PROPERTY (verdict): outcome is Err or Mesh - never Panic, Crash, Hang,         *)
(* OverAlloc - and the allocation is proportional to the file size.               *)
(* DRIFT (no verdict): outcome = Decide(...) of StlLoader.tla, as written or      *)
(* with the grouping guarded.                                                     *)
EXTENDS StlLoader, Json
Trace == ndJsonDeserialize("trace.ndjson")
VARIABLE l
Init == l = 1

AllocFactor == 64          \* bytes allocated per byte of file (measured: <= 20), tolerance favours acceptance
AllocSlack == 4194304      \* scanner buffer, reflection caches, runtime noise

Summary(e) == IF e.ev = "abs" THEN Scan(e.lines) ELSE [nv |-> e.cnv, stop |-> e.cstop]
Obs(e) == [out |-> e.out, n |-> e.n, idx |-> e.pidx, len |-> e.plen]
Hc(e) == IF e.hchi < 16384 THEN e.hchi * 65536 + e.hclo ELSE 0     \* only used when Rel = "eq", which needs hchi < 16384
Model(e, g) == Decide(Rel(e.size, e.hchi, e.hclo), Hc(e), Summary(e), g)
\* a repaired loader may also drop the incomplete trailing triangle instead of failing
Lenient(e) == LET s == Summary(e) IN
  Rel(e.size, e.hchi, e.hclo) = "ne" /\ s.stop = "eof" /\ Obs(e) = Mesh(s.nv \div 3)

Judge(e) ==
  LET say(ok, why) == IF ok THEN TRUE ELSE (PrintT(<<"BAD", l, why>>) /\ FALSE)
      s == Summary(e)
  IN \* machinery sanity: the concretisation produced the abstract file it was asked for
     /\ (e.ev = "abs" => say(Rel(e.size, e.hchi, e.hclo) = LayoutRel(e.layout), "harness-layout-not-realised"))
     /\ ((e.ev = "abs" /\ e.layout # "short") => say(e.amb = 1 \/ (s.nv = e.cnv /\ s.stop = e.cstop), "harness-lines-not-realised"))
     \* the property
     /\ say(e.out # "Panic", "loader-panicked")
     /\ say(e.out # "Crash", "loader-crashed")
     /\ say(e.out # "Hang", "loader-hung")
     /\ say(e.out # "OverAlloc", "loader-out-of-memory")
     /\ say(e.out \in {"Err", "Mesh"}, "loader-unknown-outcome")
     /\ say(e.alloc <= AllocFactor * e.size + AllocSlack, "allocation-out-of-proportion")
     /\ say(e.imp # "Panic", "importstl-panicked")
     /\ say(e.imp # "Hang", "importstl-hung")
     /\ say((e.out = "Err") <=> (e.imp = "Err"), "importstl-disagrees-with-loadstl")
     \* drift against the code-shaped model
     /\ (IF e.amb = 1 \/ Obs(e) = Model(e, FALSE) \/ Obs(e) = Model(e, TRUE) \/ Lenient(e)
         THEN TRUE ELSE PrintT(<<"DRIFT", l>>))

Next == /\ l <= Len(Trace) /\ l' = l + 1 /\ (IF Judge(Trace[l]) THEN TRUE ELSE TRUE)
Spec == Init /\ [][Next]_l
Report == l = Len(Trace) + 1 => PrintT(<<"CONSUMED", l - 1>>)
=============================================================================
