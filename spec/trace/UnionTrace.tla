---------------------------- MODULE UnionTrace ----------------------------
(* Trace validation for C16, union part.  One line = one operand set + blend,   *)
(* measured on the REAL code at every point of the window (uni: lattice shapes  *)
(* exported by UnionM.tla) or at random real points (unir: random real shapes): *)
(*   fs, ss  sign class (-1 / 0 / 1 w.r.t. +-1e-9) of Evaluate / EvaluateSlow   *)
(*   eq      1 iff the two float64 values are identical                          *)
(*   fv, sv  the two values in units of 1e-6                                     *)
(* Property: default minimum -> identical values; blend -> identical sign        *)
(* (a value within 1e-9 of the surface is ambiguous and not compared).           *)
(* Binding to the model (uni only): the real exhaustive value must lie in the    *)
(* interval UnionPrune.tla computes (else the harness and the model disagree on  *)
(* what the shapes are: machinery); the pruned value outside the model's pruned  *)
(* interval is DRIFT.                                                            *)
EXTENDS UnionPrune, Json
Trace == ndJsonDeserialize("trace.ndjson")
VARIABLE l
Init == l = 1
TolU == 2000      \* slack of the containment test, in units of 1e-6 / S

NX(e) == e.win[3] - e.win[1] + 1
WPt(e, i) == <<e.win[1] + ((i - 1) % NX(e)), e.win[2] + ((i - 1) \div NX(e))>>
Where(e, i) == IF e.ev = "uni" THEN ToString(WPt(e, i)) ELSE ToString(i)
InIv(v, iv) == S * v >= 1000000 * iv[1] - TolU /\ S * v <= 1000000 * iv[2] + TolU

Judge(e) ==
  LET n == Len(e.fs)
      badv == {i \in 1..n : e.eq[i] # 1 /\ e.un[i] # 1}
      \* the operand that holds the minimum reports less than the distance to its own bounding box (a blended union, a
      \* negative offset): pruning by box distance cannot be exact for it - the recorded limitation, kept apart
      badu == {i \in 1..n : e.eq[i] # 1 /\ e.un[i] = 1}
      \* EvaluateSlow itself must be the minimum over the operands AS THEY WERE PASSED (computed by the harness)
      badr == {i \in 1..n : e.eqr[i] # 1}
      bads == {i \in 1..n : e.fs[i] # 0 /\ e.ss[i] # 0 /\ e.fs[i] # e.ss[i]}
      say(ok, why) == IF ok THEN TRUE ELSE (PrintT(<<"BAD", l, why>>) /\ FALSE)
  IN /\ say(Len(e.ss) = n /\ Len(e.eq) = n /\ (e.ev = "uni" => n = NX(e) * (e.win[4] - e.win[2] + 1)),
            "machinery:wrong-number-of-points")
     /\ say(Len(e.eqr) = n /\ Len(e.un) = n, "machinery:wrong-number-of-points")
     /\ (e.kn = 0 => say(badr = {}, IF badr = {} THEN "" ELSE "exhaustive-not-min-of-operands:" \o Where(e, SetMin(badr)) \o "|"))
     /\ (e.kn = 0 => say(badv = {}, IF badv = {} THEN "" ELSE "default-min-value:" \o Where(e, SetMin(badv)) \o "|"))
     /\ (e.kn = 0 => say(badu = {}, IF badu = {} THEN "" ELSE "default-min-value-undercut:" \o Where(e, SetMin(badu)) \o "|"))
     /\ (e.kn # 0 => say(bads = {}, IF bads = {} THEN "" ELSE "blend-sign:" \o Where(e, SetMin(bads)) \o "|"))
     /\ (e.ev = "uni" =>
           /\ say(\A i \in 1..n : InIv(e.sv[i], UnionAll(e.ops, WPt(e, i), e.kn, e.kd)),
                  "machinery:real-exhaustive-value-outside-the-model-interval")
           /\ (IF \A i \in 1..n : InIv(e.fv[i], UnionPruned(e.ops, WPt(e, i), e.kn, e.kd))
               THEN TRUE ELSE PrintT(<<"DRIFT", l>>)))

Next == /\ l <= Len(Trace) /\ l' = l + 1 /\ (IF Judge(Trace[l]) THEN TRUE ELSE TRUE)
Spec == Init /\ [][Next]_l
Report == l = Len(Trace) + 1 => PrintT(<<"CONSUMED", l - 1>>)
=============================================================================
