----------------------------- MODULE BBoxTrace -----------------------------
(* C01, measured clause (stage 2): the harness PROBES Evaluate of a real       *)
(* shape on a stratified grid over its BoundingBox() enlarged by 50 %, on and  *)
(* just outside its faces and further out, and logs                            *)
(*   fin / ord   the box is finite / Min <= Max on every axis                  *)
(*   negout      number of strictly negative probes outside the box            *)
(*   neg         number of strictly negative probes (the probe saw material)   *)
(* This specification JUDGES them; TLC does not compute the geometry here      *)
(* (DESIGN section 10).                                                        *)
EXTENDS Integers, Sequences, TLC, Json
Trace == ndJsonDeserialize("trace.ndjson")
VARIABLE l
Init == l = 1
Judge(e) ==
  LET say(ok, why) == IF ok THEN TRUE ELSE (PrintT(<<"BAD", l, why>>) /\ FALSE)
  IN /\ say(e.err = "", "constructor-failed")
     /\ say(e.fin = 1, "bbox-not-finite")
     /\ say(e.ord = 1, "bbox-not-ordered")
     /\ say(e.probes > 0, "no-probe")
     /\ say(e.negout = 0, "negative-probe-outside-bbox")
     /\ (IF e.neg > 0 THEN TRUE ELSE PrintT(<<"DRIFT", l>>))     \* no material seen: vacuous for this shape
Next == /\ l <= Len(Trace) /\ l' = l + 1 /\ (IF Judge(Trace[l]) THEN TRUE ELSE TRUE)
Spec == Init /\ [][Next]_l
Report == l = Len(Trace) + 1 => PrintT(<<"CONSUMED", l - 1>>)
=============================================================================
