----------------------------- MODULE DetTrace -----------------------------
(* C09: determinism.  One line = one real render: key identifies (model,     *)
(* renderer, resolution, sink); digest is a digest of the output (triangle   *)
(* sequence, file bytes, decoded 3MF content).  Lines come from forced        *)
(* schedules of the evaluation pool (EvalPool.tla behaviours replayed through *)
(* the hook gate) and from free runs under different GOMAXPROCS, evaluation   *)
(* delays and render histories.  A key must never be seen with two digests.   *)
EXTENDS Integers, Sequences, FiniteSets, TLC, Json
Trace == ndJsonDeserialize("trace.ndjson")
VARIABLES l, memo
Init == l = 1 /\ memo = {}
Judge(e) ==
  LET say(ok, why) == IF ok THEN TRUE ELSE (PrintT(<<"BAD", l, why>>) /\ FALSE)
  IN /\ say(e.digest >= 0, "output-unreadable")
     /\ say(\A p \in memo : p[1] = e.key => p[2] = e.digest, "same-model-different-output")
     /\ (IF e.realised THEN TRUE ELSE PrintT(<<"DRIFT", l>>))
Next == /\ l <= Len(Trace) /\ l' = l + 1 /\ (IF Judge(Trace[l]) THEN TRUE ELSE TRUE)
        /\ memo' = IF \E p \in memo : p[1] = Trace[l].key THEN memo ELSE memo \cup {<<Trace[l].key, Trace[l].digest>>}
Spec == Init /\ [][Next]_<<l, memo>>
Report == l = Len(Trace) + 1 => PrintT(<<"CONSUMED", l - 1>>)
=============================================================================
