----------------------------- MODULE MeshTrace -----------------------------
(* Trace validation of real marching-cubes meshes (C05, C06 vertex rule).      *)
(* One line of trace.ndjson = one real mesh, projected by the harness:         *)
(*   tris  triangles as vertex ids (vertices identified within 1e-6 cell)      *)
(*   pos   doubled lattice coordinates per id, if the renderer sampled the     *)
(*         lattice exactly (aligned); then the world model applies             *)
(*   vol   measured 6*volume in doubled cell units                             *)
(* The verdict is the PROPERTY on the real mesh (closed, no degenerate         *)
(* triangle, positive volume, vertices on straddling edges, inside the box);   *)
(* equality with the model's own triangulation is reported as DRIFT only.      *)
EXTENDS MC3, Json

Trace == ndJsonDeserialize("trace.ndjson")

VARIABLE l
Init == l = 1

Judge(e) ==
  LET T == e.tris
      w == World(e.dims[1], e.dims[2], e.dims[3], e.base, e.code)
      PT == [i \in 1..Len(T) |-> <<e.pos[T[i][1]], e.pos[T[i][2]], e.pos[T[i][3]]>>]
      v == IF e.aligned THEN Vol48(PT) ELSE e.vol
      say(ok, why) == IF ok THEN TRUE ELSE (PrintT(<<"BAD", l, why>>) /\ FALSE)
  IN /\ say(Balanced(T), "open-or-misoriented-edge")
     /\ say(NoDegenerate(T), "degenerate-triangle")
     /\ say(e.outside = 0, "vertex-outside-box")
     /\ say(v >= 0 /\ (HasN(w) => v > 0), "volume-not-positive")
     /\ (e.aligned => say(VerticesOnSurface(w, PT), "vertex-not-on-straddling-edge"))
     /\ (e.aligned => say(v = e.vol, "projection-volume-mismatch"))
     \* sign-only worlds: every triangle's normal points from the negative to the positive lattice ends
     /\ ((e.aligned /\ e.base = 2) => say(LocalOriented(w, PT), "normal-against-gradient"))
     /\ (e.aligned => (IF SameBag(PT, WorldTris(w)) THEN TRUE ELSE PrintT(<<"DRIFT", l>>)))

Next == /\ l <= Len(Trace)
        /\ l' = l + 1
        /\ (IF Judge(Trace[l]) THEN TRUE ELSE TRUE)
Spec == Init /\ [][Next]_l
Report == l = Len(Trace) + 1 => PrintT(<<"CONSUMED", l - 1>>)
=============================================================================
