--------------------------- MODULE StlLargeTrace ---------------------------
(* C13, very long lists (beyond 2^20 triangles): saved by SaveSTL, parsed by   *)
(* the harness's own reader, loaded back by LoadSTL; the harness compares      *)
(* element by element (coordinates are small integers, exact in float32) and   *)
(* reports the first differing index; this spec judges.                        *)
EXTENDS Integers, Sequences, TLC, Json
Trace == ndJsonDeserialize("trace.ndjson")
VARIABLE l
Init == l = 1
Judge(e) ==
  LET say(ok, why) == IF ok THEN TRUE ELSE (PrintT(<<"BAD", l, why>>) /\ FALSE)
  IN /\ say(e.saveerr = 0, "writer-failed")
     /\ say(e.size = 84 + 50 * e.n, "size-is-not-84-plus-50-per-triangle")
     /\ say(e.count = e.n, "header-count-differs-from-triangles")
     /\ say(e.recs = e.n /\ e.recbad = 0, "records-are-not-the-input-in-order")
     /\ say(e.loaderr = 0, "loadstl-fails-on-the-written-file")
     /\ say(e.loaded = e.n, "loadstl-returns-a-different-count")
     /\ say(e.loadbad = 0, "loadstl-returns-different-values-or-order")
Next == /\ l <= Len(Trace) /\ l' = l + 1 /\ (IF Judge(Trace[l]) THEN TRUE ELSE TRUE)
Spec == Init /\ [][Next]_l
Report == l = Len(Trace) + 1 => PrintT(<<"CONSUMED", l - 1>>)
=============================================================================
