----------------------------- MODULE QuadTrace -----------------------------
(* Trace validation for C07 in 2D (quadtree marching squares); see OctTrace. *)
EXTENDS Quadtree, Json
Trace == ndJsonDeserialize("trace.ndjson")
VARIABLE l
Init == l = 1
SceneOf(e) == [parts |-> e.scene.parts, k |-> e.scene.k]
E(i) == IF i = 1 THEN <<1, 0>> ELSE <<0, 1>>
\* projected vertex <<ax, ay, 0, axis, t*1e6>>
Sym(v) == IF v[4] = 0 \/ v[5] = 0 THEN <<2 * v[1], 2 * v[2]>>
          ELSE IF v[5] = 1000000 THEN Dbl(Add2(<<v[1], v[2]>>, E(v[4])))
          ELSE Add2(<<2 * v[1], 2 * v[2]>>, E(v[4]))
SymSegs(T) == [i \in 1..Len(T) |-> <<Sym(T[i][1]), Sym(T[i][2])>>]
Val(sc, a) == Num(sc, <<2 * a[1], 2 * a[2]>>)
ZeroCrossing(sc, v) ==
  IF v[4] = 0 THEN Val(sc, <<v[1], v[2]>>) = 0
  ELSE LET a == <<v[1], v[2]>>
           b == Add2(a, E(v[4]))
           va == Val(sc, a)
           vb == Val(sc, b)
           d == va - vb
           err == v[5] * d - 1000000 * va
       IN /\ (va < 0) # (vb < 0)
          /\ (IF err < 0 THEN -err ELSE err) <= (IF d < 0 THEN -d ELSE d)
AllZeroCrossings(sc, T) == \A i \in 1..Len(T) : \A j \in 1..2 : ZeroCrossing(sc, T[i][j])
Judge(e) ==
  LET sc == SceneOf(e)
      m == e.scene.m
      R == SymSegs(e.segs)
      F == SymSegs(e.flat)
      say(ok, why) == IF ok THEN TRUE ELSE (PrintT(<<"BAD", l, why>>) /\ FALSE)
  IN /\ say(e.off = 0, "vertex-not-on-a-lattice-edge")
     /\ say(SameBag(R, F), "hierarchical-output-differs-from-exhaustive-output")
     /\ say(AllZeroCrossings(sc, e.segs), "vertex-is-not-the-linear-zero-crossing")
     /\ say(SameBag(F, FlatLines(sc, m)), "exhaustive-output-differs-from-flat-scan-model")
     /\ (IF (e.decisions = Decisions(sc, <<0, 0>>, TopLevel(m))) THEN TRUE ELSE PrintT(<<"DRIFT", l>>))
Next == /\ l <= Len(Trace) /\ l' = l + 1 /\ (IF Judge(Trace[l]) THEN TRUE ELSE TRUE)
Spec == Init /\ [][Next]_l
Report == l = Len(Trace) + 1 => PrintT(<<"CONSUMED", l - 1>>)
=============================================================================
