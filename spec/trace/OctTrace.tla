----------------------------- MODULE OctTrace -----------------------------
(* Trace validation for C07 (and the C06 vertex rule): one line = one scene    *)
(* rendered by the REAL octree renderer, twice: the field f, and f/1024 (for   *)
(* which no cube can be skipped).  Vertices arrive as lattice edges            *)
(* <<ax, ay, az, axis, t*1e6>> in cell units (axis 0 = exactly at corner a).   *)
EXTENDS Octree, Json
Trace == ndJsonDeserialize("trace.ndjson")
VARIABLE l
Init == l = 1

SceneOf(e) == [parts |-> e.scene.parts, k |-> e.scene.k]

E(i) == IF i = 1 THEN <<1, 0, 0>> ELSE IF i = 2 THEN <<0, 1, 0>> ELSE <<0, 0, 1>>
\* symbolic (doubled) vertex of a projected real vertex
Sym(v) == IF v[4] = 0 THEN <<2 * v[1], 2 * v[2], 2 * v[3]>>
          ELSE IF v[5] = 0 THEN <<2 * v[1], 2 * v[2], 2 * v[3]>>
          ELSE IF v[5] = 1000000 THEN Dbl(Add3(<<v[1], v[2], v[3]>>, E(v[4])))
          ELSE Add3(<<2 * v[1], 2 * v[2], 2 * v[3]>>, E(v[4]))
SymTris(T) == [i \in 1..Len(T) |-> <<Sym(T[i][1]), Sym(T[i][2]), Sym(T[i][3])>>]

\* C06 vertex rule: the vertex is the linear zero crossing of the straddling lattice edge
Val(sc, a) == Num(sc, <<2 * a[1], 2 * a[2], 2 * a[3]>>)     \* cell corner a -> half-lattice point 2a
ZeroCrossing(sc, v) ==
  IF v[4] = 0 THEN Val(sc, <<v[1], v[2], v[3]>>) = 0
  ELSE LET a == <<v[1], v[2], v[3]>>
           b == Add3(a, E(v[4]))
           va == Val(sc, a)
           vb == Val(sc, b)
           d == va - vb
           err == v[5] * d - 1000000 * va
       IN /\ (va < 0) # (vb < 0)
          /\ (IF err < 0 THEN -err ELSE err) <= (IF d < 0 THEN -d ELSE d)
AllZeroCrossings(sc, T) == \A i \in 1..Len(T) : \A j \in 1..3 : ZeroCrossing(sc, T[i][j])

Judge(e) ==
  LET sc == SceneOf(e)
      m == e.scene.m
      R == SymTris(e.tris)
      F == SymTris(e.flat)
      say(ok, why) == IF ok THEN TRUE ELSE (PrintT(<<"BAD", l, why>>) /\ FALSE)
  IN /\ say(e.off = 0, "vertex-not-on-a-lattice-edge")
     /\ say(SameBag(R, F), "hierarchical-output-differs-from-exhaustive-output")
     /\ say(AllZeroCrossings(sc, e.tris), "vertex-is-not-the-linear-zero-crossing")
     /\ say(SameBag(F, FlatTris(sc, m)), "exhaustive-output-differs-from-flat-scan-model")
     /\ (IF (e.decisions = Decisions(sc, <<0, 0, 0>>, TopLevel(m))) THEN TRUE ELSE PrintT(<<"DRIFT", l>>))

Next == /\ l <= Len(Trace) /\ l' = l + 1 /\ (IF Judge(Trace[l]) THEN TRUE ELSE TRUE)
Spec == Init /\ [][Next]_l
Report == l = Len(Trace) + 1 => PrintT(<<"CONSUMED", l - 1>>)
=============================================================================
