----------------------------- MODULE ConcTrace -----------------------------
(* C10: one line = one shape type of the library, observed by the harness:    *)
(*   mutating  a deep digest of the shape's reachable state changed across     *)
(*             sequential Evaluate calls (else the shape is immutable under    *)
(*             Evaluate, ConcEval.tla kind "immutable")                        *)
(*   race      the Go race detector reported a data race, or the runtime       *)
(*             faulted ("concurrent map writes"), while Evaluate was called    *)
(*             from one goroutine per CPU and while the uniform renderer       *)
(*             rendered the shape                                              *)
(*   mismatch  concurrent results that differ from the sequential values       *)
EXTENDS Integers, Sequences, TLC, Json
Trace == ndJsonDeserialize("trace.ndjson")
VARIABLE l
Init == l = 1
Judge(e) ==
  LET say(ok, why) == IF ok THEN TRUE ELSE (PrintT(<<"BAD", l, why>>) /\ FALSE)
  IN /\ say(~e.race, "data-race-or-fault-in-concurrent-evaluate")
     /\ say(e.mismatch = 0, "concurrent-value-differs-from-sequential")
     /\ (IF e.built THEN TRUE ELSE PrintT(<<"DRIFT", l>>))
Next == /\ l <= Len(Trace) /\ l' = l + 1 /\ (IF Judge(Trace[l]) THEN TRUE ELSE TRUE)
Spec == Init /\ [][Next]_l
Report == l = Len(Trace) + 1 => PrintT(<<"CONSUMED", l - 1>>)
=============================================================================
