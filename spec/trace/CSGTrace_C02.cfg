SPECIFICATION Spec
CONSTANT Clause = "C02"
INVARIANT Report
CHECK_DEADLOCK FALSE
