------------------------------ MODULE LawTrace ------------------------------
(* C02 stage 2 and the replays of Blend.tla / Cache.tla.                        *)
(*   ev = "law":    a node law measured on seeded real-valued compositions:     *)
(*                  maxerr = max |node - law(operands)| / max(1,|law|) in 1e-12 *)
(*   ev = "marker": a handedness fact (ok = 1)                                  *)
(*   ev = "poly":   real PolyMin/PolyMax at a = A/4, b = B/4, k = K/4 in units  *)
(*                  of 1/(3 * 2^20); compared with the exact PolyNum / (16 K)   *)
(*                  and judged against the laws of the property                 *)
(*   ev = "cache":  one query history on the real Cache2D over a counting spy   *)
(* The harness measures, this specification judges (DESIGN section 10).         *)
EXTENDS Blend, Sequences, FiniteSets
Trace == ndJsonDeserialize("trace.ndjson")
VARIABLE l
TInit == l = 1
TolE12 == 1000
S == 3 * 1048576
Judge(e) ==
  LET say(ok, why) == IF ok THEN TRUE ELSE (PrintT(<<"BAD", l, why>>) /\ FALSE)
  IN
  CASE e.ev = "law" -> /\ say(e.n > 0, "law-never-sampled")
                       /\ say(e.maxerr <= TolE12, "node-law-violated")
    [] e.ev = "marker" -> say(e.ok = 1, "handedness-marker-misplaced")
    [] e.ev = "poly" ->
         LET m == 4 * e.k * Min(e.a, e.b) * (S \div 16)        \* min(a,b) in units 1/S, times K
             q == e.k * e.k * (S \div 16)                      \* k/4 in units 1/S, times K
         IN /\ say(Abs(e.min * e.k - PolyNum(e.a, e.b, e.k) * (S \div 16)) <= e.k, "polymin-differs-from-rational-form")
            /\ say(Abs(e.max * e.k - PolyMaxNum(e.a, e.b, e.k) * (S \div 16)) <= e.k, "polymax-is-not-mirror-of-polymin")
            /\ say(e.min * e.k <= m + e.k, "polymin-above-min")
            /\ say(Abs(e.min - e.minba) <= 1, "polymin-not-symmetric")
            /\ say(m - q - e.k <= e.min * e.k, "polymin-below-min-minus-k/4")
            /\ say(Abs(e.a - e.b) >= e.k => Abs(e.min * e.k - m) <= e.k, "polymin-not-min-beyond-k")
    [] e.ev = "cache" ->
         /\ say(e.bbsame = 1, "cache-bbox-differs")
         /\ say(\A i \in 1..Len(e.h) : e.ret[i] = e.want[e.h[i]], "cache-returned-foreign-value")
         /\ (IF \A i \in 1..Len(e.h) : e.calls[i] = Cardinality({(IF e.h[j] = 2 THEN 1 ELSE e.h[j]) : j \in 1..i})
             THEN TRUE ELSE PrintT(<<"DRIFT", l>>))
    [] OTHER -> say(FALSE, "unknown-event")
TNext == /\ l <= Len(Trace) /\ l' = l + 1 /\ (IF Judge(Trace[l]) THEN TRUE ELSE TRUE)
TSpec == TInit /\ [][TNext]_l
Report == l = Len(Trace) + 1 => PrintT(<<"CONSUMED", l - 1>>)
=============================================================================
