----------------------------- MODULE UniTrace -----------------------------
(* Trace validation for C06 on the uniform renderer: one line = one exact      *)
(* scene rendered by the REAL MarchingCubesUniform; vertices arrive as lattice *)
(* edges <<ax, ay, az, axis, t*1e6>> (axis 0 = exactly at corner a).           *)
EXTENDS Uniform, Json
Trace == ndJsonDeserialize("trace.ndjson")
VARIABLE l
Init == l = 1
SceneOf(e) == [parts |-> e.scene.parts, k |-> e.scene.k]
Sym(v) == IF v[4] = 0 \/ v[5] = 0 THEN <<2 * v[1], 2 * v[2], 2 * v[3]>>
          ELSE IF v[5] = 1000000 THEN Dbl(Add3(<<v[1], v[2], v[3]>>, E3(v[4])))
          ELSE Add3(<<2 * v[1], 2 * v[2], 2 * v[3]>>, E3(v[4]))
SymTris(T) == [i \in 1..Len(T) |-> <<Sym(T[i][1]), Sym(T[i][2]), Sym(T[i][3])>>]
ZeroCrossing(sc, v) ==
  IF v[4] = 0 THEN Num(sc, <<v[1], v[2], v[3]>>) = 0
  ELSE LET a == <<v[1], v[2], v[3]>>
           b == Add3(a, E3(v[4]))
           va == Num(sc, a)
           vb == Num(sc, b)
           d == va - vb
           err == v[5] * d - 1000000 * va
       IN /\ (va < 0) # (vb < 0)
          /\ (IF err < 0 THEN -err ELSE err) <= (IF d < 0 THEN -d ELSE d)
AllZeroCrossings(sc, T) == \A i \in 1..Len(T) : \A j \in 1..3 : ZeroCrossing(sc, T[i][j])
InBox(d, T) == \A i \in 1..Len(T) : \A j \in 1..3 : \A a \in 1..3 :
                 T[i][j][a] >= 0 /\ T[i][j][a] + (IF T[i][j][4] = a THEN 1 ELSE 0) <= d[a] + 1
\* completeness: every strictly straddling lattice edge carries a mesh vertex
EdgeOfVertex(v) == <<<<v[1], v[2], v[3]>>, v[4]>>
Complete(sc, d, T) ==
  LET used == {EdgeOfVertex(T[i][j]) : i \in 1..Len(T), j \in 1..3}
  IN StrictEdges(sc, d) \subseteq used
Judge(e) ==
  LET sc == SceneOf(e)
      d == e.dims
      say(ok, why) == IF ok THEN TRUE ELSE (PrintT(<<"BAD", l, why>>) /\ FALSE)
  IN /\ say(e.off = 0, "vertex-not-on-a-lattice-edge")
     /\ say(AllZeroCrossings(sc, e.tris), "vertex-is-not-the-linear-zero-crossing")
     /\ say(InBox(d, e.tris), "vertex-outside-the-sampled-box")
     /\ say(Complete(sc, d, e.tris), "straddling-lattice-edge-without-a-vertex")
     /\ say(e.badnorm = 0, "normal-disagrees-with-gradient")
     /\ (IF SameBag(SymTris(e.tris), UniTris(sc, d)) THEN TRUE ELSE PrintT(<<"DRIFT", l>>))
Next == /\ l <= Len(Trace) /\ l' = l + 1 /\ (IF Judge(Trace[l]) THEN TRUE ELSE TRUE)
Spec == Init /\ [][Next]_l
Report == l = Len(Trace) + 1 => PrintT(<<"CONSUMED", l - 1>>)
=============================================================================
