----------------------------- MODULE DelTrace -----------------------------
(* Trace validation for C20.  One line = one observation of the REAL code:     *)
(*  "dt"   a grid point set (chosen by DelaunayM) through render.Delaunay2d    *)
(*         and render.Delaunay2dSlow; triples use the numbering of pts;        *)
(*         copies/res: the real TriangleISet.Equals(fast, copy)                *)
(*  "eqs"  a triangle set (chosen by TriSetM) against permuted / rotated /     *)
(*         altered copies through the real TriangleISet.Equals                 *)
(*  "less" the relation of the real TriangleIByIndex.Less on all canonical     *)
(*         triples over k indices                                              *)
(*  "rnd"  a seeded random REAL point set: exact (math/big) counts measured by *)
(*         the harness; this module judges them with its own constants         *)
(* In every Judge the clauses of defect classes that are recorded as known     *)
(* findings come LAST, so that they can never mask another rejection.          *)
EXTENDS Delaunay, TriSet, Json, TLC
Trace == ndJsonDeserialize("trace.ndjson")
VARIABLE l
Init == l = 1
say(ok, why) == IF ok THEN TRUE ELSE (PrintT(<<"BAD", l, why>>) /\ FALSE)

\* ---------------------------------------------------------------- equality test on copies
\* res[i] is the real Equals(a, copies[i]); it must be TRUE exactly for the same multiset of
\* canonical triples
DiffOK(a, cs, res) == \A i \in 1..Len(cs) : res[i] => SameTriangles(a, cs[i])
RotOK(a, cs, res) == \A i \in 1..Len(cs) : RotationOnly(a, cs[i]) => res[i]
PermOK(a, cs, res) == \A i \in 1..Len(cs) : SameTriangles(a, cs[i]) => res[i]
\* what the comparator as written (with Go's insertion sort) predicts, for drift only
Predicted(a, cs, res) ==
  Len(a) > MaxInsertion \/ \A i \in 1..Len(cs) : res[i] = EqualsModel("code", a, cs[i])
JudgeCopies(a, cs, res) ==
  /\ say(Len(cs) = Len(res), "machinery:copies-and-results-differ-in-length")
  /\ say(DiffOK(a, cs, res), "equals-different:true-for-a-different-set")
  /\ say(RotOK(a, cs, res), "equals-rotation:false-for-a-rotated-copy")
  /\ (IF HasConflict(a)
      THEN say(PermOK(a, cs, res), "equals-permutation:permuted-copy;conflicting-pair")
      ELSE say(PermOK(a, cs, res), "equals-other:permuted-copy-without-conflicting-pair"))

\* ---------------------------------------------------------------- "dt"
SetOf(s) == {Canonical(s[i]) : i \in 1..Len(s)}
ValidTriples(P, s) == \A i \in 1..Len(s) : IsTriple(P, s[i])
\* no input point strictly inside a circumcircle; no flat triangle (any winding)
AllEmpty(P, T) == \A t \in T : OrientI(P, t) # 0 /\ \A m \in Ids(P) \ {t[1], t[2], t[3]} : InCircI(P, t, m) <= 0
IsDT(P, T) == T = DT(P) \/ T = DTcw(P)
JudgeDt(e) ==
  LET P == e.pts
      F == SetOf(e.fast)
      S == SetOf(e.slow)
  IN /\ say(Len(P) >= 3 /\ GeneralPosition(P), "machinery:input-not-in-general-position")
     /\ say(e.ferr = "", "dt:fast-error-or-panic")
     /\ say(ValidTriples(P, e.fast), "dt:fast-triple-not-three-distinct-input-points")
     /\ say(Cardinality(F) = Len(e.fast), "dt:fast-repeats-a-triangle")
     /\ say(AllEmpty(P, F), "dt:fast-circumcircle-contains-an-input-point")
     /\ say(Len(e.fast) = ExpectedCount(P), "dt:fast-count-is-not-2n-2-h")
     /\ say(IsDT(P, F), "dt:fast-is-not-the-delaunay-triangulation")
     /\ say(e.serr = "" /\ ValidTriples(P, e.slow) /\ Cardinality(S) = Len(e.slow) /\ IsDT(P, S),
            "dt:slow-is-not-the-delaunay-triangulation")
     /\ say(F = S, "dt:fast-differs-from-slow-as-a-set")
     /\ JudgeCopies(e.fast, e.copies, e.res)
     /\ (IF HasConflict(e.fast)
         THEN say(e.fseq, "equals-permutation:fast-vs-slow;conflicting-pair")
         ELSE say(e.fseq, "equals-other:fast-vs-slow-without-conflicting-pair"))
DriftDt(e) == \/ SetOf(e.fast) # DTcw(e.pts)                    \* code convention: clockwise
              \/ ~Predicted(e.fast, e.copies, e.res)

\* ---------------------------------------------------------------- "eqs"
JudgeEqs(e) == JudgeCopies(e.a, e.copies, e.res)
DriftEqs(e) == ~Predicted(e.a, e.copies, e.res)

\* ---------------------------------------------------------------- "less"
JudgeLess(e) ==
  LET n == Len(e.tris)
      U == {e.tris[i] : i \in 1..n}
      Real == {<<e.tris[q[1]], e.tris[q[2]]>> : q \in {q \in (1..n) \X (1..n) : e.rel[q[1]][q[2]] = 1}}
      Lex == RelOf("lex", U)
      Extra == Real \ Lex
      Missing == Lex \ Real
  IN /\ say(U = Universe(e.k), "machinery:universe-is-not-canonical-triples-over-k")
     /\ (IF StrictTotalOrder(U, Real) THEN TRUE
         ELSE IF Missing = {} /\ \A p \in Extra : ThirdClauseOnly(p[1], p[2])
         THEN say(FALSE, "less:both-ways-where-[1]-equal-and-[0],[2]-opposed")
         ELSE say(FALSE, "less-other:not-a-strict-total-order"))
DriftLess(e) ==
  LET n == Len(e.tris)
  IN \E i, j \in 1..n : (e.rel[i][j] = 1) # CodeLess(e.tris[i], e.tris[j])

\* ---------------------------------------------------------------- "rnd"
TolRel == 1000          \* 1e-9 in units of 1e-12: relative in-circle margin below which a pair is ambiguous
SmallSep == 10000       \* closest pair: squared distance / 1e-12 (the absolute epsilon of InCircumcircle)
                        \* below 1e4, i.e. two input points closer than 1e-4
SliverR == 1000         \* circumradius / extent of the point set
Ambiguous(e) == \/ e.duppt > 0 \/ e.hcol > 0
                \/ e.f.oncirc > 0 \/ e.s.oncirc > 0
                \/ e.f.minmargin < TolRel \/ e.s.minmargin < TolRel
Sound(f) == f.badidx = 0 /\ f.degen = 0 /\ f.dup = 0 /\ (f.cw = 0 \/ f.ccw = 0) /\ f.maxdepth <= TolRel
Complete(e, f) == f.nt = 2 * e.n - 2 - e.h /\ f.dupedge = 0 /\ f.bnd = e.h /\ f.bndnothull = 0 /\ f.unused = 0
\* fast is a sound subset of the reference, and every omitted triangle has a circumcircle
\* far larger than the point set (beyond the reach of the finite super triangle)
OmitsOnlySlivers(e) == Sound(e.f) /\ e.f.dupedge = 0 /\ e.dfs = 0 /\ e.dsf > 0 /\ e.missminr >= SliverR
                       /\ Sound(e.s) /\ Complete(e, e.s)
JudgeRnd(e) ==
  IF Ambiguous(e) THEN TRUE
  ELSE IF e.ferr = "" /\ OmitsOnlySlivers(e)
  THEN say(FALSE, "hull-sliver:omitted-circumradius>1000-extents")
  ELSE IF e.minsep < SmallSep /\ ~(e.ferr = "" /\ Sound(e.f) /\ Complete(e, e.f))
  THEN say(FALSE, "small-scale:fast-not-delaunay;closest-pair<1e-4")
  ELSE
     /\ say(e.ferr = "", "rnd:fast-error-or-panic")
     /\ say(e.f.badidx = 0, "rnd:fast-triple-not-three-distinct-input-points")
     /\ say(e.f.degen = 0, "rnd:fast-has-a-flat-triangle")
     /\ say(e.f.cw = 0 \/ e.f.ccw = 0, "rnd:fast-mixes-windings")
     /\ say(e.f.dup = 0, "rnd:fast-repeats-a-triangle")
     /\ say(e.f.maxdepth <= TolRel, "rnd:fast-circumcircle-contains-an-input-point")
     /\ say(e.f.nt = 2 * e.n - 2 - e.h, "rnd:fast-count-is-not-2n-2-h")
     /\ say(Complete(e, e.f), "rnd:fast-does-not-triangulate-the-hull")
     /\ say(e.serr = "" /\ Sound(e.s) /\ Complete(e, e.s), "rnd:slow-is-not-the-delaunay-triangulation")
     /\ say(e.dfs = 0 /\ e.dsf = 0, "rnd:fast-differs-from-slow-as-a-set")
     /\ say(e.difftrue = 0, "equals-different:true-for-a-different-set")
     /\ say(e.rotfalse = 0, "equals-rotation:false-for-a-rotated-copy")
     /\ (IF e.conflicts > 0
         THEN say(e.permfalse = 0 /\ e.fseq, "equals-permutation:permuted-copy;conflicting-pair")
         ELSE say(e.permfalse = 0 /\ e.fseq, "equals-other:permuted-copy-without-conflicting-pair"))

Judge(e) == IF e.ev = "dt" THEN JudgeDt(e)
            ELSE IF e.ev = "eqs" THEN JudgeEqs(e)
            ELSE IF e.ev = "less" THEN JudgeLess(e)
            ELSE IF e.ev = "rnd" THEN JudgeRnd(e)
            ELSE say(FALSE, "machinery:unknown-event")
Drift(e) == IF e.ev = "dt" THEN DriftDt(e)
            ELSE IF e.ev = "eqs" THEN DriftEqs(e)
            ELSE IF e.ev = "less" THEN DriftLess(e)
            ELSE FALSE
Next == /\ l <= Len(Trace) /\ l' = l + 1
        /\ (IF Judge(Trace[l]) THEN TRUE ELSE TRUE)
        /\ (IF Drift(Trace[l]) THEN PrintT(<<"DRIFT", l>>) ELSE TRUE)
Spec == Init /\ [][Next]_l
Report == l = Len(Trace) + 1 => PrintT(<<"CONSUMED", l - 1>>)
=============================================================================
