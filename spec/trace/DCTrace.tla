------------------------------ MODULE DCTrace ------------------------------
(* Trace validation of real dual-contouring meshes (C19).  One line of         *)
(* trace.ndjson = one world rendered by a REAL renderer (r = "dc2": uniform    *)
(* grid, vertex clamping on; "dc1": octree, vertex locking on, simplification  *)
(* off), projected by the harness:                                             *)
(*   tris     triangles as vertex ids (vertices identified within 1e-6 cell)   *)
(*   vbox     per vertex id the box of closed unit cells that contain it       *)
(*   vol      48 * measured volume (cell units), rounded                       *)
(*   outside  vertex coordinates outside the sampled box, nan non-finite ones  *)
(*   same     a second run gave bit-identical triangles in the same order      *)
(* The verdict is THE PROPERTY on the real triangles: every directed edge is   *)
(* matched by its reverse, no degenerate triangle, positive enclosed volume    *)
(* when the world has a solid corner, vertices finite and inside the sampled   *)
(* box, repeated run identical.  Agreement with the code-shaped model (which   *)
(* cell owns which vertex, which quads exist) is reported as DRIFT only.       *)
EXTENDS DualContour, Json

Trace == ndJsonDeserialize("trace.ndjson")

VARIABLE l
Init == l = 1

\* An open mesh is classified further (the verdict is the same - rejected): the uniform-grid renderer
\* clamped vertices and the real triangles are a strict part of the model's triangles (every real
\* triangle is a model triangle, some quads are absent): a quad was dropped by the "both triangles
\* when either is degenerate" rule of dc3v2.go.
DroppedQuad(e, T, M) ==
  /\ e.r = "dc2" /\ e.aligned /\ e.warn.clamp /\ Len(T) < Len(M)
  /\ \A i \in 1..Len(T) : \E k \in 1..Len(M) : MatchTri(T[i], M[k], e.vbox)

Judge(e) ==
  LET T == e.tris
      w == World(e.dims[1], e.dims[2], e.dims[3], e.base, e.code)
      say(ok, why) == IF ok THEN TRUE ELSE (PrintT(<<"BAD", l, why>>) /\ FALSE)
  IN /\ say(e.outcome = "ok", "renderer-panicked")
     /\ say(e.nan = 0, "non-finite-vertex")
     /\ (IF Balanced(T) THEN TRUE
         ELSE IF DroppedQuad(e, T, WorldTris(w, e.r))
              THEN say(FALSE, "open-edge-quad-dropped-as-degenerate")
              ELSE say(FALSE, "open-or-misoriented-edge"))
     /\ say(e.outside = 0, "vertex-outside-box")
     /\ say(e.vol >= 0 /\ (HasN(w) => e.vol > 0), "volume-not-positive")
     /\ say(e.same, "repeated-run-differs")
     \* after the clauses above, so that it never hides one of them
     \* C19 asks for directed-edge balance, not for the absence of zero-area triangles (unlike C05):
     \* a triangle with two identified vertices is reported as drift only
     /\ (IF NoDegenerate(T) THEN TRUE ELSE PrintT(<<"DRIFT", l>>))
     /\ (e.aligned => (IF SameAsModel(T, e.vbox, WorldTris(w, e.r)) THEN TRUE ELSE PrintT(<<"DRIFT", l>>)))

Next == /\ l <= Len(Trace)
        /\ l' = l + 1
        /\ (IF Judge(Trace[l]) THEN TRUE ELSE TRUE)
Spec == Init /\ [][Next]_l
Report == l = Len(Trace) + 1 => PrintT(<<"CONSUMED", l - 1>>)
=============================================================================
