SPECIFICATION Spec
CONSTANT Clause = "C03"
INVARIANT Report
CHECK_DEADLOCK FALSE
