--------------------------- MODULE PipeRunTrace ---------------------------
(* C11 / C12, run level: one line = one schedule of Pipeline.tla replayed into  *)
(* the REAL pipeline (scripted producers, gated writer, real sink), with the    *)
(* item numbers read back from the sink by an independent reader.               *)
EXTENDS Integers, Sequences, TLC, Json
Trace == ndJsonDeserialize("trace.ndjson")
VARIABLE l
Init == l = 1
Judge(e) ==
  LET say(ok, why) == IF ok THEN TRUE ELSE (PrintT(<<"BAD", l, why>>) /\ FALSE)
      d == e.delivered
  IN /\ say(e.returned, "render-call-did-not-return")
     \* delivered arrives as maximal runs <<first, length>> of consecutive item numbers (lossless)
     /\ say(IF e.written = 0 THEN d = <<>> ELSE d = << <<1, e.written>> >>,
            "delivered-sequence-differs-from-written-sequence")
     /\ say(e.count = e.written, "count-field-differs-from-items-written")
     /\ (IF e.realised THEN TRUE ELSE PrintT(<<"DRIFT", l>>))
Next == /\ l <= Len(Trace) /\ l' = l + 1 /\ (IF Judge(Trace[l]) THEN TRUE ELSE TRUE)
Spec == Init /\ [][Next]_l
Report == l = Len(Trace) + 1 => PrintT(<<"CONSUMED", l - 1>>)
=============================================================================
