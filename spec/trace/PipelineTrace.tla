--------------------------- MODULE PipelineTrace ---------------------------
(* Event-level trace validation of the real output pipeline against            *)
(* Pipeline.tla.  One line of trace.ndjson = one real render; events are the    *)
(* verif hooks at the linearisation points, in the order of a global log:      *)
(*   1 write(n, lenBefore)   under the buffer lock, before the append          *)
(*   2 send(len, isClose)    under the lock, before the channel send           *)
(*   3 unlock(lenAfter, c)   under the lock, before unlocking                  *)
(*   4 close(len)            buffer.Close, under the lock                      *)
(*   5 recv(n, total)        writer goroutine, after receiving a batch         *)
(*   6 done(n, total)        writer goroutine, batch consumed (collector only) *)
(*   7 exit(total)           writer goroutine, channel closed and drained      *)
(*   8 err(stored)           writer goroutine, the sink reported an error      *)
(*                           (fault-injection runs, Kind = "drain": the        *)
(*                           repaired writeSTL keeps receiving, without hooks, *)
(*                           so receives after a failure are silent steps)     *)
(* Unlogged steps (create, producer finished, item-by-item consumption, close  *)
(* of the channel, return) are silent steps TLC infers.  The producer's unlock *)
(* and the writer's recv of the same batch race for the log, so an unlock seen *)
(* before its recv performs the receive itself (RecvAndSendDone).          *)
EXTENDS Pipeline
Trace == ndJsonDeserialize("trace.ndjson")
VARIABLES l, k, early
tvars == <<vars, l, k, early>>
Events == Trace[l].events
Ev == Events[k]
Has == l <= Len(Trace) /\ k <= Len(Events)
Step == /\ k' = k + 1 /\ l' = l /\ TLCSet(1, IF TLCGet(1) < l * 100000 + k THEN l * 100000 + k ELSE TLCGet(1))

TraceInit == Init /\ l = 1 /\ k = 1 /\ early = FALSE /\ TLCSet(1, 0)

EvWrite == /\ Has /\ Ev[1] = 1 /\ bufLen = Ev[3]
           /\ \E p \in Producers : Write(p, Ev[2])
           /\ Step /\ UNCHANGED early
EvSend == /\ Has /\ Ev[1] = 2 /\ offer # <<>> /\ offer[2] = Ev[2] /\ lock # 0
          /\ UNCHANGED vars /\ Step /\ UNCHANGED early
SendDoneAny == (\E p \in Producers : SendDone(p)) \/ CloseSendDone
EvUnlock == /\ Has /\ Ev[1] = 3
            /\ \/ /\ lock = 0 /\ bufLen = Ev[2] /\ UNCHANGED vars /\ UNCHANGED early
               \/ /\ lock # 0 /\ offer = <<>> /\ SendDoneAny /\ bufLen' = Ev[2] /\ UNCHANGED early
               \/ /\ lock # 0 /\ offer # <<>> /\ cur = <<>> /\ ~early
                  /\ RecvAndSendDone /\ bufLen' = Ev[2]
                  /\ early' = ~failed     \* a failed (draining) writer logs no further receives
            /\ Step
EvClose == /\ Has /\ Ev[1] = 4 /\ bufLen = Ev[2] /\ CloseBuffer /\ Step /\ UNCHANGED early
EvRecv == /\ Has /\ Ev[1] = 5
          /\ \/ /\ early /\ cur # <<>> /\ cur[2] = Ev[2] /\ cur[4] = 0 /\ UNCHANGED vars /\ early' = FALSE
             \/ /\ ~early /\ Recv /\ cur'[2] = Ev[2] /\ UNCHANGED early
          /\ (Trace[l].sink = "mem" => delivered = Ev[3])
          /\ Step
EvDone == /\ Has /\ Ev[1] = 6 /\ ~early /\ BatchDone /\ delivered = Ev[3] /\ Step /\ UNCHANGED early
EvErr == /\ Has /\ Ev[1] = 8 /\ ~early /\ ~failed /\ delivered = Ev[2]
         /\ Consume /\ failed' /\ Step /\ UNCHANGED early
EvExit == /\ Has /\ Ev[1] = 7 /\ ~early /\ EndOfStream /\ delivered = Ev[3] /\ Step /\ UNCHANGED early
Silent == /\ l <= Len(Trace)
          /\ \/ CreateOK \/ (\E p \in Producers : Finish(p)) \/ Consume \/ CloseChannel \/ Finalise \/ Return
             \/ (Trace[l].sink # "mem" /\ BatchDone)
             \/ (failed /\ (Recv \/ BatchDone \/ EndOfStream))
          /\ UNCHANGED <<l, k, early>>
\* all events of the line consumed and the caller has returned: next line
Reset == /\ l <= Len(Trace) /\ k = Len(Events) + 1 /\ pc = "returned" /\ ~early
         /\ l' = l + 1 /\ k' = 1 /\ early' = FALSE
         /\ TLCSet(1, IF TLCGet(1) < (l + 1) * 100000 THEN (l + 1) * 100000 ELSE TLCGet(1))
         /\ pc' = "create" /\ ppc' = [p \in Producers |-> "ready"] /\ nw' = [p \in Producers |-> 0]
         /\ lock' = 0 /\ bufLo' = 0 /\ bufLen' = 0 /\ bufId' = 1 /\ nextId' = 2
         /\ offer' = <<>> /\ cur' = <<>> /\ delivered' = 0 /\ written' = 0
         /\ wpc' = "none" /\ failed' = FALSE /\ chClosed' = FALSE /\ hist' = <<>>
TraceNext == EvWrite \/ EvSend \/ EvUnlock \/ EvClose \/ EvRecv \/ EvDone \/ EvErr \/ EvExit \/ Silent \/ Reset
TraceSpec == TraceInit /\ [][TraceNext]_tvars
tview == <<pc, ppc, lock, bufLo, bufLen, bufId, offer, cur, delivered, written, wpc, failed, chClosed, l, k, early>>
HighWater == PrintT(<<"HW", TLCGet(1)>>)
=============================================================================
