------------------------------ MODULE StlTrace ------------------------------
(* C13 trace validation: one line = one file REALLY written by render.SaveSTL      *)
(* ("save"), render.ToSTL through a scripted renderer ("tostl"), the streaming     *)
(* writer writeSTL itself ("stream"), or a hand-made well-formed ASCII STL          *)
(* ("ascii"); parsed by the harness's own little-endian reader and loaded back by   *)
(* the real render.LoadSTL.  Tokens are float32 bit patterns as 16-bit halves.      *)
(*   dy = 1: coordinates are k * 2^s with k, s chosen by TLC: the float32 image is  *)
(*           computed HERE (F32Dy) and the normal is tested with exact integers     *)
(*   dy = 0: real-valued inputs: the float32 image is data (e.img, computed by the  *)
(*           harness with math/big and by bit manipulation), normals are measured   *)
EXTENDS StlFormat, Json
Trace == ndJsonDeserialize("trace.ndjson")
VARIABLE l
Init == l = 1

Flat(im) == [c \in 1..18 |-> im[(c + 1) \div 2][2 - (c % 2)]]
Want(e) == IF e.dy = 1 THEN [i \in 1..Len(e.tris) |-> Flat(ImgTri(e.tris[i], e.s))] ELSE e.img
TolLen == 1000     \* | |n|^2 - 1 | <= 1e-6
TolCos == 1000     \* 1 - cos <= 1e-6

Judge(e) ==
  LET say(ok, why) == IF ok THEN TRUE ELSE (PrintT(<<"BAD", l, why>>) /\ FALSE)
      n == e.n
      want == Want(e)
      binary == e.kind # "ascii"
  IN /\ say(Len(want) = n /\ e.img = want, "harness-float32-table-disagrees-with-the-specification")
     \* ---- the file
     /\ (binary => say(e.werr = 0, "writer-failed"))
     /\ (binary => say(e.short = 0 /\ e.rem = 0 /\ e.size = HdrBytes + (RecBytes * n), "size-is-not-84-plus-50-per-triangle"))
     /\ (binary => say(e.count = n, "header-count-differs-from-the-number-of-triangles"))
     /\ (binary => say(Len(e.recs) = n, "record-count-differs-from-the-number-of-triangles"))
     \* (after the record count: nm has one entry per record of the file)
     /\ (binary => say(e.dy = 0 \/ \A i \in 1..n : (Degenerate(e.tris[i]) <=> (e.nm[i][1] = 2)), "harness-degeneracy-flag-wrong"))
     /\ (binary => say(\A i \in 1..n : SubSeq(e.recs[i], 7, 24) = want[i], "vertex-tokens-are-not-the-float32-of-the-input-in-order"))
     /\ (binary => say(\A i \in 1..n : e.recs[i][25] = 0, "attribute-bytes-not-zero"))
     \* ---- the normal
     /\ (binary => say(\A i \in 1..n : e.nm[i][1] # 0 \/ e.nm[i][2] <= TolLen, "normal-not-unit-length"))
     /\ (binary => say(\A i \in 1..n : e.nm[i][1] # 0 \/ e.nm[i][3] <= TolCos, "normal-not-the-right-hand-rule-direction"))
     /\ ((binary /\ e.dy = 1) => say(\A i \in 1..n : Degenerate(e.tris[i]) \/
                                        NormalOK(e.tris[i], <<e.nm[i][4], e.nm[i][5], e.nm[i][6]>>),
                                      "normal-fails-the-exact-integer-test"))
     \* ---- streaming writer = batch writer (vertex tokens are equal to want on both sides)
     /\ ((binary /\ e.kind # "save") => say(Len(e.bn) = n /\ \A i \in 1..n : SubSeq(e.recs[i], 1, 6) = e.bn[i], "streamed-normal-differs-from-batch-writer"))
     /\ ((binary /\ e.kind # "save") => say(e.hdrzero = e.bhdrzero, "streamed-header-differs-from-batch-writer"))
     \* ---- loading back
     /\ say(e.lerr = 0, IF binary THEN "loadstl-fails-on-the-written-file" ELSE "loadstl-fails-on-well-formed-ascii")
     /\ say(e.ln = n, "loadstl-returns-a-different-number-of-triangles")
     /\ say(e.linexact = 0 /\ e.lv = want, "loadstl-returns-different-values-or-order")

Next == /\ l <= Len(Trace) /\ l' = l + 1 /\ (IF Judge(Trace[l]) THEN TRUE ELSE TRUE)
Spec == Init /\ [][Next]_l
Report == l = Len(Trace) + 1 => PrintT(<<"CONSUMED", l - 1>>)
=============================================================================
