---------------------------- MODULE ThreadTrace ----------------------------
(* C18 trace validation, database part: one line = sdf.ThreadLookup(name) of    *)
(* the REAL library for one candidate designation, projected by the harness to  *)
(* fixed units (see Threads.tla) with relative residuals in 1e-12.  The         *)
(* expectation is recomputed here from the designation tokens (fam, a, b); the  *)
(* echoed name must be the one the grammar renders for these tokens.            *)
EXTENDS Threads, Json
Trace == ndJsonDeserialize("trace.ndjson")
VARIABLE l
Init == l = 1
Tol == 1000        \* 1e-9 relative

Judge(e) ==
  LET v == e.v
      say(ok, why) == IF ok THEN TRUE ELSE (PrintT(<<"BAD", l, why>>) /\ FALSE)
      er == ER(v.fam, v.a, v.b)
      ep == EP(v.fam, v.a, v.b)
      et == ET(v.fam)
  IN /\ say(v.fam \in Fams /\ v.name = NameOf(v.fam, v.a, v.b), "vector-name-is-not-the-rendering-of-its-tokens")
     /\ say(v.code => e.found, "name-in-the-source-but-lookup-fails")
     /\ (e.found =>
          /\ say(e.units = Units(v.fam), "units-differ-from-the-designation")
          /\ say(er > 0 /\ e.r = er /\ e.rres <= Tol, "radius-differs-from-the-designation")
          /\ (IF ep > 0 THEN say(e.p = ep /\ e.pres <= Tol, "pitch-differs-from-the-designation")
              ELSE PrintT(<<"DRIFT", l>>))
          /\ say(IF et = 0 THEN e.tzero ELSE (~e.tzero /\ e.t = et /\ e.tres <= Tol), "taper-differs-from-the-designation")
          \* unit conversion: lengths x 25.4 (x 1 for mm entries), taper and name kept, result in mm, idempotent, pure
          /\ say(e.munits = "mm", "ToMillimetre-result-not-in-mm")
          /\ say(e.mr <= Tol /\ e.mp <= Tol /\ e.mh <= Tol, "ToMillimetre-does-not-scale-lengths-by-25.4")
          /\ say(e.mtaper, "ToMillimetre-changes-taper-or-name")
          /\ say(e.idem, "ToMillimetre-not-idempotent")
          /\ say(e.pure, "ToMillimetre-modifies-the-database-entry")
          /\ say(e.gpure, "generators-modify-the-database-entry")
          \* a designation outside the standards (judged by the designation alone) is reported, not rejected
          /\ (IF Std(v.fam, v.a, v.b) = "none" THEN PrintT(<<"DRIFT", l>>) ELSE TRUE))

Next == /\ l <= Len(Trace) /\ l' = l + 1 /\ (IF Judge(Trace[l]) THEN TRUE ELSE TRUE)
Spec == Init /\ [][Next]_l
Report == l = Len(Trace) + 1 => PrintT(<<"CONSUMED", l - 1>>)
=============================================================================
