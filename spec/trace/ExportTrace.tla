----------------------------- MODULE ExportTrace -----------------------------
(* C15 trace validation: one line = one file REALLY written by render.To3MF,       *)
(* ToDXF, SaveDXF, ToSVG or SaveSVG and read back with an independent reader        *)
(* (go3mf reader + raw XML, yofu/dxf reader, encoding/xml).                          *)
(*   ev = "3mf" / "dxf" / "svg": exact quarter-integer inputs chosen by TLC; the     *)
(*        decoded structure is compared with Export.tla                              *)
(*   ev = "m3mf" / "mdxf" / "msvg": seeded real-valued inputs; the harness measures  *)
(*        max |decoded - expected| / bound * 1e6 with bound = half a unit of the     *)
(*        format's last decimal (+ 2 float32 ulps for 3MF); judged here              *)
EXTENDS Export, Json
Trace == ndJsonDeserialize("trace.ndjson")
VARIABLE l
Init == l = 1
Tol == 1000001

Judge(e) ==
  LET say(ok, why) == IF ok THEN TRUE ELSE (PrintT(<<"BAD", l, why>>) /\ FALSE)
  IN /\ say(e.derr = 0, "file-missing-or-rejected-by-the-independent-reader")
     /\ (e.ev \in {"3mf", "dxf", "svg"} => say(e.inexact = 0, "decoded-number-not-on-the-exact-grid"))
     \* ---------------- 3MF
     /\ (e.ev \in {"3mf", "m3mf"} => say(e.nobj = 1 /\ e.nitems = 1 /\ e.itemok = 1, "not-exactly-one-object-built-once"))
     /\ (e.ev \in {"3mf", "m3mf"} => say(e.unit = "millimeter" /\ e.rawunit \in {"millimeter", "absent"}, "unit-is-not-millimetre"))
     /\ (e.ev = "3mf" => LET m == [verts |-> e.verts, tris |-> e.idx] IN
            /\ say(Len(e.idx) = Len(e.tris), "3mf-triangle-count-differs")
            /\ say(IndicesInRange(m), "3mf-vertex-index-out-of-range")
            /\ say(TrianglesAreInputs(m, e.tris), "3mf-triangles-not-the-inputs-in-order-and-winding")
            /\ say(NoDup(e.verts), "3mf-vertex-table-has-duplicates")
            /\ say(AllUsed(m), "3mf-vertex-table-has-unused-entries")
            /\ (IF m = Mesh3MF(e.tris) THEN TRUE ELSE PrintT(<<"DRIFT", l>>)))
     /\ (e.ev = "m3mf" =>
            /\ say(e.cnt = e.n, "3mf-triangle-count-differs")
            /\ say(e.badidx = 0, "3mf-vertex-index-out-of-range")
            /\ say(e.maxerr <= Tol, "3mf-vertex-differs-from-float32-input-by-over-4-decimals")
            /\ say(e.nclus <= e.nverts /\ e.nverts <= e.ndist, "3mf-vertex-table-size-is-not-the-distinct-inputs"))
     \* ---------------- DXF
     /\ (e.ev = "dxf" =>
            /\ say(Len(e.ents) = Len(e.segs), "dxf-entity-count-differs-from-segments")
            /\ say(\A i \in 1..Len(e.ents) : e.ents[i].t = "LINE", "dxf-entity-is-not-a-line")
            /\ say(\A i \in 1..Len(e.ents) : e.ents[i].layer = "Lines", "dxf-line-not-on-layer-Lines")
            /\ say(e.ents = DXF(e.segs), "dxf-lines-are-not-the-segments-in-order"))
     /\ (e.ev = "mdxf" =>
            /\ say(e.cnt = e.n, "dxf-entity-count-differs-from-segments")
            /\ say(e.badlayer = 0, "dxf-line-not-on-layer-Lines")
            /\ say(e.maxerr <= Tol, "dxf-coordinate-differs-beyond-16-decimals"))
     \* ---------------- SVG
     /\ (e.ev = "svg" => LET v == SVG(e.segs) IN
            /\ say(Len(e.lines) = Len(e.segs) /\ e.nelem = Len(e.segs) + 1, "svg-line-count-differs-from-segments")
            /\ say(e.w = v.w /\ e.h = v.h, "svg-canvas-is-not-the-extent")
            /\ say(e.lines = v.lines, "svg-lines-not-translated-to-min-corner-with-y-flip")
            /\ say(e.styles = Len(e.segs), "svg-line-style-lost"))
     /\ (e.ev = "msvg" =>
            /\ say(e.cnt = e.n /\ e.nelem = e.n + 1, "svg-line-count-differs-from-segments")
            /\ say(e.inexact = 0, "svg-number-unreadable")
            /\ say(e.maxerr <= Tol, "svg-coordinate-differs-beyond-two-decimals")
            /\ say(e.styles = e.n, "svg-line-style-lost"))

Next == /\ l <= Len(Trace) /\ l' = l + 1 /\ (IF Judge(Trace[l]) THEN TRUE ELSE TRUE)
Spec == Init /\ [][Next]_l
Report == l = Len(Trace) + 1 => PrintT(<<"CONSUMED", l - 1>>)
=============================================================================
