----------------------------- MODULE FaultTrace -----------------------------
(* C12: judgement of real fault-injection runs and of goroutine counts.        *)
(*  fault line: one real render-to-file call in a child process with a sink    *)
(*    fault (file-size limit at a byte offset, device full, path that cannot   *)
(*    be created): returned? ; if not: does the goroutine dump show the        *)
(*    producer blocked in the buffer's channel send (blocked)?                 *)
(*  gor line: goroutines alive after k renders in one process.                 *)
EXTENDS Integers, Sequences, TLC, Json
Trace == ndJsonDeserialize("trace.ndjson")
VARIABLE l
Init == l = 1
Judge(e) ==
  LET say(ok, why) == IF ok THEN TRUE ELSE (PrintT(<<"BAD", l, why>>) /\ FALSE)
  IN IF e.ev = "fault"
     THEN /\ say(e.returned \/ ~e.blocked, "render-call-blocked-forever")
          /\ say(e.returned \/ ~e.panicked, "render-call-panicked")
          \* not returned, no blocked goroutine in the dump, no panic: inconclusive, not a verdict
          /\ (IF e.returned \/ e.blocked \/ e.panicked THEN TRUE ELSE PrintT(<<"DRIFT", l>>))
     ELSE \* goroutines after k renders bounded by a constant independent of k:
          \* what is alive after the first render (pool, runtime) plus a small slack
          /\ say(~(e.hung /\ e.blocked), "render-call-blocked-forever-after-earlier-renders")
          /\ (IF e.hung /\ ~e.blocked THEN PrintT(<<"DRIFT", l>>) ELSE TRUE)
          /\ (e.hung \/ say(e.live <= e.first + 2, "goroutines-grow-with-the-number-of-renders"))
Next == /\ l <= Len(Trace) /\ l' = l + 1 /\ (IF Judge(Trace[l]) THEN TRUE ELSE TRUE)
Spec == Init /\ [][Next]_l
Report == l = Len(Trace) + 1 => PrintT(<<"CONSUMED", l - 1>>)
=============================================================================
