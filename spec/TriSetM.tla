------------------------------- MODULE TriSetM -------------------------------
(* Case machine for TriSet.tla.                                                *)
(* Level 0 (the initial state): is the comparator Cmp a strict total order on  *)
(* the canonical triples over K indices (a strict weak order without ties)?    *)
(* Level 2: the state is a set S of 1..MaxT canonical triples (as an ascending *)
(* sequence); SetOK says the sort-based equality EqualsModel accepts every     *)
(* permuted and rotated copy of S.                                             *)
(*   Cmp = "code"  TriangleIByIndex.Less as the pinned tree writes it          *)
(*   Cmp = "lex"   the lexicographic order                                     *)
(*   Sample = 0    every set; Sample > 0: LCG-drawn sets of exactly MaxT       *)
EXTENDS TriSet, Json, TLC
CONSTANTS K, MaxT, Cmp, Sample, Seed, Emit
VARIABLES phase, j, S
vars == <<phase, j, S>>
U == Universe(K)
NU == Cardinality(U)
\* the universe as a sequence in lexicographic order
RECURSIVE SortU(_)
SortU(X) == IF X = {} THEN <<>>
            ELSE LET m == CHOOSE a \in X : \A b \in X : a = b \/ LexLess(a, b)
                 IN <<m>> \o SortU(X \ {m})
USeq == SortU(U)
R(x) == (75 * (x % 65537) + 74) % 65537
RECURSIVE Rn(_, _)
Rn(jj, i) == IF i = 0 THEN R(R(Seed * 31 + jj)) ELSE R(Rn(jj, i - 1) + i)
RECURSIVE IncSeqs(_, _, _)
IncSeqs(lo, hi, k) ==
  IF k = 0 THEN {<<>>}
  ELSE UNION {{<<a>> \o s : s \in IncSeqs(a + 1, hi, k - 1)} : a \in lo..hi}
RemoveAt(s, k) == [i \in 1..(Len(s) - 1) |-> IF i < k THEN s[i] ELSE s[i + 1]]
RECURSIVE Draw(_, _, _, _)
Draw(avail, k, jj, i) == IF k = 0 THEN <<>>
                         ELSE LET m == 1 + (Rn(jj, i) % Len(avail))
                              IN <<avail[m]>> \o Draw(RemoveAt(avail, m), k - 1, jj, i + 1)
Triples(ix) == [i \in 1..Len(ix) |-> USeq[ix[i]]]

Init == phase = 0 /\ j = 0 /\ S = <<>>
PickJ == /\ phase = 0 /\ phase' = 1 /\ S' = S
         /\ j' \in (IF Sample = 0 THEN 1..NU ELSE 1..Sample)
Build ==
  /\ phase = 1 /\ phase' = 2 /\ j' = j
  /\ IF Sample = 0
     THEN \E k \in 0..(MaxT - 1) : \E s \in IncSeqs(j + 1, NU, k) : S' = Triples(<<j>> \o s)
     ELSE S' = Triples(Draw([i \in 1..NU |-> i], MaxT, j, 1))
Next == PickJ \/ Build
Spec == Init /\ [][Next]_vars

\* a rotation pattern that depends on the position (rotations must not matter)
Rotated(s, o) == [i \in 1..Len(s) |-> Rot(s[i], (i + o) % 3)]
BadPerms(s) == {p \in Perms(Len(s)) : ~EqualsModel(Cmp, s, Rotated(Permuted(s, p), p[1]))}
CanonicalUndoesRotation == \A t \in U : \A r \in 0..2 : Canonical(Rot(t, r)) = t

L == RelOf(Cmp, U)
OrderFacts == [irreflexive |-> Irreflexive(U, L), asymmetric |-> Asymmetric(U, L),
               transitive |-> Transitive(U, L), incomparability_transitive |-> IncompTransitive(U, L),
               total |-> Total(U, L)]
OrderOK == phase = 0 =>
  /\ CanonicalUndoesRotation
  /\ (StrictTotalOrder(U, L)
        \/ (PrintT(<<"MODELORDER", ToJson([cmp |-> Cmp, k |-> K, facts |-> OrderFacts,
                     witness |-> IF Asymmetric(U, L) THEN <<>>
                                 ELSE LET p == CHOOSE p \in L : <<p[2], p[1]>> \in L IN <<p[1], p[2]>>])>>) /\ FALSE))
SetOK == phase = 2 =>
  /\ (Emit => PrintT(<<"VEC", ToJson([s |-> S])>>))
  /\ (BadPerms(S) = {}
        \/ (PrintT(<<"MODELBAD", ToJson([s |-> S, perm |-> CHOOSE p \in BadPerms(S) : TRUE])>>) /\ FALSE))
=============================================================================
