------------------------------- MODULE UniformM -------------------------------
(* Scene machine for the uniform renderer (C06): planes with small integer     *)
(* normals, boxes, and their unions / differences on non-cubic lattices.       *)
EXTENDS Uniform, Json
CONSTANTS Fam, Emit, Sample, Seed,
          D1, D2, D3, D4      \* lattice sizes (cells per axis) encoded as 10000*a + 100*b + c
VARIABLES phase, j, dims, scene
vars == <<phase, j, dims, scene>>
R(x) == (75 * (x % 65537) + 74) % 65537
RECURSIVE Rn(_, _)
Rn(jj, i) == IF i = 0 THEN R(R(Seed * 31 + jj)) ELSE R(Rn(jj, i - 1) + i)
Box(c, h, op) == [kind |-> "box", c |-> c, h |-> h, w |-> 1, op |-> op]
Plane(c, h, op) == [kind |-> "plane", c |-> c, h |-> h, w |-> 1, op |-> op]
Init == phase = 0 /\ j = 0 /\ dims = <<1, 1, 1>> /\ scene = [parts |-> <<Box(<<0,0,0>>, <<0,0,0>>, "u")>>, k |-> 1]
Dec(n) == <<n \div 10000, (n \div 100) % 100, n % 100>>
RDim(jj) == Dec(<<D1, D2, D3, D4>>[1 + (Rn(jj, 20) % 4)])
\* a box strictly inside the unpadded bounding box [1, d] (the shape's own box is [0.5, d+0.5])
RBox(jj, o, d, op) ==
  LET h == [a \in 1..3 |-> Rn(jj, o + a) % (1 + (d[a] - 1) \div 2)]
      c == [a \in 1..3 |-> 1 + h[a] + (Rn(jj, o + 3 + a) % (d[a] - 2 * h[a]))]
  IN Box(c, h, op)
Coef(x) == (x % 7) - 3
RPlane(jj, o, d, op) ==
  LET h0 == <<Coef(Rn(jj, o)), Coef(Rn(jj, o + 1)), Coef(Rn(jj, o + 2))>>
      h == IF h0 = <<0, 0, 0>> THEN <<1, 2, -1>> ELSE h0
  IN Plane(<<1 + (Rn(jj, o + 3) % d[1]), 1 + (Rn(jj, o + 4) % d[2]), 1 + (Rn(jj, o + 5) % d[3])>>, h, op)
Pick == /\ phase = 0 /\ phase' = 1 /\ j' \in 1..Sample /\ UNCHANGED <<dims, scene>>
Build == /\ phase = 1 /\ phase' = 2 /\ j' = j
         /\ dims' = RDim(j)
         /\ LET d == RDim(j)
            IN scene' =
                 IF Fam = "plane" THEN [parts |-> <<RBox(j, 0, d, "u"), RPlane(j, 8, d, "i")>>, k |-> 1]
                 ELSE IF Fam = "box2" THEN [parts |-> <<RBox(j, 0, d, "u"),
                                                        RBox(j, 8, d, IF Rn(j, 15) % 2 = 0 THEN "u" ELSE "d")>>, k |-> 1]
                 ELSE [parts |-> <<RBox(j, 0, d, "u")>>, k |-> 1]
Next == Pick \/ Build
Spec == Init /\ [][Next]_vars
\* model-level: the predicted mesh is closed, its vertices are zero crossings (by construction)
SceneOK == phase = 2 =>
  /\ (Balanced(UniTris(scene, dims)) \/ (PrintT(<<"MODELBAD", ToJson([dims |-> dims, scene |-> scene])>>) /\ FALSE))
  /\ (Emit => PrintT(<<"VEC", ToJson([dims |-> dims, k |-> scene.k, parts |-> scene.parts])>>))
=============================================================================
