-------------------------------- MODULE CSG --------------------------------
(* The shape language of sdf/sdf2.go and sdf/sdf3.go on its exact-lattice     *)
(* sub-domain (C01, C02, C03).                                                *)
(*                                                                            *)
(* A shape is a record [op, a, k]: op = constructor name, a = sequence of     *)
(* integer parameters, k = sequence of operand shapes.                        *)
(*   2D  box2<<hx,hy>>  circle<<r>>                                            *)
(*       tr2<<tx,ty>> rot2<<q>> (q quarter turns ccw) mir2<<1|2>> (MirrorX|Y)  *)
(*       scale2<<s>> offset2<<o>> cut2<<ax,ay,vx,vy>> elong2<<hx,hy>>          *)
(*       array2<<nx,ny,sx,sy>> rotcopy2<<n>> union2 diff2 inter2              *)
(*       slice2<<ax,ay,az,axis>> (operand 3D)                                  *)
(*   3D  box3<<hx,hy,hz>> sphere<<r>> cyl<<hh,r>>                              *)
(*       tr3 rot3<<axis,q>> mir3<<1 XY|2 XZ|3 YZ|4 X=Y>> scale3 offset3        *)
(*       shell3<<delta>> cut3<<ax,ay,az,nx,ny,nz>> elong3 array3<<n..,s..>>    *)
(*       rotcopy3<<n>> union3 diff3 inter3                                    *)
(*       extrude<<hh>> twist<<hh,q>> (q quarter turns per unit z)             *)
(*       revolve<<m>> (m = 0 full, else m quarter turns)   (operand 2D)       *)
(* Sizes are HALF sizes (hx = size/2, hh = height/2, elongation h/2, shell     *)
(* delta = thickness/2) so that every parameter is an integer.                *)
(*                                                                            *)
(* Semantics.  A point is an integer vector P with a positive integer scale   *)
(* d: the real point is P/d; a level c means the real number c/d.             *)
(*   Cmp(e,P,c,d) in {-1,0,1,2}: Evaluate(e)(P/d) is certainly < / = / > c/d,  *)
(*   or (2) not decided on the lattice.  No square root is ever taken:        *)
(*   sqrt(q) is compared with rationals by squaring.                          *)
(*   Val(e,P,d) = <<1,v>> when Evaluate(e)(P/d) = v/d exactly, else <<0,0>>.  *)
(*   Dist(e,P,d): Euclidean signed distance for exact chains (C03), written   *)
(*   independently of the code's branch structure (clamp form).               *)
(*   BBcode(e): transcription of the box arithmetic the code performs today,  *)
(*   in units of 1/1024, outward rounded where irrational.                    *)
EXTENDS Integers, Sequences, FiniteSets, TLC

Abs(x) == IF x < 0 THEN -x ELSE x
Max(a, b) == IF a > b THEN a ELSE b
Min(a, b) == IF a < b THEN a ELSE b
U == 1024

RECURSIVE IsqrtB(_, _, _)
IsqrtB(q, lo, hi) == IF lo >= hi THEN lo
                     ELSE LET m == (lo + hi + 1) \div 2
                          IN IF m * m <= q THEN IsqrtB(q, m, hi) ELSE IsqrtB(q, lo, m - 1)
Isqrt(q) == IsqrtB(q, 0, IF q < 1000000 THEN 1000 ELSE 46340)
CeilSqrt(q) == LET s == Isqrt(q) IN IF s * s = q THEN s ELSE s + 1
IsSq(q) == LET s == Isqrt(q) IN s * s = q

\* three-valued order: -1 certainly less, 0 certainly equal, 1 certainly greater, 2 undecided
Min3(a, b) == IF a = -1 \/ b = -1 THEN -1 ELSE IF a = 2 \/ b = 2 THEN 2 ELSE IF a = 0 \/ b = 0 THEN 0 ELSE 1
Max3(a, b) == IF a = 1 \/ b = 1 THEN 1 ELSE IF a = 2 \/ b = 2 THEN 2 ELSE IF a = 0 \/ b = 0 THEN 0 ELSE -1
Neg3(a) == IF a = 2 THEN 2 ELSE -a
CmpInt(x, c) == IF x < c THEN -1 ELSE IF x = c THEN 0 ELSE 1
CmpSqrt(q, c) == IF c < 0 THEN 1 ELSE CmpInt(q, c * c)                 \* sqrt(q) ? c
\* n / sqrt(vv) ? c
CmpPlane(n, vv, c) == IF vv = 1 THEN CmpInt(n, c)
                      ELSE IF c >= 0 THEN (IF n < 0 THEN -1 ELSE CmpInt(n * n, c * c * vv))
                      ELSE (IF n >= 0 THEN 1 ELSE Neg3(CmpInt(n * n, c * c * vv)))
\* A ? B*sqrt(q), B >= 0
CmpAB(A, B, q) == IF A < 0 THEN -1 ELSE CmpInt(A * A, B * B * q)
MinSet3(S) == IF -1 \in S THEN -1 ELSE IF 2 \in S THEN 2 ELSE IF 0 \in S THEN 0 ELSE 1
Same3(S) == IF Cardinality(S) = 1 THEN (CHOOSE x \in S : TRUE) ELSE 2

Is3(op) == op \in {"box3", "sphere", "cyl", "tr3", "rot3", "mir3", "scale3", "offset3", "shell3", "cut3",
                   "elong3", "array3", "rotcopy3", "union3", "diff3", "inter3", "extrude", "twist", "revolve"}

\* ------------------------------------------------------------------ point maps
R90(p) == IF Len(p) = 2 THEN <<-p[2], p[1]>> ELSE <<-p[2], p[1], p[3]>>          \* +90 deg about z
RotN(p, m) == LET mm == m % 4 IN IF mm = 0 THEN p ELSE IF mm = 1 THEN R90(p)
              ELSE IF mm = 2 THEN R90(R90(p)) ELSE R90(R90(R90(p)))
Rax(p, ax) == IF ax = 1 THEN <<p[1], -p[3], p[2]>> ELSE IF ax = 2 THEN <<p[3], p[2], -p[1]>> ELSE <<-p[2], p[1], p[3]>>
RotAx(p, ax, m) == LET mm == m % 4 IN IF mm = 0 THEN p ELSE IF mm = 1 THEN Rax(p, ax)
                   ELSE IF mm = 2 THEN Rax(Rax(p, ax), ax) ELSE Rax(Rax(Rax(p, ax), ax), ax)
Mir2(p, w) == IF w = 1 THEN <<p[1], -p[2]>> ELSE <<-p[1], p[2]>>
Mir3(p, w) == IF w = 1 THEN <<p[1], p[2], -p[3]>> ELSE IF w = 2 THEN <<p[1], -p[2], p[3]>>
              ELSE IF w = 3 THEN <<-p[1], p[2], p[3]>> ELSE <<p[2], p[1], p[3]>>
Sub(p, t, d) == [i \in 1..Len(p) |-> p[i] - t[i] * d]
Clamp0(x, h) == IF x > h THEN x - h ELSE IF x < -h THEN x + h ELSE 0
\* images of p under the sector rotations that land in the closed first sector
Cands(p, n) ==
  IF n = 1 THEN {p}
  ELSE IF n = 2 THEN {q \in {p, RotN(p, 2)} : q[1] >= 0}
  ELSE {q \in {RotN(p, i) : i \in 0..3} : q[1] >= Abs(q[2])}
SliceMap(a, p, d) == IF a[4] = 1 THEN <<a[1] * d, a[2] * d + p[1], a[3] * d + p[2]>>
                     ELSE IF a[4] = 2 THEN <<a[1] * d + p[1], a[2] * d, a[3] * d - p[2]>>
                     ELSE <<a[1] * d + p[1], a[2] * d + p[2], a[3] * d>>
ArrayOffsets2(a) == {<<j * a[3], k * a[4]>> : j \in 0..(a[1] - 1), k \in 0..(a[2] - 1)}
ArrayOffsets3(a) == {<<j * a[4], k * a[5], l * a[6]>> : j \in 0..(a[1] - 1), k \in 0..(a[2] - 1), l \in 0..(a[3] - 1)}
\* wedge of a partial revolution (m quarter turns), numerator over d; exact up to 1e-16
Wedge(p, m) == IF m = 1 THEN Max(-p[2], -p[1]) ELSE IF m = 2 THEN -p[2] ELSE Min(-p[2], p[1])

\* ------------------------------------------------------------------ Cmp
RECURSIVE Cmp(_, _, _, _)
Cmp(e, p, c, d) ==
  LET op == e.op
      a == e.a
      k == e.k
  IN
  CASE op = "box2" ->
         LET dx == Abs(p[1]) - a[1] * d
             dy == Abs(p[2]) - a[2] * d
         IN IF dx > 0 /\ dy > 0 THEN CmpSqrt(dx * dx + dy * dy, c) ELSE CmpInt(Max(dx, dy), c)
    [] op = "circle" -> CmpSqrt(p[1] * p[1] + p[2] * p[2], c + a[1] * d)
    [] op = "box3" ->
         LET dx == Abs(p[1]) - a[1] * d
             dy == Abs(p[2]) - a[2] * d
             dz == Abs(p[3]) - a[3] * d
             px == Max(dx, 0)
             py == Max(dy, 0)
             pz == Max(dz, 0)
         IN IF dx > 0 \/ dy > 0 \/ dz > 0 THEN CmpSqrt(px * px + py * py + pz * pz, c)
            ELSE CmpInt(Max(dx, Max(dy, dz)), c)
    [] op = "sphere" -> CmpSqrt(p[1] * p[1] + p[2] * p[2] + p[3] * p[3], c + a[1] * d)
    [] op = "cyl" ->
         LET q == p[1] * p[1] + p[2] * p[2]
             RR == a[2] * d
             dz == Abs(p[3]) - a[1] * d
         IN IF q > RR * RR /\ dz > 0
            THEN (IF c <= 0 THEN 1 ELSE CmpAB(q + RR * RR + dz * dz - c * c, 2 * RR, q))
            ELSE Max3(CmpSqrt(q, c + RR), CmpInt(dz, c))
    [] op \in {"tr2", "tr3"} -> Cmp(k[1], Sub(p, a, d), c, d)
    [] op = "rot2" -> Cmp(k[1], RotN(p, 4 - (a[1] % 4)), c, d)
    [] op = "rot3" -> Cmp(k[1], RotAx(p, a[1], 4 - (a[2] % 4)), c, d)
    [] op = "mir2" -> Cmp(k[1], Mir2(p, a[1]), c, d)
    [] op = "mir3" -> Cmp(k[1], Mir3(p, a[1]), c, d)
    [] op \in {"scale2", "scale3"} -> Cmp(k[1], p, c, d * a[1])
    [] op \in {"offset2", "offset3"} -> Cmp(k[1], p, c + a[1] * d, d)
    [] op = "shell3" ->
         LET t == c + a[1] * d
         IN IF t < 0 THEN 1 ELSE Max3(Cmp(k[1], p, t, d), Neg3(Cmp(k[1], p, -t, d)))
    [] op = "cut2" ->
         LET n == (p[1] - a[1] * d) * (-a[4]) + (p[2] - a[2] * d) * a[3]
         IN Max3(CmpPlane(n, a[3] * a[3] + a[4] * a[4], c), Cmp(k[1], p, c, d))
    [] op = "cut3" ->
         LET n == -((p[1] - a[1] * d) * a[4] + (p[2] - a[2] * d) * a[5] + (p[3] - a[3] * d) * a[6])
         IN Max3(CmpPlane(n, a[4] * a[4] + a[5] * a[5] + a[6] * a[6], c), Cmp(k[1], p, c, d))
    [] op \in {"elong2", "elong3"} -> Cmp(k[1], [i \in 1..Len(p) |-> Clamp0(p[i], a[i] * d)], c, d)
    [] op = "array2" -> MinSet3({Cmp(k[1], Sub(p, o, d), c, d) : o \in ArrayOffsets2(a)})
    [] op = "array3" -> MinSet3({Cmp(k[1], Sub(p, o, d), c, d) : o \in ArrayOffsets3(a)})
    [] op \in {"rotcopy2", "rotcopy3"} -> Same3({Cmp(k[1], q, c, d) : q \in Cands(p, a[1])})
    [] op \in {"union2", "union3"} -> Min3(Cmp(k[1], p, c, d), Cmp(k[2], p, c, d))
    [] op \in {"inter2", "inter3"} -> Max3(Cmp(k[1], p, c, d), Cmp(k[2], p, c, d))
    [] op \in {"diff2", "diff3"} -> Max3(Cmp(k[1], p, c, d), Neg3(Cmp(k[2], p, -c, d)))
    [] op = "slice2" -> Cmp(k[1], SliceMap(a, p, d), c, d)
    [] op = "extrude" -> Max3(Cmp(k[1], <<p[1], p[2]>>, c, d), CmpInt(Abs(p[3]) - a[1] * d, c))
    [] op = "twist" ->
         LET slab == CmpInt(Abs(p[3]) - a[1] * d, c)
             za == p[3] * a[2]
         IN IF za % d # 0 THEN Max3(2, slab)
            ELSE Max3(Cmp(k[1], RotN(<<p[1], p[2]>>, (za \div d) % 4), c, d), slab)
    [] op = "revolve" ->
         LET q == p[1] * p[1] + p[2] * p[2]
             prof == IF IsSq(q) THEN Cmp(k[1], <<Isqrt(q), p[3]>>, c, d) ELSE 2
         IN IF a[1] = 0 THEN prof ELSE Max3(prof, CmpInt(Wedge(p, a[1]), c))

\* ------------------------------------------------------------------ Val
NoVal == <<0, 0>>
\* min / max of two partially known values, helped by Cmp of the unknown side against the known one
VMin(x, y, cy, cx) ==          \* cy = Cmp(second operand ? x-value) if x known, cx likewise
  IF x[1] = 1 /\ y[1] = 1 THEN <<1, Min(x[2], y[2])>>
  ELSE IF x[1] = 1 /\ cy \in {0, 1} THEN x
  ELSE IF y[1] = 1 /\ cx \in {0, 1} THEN y ELSE NoVal
VMax(x, y, cy, cx) ==
  IF x[1] = 1 /\ y[1] = 1 THEN <<1, Max(x[2], y[2])>>
  ELSE IF x[1] = 1 /\ cy \in {0, -1} THEN x
  ELSE IF y[1] = 1 /\ cx \in {0, -1} THEN y ELSE NoVal
VNeg(x) == IF x[1] = 1 THEN <<1, -x[2]>> ELSE NoVal
SqVal(q) == IF IsSq(q) THEN <<1, Isqrt(q)>> ELSE NoVal

RECURSIVE Val(_, _, _)
Val(e, p, d) ==
  LET op == e.op
      a == e.a
      k == e.k
  IN
  CASE op = "box2" ->
         LET dx == Abs(p[1]) - a[1] * d
             dy == Abs(p[2]) - a[2] * d
         IN IF dx > 0 /\ dy > 0 THEN SqVal(dx * dx + dy * dy) ELSE <<1, Max(dx, dy)>>
    [] op = "circle" -> LET s == SqVal(p[1] * p[1] + p[2] * p[2]) IN IF s[1] = 1 THEN <<1, s[2] - a[1] * d>> ELSE NoVal
    [] op = "box3" ->
         LET dx == Abs(p[1]) - a[1] * d
             dy == Abs(p[2]) - a[2] * d
             dz == Abs(p[3]) - a[3] * d
             px == Max(dx, 0)
             py == Max(dy, 0)
             pz == Max(dz, 0)
         IN IF dx > 0 \/ dy > 0 \/ dz > 0 THEN SqVal(px * px + py * py + pz * pz)
            ELSE <<1, Max(dx, Max(dy, dz))>>
    [] op = "sphere" -> LET s == SqVal(p[1] * p[1] + p[2] * p[2] + p[3] * p[3])
                        IN IF s[1] = 1 THEN <<1, s[2] - a[1] * d>> ELSE NoVal
    [] op = "cyl" ->
         LET s == SqVal(p[1] * p[1] + p[2] * p[2])
             dz == Abs(p[3]) - a[1] * d
         IN IF s[1] = 0 THEN NoVal
            ELSE LET dr == s[2] - a[2] * d
                 IN IF dr > 0 /\ dz > 0 THEN SqVal(dr * dr + dz * dz) ELSE <<1, Max(dr, dz)>>
    [] op \in {"tr2", "tr3"} -> Val(k[1], Sub(p, a, d), d)
    [] op = "rot2" -> Val(k[1], RotN(p, 4 - (a[1] % 4)), d)
    [] op = "rot3" -> Val(k[1], RotAx(p, a[1], 4 - (a[2] % 4)), d)
    [] op = "mir2" -> Val(k[1], Mir2(p, a[1]), d)
    [] op = "mir3" -> Val(k[1], Mir3(p, a[1]), d)
    [] op \in {"scale2", "scale3"} -> Val(k[1], p, d * a[1])
    [] op \in {"offset2", "offset3"} -> LET v == Val(k[1], p, d) IN IF v[1] = 1 THEN <<1, v[2] - a[1] * d>> ELSE NoVal
    [] op = "shell3" -> LET v == Val(k[1], p, d) IN IF v[1] = 1 THEN <<1, Abs(v[2]) - a[1] * d>> ELSE NoVal
    [] op = "cut2" ->
         LET n == (p[1] - a[1] * d) * (-a[4]) + (p[2] - a[2] * d) * a[3]
             vv == a[3] * a[3] + a[4] * a[4]
             x == IF vv = 1 THEN <<1, n>> ELSE NoVal
             y == Val(k[1], p, d)
         IN VMax(x, y, IF x[1] = 1 THEN Cmp(k[1], p, x[2], d) ELSE 2, IF y[1] = 1 THEN CmpPlane(n, vv, y[2]) ELSE 2)
    [] op = "cut3" ->
         LET n == -((p[1] - a[1] * d) * a[4] + (p[2] - a[2] * d) * a[5] + (p[3] - a[3] * d) * a[6])
             vv == a[4] * a[4] + a[5] * a[5] + a[6] * a[6]
             x == IF vv = 1 THEN <<1, n>> ELSE NoVal
             y == Val(k[1], p, d)
         IN VMax(x, y, IF x[1] = 1 THEN Cmp(k[1], p, x[2], d) ELSE 2, IF y[1] = 1 THEN CmpPlane(n, vv, y[2]) ELSE 2)
    [] op \in {"elong2", "elong3"} -> Val(k[1], [i \in 1..Len(p) |-> Clamp0(p[i], a[i] * d)], d)
    [] op \in {"array2", "array3"} ->
         LET S == {Val(k[1], Sub(p, o, d), d) : o \in (IF op = "array2" THEN ArrayOffsets2(a) ELSE ArrayOffsets3(a))}
         IN IF \A v \in S : v[1] = 1 THEN <<1, CHOOSE m \in {v[2] : v \in S} : \A v \in S : m <= v[2]>> ELSE NoVal
    [] op \in {"rotcopy2", "rotcopy3"} ->
         LET S == {Val(k[1], q, d) : q \in Cands(p, a[1])}
         IN IF Cardinality(S) = 1 THEN (CHOOSE v \in S : TRUE) ELSE NoVal
    [] op \in {"union2", "union3"} ->
         LET x == Val(k[1], p, d)
             y == Val(k[2], p, d)
         IN VMin(x, y, IF x[1] = 1 THEN Cmp(k[2], p, x[2], d) ELSE 2, IF y[1] = 1 THEN Cmp(k[1], p, y[2], d) ELSE 2)
    [] op \in {"inter2", "inter3"} ->
         LET x == Val(k[1], p, d)
             y == Val(k[2], p, d)
         IN VMax(x, y, IF x[1] = 1 THEN Cmp(k[2], p, x[2], d) ELSE 2, IF y[1] = 1 THEN Cmp(k[1], p, y[2], d) ELSE 2)
    [] op \in {"diff2", "diff3"} ->
         LET x == Val(k[1], p, d)
             y == VNeg(Val(k[2], p, d))
         IN VMax(x, y, IF x[1] = 1 THEN Neg3(Cmp(k[2], p, -x[2], d)) ELSE 2, IF y[1] = 1 THEN Cmp(k[1], p, y[2], d) ELSE 2)
    [] op = "slice2" -> Val(k[1], SliceMap(a, p, d), d)
    [] op = "extrude" ->
         LET x == <<1, Abs(p[3]) - a[1] * d>>
             y == Val(k[1], <<p[1], p[2]>>, d)
         IN VMax(x, y, Cmp(k[1], <<p[1], p[2]>>, x[2], d), 2)
    [] op = "twist" ->
         LET x == <<1, Abs(p[3]) - a[1] * d>>
             za == p[3] * a[2]
         IN IF za % d # 0 THEN NoVal
            ELSE LET q == RotN(<<p[1], p[2]>>, (za \div d) % 4)
                 IN VMax(x, Val(k[1], q, d), Cmp(k[1], q, x[2], d), 2)
    [] op = "revolve" ->
         LET q == p[1] * p[1] + p[2] * p[2]
         IN IF ~IsSq(q) THEN NoVal
            ELSE LET pp == <<Isqrt(q), p[3]>>
                     y == Val(k[1], pp, d)
                 IN IF a[1] = 0 THEN y
                    ELSE LET x == <<1, Wedge(p, a[1])>> IN VMax(x, y, Cmp(k[1], pp, x[2], d), 2)

\* ------------------------------------------------------------------ flags (C03)
\* <<exact, lip1>> as the property states them
RECURSIVE Flags(_)
Flags(e) ==
  LET op == e.op
      f1 == IF Len(e.k) >= 1 THEN Flags(e.k[1]) ELSE <<TRUE, TRUE>>
      f2 == IF Len(e.k) >= 2 THEN Flags(e.k[2]) ELSE <<TRUE, TRUE>>
  IN IF Len(e.k) = 0 THEN <<TRUE, TRUE>>
     ELSE IF op \in {"tr2", "tr3", "rot2", "rot3", "mir2", "mir3", "scale2", "scale3"} THEN f1
     ELSE IF op \in {"offset2", "offset3"} THEN <<f1[1] /\ e.a[1] >= 0, f1[2]>>
     ELSE IF op = "twist" THEN <<FALSE, FALSE>>
     ELSE <<FALSE, f1[2] /\ f2[2]>>
IsExact(e) == Flags(e)[1]
IsLip1(e) == Flags(e)[2]
RECURSIVE HasOp(_, _)
HasOp(e, ops) == e.op \in ops \/ \E i \in 1..Len(e.k) : HasOp(e.k[i], ops)

\* Euclidean signed distance of an exact chain (primitive under rigid maps, uniform scale,
\* outward offset), clamp form: outside = distance to the clamped point, inside = -(least slack)
RECURSIVE Dist(_, _, _)
Dist(e, p, d) ==
  LET op == e.op
      a == e.a
      k == e.k
  IN
  CASE op \in {"box2", "box3"} ->
         LET n == Len(p)
             ex == [i \in 1..n |-> Max(Abs(p[i]) - a[i] * d, 0)]
             q == IF n = 2 THEN ex[1] * ex[1] + ex[2] * ex[2] ELSE ex[1] * ex[1] + ex[2] * ex[2] + ex[3] * ex[3]
             slack == [i \in 1..n |-> a[i] * d - Abs(p[i])]
             ms == IF n = 2 THEN Min(slack[1], slack[2]) ELSE Min(slack[1], Min(slack[2], slack[3]))
         IN IF q > 0 THEN SqVal(q) ELSE <<1, -ms>>
    [] op \in {"circle", "sphere"} ->
         LET q == IF Len(p) = 2 THEN p[1] * p[1] + p[2] * p[2] ELSE p[1] * p[1] + p[2] * p[2] + p[3] * p[3]
             s == SqVal(q)
         IN IF s[1] = 1 THEN <<1, s[2] - a[1] * d>> ELSE NoVal
    [] op = "cyl" ->
         LET s == SqVal(p[1] * p[1] + p[2] * p[2])
         IN IF s[1] = 0 THEN NoVal
            ELSE LET er == Max(s[2] - a[2] * d, 0)
                     ez == Max(Abs(p[3]) - a[1] * d, 0)
                 IN IF er > 0 \/ ez > 0 THEN SqVal(er * er + ez * ez)
                    ELSE <<1, -Min(a[2] * d - s[2], a[1] * d - Abs(p[3]))>>
    [] op \in {"tr2", "tr3"} -> Dist(k[1], Sub(p, a, d), d)
    [] op = "rot2" -> Dist(k[1], RotN(p, 4 - (a[1] % 4)), d)
    [] op = "rot3" -> Dist(k[1], RotAx(p, a[1], 4 - (a[2] % 4)), d)
    [] op = "mir2" -> Dist(k[1], Mir2(p, a[1]), d)
    [] op = "mir3" -> Dist(k[1], Mir3(p, a[1]), d)
    [] op \in {"scale2", "scale3"} -> Dist(k[1], p, d * a[1])
    [] op \in {"offset2", "offset3"} -> LET v == Dist(k[1], p, d) IN IF v[1] = 1 THEN <<1, v[2] - a[1] * d>> ELSE NoVal
    [] OTHER -> NoVal

\* ------------------------------------------------------------------ boxes
\* 2D: <<x0, y0, x1, y1>>, 3D: <<x0, y0, z0, x1, y1, z1>>, units 1/1024
Hull(b, c) == LET n == Len(b) \div 2 IN [i \in 1..(2 * n) |-> IF i <= n THEN Min(b[i], c[i]) ELSE Max(b[i], c[i])]
Shift(b, t) == LET n == Len(b) \div 2 IN [i \in 1..(2 * n) |-> b[i] + t[((i - 1) % n) + 1]]
Grow(b, g) == LET n == Len(b) \div 2 IN [i \in 1..(2 * n) |-> IF i <= n THEN b[i] - g ELSE b[i] + g]
Ordered(b) == LET n == Len(b) \div 2 IN \A i \in 1..n : b[i] <= b[i + n]
\* MulBox for a linear map given by the images of the unit vectors (columns), integer entries
MulBox2(cx, cy, b) ==
  LET xa == <<cx[1] * b[1], cx[2] * b[1]>>
      xb == <<cx[1] * b[3], cx[2] * b[3]>>
      ya == <<cy[1] * b[2], cy[2] * b[2]>>
      yb == <<cy[1] * b[4], cy[2] * b[4]>>
  IN <<Min(xa[1], xb[1]) + Min(ya[1], yb[1]), Min(xa[2], xb[2]) + Min(ya[2], yb[2]),
       Max(xa[1], xb[1]) + Max(ya[1], yb[1]), Max(xa[2], xb[2]) + Max(ya[2], yb[2])>>
MulBox3(cx, cy, cz, b) ==
  LET lo(i) == Min(cx[i] * b[1], cx[i] * b[4]) + Min(cy[i] * b[2], cy[i] * b[5]) + Min(cz[i] * b[3], cz[i] * b[6])
      hi(i) == Max(cx[i] * b[1], cx[i] * b[4]) + Max(cy[i] * b[2], cy[i] * b[5]) + Max(cz[i] * b[3], cz[i] * b[6])
  IN <<lo(1), lo(2), lo(3), hi(1), hi(2), hi(3)>>
SafeLen(x, y) == IF Abs(x) > 30000 \/ Abs(y) > 30000 THEN 60000 ELSE CeilSqrt(x * x + y * y)
\* largest distance of a corner of the 2D part of a box from the origin, rounded up
CornerR(b) == LET n == Len(b) \div 2
                  mx == Max(Abs(b[1]), Abs(b[1 + n]))
                  my == Max(Abs(b[2]), Abs(b[2 + n]))
              IN SafeLen(mx, my)

\* BB(e, safe): safe = FALSE: what the code computes today; TRUE: a sound enclosure (differs for twist)
RECURSIVE BB(_, _)
BB(e, safe) ==
  LET op == e.op
      a == e.a
      b == IF Len(e.k) >= 1 THEN BB(e.k[1], safe) ELSE <<>>
  IN
  CASE op = "box2" -> <<-a[1] * U, -a[2] * U, a[1] * U, a[2] * U>>
    [] op = "circle" -> <<-a[1] * U, -a[1] * U, a[1] * U, a[1] * U>>
    [] op = "box3" -> <<-a[1] * U, -a[2] * U, -a[3] * U, a[1] * U, a[2] * U, a[3] * U>>
    [] op = "sphere" -> <<-a[1] * U, -a[1] * U, -a[1] * U, a[1] * U, a[1] * U, a[1] * U>>
    [] op = "cyl" -> <<-a[2] * U, -a[2] * U, -a[1] * U, a[2] * U, a[2] * U, a[1] * U>>
    [] op \in {"tr2", "tr3"} -> Shift(b, [i \in 1..Len(a) |-> a[i] * U])
    [] op = "rot2" -> MulBox2(RotN(<<1, 0>>, a[1]), RotN(<<0, 1>>, a[1]), b)
    [] op = "mir2" -> MulBox2(Mir2(<<1, 0>>, a[1]), Mir2(<<0, 1>>, a[1]), b)
    [] op = "rot3" -> MulBox3(RotAx(<<1, 0, 0>>, a[1], a[2]), RotAx(<<0, 1, 0>>, a[1], a[2]), RotAx(<<0, 0, 1>>, a[1], a[2]), b)
    [] op = "mir3" -> MulBox3(Mir3(<<1, 0, 0>>, a[1]), Mir3(<<0, 1, 0>>, a[1]), Mir3(<<0, 0, 1>>, a[1]), b)
    [] op \in {"scale2", "scale3"} -> [i \in 1..Len(b) |-> a[1] * b[i]]
    [] op \in {"offset2", "offset3", "shell3"} -> Grow(b, a[1] * U)
    [] op \in {"cut2", "cut3", "diff2", "diff3", "inter2", "inter3"} -> b
    [] op \in {"union2", "union3"} -> Hull(b, BB(e.k[2], safe))
    [] op \in {"elong2", "elong3"} ->
         LET n == Len(b) \div 2 IN [i \in 1..(2 * n) |-> IF i <= n THEN b[i] - a[i] * U ELSE b[i] + a[i - n] * U]
    [] op = "array2" -> Hull(b, Shift(b, <<a[3] * (a[1] - 1) * U, a[4] * (a[2] - 1) * U>>))
    [] op = "array3" -> Hull(b, Shift(b, <<a[4] * (a[1] - 1) * U, a[5] * (a[2] - 1) * U, a[6] * (a[3] - 1) * U>>))
    [] op = "rotcopy2" -> LET r == CornerR(b) IN <<-r, -r, r, r>>
    [] op = "rotcopy3" -> LET r == CornerR(b) IN <<-r, -r, b[3], r, r, b[6]>>
    [] op = "slice2" ->
         IF a[4] = 1 THEN <<b[2] - a[2] * U, b[3] - a[3] * U, b[5] - a[2] * U, b[6] - a[3] * U>>
         ELSE IF a[4] = 2 THEN <<b[1] - a[1] * U, a[3] * U - b[6], b[4] - a[1] * U, a[3] * U - b[3]>>
         ELSE <<b[1] - a[1] * U, b[2] - a[2] * U, b[4] - a[1] * U, b[5] - a[2] * U>>
    [] op = "extrude" -> <<b[1], b[2], -a[1] * U, b[3], b[4], a[1] * U>>
    [] op = "twist" ->
         LET l == IF safe THEN CornerR(b) ELSE SafeLen(b[3], b[4])
         IN <<-l, -l, -a[1] * U, l, l, a[1] * U>>
    [] op = "revolve" ->
         LET l == Max(Abs(b[1]), Abs(b[3]))
         IN IF a[1] = 0 THEN <<-l, -l, b[2], l, l, b[4]>>
            ELSE IF a[1] = 1 THEN <<0, 0, b[2], l, l, b[4]>>
            ELSE IF a[1] = 2 THEN <<-l, 0, b[2], l, l, b[4]>>
            ELSE <<-l, -l, b[2], l, l, b[4]>>
BBcode(e) == BB(e, FALSE)
SafeBB(e) == BB(e, TRUE)

FloorDiv(x, m) == IF x >= 0 THEN x \div m ELSE -((-x + m - 1) \div m)
CeilDiv(x, m) == -FloorDiv(-x, m)
\* integer window: hull of both boxes, rounded outward, two cells larger
Window(e) ==
  LET h == Hull(BBcode(e), SafeBB(e))
      n == Len(h) \div 2
  IN [i \in 1..(2 * n) |-> IF i <= n THEN FloorDiv(h[i], U) - 2 ELSE CeilDiv(h[i], U) + 2]
WinPoints(w) == IF Len(w) = 4 THEN {<<x, y>> : x \in w[1]..w[3], y \in w[2]..w[4]}
                ELSE {<<x, y, z>> : x \in w[1]..w[4], y \in w[2]..w[5], z \in w[3]..w[6]}
WinCount(w) == IF Len(w) = 4 THEN (w[3] - w[1] + 1) * (w[4] - w[2] + 1)
               ELSE (w[4] - w[1] + 1) * (w[5] - w[2] + 1) * (w[6] - w[3] + 1)
\* scan order of the window (last coordinate fastest), 1-based
Idx(p, w) == IF Len(w) = 4 THEN (p[1] - w[1]) * (w[4] - w[2] + 1) + (p[2] - w[2]) + 1
             ELSE ((p[1] - w[1]) * (w[5] - w[2] + 1) + (p[2] - w[2])) * (w[6] - w[3] + 1) + (p[3] - w[3]) + 1
PointAt(i, w) == IF Len(w) = 4
                 THEN LET ny == w[4] - w[2] + 1 IN <<w[1] + ((i - 1) \div ny), w[2] + ((i - 1) % ny)>>
                 ELSE LET ny == w[5] - w[2] + 1
                          nz == w[6] - w[3] + 1
                      IN <<w[1] + ((i - 1) \div (ny * nz)), w[2] + (((i - 1) \div nz) % ny), w[3] + ((i - 1) % nz)>>
OnRing(p, w) == LET n == Len(p) IN \E i \in 1..n : p[i] = w[i] \/ p[i] = w[i + n]
\* lattice point (integer) inside a box given in 1/1024 units
InBB(p, b) == LET n == Len(p) IN \A i \in 1..n : b[i] <= p[i] * U /\ p[i] * U <= b[i + n]
\* the points of the window whose box membership is violated
Escapes(b, e, w) == {p \in WinPoints(w) : Cmp(e, p, 0, 1) = -1 /\ ~InBB(p, b)}
\* lattice neighbours used by the Lipschitz clauses: axis steps (|dp| = 1) and plane diagonals (|dp| = sqrt 2)
NeighDeltas(n) == IF n = 2 THEN {<<1, 0>>, <<0, 1>>, <<1, 1>>, <<1, -1>>}
                  ELSE {<<1, 0, 0>>, <<0, 1, 0>>, <<0, 0, 1>>, <<1, 1, 0>>, <<1, -1, 0>>}
AddV(p, dl) == [i \in 1..Len(p) |-> p[i] + dl[i]]
Norm2(dl) == IF Len(dl) = 2 THEN dl[1] * dl[1] + dl[2] * dl[2] ELSE dl[1] * dl[1] + dl[2] * dl[2] + dl[3] * dl[3]
InWin(p, w) == LET n == Len(p) IN \A i \in 1..n : w[i] <= p[i] /\ p[i] <= w[i + n]
Encloses(b, e, w) == Ordered(b) /\ Escapes(b, e, w) = {}
=============================================================================
