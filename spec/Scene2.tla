------------------------------- MODULE Scene2 -------------------------------
(* Two-dimensional exact lattice fields (see Scene3.tla).  Diagonal lines      *)
(* h = (7,7), k = 10 have gradient 0.98995.                                    *)
EXTENDS Integers, Sequences
Abs(x) == IF x < 0 THEN -x ELSE x
Max(a, b) == IF a > b THEN a ELSE b
Min(a, b) == IF a < b THEN a ELSE b
PartVal(pt, p) ==
  IF pt.kind = "box"
  THEN pt.w * Max(Abs(p[1] - pt.c[1]) - pt.h[1], Abs(p[2] - pt.c[2]) - pt.h[2])
  ELSE pt.h[1] * (p[1] - pt.c[1]) + pt.h[2] * (p[2] - pt.c[2])
RECURSIVE Acc(_, _, _)
Acc(parts, i, p) ==
  IF i = 1 THEN PartVal(parts[1], p)
  ELSE LET a == Acc(parts, i - 1, p)
           f == PartVal(parts[i], p)
       IN IF parts[i].op = "u" THEN Min(a, f)
          ELSE IF parts[i].op = "d" THEN Max(a, -f)
          ELSE Max(a, f)
Num(scene, p) == Acc(scene.parts, Len(scene.parts), p)
ClassOfVal(v) == IF v < 0 THEN 0 ELSE IF v = 0 THEN 2 ELSE 3
=============================================================================
