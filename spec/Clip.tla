--------------------------------- MODULE Clip ---------------------------------
(* The quadtree clipper of sdf/box2.go (Box2.lineIntersect, quad0..quad3) and   *)
(* the way qtBuild (sdf/mesh2.go) hands the segments of a node to its children, *)
(* in exact rational arithmetic on a lattice.                                   *)
(*                                                                              *)
(* A node box [0, 2K]^2 is split at K into four quadrants (sw, se, nw, ne).     *)
(* lineIntersect(box, segment) is the part of the segment inside the CLOSED     *)
(* box, with two ownership rules that make the four children partition every    *)
(* segment of the node:                                                         *)
(*   - a horizontal segment on the TOP edge of the box and a vertical segment   *)
(*     on its RIGHT edge do not belong to it (they belong to the neighbour);    *)
(*   - a part that is a single point is nothing.                                *)
(* Parameters t are fractions <<n, d>> with d > 0.                              *)
EXTENDS Integers, Sequences, FiniteSets

Frac(n, d) == IF d < 0 THEN <<0 - n, 0 - d>> ELSE <<n, d>>
FLess(a, b) == a[1] * b[2] < b[1] * a[2]
FEq(a, b) == a[1] * b[2] = b[1] * a[2]
FMax(a, b) == IF FLess(a, b) THEN b ELSE a
FMin(a, b) == IF FLess(a, b) THEN a ELSE b
FAdd(a, b) == <<a[1] * b[2] + b[1] * a[2], a[2] * b[2]>>
FSub(a, b) == <<a[1] * b[2] - b[1] * a[2], a[2] * b[2]>>
Zero == <<0, 1>>
One == <<1, 1>>

\* quadrant i of the node box [0,2K]^2 as <<xlo, ylo, xhi, yhi>>, in the order of qtNode.child
Quad(K, i) == CASE i = 0 -> <<0, 0, K, K>>
                [] i = 1 -> <<K, 0, 2 * K, K>>
                [] i = 2 -> <<0, K, K, 2 * K>>
                [] i = 3 -> <<K, K, 2 * K, 2 * K>>

\* one Liang-Barsky constraint p*t <= q applied to the interval <<t0, t1, alive>>
Cut(iv, p, q) ==
  IF ~iv[3] THEN iv
  ELSE IF p = 0 THEN <<iv[1], iv[2], q >= 0>>
  ELSE IF p < 0 THEN <<FMax(iv[1], Frac(q, p)), iv[2], TRUE>>
  ELSE <<iv[1], FMin(iv[2], Frac(q, p)), TRUE>>

\* the parameter interval of segment P -> Q inside the closed box b
Inside(b, P, Q) ==
  LET dx == Q[1] - P[1]
      dy == Q[2] - P[2]
      a == Cut(<<Zero, One, TRUE>>, 0 - dx, P[1] - b[1])
      c == Cut(a, dx, b[3] - P[1])
      e == Cut(c, 0 - dy, P[2] - b[2])
  IN Cut(e, dy, b[4] - P[2])

OnTop(b, P, Q) == P[2] = Q[2] /\ P[2] = b[4]
OnRight(b, P, Q) == P[1] = Q[1] /\ P[1] = b[3]

\* what lineIntersect returns: <<>> for nil, else <<t0, t1>> with t0 < t1
Piece(b, P, Q) ==
  LET iv == Inside(b, P, Q)
  IN IF OnTop(b, P, Q) \/ OnRight(b, P, Q) THEN <<>>
     ELSE IF ~iv[3] \/ ~FLess(iv[1], iv[2]) THEN <<>>
     ELSE <<iv[1], iv[2]>>

PieceLen(pc) == IF pc = <<>> THEN Zero ELSE FSub(pc[2], pc[1])

\* the four children of a node partition every segment of the node that the node owns
Covered(K, P, Q) ==
  LET s == FAdd(FAdd(PieceLen(Piece(Quad(K, 0), P, Q)), PieceLen(Piece(Quad(K, 1), P, Q))),
                FAdd(PieceLen(Piece(Quad(K, 2), P, Q)), PieceLen(Piece(Quad(K, 3), P, Q))))
  IN FEq(s, One)
Owned(K, P, Q) == ~OnTop(<<0, 0, 2 * K, 2 * K>>, P, Q) /\ ~OnRight(<<0, 0, 2 * K, 2 * K>>, P, Q)

\* bit i set <=> child i gets a piece
Pattern(K, P, Q) ==
  LET bit(i) == IF Piece(Quad(K, i), P, Q) = <<>> THEN 0 ELSE 1
  IN bit(0) + 2 * bit(1) + 4 * bit(2) + 8 * bit(3)
=============================================================================
