------------------------------- MODULE Scene3 -------------------------------
(* Integer-valued lattice fields with exact semantics (C06, C07).              *)
(* A scene is a record [parts, k]: parts is a sequence of                      *)
(*   [kind |-> "box",   c, h, w, op]  w * max_i(|p_i - c_i| - h_i)  (L-inf box)  *)
(*   [kind |-> "plane", c, h, w, op]  h . (p - c)                              *)
(* combined left to right with op "u" (min), "d" (max(acc, -f)), "i" (max);    *)
(* the field value is Num(scene, p) / k.  Boxes with w <= k and planes with     *)
(* |h|_2 <= k are 1-Lipschitz in the Euclidean norm ("never overestimate");    *)
(* min/max preserve that.  Diagonal planes h = (4,4,4), k = 7 have gradient    *)
(* 0.9897: they make the centre value of a cube whose far corner just touches  *)
(* the surface come within 1% of the half-diagonal - the tight case of the     *)
(* emptiness test that L-infinity boxes alone cannot reach.                    *)
EXTENDS Integers, Sequences

Abs(x) == IF x < 0 THEN -x ELSE x
Max(a, b) == IF a > b THEN a ELSE b
Min(a, b) == IF a < b THEN a ELSE b

PartVal(pt, p) ==
  IF pt.kind = "box"
  THEN pt.w * Max(Max(Abs(p[1] - pt.c[1]) - pt.h[1], Abs(p[2] - pt.c[2]) - pt.h[2]), Abs(p[3] - pt.c[3]) - pt.h[3])
  ELSE pt.h[1] * (p[1] - pt.c[1]) + pt.h[2] * (p[2] - pt.c[2]) + pt.h[3] * (p[3] - pt.c[3])

RECURSIVE Acc(_, _, _)
Acc(parts, i, p) ==
  IF i = 1 THEN PartVal(parts[1], p)
  ELSE LET a == Acc(parts, i - 1, p)
           f == PartVal(parts[i], p)
       IN IF parts[i].op = "u" THEN Min(a, f)
          ELSE IF parts[i].op = "d" THEN Max(a, -f)
          ELSE Max(a, f)
Num(scene, p) == Acc(scene.parts, Len(scene.parts), p)

\* class of a value as the renderer sees it (integers: within eps of 0 iff 0)
ClassOfVal(v) == IF v < 0 THEN 0 ELSE IF v = 0 THEN 2 ELSE 3
=============================================================================
