package main

// C17 - polygon builder replay: every program exported by PolyBuilderM.tla is run on the REAL
// sdf.NewPolygon()/Add/Rel/Polar/Smooth/Chamfer/Arc/Close/Reverse/Drop builder; each output vertex is
// measured against the corresponding ITEM of the model's expectation (exact point, exact circle, or the
// analytic fillet / arc computed here independently of the library).  Verdicts: spec/trace/PolyTrace.tla.

import (
	"encoding/json"
	"fmt"
	"math"

	"github.com/deadsy/sdfx/sdf"
	v2 "github.com/deadsy/sdfx/vec/v2"
)

type pvSpec struct {
	X   int    `json:"x"`
	Y   int    `json:"y"`
	Rel int    `json:"rel"`
	Pol int    `json:"pol"`
	K   string `json:"k"`
	R   int    `json:"r"`
	F   int    `json:"f"`
}

type polyProg struct {
	Vs     []pvSpec `json:"vs"`
	Closed bool     `json:"closed"`
	Rev    bool     `json:"rev"`
	Drop   bool     `json:"drop"`
}

type polyItem struct {
	T string `json:"t"`
	V []int  `json:"v"`
}

type c17PolyVec struct {
	Kind  string     `json:"kind"`
	Prog  *polyProg  `json:"prog,omitempty"`
	N     int        `json:"n,omitempty"`
	R     int        `json:"r,omitempty"`
	Exp   []polyItem `json:"exp"`
	Exact int        `json:"exact"`
}

type polyObs struct {
	Ev    string     `json:"ev"`
	Kind  string     `json:"kind"`
	Prog  *polyProg  `json:"prog,omitempty"`
	NG    int        `json:"ng"` // nagon: n
	RG    int        `json:"rg"` // nagon: r
	Exp   []polyItem `json:"exp"`
	Panic bool       `json:"panic"`
	N     int        `json:"n"`     // number of real output vertices
	NaN   int        `json:"nan"`   // vertices with a NaN / Inf coordinate
	D     []int64    `json:"d"`     // per output vertex: deviation from its item, 1e-12 units (saturating)
	Frac  []int64    `json:"frac"`  // per output vertex: position along its fillet / arc * 1e6 (-1: not applicable)
	Ctr   int64      `json:"ctr"`   // max | dist(analytic centre, edge line) - r | over the measured fillets (1e-12)
	Arcs  [][4]int   `json:"arcs"`  // per arc: program vertex, sign of r, side of the points, side of the centre
	First [][2]int64 `json:"first"` // first real vertices in 1e-6 units (for the report only)
}

func abs12(x float64) int64 {
	if math.IsNaN(x) || math.IsInf(x, 0) {
		return satMax
	}
	return sat12(math.Abs(x) * 1e12)
}

func cross2(a, b v2.Vec) float64 { return a.X*b.Y - a.Y*b.X }
func dot2(a, b v2.Vec) float64   { return a.X*b.X + a.Y*b.Y }
func unit2(a v2.Vec) v2.Vec {
	l := math.Hypot(a.X, a.Y)
	return v2.Vec{X: a.X / l, Y: a.Y / l}
}
func dist2(a, b v2.Vec) float64 { return math.Hypot(a.X-b.X, a.Y-b.Y) }

// angle between two vectors, 0..pi
func angle2(a, b v2.Vec) float64 { return math.Atan2(math.Abs(cross2(a, b)), dot2(a, b)) }

// fillet computes the analytic fillet of radius rho at corner v between the rays to a and b.
type filletGeo struct {
	t0, t1, c v2.Vec
	rho, d1   float64
	ctr       float64 // | dist(c, edge) - rho | (self check)
	theta     float64
}

func fillet(a, v, b v2.Vec, rho float64) filletGeo {
	u0 := unit2(v2.Vec{X: a.X - v.X, Y: a.Y - v.Y})
	u1 := unit2(v2.Vec{X: b.X - v.X, Y: b.Y - v.Y})
	cr := math.Abs(cross2(u0, u1))
	dt := dot2(u0, u1)
	th2 := math.Atan2(cr, 1+dt) // theta/2
	g := filletGeo{rho: rho, theta: 2 * th2}
	g.d1 = rho / math.Tan(th2)
	g.t0 = v2.Vec{X: v.X + g.d1*u0.X, Y: v.Y + g.d1*u0.Y}
	g.t1 = v2.Vec{X: v.X + g.d1*u1.X, Y: v.Y + g.d1*u1.Y}
	bis := unit2(v2.Vec{X: u0.X + u1.X, Y: u0.Y + u1.Y})
	d2 := rho / math.Sin(th2)
	g.c = v2.Vec{X: v.X + d2*bis.X, Y: v.Y + d2*bis.Y}
	cv := v2.Vec{X: g.c.X - v.X, Y: g.c.Y - v.Y}
	g.ctr = math.Max(math.Abs(math.Abs(cross2(cv, u0))-rho), math.Abs(math.Abs(cross2(cv, u1))-rho))
	return g
}

// arcGeo: the two circles of radius r through a and b
func arcCentres(a, b v2.Vec, r float64) (cl, cr v2.Vec, flat bool) {
	mid := v2.Vec{X: 0.5 * (a.X + b.X), Y: 0.5 * (a.Y + b.Y)}
	half := 0.5 * dist2(a, b)
	h2 := r*r - half*half
	if h2 < 0 {
		h2 = 0
	}
	h := math.Sqrt(h2)
	u := unit2(v2.Vec{X: b.X - a.X, Y: b.Y - a.Y})
	nl := v2.Vec{X: -u.Y, Y: u.X} // left normal of a->b
	cl = v2.Vec{X: mid.X + h*nl.X, Y: mid.Y + h*nl.Y}
	cr = v2.Vec{X: mid.X - h*nl.X, Y: mid.Y - h*nl.Y}
	return cl, cr, h < 1e-9*r
}

func sgnf(x, eps float64) int {
	if x > eps {
		return 1
	}
	if x < -eps {
		return -1
	}
	return 0
}

func progAbs(pr *polyProg) []v2.Vec {
	vs := pr.Vs
	if pr.Drop {
		vs = vs[:len(vs)-1]
	}
	out := make([]v2.Vec, len(vs))
	for i, s := range vs {
		var p v2.Vec
		if s.Pol == 1 {
			q := ((s.Y % 4) + 4) % 4
			cx := []float64{1, 0, -1, 0}[q]
			cy := []float64{0, 1, 0, -1}[q]
			p = v2.Vec{X: float64(s.X) * cx, Y: float64(s.X) * cy}
		} else {
			p = v2.Vec{X: float64(s.X), Y: float64(s.Y)}
		}
		if s.Rel == 1 && i > 0 {
			p = v2.Vec{X: p.X + out[i-1].X, Y: p.Y + out[i-1].Y}
		}
		out[i] = p
	}
	return out
}

// previewSafe: every smoothed / chamfered vertex needs at most 0.4 of each adjacent edge, so that the result does not
// depend on the order in which the vertices are processed (the library smooths in place, vertex by vertex: where two
// fillets compete for one edge the outcome legitimately depends on which was done first), and nothing is relative,
// dropped or reversed.
func previewSafe(pr *polyProg) bool {
	if pr.Drop || pr.Rev || len(pr.Vs) < 3 {
		return false
	}
	ab := progAbs(pr)
	n := len(ab)
	some := false
	for i, s := range pr.Vs {
		if s.Rel == 1 {
			return false
		}
		if s.K != "s" && s.K != "c" {
			continue
		}
		some = true
		a, v, b := ab[(i+n-1)%n], ab[i], ab[(i+1)%n]
		l0, l1 := dist2(a, v), dist2(b, v)
		if l0 == 0 || l1 == 0 {
			return false
		}
		g := fillet(a, v, b, float64(s.R))
		if !(g.d1 <= 0.4*math.Min(l0, l1)) {
			return false
		}
	}
	return some
}

// progScale: a third of the programs with a fillet or chamfer are built at 2^-20 of their size (edges of a few
// micrometres if the unit is a metre) and a sixth at 2^12; the output is scaled back (both exact in binary
// floating point), so the same expectations apply - a builder must not carry absolute length thresholds.
func progScale(pr *polyProg) float64 {
	h, some := len(pr.Vs), false
	for _, s := range pr.Vs {
		h = h*37 + s.X*11 + s.Y*5 + s.R*3 + s.F
		if s.K == "s" || s.K == "c" {
			some = true
		}
	}
	if h < 0 {
		h = -h
	}
	if !some {
		return 1
	}
	switch h % 6 {
	case 1, 4:
		return 1.0 / (1 << 20)
	case 2:
		return 1 << 12
	}
	return 1
}

func runProg(pr *polyProg) (vs []v2.Vec, panicked bool) {
	sc := progScale(pr)
	vs, panicked = runProgAt(pr, sc)
	if sc != 1 {
		for i := range vs {
			vs[i] = v2.Vec{X: vs[i].X / sc, Y: vs[i].Y / sc}
		}
	}
	return vs, panicked
}

func runProgAt(pr *polyProg, sc float64) (vs []v2.Vec, panicked bool) {
	defer func() {
		if r := recover(); r != nil {
			vs, panicked = nil, true
		}
	}()
	p := sdf.NewPolygon()
	for _, s := range pr.Vs {
		var pv *sdf.PolygonVertex
		if s.Pol == 1 {
			pv = p.Add(float64(s.X)*sc, float64(s.Y)*math.Pi/2).Polar()
		} else {
			pv = p.Add(float64(s.X)*sc, float64(s.Y)*sc)
		}
		if s.Rel == 1 {
			pv.Rel()
		}
		switch s.K {
		case "s":
			pv.Smooth(float64(s.R)*sc, s.F)
		case "c":
			pv.Chamfer(float64(s.R) * sc)
		case "a":
			pv.Arc(float64(s.R)*sc, s.F)
		}
	}
	if pr.Closed {
		// for half of the programs whose fillets / chamfers do not compete for an edge (see previewSafe) the outline is
		// converted once while it is still open (a preview) and closed afterwards: the final vertices are those of
		// the closed outline all the same
		h := len(pr.Vs)
		for _, s := range pr.Vs {
			h = h*31 + s.X*7 + s.Y*3 + s.F
		}
		if h < 0 {
			h = -h
		}
		if h%2 == 0 && previewSafe(pr) {
			p.Vertices()
		}
		p.Close()
	}
	if pr.Rev {
		p.Reverse()
	}
	if pr.Drop {
		p.Drop()
	}
	return p.Vertices(), false
}

func measurePoly(v c17PolyVec) polyObs {
	o := polyObs{Ev: "poly", Kind: v.Kind, Prog: v.Prog, Exp: v.Exp, D: []int64{}, Frac: []int64{}, Arcs: [][4]int{}, First: [][2]int64{}}
	var vs []v2.Vec
	var ab []v2.Vec
	if v.Kind == "nagon" {
		o.NG, o.RG = v.N, v.R
		func() {
			defer func() {
				if r := recover(); r != nil {
					o.Panic = true
				}
			}()
			vs = sdf.Nagon(v.N, float64(v.R))
		}()
	} else {
		vs, o.Panic = runProg(v.Prog)
		ab = progAbs(v.Prog)
	}
	o.N = len(vs)
	for i, p := range vs {
		if math.IsNaN(p.X) || math.IsNaN(p.Y) || math.IsInf(p.X, 0) || math.IsInf(p.Y, 0) {
			o.NaN++
		}
		if i < 8 {
			o.First = append(o.First, [2]int64{int64(math.Round(p.X * 1e6)), int64(math.Round(p.Y * 1e6))})
		}
	}
	if o.Panic || o.N != len(v.Exp) {
		return o
	}
	n := len(ab)
	prev := func(i int) int { // 1-based program indices
		if i > 1 {
			return i - 1
		}
		if v.Prog.Closed {
			return n
		}
		return 0
	}
	next := func(i int) int {
		if i < n {
			return i + 1
		}
		if v.Prog.Closed {
			return 1
		}
		return 0
	}
	// arcs: choose the centre that fits all inserted points of the arc best
	type arcInfo struct {
		c            v2.Vec
		a, b         v2.Vec
		pside, cside int
		mixed        bool
		seen         bool
	}
	arcs := map[int]*arcInfo{}
	for k, it := range v.Exp {
		if it.T != "a" {
			continue
		}
		i := it.V[0]
		ai, ok := arcs[i]
		if !ok {
			ai = &arcInfo{a: ab[prev(i)-1], b: ab[i-1]}
			r := math.Abs(float64(v.Prog.Vs[i-1].R))
			cl, cr, flat := arcCentres(ai.a, ai.b, r)
			devL, devR := 0.0, 0.0
			for k2, it2 := range v.Exp {
				if it2.T == "a" && it2.V[0] == i {
					devL = math.Max(devL, math.Abs(dist2(vs[k2], cl)-r))
					devR = math.Max(devR, math.Abs(dist2(vs[k2], cr)-r))
				}
			}
			ai.c, ai.cside = cl, 1
			if devR < devL {
				ai.c, ai.cside = cr, -1
			}
			if flat {
				ai.cside = 0
			}
			arcs[i] = ai
		}
		ch := v2.Vec{X: ai.b.X - ai.a.X, Y: ai.b.Y - ai.a.Y}
		s := sgnf(cross2(ch, v2.Vec{X: vs[k].X - ai.a.X, Y: vs[k].Y - ai.a.Y}), 1e-9)
		if !ai.seen {
			ai.pside, ai.seen = s, true
		} else if s != ai.pside {
			ai.mixed = true
		}
	}
	for k, it := range v.Exp {
		p := vs[k]
		d, fr := int64(0), int64(-1)
		switch it.T {
		case "p":
			d = abs12(dist2(p, v2.Vec{X: float64(it.V[0]) / 2, Y: float64(it.V[1]) / 2}))
		case "c":
			c := v2.Vec{X: float64(it.V[0]) / 2, Y: float64(it.V[1]) / 2}
			d = abs12(dist2(p, c) - float64(it.V[2])/2)
			// position along the quarter arc: needs the tangent points = the neighbouring "p" items
			lo, hi := k, k
			for lo > 0 && v.Exp[lo].T == "c" {
				lo--
			}
			for hi < len(v.Exp)-1 && v.Exp[hi].T == "c" {
				hi++
			}
			a0 := v2.Vec{X: vs[lo].X - c.X, Y: vs[lo].Y - c.Y}
			a1 := v2.Vec{X: vs[hi].X - c.X, Y: vs[hi].Y - c.Y}
			fr = int64(math.Round(angle2(a0, v2.Vec{X: p.X - c.X, Y: p.Y - c.Y}) / angle2(a0, a1) * 1e6))
		case "m":
			i, j, f := it.V[0], it.V[1], it.V[2]
			s := v.Prog.Vs[i-1]
			rho := float64(s.R)
			if s.K == "c" {
				rho = float64(s.R) * math.Sqrt(0.5)
			}
			g := fillet(ab[prev(i)-1], ab[i-1], ab[next(i)-1], rho)
			if c := abs12(g.ctr); c > o.Ctr {
				o.Ctr = c
			}
			switch j {
			case 0:
				d = abs12(dist2(p, g.t0))
			case f:
				d = abs12(dist2(p, g.t1))
			default:
				d = abs12(dist2(p, g.c) - rho)
			}
			a0 := v2.Vec{X: g.t0.X - g.c.X, Y: g.t0.Y - g.c.Y}
			a1 := v2.Vec{X: g.t1.X - g.c.X, Y: g.t1.Y - g.c.Y}
			fr = int64(math.Round(angle2(a0, v2.Vec{X: p.X - g.c.X, Y: p.Y - g.c.Y}) / angle2(a0, a1) * 1e6))
		case "a":
			ai := arcs[it.V[0]]
			r := math.Abs(float64(v.Prog.Vs[it.V[0]-1].R))
			d = abs12(dist2(p, ai.c) - r)
			a0 := v2.Vec{X: ai.a.X - ai.c.X, Y: ai.a.Y - ai.c.Y}
			a1 := v2.Vec{X: ai.b.X - ai.c.X, Y: ai.b.Y - ai.c.Y}
			fr = int64(math.Round(angle2(a0, v2.Vec{X: p.X - ai.c.X, Y: p.Y - ai.c.Y}) / angle2(a0, a1) * 1e6))
		}
		o.D = append(o.D, d)
		o.Frac = append(o.Frac, fr)
	}
	for i := 1; i <= n; i++ {
		if ai, ok := arcs[i]; ok {
			ps := ai.pside
			if ai.mixed {
				ps = 0
			}
			sr := 1
			if v.Prog.Vs[i-1].R < 0 {
				sr = -1
			}
			o.Arcs = append(o.Arcs, [4]int{i, sr, ps, ai.cside})
		}
	}
	return o
}

func c17Replay(args []string) error {
	n := 0
	readVectors("-", func(raw json.RawMessage) {
		var v c17PolyVec
		if err := json.Unmarshal(raw, &v); err != nil {
			fatal("bad vector: %v", err)
		}
		if v.Kind != "nagon" && (v.Prog == nil || len(v.Prog.Vs) == 0) {
			fatal("bad vector: no program")
		}
		emit(measurePoly(v))
		n++
	})
	if n == 0 {
		return fmt.Errorf("no vectors")
	}
	return nil
}

func init() { register("c17-replay", c17Replay) }
