package main

import (
	"encoding/json"
	"fmt"
	"math"
	"sync/atomic"

	"github.com/deadsy/sdfx/render"
	"github.com/deadsy/sdfx/sdf"
	v2 "github.com/deadsy/sdfx/vec/v2"
)

// collectLines runs a 2D renderer through the real Line2Buffer into an in-memory list.
func collectLines(s sdf.SDF2, r render.Render2) []*sdf.Line2 {
	// a legitimate but unforgiving consumer: buffered channel, and every received batch is kept
	// untouched until the renderer has finished (the receiver owns what it received)
	ch := make(chan []*sdf.Line2, 8)
	done := make(chan struct{})
	var keep [][]*sdf.Line2
	go func() {
		for ls := range ch {
			keep = append(keep, ls)
		}
		close(done)
	}()
	r.Render(s, sdf.NewLine2Buffer(ch))
	close(ch)
	<-done
	var all []*sdf.Line2
	for _, b := range keep {
		all = append(all, b...)
	}
	return all
}

type lineObs struct {
	Ev      string   `json:"ev"`
	R       string   `json:"r"`
	Dims    []int    `json:"dims,omitempty"`
	Base    int      `json:"base,omitempty"`
	Code    int64    `json:"code"`
	Aligned bool     `json:"aligned"`
	Ns      int      `json:"ns"`
	Segs    [][2]int `json:"segs"`
	Pos     [][2]int `json:"pos"`
	Area    int64    `json:"area"` // measured 2*area in doubled cell units
	Off     int64    `json:"off"`
	Evals   int64    `json:"evals"`
	Outside int      `json:"outside"`
	Name    string   `json:"name,omitempty"`
}

func projectLines(ls []*sdf.Line2, origin v2.Vec, cell float64, lo, hi [2]float64) lineObs {
	vi := newVertexIndex(1e-6)
	o := lineObs{Ev: "lines2", Aligned: true, Segs: [][2]int{}, Pos: [][2]int{}}
	area := 0.0
	for _, l := range ls {
		var ids [2]int
		var q [2][3]float64
		for j := 0; j < 2; j++ {
			q[j] = [3]float64{(l[j].X - origin.X) / cell, (l[j].Y - origin.Y) / cell, 0}
			ids[j] = vi.id(q[j]) + 1
			for a := 0; a < 2; a++ {
				if q[j][a] < lo[a]-1e-9 || q[j][a] > hi[a]+1e-9 {
					o.Outside++
				}
			}
		}
		o.Segs = append(o.Segs, ids)
		area += 4 * (q[0][0]*q[1][1] - q[0][1]*q[1][0])
	}
	for _, p := range vi.pts {
		var ip [2]int
		for a := 0; a < 2; a++ {
			d := 2 * p[a]
			r := math.Round(d)
			if math.Abs(d-r) > 1e-9 {
				o.Aligned = false
			}
			ip[a] = int(r)
		}
		o.Pos = append(o.Pos, ip)
	}
	if !o.Aligned {
		o.Pos = [][2]int{}
	}
	o.Ns = len(ls)
	if math.Abs(area) > 1e9 {
		area = math.Copysign(1e9, area)
	}
	o.Area = int64(math.Round(area))
	return o
}

func worldField2(w worldVec, quad bool) (*field2, int) {
	n, cls := decodeWorld(w.Code, w.Base, w.Dims)
	f := &field2{n: [2]int{n[0], n[1]}, h: 1}
	f.val = make([]float64, len(cls))
	for i, c := range cls {
		f.val[i] = classVal[c]
	}
	if quad {
		f.h = 2
		f.half = true
		m := float64(maxi(w.Dims...) + 1)
		f.bb = sdf.NewBox2(v2.Vec{X: 1.01 * m, Y: 1.01 * m}, v2.Vec{X: 2 * m, Y: 2 * m})
		return f, int(m)
	}
	a, b := float64(w.Dims[0]+1), float64(w.Dims[1]+1)
	f.bb = sdf.NewBox2(v2.Vec{X: a / 2, Y: b / 2}, v2.Vec{X: a / 1.01, Y: b / 1.01})
	return f, maxi(w.Dims...)
}

func renderWorld2(w worldVec, which string) lineObs {
	var f *field2
	var mc int
	var r render.Render2
	cell := 1.0
	switch which {
	case "msu":
		f, mc = worldField2(w, false)
		r = render.NewMarchingSquaresUniform(mc)
	case "msq":
		f, mc = worldField2(w, true)
		r = render.NewMarchingSquaresQuadtree(mc)
		cell = 2
	default:
		fatal("renderer %q", which)
	}
	ls := collectLines(f, r)
	hi := [2]float64{float64(w.Dims[0] + 1), float64(w.Dims[1] + 1)}
	o := projectLines(ls, v2.Vec{}, cell, [2]float64{0, 0}, hi)
	o.R, o.Dims, o.Base, o.Code = which, w.Dims, w.Base, w.Code
	o.Off = atomic.LoadInt64(&f.off)
	o.Evals = atomic.LoadInt64(&f.evals)
	if o.Off != 0 {
		o.Aligned = false
		o.Pos = [][2]int{}
	}
	return o
}

func c08Replay(args []string) error {
	which := []string{"msu", "msq"}
	if len(args) > 0 {
		which = args
	}
	n := 0
	readVectors("-", func(raw json.RawMessage) {
		var w worldVec
		if err := json.Unmarshal(raw, &w); err != nil {
			fatal("bad vector: %v", err)
		}
		for _, r := range which {
			emit(renderWorld2(w, r))
		}
		n++
	})
	if n == 0 {
		return fmt.Errorf("no vectors")
	}
	return nil
}

func init() { register("c08-replay", c08Replay) }
