package main

// Independent readers of the files the library writes (trusted base of the harness).

import (
	"bytes"
	"encoding/binary"
	"encoding/xml"
	"fmt"
	"io"
	"math"
	"os"
	"strconv"

	"github.com/hpinc/go3mf"
	"github.com/yofu/dxf"
	"github.com/yofu/dxf/entity"
)

type stlRecord struct {
	Normal [3]float32
	V      [3][3]float32
	Attr   uint16
}

// parseSTLBinary reads a binary STL with our own little-endian reader.
func parseSTLBinary(b []byte) (count uint32, recs []stlRecord, err error) {
	if len(b) < 84 {
		return 0, nil, fmt.Errorf("short file: %d bytes", len(b))
	}
	count = binary.LittleEndian.Uint32(b[80:84])
	body := b[84:]
	if len(body)%50 != 0 {
		return count, nil, fmt.Errorf("body length %d is not a multiple of 50", len(body))
	}
	n := len(body) / 50
	f := func(o int) float32 { return math.Float32frombits(binary.LittleEndian.Uint32(body[o : o+4])) }
	for i := 0; i < n; i++ {
		o := i * 50
		var r stlRecord
		for a := 0; a < 3; a++ {
			r.Normal[a] = f(o + 4*a)
		}
		for v := 0; v < 3; v++ {
			for a := 0; a < 3; a++ {
				r.V[v][a] = f(o + 12 + 12*v + 4*a)
			}
		}
		r.Attr = binary.LittleEndian.Uint16(body[o+48 : o+50])
		recs = append(recs, r)
	}
	return count, recs, nil
}

func readSTLItems(path string) ([]int, int, error) {
	b, err := os.ReadFile(path)
	if err != nil {
		return nil, 0, err
	}
	count, recs, err := parseSTLBinary(b)
	items := []int{}
	for _, r := range recs {
		items = append(items, int(r.V[0][0]))
	}
	return items, int(count), err
}

func read3MFItems(path string) ([]int, error) {
	r, err := go3mf.OpenReader(path)
	if err != nil {
		return nil, err
	}
	defer r.Close()
	var m go3mf.Model
	if err := r.Decode(&m); err != nil {
		return nil, err
	}
	items := []int{}
	for _, o := range m.Resources.Objects {
		if o.Mesh == nil {
			continue
		}
		for _, t := range o.Mesh.Triangles.Triangle {
			items = append(items, int(o.Mesh.Vertices.Vertex[t.V1].X()))
		}
	}
	return items, nil
}

func readDXFLines(path string) ([][4]float64, []string, error) {
	d, err := dxf.Open(path)
	if err != nil {
		return nil, nil, err
	}
	var ls [][4]float64
	var layers []string
	for _, e := range d.Entities() {
		if l, ok := e.(*entity.Line); ok {
			ls = append(ls, [4]float64{l.Start[0], l.Start[1], l.End[0], l.End[1]})
			name := ""
			if l.Layer() != nil {
				name = l.Layer().Name()
			}
			layers = append(layers, name)
		}
	}
	return ls, layers, nil
}

func readDXFItems(path string) ([]int, error) {
	ls, _, err := readDXFLines(path)
	items := []int{}
	for _, l := range ls {
		items = append(items, int(math.Round(l[0])))
	}
	return items, err
}

type svgLine struct {
	X1 string `xml:"x1,attr"`
	Y1 string `xml:"y1,attr"`
	X2 string `xml:"x2,attr"`
	Y2 string `xml:"y2,attr"`
}

type svgDoc struct {
	Width  string    `xml:"width,attr"`
	Height string    `xml:"height,attr"`
	Lines  []svgLine `xml:"line"`
}

func readSVG(path string) (*svgDoc, error) {
	b, err := os.ReadFile(path)
	if err != nil {
		return nil, err
	}
	var d svgDoc
	dec := xml.NewDecoder(bytes.NewReader(b))
	if err := dec.Decode(&d); err != nil {
		return nil, err
	}
	// nothing but white space may follow the root element (the stale tail of an earlier, longer file would)
	for {
		tok, err := dec.Token()
		if err == io.EOF {
			break
		}
		if err != nil {
			return nil, fmt.Errorf("after the root element: %v", err)
		}
		switch t := tok.(type) {
		case xml.CharData:
			if len(bytes.TrimSpace(t)) > 0 {
				return nil, fmt.Errorf("text after the root element")
			}
		case xml.Comment:
		default:
			return nil, fmt.Errorf("markup after the root element")
		}
	}
	return &d, nil
}

// readSVGItems: the drawing is translated so that the minimum x is 0; the items are numbered from the
// first item of the run (the harness numbers items consecutively from 1), so item = x1 + 1.
func readSVGItems(path string) ([]int, error) {
	d, err := readSVG(path)
	if err != nil {
		return nil, err
	}
	items := []int{}
	for _, l := range d.Lines {
		x, err := strconv.ParseFloat(l.X1, 64)
		if err != nil {
			return items, err
		}
		items = append(items, int(math.Round(x))+1)
	}
	return items, nil
}

// read3MFContent decodes a 3MF file and returns its content as integers: unit, object count, and for
// each object the vertex coordinates (float32 bit patterns) and triangle indices, in file order.
func read3MFContent(path string) ([]int, error) {
	r, err := go3mf.OpenReader(path)
	if err != nil {
		return nil, err
	}
	defer r.Close()
	var m go3mf.Model
	if err := r.Decode(&m); err != nil {
		return nil, err
	}
	out := []int{int(m.Units), len(m.Resources.Objects), len(m.Build.Items)}
	for _, o := range m.Resources.Objects {
		if o.Mesh == nil {
			continue
		}
		for _, v := range o.Mesh.Vertices.Vertex {
			out = append(out, int(math.Float32bits(v.X())), int(math.Float32bits(v.Y())), int(math.Float32bits(v.Z())))
		}
		for _, t := range o.Mesh.Triangles.Triangle {
			out = append(out, int(t.V1), int(t.V2), int(t.V3))
		}
	}
	return out, nil
}
