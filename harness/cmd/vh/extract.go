package main

import (
	"fmt"
	"os"
	"path/filepath"
	"strings"

	"github.com/deadsy/sdfx/render"
	"github.com/deadsy/sdfx/sdf"
)

func tlaSeqInts(xs []int) string {
	s := make([]string, len(xs))
	for i, x := range xs {
		s[i] = fmt.Sprint(x)
	}
	return "<<" + strings.Join(s, ", ") + ">>"
}

// extract writes generated TLA+ data modules (tables and constants of the tree under test).
func extract(args []string) error {
	if len(args) < 1 {
		return fmt.Errorf("usage: extract <dir>")
	}
	dir := args[0]
	// marching cubes
	edge, pair, tri := render.VerifMcTables()
	var b strings.Builder
	b.WriteString("---- MODULE MCData ----\n\\* generated from the tree under test by `vh extract`\n")
	b.WriteString("mcEdge == " + tlaSeqInts(edge[:]) + "\n")
	ps := []string{}
	for _, p := range pair {
		ps = append(ps, tlaSeqInts(p[:]))
	}
	b.WriteString("mcPair == <<" + strings.Join(ps, ", ") + ">>\n")
	ts := []string{}
	for _, t := range tri {
		ts = append(ts, tlaSeqInts(t))
	}
	b.WriteString("mcTri == <<" + strings.Join(ts, ",\n  ") + ">>\n====\n")
	if err := os.WriteFile(filepath.Join(dir, "MCData.tla"), []byte(b.String()), 0644); err != nil {
		return err
	}
	// marching squares
	e2, p2, l2 := render.VerifMsTables()
	b.Reset()
	b.WriteString("---- MODULE MSData ----\n\\* generated from the tree under test by `vh extract`\n")
	b.WriteString("msEdge == " + tlaSeqInts(e2[:]) + "\n")
	ps = ps[:0]
	for _, p := range p2 {
		ps = append(ps, tlaSeqInts(p[:]))
	}
	b.WriteString("msPair == <<" + strings.Join(ps, ", ") + ">>\n")
	ts = ts[:0]
	for _, t := range l2 {
		ts = append(ts, tlaSeqInts(t))
	}
	b.WriteString("msLine == <<" + strings.Join(ts, ", ") + ">>\n====\n")
	if err := os.WriteFile(filepath.Join(dir, "MSData.tla"), []byte(b.String()), 0644); err != nil {
		return err
	}
	// constants
	b.Reset()
	b.WriteString("---- MODULE CodeConsts ----\n\\* generated from the tree under test by `vh extract`\n")
	fmt.Fprintf(&b, "TBufferSize == %d\nTBufferMargin == %d\nLBufferSize == %d\nLBufferMargin == %d\n",
		sdf.VerifTBufferSize, sdf.VerifTBufferMargin, sdf.VerifLBufferSize, sdf.VerifLBufferMargin)
	fmt.Fprintf(&b, "QtMaxLevel == %d\nEvalChanCap == %d\n", sdf.VerifQtMaxLevel, render.VerifEvalChanCap())
	b.WriteString("====\n")
	return os.WriteFile(filepath.Join(dir, "CodeConsts.tla"), []byte(b.String()), 0644)
}

func init() { register("extract", extract) }
