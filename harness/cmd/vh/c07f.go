package main

// C07, full-lattice reference: the lattice of the hierarchical renderers is rebuilt here (padded box, half
// resolution, number of levels) and EVERY finest cell is given to the real per-cell routines (msToLines /
// mcToTriangles, read-only exports under the verif tag), whatever the distance field says about emptiness.
// The hierarchical output must be that multiset.  Unlike the f/1024 reference this one does not change the
// field values, so it also serves where absolute thresholds of the per-cell routines matter (surfaces within
// 1e-12 .. 1e-8 of a lattice point).  Vertices are compared after rounding to 2^-20 of a half cell.

import (
	"math"

	"github.com/deadsy/sdfx/render"
	"github.com/deadsy/sdfx/sdf"
	v2 "github.com/deadsy/sdfx/vec/v2"
	v3 "github.com/deadsy/sdfx/vec/v3"
)

func flatLines(s sdf.SDF2, cells int) (ls []*sdf.Line2, origin v2.Vec, res float64) {
	bb0 := s.BoundingBox()
	size := bb0.Size()
	res = size.MaxComponent() / float64(cells)
	bb := bb0.ScaleAboutCenter(1.01)
	long := bb.Size().MaxComponent()
	res *= 0.5
	levels := int(math.Ceil(math.Log2(long/res))) + 1
	n := 1 << (levels - 1) // side of the top square in half cells
	origin = bb.Min
	val := make([]float64, (n+1)*(n+1))
	pos := func(i, j int) v2.Vec { return v2.Vec{X: origin.X + float64(i)*res, Y: origin.Y + float64(j)*res} }
	for j := 0; j <= n; j += 2 {
		for i := 0; i <= n; i += 2 {
			val[j*(n+1)+i] = s.Evaluate(pos(i, j))
		}
	}
	for j := 0; j < n; j += 2 {
		for i := 0; i < n; i += 2 {
			p := [4]v2.Vec{pos(i, j), pos(i+2, j), pos(i+2, j+2), pos(i, j+2)}
			v := [4]float64{val[j*(n+1)+i], val[j*(n+1)+i+2], val[(j+2)*(n+1)+i+2], val[(j+2)*(n+1)+i]}
			ls = append(ls, render.VerifMsToLines(p, v, 0)...)
		}
	}
	return ls, origin, res
}

func flatTris(s sdf.SDF3, cells int) (ts []*sdf.Triangle3, origin v3.Vec, res float64) {
	bb0 := s.BoundingBox()
	size := bb0.Size()
	res = size.MaxComponent() / float64(cells)
	bb := bb0.ScaleAboutCenter(1.01)
	long := bb.Size().MaxComponent()
	res *= 0.5
	levels := int(math.Ceil(math.Log2(long/res))) + 1
	n := 1 << (levels - 1)
	origin = bb.Min
	m := n/2 + 1
	val := make([]float64, m*m*m)
	pos := func(i, j, k int) v3.Vec {
		return v3.Vec{X: origin.X + float64(i)*res, Y: origin.Y + float64(j)*res, Z: origin.Z + float64(k)*res}
	}
	at := func(i, j, k int) float64 { return val[(k/2*m+j/2)*m+i/2] }
	for k := 0; k <= n; k += 2 {
		for j := 0; j <= n; j += 2 {
			for i := 0; i <= n; i += 2 {
				val[(k/2*m+j/2)*m+i/2] = s.Evaluate(pos(i, j, k))
			}
		}
	}
	for k := 0; k < n; k += 2 {
		for j := 0; j < n; j += 2 {
			for i := 0; i < n; i += 2 {
				p := [8]v3.Vec{pos(i, j, k), pos(i+2, j, k), pos(i+2, j+2, k), pos(i, j+2, k),
					pos(i, j, k+2), pos(i+2, j, k+2), pos(i+2, j+2, k+2), pos(i, j+2, k+2)}
				v := [8]float64{at(i, j, k), at(i+2, j, k), at(i+2, j+2, k), at(i, j+2, k),
					at(i, j, k+2), at(i+2, j, k+2), at(i+2, j+2, k+2), at(i, j+2, k+2)}
				ts = append(ts, render.VerifMcToTriangles(p, v, 0)...)
			}
		}
	}
	return ts, origin, res
}

func q20(x, o, res float64) int64 { return int64(math.Round((x - o) / res * (1 << 20))) }

func lineDiffQ(a, b []*sdf.Line2, o v2.Vec, res float64) int {
	m := map[[4]int64]int{}
	key := func(l *sdf.Line2) [4]int64 {
		return [4]int64{q20(l[0].X, o.X, res), q20(l[0].Y, o.Y, res), q20(l[1].X, o.X, res), q20(l[1].Y, o.Y, res)}
	}
	for _, l := range a {
		m[key(l)]++
	}
	for _, l := range b {
		m[key(l)]--
	}
	d := 0
	for _, n := range m {
		if n < 0 {
			n = -n
		}
		d += n
	}
	return d
}

func triDiffQ(a, b []*sdf.Triangle3, o v3.Vec, res float64) int {
	m := map[[9]int64]int{}
	key := func(t *sdf.Triangle3) [9]int64 {
		var k [9]int64
		for i := 0; i < 3; i++ {
			k[3*i], k[3*i+1], k[3*i+2] = q20(t[i].X, o.X, res), q20(t[i].Y, o.Y, res), q20(t[i].Z, o.Z, res)
		}
		return k
	}
	for _, t := range a {
		m[key(t)]++
	}
	for _, t := range b {
		m[key(t)]--
	}
	d := 0
	for _, n := range m {
		if n < 0 {
			n = -n
		}
		d += n
	}
	return d
}

func hier2flat(name, param string, s sdf.SDF2, cells int) hierObs {
	a := collectLines(s, render.NewMarchingSquaresQuadtree(cells))
	b, o, res := flatLines(s, cells)
	return hierObs{Ev: "hier", Name: name, Dim: 2, Cells: cells, N: len(a), NFlat: len(b), Diff: lineDiffQ(a, b, o, res), Param: param}
}

func hier3flat(name, param string, s sdf.SDF3, cells int) hierObs {
	a := render.ToTriangles(s, render.NewMarchingCubesOctree(cells))
	b, o, res := flatTris(s, cells)
	return hierObs{Ev: "hier", Name: name, Dim: 3, Cells: cells, N: len(a), NFlat: len(b), Diff: triDiffQ(a, b, o, res), Param: param}
}

// discGrid: n x n discs of radius r at pitch 1 (exact Euclidean distance outside the discs).
type discGrid struct {
	n int
	r float64
}

func (g discGrid) Evaluate(p v2.Vec) float64 {
	cl := func(x float64) float64 { return math.Max(0, math.Min(float64(g.n-1), math.Round(x))) }
	return p.Sub(v2.Vec{X: cl(p.X), Y: cl(p.Y)}).Length() - g.r
}
func (g discGrid) BoundingBox() sdf.Box2 {
	return sdf.Box2{Min: v2.Vec{X: -g.r, Y: -g.r}, Max: v2.Vec{X: float64(g.n-1) + g.r, Y: float64(g.n-1) + g.r}}
}

// dots: small discs / balls (exact distance to their union outside them) with a box chosen by the harness
type dots2 struct {
	c  []v2.Vec
	r  float64
	bb sdf.Box2
}

func (d dots2) Evaluate(p v2.Vec) float64 {
	m := math.Inf(1)
	for _, c := range d.c {
		m = math.Min(m, p.Sub(c).Length()-d.r)
	}
	return m
}
func (d dots2) BoundingBox() sdf.Box2 { return d.bb }

type dots3 struct {
	c  []v3.Vec
	r  float64
	bb sdf.Box3
}

func (d dots3) Evaluate(p v3.Vec) float64 {
	m := math.Inf(1)
	for _, c := range d.c {
		m = math.Min(m, p.Sub(c).Length()-d.r)
	}
	return m
}
func (d dots3) BoundingBox() sdf.Box3 { return d.bb }

func c07FlatScenes() {
	// a long outline at high resolution: tens of thousands of segments in every quadrant of the top square
	big := 1000
	if tier() == "thorough" {
		big = 1500
	}
	emit(hier2flat("flat:disc-grid", fmtf(32, float64(big)), discGrid{32, 0.3}, big))
	emit(hier2flat("flat:disc-grid", fmtf(20, 300), discGrid{20, 0.35}, 300))
	// features thinner than a cell that meet diagonally: small discs / balls ON lattice points, at opposite corners
	// of a finest cell (both diagonals), at neighbouring corners, and alone
	{
		cells := 16
		bb := sdf.Box2{Min: v2.Vec{X: -1, Y: -1}, Max: v2.Vec{X: 1, Y: 1}}
		probe := dots2{bb: bb}
		_, o, res := flatLines(probe, cells)
		at := func(i, j int) v2.Vec { return v2.Vec{X: o.X + float64(i)*res, Y: o.Y + float64(j)*res} }
		for _, r := range []float64{0.03, 0.05, 0.012} {
			d := dots2{r: r, bb: bb, c: []v2.Vec{at(20, 12), at(22, 14), at(8, 10), at(10, 8), at(14, 24), at(16, 24), at(26, 26),
				at(6, 20), at(8, 22), at(10, 24)}}
			emit(hier2flat("flat:diagonal-dots", fmtf(r), d, cells))
		}
		bb3 := sdf.Box3{Min: v3.Vec{X: -1, Y: -1, Z: -1}, Max: v3.Vec{X: 1, Y: 1, Z: 1}}
		_, o3, res3 := flatTris(dots3{bb: bb3}, cells)
		at3 := func(i, j, k int) v3.Vec {
			return v3.Vec{X: o3.X + float64(i)*res3, Y: o3.Y + float64(j)*res3, Z: o3.Z + float64(k)*res3}
		}
		for _, r := range []float64{0.03, 0.05} {
			d := dots3{r: r, bb: bb3, c: []v3.Vec{at3(20, 12, 16), at3(22, 14, 16), at3(8, 10, 8), at3(10, 8, 10), at3(14, 24, 20),
				at3(16, 26, 22), at3(26, 26, 26), at3(6, 20, 12), at3(8, 20, 12)}}
			emit(hier3flat("flat:diagonal-dots", fmtf(r), d, cells))
		}
		// the surface clips a lattice point by 1e-12 .. 1e-7 of the half cell (inside and outside)
		for _, e := range []float64{1e-12, 1e-11, 1e-10, 1e-9, 1e-8, 1e-7, -1e-10, -1e-8} {
			corner := at3(20, 20, 20)
			c := v3.Vec{X: 0.05, Y: -0.03, Z: 0.02}
			b := ball3{c, corner.Sub(c).Length() + e*res3, bb3}
			emit(hier3flat("flat:corner-clip", fmtf(e), b, cells))
			c2 := at(20, 20)
			cc := v2.Vec{X: 0.05, Y: -0.03}
			emit(hier2flat("flat:corner-clip", fmtf(e), disc2{cc, c2.Sub(cc).Length() + e*res, bb}, cells))
		}
	}
}
