package main

// C17 measured part (T): real-valued corners, arcs, N-gons and Bezier curves through the REAL builders,
// measured against analytic geometry computed here; judged by spec/trace/PolyMeasTrace.tla.
//
//   c17-measure   seeded random corners (angles near 0 and 180 degrees included, either edge too short),
//                 arcs (random chords / radii / signs, semicircles), N-gons
//   c17-bezier    vectors {pts:[{x,y,mid}],closed} (lattice, from BezierM.tla) from stdin, followed by seeded
//                 random control polygons and handle specifications

import (
	"encoding/json"
	"math"
	"math/big"
	"math/rand"

	"github.com/deadsy/sdfx/sdf"
	v2 "github.com/deadsy/sdfx/vec/v2"
)

type cornerObs struct {
	Ev    string     `json:"ev"`
	Id    int        `json:"id"`
	Cls   string     `json:"cls"`   // "fit" | "unfit" | "amb" (within 1e-6 of the fit boundary: not judged)
	Kind  string     `json:"kind"`  // "smooth" | "chamfer"
	Theta int64      `json:"theta"` // corner angle, micro-degrees
	Turn  int        `json:"turn"`  // +1 left turn, -1 right turn
	F     int        `json:"f"`
	Panic bool       `json:"panic"`
	N     int        `json:"n"` // output vertices (3 input vertices, open polyline)
	NaN   int        `json:"nan"`
	Ends  int64      `json:"ends"`  // max distance first/last fillet point to the tangent points / scale * 1e12
	Circ  int64      `json:"circ"`  // max | |p - c| - r | / scale * 1e12
	Ctr   int64      `json:"ctr"`   // | dist(c, edge line) - r | / scale * 1e12 (harness self check)
	Keep  int64      `json:"keep"`  // max displacement of the untouched vertices / scale * 1e12
	Mono  bool       `json:"mono"`  // fillet points in strictly increasing angular order from t0 to t1
	Side  bool       `json:"side"`  // all fillet points inside the corner wedge
	Param [7]float64 `json:"param"` // ax ay vx vy bx by r (for the report)
}

type arcObs struct {
	Ev    string     `json:"ev"`
	Id    int        `json:"id"`
	Semi  bool       `json:"semi"` // radius = half the chord (computed in floating point)
	Feas  bool       `json:"feas"` // 4 r^2 >= |b - a|^2 in EXACT arithmetic on the float inputs: a circle exists
	SignR int        `json:"signr"`
	F     int        `json:"f"`
	Panic bool       `json:"panic"`
	N     int        `json:"n"`
	NaN   int        `json:"nan"`
	Circ  int64      `json:"circ"`  // max | |p - c| - r | / scale * 1e12 for the better of the two centres
	PSide int        `json:"pside"` // common side of the inserted points w.r.t. the chord a->b (0: mixed / on the chord)
	CSide int        `json:"cside"` // side of that centre (0: on the chord)
	Mono  bool       `json:"mono"`
	Keep  int64      `json:"keep"`
	Param [5]float64 `json:"param"` // ax ay bx by r
}

type nagonObs struct {
	Ev    string `json:"ev"`
	NG    int    `json:"ng"`
	N     int    `json:"n"`
	Rad   int64  `json:"rad"`   // max | |v| - r | / r * 1e12
	Edge  int64  `json:"edge"`  // max | edge - 2 r sin(pi/n) | / r * 1e12
	CCW   bool   `json:"ccw"`   // all turns the same way
	First int64  `json:"first"` // |v0 - (r,0)| / r * 1e12
}

func c17Finite(p v2.Vec) bool {
	return !(math.IsNaN(p.X) || math.IsNaN(p.Y) || math.IsInf(p.X, 0) || math.IsInf(p.Y, 0))
}

func safeVertices(build func(p *sdf.Polygon)) (vs []v2.Vec, panicked bool) {
	defer func() {
		if r := recover(); r != nil {
			vs, panicked = nil, true
		}
	}()
	p := sdf.NewPolygon()
	build(p)
	return p.Vertices(), false
}

func c17Rot2(a v2.Vec, th float64) v2.Vec {
	c, s := math.Cos(th), math.Sin(th)
	return v2.Vec{X: c*a.X - s*a.Y, Y: s*a.X + c*a.Y}
}

func measureCorner(id int, rnd *rand.Rand) cornerObs {
	o := cornerObs{Ev: "corner", Id: id}
	// corner angle: near 0, near 180, or anywhere
	var th float64
	switch id % 4 {
	case 0:
		th = (0.2 + 4.8*rnd.Float64()) * math.Pi / 180
	case 1:
		th = math.Pi - (0.2+4.8*rnd.Float64())*math.Pi/180
	default:
		th = (5 + 170*rnd.Float64()) * math.Pi / 180
	}
	o.Turn = 1
	if rnd.Intn(2) == 0 {
		o.Turn = -1
	}
	v := v2.Vec{X: 20*rnd.Float64() - 10, Y: 20*rnd.Float64() - 10}
	base := 2 * math.Pi * rnd.Float64()
	u0 := c17Rot2(v2.Vec{X: 1, Y: 0}, base)
	u1 := c17Rot2(u0, -float64(o.Turn)*th) // the ray to the next vertex; turn = sign of cross(v - a, b - v)
	r := math.Exp(rnd.Float64()*6 - 3)
	o.F = 1 + rnd.Intn(8)
	o.Kind = "smooth"
	rho := r
	if id%7 == 3 {
		o.Kind, o.F = "chamfer", 1
		rho = r * math.Sqrt(0.5)
	}
	d1 := rho / math.Tan(th/2)
	// edge lengths: comfortably long, or one of them too short, or near the boundary
	l0, l1 := d1*(1.2+3*rnd.Float64()), d1*(1.2+3*rnd.Float64())
	switch id % 5 {
	case 1:
		l0 = d1 * (0.2 + 0.75*rnd.Float64())
	case 2:
		l1 = d1 * (0.2 + 0.75*rnd.Float64())
	case 3:
		l0 = d1 * (1 + 1e-3*(rnd.Float64()-0.5))
	}
	a := v2.Vec{X: v.X + l0*u0.X, Y: v.Y + l0*u0.Y}
	b := v2.Vec{X: v.X + l1*u1.X, Y: v.Y + l1*u1.Y}
	o.Param = [7]float64{a.X, a.Y, v.X, v.Y, b.X, b.Y, r}
	g := fillet(a, v, b, rho)
	scale := math.Max(math.Max(dist2(a, v), dist2(b, v)), rho)
	o.Theta = int64(g.theta * 180 / math.Pi * 1e6)
	m := math.Min(dist2(a, v), dist2(b, v))
	switch {
	case math.Abs(g.d1-m) <= 1e-6*m:
		o.Cls = "amb"
	case g.d1 < m:
		o.Cls = "fit"
	default:
		o.Cls = "unfit"
	}
	vs, pk := safeVertices(func(p *sdf.Polygon) {
		p.Add(a.X, a.Y)
		if o.Kind == "chamfer" {
			p.Add(v.X, v.Y).Chamfer(r)
		} else {
			p.Add(v.X, v.Y).Smooth(r, o.F)
		}
		p.Add(b.X, b.Y)
	})
	o.Panic, o.N = pk, len(vs)
	for _, p := range vs {
		if !c17Finite(p) {
			o.NaN++
		}
	}
	if pk || o.NaN > 0 || o.N < 3 {
		return o
	}
	o.Keep = abs12(math.Max(dist2(vs[0], a), dist2(vs[o.N-1], b)) / scale)
	o.Ctr = abs12(g.ctr / scale)
	o.Mono, o.Side = true, true
	if o.N == 3 {
		o.Keep = abs12(math.Max(math.Max(dist2(vs[0], a), dist2(vs[2], b)), dist2(vs[1], v)) / scale)
		return o
	}
	fp := vs[1 : o.N-1]
	o.Ends = abs12(math.Max(dist2(fp[0], g.t0), dist2(fp[len(fp)-1], g.t1)) / scale)
	a0 := v2.Vec{X: g.t0.X - g.c.X, Y: g.t0.Y - g.c.Y}
	a1 := v2.Vec{X: g.t1.X - g.c.X, Y: g.t1.Y - g.c.Y}
	tot := angle2(a0, a1)
	last := -1.0
	circ := 0.0
	u0n := unit2(v2.Vec{X: a.X - v.X, Y: a.Y - v.Y})
	u1n := unit2(v2.Vec{X: b.X - v.X, Y: b.Y - v.Y})
	for i, p := range fp {
		circ = math.Max(circ, math.Abs(dist2(p, g.c)-rho))
		fr := angle2(a0, v2.Vec{X: p.X - g.c.X, Y: p.Y - g.c.Y}) / tot
		if i > 0 && !(fr > last) {
			o.Mono = false
		}
		last = fr
		// inside the wedge: on the b-side of edge a and on the a-side of edge b (with a tolerance)
		pv := v2.Vec{X: p.X - v.X, Y: p.Y - v.Y}
		s0 := cross2(u0n, pv) * cross2(u0n, u1n)
		s1 := cross2(u1n, pv) * cross2(u1n, u0n)
		if s0 < -1e-9*scale || s1 < -1e-9*scale {
			o.Side = false
		}
	}
	o.Circ = abs12(circ / scale)
	return o
}

func measureArc(id int, rnd *rand.Rand) arcObs {
	o := arcObs{Ev: "arc", Id: id}
	a := v2.Vec{X: 20*rnd.Float64() - 10, Y: 20*rnd.Float64() - 10}
	ln := math.Exp(rnd.Float64()*5 - 2)
	dir := 2 * math.Pi * rnd.Float64()
	b := v2.Vec{X: a.X + ln*math.Cos(dir), Y: a.Y + ln*math.Sin(dir)}
	half := 0.5 * dist2(a, b)
	r := half * (1.0001 + math.Exp(rnd.Float64()*6-4))
	if id%5 == 0 {
		o.Semi = true
		r = half
	}
	o.SignR = 1
	if rnd.Intn(2) == 0 {
		o.SignR = -1
	}
	o.F = 1 + rnd.Intn(9)
	o.Param = [5]float64{a.X, a.Y, b.X, b.Y, float64(o.SignR) * r}
	{
		bf := func(x float64) *big.Float { return new(big.Float).SetPrec(400).SetFloat64(x) }
		dx := new(big.Float).SetPrec(400).Sub(bf(b.X), bf(a.X))
		dy := new(big.Float).SetPrec(400).Sub(bf(b.Y), bf(a.Y))
		ch := new(big.Float).SetPrec(400).Add(new(big.Float).SetPrec(400).Mul(dx, dx), new(big.Float).SetPrec(400).Mul(dy, dy))
		rr := new(big.Float).SetPrec(400).Mul(bf(2*r), bf(2*r))
		o.Feas = rr.Cmp(ch) >= 0
	}
	pre := v2.Vec{X: a.X - 3*math.Sin(dir), Y: a.Y + 3*math.Cos(dir)}
	vs, pk := safeVertices(func(p *sdf.Polygon) {
		p.Add(pre.X, pre.Y)
		p.Add(a.X, a.Y)
		p.Add(b.X, b.Y).Arc(float64(o.SignR)*r, o.F)
	})
	o.Panic, o.N = pk, len(vs)
	for _, p := range vs {
		if !c17Finite(p) {
			o.NaN++
		}
	}
	if pk || o.NaN > 0 || o.N < 3 {
		return o
	}
	scale := math.Max(ln, r)
	o.Keep = abs12(math.Max(math.Max(dist2(vs[0], pre), dist2(vs[1], a)), dist2(vs[o.N-1], b)) / scale)
	o.Mono = true
	ins := vs[2 : o.N-1]
	if len(ins) == 0 {
		return o
	}
	cl, cr, flat := arcCentres(a, b, r)
	devL, devR := 0.0, 0.0
	for _, p := range ins {
		devL = math.Max(devL, math.Abs(dist2(p, cl)-r))
		devR = math.Max(devR, math.Abs(dist2(p, cr)-r))
	}
	c, dev := cl, devL
	o.CSide = 1
	if devR < devL {
		c, dev, o.CSide = cr, devR, -1
	}
	if flat {
		o.CSide = 0
	}
	o.Circ = abs12(dev / scale)
	ch := v2.Vec{X: b.X - a.X, Y: b.Y - a.Y}
	a0 := v2.Vec{X: a.X - c.X, Y: a.Y - c.Y}
	a1 := v2.Vec{X: b.X - c.X, Y: b.Y - c.Y}
	tot := angle2(a0, a1)
	last := 0.0
	for i, p := range ins {
		s := sgnf(cross2(ch, v2.Vec{X: p.X - a.X, Y: p.Y - a.Y}), 1e-9*scale*scale)
		if i == 0 {
			o.PSide = s
		} else if s != o.PSide {
			o.PSide = 0
		}
		fr := angle2(a0, v2.Vec{X: p.X - c.X, Y: p.Y - c.Y}) / tot
		if !(fr > last && fr < 1) {
			o.Mono = false
		}
		last = fr
	}
	return o
}

func measureNagon(n int, r float64) nagonObs {
	o := nagonObs{Ev: "nagon", NG: n}
	vs := sdf.Nagon(n, r)
	o.N = len(vs)
	if o.N != n || n < 3 {
		return o
	}
	want := 2 * r * math.Sin(math.Pi/float64(n))
	rad, edge := 0.0, 0.0
	o.CCW = true
	for i := range vs {
		q := vs[(i+1)%n]
		w := vs[(i+2)%n]
		rad = math.Max(rad, math.Abs(math.Hypot(vs[i].X, vs[i].Y)-r))
		edge = math.Max(edge, math.Abs(dist2(vs[i], q)-want))
		if !(cross2(v2.Vec{X: q.X - vs[i].X, Y: q.Y - vs[i].Y}, v2.Vec{X: w.X - q.X, Y: w.Y - q.Y}) > 0) {
			o.CCW = false
		}
	}
	o.Rad, o.Edge = abs12(rad/r), abs12(edge/r)
	o.First = abs12(dist2(vs[0], v2.Vec{X: r, Y: 0}) / r)
	return o
}

func c17Measure(args []string) error {
	rnd := rand.New(rand.NewSource(seed()*104729 + 17))
	nc, na := 1500, 800
	if tier() == "thorough" {
		nc, na = 12000, 6000
	}
	for i := 0; i < nc; i++ {
		emit(measureCorner(i, rnd))
	}
	for i := 0; i < na; i++ {
		emit(measureArc(i, rnd))
	}
	for n := 3; n <= 24; n++ {
		emit(measureNagon(n, math.Exp(rnd.Float64()*6-3)))
	}
	return nil
}

// ------------------------------------------------------------------------------------------- Bezier

type bezPt struct {
	X   float64 `json:"x"`
	Y   float64 `json:"y"`
	Mid int     `json:"mid"`
}

type bezVec struct {
	Pts    []bezPt `json:"pts"`
	Closed bool    `json:"closed"`
}

type bezObs struct {
	Ev     string  `json:"ev"`
	Kind   string  `json:"kind"` // "lattice" (vector from BezierM) | "rand"
	V      *bezVec `json:"v,omitempty"`
	Id     int     `json:"id"`
	Err    bool    `json:"err"` // Polygon() returned an error
	Panic  bool    `json:"panic"`
	Spans  int     `json:"spans"`
	MaxDeg int     `json:"maxdeg"`
	Linear bool    `json:"linear"` // every span has degree 1
	Closed bool    `json:"closed"`
	N      int     `json:"n"`
	NaN    int     `json:"nan"`
	First  int64   `json:"first"` // |v[0] - first end point| / scale * 1e12
	Last   int64   `json:"last"`  // |v[n-1] - last end point (the first one for a closed curve)| / scale * 1e12
	Dist   int64   `json:"dist"`  // max over vertices of the distance to the curve / scale * 1e12
	Mono   bool    `json:"mono"`  // a non-decreasing parameter assignment exists (greedy)
	U      []int64 `json:"u"`     // that assignment: (span + t) * 1e6 per vertex (at most 40 logged)
	Lin    int64   `json:"lin"`   // linear curves: max distance vertex k <-> end point k / scale * 1e12 (count must match)
	NLin   int     `json:"nlin"`  // linear curves: number of end points expected
	// curves with NEGATIVE handle lengths: the property does not say what they mean; the measurements above take
	// |r| (both setters of the unchanged library do), S holds the same measurements for the signed reading
	Alt bool    `json:"alt"`
	S   *bezAlt `json:"s,omitempty"`
}

type bezAlt struct {
	First int64   `json:"first"`
	Last  int64   `json:"last"`
	Dist  int64   `json:"dist"`
	Mono  bool    `json:"mono"`
	U     []int64 `json:"u"`
}

func deCasteljau(cp []v2.Vec, t float64) v2.Vec {
	w := make([]v2.Vec, len(cp))
	copy(w, cp)
	for k := len(w) - 1; k > 0; k-- {
		for i := 0; i < k; i++ {
			w[i] = v2.Vec{X: (1-t)*w[i].X + t*w[i+1].X, Y: (1-t)*w[i].Y + t*w[i+1].Y}
		}
	}
	return w[0]
}

// nearest returns the local minima (t, distance) of |B(t) - p| on a fine grid, refined by ternary search.
func nearestOnSpan(cp []v2.Vec, p v2.Vec) (ts, ds []float64) {
	const G = 1024
	var d [G + 1]float64
	for k := 0; k <= G; k++ {
		d[k] = dist2(deCasteljau(cp, float64(k)/G), p)
	}
	for k := 0; k <= G; k++ {
		if (k == 0 || d[k] <= d[k-1]) && (k == G || d[k] <= d[k+1]) {
			lo, hi := math.Max(0, float64(k-1)/G), math.Min(1, float64(k+1)/G)
			for it := 0; it < 60; it++ {
				m1, m2 := lo+(hi-lo)/3, hi-(hi-lo)/3
				if dist2(deCasteljau(cp, m1), p) < dist2(deCasteljau(cp, m2), p) {
					hi = m2
				} else {
					lo = m1
				}
			}
			t := 0.5 * (lo + hi)
			dd := dist2(deCasteljau(cp, t), p)
			if d[k] <= dd {
				t, dd = float64(k)/G, d[k]
			}
			ts = append(ts, t)
			ds = append(ds, dd)
		}
	}
	return
}

// runBezier: ends = the curve end points in order, mids[i] = control points between ends[i] and ends[i+1]
func measureBezier(o bezObs, build func(b *sdf.Bezier), spans [][]v2.Vec, closed bool) bezObs {
	o.Ev, o.Closed, o.Spans = "bezier", closed, len(spans)
	o.U = []int64{}
	o.Linear = true
	lo := v2.Vec{X: math.Inf(1), Y: math.Inf(1)}
	hi := v2.Vec{X: math.Inf(-1), Y: math.Inf(-1)}
	for _, s := range spans {
		if len(s)-1 > o.MaxDeg {
			o.MaxDeg = len(s) - 1
		}
		if len(s) != 2 {
			o.Linear = false
		}
		for _, p := range s {
			lo = v2.Vec{X: math.Min(lo.X, p.X), Y: math.Min(lo.Y, p.Y)}
			hi = v2.Vec{X: math.Max(hi.X, p.X), Y: math.Max(hi.Y, p.Y)}
		}
	}
	scale := math.Max(math.Max(hi.X-lo.X, hi.Y-lo.Y), 1e-9)
	var vs []v2.Vec
	func() {
		defer func() {
			if r := recover(); r != nil {
				o.Panic = true
			}
		}()
		b := sdf.NewBezier()
		build(b)
		if closed {
			b.Close()
		}
		p, err := b.Polygon()
		if err != nil {
			o.Err = true
			return
		}
		if o.Id%3 != 1 {
			// the same builder converted a second time (Polygon() then Mesh2D() is ordinary use): what is measured
			// is the SECOND polygon - the conversion may not have consumed or altered the curve
			if p, err = b.Polygon(); err != nil {
				o.Err = true
				return
			}
		}
		vs = p.Vertices()
	}()
	o.N = len(vs)
	for _, p := range vs {
		if !c17Finite(p) {
			o.NaN++
		}
	}
	if o.Panic || o.Err || o.NaN > 0 || o.N == 0 {
		return o
	}
	first := spans[0][0]
	lastS := spans[len(spans)-1]
	last := lastS[len(lastS)-1]
	o.First = abs12(dist2(vs[0], first) / scale)
	o.Last = abs12(dist2(vs[o.N-1], last) / scale)
	// nearest parameters, greedy non-decreasing assignment
	o.Mono = true
	uprev := 0.0
	maxd := 0.0
	tolA := 1e-9 * scale
	for k, p := range vs {
		best, bestU := math.Inf(1), -1.0
		assigned := -1.0
		for si, cp := range spans {
			ts, ds := nearestOnSpan(cp, p)
			for i := range ts {
				u := float64(si) + ts[i]
				if ds[i] < best {
					best, bestU = ds[i], u
				}
				if ds[i] <= tolA && u >= uprev-1e-9 && (assigned < 0 || u < assigned) {
					assigned = u
				}
			}
		}
		maxd = math.Max(maxd, best)
		if assigned < 0 {
			o.Mono = false
			assigned = bestU
		}
		uprev = math.Max(uprev, assigned)
		if k < 40 {
			o.U = append(o.U, int64(math.Round(assigned*1e6)))
		}
	}
	o.Dist = abs12(maxd / scale)
	if o.Linear {
		ends := []v2.Vec{first}
		for _, s := range spans {
			ends = append(ends, s[1])
		}
		o.NLin = len(ends)
		if o.N == len(ends) {
			m := 0.0
			for k := range ends {
				m = math.Max(m, dist2(vs[k], ends[k]))
			}
			o.Lin = abs12(m / scale)
		}
	}
	return o
}

// spansOf splits a control list (end points and mid points) into spans; a closed curve returns to the first end point.
func spansOf(pts []bezPt, closed bool) [][]v2.Vec {
	var spans [][]v2.Vec
	var cur []v2.Vec
	for i, p := range pts {
		q := v2.Vec{X: p.X, Y: p.Y}
		if p.Mid == 1 {
			cur = append(cur, q)
			continue
		}
		if i > 0 {
			cur = append(cur, q)
			spans = append(spans, cur)
		}
		cur = []v2.Vec{q}
	}
	if closed {
		f := v2.Vec{X: pts[0].X, Y: pts[0].Y}
		if len(cur) > 1 || dist2(cur[0], f) > 1e-9 {
			cur = append(cur, f)
			spans = append(spans, cur)
		}
	}
	return spans
}

func c17Bezier(args []string) error {
	id := 0
	readVectors("-", func(raw json.RawMessage) {
		var v bezVec
		if err := json.Unmarshal(raw, &v); err != nil {
			fatal("bad vector: %v", err)
		}
		id++
		vv := v
		o := bezObs{Kind: "lattice", V: &vv, Id: id}
		emit(measureBezier(o, func(b *sdf.Bezier) {
			for _, p := range v.Pts {
				bv := b.Add(p.X, p.Y)
				if p.Mid == 1 {
					bv.Mid()
				}
			}
		}, spansOf(v.Pts, v.Closed), v.Closed))
	})
	// cubics whose middle-parameter point lies exactly on the chord although the span is strongly curved
	// there (antisymmetric y control values, asymmetric x): the flatness test of the sampler sees a
	// colinear midpoint; sampled repeatedly because the sampler perturbs its probe with a random source
	for _, h := range []float64{1, 1.5, 2} {
		for _, x1 := range []float64{3.0, 3.1, 3.2} {
			for rep := 0; rep < 12; rep++ {
				id++
				v := bezVec{Pts: []bezPt{{0, 0, 0}, {x1, h, 1}, {3.7 - x1, -h, 1}, {3, 0, 0}}}
				vv := v
				o := bezObs{Kind: "antisym", V: &vv, Id: id}
				emit(measureBezier(o, func(b *sdf.Bezier) {
					for _, p := range v.Pts {
						bv := b.Add(p.X, p.Y)
						if p.Mid == 1 {
							bv.Mid()
						}
					}
				}, spansOf(v.Pts, false), false))
			}
		}
	}
	// a tight hook right at an end of the curve (a handle of a few per cent of the span at right angles to the
	// control polygon): the piece next to the end point is still not flat when the sampler's recursion limit is
	// reached, so the end point has to come out of that exit too
	for _, a := range []float64{0.02, 0.03, 0.04, 0.05, 0.07} {
		for _, sc := range []float64{1, 37.5} {
			for _, rev := range []bool{false, true} {
				for rep := 0; rep < 3; rep++ {
					id++
					cp := []bezPt{{0, 0, 0}, {a * sc, 0, 1}, {0, sc, 1}, {sc, sc, 0}}
					if rev {
						cp = []bezPt{{sc, sc, 0}, {0, sc, 1}, {a * sc, 0, 1}, {0, 0, 0}}
					}
					v := bezVec{Pts: cp}
					vv := v
					o := bezObs{Kind: "hook", V: &vv, Id: id}
					emit(measureBezier(o, func(b *sdf.Bezier) {
						for _, p := range v.Pts {
							bv := b.Add(p.X, p.Y)
							if p.Mid == 1 {
								bv.Mid()
							}
						}
					}, spansOf(v.Pts, false), false))
				}
			}
		}
	}
	// random control polygons and handle specifications
	rnd := rand.New(rand.NewSource(seed()*15485863 + 171))
	n := 250
	if tier() == "thorough" {
		n = 2000
	}
	for i := 0; i < n; i++ {
		id++
		closed := rnd.Intn(3) == 0
		ne := 2 + rnd.Intn(4)
		type endp struct {
			p              v2.Vec
			fwd, rev       bool
			tf, rf, tr, rr float64
			mids           []v2.Vec // explicit mid points after this end point
		}
		ends := make([]endp, ne)
		sc := math.Exp(rnd.Float64()*6 - 3)
		for k := range ends {
			e := &ends[k]
			e.p = v2.Vec{X: sc * (20*rnd.Float64() - 10), Y: sc * (20*rnd.Float64() - 10)}
			mode := rnd.Intn(4)
			if i%2 == 0 {
				// handles
				e.fwd, e.rev = mode&1 == 1, mode&2 == 2
				e.tf, e.rf = 2*math.Pi*rnd.Float64(), sc*(0.5+6*rnd.Float64())
				e.tr, e.rr = 2*math.Pi*rnd.Float64(), sc*(0.5+6*rnd.Float64())
				if i%4 == 2 {
					// negative handle lengths (one setter, the other, both)
					if sg := rnd.Intn(4); sg > 0 {
						if sg&1 == 1 {
							e.rf = -e.rf
						}
						if sg&2 == 2 {
							e.rr = -e.rr
						}
					}
				}
			} else {
				// explicit mid points: 0..3 after this end point
				for m := 0; m < mode; m++ {
					e.mids = append(e.mids, v2.Vec{X: sc * (20*rnd.Float64() - 10), Y: sc * (20*rnd.Float64() - 10)})
				}
			}
		}
		if !closed {
			ends[0].rev = false
			ends[ne-1].fwd = false
			ends[ne-1].mids = nil
		}
		// the control list the library is expected to build; rd: how a handle length is read (|r| or signed)
		ctl := func(rd func(float64) float64) []bezPt {
			var pts []bezPt
			for k, e := range ends {
				if e.rev && (k > 0 || closed) {
					if k > 0 {
						pts = append(pts, bezPt{X: e.p.X + rd(e.rr)*math.Cos(e.tr), Y: e.p.Y + rd(e.rr)*math.Sin(e.tr), Mid: 1})
					}
				}
				pts = append(pts, bezPt{X: e.p.X, Y: e.p.Y})
				if e.fwd {
					pts = append(pts, bezPt{X: e.p.X + rd(e.rf)*math.Cos(e.tf), Y: e.p.Y + rd(e.rf)*math.Sin(e.tf), Mid: 1})
				}
				for _, m := range e.mids {
					pts = append(pts, bezPt{X: m.X, Y: m.Y, Mid: 1})
				}
			}
			if closed && ends[0].rev {
				// the reverse handle of the first end point is the last control point of the closing span
				e := ends[0]
				pts = append(pts, bezPt{X: e.p.X + rd(e.rr)*math.Cos(e.tr), Y: e.p.Y + rd(e.rr)*math.Sin(e.tr), Mid: 1})
			}
			return pts
		}
		pts := ctl(math.Abs)
		neg := false
		for _, e := range ends {
			neg = neg || (e.fwd && e.rf < 0) || (e.rev && e.rr < 0)
		}
		o := bezObs{Kind: "rand", Id: id}
		build := func(b *sdf.Bezier) {
			for _, e := range ends {
				bv := b.Add(e.p.X, e.p.Y)
				if e.fwd {
					bv.HandleFwd(e.tf, e.rf)
				}
				if e.rev {
					bv.HandleRev(e.tr, e.rr)
				}
				for _, m := range e.mids {
					b.Add(m.X, m.Y).Mid()
				}
			}
		}
		oa := measureBezier(o, build, spansOf(pts, closed), closed)
		if neg {
			os := measureBezier(o, build, spansOf(ctl(func(r float64) float64 { return r }), closed), closed)
			oa.Alt = true
			oa.S = &bezAlt{First: os.First, Last: os.Last, Dist: os.Dist, Mono: os.Mono, U: os.U}
		}
		emit(oa)
	}
	return nil
}

func init() {
	register("c17-measure", c17Measure)
	register("c17-bezier", c17Bezier)
}
