package main

import (
	"math"

	"github.com/deadsy/sdfx/sdf"
	v3 "github.com/deadsy/sdfx/vec/v3"
)

// scenePart / sceneVec mirror Scene3.tla.
type scenePart struct {
	Kind string `json:"kind"` // "box" | "plane"
	C    [3]int `json:"c"`
	H    [3]int `json:"h"`
	W    int    `json:"w"`
	Op   string `json:"op"` // "u" | "d" | "i"
}

type sceneVec struct {
	M     int         `json:"m"` // meshCells
	K     int         `json:"k"`
	Parts []scenePart `json:"parts"`
	ID    int         `json:"id"`
}

// sceneField evaluates Num(scene,p)/k at real points; `unit` converts world coordinates to the
// specification's lattice units (p_lattice = (p - origin) / unit); `scale` divides the value.
type sceneField struct {
	sc     sceneVec
	origin v3.Vec
	unit   float64
	scale  float64
	bb     sdf.Box3
}

func (f *sceneField) num(p [3]float64) float64 {
	acc := 0.0
	for i, pt := range f.sc.Parts {
		var v float64
		if pt.Kind == "box" {
			v = math.Inf(-1)
			for a := 0; a < 3; a++ {
				v = math.Max(v, math.Abs(p[a]-float64(pt.C[a]))-float64(pt.H[a]))
			}
			v *= float64(pt.W)
		} else {
			for a := 0; a < 3; a++ {
				v += float64(pt.H[a]) * (p[a] - float64(pt.C[a]))
			}
		}
		if i == 0 {
			acc = v
			continue
		}
		switch pt.Op {
		case "u":
			acc = math.Min(acc, v)
		case "d":
			acc = math.Max(acc, -v)
		default:
			acc = math.Max(acc, v)
		}
	}
	return acc
}

func (f *sceneField) Evaluate(p v3.Vec) float64 {
	q := [3]float64{(p.X - f.origin.X) / f.unit, (p.Y - f.origin.Y) / f.unit, (p.Z - f.origin.Z) / f.unit}
	for a := 0; a < 3; a++ {
		// sample points are meant to be lattice points: remove the rounding of the renderer's own
		// coordinate arithmetic so that integer fields are evaluated exactly
		if r := math.Round(q[a]); math.Abs(q[a]-r) < 1e-9 {
			q[a] = r
		}
	}
	return f.num(q) / float64(f.sc.K) / f.scale
}

func (f *sceneField) BoundingBox() sdf.Box3 { return f.bb }

// edgeVertex is a mesh vertex expressed on the cell lattice: corner A (cell units), axis 1..3 of
// the lattice edge it lies on (0 = exactly at corner A), T = position along the edge * 1e6.
type edgeVertex [5]int

// projectToEdges maps a real vertex (cell units) to its lattice edge; ok=false if it is on none.
func projectToEdge(q [3]float64) (edgeVertex, bool) {
	var ev edgeVertex
	frac := -1
	for a := 0; a < 3; a++ {
		r := math.Round(q[a])
		if math.Abs(q[a]-r) < 1e-9 {
			ev[a] = int(r)
			continue
		}
		if frac >= 0 {
			return ev, false
		}
		frac = a
		fl := math.Floor(q[a])
		ev[a] = int(fl)
		ev[4] = int(math.Round((q[a] - fl) * 1e6))
	}
	if frac >= 0 {
		ev[3] = frac + 1
	}
	return ev, true
}

type edgeTri [3]edgeVertex

func projectTrisToEdges(ts []*sdf.Triangle3, origin v3.Vec, cell float64) (out []edgeTri, off int) {
	out = []edgeTri{}
	for _, t := range ts {
		var et edgeTri
		bad := false
		for j := 0; j < 3; j++ {
			q := [3]float64{(t[j].X - origin.X) / cell, (t[j].Y - origin.Y) / cell, (t[j].Z - origin.Z) / cell}
			ev, ok := projectToEdge(q)
			if !ok {
				bad = true
			}
			et[j] = ev
		}
		if bad {
			off++
			continue
		}
		out = append(out, et)
	}
	return out, off
}
