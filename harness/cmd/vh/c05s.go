package main

// C05 / C08, T part: real shapes at real coordinates, resolutions and lattice alignments.
// The harness identifies coincident vertices (1e-6 cell) and counts; MeshStatTrace.tla judges.

import (
	"math"
	"math/rand"
	"strconv"

	"github.com/deadsy/sdfx/render"
	"github.com/deadsy/sdfx/sdf"
	v2 "github.com/deadsy/sdfx/vec/v2"
	v3 "github.com/deadsy/sdfx/vec/v3"
)

type meshStat struct {
	Ev        string `json:"ev"`
	Shape     string `json:"shape"`
	R         string `json:"r"`
	Cells     int    `json:"cells"`
	Nt        int    `json:"nt"`        // triangles / segments
	Unmatched int    `json:"unmatched"` // 3D: directed edges whose reverse occurs a different number of times; 2D: end points of odd degree
	Degen     int    `json:"degen"`     // triangles with two identical vertices / zero-length segments (exactly equal coordinates, the code's own notion)
	NearDegen int    `json:"neardegen"` // items whose vertices are distinct floats but closer than 1e-6 cell (slivers next to a lattice point; not judged)
	VolPos    bool   `json:"volpos"`    // signed volume (3D) is positive
	Outside   int    `json:"outside"`
	MaxF      int64  `json:"maxf"`     // 2D: max |f(endpoint)| / h * 1e6 ; 3D: 0
	Circle    int64  `json:"circle"`   // 2D circle: max |f| 8(R-h) / h^2 * 1e6
	PerimErr  int64  `json:"perimerr"` // 2D: |length - perimeter| / perimeter * 1e6 (0 if unknown)
	HasPerim  bool   `json:"hasperim"`
	Seq       int    `json:"seq"`
	Param     string `json:"param"`
}

func stat3(name, param string, s sdf.SDF3, which string, cells int) meshStat {
	// one renderer object per (kind, cells) for the whole run: a renderer may be used for any number of shapes
	key := which + "/" + strconv.Itoa(cells)
	r := sceneR3[key]
	if r == nil {
		if which == "mcu" {
			r = render.NewMarchingCubesUniform(cells)
		} else {
			r = render.NewMarchingCubesOctree(cells)
		}
		sceneR3[key] = r
	}
	ts := render.ToTriangles(s, r)
	box, h := sampledBox(s, which, cells)
	o := meshStat{Ev: "meshstat", Shape: name, R: which, Cells: cells, Nt: len(ts), Param: param}
	vi := newVertexIndex(1e-6)
	type de struct{ a, b int }
	cnt := map[de]int{}
	vol := 0.0
	eps := 1e-9 * h
	for _, t := range ts {
		var id [3]int
		for j := 0; j < 3; j++ {
			id[j] = vi.id([3]float64{(t[j].X - box.Min.X) / h, (t[j].Y - box.Min.Y) / h, (t[j].Z - box.Min.Z) / h})
			if t[j].X < box.Min.X-eps || t[j].Y < box.Min.Y-eps || t[j].Z < box.Min.Z-eps ||
				t[j].X > box.Max.X+eps || t[j].Y > box.Max.Y+eps || t[j].Z > box.Max.Z+eps {
				o.Outside++
			}
		}
		if t[0] == t[1] || t[1] == t[2] || t[2] == t[0] {
			o.Degen++
		} else if id[0] == id[1] || id[1] == id[2] || id[2] == id[0] {
			o.NearDegen++
		}
		for j := 0; j < 3; j++ {
			cnt[de{id[j], id[(j+1)%3]}]++
		}
		vol += t[0].Dot(t[1].Cross(t[2]))
	}
	for e, n := range cnt {
		if e.a != e.b && cnt[de{e.b, e.a}] != n {
			o.Unmatched++
		}
	}
	o.VolPos = vol > 0
	return o
}

var sceneR3 = map[string]render.Render3{}
var sceneR2 = map[string]render.Render2{}

func collect2(s sdf.SDF2, which string, cells int) []*sdf.Line2 {
	// one renderer object per (kind, cells) for the whole run (see stat3)
	key := which + "/" + strconv.Itoa(cells)
	r := sceneR2[key]
	if r == nil {
		if which == "msu" {
			r = render.NewMarchingSquaresUniform(cells)
		} else {
			r = render.NewMarchingSquaresQuadtree(cells)
		}
		sceneR2[key] = r
	}
	return collectLines(s, r)
}

func stat2(name, param string, s sdf.SDF2, which string, cells int, radius, perim float64, seq int) meshStat {
	ls := collect2(s, which, cells)
	bb := s.BoundingBox()
	h := bb.Size().MaxComponent() / float64(cells)
	sb := bb.ScaleAboutCenter(1.01)
	if which == "msq" {
		long := sb.Size().MaxComponent()
		levels := math.Ceil(math.Log2(long/(0.5*h))) + 1
		side := math.Pow(2, levels-1) * 0.5 * h
		sb = sdf.Box2{Min: sb.Min, Max: sb.Min.AddScalar(side)}
	}
	o := meshStat{Ev: "meshstat", Shape: name, R: which, Cells: cells, Nt: len(ls), Param: param, Seq: seq}
	vi := newVertexIndex(1e-6)
	deg := map[int]int{}
	length := 0.0
	maxf := 0.0
	eps := 1e-9 * h
	for _, l := range ls {
		var id [2]int
		for j := 0; j < 2; j++ {
			id[j] = vi.id([3]float64{(l[j].X - sb.Min.X) / h, (l[j].Y - sb.Min.Y) / h, 0})
			deg[id[j]]++
			maxf = math.Max(maxf, math.Abs(s.Evaluate(l[j])))
			if l[j].X < sb.Min.X-eps || l[j].Y < sb.Min.Y-eps || l[j].X > sb.Max.X+eps || l[j].Y > sb.Max.Y+eps {
				o.Outside++
			}
		}
		if l[0] == l[1] {
			o.Degen++
		} else if id[0] == id[1] {
			o.NearDegen++
		}
		length += l[1].Sub(l[0]).Length()
	}
	for _, d := range deg {
		if d%2 != 0 {
			o.Unmatched++
		}
	}
	o.VolPos = true
	o.MaxF = sat(maxf / h * 1e6)
	if radius > 0 {
		// the sampled cell of the uniform renderer is at most h (its box is 1% larger, its step count rounded up)
		o.Circle = sat(maxf * 8 * (radius - 1.01*h) / (1.0201 * h * h) * 1e6)
	}
	if perim > 0 {
		o.HasPerim = true
		o.PerimErr = sat(math.Abs(length-perim) / perim * 1e6)
	}
	return o
}

func c05Scenes(args []string) error {
	rnd := rand.New(rand.NewSource(seed()))
	// a ball (well inside its bounding box) whose surface clips the corner (8,8,8) of an octree cube of
	// level n by a few millionths of its side: lattice origin 0, half-cell 1 (box of 12, centre 6.06, 6 cells)
	for _, e := range []float64{3e-6, 1e-5, 2e-5} {
		for n := 1; n <= 3; n++ {
			bb := sdf.NewBox3(v3.Vec{X: 6.06, Y: 6.06, Z: 6.06}, v3.Vec{X: 12, Y: 12, Z: 12})
			emit(stat3("tight-ball", fmtf(float64(n), e), ball3{v3.Vec{X: 6.5, Y: 6.5, Z: 6.5}, 1.5*math.Sqrt(3) + e*math.Pow(2, float64(n)), bb}, "mco", 6))
		}
	}
	// long thin rods at more than 2^9 cells along each axis (lattice indices beyond 1024 half-cells: anything that
	// packs or truncates lattice coordinates shows here), both renderers
	for ax := 0; ax < 3; ax++ {
		sz := [3]float64{1, 1, 1}
		sz[ax] = 40
		rod, _ := sdf.Box3D(v3.Vec{X: sz[0], Y: sz[1], Z: sz[2]}, 0.2)
		for _, which := range []string{"mco", "mcu"} {
			emit(stat3("long-rod", fmtf(float64(ax)), rod, which, 520))
		}
		if tier() == "thorough" {
			emit(stat3("long-rod", fmtf(float64(ax)), rod, "mco", 1100))
		}
	}
	// the UNIFORM renderer may not rely on the field being a distance: fields that over-estimate (a multiple of the
	// distance, a non-uniformly scaled shape) have the same surface and must give the same closed mesh
	{
		sp, _ := sdf.Sphere3D(1)
		rb, _ := sdf.Box3D(v3.Vec{X: 2, Y: 1.5, Z: 1}, 0.2)
		over := []struct {
			n string
			s sdf.SDF3
		}{
			{"sphere-x1.05", scaled3{sp, 1 / 1.05}}, {"sphere-x3", scaled3{sp, 1.0 / 3}}, {"sphere-x40", scaled3{sp, 1.0 / 40}},
			{"roundbox-stretched", sdf.Transform3D(rb, sdf.Scale3d(v3.Vec{X: 1, Y: 2, Z: 0.5}))},
		}
		for _, sh := range over {
			for _, cells := range []int{21, 37, 60} {
				emit(stat3(sh.n, fmtf(float64(cells)), sh.s, "mcu", cells))
			}
		}
		// cell counts at and just below powers of two (the octree's top cube must still cover the 1 % margin)
		for _, cells := range []int{16, 32, 63, 64} {
			emit(stat3("pow2-sphere", fmtf(float64(cells)), sp, "mco", cells))
		}
	}
	reps := 3
	if tier() == "thorough" {
		reps = 12
	}
	for rep := 0; rep < reps; rep++ {
		off := v3.Vec{X: rnd.Float64()*4 - 2, Y: rnd.Float64()*4 - 2, Z: rnd.Float64()*4 - 2}
		// every other repetition away from the origin, a different octant each time: the bounding box does not
		// contain the origin (its padding and the lattice origin are taken about the box, not the origin)
		if rep%2 == 1 {
			off = off.Add([4]v3.Vec{{X: 10, Y: 20, Z: 30}, {X: 3, Y: -9, Z: 0}, {X: -25, Y: 30, Z: 4}, {X: 6, Y: 9, Z: -14}}[(rep/2)%4])
		}
		rot := sdf.RotateX(rnd.Float64() * 3).Mul(sdf.RotateY(rnd.Float64() * 3)).Mul(sdf.RotateZ(rnd.Float64() * 3))
		m := sdf.Translate3d(off).Mul(rot)
		sp, _ := sdf.Sphere3D(0.5 + rnd.Float64())
		bx, _ := sdf.Box3D(v3.Vec{X: 1 + rnd.Float64(), Y: 1 + rnd.Float64(), Z: 1 + rnd.Float64()}, 0.1*rnd.Float64())
		cy, _ := sdf.Cylinder3D(1+rnd.Float64(), 0.3+0.5*rnd.Float64(), 0)
		co, _ := sdf.Cone3D(1+rnd.Float64(), 0.8, 0.2, 0.05)
		ring, _ := sdf.Revolve3D(sdf.Transform2D(must2(sdf.Circle2D(0.3)), sdf.Translate2d(v2.Vec{X: 1})))
		sp2 := sdf.Transform3D(sp, sdf.Translate3d(v3.Vec{X: 0.6, Y: 0.2}))
		shapes := []struct {
			n string
			s sdf.SDF3
		}{
			{"sphere", sdf.Transform3D(sp, m)}, {"box", sdf.Transform3D(bx, m)}, {"cylinder", sdf.Transform3D(cy, m)},
			{"cone", sdf.Transform3D(co, m)}, {"torus", sdf.Transform3D(ring, m)},
			{"union", sdf.Transform3D(sdf.Union3D(bx, sp2), m)}, {"difference", sdf.Transform3D(sdf.Difference3D(bx, sp2), m)},
			{"intersection", sdf.Transform3D(sdf.Intersect3D(bx, sp2), m)},
			{"shell", sdf.Transform3D(must3(sdf.Shell3D(sp, 0.15)), m)},
		}
		for _, sh := range shapes {
			for _, which := range []string{"mcu", "mco"} {
				for _, cells := range []int{7 + rnd.Intn(6), 20 + rnd.Intn(12)} {
					emit(stat3(sh.n, fmtf(off.X, off.Y, off.Z), sh.s, which, cells))
				}
			}
		}
	}
	return nil
}

// c08Stair: union of the quadrants [lo_k, (99,99)] - exact box distances, minimum: 1-Lipschitz with the right sign
type c08Stair struct {
	lo []v2.Vec
	bb sdf.Box2
}

func (s *c08Stair) BoundingBox() sdf.Box2 { return s.bb }
func (s *c08Stair) Evaluate(p v2.Vec) float64 {
	best := math.Inf(1)
	for _, l := range s.lo {
		cx, cy := 0.5*(l.X+99), 0.5*(l.Y+99)
		dx, dy := math.Abs(p.X-cx)-0.5*(99-l.X), math.Abs(p.Y-cy)-0.5*(99-l.Y)
		d := math.Hypot(math.Max(dx, 0), math.Max(dy, 0)) + math.Min(math.Max(dx, dy), 0)
		best = math.Min(best, d)
	}
	return best
}

func c08Scenes(args []string) error {
	rnd := rand.New(rand.NewSource(seed()))
	// cell counts at and just below powers of two: the quadtree's root square must still cover the 1 % margin
	{
		ci, _ := sdf.Circle2D(1)
		pl := sdf.Box2D(v2.Vec{X: 3, Y: 1}, 0.2)
		for _, cells := range []int{32, 64, 127, 128, 255, 256} {
			for _, which := range []string{"msq", "msu"} {
				emit(stat2("pow2-circle", fmtf(float64(cells)), ci, which, cells, 0, 0, 0))
				emit(stat2("pow2-plate", fmtf(float64(cells)), pl, which, cells, 0, 0, 0))
			}
		}
	}
	// different shapes with the same bounding box, one after the other on the same renderer object
	{
		ci, _ := sdf.Circle2D(1)
		sq := sdf.Box2D(v2.Vec{X: 2, Y: 2}, 0)
		di, _ := sdf.Polygon2D([]v2.Vec{{X: 1, Y: 0}, {X: 0, Y: 1}, {X: -1, Y: 0}, {X: 0, Y: -1}})
		for _, which := range []string{"msq", "msu"} {
			for round := 0; round < 2; round++ {
				emit(stat2("samebox-square", fmtf(float64(round)), sq, which, 64, 0, 8, 3))
				emit(stat2("samebox-circle", fmtf(float64(round)), ci, which, 64, 1, 2*math.Pi, 3))
				emit(stat2("samebox-diamond", fmtf(float64(round)), di, which, 64, 0, 4*math.Sqrt2, 3))
			}
		}
	}
	// fields that over-estimate the distance (Transform2D with a shrinking scale: "distance is not preserved with
	// scaling"): the uniform renderer samples every lattice point and needs only the signs and the values next
	// to the boundary. (The quadtree renderer prunes by distance and is not offered such fields.)
	{
		c4, _ := sdf.Circle2D(4)
		b2 := sdf.Box2D(v2.Vec{X: 2, Y: 2}, 0)
		for _, cells := range []int{40, 64, 150} {
			emit(stat2("overest-circle", fmtf(float64(cells)), sdf.Transform2D(c4, sdf.Scale2d(v2.Vec{X: 0.25, Y: 0.25})), "msu", cells, 0, 2*math.Pi, 0))
			emit(stat2("overest-box", fmtf(float64(cells)), sdf.Transform2D(b2, sdf.Scale2d(v2.Vec{X: 1, Y: 0.25})), "msu", cells, 0, 5, 0))
			emit(stat2("overest-box-moved", fmtf(float64(cells)),
				sdf.Transform2D(b2, sdf.Translate2d(v2.Vec{X: 3.3, Y: -1.7}).Mul(sdf.Rotate2d(0.4)).Mul(sdf.Scale2d(v2.Vec{X: 0.2, Y: 0.6}))), "msu", cells, 0, 2*(0.4+1.2), 0))
		}
	}
	// a staircase whose convex corners poke 2e-5 cells beyond lattice nodes of the quadtree, one node for every level
	// of the tree (the anti-diagonal through the centre of the root square): a square that contains nothing but such
	// a corner tip - its centre is half a diagonal minus 3e-5 from the surface - must still be descended into
	{
		const e = 2e-5
		st := &c08Stair{bb: sdf.Box2{Min: v2.Vec{}, Max: v2.Vec{X: 100, Y: 100}}}
		for k := 58; k <= 198; k += 2 {
			st.lo = append(st.lo, v2.Vec{X: -0.5 + 0.5*float64(k) - e, Y: -0.5 + 0.5*float64(256-k) - e})
		}
		for _, which := range []string{"msq", "msu"} {
			emit(stat2("stair-corner-tips", "e=2e-5", st, which, 100, 0, 0, 0))
		}
	}
	// a very deep quadtree (17 levels): a long thin box at more than 2^15 cells
	{
		thin := sdf.Box2D(v2.Vec{X: 1000, Y: 1}, 0)
		o := stat2("thin-box-deep", "1000x1", thin, "msq", 33000, 0, 0, 0)
		emit(o)
		if tier() == "thorough" {
			emit(stat2("thin-box-deep", "1000x1", thin, "msq", 41000, 0, 0, 0))
			emit(stat2("thin-box-deep", "1000x1", sdf.Transform2D(thin, sdf.Translate2d(v2.Vec{X: 0.37, Y: -0.11})), "msq", 70000, 0, 0, 0))
		}
	}
	reps := 3
	if tier() == "thorough" {
		reps = 12
	}
	for rep := 0; rep < reps; rep++ {
		off := v2.Vec{X: rnd.Float64()*4 - 2, Y: rnd.Float64()*4 - 2}
		m := sdf.Translate2d(off).Mul(sdf.Rotate2d(rnd.Float64() * 3))
		R := 0.5 + rnd.Float64()
		ci, _ := sdf.Circle2D(R)
		a, b := 1+rnd.Float64(), 1+rnd.Float64()
		bx := sdf.Box2D(v2.Vec{X: a, Y: b}, 0)
		poly, _ := sdf.Polygon2D([]v2.Vec{{X: 0, Y: 0}, {X: 2, Y: 0}, {X: 2, Y: 1}, {X: 1, Y: 0.4 + 0.3*rnd.Float64()}, {X: 0, Y: 1}})
		type sh struct {
			n      string
			s      sdf.SDF2
			radius float64
			perim  float64
		}
		shapes := []sh{
			{"circle", sdf.Transform2D(ci, m), R, 2 * math.Pi * R},
			{"box", sdf.Transform2D(bx, m), 0, 2 * (a + b)},
			{"polygon", sdf.Transform2D(poly, m), 0, 0},
			{"union", sdf.Transform2D(sdf.Union2D(bx, sdf.Transform2D(ci, sdf.Translate2d(v2.Vec{X: 0.7}))), m), 0, 0},
			{"difference", sdf.Transform2D(sdf.Difference2D(bx, sdf.Transform2D(ci, sdf.Translate2d(v2.Vec{X: 0.7}))), m), 0, 0},
		}
		for _, s := range shapes {
			for _, which := range []string{"msu", "msq"} {
				for i, cells := range []int{25, 50, 100, 200} {
					emit(stat2(s.n, fmtf(off.X, off.Y), s.s, which, cells, s.radius, s.perim, i+1))
				}
			}
		}
	}
	return nil
}

func init() {
	register("c05-scenes", c05Scenes)
	register("c08-scenes", c08Scenes)
}
