package main

// C07, T part: tight tangency scenes and render sequences on real Euclidean fields.
// The observation is model-free: the hierarchical output for f against the hierarchical output
// for f/1024 (a power of two: identical interpolation, but no cube can be skipped).

import (
	"math"

	"github.com/deadsy/sdfx/render"
	"github.com/deadsy/sdfx/sdf"
	v2 "github.com/deadsy/sdfx/vec/v2"
	v3 "github.com/deadsy/sdfx/vec/v3"
)

type hierObs struct {
	Ev    string `json:"ev"`
	Name  string `json:"name"`
	Dim   int    `json:"dim"`
	Cells int    `json:"cells"`
	N     int    `json:"n"`     // items of the hierarchical render of f
	NFlat int    `json:"nflat"` // items of the render of f/1024
	Diff  int    `json:"diff"`  // size of the symmetric difference of the two multisets (exact floats)
	Seq   int    `json:"seq"`
	Param string `json:"param"`
}

type scaled3 struct {
	s sdf.SDF3
	k float64
}

func (s scaled3) Evaluate(p v3.Vec) float64 { return s.s.Evaluate(p) / s.k }
func (s scaled3) BoundingBox() sdf.Box3     { return s.s.BoundingBox() }

type scaled2 struct {
	s sdf.SDF2
	k float64
}

func (s scaled2) Evaluate(p v2.Vec) float64 { return s.s.Evaluate(p) / s.k }
func (s scaled2) BoundingBox() sdf.Box2     { return s.s.BoundingBox() }

// ball3 is an exact Euclidean ball with a bounding box chosen by the harness (lattice alignment).
type ball3 struct {
	c  v3.Vec
	r  float64
	bb sdf.Box3
}

func (b ball3) Evaluate(p v3.Vec) float64 { return p.Sub(b.c).Length() - b.r }
func (b ball3) BoundingBox() sdf.Box3     { return b.bb }

type disc2 struct {
	c  v2.Vec
	r  float64
	bb sdf.Box2
}

func (b disc2) Evaluate(p v2.Vec) float64 { return p.Sub(b.c).Length() - b.r }
func (b disc2) BoundingBox() sdf.Box2     { return b.bb }

func triDiff(a, b []*sdf.Triangle3) int {
	m := map[[9]float64]int{}
	key := func(t *sdf.Triangle3) [9]float64 {
		return [9]float64{t[0].X, t[0].Y, t[0].Z, t[1].X, t[1].Y, t[1].Z, t[2].X, t[2].Y, t[2].Z}
	}
	for _, t := range a {
		m[key(t)]++
	}
	for _, t := range b {
		m[key(t)]--
	}
	d := 0
	for _, n := range m {
		if n < 0 {
			n = -n
		}
		d += n
	}
	return d
}

func lineDiff(a, b []*sdf.Line2) int {
	m := map[[4]float64]int{}
	for _, l := range a {
		m[[4]float64{l[0].X, l[0].Y, l[1].X, l[1].Y}]++
	}
	for _, l := range b {
		m[[4]float64{l[0].X, l[0].Y, l[1].X, l[1].Y}]--
	}
	d := 0
	for _, n := range m {
		if n < 0 {
			n = -n
		}
		d += n
	}
	return d
}

func hier3(name, param string, s sdf.SDF3, cells, seq int) hierObs {
	a := render.ToTriangles(s, render.NewMarchingCubesOctree(cells))
	b := render.ToTriangles(scaled3{s, 1024}, render.NewMarchingCubesOctree(cells))
	return hierObs{Ev: "hier", Name: name, Dim: 3, Cells: cells, N: len(a), NFlat: len(b), Diff: triDiff(a, b), Seq: seq, Param: param}
}

func hier2(name, param string, s sdf.SDF2, cells, seq int) hierObs {
	a := collectLines(s, render.NewMarchingSquaresQuadtree(cells))
	b := collectLines(scaled2{s, 1024}, render.NewMarchingSquaresQuadtree(cells))
	return hierObs{Ev: "hier", Name: name, Dim: 2, Cells: cells, N: len(a), NFlat: len(b), Diff: lineDiff(a, b), Seq: seq, Param: param}
}

func c07Tight(args []string) error {
	// --- tight tangency: the surface clips the corner of a level-n cube by eps_rel * side
	epsRel := []float64{3e-6, 1e-5, 2e-5, 1e-4, 3e-3}
	for _, m := range []int{4, 6} {
		mf := float64(m)
		bb3 := sdf.NewBox3(v3.Vec{X: 1.01 * mf, Y: 1.01 * mf, Z: 1.01 * mf}, v3.Vec{X: 2 * mf, Y: 2 * mf, Z: 2 * mf})
		bb2 := sdf.NewBox2(v2.Vec{X: 1.01 * mf, Y: 1.01 * mf}, v2.Vec{X: 2 * mf, Y: 2 * mf})
		for n := 1; n <= 3; n++ {
			side := math.Pow(2, float64(n))
			for _, sgn := range []float64{1, -1} {
				for _, e := range epsRel {
					// cube [8, 8+side]^d ; the ball's centre lies on the diagonal through its low corner
					v0 := 8.0
					t := 5.0
					c := v0 - t
					if sgn < 0 {
						// the high corner instead: cube [8-side, 8]^d, ball beyond the corner (8,8,8)
						c = v0 + t
					}
					eps := e * side
					name := "tight"
					emit(hier3(name, fmtf(float64(m), float64(n), sgn, e), ball3{v3.Vec{X: c, Y: c, Z: c}, t*math.Sqrt(3) + eps, bb3}, m, 0))
					emit(hier2(name, fmtf(float64(m), float64(n), sgn, e), disc2{v2.Vec{X: c, Y: c}, t*math.Sqrt(2) + eps, bb2}, m, 0))
				}
			}
		}
	}
	// --- sequences in one process: same object, same octree depth, different cell sizes, repeated
	sp, _ := sdf.Sphere3D(1)
	bx, _ := sdf.Box3D(v3.Vec{X: 1.2, Y: 1.7, Z: 2}, 0.15)
	ci, _ := sdf.Circle2D(1)
	seq := []int{24, 30, 20, 20, 24, 17, 30}
	// the hierarchical renders of one object run back to back (a renderer that keeps state between
	// renders sees the same object at changing resolutions); the exhaustive references afterwards
	for _, sh := range []struct {
		n string
		s sdf.SDF3
	}{{"seq-sphere", sp}, {"seq-box", bx}} {
		var as [][]*sdf.Triangle3
		for _, cells := range seq {
			as = append(as, render.ToTriangles(sh.s, render.NewMarchingCubesOctree(cells)))
		}
		for i, cells := range seq {
			b := render.ToTriangles(scaled3{sh.s, 1024}, render.NewMarchingCubesOctree(cells))
			emit(hierObs{Ev: "hier", Name: sh.n, Dim: 3, Cells: cells, N: len(as[i]), NFlat: len(b), Diff: triDiff(as[i], b), Seq: i + 1})
		}
	}
	// --- ONE renderer object reused for different shapes that have bit-identical bounding boxes (a block, the
	// block drilled, the block again): state kept between renders must not leak from one shape into the next
	{
		blk, _ := sdf.Box3D(v3.Vec{X: 2, Y: 2, Z: 2}, 0)
		cyl, _ := sdf.Cylinder3D(3, 0.45, 0)
		drilled := sdf.Difference3D(blk, cyl)
		r3 := render.NewMarchingCubesOctree(24)
		for i, sh := range []sdf.SDF3{blk, drilled, blk, drilled} {
			a := render.ToTriangles(sh, r3)
			b := render.ToTriangles(scaled3{sh, 1024}, render.NewMarchingCubesOctree(24))
			emit(hierObs{Ev: "hier", Name: "reuse-block", Dim: 3, Cells: 24, N: len(a), NFlat: len(b), Diff: triDiff(a, b), Seq: i + 1})
		}
		sq := sdf.Box2D(v2.Vec{X: 2, Y: 2}, 0)
		hole, _ := sdf.Circle2D(0.45)
		sq2 := sdf.Difference2D(sq, hole)
		r2 := render.NewMarchingSquaresQuadtree(96)
		for i, sh := range []sdf.SDF2{sq, sq2, sq, sq2} {
			a := collectLines(sh, r2)
			b := collectLines(scaled2{sh, 1024}, render.NewMarchingSquaresQuadtree(96))
			emit(hierObs{Ev: "hier", Name: "reuse-square", Dim: 2, Cells: 96, N: len(a), NFlat: len(b), Diff: lineDiff(a, b), Seq: i + 1})
		}
	}
	// --- cell counts at and just below powers of two (the root square / cube must still cover the 1 % margin)
	for _, cells := range []int{32, 64, 127, 128} {
		emit(hier2("pow2-circle", fmtf(float64(cells)), ci, cells, 0))
		if cells <= 64 {
			emit(hier3("pow2-sphere", fmtf(float64(cells)), sp, cells, 0))
		}
	}
	// --- the same ball at very different absolute sizes (an absolute tolerance in the emptiness test shows at the
	// small end, a loss of precision at the large end)
	{
		u3, _ := sdf.Sphere3D(1)
		u2, _ := sdf.Circle2D(1)
		n3 := len(render.ToTriangles(u3, render.NewMarchingCubesOctree(30)))
		n2 := len(collectLines(u2, render.NewMarchingSquaresQuadtree(60)))
		for _, R := range []float64{5e-8, 1e-6, 1e-3, 1e3, 1e6} {
			b3, _ := sdf.Sphere3D(R)
			c2, _ := sdf.Circle2D(R)
			if R >= 1e-3 {
				emit(hier3("scaled-ball", fmtf(R), b3, 30, 0))
				emit(hier2("scaled-disc", fmtf(R), c2, 60, 0))
				continue
			}
			// for very small models the exhaustive reference (f/1024) itself runs into the renderers' absolute
			// 1e-12 vertex snapping; the reference is the unit-size render instead: the lattice scales with the
			// model, so the hierarchical render must produce the same number of items at every size
			a := len(render.ToTriangles(b3, render.NewMarchingCubesOctree(30)))
			d := a - n3
			if d < 0 {
				d = -d
			}
			emit(hierObs{Ev: "hier", Name: "scaled-ball-vs-unit-size", Dim: 3, Cells: 30, N: a, NFlat: n3, Diff: d, Param: fmtf(R)})
			b := len(collectLines(c2, render.NewMarchingSquaresQuadtree(60)))
			d = b - n2
			if d < 0 {
				d = -d
			}
			emit(hierObs{Ev: "hier", Name: "scaled-disc-vs-unit-size", Dim: 2, Cells: 60, N: b, NFlat: n2, Diff: d, Param: fmtf(R)})
		}
	}
	// --- a quadtree of 18 levels (lattice coordinates beyond 2^16): no exhaustive reference is affordable there, but
	// nothing may be lost: the segments of a thin straight box must add up to its perimeter up to the corner cuts
	// (diff = cells of length missing or in excess beyond 8)
	for _, cells := range []int{33000, 70000} {
		thin := sdf.Box2D(v2.Vec{X: 1000, Y: 1}, 0)
		lsd := collectLines(thin, render.NewMarchingSquaresQuadtree(cells))
		length := 0.0
		for _, l := range lsd {
			length += l[1].Sub(l[0]).Length()
		}
		h := 1000.0 / float64(cells)
		d := int(math.Abs(length-2002)/h) - 8
		if d < 0 {
			d = 0
		}
		emit(hierObs{Ev: "hier", Name: "deep-thin-box", Dim: 2, Cells: cells, N: len(lsd), NFlat: len(lsd), Diff: d, Param: fmtf(length)})
	}
	var ls [][]*sdf.Line2
	for _, cells := range seq {
		ls = append(ls, collectLines(ci, render.NewMarchingSquaresQuadtree(cells*4)))
	}
	for i, cells := range seq {
		b := collectLines(scaled2{ci, 1024}, render.NewMarchingSquaresQuadtree(cells*4))
		emit(hierObs{Ev: "hier", Name: "seq-circle", Dim: 2, Cells: cells * 4, N: len(ls[i]), NFlat: len(b), Diff: lineDiff(ls[i], b), Seq: i + 1})
	}
	// full-lattice reference scenes (c07f.go)
	c07FlatScenes()
	return nil
}

func init() { register("c07-tight", c07Tight) }
