package main

// C18 measured part (T): for every designation
//   helix    Screw3D(ISOThread(external), untapered): |f(p) - f(helical motion of p)|, z-period, wrong-hand control
//   mate     external screw vs the cutter of the matching internal thread (same taper), counts of offending samples
//   boltnut  obj.Bolt vs obj.Nut placed on the threaded section
//   taper    realised slope of the tapered screw's crest line
// Everything is measured here and judged by spec/trace/ScrewTrace.tla.

import (
	"encoding/json"
	"fmt"
	"math"
	"math/rand"

	"github.com/deadsy/sdfx/obj"
	"github.com/deadsy/sdfx/sdf"
	v3 "github.com/deadsy/sdfx/vec/v3"
)

type helixObs struct {
	Ev     string `json:"ev"`
	Name   string `json:"name"`
	TolU   int    `json:"tolu"` // tolerance in micrometres
	Starts int    `json:"starts"`
	Err    bool   `json:"err"` // construction failed
	N      int    `json:"n"`
	Long   int    `json:"long"` // 0: short screw; else length of the rod in pitches
	Inv    int64  `json:"inv"`  // max |f(p) - f(H p)| / pitch * 1e12
	Per    int64  `json:"per"`  // max |f(p) - f(p + pitch z)| / pitch * 1e12
	Anti   int64  `json:"anti"` // max |f(p) - f(H' p)| / pitch * 1e6 for the opposite-handed motion H'
	In     int    `json:"in"`   // samples inside the material
	Out    int    `json:"out"`
}

type mateObs struct {
	Style string   `json:"style,omitempty"` // boltnut: head / nut body style
	Ev    string   `json:"ev"`              // "mate" | "boltnut"
	Name  string   `json:"name"`
	TolE  int      `json:"tole"` // micrometres taken off the external radius
	TolI  int      `json:"toli"` // micrometres added to the internal radius
	Taper bool     `json:"taper"`
	Err   bool     `json:"err"`
	N     int      `json:"n"`
	ExtIn int      `json:"extin"` // samples inside the external thread / the bolt
	IntIn int      `json:"intin"` // samples inside the remaining (nut) material
	Amb   int      `json:"amb"`   // samples within 1e-9 pitch of either surface (not judged)
	Bad   int      `json:"bad"`   // samples inside both
	Worst int64    `json:"worst"` // deepest common penetration / pitch * 1e6
	WP    [3]int64 `json:"wp"`    // that sample (micro-units), for the report
}

type taperObs struct {
	Ev   string `json:"ev"`
	Name string `json:"name"`
	Err  bool   `json:"err"`
	Cot  int64  `json:"cot"`  // round(dz / -drho) of the crest line
	Res  int64  `json:"res"`  // relative residual 1e-12
	Want int64  `json:"want"` // round(1/tan(Taper)) of the database entry
	WRes int64  `json:"wres"`
}

func sat12(x float64) int64 {
	if math.IsNaN(x) || x >= satMax {
		return satMax
	}
	return int64(math.Ceil(x))
}

func isoDims(r, pitch float64) (r0, h float64) {
	h = pitch / (2 * math.Tan(math.Pi/6))
	return r - 7.0/8.0*h, h
}

// c18LongRod selects (by name, so that a re-measurement of one designation selects the same) the designations
// that are also measured as a long threaded rod.
func c18LongRod(name string) bool {
	h := 0
	for _, c := range name {
		h = (h*31 + int(c)) % 1000003
	}
	return h%7 == 1
}

// long > 0: a rod of `long` pitches instead of the short screw, sampled over its whole length
func measureHelix(name string, t *sdf.ThreadParameters, tol float64, tolU, starts int, rnd *rand.Rand, n int, long float64) helixObs {
	o := helixObs{Ev: "helix", Name: name, TolU: tolU, Starts: starts, N: n, Long: int(long)}
	r, p := t.Radius-tol, t.Pitch
	prof, err := sdf.ISOThread(r, p, true)
	if err != nil {
		o.Err = true
		return o
	}
	as := math.Abs(float64(starts))
	length := 2 * ((3+as)*p + r + 3*p)
	zspan := 2 * p
	if long > 0 {
		length = long * p
		zspan = 0.5*length - (2+as)*p - r
	}
	s, err := sdf.Screw3D(prof, length, 0, p, starts)
	if err != nil {
		o.Err = true
		return o
	}
	r0, _ := isoDims(r, p)
	lo := math.Max(r0-0.3*p, 0.05*r)
	hi := r + 0.3*p
	inv, per, anti := 0.0, 0.0, 0.0
	for i := 0; i < n; i++ {
		rho := lo + (hi-lo)*rnd.Float64()
		th := 2 * math.Pi * rnd.Float64()
		z := (2*rnd.Float64() - 1) * zspan
		phi := (4*rnd.Float64() - 2) * math.Pi
		if i%8 == 0 {
			phi *= 0.01 // small motions as well
		}
		bx, by := rho*math.Cos(th), rho*math.Sin(th)
		if i%16 == 3 {
			// a base point exactly on a coordinate half-plane (y = 0 or x = 0, not 1e-16)
			q := (i / 16) % 4
			th = float64(q) * math.Pi / 2
			bx, by = [4]float64{rho, 0, -rho, 0}[q], [4]float64{0, rho, 0, -rho}[q]
		}
		f := s.Evaluate(v3.Vec{X: bx, Y: by, Z: z})
		adv := float64(starts) * p * phi / (2 * math.Pi)
		g := s.Evaluate(v3.Vec{X: rho * math.Cos(th+phi), Y: rho * math.Sin(th+phi), Z: z + adv})
		a := s.Evaluate(v3.Vec{X: rho * math.Cos(th+phi), Y: rho * math.Sin(th+phi), Z: z - adv})
		q := s.Evaluate(v3.Vec{X: bx, Y: by, Z: z + p})
		inv = math.Max(inv, math.Abs(f-g))
		per = math.Max(per, math.Abs(f-q))
		if long > 0 {
			// a whole number of pitches back to the middle of the rod
			zc := z - math.Round(z/p)*p
			per = math.Max(per, math.Abs(f-s.Evaluate(v3.Vec{X: bx, Y: by, Z: zc})))
		}
		anti = math.Max(anti, math.Abs(f-a))
		if f < 0 {
			o.In++
		} else {
			o.Out++
		}
	}
	o.Inv = sat12(inv / p * 1e12)
	o.Per = sat12(per / p * 1e12)
	o.Anti = sat12(anti / p * 1e6)
	return o
}

// stratified sample of the thread annulus over two pitches around z = zc
func annulus(rnd *rand.Rand, ylo, yhi, p, zc, hz, slope float64, fn func(q v3.Vec)) int {
	nr, nt, nz := 8, 16, 16
	if tier() == "thorough" {
		nr, nt, nz = 12, 32, 32
	}
	n := 0
	for i := 0; i < nr; i++ {
		for j := 0; j < nt; j++ {
			for k := 0; k < nz; k++ {
				y := ylo + (yhi-ylo)*(float64(i)+rnd.Float64())/float64(nr)
				th := 2 * math.Pi * (float64(j) + rnd.Float64()) / float64(nt)
				dz := -hz + 2*hz*(float64(k)+rnd.Float64())/float64(nz)
				rho := y - dz*slope
				if rho <= 0 {
					continue
				}
				fn(v3.Vec{X: rho * math.Cos(th), Y: rho * math.Sin(th), Z: zc + dz})
				n++
			}
		}
	}
	return n
}

func (o *mateObs) judge(q v3.Vec, a, b, eps, p float64) {
	// a: external thread / bolt; b: remaining material (negative inside)
	if math.Abs(a) <= eps || math.Abs(b) <= eps {
		o.Amb++
		return
	}
	if a < 0 {
		o.ExtIn++
	}
	if b < 0 {
		o.IntIn++
	}
	if a < 0 && b < 0 {
		o.Bad++
		d := sat12(math.Min(-a, -b) / p * 1e6)
		if d > o.Worst {
			o.Worst = d
			o.WP = [3]int64{int64(q.X * 1e6), int64(q.Y * 1e6), int64(q.Z * 1e6)}
		}
	}
}

func measureMate(name string, t *sdf.ThreadParameters, tolE, tolI float64, uE, uI int, rnd *rand.Rand) mateObs {
	o := mateObs{Ev: "mate", Name: name, TolE: uE, TolI: uI, Taper: t.Taper != 0}
	p := t.Pitch
	ep, err1 := sdf.ISOThread(t.Radius-tolE, p, true)
	ip, err2 := sdf.ISOThread(t.Radius+tolI, p, false)
	if err1 != nil || err2 != nil {
		o.Err = true
		return o
	}
	ext, err1 := sdf.Screw3D(ep, 6*p, t.Taper, p, 1)
	cut, err2 := sdf.Screw3D(ip, 6*p, t.Taper, p, 1)
	if err1 != nil || err2 != nil {
		o.Err = true
		return o
	}
	r0, _ := isoDims(t.Radius-tolE, p)
	ylo := math.Max(r0-0.2*p, 0.05*t.Radius)
	yhi := t.Radius + tolI + 0.35*p
	eps := 1e-9 * p
	o.N = annulus(rnd, ylo, yhi, p, 0, p, math.Tan(t.Taper), func(q v3.Vec) {
		// the material left after cutting the internal thread is the complement of the cutter
		o.judge(q, ext.Evaluate(q), -cut.Evaluate(q), eps, p)
	})
	return o
}

func measureBoltNut(name string, t *sdf.ThreadParameters, tolE, tolI float64, uE, uI int, rnd *rand.Rand, style string) mateObs {
	o := mateObs{Ev: "boltnut", Name: name, TolE: uE, TolI: uI, Taper: t.Taper != 0, Style: style}
	p := t.Pitch
	hh := t.HexHeight()
	threadLength := 2*hh + 4*p
	bolt, err1 := obj.Bolt(&obj.BoltParms{Thread: name, Style: style, Tolerance: tolE, TotalLength: threadLength, ShankLength: 0})
	nut, err2 := obj.Nut(&obj.NutParms{Thread: name, Style: style, Tolerance: tolI})
	if err1 != nil || err2 != nil || bolt == nil || nut == nil {
		o.Err = true
		return o
	}
	// the bolt's thread is a Screw3D centred at threadOffset: a nut centred there has the same phase
	threadOffset := threadLength/2 + hh/2
	nutT := sdf.Transform3D(nut, sdf.Translate3d(v3.Vec{X: 0, Y: 0, Z: threadOffset}))
	r0, _ := isoDims(t.Radius-tolE, p)
	ylo := math.Max(r0-0.2*p, 0.05*t.Radius)
	yhi := t.Radius + tolI + 0.35*p
	hz := math.Min(p, 0.49*hh)
	eps := 1e-9 * p
	o.N = annulus(rnd, ylo, yhi, p, threadOffset, hz, math.Tan(t.Taper), func(q v3.Vec) {
		o.judge(q, bolt.Evaluate(q), nutT.Evaluate(q), eps, p)
	})
	return o
}

func measureTaper(name string, t *sdf.ThreadParameters) taperObs {
	o := taperObs{Ev: "taper", Name: name}
	o.Want, o.WRes = nearInt(1 / math.Tan(t.Taper))
	p := t.Pitch
	prof, err := sdf.ISOThread(t.Radius, p, true)
	if err != nil {
		o.Err = true
		return o
	}
	s, err := sdf.Screw3D(prof, 24*p, t.Taper, p, 1)
	if err != nil {
		o.Err = true
		return o
	}
	// at angle 0 and z = m*pitch the profile abscissa is 0 (crest centre): the crest is at rho = R - z*slope
	crest := func(z float64) float64 {
		c := t.Radius - z*math.Tan(t.Taper)
		lo, hi := c-0.04*p, c+0.04*p
		if !(s.Evaluate(v3.Vec{X: lo, Y: 0, Z: z}) < 0 && s.Evaluate(v3.Vec{X: hi, Y: 0, Z: z}) > 0) {
			return math.NaN()
		}
		for i := 0; i < 200 && hi-lo > 1e-17*c; i++ {
			m := 0.5 * (lo + hi)
			if m == lo || m == hi {
				break
			}
			if s.Evaluate(v3.Vec{X: m, Y: 0, Z: z}) < 0 {
				lo = m
			} else {
				hi = m
			}
		}
		return 0.5 * (lo + hi)
	}
	z1, z2 := -8*p, 8*p
	c1, c2 := crest(z1), crest(z2)
	if math.IsNaN(c1) || math.IsNaN(c2) || c1 == c2 {
		o.Err = true
		return o
	}
	o.Cot, o.Res = nearInt((z2 - z1) / (c1 - c2))
	return o
}

func c18Measure(args []string) error {
	rnd := rand.New(rand.NewSource(seed()*7919 + 18))
	nh := 400
	if tier() == "thorough" {
		nh = 2500
	}
	tolsMM := []float64{0, 0.05, 0.2}
	cnt := 0
	readVectors("-", func(raw json.RawMessage) {
		var v struct {
			Name string `json:"name"`
		}
		if err := json.Unmarshal(raw, &v); err != nil {
			fatal("bad vector: %v", err)
		}
		t, err := sdf.ThreadLookup(v.Name)
		if err != nil {
			fatal("measure: %q is not in the database", v.Name)
		}
		cnt++
		unit := 1.0
		if t.Units != "mm" {
			unit = 1 / 25.4
		}
		for _, tm := range tolsMM {
			tol := tm * unit
			u := int(math.Round(tm * 1000))
			for _, st := range []int{1, -1, 2, -3} {
				if tm != 0 && st != 1 && tier() != "thorough" {
					continue
				}
				emit(measureHelix(v.Name, t, tol, u, st, rnd, nh, 0))
				if tm == 0 && st == 1 && c18LongRod(v.Name) {
					// a threaded rod of 1300 pitches: the same laws far from the centre of the screw
					emit(measureHelix(v.Name, t, tol, u, st, rnd, nh, 1300))
				}
			}
			emit(measureMate(v.Name, t, tol, 0, u, 0, rnd))
			emit(measureBoltNut(v.Name, t, tol, 0, u, 0, rnd, "hex"))
			// every head / body style the generators offer cuts the same thread
			emit(measureBoltNut(v.Name, t, tol, 0, u, 0, rnd, "knurl"))
			if tm != 0 {
				emit(measureMate(v.Name, t, 0, tol, 0, u, rnd))
				emit(measureBoltNut(v.Name, t, 0, tol, 0, u, rnd, []string{"hex", "knurl"}[cnt%2]))
				emit(measureMate(v.Name, t, tol, tol, u, u, rnd))
			}
		}
		if t.Taper != 0 {
			emit(measureTaper(v.Name, t))
		}
	})
	if cnt == 0 {
		return fmt.Errorf("no names")
	}
	return nil
}

func init() { register("c18-measure", c18Measure) }
