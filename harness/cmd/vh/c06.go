package main

import (
	"encoding/json"
	"fmt"

	"github.com/deadsy/sdfx/render"
	"github.com/deadsy/sdfx/sdf"
	v3 "github.com/deadsy/sdfx/vec/v3"
)

type uniVec struct {
	Dims  [3]int      `json:"dims"`
	K     int         `json:"k"`
	Parts []scenePart `json:"parts"`
}

type uniObs struct {
	Ev    string      `json:"ev"`
	Dims  [3]int      `json:"dims"`
	Scene sceneVec    `json:"scene"`
	Tris  []edgeTri   `json:"tris"`
	Off   int         `json:"off"`
}

// c06-replay: exact scenes through the real uniform marching cubes renderer.
func c06Replay(args []string) error {
	n := 0
	readVectors("-", func(raw json.RawMessage) {
		var u uniVec
		if err := json.Unmarshal(raw, &u); err != nil {
			fatal("bad vector: %v", err)
		}
		sc := sceneVec{K: u.K, Parts: u.Parts}
		a, b, c := float64(u.Dims[0]), float64(u.Dims[1]), float64(u.Dims[2])
		f := &sceneField{sc: sc, unit: 1, scale: 1,
			bb: sdf.NewBox3(v3.Vec{X: (a + 1) / 2, Y: (b + 1) / 2, Z: (c + 1) / 2}, v3.Vec{X: a, Y: b, Z: c})}
		ts := render.ToTriangles(f, render.NewMarchingCubesUniform(maxi(u.Dims[0], u.Dims[1], u.Dims[2])))
		o := uniObs{Ev: "uni3", Dims: u.Dims, Scene: sc}
		o.Tris, o.Off = projectTrisToEdges(ts, v3.Vec{}, 1)
		emit(o)
		n++
	})
	if n == 0 {
		return fmt.Errorf("no vectors")
	}
	return nil
}

func init() { register("c06-replay", c06Replay) }
