package main

import (
	"encoding/json"
	"fmt"

	"github.com/deadsy/sdfx/render"
	"github.com/deadsy/sdfx/sdf"
	v3 "github.com/deadsy/sdfx/vec/v3"
)

type uniVec struct {
	Dims  [3]int      `json:"dims"`
	K     int         `json:"k"`
	Parts []scenePart `json:"parts"`
}

type uniObs struct {
	Ev      string    `json:"ev"`
	Dims    [3]int    `json:"dims"`
	Scene   sceneVec  `json:"scene"`
	Tris    []edgeTri `json:"tris"`
	Off     int       `json:"off"`
	BadNorm int       `json:"badnorm"` // non-sliver triangles in a smooth region whose normal disagrees with the field gradient
}

// c06-replay: exact scenes through the real uniform marching cubes renderer.
func c06Replay(args []string) error {
	n := 0
	readVectors("-", func(raw json.RawMessage) {
		var u uniVec
		if err := json.Unmarshal(raw, &u); err != nil {
			fatal("bad vector: %v", err)
		}
		sc := sceneVec{K: u.K, Parts: u.Parts}
		a, b, c := float64(u.Dims[0]), float64(u.Dims[1]), float64(u.Dims[2])
		f := &sceneField{sc: sc, unit: 1, scale: 1,
			bb: sdf.NewBox3(v3.Vec{X: (a + 1) / 2, Y: (b + 1) / 2, Z: (c + 1) / 2}, v3.Vec{X: a, Y: b, Z: c})}
		ts := render.ToTriangles(f, render.NewMarchingCubesUniform(maxi(u.Dims[0], u.Dims[1], u.Dims[2])))
		o := uniObs{Ev: "uni3", Dims: u.Dims, Scene: sc}
		o.Tris, o.Off = projectTrisToEdges(ts, v3.Vec{}, 1)
		o.BadNorm = badNormals(f, ts, 1)
		emit(o)
		n++
	})
	if n == 0 {
		return fmt.Errorf("no vectors")
	}
	return nil
}

func init() { register("c06-replay", c06Replay) }

// badNormals counts triangles (area > 1e-3 h^2) lying in a region where the field gradient is constant
// (same direction at the three vertices and the centroid) whose normal does not agree with it.
func badNormals(s sdf.SDF3, ts []*sdf.Triangle3, h float64) int {
	bad := 0
	e := 1e-4 * h
	for _, t := range ts {
		n := t[1].Sub(t[0]).Cross(t[2].Sub(t[0]))
		if n.Length() < 2e-3*h*h {
			continue
		}
		c := t[0].Add(t[1]).Add(t[2]).DivScalar(3)
		g := grad(s, c, e)
		if g.Length() == 0 {
			continue
		}
		gn := g.Normalize()
		smooth := true
		for j := 0; j < 3; j++ {
			// probe slightly towards the centroid so that a vertex on a crease does not straddle it
			q := t[j].Add(c.Sub(t[j]).MulScalar(0.05))
			gj := grad(s, q, e)
			if gj.Length() == 0 || gj.Normalize().Dot(gn) < 0.999 {
				smooth = false
			}
		}
		if smooth && n.Normalize().Dot(gn) <= 0 {
			bad++
		}
	}
	return bad
}
