package main

import (
	"sync"

	"github.com/deadsy/sdfx/render"
)

type poolRec struct {
	Ev     string   `json:"ev"`
	Dims   [3]int   `json:"dims"`
	N      int      `json:"n"`      // points per layer
	Layers int      `json:"layers"` // layers evaluated
	Events [][4]int `json:"events"`
	Nt     int      `json:"nt"`
}

// c09-pool-record: one free-running uniform render (all CPUs) with the pool hooks logging.
// It must be the first render of the process so that the workers' first idle events are seen.
func c09PoolRecord(args []string) error {
	scene := uniVec{Dims: [3]int{2, 15, 15}, K: 1, Parts: []scenePart{
		{Kind: "box", C: [3]int{2, 8, 8}, H: [3]int{1, 5, 6}, W: 1, Op: "u"},
		{Kind: "plane", C: [3]int{2, 8, 8}, H: [3]int{1, 2, -1}, W: 1, Op: "i"}}}
	var mu sync.Mutex
	var evs [][4]int
	seenIdle := map[int]bool{}
	render.VerifHook = func(ev string, a, b, c int) {
		mu.Lock()
		defer mu.Unlock()
		switch ev {
		case "ev.send":
			evs = append(evs, [4]int{1, b, c, 0})
		case "ev.waited":
			evs = append(evs, [4]int{2, 0, 0, 0})
		case "w.recv":
			evs = append(evs, [4]int{3, a, b, c})
		case "w.done":
			evs = append(evs, [4]int{4, a, 0, 0})
		case "w.idle":
			if seenIdle[a] { // the very first idle of a worker is its start, not the end of a batch
				evs = append(evs, [4]int{5, a, 0, 0})
			}
			seenIdle[a] = true
		}
	}
	f := uniField(scene)
	ts := render.ToTriangles(f, render.NewMarchingCubesUniform(15))
	render.VerifHook = nil
	mu.Lock()
	defer mu.Unlock()
	emit(poolRec{Ev: "poolrec", Dims: scene.Dims, N: (scene.Dims[1] + 2) * (scene.Dims[2] + 2), Layers: scene.Dims[0] + 2, Events: evs, Nt: len(ts)})
	return nil
}

func init() { register("c09-pool-record", c09PoolRecord) }
