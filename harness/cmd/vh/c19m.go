package main

// C19, T part: real shapes (spheres, boxes, rotated boxes, cylinders, unions, differences) built with
// the library's own constructors, wrapped with an enlarged bounding box (the property's premise: the
// surface is strictly inside the sampled volume), through both dual contouring renderers at several
// resolutions.  The harness MEASURES (integers), DCMeasureTrace.tla judges.

import (
	"math"
	"math/rand"

	"github.com/deadsy/sdfx/sdf"
	v3 "github.com/deadsy/sdfx/vec/v3"
)

// boxed presents a shape with another bounding box.
type boxed struct {
	s  sdf.SDF3
	bb sdf.Box3
}

func (b *boxed) Evaluate(p v3.Vec) float64 { return b.s.Evaluate(p) }
func (b *boxed) BoundingBox() sdf.Box3     { return b.bb }

type dcMeasObs struct {
	Ev        string `json:"ev"`
	Rep       int    `json:"rep"`
	Shape     string `json:"shape"`
	Kind      string `json:"kind"` // exact (Euclidean distance field) | csg (|f| is a lower bound of the distance)
	R         string `json:"r"`
	Cells     int    `json:"cells"`
	Outcome   string `json:"outcome"`
	Nt        int    `json:"nt"`
	Nv        int    `json:"nv"`
	Unmatched int    `json:"unmatched"`  // sum over directed edges of |count(a,b) - count(b,a)| / 2 (ids: coincidence within 1e-6 cell)
	Degen     int    `json:"degenerate"` // triangles with two identified vertices
	NaN       int    `json:"nan"`        // non-finite vertex coordinates
	Outside   int    `json:"outside"`    // vertex coordinates outside the sampled box (1e-9 cell)
	MaxDist   int64  `json:"maxdist"`    // max |f(v)| / cell diagonal * 1e6, rounded down
	Vol       int64  `json:"vol"`        // enclosed volume / cell volume, rounded towards zero (saturating 1e9)
	VolErr    int64  `json:"volerr"`     // |V - Vtrue| / Vtrue * 1e6 if known else -1 (informational)
	Same      bool   `json:"same"`
	Margin    int64  `json:"margin"` // min distance of a vertex to the sampled box in cells * 1000 (premise, informational)
	Param     string `json:"param"`
	Warn      dcWarn `json:"warn"`
}

type dcShape struct {
	name, kind, param string
	s                 sdf.SDF3
	vol               float64
	lattice           bool    // faces on lattice planes: margin of exactly 3 cells, no phase shift
	centred           bool    // no phase shift: the shape stays symmetric about the origin
	distScale         float64 // |Evaluate| * distScale is a LOWER bound of the distance to the surface (0: exact field, 1)
}

// latticeBox is an axis-aligned box whose faces lie on lattice planes of the n-cell grid (cell = 1/8,
// every coordinate exactly representable): the field is exactly zero at lattice corners.
func latticeBox(n int) dcShape {
	size := v3.Vec{X: float64(n-6) * 0.125, Y: float64(n-8) * 0.125, Z: float64(n-10) * 0.125}
	bx, _ := sdf.Box3D(size, 0)
	return dcShape{name: "latticebox", kind: "exact", s: bx, vol: size.X * size.Y * size.Z, param: fmtf(size.X, size.Y, size.Z), lattice: true}
}

// dcSampled returns the box the renderer samples, and its cell vector.
func dcSampled(bb sdf.Box3, which string, cells int) (lo, hi, cell v3.Vec) {
	size := bb.Size()
	res := size.MaxComponent() / float64(cells)
	n := [3]int{int(size.X / res), int(size.Y / res), int(size.Z / res)}
	if len(which) >= 3 && which[:3] == "dc2" {
		s2 := size.AddScalar(1e-12)
		cell = v3.Vec{X: s2.X / float64(n[0]), Y: s2.Y / float64(n[1]), Z: s2.Z / float64(n[2])}
		return bb.Min, bb.Max.AddScalar(1e-12), cell
	}
	p := [3]int{nextPow2(n[0]), nextPow2(n[1]), nextPow2(n[2])}
	m := maxi(p[0], p[1], p[2])
	cell = v3.Vec{X: size.X / float64(p[0]), Y: size.Y / float64(p[1]), Z: size.Z / float64(p[2])}
	return bb.Min, bb.Min.Add(cell.MulScalar(float64(m))), cell
}

func dcMeasure(sh dcShape, which string, cells int, shift v3.Vec) dcMeasObs {
	// enlarge the box: at least two cells of margin on every side, lattice phase shifted by `shift` (< 1/2 cell)
	bb0 := sh.s.BoundingBox()
	cellEst := bb0.Size().MaxComponent() / float64(cells-5)
	bb := sdf.Box3{Min: bb0.Min.SubScalar(2.5 * cellEst), Max: bb0.Max.AddScalar(2.5 * cellEst)}
	d := shift.MulScalar(cellEst)
	if sh.centred {
		d = v3.Vec{}
	}
	if sh.lattice {
		cellEst = bb0.Size().MaxComponent() / float64(cells-6)
		bb = sdf.Box3{Min: bb0.Min.SubScalar(3 * cellEst), Max: bb0.Max.AddScalar(3 * cellEst)}
		d = v3.Vec{}
	}
	bb = sdf.Box3{Min: bb.Min.Add(d), Max: bb.Max.Add(d)}
	s := &boxed{s: sh.s, bb: bb}
	ts, outcome, wn := renderDC(s, which, cells)
	lo, hi, cell := dcSampled(bb, which, cells)
	diag := cell.Length()
	o := dcMeasObs{Ev: "dcmeasure", Shape: sh.name, Kind: sh.kind, R: which, Cells: cells, Outcome: outcome,
		Nt: len(ts), Param: sh.param, Warn: wn, VolErr: -1}
	vi := newVertexIndex(1e-6)
	edges := map[[2]int]int{}
	maxd, vol, margin := 0.0, 0.0, math.Inf(1)
	for _, t := range ts {
		var ids [3]int
		bad := false
		for j := 0; j < 3; j++ {
			if !finite3(t[j]) {
				o.NaN++
				bad = true
				ids[j] = -(o.NaN)
				continue
			}
			q := [3]float64{(t[j].X - lo.X) / cell.X, (t[j].Y - lo.Y) / cell.Y, (t[j].Z - lo.Z) / cell.Z}
			h := [3]float64{(hi.X - lo.X) / cell.X, (hi.Y - lo.Y) / cell.Y, (hi.Z - lo.Z) / cell.Z}
			ids[j] = vi.id(q)
			for a := 0; a < 3; a++ {
				if q[a] < -1e-9 || q[a] > h[a]+1e-9 {
					o.Outside++
				}
				margin = math.Min(margin, math.Min(q[a], h[a]-q[a]))
			}
			ds := sh.distScale
			if ds == 0 {
				ds = 1
			}
			maxd = math.Max(maxd, ds*math.Abs(sh.s.Evaluate(t[j])))
		}
		if ids[0] == ids[1] || ids[1] == ids[2] || ids[2] == ids[0] {
			o.Degen++
		}
		for j := 0; j < 3; j++ {
			a, b := ids[j], ids[(j+1)%3]
			if a == b {
				continue
			}
			if a < b {
				edges[[2]int{a, b}]++
			} else {
				edges[[2]int{b, a}]--
			}
		}
		if !bad {
			vol += t[0].Dot(t[1].Cross(t[2])) / 6
		}
	}
	for _, c := range edges {
		if c < 0 {
			c = -c
		}
		o.Unmatched += c
	}
	o.Nv = len(vi.pts)
	o.MaxDist = int64(math.Floor(maxd / diag * 1e6))
	cv := vol / (cell.X * cell.Y * cell.Z)
	if math.Abs(cv) > 1e9 {
		cv = math.Copysign(1e9, cv)
	}
	o.Vol = int64(cv) // towards zero
	if sh.vol > 0 {
		o.VolErr = sat(math.Abs(vol-sh.vol) / sh.vol * 1e6)
	}
	if !math.IsInf(margin, 0) {
		o.Margin = int64(margin * 1000)
	}
	// determinism: second run, fresh renderer
	ts2, outcome2, _ := renderDC(s, which, cells)
	o.Same = outcome == outcome2 && sameTriangles(ts, ts2)
	return o
}

func dcShapes(rnd *rand.Rand) []dcShape {
	var shapes []dcShape
	R := 0.8 + 1.7*rnd.Float64()
	c := v3.Vec{X: rnd.Float64(), Y: rnd.Float64(), Z: rnd.Float64()}
	sp, _ := sdf.Sphere3D(R)
	sps := sdf.Transform3D(sp, sdf.Translate3d(c))
	shapes = append(shapes, dcShape{name: "sphere", kind: "exact", s: sps, vol: 4.0 / 3 * math.Pi * R * R * R, param: fmtf(R, c.X, c.Y, c.Z)})
	bs := v3.Vec{X: 1 + rnd.Float64(), Y: 1 + rnd.Float64(), Z: 1 + rnd.Float64()}
	bx, _ := sdf.Box3D(bs, 0)
	shapes = append(shapes, dcShape{name: "box", kind: "exact", s: bx, vol: bs.X * bs.Y * bs.Z, param: fmtf(bs.X, bs.Y, bs.Z)})
	ang := [3]float64{rnd.Float64(), rnd.Float64(), rnd.Float64()}
	rot := sdf.RotateX(ang[0]).Mul(sdf.RotateY(ang[1])).Mul(sdf.RotateZ(ang[2]))
	shapes = append(shapes, dcShape{name: "rotbox", kind: "exact", s: sdf.Transform3D(bx, rot), vol: bs.X * bs.Y * bs.Z,
		param: fmtf(bs.X, bs.Y, bs.Z, ang[0], ang[1], ang[2])})
	ch, cr := 1+rnd.Float64(), 0.5+rnd.Float64()
	cy, _ := sdf.Cylinder3D(ch, cr, 0)
	shapes = append(shapes, dcShape{name: "rotcylinder", kind: "exact", s: sdf.Transform3D(cy, rot), vol: math.Pi * cr * cr * ch,
		param: fmtf(ch, cr, ang[0], ang[1], ang[2])})
	// CSG: sphere + box, box - sphere, two rotated boxes
	s2, _ := sdf.Sphere3D(0.6 * bs.X)
	off := v3.Vec{X: 0.5 * bs.X, Y: 0.3 * bs.Y, Z: 0.2 * bs.Z}
	s2t := sdf.Transform3D(s2, sdf.Translate3d(off))
	shapes = append(shapes, dcShape{name: "union-box-sphere", kind: "csg", s: sdf.Union3D(bx, s2t), param: fmtf(bs.X, bs.Y, bs.Z)})
	shapes = append(shapes, dcShape{name: "difference-box-sphere", kind: "csg", s: sdf.Difference3D(bx, s2t), param: fmtf(bs.X, bs.Y, bs.Z)})
	shapes = append(shapes, dcShape{name: "union-box-rotbox", kind: "csg", s: sdf.Union3D(bx, sdf.Transform3D(bx, rot)),
		param: fmtf(bs.X, bs.Y, bs.Z, ang[0], ang[1], ang[2])})
	shapes = append(shapes, dcShape{name: "difference-sphere-sphere", kind: "csg",
		s: sdf.Difference3D(sps, sdf.Transform3D(s2, sdf.Translate3d(c.Add(v3.Vec{X: 0.8 * R})))), param: fmtf(R)})
	// a field that OVER-estimates the distance (non-uniform scale of a sphere, centred on the origin): ray casting
	// towards the surface can step past it, which is the renderers' fall-back path; |f| * 0.4 is a lower bound
	// of the true distance
	sq := 0.3 + 0.3*rnd.Float64()
	shapes = append(shapes, dcShape{name: "squashed-sphere", kind: "csg", s: sdf.Transform3D(sp, sdf.Scale3d(v3.Vec{X: 1, Y: 1, Z: sq})),
		param: fmtf(R, sq), centred: true, distScale: sq})
	return shapes
}

// diagBox is a box turned by 45 degrees about z whose vertical faces are the planes |x| + |y| = k/8 through
// lattice corners of the n-cell grid: the field is zero (up to rounding, either sign) on whole diagonals of
// lattice corners.
func diagBox(n int) dcShape {
	k := float64(n-6) * 0.0625
	a := k / math.Sqrt2
	c := float64(n-10) * 0.0625
	bx, _ := sdf.Box3D(v3.Vec{X: 2 * a, Y: 2 * a, Z: 2 * c}, 0)
	s := &boxed{s: sdf.Transform3D(bx, sdf.RotateZ(math.Pi/4)), bb: sdf.Box3{Min: v3.Vec{X: -k, Y: -k, Z: -c}, Max: v3.Vec{X: k, Y: k, Z: c}}}
	return dcShape{name: "diagbox", kind: "exact", s: s, vol: 8 * a * a * c, param: fmtf(a, c), lattice: true}
}

// c19-measure [renderers...]: seeded shapes -> measured observations
func c19Measure(args []string) error {
	which := []string{"dc2", "dc1"}
	if len(args) > 0 {
		which = args
	}
	rnd := rand.New(rand.NewSource(seed()))
	res := []int{12, 16, 24}
	reps := 1
	if tier() == "thorough" {
		reps = 4
		res = []int{12, 16, 24, 32, 40}
	}
	if len(args) == 0 {
		// long thin rods sampled with more than 2^10 cells along y and along z (V2 samples a uniform grid, so only
		// a thin part gets there): anything that packs or truncates cell coordinates shows as an open surface
		for ax := 1; ax <= 2; ax++ {
			sz := [3]float64{0.5, 0.5, 0.5}
			sz[ax] = 68
			rod, _ := sdf.Box3D(v3.Vec{X: sz[0], Y: sz[1], Z: sz[2]}, 0)
			sh := dcShape{name: "long-rod", kind: "exact", s: rod, vol: 17, param: fmtf(float64(ax))}
			o := dcMeasure(sh, "dc2", 1100, v3.Vec{X: 0.3, Y: -0.2, Z: 0.1})
			emit(o)
		}
	}
	if len(args) == 0 {
		// cell counts just above a power of two (and one just below): the octree of V1 is sized to the next power of
		// two, the grid of V2 to the count itself
		sp, _ := sdf.Sphere3D(1.3)
		sh := dcShape{name: "sphere-near-pow2", kind: "exact", s: sp, vol: 4.0 / 3 * math.Pi * 1.3 * 1.3 * 1.3, param: "1.3"}
		ns := []int{15, 17, 33, 34}
		if tier() == "thorough" {
			ns = []int{15, 17, 31, 33, 34, 63, 65, 68}
		}
		for _, n := range ns {
			for _, r := range []string{"dc1", "dc2"} {
				emit(dcMeasure(sh, r, n, v3.Vec{X: 0.2, Y: -0.3, Z: 0.1}))
			}
		}
	}
	for rep := 0; rep < reps; rep++ {
		shapes := dcShapes(rnd)
		if rep == 0 {
			shapes = append(shapes, dcShape{name: "latticebox", lattice: true}, dcShape{name: "diagbox", lattice: true},
				dcShape{name: "latticebox10", lattice: true})
		}
		for _, sh := range shapes {
			for _, n := range res {
				if sh.name == "latticebox" {
					sh = latticeBox(n)
				} else if sh.name == "latticebox10" {
					// faces exactly on lattice planes with a cell size that is not a dyadic rational
					size := v3.Vec{X: float64(n-6) * 0.1, Y: float64(n-8) * 0.1, Z: float64(n-10) * 0.1}
					bx, _ := sdf.Box3D(size, 0)
					sh = dcShape{name: "latticebox10", kind: "exact", s: bx, vol: size.X * size.Y * size.Z, param: fmtf(size.X, size.Y, size.Z), lattice: true}
				} else if sh.name == "diagbox" {
					sh = diagBox(n)
				}
				shift := v3.Vec{X: rnd.Float64() - 0.5, Y: rnd.Float64() - 0.5, Z: rnd.Float64() - 0.5}.MulScalar(0.9)
				for _, r := range which {
					o := dcMeasure(sh, r, n, shift)
					o.Rep = rep
					emit(o)
				}
				if len(args) == 0 && n == res[1] {
					// renderer settings / histories: no centre push (clamping still on); a renderer object reused
					// after another shape on the same lattice
					for _, r := range []string{"dc2p0", "dc2re"} {
						o := dcMeasure(sh, r, n, shift)
						o.Rep = rep
						emit(o)
					}
				}
			}
		}
	}
	return nil
}

func init() { register("c19-measure", c19Measure) }
