package main

// C11 / C12: replay of Pipeline.tla schedules into the real output pipeline
// (Triangle3Buffer / Line2Buffer -> channel -> writer goroutine -> sink) with the
// verif hooks acting as a scheduler gate.

import (
	"encoding/json"
	"fmt"
	"os"
	"path/filepath"
	"runtime"
	"sort"
	"sync"
	"time"

	"github.com/deadsy/sdfx/render"
	"github.com/deadsy/sdfx/sdf"
	v2 "github.com/deadsy/sdfx/vec/v2"
	v3 "github.com/deadsy/sdfx/vec/v3"
)

type pstep struct {
	Op string `json:"op"` // W (write), D (writer done with its batch), F (producer finished), X (buffer.Close)
	P  int    `json:"p"`
	N  int    `json:"n"`
}

type pipeVec struct {
	Sink  string  `json:"sink"` // mem | stl | 3mf | dxf | svg
	NP    int     `json:"np"`
	Steps []pstep `json:"steps"`
	ID    int     `json:"id"`
	Log   bool    `json:"log,omitempty"`   // also return the hook events of the run
	Async bool    `json:"async,omitempty"` // writes of different producers are issued without waiting for each other (multiset judged)
	// free: the writes of the schedule are issued by the rendering goroutine itself, one after the other, with no gate
	// and no hand-shake (what a renderer does); gmp > 0 sets GOMAXPROCS for the run (a render that is over before the
	// consumer goroutine has been scheduled for the first time is only seen this way)
	Free bool `json:"free,omitempty"`
	// free runs only: Close() after every write as well (a composite renderer that draws several parts, each
	// ending with Close as every library Render does, into one output)
	Parts bool `json:"parts,omitempty"`
	Gmp   int  `json:"gmp,omitempty"`
}

// gate is the scheduler gate driven by the hooks.
type gate struct {
	mu        sync.Mutex
	cv        *sync.Cond
	parked    bool // writer goroutine parked at its "received a batch" hook
	tokens    int
	open      bool
	sendCount int // batches offered to the channel (tb.send / lb.send)
	recvCount int // batches received by the writer
	doneCount int // batches fully consumed (collector only)
	events    [][3]int
	log       bool
}

func newGate() *gate {
	g := &gate{}
	g.cv = sync.NewCond(&g.mu)
	return g
}

const (
	evWrite = iota + 1
	evSend
	evUnlock
	evClose
	evRecv
	evDone
	evExit
)

func (g *gate) hookSdf(ev string, a, b int) {
	g.mu.Lock()
	defer g.mu.Unlock()
	switch ev {
	case "tb.write", "lb.write":
		g.rec(evWrite, a, b)
	case "tb.send", "lb.send":
		g.sendCount++
		g.rec(evSend, a, b)
		g.cv.Broadcast()
	case "tb.unlock", "lb.unlock":
		g.rec(evUnlock, a, b)
	case "tb.close", "lb.close":
		g.rec(evClose, a, b)
	case "tc.recv":
		g.recvd(a, b)
	case "tc.done":
		g.doneCount++
		g.rec(evDone, a, b)
		g.cv.Broadcast()
	case "tc.exit":
		g.rec(evExit, a, b)
	}
}

func (g *gate) hookRender(ev string, a, b, c int) {
	g.mu.Lock()
	defer g.mu.Unlock()
	switch ev {
	case "wr.recv":
		g.recvd(b, c)
	case "wr.eof":
		g.rec(evExit, 0, b)
	}
}

// recvd: the writer received a batch; park until released (called with mu held)
func (g *gate) recvd(n, total int) {
	g.recvCount++
	g.rec(evRecv, n, total)
	g.parked = true
	g.cv.Broadcast()
	for g.tokens == 0 && !g.open {
		g.cv.Wait()
	}
	if g.tokens > 0 {
		g.tokens--
	}
	g.parked = false
	g.cv.Broadcast()
}

func (g *gate) rec(kind, a, b int) {
	if g.log {
		g.events = append(g.events, [3]int{kind, a, b})
	}
}

// waitFor waits (with a time-out) until cond() holds; cond is evaluated with mu held.
func (g *gate) waitFor(cond func() bool, d time.Duration) bool {
	deadline := time.Now().Add(d)
	timer := time.AfterFunc(d, func() { g.mu.Lock(); g.cv.Broadcast(); g.mu.Unlock() })
	defer timer.Stop()
	g.mu.Lock()
	defer g.mu.Unlock()
	for !cond() {
		if time.Now().After(deadline) {
			return false
		}
		g.cv.Wait()
	}
	return true
}

// scripted renderer: executes the schedule inside Render.
type scripted3 struct {
	v        pipeVec
	g        *gate
	next     int // next item number
	realised bool
	note     string
}

type dummy3 struct{}

func (dummy3) Evaluate(p v3.Vec) float64 { return 1 }
func (dummy3) BoundingBox() sdf.Box3     { return sdf.NewBox3(v3.Vec{}, v3.Vec{X: 1, Y: 1, Z: 1}) }

type dummy2 struct{}

func (dummy2) Evaluate(p v2.Vec) float64 { return 1 }
func (dummy2) BoundingBox() sdf.Box2     { return sdf.NewBox2(v2.Vec{}, v2.Vec{X: 1, Y: 1}) }

func itemTriangle(k int) *sdf.Triangle3 {
	x := float64(k)
	if k%7 == 3 {
		// a sliver: distinct vertices in float64 that coincide once rounded to float32 (still an item)
		return &sdf.Triangle3{{X: x, Y: 0, Z: 0}, {X: x, Y: 1, Z: 0}, {X: x, Y: 1, Z: 1e-60}}
	}
	return &sdf.Triangle3{{X: x, Y: 0, Z: 0}, {X: x, Y: 1, Z: 0}, {X: x, Y: 0, Z: 1}}
}

func itemLine(k int) *sdf.Line2 {
	x := float64(k)
	return &sdf.Line2{{X: x, Y: 0}, {X: x, Y: 1}}
}

func (r *scripted3) Info(s sdf.SDF3) string { return "scripted" }
func (r *scripted3) Render(s sdf.SDF3, out sdf.Triangle3Writer) {
	runSchedule(r, func(lo, n int) {
		b := make([]*sdf.Triangle3, n)
		for i := range b {
			b[i] = itemTriangle(lo + i)
		}
		out.Write(b)
	}, func() { out.Close() })
}

type scripted2 struct{ *scripted3 }

func (r *scripted2) Info(s sdf.SDF2) string { return "scripted" }
func (r *scripted2) Render(s sdf.SDF2, out sdf.Line2Writer) {
	runSchedule(r.scripted3, func(lo, n int) {
		b := make([]*sdf.Line2, n)
		for i := range b {
			b[i] = itemLine(lo + i)
		}
		out.Write(b)
	}, func() { out.Close() })
}

const stepTimeout = 10 * time.Second

// runSchedule drives the producers and the gate through the steps of the vector.
func runSchedule(r *scripted3, write func(lo, n int), closeBuf func()) {
	g := r.g
	if r.v.Free {
		r.realised, r.next = true, 1
		for _, st := range r.v.Steps {
			if st.Op == "W" {
				write(r.next, st.N)
				r.next += st.N
				if r.v.Parts {
					closeBuf()
				}
			}
		}
		closeBuf()
		return
	}
	type cmd struct{ lo, n int }
	np := r.v.NP
	cmds := make([]chan cmd, np+1)
	returned := make([]int, np+2) // completed commands per producer (index np+1 = closer)
	issued := make([]int, np+2)
	var wg sync.WaitGroup
	for p := 1; p <= np; p++ {
		cmds[p] = make(chan cmd, len(r.v.Steps)+1)
		wg.Add(1)
		go func(p int) {
			defer wg.Done()
			for c := range cmds[p] {
				write(c.lo, c.n)
				g.mu.Lock()
				returned[p]++
				g.cv.Broadcast()
				g.mu.Unlock()
			}
		}(p)
	}
	closed := false
	doClose := func() {
		closed = true
		issued[np+1]++
		wg.Add(1)
		go func() {
			defer wg.Done()
			closeBuf()
			g.mu.Lock()
			returned[np+1]++
			g.cv.Broadcast()
			g.mu.Unlock()
		}()
	}
	// a producer is settled when its command returned or it is blocked in a send that cannot
	// complete because the writer is parked on an earlier batch
	settled := func(p int) func() bool {
		return func() bool {
			return returned[p] == issued[p] || (g.sendCount > g.recvCount && g.parked)
		}
	}
	r.realised = true
	r.next = 1
	for i, st := range r.v.Steps {
		ok := true
		switch st.Op {
		case "W":
			issued[st.P]++
			cmds[st.P] <- cmd{r.next, st.N}
			r.next += st.N
			if r.v.Async {
				// do not wait: the next producer's write races with this one
				break
			}
			ok = g.waitFor(settled(st.P), stepTimeout)
		case "D":
			if r.v.Async {
				// lenient: release the writer if it holds a batch (give it a moment to get there)
				if g.waitFor(func() bool { return g.parked }, 20*time.Millisecond) {
					g.mu.Lock()
					g.tokens++
					g.cv.Broadcast()
					g.mu.Unlock()
					g.waitFor(func() bool { return g.tokens == 0 }, stepTimeout)
				}
				break
			}
			// the writer parks shortly after the send that fed it completed
			if !g.waitFor(func() bool { return g.parked }, stepTimeout) {
				r.realised, r.note = false, fmt.Sprintf("step %d: D but the writer holds no batch", i)
				break
			}
			g.mu.Lock()
			before := g.recvCount
			g.tokens++
			g.cv.Broadcast()
			g.mu.Unlock()
			// the writer leaves the hook; if a send was pending it receives that batch and parks again
			ok = g.waitFor(func() bool {
				if g.sendCount > before {
					return g.recvCount > before && g.parked
				}
				return !g.parked && g.tokens == 0
			}, stepTimeout)
			if ok {
				// let every blocked producer run to completion or to its next block
				for p := 1; p <= np+1; p++ {
					if !g.waitFor(settled(p), stepTimeout) {
						ok = false
					}
				}
			}
		case "X":
			if r.v.Async {
				// Close is called by the renderer after every producer has finished: let everything drain
				g.mu.Lock()
				g.open = true
				g.cv.Broadcast()
				g.mu.Unlock()
				for p := 1; p <= np; p++ {
					p := p
					g.waitFor(func() bool { return returned[p] == issued[p] }, 6*stepTimeout)
				}
			}
			doClose()
			ok = g.waitFor(settled(np+1), stepTimeout)
		case "F":
		}
		if !ok {
			r.realised, r.note = false, fmt.Sprintf("step %d (%s) not realised within %v", i, st.Op, stepTimeout)
		}
		if !r.realised {
			break
		}
	}
	// end of schedule: open the gate, close the buffer if the schedule did not
	g.mu.Lock()
	g.open = true
	g.cv.Broadcast()
	g.mu.Unlock()
	for p := 1; p <= np; p++ {
		close(cmds[p])
	}
	if !closed {
		closeBuf()
	}
	wg.Wait()
}

type pipeObs struct {
	Ev        string   `json:"ev"`
	Vec       pipeVec  `json:"vec"`
	Realised  bool     `json:"realised"`
	Note      string   `json:"note,omitempty"`
	Written   int      `json:"written"`
	Delivered [][2]int `json:"delivered"` // item numbers read back from the sink, in order, as maximal runs <<first, length>> of consecutive numbers
	Events    [][3]int `json:"events,omitempty"`
	Count     int      `json:"count"` // the sink's own count field (STL header), else len(delivered)
	Returned  bool     `json:"returned"`
	ReadErr   string   `json:"readerr,omitempty"`
}

func runPipeVec(v pipeVec, dir string) pipeObs {
	g := newGate()
	sdf.VerifHook = g.hookSdf
	render.VerifHook = g.hookRender
	defer func() { sdf.VerifHook = nil; render.VerifHook = nil }()
	o := pipeObs{Ev: "pipe", Vec: v, Delivered: [][2]int{}}
	g.log = v.Log
	if v.Free {
		g.open = true
	}
	if v.Gmp > 0 {
		defer runtime.GOMAXPROCS(runtime.GOMAXPROCS(v.Gmp))
	}
	var items []int
	sc := scripted3{v: v, g: g}
	path := filepath.Join(dir, fmt.Sprintf("v%d.%s", v.ID, v.Sink))
	if v.Sink == "stl" || v.Sink == "3mf" || v.Sink == "dxf" || v.Sink == "svg" {
		// now and then the path already holds a longer file (an earlier, bigger export, junk or well-formed):
		// nothing of it may survive
		switch {
		case v.ID%15 == 7:
			c15Prefill(path, 3)
		case v.ID%5 == 0:
			c15Prefill(path, 0)
		}
	}
	done := make(chan struct{})
	go func() {
		defer close(done)
		switch v.Sink {
		case "mem":
			ts := render.ToTriangles(dummy3{}, &sc)
			for _, t := range ts {
				items = append(items, int(t[0].X))
			}
			o.Count = len(ts)
		case "tmemb":
			// public API only: the real Triangle3Buffer feeding a harness-owned consumer through a BUFFERED
			// channel; the consumer keeps every received slice until the end (it owns what it received)
			ch := make(chan []*sdf.Triangle3, 4)
			var keep [][]*sdf.Triangle3
			cdone := make(chan struct{})
			go func() {
				tot := 0
				for b := range ch {
					g.mu.Lock()
					g.recvd(len(b), tot)
					g.mu.Unlock()
					tot += len(b)
					keep = append(keep, b)
				}
				close(cdone)
			}()
			sc.Render(dummy3{}, sdf.NewTriangle3Buffer(ch))
			close(ch)
			<-cdone
			for _, b := range keep {
				for _, t := range b {
					if t == nil {
						items = append(items, -1)
					} else {
						items = append(items, int(t[0].X))
					}
				}
			}
			o.Count = len(items)
		case "lmemb":
			ch := make(chan []*sdf.Line2, 4)
			var keep [][]*sdf.Line2
			cdone := make(chan struct{})
			go func() {
				tot := 0
				for b := range ch {
					g.mu.Lock()
					g.recvd(len(b), tot)
					g.mu.Unlock()
					tot += len(b)
					keep = append(keep, b)
				}
				close(cdone)
			}()
			(&scripted2{&sc}).Render(dummy2{}, sdf.NewLine2Buffer(ch))
			close(ch)
			<-cdone
			for _, b := range keep {
				for _, l := range b {
					if l == nil {
						items = append(items, -1)
					} else {
						items = append(items, int(l[0].X))
					}
				}
			}
			o.Count = len(items)
		case "stl":
			render.ToSTL(dummy3{}, path, &sc)
		case "3mf":
			render.To3MF(dummy3{}, path, &sc)
		case "dxf":
			render.ToDXF(dummy2{}, path, &scripted2{&sc})
		case "svg":
			render.ToSVG(dummy2{}, path, &scripted2{&sc})
		}
	}()
	select {
	case <-done:
		o.Returned = true
	case <-time.After(60 * time.Second):
		o.Returned = false
		return o
	}
	o.Realised, o.Note = sc.realised, sc.note
	o.Written = sc.next - 1
	var err error
	switch v.Sink {
	case "stl":
		items, o.Count, err = readSTLItems(path)
	case "3mf":
		items, err = read3MFItems(path)
		o.Count = len(items)
	case "dxf":
		items, err = readDXFItems(path)
		o.Count = len(items)
	case "svg":
		items, err = readSVGItems(path)
		o.Count = len(items)
	}
	if err != nil {
		o.ReadErr = err.Error()
	}
	if v.Async {
		// producers race: the order is not determined, the multiset is
		sort.Ints(items)
	}
	o.Delivered = runsOf(items)
	if v.Log {
		g.mu.Lock()
		o.Events = g.events
		g.mu.Unlock()
	}
	os.Remove(path)
	return o
}

var c11Unrealised int

func c11Replay(args []string) error {
	dir, err := os.MkdirTemp("", "vh-c11-")
	if err != nil {
		return err
	}
	defer os.RemoveAll(dir)
	n := 0
	readVectors("-", func(raw json.RawMessage) {
		var v pipeVec
		if err := json.Unmarshal(raw, &v); err != nil {
			fatal("bad vector: %v", err)
		}
		v.ID = n
		if c11Unrealised >= 10 {
			// every schedule that the real code does not follow costs step time-outs (10 s each): after ten of them the
			// rest of this process's share is not tried (reported as not realised = drift)
			emit(pipeObs{Ev: "pipe", Vec: v, Returned: true, Realised: false, Note: "not tried: ten schedules of this batch were not realised", Delivered: [][2]int{}})
			n++
			return
		}
		o := runPipeVec(v, dir)
		if o.Returned && !o.Realised {
			c11Unrealised++
		}
		emit(o)
		n++
		if !o.Returned {
			// a hung pipeline leaves blocked goroutines behind: stop here, the caller restarts us
			flush()
			os.Exit(4)
		}
	})
	if n == 0 {
		return fmt.Errorf("no vectors")
	}
	return nil
}

func init() { register("c11-replay", c11Replay) }

// runsOf encodes a sequence of integers as maximal runs of consecutive values (lossless).
func runsOf(xs []int) [][2]int {
	out := [][2]int{}
	for _, x := range xs {
		if n := len(out); n > 0 && out[n-1][0]+out[n-1][1] == x {
			out[n-1][1]++
		} else {
			out = append(out, [2]int{x, 1})
		}
	}
	return out
}
