package main

// C01, first BoundingBox() calls that overlap: a program may build several parts from one shared sub-assembly
// in different goroutines; each of them asks the shared shape for its box.  A combinator that works its box
// out on first use must not hand a half-finished box to the second caller.
//
// The schedule is forced, not hoped for: one operand is a user-defined shape whose BoundingBox() can be held.
// Caller 1 asks the combinator for its box and (if the combinator computes it now) is held inside the operand;
// caller 2 then asks; then the operand is released.  Every box handed out is judged like any other box of the
// catalogue: the points where Evaluate() is negative (the operand centres) must be inside it.  A combinator
// that takes the operand boxes in its constructor never reaches the held operand: both callers get the stored box.

import (
	"fmt"
	"math"
	"sync/atomic"
	"time"

	"github.com/deadsy/sdfx/sdf"
	v2 "github.com/deadsy/sdfx/vec/v2"
	v3 "github.com/deadsy/sdfx/vec/v3"
	"github.com/deadsy/sdfx/vec/v3i"
)

type boxGate struct {
	closed  atomic.Bool
	entered chan struct{}
	release chan struct{}
}

func newBoxGate() *boxGate {
	return &boxGate{entered: make(chan struct{}, 64), release: make(chan struct{})}
}

func (g *boxGate) pass() {
	if g.closed.Load() {
		g.entered <- struct{}{}
		<-g.release
	}
}

type gated3 struct {
	s sdf.SDF3
	g *boxGate
}

func (x gated3) Evaluate(p v3.Vec) float64 { return x.s.Evaluate(p) }
func (x gated3) BoundingBox() sdf.Box3     { x.g.pass(); return x.s.BoundingBox() }

type gated2 struct {
	s sdf.SDF2
	g *boxGate
}

func (x gated2) Evaluate(p v2.Vec) float64 { return x.s.Evaluate(p) }
func (x gated2) BoundingBox() sdf.Box2     { x.g.pass(); return x.s.BoundingBox() }

// overlapCalls runs the forced schedule; box() is the BoundingBox call of the shape under test.
// It returns the boxes handed to caller 1 and caller 2 (as lo/hi coordinate slices) and whether the
// combinator reached the held operand at all.
func overlapCalls(g *boxGate, box func() ([]float64, []float64)) (res [2][2][]float64, lazy bool, err string) {
	type r struct{ lo, hi []float64 }
	call := func(out chan r) {
		defer func() {
			if p := recover(); p != nil {
				out <- r{}
			}
		}()
		lo, hi := box()
		out <- r{lo, hi}
	}
	g.closed.Store(true)
	defer func() {
		g.closed.Store(false)
	}()
	c1, c2 := make(chan r, 1), make(chan r, 1)
	go call(c1)
	var r1, r2 r
	got1 := false
	select {
	case r1 = <-c1:
		got1 = true
	case <-g.entered:
		lazy = true
	case <-time.After(5 * time.Second):
		close(g.release)
		return res, false, "caller 1 neither returned nor reached the operand"
	}
	go call(c2)
	got2 := false
	if lazy {
		// give caller 2 time to return with whatever the combinator hands out while caller 1 is held (it may
		// also block on a lock, or reach the operand itself: both are fine)
		select {
		case r2 = <-c2:
			got2 = true
		case <-g.entered:
		case <-time.After(300 * time.Millisecond):
		}
	}
	close(g.release)
	if !got1 {
		select {
		case r1 = <-c1:
		case <-time.After(5 * time.Second):
			return res, lazy, "caller 1 did not return after the operand was released"
		}
	}
	if !got2 {
		select {
		case r2 = <-c2:
		case <-time.After(5 * time.Second):
			return res, lazy, "caller 2 did not return after the operand was released"
		}
	}
	if r1.lo == nil || r2.lo == nil {
		return res, lazy, "BoundingBox() panicked"
	}
	res[0] = [2][]float64{r1.lo, r1.hi}
	res[1] = [2][]float64{r2.lo, r2.hi}
	return res, lazy, ""
}

// judgeBox: an observation in the format of the probe stage for one handed-out box and a set of points.
func judgeBox(ctor, name string, dim int, lo, hi []float64, pts [][]float64, eval func(p []float64) float64) bbObs {
	o := bbObs{Ev: "bbprobe", Ctor: ctor, Name: name, Dim: dim, Worst: []int{}}
	if !finite(append(append([]float64{}, lo...), hi...)...) {
		return o
	}
	o.Fin = 1
	d2 := 0.0
	for a := range lo {
		if lo[a] > hi[a] {
			return o
		}
		d2 += (hi[a] - lo[a]) * (hi[a] - lo[a])
	}
	o.Ord = 1
	diag := math.Sqrt(d2)
	o.Size = satMicro(diag)
	tol := 1e-9 * math.Max(diag, 1e-300)
	worst := 0.0
	for _, p := range pts {
		f := eval(p)
		o.Probes++
		if math.IsNaN(f) {
			o.NaN++
			continue
		}
		if f < -tol {
			o.Neg++
			out := false
			for a := range p {
				if p[a] < lo[a]-tol || p[a] > hi[a]+tol {
					out = true
				}
			}
			if out {
				o.NegOut++
				if f < worst {
					worst = f
					o.Worst = []int{}
					for a := range p {
						o.Worst = append(o.Worst, satMicro(p[a]))
					}
					o.Worst = append(o.Worst, satMicro(f))
				}
			}
		}
	}
	return o
}

func c01OverlappingFirstCalls() []bbObs {
	var out []bbObs
	ball := func(c v3.Vec) sdf.SDF3 {
		s, _ := sdf.Sphere3D(1)
		return sdf.Transform3D(s, sdf.Translate3d(c))
	}
	disc := func(c v2.Vec) sdf.SDF2 {
		s, _ := sdf.Circle2D(1)
		return sdf.Transform2D(s, sdf.Translate2d(c))
	}
	// sample points: a lattice of pitch 1 over the region any of the shapes below can occupy
	var pts3, pts2 [][]float64
	for x := -24.0; x <= 24; x++ {
		for y := -24.0; y <= 24; y++ {
			pts2 = append(pts2, []float64{x, y})
			for z := -6.0; z <= 6; z++ {
				pts3 = append(pts3, []float64{x, y, z})
			}
		}
	}
	type mk3 struct {
		ctor string
		f    func(g sdf.SDF3) (sdf.SDF3, error)
	}
	vi3, vi2 := 0, 0
	a3, c3 := ball(v3.Vec{}), ball(v3.Vec{Y: 20})
	far3 := v3.Vec{X: 10}
	for _, m := range []mk3{
		{"Union3D", func(g sdf.SDF3) (sdf.SDF3, error) { return sdf.Union3D(a3, g, c3), nil }},
		{"Union3D", func(g sdf.SDF3) (sdf.SDF3, error) { return sdf.Union3D(sdf.Union3D(a3, g), c3), nil }},
		{"Difference3D", func(g sdf.SDF3) (sdf.SDF3, error) { return sdf.Difference3D(sdf.Union3D(a3, g), c3), nil }},
		{"Intersect3D", func(g sdf.SDF3) (sdf.SDF3, error) {
			big, _ := sdf.Box3D(v3.Vec{X: 40, Y: 40, Z: 4}, 0)
			return sdf.Intersect3D(big, sdf.Union3D(a3, g, c3)), nil
		}},
		{"Transform3D", func(g sdf.SDF3) (sdf.SDF3, error) { return sdf.Transform3D(sdf.Union3D(a3, g), sdf.RotateZ(1)), nil }},
		{"ScaleUniform3D", func(g sdf.SDF3) (sdf.SDF3, error) { return sdf.ScaleUniform3D(sdf.Union3D(a3, g), 1.5), nil }},
		{"Offset3D", func(g sdf.SDF3) (sdf.SDF3, error) { return sdf.Offset3D(sdf.Union3D(a3, g), 0.5), nil }},
		{"Elongate3D", func(g sdf.SDF3) (sdf.SDF3, error) { return sdf.Elongate3D(sdf.Union3D(a3, g), v3.Vec{Y: 2}), nil }},
		{"Array3D", func(g sdf.SDF3) (sdf.SDF3, error) {
			return sdf.Array3D(sdf.Union3D(a3, g), v3i.Vec{X: 1, Y: 2, Z: 1}, v3.Vec{Y: 4}), nil
		}},
		{"RotateUnion3D", func(g sdf.SDF3) (sdf.SDF3, error) {
			return sdf.RotateUnion3D(sdf.Union3D(a3, g), 3, sdf.RotateZ(0.8)), nil
		}},
		{"RotateCopy3D", func(g sdf.SDF3) (sdf.SDF3, error) { return sdf.RotateCopy3D(sdf.Union3D(a3, g), 4), nil }},
		{"Cut3D", func(g sdf.SDF3) (sdf.SDF3, error) {
			return sdf.Cut3D(sdf.Union3D(a3, g), v3.Vec{Z: -0.5}, v3.Vec{Z: 1}), nil
		}},
		{"Multi3D", func(g sdf.SDF3) (sdf.SDF3, error) { return sdf.Multi3D(g, v3.VecSet{{}, {Y: 8}}), nil }},
	} {
		vi3++
		g := newBoxGate()
		s, err := m.f(gated3{ball(far3), g})
		if err != nil || s == nil {
			out = append(out, bbObs{Ev: "bbprobe", Ctor: m.ctor, Name: "overlapping-first-calls", Err: fmt.Sprint(err), Worst: []int{}})
			continue
		}
		res, _, e := overlapCalls(g, func() ([]float64, []float64) {
			b := s.BoundingBox()
			return []float64{b.Min.X, b.Min.Y, b.Min.Z}, []float64{b.Max.X, b.Max.Y, b.Max.Z}
		})
		for k := 0; k < 2; k++ {
			name := fmt.Sprintf("overlapping-first-calls:v%d:caller%d", vi3, k+1)
			if e != "" {
				out = append(out, bbObs{Ev: "bbprobe", Ctor: m.ctor, Name: name, Err: e, Worst: []int{}})
				continue
			}
			out = append(out, judgeBox(m.ctor, name, 3, res[k][0], res[k][1], pts3,
				func(p []float64) float64 { return s.Evaluate(v3.Vec{X: p[0], Y: p[1], Z: p[2]}) }))
		}
	}
	type mk2 struct {
		ctor string
		f    func(g sdf.SDF2) (sdf.SDF2, error)
	}
	a2, c2 := disc(v2.Vec{}), disc(v2.Vec{Y: 20})
	far2 := v2.Vec{X: 10}
	for _, m := range []mk2{
		{"Union2D", func(g sdf.SDF2) (sdf.SDF2, error) { return sdf.Union2D(a2, g, c2), nil }},
		{"Difference2D", func(g sdf.SDF2) (sdf.SDF2, error) { return sdf.Difference2D(sdf.Union2D(a2, g), c2), nil }},
		{"Transform2D", func(g sdf.SDF2) (sdf.SDF2, error) { return sdf.Transform2D(sdf.Union2D(a2, g), sdf.Rotate2d(1)), nil }},
		{"ScaleUniform2D", func(g sdf.SDF2) (sdf.SDF2, error) { return sdf.ScaleUniform2D(sdf.Union2D(a2, g), 1.5), nil }},
		{"Offset2D", func(g sdf.SDF2) (sdf.SDF2, error) { return sdf.Offset2D(sdf.Union2D(a2, g), 0.5), nil }},
		{"RotateCopy2D", func(g sdf.SDF2) (sdf.SDF2, error) { return sdf.RotateCopy2D(sdf.Union2D(a2, g), 4), nil }},
		{"RotateUnion2D", func(g sdf.SDF2) (sdf.SDF2, error) {
			return sdf.RotateUnion2D(sdf.Union2D(a2, g), 3, sdf.Rotate2d(0.8)), nil
		}},
		{"Cache2D", func(g sdf.SDF2) (sdf.SDF2, error) { return sdf.Cache2D(sdf.Union2D(a2, g)), nil }},
	} {
		vi2++
		g := newBoxGate()
		s, err := m.f(gated2{disc(far2), g})
		if err != nil || s == nil {
			out = append(out, bbObs{Ev: "bbprobe", Ctor: m.ctor, Name: "overlapping-first-calls", Err: fmt.Sprint(err), Worst: []int{}})
			continue
		}
		res, _, e := overlapCalls(g, func() ([]float64, []float64) {
			b := s.BoundingBox()
			return []float64{b.Min.X, b.Min.Y}, []float64{b.Max.X, b.Max.Y}
		})
		for k := 0; k < 2; k++ {
			name := fmt.Sprintf("overlapping-first-calls:v%d:caller%d", vi2, k+1)
			if e != "" {
				out = append(out, bbObs{Ev: "bbprobe", Ctor: m.ctor, Name: name, Err: e, Worst: []int{}})
				continue
			}
			out = append(out, judgeBox(m.ctor, name, 2, res[k][0], res[k][1], pts2,
				func(p []float64) float64 { return s.Evaluate(v2.Vec{X: p[0], Y: p[1]}) }))
		}
	}
	return out
}
