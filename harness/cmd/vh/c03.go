package main

// C03 stage 2: exact primitives against independent closed-form / brute-force distance oracles at
// seeded points (inside, outside, on medial axes, on the axis, far away), and the measured Lipschitz
// ratio |f(p)-f(q)| / |p-q| on random point pairs for the compositions the property lists.
// The harness measures; spec/trace/LawTrace.tla judges.

import (
	"fmt"
	"math"
	"math/rand"
	"strings"

	"github.com/deadsy/sdfx/sdf"
	v2 "github.com/deadsy/sdfx/vec/v2"
	v3 "github.com/deadsy/sdfx/vec/v3"
)

// signed distance to an axis-aligned box with half sizes h (any dimension), clamp form
func boxOracle(p, h []float64) float64 {
	out2, slack := 0.0, math.Inf(1)
	for i := range p {
		e := math.Abs(p[i]) - h[i]
		if e > 0 {
			out2 += e * e
		}
		slack = math.Min(slack, -e)
	}
	if out2 > 0 {
		return math.Sqrt(out2)
	}
	return -slack
}

func segDist(p, a, b v2.Vec) float64 {
	ab := b.Sub(a)
	t := 0.0
	if l2 := ab.Dot(ab); l2 > 0 {
		t = math.Max(0, math.Min(1, p.Sub(a).Dot(ab)/l2))
	}
	return p.Sub(a.Add(ab.MulScalar(t))).Length()
}

// brute-force signed distance to a simple polygon (crossing number + nearest edge)
func polyOracle(p v2.Vec, v []v2.Vec) float64 {
	d := math.Inf(1)
	in := false
	n := len(v)
	for i := 0; i < n; i++ {
		a, b := v[i], v[(i+1)%n]
		d = math.Min(d, segDist(p, a, b))
		if (a.Y > p.Y) != (b.Y > p.Y) {
			x := a.X + (p.Y-a.Y)*(b.X-a.X)/(b.Y-a.Y)
			if x > p.X {
				in = !in
			}
		}
	}
	if in {
		return -d
	}
	return d
}

// rounded truncated cone: the trapezoid (r0 at -h/2, r1 at +h/2) inset by `round`, dilated by `round`
func coneOracle(p v3.Vec, height, r0, r1, round float64) float64 {
	h := height / 2
	// outward unit normal of the slope in the (rho, z) plane
	dx, dz := r1-r0, height
	l := math.Hypot(dx, dz)
	nx, nz := dz/l, -dx/l
	// slope line: n.(x - (r0,-h)) = 0 ; inset by round: n.x = c - round
	c := nx*r0 + nz*(-h)
	ci := c - round
	hb := h - round
	// intersections of the inset slope with z = -hb and z = +hb
	x0 := (ci - nz*(-hb)) / nx
	x1 := (ci - nz*(hb)) / nx
	poly := []v2.Vec{{X: -x0, Y: -hb}, {X: x0, Y: -hb}, {X: x1, Y: hb}, {X: -x1, Y: hb}}
	return polyOracle(v2.Vec{X: math.Hypot(p.X, p.Y), Y: p.Z}, poly) - round
}

func c03Exact(args []string) error {
	rnd := rand.New(rand.NewSource(seed()*15485863 + 11))
	sets, pts := 8, 400
	if tier() == "thorough" {
		sets, pts = 40, 1500
	}
	u := func(a, b float64) float64 { return a + (b-a)*rnd.Float64() }
	// sample points: near / inside / medial / axis / far
	pt3 := func(ext float64, j int) v3.Vec {
		switch j % 6 {
		case 0:
			return v3.Vec{X: u(-1.5, 1.5) * ext, Y: u(-1.5, 1.5) * ext, Z: u(-1.5, 1.5) * ext}
		case 1:
			return v3.Vec{X: u(-0.5, 0.5) * ext, Y: u(-0.5, 0.5) * ext, Z: u(-0.5, 0.5) * ext}
		case 2:
			t := u(-1.5, 1.5) * ext // medial planes |x| = |y|
			return v3.Vec{X: t, Y: []float64{t, -t}[j/6%2], Z: u(-1.5, 1.5) * ext}
		case 3:
			return v3.Vec{X: 0, Y: 0, Z: u(-2, 2) * ext} // on the axis
		case 4:
			return v3.Vec{X: u(-100, 100) * ext, Y: u(-100, 100) * ext, Z: u(-100, 100) * ext}
		}
		t := u(-1.5, 1.5) * ext
		return v3.Vec{X: t, Y: t, Z: t}
	}
	pt2 := func(ext float64, j int) v2.Vec { p := pt3(ext, j); return v2.Vec{X: p.X, Y: p.Z} }
	L := map[string]*lawAcc{}
	order := []string{}
	reg := func(n string) *lawAcc {
		if L[n] == nil {
			L[n] = newLaw(n)
			order = append(order, n)
		}
		return L[n]
	}
	for i := 0; i < sets; i++ {
		// sphere / circle
		r := u(0.1, 5)
		sp, _ := sdf.Sphere3D(r)
		ci, _ := sdf.Circle2D(r)
		// boxes, rounding up to the admissible maximum, degenerate-but-valid sizes
		s3 := v3.Vec{X: u(0.2, 6), Y: u(0.2, 6), Z: u(0.2, 6)}
		if i%4 == 3 {
			s3.Z = 0.001
		}
		rb := []float64{0, u(0, 0.5), 0.5}[i%3] * math.Min(s3.X, math.Min(s3.Y, s3.Z))
		b3, _ := sdf.Box3D(s3, rb)
		s2 := v2.Vec{X: u(0.2, 6), Y: u(0.2, 6)}
		rb2 := []float64{0, u(0, 0.5), 0.5}[i%3] * math.Min(s2.X, s2.Y)
		b2 := sdf.Box2D(s2, rb2)
		// cylinder, capsule
		ch, cr := u(0.3, 6), u(0.2, 3)
		crd := []float64{0, u(0, 1), 1}[i%3] * math.Min(cr, ch/2)
		kr := u(0.2, 2)
		kh := 2*kr + u(0, 5)
		if i%5 == 4 {
			// degenerate but valid: the capsule whose height is exactly its diameter is a sphere; likewise the
			// cylinder rounded up to the admissible maximum
			kr = []float64{1, 0.5, 1.25, kr}[(i/5)%4]
			kh = 2 * kr
			if ch <= 2*cr {
				crd = ch / 2
			} else {
				crd = cr
			}
		}
		ca, _ := sdf.Capsule3D(kh, kr)
		cy, _ := sdf.Cylinder3D(ch, cr, crd)
		// cone (both slopes), rounded
		nh, n0, n1 := u(0.5, 6), u(0.5, 3), u(0.1, 3)
		if i%2 == 1 {
			n0, n1 = n1, n0
		}
		nrd := []float64{0, u(0, 0.2), 0.1}[i%3] * math.Min(nh/2, math.Min(n0, n1))
		co, _ := sdf.Cone3D(nh, n0, n1, nrd)
		// line, polygon
		ll, lr := u(0.1, 6), u(0, 1)
		ln := sdf.Line2D(ll, lr)
		nv := 3 + rnd.Intn(7)
		pv := make([]v2.Vec, nv)
		for j := range pv {
			a := sdf.Tau * (float64(j) + u(0.1, 0.9)) / float64(nv)
			rr := u(0.5, 3)
			pv[j] = v2.Vec{X: rr*math.Cos(a) + 1, Y: rr*math.Sin(a) - 2}
		}
		pg, _ := sdf.Polygon2D(pv)
		tag := fmt.Sprintf("set%d", i)
		for j := 0; j < pts; j++ {
			p := pt3(r, j)
			reg("Sphere3D").cmp(sp.Evaluate(p), p.Length()-r, tag)
			q := pt2(r, j)
			reg("Circle2D").cmp(ci.Evaluate(q), q.Length()-r, tag)
			p = pt3(s3.MaxComponent(), j)
			reg("Box3D(rounded)").cmp(b3.Evaluate(p), boxOracle([]float64{p.X, p.Y, p.Z}, []float64{s3.X/2 - rb, s3.Y/2 - rb, s3.Z/2 - rb})-rb,
				fmt.Sprintf("%s size=%v round=%g p=%v", tag, s3, rb, p))
			q = pt2(math.Max(s2.X, s2.Y), j)
			reg("Box2D(rounded)").cmp(b2.Evaluate(q), boxOracle([]float64{q.X, q.Y}, []float64{s2.X/2 - rb2, s2.Y/2 - rb2})-rb2,
				fmt.Sprintf("%s size=%v round=%g p=%v", tag, s2, rb2, q))
			p = pt3(math.Max(ch, cr), j)
			reg("Cylinder3D(rounded)").cmp(cy.Evaluate(p), boxOracle([]float64{math.Hypot(p.X, p.Y), p.Z}, []float64{cr - crd, ch/2 - crd})-crd,
				fmt.Sprintf("%s h=%g r=%g round=%g p=%v", tag, ch, cr, crd, p))
			p = pt3(kh, j)
			reg("Capsule3D").cmp(ca.Evaluate(p), segDist(v2.Vec{X: math.Hypot(p.X, p.Y), Y: p.Z}, v2.Vec{Y: -(kh/2 - kr)}, v2.Vec{Y: kh/2 - kr})-kr,
				fmt.Sprintf("%s h=%g r=%g p=%v", tag, kh, kr, p))
			p = pt3(math.Max(nh, math.Max(n0, n1)), j)
			reg("Cone3D(rounded)").cmp(co.Evaluate(p), coneOracle(p, nh, n0, n1, nrd), fmt.Sprintf("%s h=%g r0=%g r1=%g round=%g p=%v", tag, nh, n0, n1, nrd, p))
			q = pt2(ll+lr, j)
			reg("Line2D").cmp(ln.Evaluate(q), segDist(q, v2.Vec{X: -ll / 2}, v2.Vec{X: ll / 2})-lr, fmt.Sprintf("%s l=%g round=%g p=%v", tag, ll, lr, q))
			q = pt2(4, j).Add(v2.Vec{X: 1, Y: -2})
			if j%7 == 3 {
				q.Y = pv[j%nv].Y // level with a vertex
				reg("Polygon2D(point level with a vertex)").cmp(pg.Evaluate(q), polyOracle(q, pv), fmt.Sprintf("%s poly=%v p=%v", tag, pv, q))
			} else {
				reg("Polygon2D").cmp(pg.Evaluate(q), polyOracle(q, pv), fmt.Sprintf("%s poly=%v p=%v", tag, pv, q))
			}
		}
		// exactness preserved: rigid transform, uniform scale, outward offset, full revolution of a one-sided profile
		ax, ang, t := v3.Vec{X: u(-1, 1), Y: u(-1, 1), Z: u(-1, 1)}, u(-7, 7), v3.Vec{X: u(-5, 5), Y: u(-5, 5), Z: u(-5, 5)}
		k, of := u(0.3, 3), u(0, 1.5)
		chain := sdf.Offset3D(sdf.ScaleUniform3D(sdf.Transform3D(b3, sdf.Translate3d(t).Mul(sdf.Rotate3d(ax, ang))), k), of)
		// the scaling applied in two steps, directly on top of each other
		k1 := u(0.3, 3)
		chain2 := sdf.Offset3D(sdf.ScaleUniform3D(sdf.ScaleUniform3D(sdf.Transform3D(b3, sdf.Translate3d(t).Mul(sdf.Rotate3d(ax, ang))), k1), k/k1), of)
		kk := k1 * (k / k1)
		prof := sdf.Transform2D(b2, sdf.Translate2d(v2.Vec{X: s2.X/2 + u(0, 3), Y: u(-2, 2)}))
		pb := prof.BoundingBox()
		rev, _ := sdf.Revolve3D(prof)
		for j := 0; j < pts; j++ {
			p := pt3(10, j)
			q := rodrigues(ax, -ang, p.DivScalar(k).Sub(t))
			reg("Offset(ScaleUniform(Transform(Box3D)))").cmp(chain.Evaluate(p),
				k*(boxOracle([]float64{q.X, q.Y, q.Z}, []float64{s3.X/2 - rb, s3.Y/2 - rb, s3.Z/2 - rb})-rb)-of, tag)
			q = rodrigues(ax, -ang, p.DivScalar(k/k1).DivScalar(k1).Sub(t))
			reg("Offset(ScaleUniform(ScaleUniform(Transform(Box3D))))").cmp(chain2.Evaluate(p),
				kk*(boxOracle([]float64{q.X, q.Y, q.Z}, []float64{s3.X/2 - rb, s3.Y/2 - rb, s3.Z/2 - rb})-rb)-of, tag)
			// revolved rectangle: distance in the (rho, z) half plane (profile entirely at rho >= 0)
			c := pb.Center()
			rho := math.Hypot(p.X, p.Y)
			reg("Revolve3D(one-sided rounded box)").cmp(rev.Evaluate(p),
				boxOracle([]float64{rho - c.X, p.Z - c.Y}, []float64{s2.X/2 - rb2, s2.Y/2 - rb2})-rb2, tag)
		}
	}
	for _, n := range order {
		L[n].o.Law = "exact:" + L[n].o.Law
		L[n].done()
	}
	return nil
}

// constructors whose results the property lists as 1-Lipschitz
var lipCtors = map[string]bool{"Box2D": true, "Line2D": true, "Polygon2D": true, "ScaleUniform2D": true, "Offset2D": true, "Cut2D": true,
	"Elongate2D": true, "Array2D": true, "RotateUnion2D": true, "RotateCopy2D": true, "Union2D": true, "Difference2D": true, "Intersect2D": true,
	"Box3D": true, "Cylinder3D": true, "Capsule3D": true, "Cone3D": true, "ScaleUniform3D": true, "Offset3D": true, "Shell3D": true, "Cut3D": true,
	"Elongate3D": true, "Array3D": true, "RotateUnion3D": true, "RotateCopy3D": true, "Union3D": true, "Difference3D": true, "Intersect3D": true,
	"Extrude3D": true, "ExtrudeRounded3D": true, "Revolve3D": true, "RevolveTheta3D": true, "Slice2D": true, "Orient3D": true, "Multi3D": true, "LineOf3D": true}

type lipObs struct {
	Ev     string `json:"ev"`
	Ctor   string `json:"ctor"`
	Name   string `json:"name"`
	N      int    `json:"n"`
	Excess int    `json:"excess"` // max(|df|/|dp| - 1, 0), units 1e-12, saturating
	Worst  string `json:"worst"`
}

func c03Lip(args []string) error {
	k, pairs := 1, 3000
	if tier() == "thorough" {
		k, pairs = 4, 12000
	}
	rnd := rand.New(rand.NewSource(seed()*32452843 + 3))
	u := func(a, b float64) float64 { return a + (b-a)*rnd.Float64() }
	shapes := sdfCatalogue(seed(), k)
	// union / difference / intersection with the polynomial blend installed (the property lists them as 1-Lipschitz);
	// the operands' own boxes are remembered: half of the pairs of these shapes straddle a face of an operand's box
	faces := map[string][]sdf.Box3{}
	cb := &catBuilder{rnd: rand.New(rand.NewSource(seed()*15485863 + 31))}
	for i := 0; i < 6*k; i++ {
		a3, an := cb.placedSolid(i)
		sh := v3.Vec{X: cb.u(-1, 1), Y: cb.u(-1, 1), Z: cb.u(-0.5, 0.5)}
		b3 := sdf.Transform3D(a3, sdf.Translate3d(sh))
		if i%2 == 1 {
			b3, _ = cb.placedSolid(i + 7)
		}
		kb := cb.u(0.1, 0.8)
		var s3 sdf.SDF3
		var ctor string
		switch i % 3 {
		case 0:
			s3, ctor = sdf.Union3D(a3, b3), "Union3D+PolyMin"
			s3.(*sdf.UnionSDF3).SetMin(sdf.PolyMin(kb))
		case 1:
			s3, ctor = sdf.Difference3D(a3, b3), "Difference3D+PolyMax"
			s3.(*sdf.DifferenceSDF3).SetMax(sdf.PolyMax(kb))
		default:
			s3, ctor = sdf.Intersect3D(a3, b3), "Intersect3D+PolyMax"
			s3.(*sdf.IntersectionSDF3).SetMax(sdf.PolyMax(kb))
		}
		nm := fmt.Sprintf("%s/k=%.3g/%d", an, kb, i)
		shapes = append(shapes, probeShape{Name: nm, Ctor: ctor, S3: s3})
		faces[ctor+nm] = []sdf.Box3{a3.BoundingBox(), b3.BoundingBox()}
		a2, pn := cb.placedProfile(i)
		b2 := sdf.Transform2D(a2, sdf.Translate2d(v2.Vec{X: sh.X, Y: sh.Y}))
		var s2 sdf.SDF2
		switch i % 3 {
		case 0:
			s2, ctor = sdf.Union2D(a2, b2), "Union2D+PolyMin"
			s2.(*sdf.UnionSDF2).SetMin(sdf.PolyMin(kb))
		case 1:
			s2, ctor = sdf.Difference2D(a2, b2), "Difference2D+PolyMax"
			s2.(*sdf.DifferenceSDF2).SetMax(sdf.PolyMax(kb))
		default:
			s2, ctor = sdf.Intersect2D(a2, b2), "Intersect2D+PolyMax"
			s2.(*sdf.IntersectionSDF2).SetMax(sdf.PolyMax(kb))
		}
		shapes = append(shapes, probeShape{Name: fmt.Sprintf("%s/k=%.3g/%d", pn, kb, i), Ctor: ctor, S2: s2})
	}
	for _, ps := range shapes {
		if ps.Err != "" {
			continue
		}
		ok := lipCtors[ps.Ctor] || strings.Contains(ps.Ctor, "+Poly") || (strings.HasPrefix(ps.Ctor, "Transform") && strings.HasPrefix(ps.Name, "rot:"))
		if !ok {
			continue
		}
		o := lipObs{Ev: "lip", Ctor: ps.Ctor, Name: ps.Name}
		worst := 0.0
		func() {
			defer func() {
				if r := recover(); r != nil {
					o.Worst = fmt.Sprintf("panic: %v", r)
					o.N = 0
				}
			}()
			for j := 0; j < pairs; j++ {
				step := math.Pow(10, u(-6, 0.3))
				var f0, f1, dist float64
				var desc string
				if ps.S3 != nil {
					b := ps.S3.BoundingBox()
					c, sz := b.Center(), b.Size().MulScalar(0.75).AddScalar(1)
					p := v3.Vec{X: c.X + u(-1, 1)*sz.X, Y: c.Y + u(-1, 1)*sz.Y, Z: c.Z + u(-1, 1)*sz.Z}
					d := v3.Vec{X: rnd.NormFloat64(), Y: rnd.NormFloat64(), Z: rnd.NormFloat64()}.Normalize().MulScalar(step)
					q := p.Add(d)
					if fb := faces[ps.Ctor+ps.Name]; fb != nil && j%2 == 1 {
						// p and q on either side of a face of an operand's bounding box, near that box
						ob := fb[rnd.Intn(len(fb))]
						oc, os := ob.Center(), ob.Size().MulScalar(0.5).AddScalar(0.4)
						p = v3.Vec{X: oc.X + u(-1, 1)*os.X, Y: oc.Y + u(-1, 1)*os.Y, Z: oc.Z + u(-1, 1)*os.Z}
						lo, hi := [3]float64{ob.Min.X, ob.Min.Y, ob.Min.Z}, [3]float64{ob.Max.X, ob.Max.Y, ob.Max.Z}
						ax, side := rnd.Intn(3), rnd.Intn(2)
						fc := lo[ax]
						if side == 1 {
							fc = hi[ax]
						}
						q = p
						switch ax {
						case 0:
							p.X, q.X = fc-step/2, fc+step/2
						case 1:
							p.Y, q.Y = fc-step/2, fc+step/2
						default:
							p.Z, q.Z = fc-step/2, fc+step/2
						}
					}
					f0, f1, dist = ps.S3.Evaluate(p), ps.S3.Evaluate(q), q.Sub(p).Length()
					desc = fmt.Sprintf("p=%v q=%v", p, q)
				} else {
					b := ps.S2.BoundingBox()
					c, sz := b.Center(), b.Size().MulScalar(0.75).AddScalar(1)
					p := v2.Vec{X: c.X + u(-1, 1)*sz.X, Y: c.Y + u(-1, 1)*sz.Y}
					d := v2.Vec{X: rnd.NormFloat64(), Y: rnd.NormFloat64()}.Normalize().MulScalar(step)
					q := p.Add(d)
					f0, f1, dist = ps.S2.Evaluate(p), ps.S2.Evaluate(q), q.Sub(p).Length()
					desc = fmt.Sprintf("p=%v q=%v", p, q)
				}
				if dist == 0 {
					continue
				}
				o.N++
				// rounding of the two evaluations (relative 1e-13 of the magnitudes) is not a slope
				ex := (math.Abs(f1-f0)-1e-13*(math.Abs(f0)+math.Abs(f1)+1))/dist - 1
				if math.IsNaN(ex) {
					ex = 1e9
				}
				if ex > worst {
					worst = ex
					o.Worst = fmt.Sprintf("%s f(p)=%.12g f(q)=%.12g |dp|=%.6g", desc, f0, f1, dist)
				}
			}
		}()
		x := worst * 1e12
		if x > 2e9 {
			x = 2e9
		}
		o.Excess = int(math.Ceil(x))
		emit(o)
	}
	return nil
}

func init() {
	register("c03-exact", c03Exact)
	register("c03-lip", c03Lip)
}
