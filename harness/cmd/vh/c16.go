package main

// C16, interval part: the REAL Box2/Box3.MinMaxDist2 and Interval.Overlap are measured
// and projected to integers. Nothing is judged here (spec/trace/BoxTrace.tla does).

import (
	"encoding/json"
	"fmt"
	"math"
	"math/rand"
	"sort"
	"strconv"

	"github.com/deadsy/sdfx/sdf"
	v2 "github.com/deadsy/sdfx/vec/v2"
	v3 "github.com/deadsy/sdfx/vec/v3"
)

type c16Vec struct {
	T   string  `json:"t"` // grid | pts | ovl | uni
	D   int     `json:"d"`
	Lo  []int   `json:"lo"`
	Hi  []int   `json:"hi"`
	M   int     `json:"m"`
	N   int     `json:"n"`
	Q   int     `json:"q"` // denominator of the coordinates (0 = 1)
	Pts [][]int `json:"pts"`
	Prs [][]int `json:"prs"`
	// ovl: the end points themselves as IEEE-754 bit patterns (decimal strings), when the pair was drawn as floats
	// (prs then holds their ranks: the order is what the specification judges, the floats are what the code gets)
	Bits [][]string `json:"bits"`
	// union part (c16u.go)
	Ops []uniOp `json:"ops"`
	Kn  int     `json:"kn"`
	Kd  int     `json:"kd"`
	Win []int   `json:"win"`
}

type boxObs struct {
	Ev   string  `json:"ev"`
	D    int     `json:"d"`
	Lo   []int   `json:"lo"`
	Hi   []int   `json:"hi"`
	M    int     `json:"m,omitempty"`
	N    int     `json:"n,omitempty"`
	Q    int     `json:"q,omitempty"`
	Pts  [][]int `json:"pts,omitempty"`
	Mins []int64 `json:"mins"`
	Maxs []int64 `json:"maxs"`
}

type ovlObs struct {
	Ev   string     `json:"ev"`
	Prs  [][]int    `json:"prs"`
	Res  []int      `json:"res"`
	Bits [][]string `json:"bits,omitempty"` // report only
}

// toInt projects a squared distance (in units of 1/q^2) to an integer; a value that is not an
// exactly representable integer in range becomes -1 (never equal to a true squared distance).
func toInt(x float64, q int) int64 {
	y := x * float64(q) * float64(q)
	if math.IsNaN(y) || y < 0 || y > 2e9 || y != math.Floor(y) {
		return -1
	}
	return int64(y)
}

// realMinMax calls the real library function.
func realMinMax(d int, lo, hi, p []float64) (float64, float64) {
	if d == 2 {
		b := sdf.Box2{Min: v2.Vec{X: lo[0], Y: lo[1]}, Max: v2.Vec{X: hi[0], Y: hi[1]}}
		iv := b.MinMaxDist2(v2.Vec{X: p[0], Y: p[1]})
		return iv[0], iv[1]
	}
	b := sdf.Box3{Min: v3.Vec{X: lo[0], Y: lo[1], Z: lo[2]}, Max: v3.Vec{X: hi[0], Y: hi[1], Z: hi[2]}}
	iv := b.MinMaxDist2(v3.Vec{X: p[0], Y: p[1], Z: p[2]})
	return iv[0], iv[1]
}

func fl(v []int, q int) []float64 {
	r := make([]float64, len(v))
	for i := range v {
		r[i] = float64(v[i]) / float64(q)
	}
	return r
}

func boxObserve(v c16Vec) boxObs {
	q := v.Q
	if q == 0 {
		q = 1
	}
	o := boxObs{Ev: v.T, D: v.D, Lo: v.Lo, Hi: v.Hi, Q: v.Q}
	lo, hi := fl(v.Lo, q), fl(v.Hi, q)
	var pts [][]int
	if v.T == "grid" {
		o.M, o.N = v.M, v.N
		n := v.N
		tot := n * n
		if v.D == 3 {
			tot *= n
		}
		for k := 0; k < tot; k++ {
			p := []int{k%n - v.M, (k/n)%n - v.M}
			if v.D == 3 {
				p = append(p, k/(n*n)-v.M)
			}
			pts = append(pts, p)
		}
	} else {
		pts = v.Pts
		o.Pts = v.Pts
	}
	for _, p := range pts {
		mn, mx := realMinMax(v.D, lo, hi, fl(p, q))
		o.Mins = append(o.Mins, toInt(mn, q))
		o.Maxs = append(o.Maxs, toInt(mx, q))
	}
	return o
}

func ovlObserve(v c16Vec) ovlObs {
	o := ovlObs{Ev: "ovl", Prs: v.Prs}
	for i, pr := range v.Prs {
		a := sdf.Interval{float64(pr[0]), float64(pr[1])}
		b := sdf.Interval{float64(pr[2]), float64(pr[3])}
		if i < len(v.Bits) && len(v.Bits[i]) == 4 {
			var e [4]float64
			for j, t := range v.Bits[i] {
				u, err := strconv.ParseUint(t, 10, 64)
				if err != nil {
					fatal("bad bit pattern %q", t)
				}
				e[j] = math.Float64frombits(u)
			}
			a, b = sdf.Interval{e[0], e[1]}, sdf.Interval{e[2], e[3]}
			o.Bits = append(o.Bits, v.Bits[i])
		}
		r := 0
		if a.Overlap(b) {
			r = 1
		}
		o.Res = append(o.Res, r)
	}
	return o
}

// c16-replay: vectors (boxes, interval pairs, operand sets) -> observations of the real code.
func c16Replay(args []string) error {
	n := 0
	readVectors("-", func(raw json.RawMessage) {
		var v c16Vec
		if err := json.Unmarshal(raw, &v); err != nil {
			fatal("bad vector: %v", err)
		}
		switch v.T {
		case "grid", "pts":
			emit(boxObserve(v))
		case "ovl":
			emit(ovlObserve(v))
		case "uni":
			emit(uniObserve(v))
		default:
			fatal("unknown vector type %q", v.T)
		}
		n++
	})
	if n == 0 {
		return fmt.Errorf("no vectors")
	}
	return nil
}

// ---------------------------------------------------------------- random (T)

type boxfObs struct {
	Ev   string      `json:"ev"`
	D    int         `json:"d"`
	Idx  int         `json:"idx"`
	Reg  []string    `json:"reg"`
	Emin []int64     `json:"emin"` // |code - oracle| / (1 + oracle) in 1e-12 units, rounded DOWN
	Emax []int64     `json:"emax"`
	Box  [][]float64 `json:"box"` // for the report only
	P    [][]float64 `json:"p"`
}

func errE12(got, want float64) int64 {
	e := math.Abs(got-want) / (1 + math.Abs(want)) * 1e12
	if math.IsNaN(e) || e > 1e9 {
		return 1000000000
	}
	return int64(math.Floor(e))
}

func regionOf(d int, lo, hi, p []float64) string {
	n := 0
	for a := 0; a < d; a++ {
		if lo[a] < p[a] && p[a] < hi[a] {
			n++
		}
	}
	switch {
	case n == d:
		return "inside"
	case n == 0:
		return "vertex-region"
	case d == 2:
		return "side-region"
	case n == 2:
		return "face-region"
	}
	return "edge-region"
}

// snapCoord draws a coordinate relative to [lo,hi]: below, on lo, inside, on hi, above.
func snapCoord(r *rand.Rand, lo, hi, span float64) float64 {
	switch r.Intn(7) {
	case 0:
		return lo
	case 1:
		return hi
	case 2, 3:
		return lo + r.Float64()*(hi-lo)
	case 4:
		return lo - r.Float64()*span
	default:
		return hi + r.Float64()*span
	}
}

// c16-random: seeded random boxes / points / intervals measured on the real code.
//
//	pts   dyadic reals (multiples of 1/256): exact in float64, judged exactly by the trace spec
//	boxf  arbitrary float64: errors against the clamp / farthest-corner oracle, measured here
//	ovl   random intervals with ties, projected to ranks (order preserving)
func c16Random(args []string) error {
	r := rand.New(rand.NewSource(seed()*7919 + 16))
	nev := 60
	if tier() == "thorough" {
		nev = 400
	}
	const q = 256
	for i := 0; i < nev; i++ {
		d := 2 + i%2
		v := c16Vec{T: "pts", D: d, Q: q}
		for a := 0; a < d; a++ {
			x, y := r.Intn(2049)-1024, r.Intn(2049)-1024
			if r.Intn(8) == 0 {
				y = x // degenerate extent
			}
			if x > y {
				x, y = y, x
			}
			v.Lo = append(v.Lo, x)
			v.Hi = append(v.Hi, y)
		}
		for k := 0; k < 40; k++ {
			p := make([]int, d)
			for a := 0; a < d; a++ {
				p[a] = int(math.Round(snapCoord(r, float64(v.Lo[a]), float64(v.Hi[a]), 1000)))
			}
			v.Pts = append(v.Pts, p)
		}
		emit(boxObserve(v))
	}
	for i := 0; i < nev; i++ {
		d := 2 + i%2
		o := boxfObs{Ev: "boxf", D: d, Idx: i}
		scale := math.Pow(10, float64(r.Intn(7)-3))
		lo, hi := make([]float64, d), make([]float64, d)
		for a := 0; a < d; a++ {
			x, y := (r.Float64()*2-1)*scale, (r.Float64()*2-1)*scale
			if x > y {
				x, y = y, x
			}
			lo[a], hi[a] = x, y
		}
		o.Box = [][]float64{lo, hi}
		for k := 0; k < 40; k++ {
			p := make([]float64, d)
			for a := 0; a < d; a++ {
				p[a] = snapCoord(r, lo[a], hi[a], scale)
			}
			mn, mx := realMinMax(d, lo, hi, p)
			var tmin, tmax float64
			for a := 0; a < d; a++ {
				c := math.Max(lo[a], math.Min(hi[a], p[a]))
				tmin += (p[a] - c) * (p[a] - c)
				f := math.Max(math.Abs(p[a]-lo[a]), math.Abs(p[a]-hi[a]))
				tmax += f * f
			}
			o.Reg = append(o.Reg, regionOf(d, lo, hi, p))
			o.Emin = append(o.Emin, errE12(mn/(scale*scale), tmin/(scale*scale)))
			o.Emax = append(o.Emax, errE12(mx/(scale*scale), tmax/(scale*scale)))
			o.P = append(o.P, p)
		}
		emit(o)
	}
	// intervals: random end points from a small pool (many ties), ranks preserve the order
	for i := 0; i < nev/4+1; i++ {
		o := ovlObs{Ev: "ovl"}
		for k := 0; k < 50; k++ {
			pool := []float64{r.NormFloat64(), r.NormFloat64(), r.NormFloat64(), r.NormFloat64() * 1e-9, r.NormFloat64() * 1e9}
			// neighbours one and two units in the last place apart, and magnitudes whose sums overflow
			pool = append(pool, math.Nextafter(pool[0], math.Inf(1)), math.Nextafter(pool[1], math.Inf(-1)),
				math.Nextafter(math.Nextafter(pool[2], math.Inf(1)), math.Inf(1)))
			switch k % 5 {
			case 1:
				pool = append(pool, 1e16*r.Float64(), 225, math.Nextafter(225, 1e3), 650)
			case 2:
				pool = []float64{1.2e308 * r.Float64(), 1.5e308, -1.5e308 * r.Float64(), 1.7e308, math.Nextafter(1.5e308, 0)}
			}
			e := [4]float64{}
			for j := range e {
				e[j] = pool[r.Intn(len(pool))]
			}
			if e[0] > e[1] {
				e[0], e[1] = e[1], e[0]
			}
			if e[2] > e[3] {
				e[2], e[3] = e[3], e[2]
			}
			s := append([]float64{}, e[:]...)
			sort.Float64s(s)
			rk := make([]int, 4)
			for j := range e {
				rk[j] = sort.SearchFloat64s(s, e[j])
			}
			res := 0
			if (sdf.Interval{e[0], e[1]}).Overlap(sdf.Interval{e[2], e[3]}) {
				res = 1
			}
			o.Prs = append(o.Prs, rk)
			o.Res = append(o.Res, res)
			bits := make([]string, 4)
			for j := range e {
				bits[j] = strconv.FormatUint(math.Float64bits(e[j]), 10)
			}
			o.Bits = append(o.Bits, bits)
		}
		emit(o)
	}
	return nil
}

func init() {
	register("c16-replay", c16Replay)
	register("c16-random", c16Random)
}
