package main

// C02 stage 2: node laws measured on seeded real-valued compositions.  For every law the node's
// Evaluate is compared with the law computed from the OPERANDS' Evaluate at the independently mapped
// point; the harness logs the largest relative deviation in units of 1e-12 (saturating) and
// spec/trace/LawTrace.tla judges.  Also: PolyMin/PolyMax on the rational grid chosen by Blend.tla,
// Cache2D histories chosen by Cache.tla (against a counting spy operand), VoxelSDF3 corner/range laws.

import (
	"encoding/json"
	"fmt"
	"math"
	"math/rand"

	"github.com/deadsy/sdfx/sdf"
	v2 "github.com/deadsy/sdfx/vec/v2"
	"github.com/deadsy/sdfx/vec/v2i"
	v3 "github.com/deadsy/sdfx/vec/v3"
	"github.com/deadsy/sdfx/vec/v3i"
)

type lawObs struct {
	Ev      string `json:"ev"`
	Law     string `json:"law"`
	N       int    `json:"n"`       // samples compared
	MaxErr  int    `json:"maxerr"`  // max |node - law| / max(1, |law|), units 1e-12, saturating
	Skipped int    `json:"skipped"` // samples skipped (ambiguous: on a sector / cell boundary)
	Worst   string `json:"worst"`
}

type lawAcc struct {
	o     lawObs
	worst float64
}

func newLaw(name string) *lawAcc { return &lawAcc{o: lawObs{Ev: "law", Law: name}} }
func (l *lawAcc) cmp(node, law float64, what string) {
	l.o.N++
	e := math.Abs(node-law) / math.Max(1, math.Abs(law))
	if math.IsNaN(e) {
		e = 1
	}
	if e > l.worst || l.o.N == 1 {
		if e > l.worst {
			l.worst = e
			l.o.Worst = fmt.Sprintf("%s node=%.12g law=%.12g", what, node, law)
		}
	}
}
func (l *lawAcc) skip() { l.o.Skipped++ }
func (l *lawAcc) done() {
	x := l.worst * 1e12
	if x > 2e9 {
		x = 2e9
	}
	l.o.MaxErr = int(math.Ceil(x))
	emit(l.o)
}

// independent rotation helpers (not sdf.M44 / Inverse)
func rodrigues(axis v3.Vec, ang float64, p v3.Vec) v3.Vec {
	k := axis.Normalize()
	c, s := math.Cos(ang), math.Sin(ang)
	return p.MulScalar(c).Add(k.Cross(p).MulScalar(s)).Add(k.MulScalar(k.Dot(p) * (1 - c)))
}
func rot2(ang float64, p v2.Vec) v2.Vec {
	c, s := math.Cos(ang), math.Sin(ang)
	return v2.Vec{X: c*p.X - s*p.Y, Y: s*p.X + c*p.Y}
}

func c02Laws(args []string) error {
	rnd := rand.New(rand.NewSource(seed()*104729 + 5))
	sets, pts := 6, 200
	if tier() == "thorough" {
		sets, pts = 30, 400
	}
	c := &catBuilder{rnd: rnd}
	u := c.u
	rp2 := func() v2.Vec { return v2.Vec{X: u(-9, 9), Y: u(-9, 9)} }
	rp3 := func() v3.Vec { return v3.Vec{X: u(-9, 9), Y: u(-9, 9), Z: u(-6, 6)} }
	L := map[string]*lawAcc{}
	law := func(n string) *lawAcc {
		if L[n] == nil {
			L[n] = newLaw(n)
		}
		return L[n]
	}
	order := []string{}
	reg := func(n string) *lawAcc {
		if L[n] == nil {
			order = append(order, n)
		}
		return law(n)
	}
	for i := 0; i < sets; i++ {
		a2, an := c.placedProfile(i)
		b2, bn := c.placedProfile(i + 1 + rnd.Intn(5))
		a3, sn := c.placedSolid(i)
		b3, tn := c.placedSolid(i + 1 + rnd.Intn(5))
		tag := fmt.Sprintf("set%d %s %s %s %s", i, an, bn, sn, tn)
		// ---- 2D
		un, di, in := sdf.Union2D(a2, b2), sdf.Difference2D(a2, b2), sdf.Intersect2D(a2, b2)
		th, t2 := u(-7, 7), v2.Vec{X: u(-5, 5), Y: u(-5, 5)}
		sc2 := v2.Vec{X: u(0.4, 2), Y: -u(0.4, 2)}
		tr := sdf.Transform2D(a2, sdf.Translate2d(t2).Mul(sdf.Rotate2d(th)).Mul(sdf.Scale2d(sc2)))
		mir := sdf.Transform2D(a2, sdf.MirrorX())
		k := u(0.3, 3)
		su := sdf.ScaleUniform2D(a2, k)
		of := u(-0.5, 1.5)
		off := sdf.Offset2D(a2, of)
		ca, cv := v2.Vec{X: u(-3, 3), Y: u(-3, 3)}, v2.Vec{X: u(-1, 1), Y: u(-1, 1)}
		cut := sdf.Cut2D(a2, ca, cv)
		eh := v2.Vec{X: u(0, 3), Y: u(0, 2)}
		el := sdf.Elongate2D(a2, eh)
		num, step := v2i.Vec{X: 1 + rnd.Intn(3), Y: 1 + rnd.Intn(3)}, v2.Vec{X: u(-4, 4), Y: u(-4, 4)}
		if i%3 == 2 {
			// many copies at a pitch well below the size of the part: every copy matters, not only the nearest ones
			num, step = v2i.Vec{X: 1 + rnd.Intn(7), Y: 1 + rnd.Intn(7)}, v2.Vec{X: u(-1.2, 1.2), Y: u(-1.2, 1.2)}
		}
		ar := sdf.Array2D(a2, num, step)
		n := 1 + rnd.Intn(7)
		rc := sdf.RotateCopy2D(a2, n)
		// copies evenly round the full circle, or (every other set) on part of an arc: then copy n does not
		// coincide with copy 0 and the union is exactly copies 0..n-1
		ra2 := sdf.Tau / float64(n)
		if i%2 == 1 {
			ra2 *= u(0.15, 0.9)
		}
		ru := sdf.RotateUnion2D(a2, n, sdf.Rotate2d(ra2))
		for j := 0; j < pts; j++ {
			p := rp2()
			fa, fb := a2.Evaluate(p), b2.Evaluate(p)
			reg("Union2D=min(exact operands)").cmp(un.Evaluate(p), math.Min(fa, fb), tag)
			reg("Difference2D=max(a,-b)").cmp(di.Evaluate(p), math.Max(fa, -fb), tag)
			reg("Intersect2D=max").cmp(in.Evaluate(p), math.Max(fa, fb), tag)
			q := rot2(-th, p.Sub(t2))
			q = v2.Vec{X: q.X / sc2.X, Y: q.Y / sc2.Y}
			reg("Transform2D=operand(M^-1 p)").cmp(tr.Evaluate(p), a2.Evaluate(q), tag)
			reg("Transform2D(MirrorX)=operand(x,-y)").cmp(mir.Evaluate(p), a2.Evaluate(v2.Vec{X: p.X, Y: -p.Y}), tag)
			reg("ScaleUniform2D=k*operand(p/k)").cmp(su.Evaluate(p), k*a2.Evaluate(p.DivScalar(k)), tag)
			reg("Offset2D=operand-offset").cmp(off.Evaluate(p), fa-of, tag)
			nn := v2.Vec{X: -cv.Y, Y: cv.X}.Normalize()
			reg("Cut2D=max(plane,operand)").cmp(cut.Evaluate(p), math.Max(p.Sub(ca).Dot(nn), fa), tag)
			cl := v2.Vec{X: math.Max(-eh.X/2, math.Min(eh.X/2, p.X)), Y: math.Max(-eh.Y/2, math.Min(eh.Y/2, p.Y))}
			reg("Elongate2D=operand(p-clamp(p))").cmp(el.Evaluate(p), a2.Evaluate(p.Sub(cl)), tag)
			m := math.Inf(1)
			for jx := 0; jx < num.X; jx++ {
				for jy := 0; jy < num.Y; jy++ {
					m = math.Min(m, a2.Evaluate(v2.Vec{X: p.X - float64(jx)*step.X, Y: p.Y - float64(jy)*step.Y}))
				}
			}
			reg("Array2D=min over copies").cmp(ar.Evaluate(p), m, tag)
			// rotate-copy: fold the angle into [-theta/2, theta/2) independently
			sec := sdf.Tau / float64(n)
			ang := math.Atan2(p.Y, p.X)
			kk := math.Floor((ang + sec/2) / sec)
			fr := (ang+sec/2)/sec - kk
			if fr < 1e-6 || fr > 1-1e-6 {
				reg("RotateCopy2D=operand(folded p)").skip()
			} else {
				reg("RotateCopy2D=operand(folded p)").cmp(rc.Evaluate(p), a2.Evaluate(rot2(-kk*sec, p)), tag)
			}
			m = math.Inf(1)
			for jn := 0; jn < n; jn++ {
				m = math.Min(m, a2.Evaluate(rot2(-float64(jn)*ra2, p)))
			}
			reg("RotateUnion2D=min over rotated copies").cmp(ru.Evaluate(p), m, tag)
		}
		// ---- 3D
		un3, di3, in3 := sdf.Union3D(a3, b3), sdf.Difference3D(a3, b3), sdf.Intersect3D(a3, b3)
		ax, ang3, t3 := v3.Vec{X: u(-1, 1), Y: u(-1, 1), Z: u(-1, 1)}, u(-7, 7), v3.Vec{X: u(-5, 5), Y: u(-5, 5), Z: u(-5, 5)}
		sc3 := v3.Vec{X: u(0.4, 2), Y: u(0.4, 2), Z: -u(0.4, 2)}
		tr3 := sdf.Transform3D(a3, sdf.Translate3d(t3).Mul(sdf.Rotate3d(ax, ang3)).Mul(sdf.Scale3d(sc3)))
		mxy := sdf.Transform3D(a3, sdf.MirrorXeqY())
		// determinant-one matrices that are NOT rigid: a volume preserving stretch and a shear
		sv := u(1.3, 3)
		vp3 := sdf.Transform3D(a3, sdf.Scale3d(v3.Vec{X: sv, Y: 1 / sv, Z: 1}))
		sha := u(-1.5, 1.5)
		shearM := sdf.Identity3d()
		shearM[1] = sha // x' = x + a*y
		sh3d := sdf.Transform3D(a3, shearM)
		vpr3 := sdf.Transform3D(a3, sdf.Rotate3d(ax, ang3).Mul(sdf.Scale3d(v3.Vec{X: sv * sv, Y: 1 / sv, Z: 1 / sv})))
		su3 := sdf.ScaleUniform3D(a3, k)
		off3 := sdf.Offset3D(a3, of)
		thick := u(0.1, 1)
		sh3, _ := sdf.Shell3D(a3, thick)
		ca3, cn3 := v3.Vec{X: u(-3, 3), Y: u(-3, 3), Z: u(-3, 3)}, v3.Vec{X: u(-1, 1), Y: u(-1, 1), Z: u(-1, 1)}
		cut3 := sdf.Cut3D(a3, ca3, cn3)
		eh3 := v3.Vec{X: u(0, 3), Y: u(0, 2), Z: u(0, 2)}
		el3 := sdf.Elongate3D(a3, eh3)
		num3, step3 := v3i.Vec{X: 1 + rnd.Intn(2), Y: 1 + rnd.Intn(3), Z: 1 + rnd.Intn(2)}, v3.Vec{X: u(-4, 4), Y: u(-4, 4), Z: u(-4, 4)}
		if i%3 == 2 {
			num3, step3 = v3i.Vec{X: 1 + rnd.Intn(7), Y: 1 + rnd.Intn(6), Z: 1 + rnd.Intn(3)}, v3.Vec{X: u(-1.2, 1.2), Y: u(-1.2, 1.2), Z: u(-1.2, 1.2)}
		}
		ar3 := sdf.Array3D(a3, num3, step3)
		rc3 := sdf.RotateCopy3D(a3, n)
		ra3 := sdf.Tau / float64(n)
		if i%2 == 1 {
			ra3 *= u(0.15, 0.9)
		}
		ru3 := sdf.RotateUnion3D(a3, n, sdf.RotateZ(ra3))
		h := u(1, 6)
		ex := sdf.Extrude3D(a2, h)
		tw := u(-7, 7)
		twx := sdf.TwistExtrude3D(a2, h, tw)
		scl := v2.Vec{X: u(0.3, 2.5), Y: u(0.3, 2.5)}
		sce := sdf.ScaleExtrude3D(a2, h, scl)
		ste := sdf.ScaleTwistExtrude3D(a2, h, tw, scl)
		rnd0 := u(0.05, 0.4) * h
		exr, _ := sdf.ExtrudeRounded3D(a2, h, rnd0)
		lof, _ := sdf.Loft3D(a2, b2, h, rnd0)
		rev, _ := sdf.Revolve3D(a2)
		theta := u(0.1, 6.2)
		revt, _ := sdf.RevolveTheta3D(a2, theta)
		sa, sn3 := v3.Vec{X: u(-2, 2), Y: u(-2, 2), Z: u(-2, 2)}, v3.Vec{X: u(0.2, 1), Y: -u(0.2, 1), Z: u(0.2, 1)}
		sl := sdf.Slice2D(a3, sa, sn3)
		slz := sdf.Slice2D(a3, sa, v3.Vec{Z: 2})
		pitch, starts, taper := u(0.6, 2), []int{1, -1, 2, -2, 3}[i%5], 0.0
		if i%2 == 1 {
			taper = u(0.02, 0.3)
		}
		slen := u(3, 9)
		scr, _ := sdf.Screw3D(a2, slen, taper, pitch, starts)
		for j := 0; j < pts; j++ {
			p := rp3()
			fa, fb := a3.Evaluate(p), b3.Evaluate(p)
			reg("Union3D=min").cmp(un3.Evaluate(p), math.Min(fa, fb), tag)
			reg("Difference3D=max(a,-b)").cmp(di3.Evaluate(p), math.Max(fa, -fb), tag)
			reg("Intersect3D=max").cmp(in3.Evaluate(p), math.Max(fa, fb), tag)
			q := rodrigues(ax, -ang3, p.Sub(t3))
			q = v3.Vec{X: q.X / sc3.X, Y: q.Y / sc3.Y, Z: q.Z / sc3.Z}
			reg("Transform3D=operand(M^-1 p)").cmp(tr3.Evaluate(p), a3.Evaluate(q), tag)
			reg("Transform3D(MirrorXeqY)=operand(y,x,z)").cmp(mxy.Evaluate(p), a3.Evaluate(v3.Vec{X: p.Y, Y: p.X, Z: p.Z}), tag)
			reg("Transform3D(det-1 stretch)=operand(x/s,y*s,z)").cmp(vp3.Evaluate(p), a3.Evaluate(v3.Vec{X: p.X / sv, Y: p.Y * sv, Z: p.Z}), tag)
			reg("Transform3D(shear)=operand(x-a*y,y,z)").cmp(sh3d.Evaluate(p), a3.Evaluate(v3.Vec{X: p.X - sha*p.Y, Y: p.Y, Z: p.Z}), tag)
			qq := rodrigues(ax, -ang3, p)
			reg("Transform3D(rot*det-1 stretch)=operand(M^-1 p)").cmp(vpr3.Evaluate(p), a3.Evaluate(v3.Vec{X: qq.X / (sv * sv), Y: qq.Y * sv, Z: qq.Z * sv}), tag)
			reg("ScaleUniform3D=k*operand(p/k)").cmp(su3.Evaluate(p), k*a3.Evaluate(p.DivScalar(k)), tag)
			reg("Offset3D=operand-offset").cmp(off3.Evaluate(p), fa-of, tag)
			reg("Shell3D=|operand|-thickness/2").cmp(sh3.Evaluate(p), math.Abs(fa)-thick/2, tag)
			reg("Cut3D=max(plane,operand)").cmp(cut3.Evaluate(p), math.Max(-p.Sub(ca3).Dot(cn3.Normalize()), fa), tag)
			cl := v3.Vec{X: math.Max(-eh3.X/2, math.Min(eh3.X/2, p.X)), Y: math.Max(-eh3.Y/2, math.Min(eh3.Y/2, p.Y)), Z: math.Max(-eh3.Z/2, math.Min(eh3.Z/2, p.Z))}
			reg("Elongate3D=operand(p-clamp(p))").cmp(el3.Evaluate(p), a3.Evaluate(p.Sub(cl)), tag)
			m := math.Inf(1)
			for jx := 0; jx < num3.X; jx++ {
				for jy := 0; jy < num3.Y; jy++ {
					for jz := 0; jz < num3.Z; jz++ {
						m = math.Min(m, a3.Evaluate(v3.Vec{X: p.X - float64(jx)*step3.X, Y: p.Y - float64(jy)*step3.Y, Z: p.Z - float64(jz)*step3.Z}))
					}
				}
			}
			reg("Array3D=min over copies").cmp(ar3.Evaluate(p), m, tag)
			sec := sdf.Tau / float64(n)
			ang := math.Atan2(p.Y, p.X)
			kk := math.Floor((ang + sec/2) / sec)
			fr := (ang+sec/2)/sec - kk
			if fr < 1e-6 || fr > 1-1e-6 {
				reg("RotateCopy3D=operand(folded p)").skip()
			} else {
				r := rot2(-kk*sec, v2.Vec{X: p.X, Y: p.Y})
				reg("RotateCopy3D=operand(folded p)").cmp(rc3.Evaluate(p), a3.Evaluate(v3.Vec{X: r.X, Y: r.Y, Z: p.Z}), tag)
			}
			m = math.Inf(1)
			for jn := 0; jn < n; jn++ {
				r := rot2(-float64(jn)*ra3, v2.Vec{X: p.X, Y: p.Y})
				m = math.Min(m, a3.Evaluate(v3.Vec{X: r.X, Y: r.Y, Z: p.Z}))
			}
			reg("RotateUnion3D=min over rotated copies").cmp(ru3.Evaluate(p), m, tag)
			// extrusions: operand at the mapped point, cut to |z| <= h/2
			xy := v2.Vec{X: p.X, Y: p.Y}
			slab := math.Abs(p.Z) - h/2
			reg("Extrude3D=max(operand(x,y),|z|-h/2)").cmp(ex.Evaluate(p), math.Max(a2.Evaluate(xy), slab), tag)
			reg("TwistExtrude3D=operand(R(z*twist/h)(x,y))").cmp(twx.Evaluate(p), math.Max(a2.Evaluate(rot2(p.Z*tw/h, xy)), slab), tag)
			fx := (1/scl.X-1)/h*p.Z + (1/scl.X+1)/2
			fy := (1/scl.Y-1)/h*p.Z + (1/scl.Y+1)/2
			sxy := v2.Vec{X: p.X * fx, Y: p.Y * fy}
			reg("ScaleExtrude3D=operand(scaled (x,y))").cmp(sce.Evaluate(p), math.Max(a2.Evaluate(sxy), slab), tag)
			reg("ScaleTwistExtrude3D=operand(R(scaled (x,y)))").cmp(ste.Evaluate(p), math.Max(a2.Evaluate(rot2(p.Z*tw/h, sxy)), slab), tag)
			rounded := func(a float64) float64 {
				b := math.Abs(p.Z) - (h/2 - rnd0)
				var d float64
				switch {
				case b > 0 && a < 0:
					d = b
				case b > 0:
					d = math.Hypot(a, b)
				case a < 0:
					d = math.Max(a, b)
				default:
					d = a
				}
				return d - rnd0
			}
			reg("ExtrudeRounded3D=rounded(operand(x,y))").cmp(exr.Evaluate(p), rounded(a2.Evaluate(xy)), tag)
			mix := math.Max(0, math.Min(1, 0.5*p.Z/(h/2-rnd0)+0.5))
			reg("Loft3D=rounded(mix of operands)").cmp(lof.Evaluate(p), rounded((1-mix)*a2.Evaluate(xy)+mix*b2.Evaluate(xy)), tag)
			rho := math.Hypot(p.X, p.Y)
			prof := a2.Evaluate(v2.Vec{X: rho, Y: p.Z})
			reg("Revolve3D=operand(rho,z)").cmp(rev.Evaluate(p), prof, tag)
			// partial revolution: the wedge 0 <= angle <= theta is kept
			d1 := -p.Y
			d2 := -math.Sin(theta)*p.X + math.Cos(theta)*p.Y
			wedge := math.Max(d1, d2)
			if theta >= math.Pi {
				wedge = math.Min(d1, d2)
			}
			reg("RevolveTheta3D=max(operand(rho,z),wedge)").cmp(revt.Evaluate(p), math.Max(prof, wedge), tag)
			p2 := rp2()
			uu := v3.Vec{X: sn3.Y, Y: -sn3.X}.Normalize()
			vv := sn3.Cross(uu).Normalize()
			reg("Slice2D=operand(a+u x+v y)").cmp(sl.Evaluate(p2), a3.Evaluate(sa.Add(uu.MulScalar(p2.X)).Add(vv.MulScalar(p2.Y))), tag)
			reg("Slice2D(z plane)=operand(a+(x,y,0))").cmp(slz.Evaluate(p2), a3.Evaluate(sa.Add(v3.Vec{X: p2.X, Y: p2.Y})), tag)
			// screw: right-handed for starts > 0: the profile abscissa is z - starts*pitch*angle/2pi (mod pitch)
			zz := p.Z - float64(starts)*pitch*math.Atan2(p.Y, p.X)/sdf.Tau
			fr = zz/pitch + 0.5
			fr -= math.Floor(fr)
			if fr < 1e-6 || fr > 1-1e-6 {
				reg("Screw3D=max(thread(sawtooth,rho),|z|-l/2)").skip()
			} else {
				yy := rho
				if taper != 0 {
					yy += p.Z * math.Tan(taper) // the radius of a cone of half angle taper changes with tan(taper)
				}
				reg("Screw3D=max(thread(sawtooth,rho),|z|-l/2)").cmp(scr.Evaluate(p),
					math.Max(a2.Evaluate(v2.Vec{X: (fr - 0.5) * pitch, Y: yy}), math.Abs(p.Z)-slen/2), tag)
			}
		}
	}
	for _, n := range order {
		L[n].done()
	}
	// ---- handedness markers (lattice facts): a small marker at angle 0 must reappear ...
	marker := sdf.Transform2D(sdf.Box2D(v2.Vec{X: 0.4, Y: 0.4}, 0), sdf.Translate2d(v2.Vec{X: 3}))
	twm := sdf.TwistExtrude3D(marker, 8, 2*math.Pi) // +90 deg per unit z ... evaluated at R(+z*k): the profile turns by -z*k
	mk := func(name string, ok bool) {
		v := 0
		if ok {
			v = 1
		}
		emit(map[string]interface{}{"ev": "marker", "law": name, "ok": v})
	}
	mk("TwistExtrude3D: positive twist turns the section clockwise going up (marker at (0,-3,+2), not at (0,3,+2))",
		twm.Evaluate(v3.Vec{X: 0, Y: -3, Z: 2}) < 0 && twm.Evaluate(v3.Vec{X: 0, Y: 3, Z: 2}) > 0 && twm.Evaluate(v3.Vec{X: 3, Y: 0, Z: 0}) < 0)
	tooth, _ := sdf.Polygon2D([]v2.Vec{{X: -0.1, Y: 0}, {X: 0.1, Y: 0}, {X: 0.1, Y: 3}, {X: -0.1, Y: 3}})
	for _, st := range []int{1, -1, 2} {
		s, err := sdf.Screw3D(tooth, 8, 0, 1, st)
		if err != nil {
			mk(fmt.Sprintf("Screw3D starts=%d constructs", st), false)
			continue
		}
		// pitch 1: at angle +90 deg the tooth sits a quarter lead up (right hand) / down (left hand)
		up := s.Evaluate(v3.Vec{X: 0, Y: 2.5, Z: 0.25 * float64(st)})
		dn := s.Evaluate(v3.Vec{X: 0, Y: 2.5, Z: -0.25 * float64(st)})
		at0 := s.Evaluate(v3.Vec{X: 2.5, Y: 0, Z: 0})
		if st == 2 || st == -2 {
			// two starts: lead 2, quarter lead = 0.5 = half a pitch: both +-0.5 carry a tooth; use the eighth turn instead
			c45 := math.Sqrt(0.5) * 2.5
			up = s.Evaluate(v3.Vec{X: c45, Y: c45, Z: 0.25})
			dn = s.Evaluate(v3.Vec{X: c45, Y: c45, Z: -0.25})
		}
		mk(fmt.Sprintf("Screw3D starts=%d: tooth at angle 0 reappears a quarter lead up at +90deg (right hand for starts>0)", st), at0 < 0 && up < 0 && dn > 0)
	}
	// ---- measured blends: result <= min, symmetric
	for _, bl := range []struct {
		name string
		f    func(k float64) sdf.MinFunc
	}{{"RoundMin", sdf.RoundMin}, {"ChamferMin", sdf.ChamferMin}, {"ExpMin", sdf.ExpMin}, {"PolyMin", sdf.PolyMin}} {
		le, sy := newLaw(bl.name+"<=min"), newLaw(bl.name+" symmetric")
		for j := 0; j < 40*pts; j++ {
			k := u(0.05, 2)
			if bl.name == "ExpMin" {
				k = u(4, 40)
			}
			a, b := u(-3, 3), u(-3, 3)
			f := bl.f(k)
			v := f(a, b)
			le.cmp(math.Min(v, math.Min(a, b)), v, fmt.Sprintf("k=%g a=%g b=%g", k, a, b))
			sy.cmp(v, f(b, a), fmt.Sprintf("k=%g a=%g b=%g", k, a, b))
		}
		le.done()
		sy.done()
	}
	pm := newLaw("PolyMax(a,b)=-PolyMin(-a,-b)")
	for j := 0; j < 40*pts; j++ {
		k, a, b := u(0.05, 2), u(-3, 3), u(-3, 3)
		pm.cmp(sdf.PolyMax(k)(a, b), -sdf.PolyMin(k)(-a, -b), fmt.Sprintf("k=%g a=%g b=%g", k, a, b))
	}
	pm.done()
	// blended union keeps operands' interior: result <= min for a Union3D / Difference3D with PolyMin / PolyMax installed
	{
		a3, _ := c.placedSolid(1)
		b3 := sdf.Transform3D(a3, sdf.Translate3d(v3.Vec{X: 0.7, Y: 0.4}))
		un := sdf.Union3D(a3, b3)
		k := 0.3
		un.(*sdf.UnionSDF3).SetMin(sdf.PolyMin(k))
		l1, l2 := newLaw("Union3D+PolyMin<=min"), newLaw("Union3D+PolyMin>=min-k/4")
		bb := un.BoundingBox()
		for j := 0; j < 20*pts; j++ {
			p := v3.Vec{X: u(bb.Min.X-1, bb.Max.X+1), Y: u(bb.Min.Y-1, bb.Max.Y+1), Z: u(bb.Min.Z-1, bb.Max.Z+1)}
			m := math.Min(a3.Evaluate(p), b3.Evaluate(p))
			v := un.Evaluate(p)
			l1.cmp(math.Min(v, m), v, "")
			l2.cmp(math.Max(v, m-k/4), v, "")
		}
		l1.done()
		l2.done()
	}
	// ---- nested unions: the value of a union is its (blended) minimum over the VALUES of its operands, whatever an
	// operand is made of - an inner union keeps its own blend, the outer blend is applied between the operands only;
	// the blend is installed before or after the nesting
	for cse := 0; cse < 6; cse++ {
		a3, _ := c.placedSolid(1 + cse)
		b3 := sdf.Transform3D(a3, sdf.Translate3d(v3.Vec{X: 0.6, Y: 0.3}))
		c3 := sdf.Transform3D(a3, sdf.Translate3d(v3.Vec{X: -0.5, Y: 0.4, Z: 0.3}))
		kin, kout := u(0.2, 0.6), u(0.2, 0.6)
		inner := sdf.Union3D(a3, b3)
		blendIn, blendOut, late := cse%3 != 1, cse%3 != 0, cse >= 3
		if blendIn && !late {
			inner.(*sdf.UnionSDF3).SetMin(sdf.PolyMin(kin))
		}
		outer := sdf.Union3D(inner, c3)
		if blendIn && late {
			inner.(*sdf.UnionSDF3).SetMin(sdf.PolyMin(kin))
		}
		omin := math.Min
		if blendOut {
			outer.(*sdf.UnionSDF3).SetMin(sdf.PolyMin(kout))
			omin = sdf.PolyMin(kout)
		}
		imin := math.Min
		if blendIn {
			imin = sdf.PolyMin(kin)
		}
		l := newLaw(fmt.Sprintf("Union3D(Union3D(a,b),c) = min_outer(min_inner(a,b),c) [inner blend %v, outer blend %v, set late %v]", blendIn, blendOut, late))
		bb := outer.BoundingBox()
		for j := 0; j < 20*pts; j++ {
			p := v3.Vec{X: u(bb.Min.X-1, bb.Max.X+1), Y: u(bb.Min.Y-1, bb.Max.Y+1), Z: u(bb.Min.Z-1, bb.Max.Z+1)}
			l.cmp(outer.Evaluate(p), omin(imin(a3.Evaluate(p), b3.Evaluate(p)), c3.Evaluate(p)), "")
		}
		l.done()
	}
	// ---- VoxelSDF3: corner values are the wrapped values; inside a cell within [min corner, max corner]
	for i := 0; i < 3; i++ {
		s, sn := c.placedSolid(i + 2)
		cells := 5 + rnd.Intn(6)
		vx := sdf.NewVoxelSDF3(s, cells, nil)
		bb := s.BoundingBox()
		size := bb.Size()
		res := size.MaxComponent() / float64(cells)
		dd := size.DivScalar(res) // the library's own cell count (multiplication by the reciprocal, then truncation)
		nc := [3]int{int(dd.X), int(dd.Y), int(dd.Z)}
		lc, lr := newLaw("VoxelSDF3 corner=wrapped value"), newLaw("VoxelSDF3 inside cell within corner range")
		corner := func(ix, iy, iz int) v3.Vec {
			return v3.Vec{X: bb.Min.X + size.X*float64(ix)/float64(nc[0]), Y: bb.Min.Y + size.Y*float64(iy)/float64(nc[1]), Z: bb.Min.Z + size.Z*float64(iz)/float64(nc[2])}
		}
		for j := 0; j < pts; j++ {
			ix, iy, iz := rnd.Intn(nc[0]), rnd.Intn(nc[1]), rnd.Intn(nc[2])
			// interior corner, nudged inside its cell by 1e-9 of a cell so that index truncation is unambiguous
			cp := corner(ix, iy, iz)
			nud := v3.Vec{X: size.X / float64(nc[0]), Y: size.Y / float64(nc[1]), Z: size.Z / float64(nc[2])}.MulScalar(1e-11)
			lc.cmp(vx.Evaluate(cp.Add(nud)), s.Evaluate(cp), sn)
			lo, hi := math.Inf(1), math.Inf(-1)
			for dx := 0; dx < 2; dx++ {
				for dy := 0; dy < 2; dy++ {
					for dz := 0; dz < 2; dz++ {
						v := s.Evaluate(corner(ix+dx, iy+dy, iz+dz))
						lo, hi = math.Min(lo, v), math.Max(hi, v)
					}
				}
			}
			q := corner(ix, iy, iz).Add(v3.Vec{X: u(0.01, 0.99) * size.X / float64(nc[0]), Y: u(0.01, 0.99) * size.Y / float64(nc[1]), Z: u(0.01, 0.99) * size.Z / float64(nc[2])})
			v := vx.Evaluate(q)
			lr.cmp(math.Max(lo, math.Min(hi, v)), v, sn)
		}
		lc.done()
		lr.done()
	}
	return nil
}

// ---------------------------------------------------------------- PolyMin on the rational grid
type polyVec struct {
	A int `json:"a"` // a = A/4
	B int `json:"b"`
	K int `json:"k"` // k = K/4
}

func c02Poly(args []string) error {
	readVectors("-", func(raw json.RawMessage) {
		var v polyVec
		if err := json.Unmarshal(raw, &v); err != nil {
			fatal("bad vector: %v", err)
		}
		a, b, k := float64(v.A)/4, float64(v.B)/4, float64(v.K)/4
		sc := 3.0 * 1048576
		emit(map[string]interface{}{"ev": "poly", "a": v.A, "b": v.B, "k": v.K,
			"min": int(math.Round(sdf.PolyMin(k)(a, b) * sc)), "max": int(math.Round(sdf.PolyMax(k)(a, b) * sc)),
			"minba": int(math.Round(sdf.PolyMin(k)(b, a) * sc))})
	})
	return nil
}

// ---------------------------------------------------------------- Cache2D histories
type spy2 struct {
	calls int
}

func (s *spy2) Evaluate(p v2.Vec) float64 {
	s.calls++
	return math.Max(math.Abs(p.X)-1, math.Abs(p.Y)-2) // an L-infinity box: f(+0,y) = f(-0,y)
}
func (s *spy2) BoundingBox() sdf.Box2 {
	return sdf.Box2{Min: v2.Vec{X: -1, Y: -2}, Max: v2.Vec{X: 1, Y: 2}}
}

type cacheVec struct {
	H []int `json:"h"` // query history, point ids 1..3
}

func c02Cache(args []string) error {
	negz := math.Copysign(0, -1)
	pt := map[int]v2.Vec{1: {X: 0, Y: 1}, 2: {X: negz, Y: 1}, 3: {X: 2, Y: 3}}
	want := map[int]int{1: -1, 2: -1, 3: 1} // F(p) as integers (exact)
	readVectors("-", func(raw json.RawMessage) {
		var v cacheVec
		if err := json.Unmarshal(raw, &v); err != nil {
			fatal("bad vector: %v", err)
		}
		sp := &spy2{}
		cs := sdf.Cache2D(sp)
		ret, calls := []int{}, []int{}
		for _, id := range v.H {
			r := cs.Evaluate(pt[id])
			ret = append(ret, int(math.Round(r*1e6)))
			calls = append(calls, sp.calls)
		}
		bb := cs.BoundingBox()
		emit(map[string]interface{}{"ev": "cache", "h": v.H, "ret": ret, "calls": calls, "want": []int{want[1] * 1000000, want[2] * 1000000, want[3] * 1000000},
			"bbsame": b2i(bb == sp.BoundingBox())})
	})
	return nil
}

func b2i(b bool) int {
	if b {
		return 1
	}
	return 0
}

func init() {
	register("c02-laws", c02Laws)
	register("c02-poly", c02Poly)
	register("c02-cache", c02Cache)
}
