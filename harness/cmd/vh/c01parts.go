package main

// C01 stage 2 (T), parts catalogue: every exported shape constructor of package obj, and the sdf
// constructors that have no lattice semantics (text, cams, flange, rack, spiral, splines, bezier,
// screws, voxel cache), built with the REAL public constructors and the parameter sets used by
// /repo/examples (named constants resolved from the example source).  The harness only constructs;
// probe2/probe3 measure, spec/trace/BBoxTrace.tla judges.

import (
	"fmt"
	"math"

	"github.com/deadsy/sdfx/obj"
	"github.com/deadsy/sdfx/sdf"
	v2 "github.com/deadsy/sdfx/vec/v2"
	"github.com/deadsy/sdfx/vec/v2i"
	v3 "github.com/deadsy/sdfx/vec/v3"
	"github.com/deadsy/sdfx/vec/v3i"
)

// partsFontPath is the only truetype font shipped with the repository (examples/text uses it).
const partsFontPath = "/repo/files/cmr10.ttf"

func pv2(x, y float64) v2.Vec    { return v2.Vec{X: x, Y: y} }
func pv3(x, y, z float64) v3.Vec { return v3.Vec{X: x, Y: y, Z: z} }

// partsBuilder collects catalogue entries; every constructor call is guarded by recover().
type partsBuilder struct {
	out []probeShape
}

func (b *partsBuilder) fail(ctor, name, msg string) {
	b.out = append(b.out, probeShape{Ctor: ctor, Name: name, Err: msg})
}

func (b *partsBuilder) add2(ctor, name string, f func() (sdf.SDF2, error)) {
	defer func() {
		if r := recover(); r != nil {
			b.fail(ctor, name, fmt.Sprintf("panic: %v", r))
		}
	}()
	s, err := f()
	switch {
	case err != nil:
		b.fail(ctor, name, err.Error())
	case s == nil:
		b.fail(ctor, name, "nil shape without error")
	default:
		b.out = append(b.out, probeShape{Ctor: ctor, Name: name, S2: s})
	}
}

func (b *partsBuilder) add3(ctor, name string, f func() (sdf.SDF3, error)) {
	defer func() {
		if r := recover(); r != nil {
			b.fail(ctor, name, fmt.Sprintf("panic: %v", r))
		}
	}()
	s, err := f()
	switch {
	case err != nil:
		b.fail(ctor, name, err.Error())
	case s == nil:
		b.fail(ctor, name, "nil shape without error")
	default:
		b.out = append(b.out, probeShape{Ctor: ctor, Name: name, S3: s})
	}
}

// multi2 / multi3: one constructor call returning several shapes, one entry per label.
func (b *partsBuilder) multi2(ctor, name string, labels []string, f func() ([]sdf.SDF2, error)) {
	var ss []sdf.SDF2
	var err error
	func() {
		defer func() {
			if r := recover(); r != nil {
				err = fmt.Errorf("panic: %v", r)
			}
		}()
		ss, err = f()
	}()
	for i, l := range labels {
		i, l := i, l
		b.add2(ctor, name+"_"+l, func() (sdf.SDF2, error) {
			if err != nil {
				return nil, err
			}
			if i >= len(ss) {
				return nil, fmt.Errorf("constructor returned %d shapes, want %d", len(ss), len(labels))
			}
			return ss[i], nil
		})
	}
}

func (b *partsBuilder) multi3(ctor, name string, labels []string, f func() ([]sdf.SDF3, error)) {
	var ss []sdf.SDF3
	var err error
	func() {
		defer func() {
			if r := recover(); r != nil {
				err = fmt.Errorf("panic: %v", r)
			}
		}()
		ss, err = f()
	}()
	for i, l := range labels {
		i, l := i, l
		b.add3(ctor, name+"_"+l, func() (sdf.SDF3, error) {
			if err != nil {
				return nil, err
			}
			if i >= len(ss) {
				return nil, fmt.Errorf("constructor returned %d shapes, want %d", len(ss), len(labels))
			}
			return ss[i], nil
		})
	}
}

// partsCatalogue returns the obj.* parts and the sdf constructors without lattice semantics.
func partsCatalogue() []probeShape {
	b := &partsBuilder{}
	partsObjProfiles(b)
	partsObjFasteners(b)
	partsObjHoles(b)
	partsObjPanels(b)
	partsObjPipes(b)
	partsObjMechanisms(b)
	partsObjTabs(b)
	partsSdf2D(b)
	partsSdfScrews(b)
	partsSdfVoxel(b)
	return b.out
}

//-----------------------------------------------------------------------------
// obj: angle, arrows, hex, keyway, washer, truncated pyramid, finger button

func partsObjProfiles(b *partsBuilder) {
	const mmPerInch = sdf.MillimetresPerInch

	// examples/angle, examples/beehive (identical parameters)
	angleEx := func() *obj.AngleParms {
		const l = 1.25 * mmPerInch
		const t = 0.125 * mmPerInch
		const r = 0.125 * mmPerInch
		return &obj.AngleParms{
			X:          obj.AngleLeg{Length: l, Thickness: t},
			Y:          obj.AngleLeg{Length: l, Thickness: t},
			RootRadius: r,
			Length:     12 * mmPerInch,
		}
	}
	// no example: unequal legs
	angleUnequal := func() *obj.AngleParms {
		return &obj.AngleParms{
			X:          obj.AngleLeg{Length: 50, Thickness: 5},
			Y:          obj.AngleLeg{Length: 30, Thickness: 3},
			RootRadius: 4,
			Length:     20,
		}
	}
	angleNoRoot := func() *obj.AngleParms {
		return &obj.AngleParms{
			X:      obj.AngleLeg{Length: 20, Thickness: 2},
			Y:      obj.AngleLeg{Length: 20, Thickness: 2},
			Length: 10,
		}
	}
	// the documented use of the unbounded gyroid: it must be intersected with a bounded volume; the RESULT is
	// a bounded shape whose box must enclose it, in either operand order and through wrappers of the gyroid
	gyr := func() sdf.SDF3 { g, _ := sdf.Gyroid3D(v3.Vec{X: 2, Y: 2.5, Z: 3}); return g }
	gbox := func() sdf.SDF3 { x, _ := sdf.Box3D(v3.Vec{X: 7, Y: 6, Z: 5}, 0.2); return x }
	b.add3("Intersect3D(bounded,gyroid)", "box_gyroid", func() (sdf.SDF3, error) { return sdf.Intersect3D(gbox(), gyr()), nil })
	b.add3("Intersect3D(bounded,gyroid)", "shifted_box_gyroid", func() (sdf.SDF3, error) {
		return sdf.Intersect3D(sdf.Transform3D(gbox(), sdf.Translate3d(v3.Vec{X: 9, Y: -7, Z: 4})), gyr()), nil
	})
	b.add3("Intersect3D(bounded,gyroid)", "box_shelled_gyroid", func() (sdf.SDF3, error) {
		sh, err := sdf.Shell3D(gyr(), 0.3)
		if err != nil {
			return nil, err
		}
		return sdf.Intersect3D(gbox(), sh), nil
	})
	b.add3("Intersect3D(bounded,gyroid)", "sphere_scaled_gyroid", func() (sdf.SDF3, error) {
		sp, _ := sdf.Sphere3D(4)
		return sdf.Intersect3D(sp, sdf.ScaleUniform3D(gyr(), 1.5)), nil
	})
	b.add2("obj.Angle2D", "angle", func() (sdf.SDF2, error) { return obj.Angle2D(angleEx()) })
	b.add2("obj.Angle2D", "unequal", func() (sdf.SDF2, error) { return obj.Angle2D(angleUnequal()) })
	b.add2("obj.Angle2D", "noroot", func() (sdf.SDF2, error) { return obj.Angle2D(angleNoRoot()) })
	b.add3("obj.Angle3D", "angle", func() (sdf.SDF3, error) { return obj.Angle3D(angleEx()) })
	b.add3("obj.Angle3D", "unequal", func() (sdf.SDF3, error) { return obj.Angle3D(angleUnequal()) })
	b.add3("obj.Angle3D", "noroot", func() (sdf.SDF3, error) { return obj.Angle3D(angleNoRoot()) })

	// examples/arrow
	arrowK := func(style string) *obj.ArrowParms {
		return &obj.ArrowParms{
			Axis:  [2]float64{50, 1},
			Head:  [2]float64{5, 2},
			Tail:  [2]float64{5, 2},
			Style: style,
		}
	}
	b.add3("obj.Arrow3D", "arrow_cb", func() (sdf.SDF3, error) { return obj.Arrow3D(arrowK("cb")) })
	b.add3("obj.Arrow3D", "arrow_cc", func() (sdf.SDF3, error) { return obj.Arrow3D(arrowK("cc")) })
	b.add3("obj.Arrow3D", "arrow_plain", func() (sdf.SDF3, error) { return obj.Arrow3D(arrowK("")) })
	b.add3("obj.Axes3D", "arrow_axes1", func() (sdf.SDF3, error) { return obj.Axes3D(pv3(-10, -10, -10), pv3(10, 20, 20)) })
	b.add3("obj.Axes3D", "arrow_axes2", func() (sdf.SDF3, error) { return obj.Axes3D(pv3(-10, -20, -30), pv3(0, 0, 0)) })
	b.add3("obj.Axes3D", "arrow_axes3", func() (sdf.SDF3, error) { return obj.Axes3D(pv3(0, 0, 0), pv3(500, 500, 1000)) })

	// examples/bucky: icosahedron edges
	const phi = 1.618033988749895
	buckyK := func() *obj.ArrowParms {
		r0 := phi * 0.05
		r1 := r0 * 2.0
		return &obj.ArrowParms{
			Axis:  [2]float64{0, r0},
			Head:  [2]float64{0, r1},
			Tail:  [2]float64{0, r1},
			Style: "b.",
		}
	}
	b.add3("obj.DirectedArrow3D", "bucky_edge_0_1", func() (sdf.SDF3, error) {
		return obj.DirectedArrow3D(buckyK(), pv3(1, phi, 0), pv3(-1, phi, 0))
	})
	b.add3("obj.DirectedArrow3D", "bucky_edge_1_4", func() (sdf.SDF3, error) {
		return obj.DirectedArrow3D(buckyK(), pv3(-1, phi, 0), pv3(0, 1, phi))
	})
	b.add3("obj.DirectedArrow3D", "bucky_edge_8_10", func() (sdf.SDF3, error) {
		return obj.DirectedArrow3D(buckyK(), pv3(phi, 0, 1), pv3(phi, 0, -1))
	})
	b.add3("obj.DirectedArrow3D", "arrow_cb_diag", func() (sdf.SDF3, error) {
		return obj.DirectedArrow3D(arrowK("cb"), pv3(10, 20, 30), pv3(-5, 0, 2))
	})

	// hex (no example calls Hex2D/Hex3D directly; HexHead3D uses round = 0.08 * radius)
	b.add2("obj.Hex2D", "r10_round0.8", func() (sdf.SDF2, error) { return obj.Hex2D(10, 0.8) })
	b.add2("obj.Hex2D", "r40_round3.2", func() (sdf.SDF2, error) { return obj.Hex2D(40, 3.2) })
	b.add2("obj.Hex2D", "r1_round0", func() (sdf.SDF2, error) { return obj.Hex2D(1, 0) })
	b.add3("obj.Hex3D", "r10_h5_round0.8", func() (sdf.SDF3, error) { return obj.Hex3D(10, 5, 0.8) })
	b.add3("obj.Hex3D", "r40_h20_round3.2", func() (sdf.SDF3, error) { return obj.Hex3D(40, 20, 3.2) })
	b.add3("obj.Hex3D", "r0.5_h0.3_round0", func() (sdf.SDF3, error) { return obj.Hex3D(0.5, 0.3, 0) })
	// examples/bolt_container, examples/nutcover
	b.add3("obj.HexHead3D", "bolt_container", func() (sdf.SDF3, error) { return obj.HexHead3D(40.0, 20.0, "tb") })
	b.add3("obj.HexHead3D", "nutcover", func() (sdf.SDF3, error) {
		r := (19.0 / (2.0 * math.Cos(sdf.DtoR(30)))) * 1.01
		return obj.HexHead3D(r, 2*20.0, "")
	})
	b.add3("obj.HexHead3D", "top_only", func() (sdf.SDF3, error) { return obj.HexHead3D(10, 6, "t") })
	b.add3("obj.HexHead3D", "bottom_only", func() (sdf.SDF3, error) { return obj.HexHead3D(10, 6, "b") })

	// examples/joko (bore profile: key proud of the shaft), plus a shaft profile (key cut in)
	keyJoko := func() *obj.KeywayParameters {
		return &obj.KeywayParameters{ShaftRadius: 0.55, KeyRadius: 0.77, KeyWidth: 0.35, ShaftLength: 4.0}
	}
	keyShaft := func() *obj.KeywayParameters {
		return &obj.KeywayParameters{ShaftRadius: 10, KeyRadius: 8, KeyWidth: 4, ShaftLength: 20}
	}
	b.add2("obj.Keyway2D", "joko_bore", func() (sdf.SDF2, error) { return obj.Keyway2D(keyJoko()) })
	b.add2("obj.Keyway2D", "shaft", func() (sdf.SDF2, error) { return obj.Keyway2D(keyShaft()) })
	b.add3("obj.Keyway3D", "joko_bore", func() (sdf.SDF3, error) { return obj.Keyway3D(keyJoko()) })
	b.add3("obj.Keyway3D", "shaft", func() (sdf.SDF3, error) { return obj.Keyway3D(keyShaft()) })

	// washers: examples/joko (2d), fidget, birdhouse, maixgo, test (3d)
	b.add2("obj.Washer2D", "joko", func() (sdf.SDF2, error) {
		return obj.Washer2D(&obj.WasherParms{InnerRadius: 2.90 * 0.5, OuterRadius: 1.89})
	})
	b.add2("obj.Washer2D", "r2_r5", func() (sdf.SDF2, error) {
		return obj.Washer2D(&obj.WasherParms{InnerRadius: 2, OuterRadius: 5})
	})
	b.add3("obj.Washer3D", "fidget", func() (sdf.SDF3, error) {
		return obj.Washer3D(&obj.WasherParms{
			Thickness:   1.0,
			InnerRadius: (8.0 / 2) * 1.05,
			OuterRadius: (22.0 + 8.0) / 4,
		})
	})
	b.add3("obj.Washer3D", "birdhouse_remove0.5", func() (sdf.SDF3, error) {
		return obj.Washer3D(&obj.WasherParms{Thickness: 2.0, InnerRadius: 10.0 * 0.5, OuterRadius: 10.0, Remove: 0.5})
	})
	b.add3("obj.Washer3D", "maixgo_remove0.3", func() (sdf.SDF3, error) {
		d := 20.3
		return obj.Washer3D(&obj.WasherParms{Thickness: 3.0, InnerRadius: 0.5 * d, OuterRadius: 0.5 * (d + 4.0), Remove: 0.3})
	})
	b.add3("obj.Washer3D", "test50_remove0.3", func() (sdf.SDF3, error) {
		return obj.Washer3D(&obj.WasherParms{Thickness: 10, InnerRadius: 40, OuterRadius: 50, Remove: 0.3})
	})

	// truncated rectangular pyramids: examples/flask, inlet_hood, midget
	b.add3("obj.TruncRectPyramid3D", "flask_pinlug", func() (sdf.SDF3, error) {
		const lugThickness, lugHeight, lugDraft, lugOffset = 14.0, 28.0, 5.0, 1.5
		const lugBaseWidth = 60.0 * 0.95
		w := lugBaseWidth - 2.0*lugOffset
		return obj.TruncRectPyramid3D(&obj.TruncRectPyramidParms{
			Size:        pv3(w, lugThickness, lugHeight),
			BaseAngle:   sdf.DtoR(90 - lugDraft),
			BaseRadius:  lugThickness * 0.5,
			RoundRadius: lugThickness * 0.1,
		})
	})
	b.add3("obj.TruncRectPyramid3D", "flask_lugbase", func() (sdf.SDF3, error) {
		const lugThickness, lugOffset, lugBaseThickness, lugBaseDraft = 14.0, 1.5, 3.0, 15.0
		const w = 60.0 * 0.95
		return obj.TruncRectPyramid3D(&obj.TruncRectPyramidParms{
			Size:        pv3(w, w, lugBaseThickness),
			BaseAngle:   sdf.DtoR(90 - lugBaseDraft),
			BaseRadius:  lugThickness*0.5 + lugOffset,
			RoundRadius: lugBaseThickness * 0.25,
		})
	})
	b.add3("obj.TruncRectPyramid3D", "inlet_hood_outer", func() (sdf.SDF3, error) {
		return obj.TruncRectPyramid3D(&obj.TruncRectPyramidParms{
			Size:        pv3(40, 60, 10),
			BaseAngle:   sdf.DtoR(90.0 - 2.0),
			BaseRadius:  40 * 0.5,
			RoundRadius: 0,
		})
	})
	b.add3("obj.TruncRectPyramid3D", "inlet_hood_inner", func() (sdf.SDF3, error) {
		return obj.TruncRectPyramid3D(&obj.TruncRectPyramidParms{
			Size:        pv3(30, 50, 10),
			BaseAngle:   sdf.DtoR(90.0 - 5.0),
			BaseRadius:  30 * 0.5,
			RoundRadius: 0,
		})
	})
	b.add3("obj.TruncRectPyramid3D", "midget_mountlugs", func() (sdf.SDF3, error) {
		const crankcaseOuterHeight = 7.0 / 8.0
		return obj.TruncRectPyramid3D(&obj.TruncRectPyramidParms{
			Size:        pv3(4.75, 0.25, crankcaseOuterHeight),
			BaseAngle:   sdf.DtoR(90 - 3.0),
			BaseRadius:  crankcaseOuterHeight * 0.1,
			RoundRadius: crankcaseOuterHeight * 0.1,
		})
	})
	b.add3("obj.TruncRectPyramid3D", "midget_cylindermount", func() (sdf.SDF3, error) {
		const crankcaseOuterHeight = 7.0 / 8.0
		return obj.TruncRectPyramid3D(&obj.TruncRectPyramidParms{
			Size:        pv3(2.0, 5.0/16.0, 1+(3.0/16.0)),
			BaseAngle:   sdf.DtoR(90 - 3.0),
			BaseRadius:  crankcaseOuterHeight * 0.1,
			RoundRadius: crankcaseOuterHeight * 0.1,
		})
	})

	// examples/axoloti
	b.add2("obj.FingerButton2D", "axoloti", func() (sdf.SDF2, error) {
		return obj.FingerButton2D(&obj.FingerButtonParms{Width: 4.0, Gap: 0.6, Length: 20.0})
	})
}

//-----------------------------------------------------------------------------
// obj: bolts, nuts, knurls, chamfered cylinders, standoffs

func partsObjFasteners(b *partsBuilder) {
	const mmTolerance = 0.3
	const inchTolerance = mmTolerance / sdf.MillimetresPerInch

	// examples/3dp_nutbolt, examples/nutsandbolts
	b.add3("obj.Bolt", "3dp_nutbolt_inch", func() (sdf.SDF3, error) {
		return obj.Bolt(&obj.BoltParms{Thread: "unc_5/8", Style: "knurl", Tolerance: inchTolerance, TotalLength: 2.0, ShankLength: 0.5})
	})
	b.add3("obj.Bolt", "3dp_nutbolt_metric", func() (sdf.SDF3, error) {
		return obj.Bolt(&obj.BoltParms{Thread: "M16x2", Style: "hex", Tolerance: mmTolerance, TotalLength: 50.0, ShankLength: 10.0})
	})
	b.add3("obj.Bolt", "nutsandbolts_unc_1/4", func() (sdf.SDF3, error) {
		return obj.Bolt(&obj.BoltParms{Thread: "unc_1/4", Style: "hex", TotalLength: 2, ShankLength: 0.5})
	})
	b.add3("obj.Bolt", "nutsandbolts_unc_1", func() (sdf.SDF3, error) {
		return obj.Bolt(&obj.BoltParms{Thread: "unc_1", Style: "hex", TotalLength: 2.0, ShankLength: 0.5})
	})
	// no example: a tapered (NPT) thread from the thread database
	b.add3("obj.Bolt", "npt_1/2_taper", func() (sdf.SDF3, error) {
		return obj.Bolt(&obj.BoltParms{Thread: "npt_1/2", Style: "hex", TotalLength: 1.5, ShankLength: 0.25})
	})

	b.add3("obj.Nut", "3dp_nutbolt_inch", func() (sdf.SDF3, error) {
		return obj.Nut(&obj.NutParms{Thread: "unc_5/8", Style: "knurl", Tolerance: inchTolerance})
	})
	b.add3("obj.Nut", "3dp_nutbolt_metric", func() (sdf.SDF3, error) {
		return obj.Nut(&obj.NutParms{Thread: "M16x2", Style: "hex", Tolerance: mmTolerance})
	})
	b.add3("obj.Nut", "nutsandbolts_unc_1/2", func() (sdf.SDF3, error) {
		return obj.Nut(&obj.NutParms{Thread: "unc_1/2", Style: "hex"})
	})
	b.add3("obj.Nut", "npt_1/2_taper", func() (sdf.SDF3, error) {
		return obj.Nut(&obj.NutParms{Thread: "npt_1/2", Style: "hex"})
	})

	// knurls: examples/gas_cap (KnurledHead3D); Knurl3D has no example, parameters as KnurledHead3D derives them
	b.add3("obj.KnurledHead3D", "gas_cap", func() (sdf.SDF3, error) {
		const capRadius, capHeight = 56.0 / 2.0, 28.0
		return obj.KnurledHead3D(capRadius, capHeight, capRadius*0.25)
	})
	b.add3("obj.KnurledHead3D", "r10_h8_p2.5", func() (sdf.SDF3, error) { return obj.KnurledHead3D(10, 8, 2.5) })
	b.add3("obj.Knurl3D", "gas_cap_derived", func() (sdf.SDF3, error) {
		const r, h = 28.0, 28.0
		pitch := r * 0.25
		return obj.Knurl3D(&obj.KnurlParms{
			Length: pitch * math.Floor((h-r*0.05)/pitch),
			Radius: r,
			Pitch:  pitch,
			Height: pitch * 0.3,
			Theta:  sdf.DtoR(45),
		})
	})
	b.add3("obj.Knurl3D", "r5_l10_theta30", func() (sdf.SDF3, error) {
		return obj.Knurl3D(&obj.KnurlParms{Length: 10, Radius: 5, Pitch: 2, Height: 0.5, Theta: sdf.DtoR(30)})
	})

	// chamfered cylinders: examples/bolt_container, examples/fidget
	b.add3("obj.ChamferedCylinder", "bolt_container", func() (sdf.SDF3, error) {
		const screwRadius = 40.0 * 0.7
		const threadPitch = screwRadius / 5.0
		iso, err := sdf.ISOThread(screwRadius-0.5, threadPitch, true)
		if err != nil {
			return nil, err
		}
		screw, err := sdf.Screw3D(iso, 40.0, 0, threadPitch, 1)
		if err != nil {
			return nil, err
		}
		return obj.ChamferedCylinder(screw, 0, 0.25)
	})
	b.add3("obj.ChamferedCylinder", "fidget", func() (sdf.SDF3, error) {
		r := 8.0 / 2
		threadR := r * 0.8
		iso, err := sdf.ISOThread(threadR-0.25, 1.0, true)
		if err != nil {
			return nil, err
		}
		screw, err := sdf.Screw3D(iso, 7.0, 0, 1.0, 1)
		if err != nil {
			return nil, err
		}
		return obj.ChamferedCylinder(screw, 0, 0.5)
	})
	b.add3("obj.ChamferedCylinder", "cylinder_both_ends", func() (sdf.SDF3, error) {
		c, err := sdf.Cylinder3D(20, 5, 0)
		if err != nil {
			return nil, err
		}
		return obj.ChamferedCylinder(c, 0.2, 0.3)
	})

	// standoffs
	b.add3("obj.Standoff3D", "eurorack_h25", func() (sdf.SDF3, error) {
		return obj.Standoff3D(&obj.StandoffParms{PillarHeight: 25, PillarDiameter: 8, HoleDepth: 10, HoleDiameter: 2.4})
	})
	b.add3("obj.Standoff3D", "maixgo_webs", func() (sdf.SDF3, error) {
		return obj.Standoff3D(&obj.StandoffParms{
			PillarHeight:   14.0,
			PillarDiameter: 4.5,
			HoleDepth:      11.0,
			HoleDiameter:   2.6,
			NumberWebs:     2,
			WebHeight:      10,
			WebDiameter:    12,
			WebWidth:       3.5,
		})
	})
	b.add3("obj.Standoff3D", "nordic_stub", func() (sdf.SDF3, error) {
		return obj.Standoff3D(&obj.StandoffParms{PillarHeight: 15.0, PillarDiameter: 6.0, HoleDepth: -2.0, HoleDiameter: 2.4})
	})
	b.add3("obj.Standoff3D", "opengate_throughhole", func() (sdf.SDF3, error) {
		return obj.Standoff3D(&obj.StandoffParms{PillarHeight: 8, PillarDiameter: 6.0, HoleDepth: 8, HoleDiameter: 2.4})
	})
	b.add3("obj.Standoff3D", "delta", func() (sdf.SDF3, error) {
		return obj.Standoff3D(&obj.StandoffParms{PillarHeight: 20, PillarDiameter: 15, HoleDepth: 15, HoleDiameter: 3})
	})
	b.add3("obj.Standoff3D", "maestro", func() (sdf.SDF3, error) {
		return obj.Standoff3D(&obj.StandoffParms{PillarHeight: 0.5 * sdf.MillimetresPerInch, PillarDiameter: 5, HoleDepth: 10, HoleDiameter: 2.4})
	})
}

//-----------------------------------------------------------------------------
// obj: holes and bolt circles

func partsObjHoles(b *partsBuilder) {
	b.add3("obj.CounterBoredHole3D", "challenge_cc16", func() (sdf.SDF3, error) {
		return obj.CounterBoredHole3D(0.62, 0.625/2.0, 1.25/2.0, 0.12)
	})
	b.add3("obj.CounterBoredHole3D", "eurorack_m3", func() (sdf.SDF3, error) {
		return obj.CounterBoredHole3D(12, 3.8*0.5, 10.6*0.5, 3.5)
	})
	b.add3("obj.ChamferedHole3D", "challenge_cc16", func() (sdf.SDF3, error) {
		return obj.ChamferedHole3D(24.0, 35.0/2.0, 2.0)
	})
	b.add3("obj.ChamferedHole3D", "l10_r2_ch1", func() (sdf.SDF3, error) { return obj.ChamferedHole3D(10, 2, 1) })
	b.add3("obj.CounterSunkHole3D", "loadcell", func() (sdf.SDF3, error) {
		const bodyHeight = 2.0 * 8.0
		return obj.CounterSunkHole3D(bodyHeight*0.75, 2.0)
	})
	b.add3("obj.CounterSunkHole3D", "ringnut_tool", func() (sdf.SDF3, error) {
		const ringHeight, topThickness = 16.0, 2.0 * 3.5
		const screwDiameter = 25.4 * (3.0 / 16.0)
		return obj.CounterSunkHole3D(ringHeight+topThickness, screwDiameter*0.5)
	})
	b.add3("obj.CounterSunkHole3D", "rpi_stand", func() (sdf.SDF3, error) { return obj.CounterSunkHole3D(8.0, 2.0) })
	b.add3("obj.CounterSunkHole3D", "test31", func() (sdf.SDF3, error) { return obj.CounterSunkHole3D(30, 2) })

	b.add2("obj.BoltCircle2D", "maixgo", func() (sdf.SDF2, error) { return obj.BoltCircle2D(1.7, 20.3*0.3, 6) })
	b.add2("obj.BoltCircle2D", "challenge_cc18_top", func() (sdf.SDF2, error) { return obj.BoltCircle2D(0.5/2.0, 14.50/2.0, 6) })
	b.add3("obj.BoltCircle3D", "challenge_cc18_top", func() (sdf.SDF3, error) {
		return obj.BoltCircle3D(2.0, 0.5/2.0, 14.50/2.0, 6)
	})
	b.add3("obj.BoltCircle3D", "challenge_cc18_side", func() (sdf.SDF3, error) {
		return obj.BoltCircle3D(2.0, 1.0/2.0, 14.0/2.0, 4)
	})
	b.add3("obj.BoltCircle3D", "fidget", func() (sdf.SDF3, error) {
		const t = 7.0
		r := 22.0 / 2
		r0 := r + 4.0
		r1 := 45.0 - r0
		return obj.BoltCircle3D(t, r, r1, 3)
	})
}

//-----------------------------------------------------------------------------
// obj: panels, eurorack panels, panel holes, panel boxes

func partsObjPanels(b *partsBuilder) {
	const mmPerInch = sdf.MillimetresPerInch
	four := [4]string{"x", "x", "x", "x"}

	b.add2("obj.Panel2D", "eurorack_powerboard", func() (sdf.SDF2, error) {
		const xSpace = 0.9 * mmPerInch
		const ySpace = 1.1 * mmPerInch
		return obj.Panel2D(&obj.PanelParms{
			Size:         pv2((4-0.1)*xSpace, 2.0*ySpace),
			CornerRadius: 5.0,
			HoleDiameter: 3.5,
			HoleMargin:   [4]float64{5.0, 5.0, 5.0, 5.0},
			HolePattern:  four,
		})
	})
	b.add2("obj.Panel2D", "eurorack_powerpanel", func() (sdf.SDF2, error) {
		return obj.Panel2D(&obj.PanelParms{
			Size:         pv2(85, 95),
			CornerRadius: 5.0,
			HoleDiameter: 4.0,
			HoleMargin:   [4]float64{5.0, 5.0, 5.0, 5.0},
			HolePattern:  four,
		})
	})
	b.add2("obj.Panel2D", "holes_noholes", func() (sdf.SDF2, error) {
		const xInc, yInc, nX, nY = 15.0, 15.0, 5.0, 8.0
		return obj.Panel2D(&obj.PanelParms{Size: pv2((nX+1)*xInc, (nY+1)*yInc), CornerRadius: xInc * 0.2})
	})
	b.add2("obj.Panel2D", "square_flange", func() (sdf.SDF2, error) {
		return obj.Panel2D(&obj.PanelParms{
			Size:         pv2(77.0, 77.0),
			CornerRadius: 18.0,
			HoleDiameter: 3.5,
			HoleMargin:   [4]float64{12.0, 12.0, 12.0, 12.0},
			HolePattern:  four,
		})
	})
	b.add2("obj.Panel2D", "pico_cnc_base", func() (sdf.SDF2, error) {
		const holeMargin = 3.0
		const baseX = 92.0 + (2.0 * holeMargin)
		const baseY = 94.5 + (2.0 * holeMargin)
		return obj.Panel2D(&obj.PanelParms{
			Size:         pv2(baseX, baseY),
			CornerRadius: 5.0,
			HoleDiameter: 3.5,
			HoleMargin:   [4]float64{6.0, 6.0, 6.0, 6.0},
			HolePattern:  [4]string{".x...x", ".x...x", ".x...x", ".x...x"},
		})
	})

	b.add3("obj.Panel3D", "eurorack_psu_base", func() (sdf.SDF3, error) {
		return obj.Panel3D(&obj.PanelParms{
			Size:         pv2(135, 145),
			CornerRadius: 5.0,
			HoleDiameter: 4.0,
			HoleMargin:   [4]float64{5.0, 5.0, 5.0, 5.0},
			HolePattern:  four,
			Thickness:    6,
		})
	})
	b.add3("obj.Panel3D", "eurorack_psu_cutout0", func() (sdf.SDF3, error) {
		return obj.Panel3D(&obj.PanelParms{Size: pv2(90, 55), CornerRadius: 4.0, Thickness: 6})
	})
	b.add3("obj.Panel3D", "maestro", func() (sdf.SDF3, error) {
		return obj.Panel3D(&obj.PanelParms{
			Size:         pv2(1.1, 1.8).MulScalar(mmPerInch),
			CornerRadius: 2,
			HoleDiameter: 2.4,
			HoleMargin:   [4]float64{4, 4, 4, 4},
			HolePattern:  [4]string{"x", "x", ".x", ""},
			Thickness:    3,
		})
	})
	b.add3("obj.Panel3D", "pico_cnc_keypad", func() (sdf.SDF3, error) {
		const panelX, panelYa, panelYb = 75.0, 25.0, 45.0
		return obj.Panel3D(&obj.PanelParms{
			Size:         pv2(panelX, 2*(panelYa+panelYb)),
			CornerRadius: 4,
			HoleDiameter: 3.5,
			HoleMargin:   [4]float64{7, 7, 7, 7},
			HolePattern:  [4]string{"x", "xx", "x", "xx"},
			Thickness:    5.5,
		})
	})

	// eurorack: examples/eurorack uses EuroRackPanel3D(3U, 12HP, ridge); the 2D constructor has no example
	erAR := func() *obj.EuroRackParms {
		return &obj.EuroRackParms{U: 3, HP: 12, CornerRadius: 3, HoleDiameter: 3.6, Thickness: 2.5, Ridge: true}
	}
	erNarrow := func() *obj.EuroRackParms {
		return &obj.EuroRackParms{U: 3, HP: 4, CornerRadius: 2, Thickness: 2.5}
	}
	erWide := func() *obj.EuroRackParms {
		return &obj.EuroRackParms{U: 3, HP: 20, CornerRadius: 0, HoleDiameter: 3.2, Thickness: 2.0, Ridge: true}
	}
	b.add2("obj.EuroRackPanel2D", "eurorack_3u12hp", func() (sdf.SDF2, error) { return obj.EuroRackPanel2D(erAR()) })
	b.add2("obj.EuroRackPanel2D", "3u4hp_defaulthole", func() (sdf.SDF2, error) { return obj.EuroRackPanel2D(erNarrow()) })
	b.add2("obj.EuroRackPanel2D", "3u20hp", func() (sdf.SDF2, error) { return obj.EuroRackPanel2D(erWide()) })
	b.add3("obj.EuroRackPanel3D", "eurorack_3u12hp_ridge", func() (sdf.SDF3, error) { return obj.EuroRackPanel3D(erAR()) })
	b.add3("obj.EuroRackPanel3D", "3u4hp_noridge", func() (sdf.SDF3, error) { return obj.EuroRackPanel3D(erNarrow()) })
	b.add3("obj.EuroRackPanel3D", "3u20hp_ridge", func() (sdf.SDF3, error) { return obj.EuroRackPanel3D(erWide()) })

	// panel holes: examples/eurorack
	const panelThickness = 2.5
	b.add3("obj.PanelHole3D", "eurorack_pot0", func() (sdf.SDF3, error) {
		return obj.PanelHole3D(&obj.PanelHoleParms{Diameter: 9.4, Thickness: panelThickness, Indent: pv3(2, 4, 2), Offset: 11.0})
	})
	b.add3("obj.PanelHole3D", "eurorack_spdt", func() (sdf.SDF3, error) {
		return obj.PanelHole3D(&obj.PanelHoleParms{Diameter: 6.2, Thickness: panelThickness, Indent: pv3(2, 2, 1.5), Offset: 5.4})
	})
	b.add3("obj.PanelHole3D", "eurorack_led", func() (sdf.SDF3, error) {
		return obj.PanelHole3D(&obj.PanelHoleParms{Diameter: 7.0, Thickness: panelThickness})
	})
	b.add3("obj.PanelHole3D", "eurorack_jack35_rot90", func() (sdf.SDF3, error) {
		return obj.PanelHole3D(&obj.PanelHoleParms{
			Diameter:    6.4,
			Thickness:   panelThickness,
			Indent:      pv3(2, 2, 1.5),
			Offset:      4.9,
			Orientation: sdf.DtoR(90),
		})
	})

	// panel box: examples/panel_box
	b.multi3("obj.PanelBox3D", "panel_box", []string{"panel", "top", "bottom"}, func() ([]sdf.SDF3, error) {
		return obj.PanelBox3D(&obj.PanelBoxParms{
			Size:       pv3(50.0, 40.0, 60.0),
			Wall:       2.5,
			Panel:      3.0,
			Rounding:   5.0,
			FrontInset: 2.0,
			BackInset:  2.0,
			Hole:       3.4,
			SideTabs:   "TbtbT",
		})
	})
	b.multi3("obj.PanelBox3D", "noholes_tb", []string{"panel", "top", "bottom"}, func() ([]sdf.SDF3, error) {
		return obj.PanelBox3D(&obj.PanelBoxParms{
			Size:       pv3(40.0, 30.0, 50.0),
			Wall:       2.0,
			Panel:      2.0,
			Rounding:   0,
			FrontInset: 0,
			BackInset:  1.0,
			Clearance:  0.05,
			SideTabs:   "tb",
		})
	})
}

//-----------------------------------------------------------------------------
// obj: pipes and pipe connectors

func partsObjPipes(b *partsBuilder) {
	b.add3("obj.Pipe3D", "delta_arm", func() (sdf.SDF3, error) { return obj.Pipe3D(10.0*0.5, 3.9*0.5, 30.0) })
	b.add3("obj.Pipe3D", "r10_r8_l50", func() (sdf.SDF3, error) { return obj.Pipe3D(10, 8, 50) })
	b.add3("obj.StdPipe3D", "test51_sch40_1_mm", func() (sdf.SDF3, error) { return obj.StdPipe3D("sch40:1", "mm", 100) })
	b.add3("obj.StdPipe3D", "sch40_1/2_inch", func() (sdf.SDF3, error) { return obj.StdPipe3D("sch40:1/2", "inch", 6) })

	// examples/pipe_connectors
	std := func(name string, cfg [6]bool) {
		b.add3("obj.StdPipeConnector3D", name, func() (sdf.SDF3, error) {
			return obj.StdPipeConnector3D("sch40:1", "mm", 40.0, cfg)
		})
	}
	std("pipe_connectors_2a", [6]bool{false, false, false, false, true, true})
	std("pipe_connectors_2b", [6]bool{true, false, false, false, true, false})
	std("pipe_connectors_3b", [6]bool{true, false, true, false, true, false})
	std("pipe_connectors_5a", [6]bool{true, true, true, true, true, false})

	// PipeConnector3D has no example: the parameters StdPipeConnector3D derives for sch40:1 (mm), and two others
	b.add3("obj.PipeConnector3D", "sch40_1_derived_4b", func() (sdf.SDF3, error) {
		p, err := obj.PipeLookup("sch40:1", "mm")
		if err != nil {
			return nil, err
		}
		const length = 40.0
		wall := p.Outer - p.Inner
		return obj.PipeConnector3D(&obj.PipeConnectorParms{
			Length:        length,
			OuterRadius:   p.Outer + wall,
			InnerRadius:   p.Outer,
			RecessDepth:   math.Min(2*p.Outer, length-p.Outer-(0.5*wall)),
			RecessWidth:   wall,
			Configuration: [6]bool{true, false, true, true, true, false},
		})
	})
	b.add3("obj.PipeConnector3D", "recess_3way", func() (sdf.SDF3, error) {
		return obj.PipeConnector3D(&obj.PipeConnectorParms{
			Length:        40,
			OuterRadius:   20,
			InnerRadius:   16,
			RecessDepth:   25,
			RecessWidth:   3,
			Configuration: [6]bool{true, false, true, false, true, false},
		})
	})
	b.add3("obj.PipeConnector3D", "norecess_6way", func() (sdf.SDF3, error) {
		return obj.PipeConnector3D(&obj.PipeConnectorParms{
			Length:        30,
			OuterRadius:   10,
			InnerRadius:   8,
			Configuration: [6]bool{true, true, true, true, true, true},
		})
	})
}

//-----------------------------------------------------------------------------
// obj: drain covers, drone arms, gears, geneva, gridfinity, servos

func partsObjMechanisms(b *partsBuilder) {
	const mmPerInch = sdf.MillimetresPerInch

	// examples/draincover
	b.add3("obj.DrainCover", "draincover_vent2", func() (sdf.SDF3, error) {
		return obj.DrainCover(&obj.DrainCoverParms{
			WallDiameter:   1.9 * mmPerInch,
			WallHeight:     0.5 * mmPerInch,
			WallThickness:  0.125 * mmPerInch,
			WallDraft:      0,
			OuterWidth:     0.2 * mmPerInch,
			InnerWidth:     0.18 * mmPerInch,
			CoverThickness: 0.125 * mmPerInch,
			GrateNumber:    8,
			GrateWidth:     1.1,
			GrateDraft:     0,
			CrossBarWidth:  0,
			CrossBarWeb:    false,
		})
	})
	b.add3("obj.DrainCover", "draincover_drain4", func() (sdf.SDF3, error) {
		return obj.DrainCover(&obj.DrainCoverParms{
			WallDiameter:   3.9 * mmPerInch,
			WallHeight:     0.8 * mmPerInch,
			WallThickness:  0.2 * mmPerInch,
			WallDraft:      sdf.DtoR(2.0),
			OuterWidth:     0.4 * mmPerInch,
			InnerWidth:     0.3 * mmPerInch,
			CoverThickness: 0.2 * mmPerInch,
			GrateNumber:    8,
			GrateWidth:     1.1,
			GrateDraft:     sdf.DtoR(8.0),
			CrossBarWidth:  0.8,
			CrossBarWeb:    false,
		})
	})
	b.add3("obj.DrainCover", "draincover_drain6", func() (sdf.SDF3, error) {
		return obj.DrainCover(&obj.DrainCoverParms{
			WallDiameter:   5.8 * mmPerInch,
			WallHeight:     0.8 * mmPerInch,
			WallThickness:  0.2 * mmPerInch,
			WallDraft:      sdf.DtoR(2.0),
			OuterWidth:     0.4 * mmPerInch,
			InnerWidth:     0.3 * mmPerInch,
			CoverThickness: 0.3 * mmPerInch,
			GrateNumber:    9,
			GrateWidth:     1.0,
			GrateDraft:     sdf.DtoR(8.0),
			CrossBarWidth:  1.8,
			CrossBarWeb:    true,
		})
	})
	b.add3("obj.DrainCover", "draincover_drain12", func() (sdf.SDF3, error) {
		return obj.DrainCover(&obj.DrainCoverParms{
			WallDiameter:   11.8 * mmPerInch,
			WallHeight:     1.0 * mmPerInch,
			WallThickness:  0.3 * mmPerInch,
			WallDraft:      sdf.DtoR(2.0),
			OuterWidth:     0.8 * mmPerInch,
			InnerWidth:     0.5 * mmPerInch,
			CoverThickness: 0.3 * mmPerInch,
			GrateNumber:    10,
			GrateWidth:     1.0,
			GrateDraft:     sdf.DtoR(8.0),
			CrossBarWidth:  1.5,
			CrossBarWeb:    true,
		})
	})

	// examples/drone
	kArm := func() *obj.DroneArmParms {
		return &obj.DroneArmParms{
			MotorSize:     pv2(28, 30),
			MotorMount:    pv3(16, 19, 3.4),
			RotorCavity:   pv2(9, 1.5),
			WallThickness: 3.0,
			SideClearance: 1.5,
			MountHeight:   0.7,
			ArmHeight:     0.9,
			ArmLength:     70.0,
		}
	}
	b.add3("obj.DroneMotorArm", "drone", func() (sdf.SDF3, error) { return obj.DroneMotorArm(kArm()) })
	b.add3("obj.DroneMotorArmSocket", "drone", func() (sdf.SDF3, error) {
		return obj.DroneMotorArmSocket(&obj.DroneArmSocketParms{Arm: kArm(), Size: pv3(40, 30, 30), Clearance: 0.5, Stop: 35})
	})

	// examples/gears, examples/bjj
	b.add2("obj.InvoluteGear", "gears", func() (sdf.SDF2, error) {
		return obj.InvoluteGear(&obj.InvoluteGearParms{
			NumberTeeth:   20,
			Module:        (5.0 / 8.0) / 20.0,
			PressureAngle: sdf.DtoR(20.0),
			RingWidth:     0.05,
			Facets:        7,
		})
	})
	b.add2("obj.InvoluteGear", "bjj_12", func() (sdf.SDF2, error) {
		return obj.InvoluteGear(&obj.InvoluteGearParms{NumberTeeth: 12, Module: 80.0 / 16.0, PressureAngle: sdf.DtoR(20), Facets: 10})
	})
	b.add2("obj.InvoluteGear", "bjj_16", func() (sdf.SDF2, error) {
		return obj.InvoluteGear(&obj.InvoluteGearParms{NumberTeeth: 16, Module: 80.0 / 16.0, PressureAngle: sdf.DtoR(20), Facets: 10})
	})

	// examples/geneva, examples/test
	geneva := func(name string, k obj.GenevaParms) {
		b.multi2("obj.Geneva2D", name, []string{"driver", "driven"}, func() ([]sdf.SDF2, error) {
			kk := k
			s0, s1, err := obj.Geneva2D(&kk)
			if err != nil {
				return nil, err
			}
			return []sdf.SDF2{s0, s1}, nil
		})
	}
	geneva("geneva_k0", obj.GenevaParms{NumSectors: 6, CenterDistance: 50.0, DriverRadius: 20.0, DrivenRadius: 40.0, PinRadius: 2.5, Clearance: 0.1})
	geneva("geneva_k1", obj.GenevaParms{NumSectors: 10, CenterDistance: 45.0, DriverRadius: 12.0, DrivenRadius: 45.0, PinRadius: 2.0, Clearance: 0.1})
	geneva("test36", obj.GenevaParms{NumSectors: 6, CenterDistance: 100, DriverRadius: 40, DrivenRadius: 80, PinRadius: 5, Clearance: 0.5})

	// examples/gridfinity (these constructors return no error; a panic is reported as Err)
	b.add3("obj.GfBase", "gridfinity_4x4", func() (sdf.SDF3, error) {
		return obj.GfBase(&obj.GfBaseParms{Size: v2i.Vec{X: 4, Y: 4}, Magnet: true, Hole: true}), nil
	})
	b.add3("obj.GfBase", "1x2_plain", func() (sdf.SDF3, error) {
		return obj.GfBase(&obj.GfBaseParms{Size: v2i.Vec{X: 1, Y: 2}}), nil
	})
	b.add3("obj.GfBody", "gridfinity_1x1x3", func() (sdf.SDF3, error) {
		return obj.GfBody(&obj.GfBodyParms{Size: v3i.Vec{X: 1, Y: 1, Z: 3}, Hole: true, Empty: true}), nil
	})
	b.add3("obj.GfBody", "gridfinity_1x2x1", func() (sdf.SDF3, error) {
		return obj.GfBody(&obj.GfBodyParms{Size: v3i.Vec{X: 1, Y: 2, Z: 1}}), nil
	})

	// servos: examples/servo iterates the ServoLookup names, examples/delta uses annimos_ds3218
	for _, n := range []string{"nano", "standard", "annimos_ds3218", "giant"} {
		n := n
		b.add3("obj.Servo3D", "servo_"+n, func() (sdf.SDF3, error) {
			k, err := obj.ServoLookup(n)
			if err != nil {
				return nil, err
			}
			return obj.Servo3D(k)
		})
	}
	servo2 := func(name, servo string, holeRadius float64) {
		b.add2("obj.Servo2D", name, func() (sdf.SDF2, error) {
			k, err := obj.ServoLookup(servo)
			if err != nil {
				return nil, err
			}
			return obj.Servo2D(k, holeRadius)
		})
	}
	servo2("delta_annimos_ds3218_hole2.1", "annimos_ds3218", 2.1)
	servo2("servo_standard_defaulthole", "standard", -1)
	servo2("servo_micro_defaulthole", "micro", -1)
	servo2("servo_giant_defaulthole", "giant", -1)

	b.add2("obj.ServoHorn", "delta", func() (sdf.SDF2, error) {
		return obj.ServoHorn(&obj.ServoHornParms{CenterRadius: 3, NumHoles: 4, CircleRadius: 14 * 0.5, HoleRadius: 1.9})
	})
	b.add2("obj.ServoHorn", "center_only", func() (sdf.SDF2, error) {
		return obj.ServoHorn(&obj.ServoHornParms{CenterRadius: 3})
	})
	b.add2("obj.ServoHorn", "holes_only", func() (sdf.SDF2, error) {
		return obj.ServoHorn(&obj.ServoHornParms{NumHoles: 6, CircleRadius: 10, HoleRadius: 1})
	})
}

//-----------------------------------------------------------------------------
// obj: tabs (examples/tabbox)

func partsObjTabs(b *partsBuilder) {
	const wallThickness = 3.0
	const round = 0.5 * wallThickness
	const clearance = 0.3

	straightTab := func() (obj.Tab, error) {
		return obj.NewStraightTab(pv3(3.0*wallThickness, 0.5*wallThickness, wallThickness), clearance)
	}
	angleTab := func() (obj.Tab, error) {
		return obj.NewAngleTab(pv3(2.5*wallThickness, wallThickness, wallThickness), clearance)
	}
	screwTab := func() (obj.Tab, error) {
		l := 20.0 * 0.35
		return obj.NewScrewTab(&obj.ScrewTab{
			Length:     l,
			Radius:     0.8 * wallThickness,
			Round:      true,
			HoleUpper:  wallThickness,
			HoleLower:  0.8 * l,
			HoleRadius: 1,
		})
	}

	// the tab objects themselves: the non-nil body / envelope of each kind, untransformed and placed
	place := sdf.Translate3d(pv3(10, -5, 2.5)).Mul(sdf.RotateZ(sdf.DtoR(90)))
	tabParts := func(ctor string, mk func() (obj.Tab, error)) {
		b.add3(ctor, "tabbox_body_lower", func() (sdf.SDF3, error) {
			t, err := mk()
			if err != nil {
				return nil, err
			}
			return t.Body(false, sdf.Identity3d()), nil
		})
		b.add3(ctor, "tabbox_envelope_upper", func() (sdf.SDF3, error) {
			t, err := mk()
			if err != nil {
				return nil, err
			}
			return t.Envelope(true, sdf.Identity3d()), nil
		})
		b.add3(ctor, "tabbox_body_lower_placed", func() (sdf.SDF3, error) {
			t, err := mk()
			if err != nil {
				return nil, err
			}
			return t.Body(false, place), nil
		})
	}
	tabParts("obj.NewStraightTab", straightTab)
	tabParts("obj.NewAngleTab", angleTab)
	tabParts("obj.NewScrewTab", screwTab)
	b.add3("obj.NewScrewTab", "tabbox_envelope_lower", func() (sdf.SDF3, error) {
		t, err := screwTab()
		if err != nil {
			return nil, err
		}
		return t.Envelope(false, sdf.Identity3d()), nil
	})

	// box0 of examples/tabbox: straight tabs
	box0 := func(upper bool) (sdf.SDF3, error) {
		oSize := pv3(40, 40, 20)
		iSize := oSize.SubScalar(2.0 * wallThickness)
		outer, err := sdf.Box3D(oSize, round)
		if err != nil {
			return nil, err
		}
		inner, err := sdf.Box3D(iSize, round)
		if err != nil {
			return nil, err
		}
		box := sdf.Difference3D(outer, inner)
		lidHeight := oSize.Z * 0.25
		if upper {
			box = sdf.Cut3D(box, pv3(0, 0, lidHeight), pv3(0, 0, 1))
		} else {
			box = sdf.Cut3D(box, pv3(0, 0, lidHeight), pv3(0, 0, -1))
		}
		tab, err := straightTab()
		if err != nil {
			return nil, err
		}
		xOfs := 0.5 * (iSize.X + wallThickness)
		yOfs := 0.5 * (iSize.Y + wallThickness)
		mSet := []sdf.M44{
			sdf.Translate3d(pv3(xOfs, 0, lidHeight)).Mul(sdf.RotateZ(sdf.DtoR(90))),
			sdf.Translate3d(pv3(-xOfs, 0, lidHeight)).Mul(sdf.RotateZ(sdf.DtoR(90))),
			sdf.Translate3d(pv3(0, yOfs, lidHeight)),
			sdf.Translate3d(pv3(0, -yOfs, lidHeight)),
		}
		return obj.AddTabs(box, tab, upper, mSet), nil
	}

	// box1 of examples/tabbox: angle tabs, then screw tabs
	box1 := func(upper bool) (sdf.SDF3, error) {
		oSize := pv3(40, 40, 20)
		iSize := oSize.SubScalar(2.0 * wallThickness)
		outer := sdf.Extrude3D(sdf.Box2D(pv2(oSize.X, oSize.Y), round), oSize.Z)
		inner := sdf.Extrude3D(sdf.Box2D(pv2(iSize.X, iSize.Y), round), iSize.Z)
		box := sdf.Difference3D(outer, inner)
		yOfs := oSize.Y * 0.2
		wall, err := sdf.Box3D(pv3(oSize.X, wallThickness, oSize.Z), 0)
		if err != nil {
			return nil, err
		}
		wall0 := sdf.Transform3D(wall, sdf.Translate3d(pv3(0, yOfs, 0)))
		wall1 := sdf.Transform3D(wall, sdf.Translate3d(pv3(0, -yOfs, 0)))
		box = sdf.Union3D(box, wall0, wall1)
		lidHeight := 0.5*oSize.Z - wallThickness
		if upper {
			box = sdf.Cut3D(box, pv3(0, 0, lidHeight), pv3(0, 0, 1))
		} else {
			box = sdf.Cut3D(box, pv3(0, 0, lidHeight), pv3(0, 0, -1))
		}
		tab, err := angleTab()
		if err != nil {
			return nil, err
		}
		xOfs := oSize.X * 0.25
		mSet := []sdf.M44{
			sdf.Translate3d(pv3(xOfs, yOfs, lidHeight)),
			sdf.Translate3d(pv3(xOfs, -yOfs, lidHeight)),
			sdf.Translate3d(pv3(-xOfs, yOfs, lidHeight)),
			sdf.Translate3d(pv3(-xOfs, -yOfs, lidHeight)),
		}
		box = obj.AddTabs(box, tab, upper, mSet)
		tab, err = screwTab()
		if err != nil {
			return nil, err
		}
		xOfs = 0.5*oSize.X - wallThickness
		yOfs = 0.5*oSize.Y - wallThickness
		mSet = []sdf.M44{
			sdf.Translate3d(pv3(xOfs, yOfs, lidHeight)),
			sdf.Translate3d(pv3(-xOfs, yOfs, lidHeight)),
			sdf.Translate3d(pv3(xOfs, -yOfs, lidHeight)),
			sdf.Translate3d(pv3(-xOfs, -yOfs, lidHeight)),
		}
		return obj.AddTabs(box, tab, upper, mSet), nil
	}

	b.add3("obj.AddTabs", "tabbox_box0_upper", func() (sdf.SDF3, error) { return box0(true) })
	b.add3("obj.AddTabs", "tabbox_box0_lower", func() (sdf.SDF3, error) { return box0(false) })
	b.add3("obj.AddTabs", "tabbox_box1_upper", func() (sdf.SDF3, error) { return box1(true) })
	b.add3("obj.AddTabs", "tabbox_box1_lower", func() (sdf.SDF3, error) { return box1(false) })
}

//-----------------------------------------------------------------------------
// sdf: text, cams, flange, gear rack, spiral, cubic splines, bezier curves

func partsSdf2D(b *partsBuilder) {
	// text: examples/text (font files/cmr10.ttf, height 10)
	text := func(name, s string) {
		b.add2("Text2D", name, func() (sdf.SDF2, error) {
			f, err := sdf.LoadFont(partsFontPath)
			if err != nil {
				return nil, err
			}
			return sdf.Text2D(f, sdf.NewText(s), 10.0)
		})
	}
	text("cmr10_hello", "Hello")
	text("cmr10_sdfx", "SDFX!")
	text("text_multiline", "SDFX!\nHello,\nWorld!")

	// cams: examples/joko, benchmark, delta, camshaft, test
	b.add2("FlatFlankCam2D", "joko", func() (sdf.SDF2, error) {
		const radiusOuterBig, radiusOuterSmall = 1.89, 1.0
		const centerToCenter = 9.75 - radiusOuterBig - radiusOuterSmall
		return sdf.FlatFlankCam2D(centerToCenter, radiusOuterBig, radiusOuterSmall)
	})
	b.add2("FlatFlankCam2D", "benchmark", func() (sdf.SDF2, error) { return sdf.FlatFlankCam2D(30, 20, 5) })
	b.add2("FlatFlankCam2D", "delta_upperarm", func() (sdf.SDF2, error) { return sdf.FlatFlankCam2D(100.0, 15.0, 5.0) })
	b.add2("MakeFlatFlankCam", "test32", func() (sdf.SDF2, error) {
		return sdf.MakeFlatFlankCam(0.094, sdf.DtoR(2.0*57.5), 0.625)
	})
	b.add2("MakeFlatFlankCam", "lift3_dur120_d40", func() (sdf.SDF2, error) {
		return sdf.MakeFlatFlankCam(3, sdf.DtoR(120), 40)
	})
	b.add2("ThreeArcCam2D", "benchmark", func() (sdf.SDF2, error) { return sdf.ThreeArcCam2D(30, 20, 5, 200) })
	b.add2("ThreeArcCam2D", "test33", func() (sdf.SDF2, error) { return sdf.ThreeArcCam2D(30, 20, 5, 50000) })
	// the constructor accepts flankRadius >= (base + distance + nose) / 2 = 27.5
	b.add2("ThreeArcCam2D", "smallflank_28", func() (sdf.SDF2, error) { return sdf.ThreeArcCam2D(30, 20, 5, 28) })
	b.add2("ThreeArcCam2D", "flank_40", func() (sdf.SDF2, error) { return sdf.ThreeArcCam2D(30, 20, 5, 40) })
	{
		const valveDiameter, rockerRatio = 0.25, 1.0
		const lift = valveDiameter * rockerRatio * 0.25
		const camDiameter = 5.0 / 8.0
		const k = 1.05
		b.add2("MakeThreeArcCam", "camshaft_inlet", func() (sdf.SDF2, error) {
			return sdf.MakeThreeArcCam(lift, sdf.DtoR(115), camDiameter, k)
		})
		b.add2("MakeThreeArcCam", "camshaft_exhaust", func() (sdf.SDF2, error) {
			return sdf.MakeThreeArcCam(lift, sdf.DtoR(125), camDiameter, k)
		})
	}
	b.add2("MakeThreeArcCam", "test34", func() (sdf.SDF2, error) {
		return sdf.MakeThreeArcCam(0.1, sdf.DtoR(2.0*80), 0.7, 1.1)
	})

	// flange: examples/cylinder_head (NewFlange1 returns the SDF2 directly, no error)
	b.add2("NewFlange1", "cylinder_head", func() (sdf.SDF2, error) {
		const ebC2cDistance = 13.0 / 16.0
		return sdf.NewFlange1(ebC2cDistance/2.0, 5.0/16.0, 5.0/32.0), nil
	})
	b.add2("NewFlange1", "equal_radii", func() (sdf.SDF2, error) { return sdf.NewFlange1(30, 10, 10), nil })
	b.add2("NewFlange1", "side_larger_than_center", func() (sdf.SDF2, error) { return sdf.NewFlange1(20, 5, 8), nil })

	// gear rack: examples/gears
	b.add2("GearRack2D", "gears", func() (sdf.SDF2, error) {
		return sdf.GearRack2D(&sdf.GearRackParms{
			NumberTeeth:   11,
			Module:        (5.0 / 8.0) / 20.0,
			PressureAngle: sdf.DtoR(20.0),
			BaseHeight:    0.025,
		})
	})
	b.add2("GearRack2D", "module2_backlash", func() (sdf.SDF2, error) {
		return sdf.GearRack2D(&sdf.GearRackParms{
			NumberTeeth:   5,
			Module:        2,
			PressureAngle: sdf.DtoR(20.0),
			Backlash:      0.1,
			BaseHeight:    3,
		})
	})
	b.add2("GearRack2D", "one_tooth_nobase", func() (sdf.SDF2, error) {
		return sdf.GearRack2D(&sdf.GearRackParms{NumberTeeth: 1, Module: 1, PressureAngle: sdf.DtoR(14.5)})
	})

	// spiral: examples/spiral
	b.add2("ArcSpiral2D", "spiral", func() (sdf.SDF2, error) {
		return sdf.ArcSpiral2D(1.0, 20.0, 0.25*sdf.Pi, 8*sdf.Tau, 1.0)
	})
	b.add2("ArcSpiral2D", "k0_4turns", func() (sdf.SDF2, error) { return sdf.ArcSpiral2D(0.5, 0, 0, 4*sdf.Tau, 0.2) })
	b.add2("ArcSpiral2D", "start_gt_end", func() (sdf.SDF2, error) { return sdf.ArcSpiral2D(1.0, 0, 6*sdf.Tau, sdf.Tau, 0.5) })
	b.add2("ArcSpiral2D", "negative_a", func() (sdf.SDF2, error) { return sdf.ArcSpiral2D(-1.0, 30.0, 0, 3*sdf.Tau, 0.5) })
	// radii that are negative at the end with the larger magnitude: negative angles, and an inward spiral through the centre
	b.add2("ArcSpiral2D", "negative_angles", func() (sdf.SDF2, error) { return sdf.ArcSpiral2D(1.0, 0, -3*sdf.Tau, -sdf.Tau, 2.0) })
	b.add2("ArcSpiral2D", "through_centre", func() (sdf.SDF2, error) { return sdf.ArcSpiral2D(-1.0, 6.0, 0, 4*sdf.Tau, 2.0) })

	// cubic splines: the knot set of sdf/sdf_test.go, and a few small ones
	knotsTest := []v2.Vec{
		pv2(-1.5, -1.2), pv2(-0.2, 0), pv2(1, 0.5), pv2(5, 1),
		pv2(10, 2.2), pv2(12, 3.2), pv2(-16, -1.2), pv2(-18, -3.2),
	}
	knotsArch := []v2.Vec{pv2(0, 0), pv2(1, 1), pv2(2, 0)}
	knotsLoop := []v2.Vec{pv2(0, 0), pv2(10, 0), pv2(10, 10), pv2(0, 10), pv2(0, 0)}
	knotsTwo := []v2.Vec{pv2(-3, -1), pv2(4, 2)}
	spline := func(name string, knots []v2.Vec) {
		b.add2("CubicSpline2D", name, func() (sdf.SDF2, error) { return sdf.CubicSpline2D(knots) })
	}
	spline("sdf_test_knots", knotsTest)
	spline("arch_3knots", knotsArch)
	spline("loop_5knots", knotsLoop)
	spline("line_2knots", knotsTwo)
	b.add2("CubicSpline2D.PolySpline2D", "loop_5knots_n100", func() (sdf.SDF2, error) {
		s, err := sdf.CubicSpline2D(knotsLoop)
		if err != nil {
			return nil, err
		}
		cs, ok := s.(*sdf.CubicSplineSDF2)
		if !ok {
			return nil, fmt.Errorf("CubicSpline2D returned %T", s)
		}
		return cs.PolySpline2D(100)
	})

	// bezier curves: examples/bezier (Mesh2D), and the same curves through Polygon() + Polygon2D
	bowlingPin := func() *sdf.Bezier {
		bz := sdf.NewBezier()
		bz.Add(0, 0)
		bz.Add(2.031/2.0, 0).HandleFwd(sdf.DtoR(45), 2)
		bz.Add(4.766/2.0, 4.5).Handle(sdf.DtoR(90), 2, 2)
		bz.Add(1.797/2.0, 10).Handle(sdf.DtoR(90), 3, 3)
		bz.Add(2.547/2.0, 13.5).Handle(sdf.DtoR(90), 1, 1)
		bz.Add(0, 15).HandleRev(sdf.DtoR(0), 1)
		bz.Close()
		return bz
	}
	egg1 := func() *sdf.Bezier {
		bz := sdf.NewBezier()
		bz.Add(0, 0).HandleFwd(sdf.DtoR(0), 10)
		bz.Add(0, 16).HandleRev(sdf.DtoR(0), 5)
		bz.Close()
		return bz
	}
	egg2 := func() *sdf.Bezier {
		h := 8.0
		r := 2.5
		bz := sdf.NewBezier()
		bz.Add(0, 0).HandleFwd(sdf.DtoR(0), r/2)
		bz.Add(r, 0.4*h).Handle(sdf.DtoR(90), 0.7*r, 0.7*r)
		bz.Add(0, h).HandleRev(sdf.DtoR(0), r/3)
		bz.Close()
		return bz
	}
	bowl := func() *sdf.Bezier {
		bz := sdf.NewBezier()
		bz.Add(1.428570, 0.000000)
		bz.Add(194.311790, 1.616000).Mid()
		bz.Add(424.623890, -2.388090).Mid()
		bz.Add(584.285710, 98.571430)
		bz.Add(730.711690, 191.161470).Mid()
		bz.Add(845.816870, 372.034250).Mid()
		bz.Add(850.576860, 545.337880)
		bz.Add(855.789270, 735.113020).Mid()
		bz.Add(679.478190, 877.171053).Mid()
		bz.Add(586.270181, 1049.835600)
		bz.Add(562.176808, 1094.467720).Mid()
		bz.Add(551.662561, 1169.752600).Mid()
		bz.Add(530.555895, 1191.428570)
		bz.Add(506.830592, 1215.793810).Mid()
		bz.Add(461.351740, 1202.110070).Mid()
		bz.Add(444.285710, 1178.571430)
		bz.Add(414.233090, 1137.120790).Mid()
		bz.Add(452.788480, 1075.361930).Mid()
		bz.Add(470.000000, 1027.142850)
		bz.Add(531.988775, 853.477662).Mid()
		bz.Add(743.353570, 724.365420).Mid()
		bz.Add(743.662950, 546.384650)
		bz.Add(743.899310, 410.411750).Mid()
		bz.Add(648.722298, 272.112130).Mid()
		bz.Add(536.903859, 194.747260)
		bz.Add(387.543410, 91.407850).Mid()
		bz.Add(0.000000, 101.890120).Mid()
		bz.Add(0.000000, 101.890120)
		bz.Close()
		return bz
	}
	for _, c := range []struct {
		name string
		mk   func() *sdf.Bezier
	}{
		{"bezier_bowlingpin", bowlingPin},
		{"bezier_egg1", egg1},
		{"bezier_egg2", egg2},
		{"bezier_bowl", bowl},
	} {
		c := c
		b.add2("Bezier.Mesh2D", c.name, func() (sdf.SDF2, error) { return c.mk().Mesh2D() })
		b.add2("Bezier.Polygon", c.name, func() (sdf.SDF2, error) {
			p, err := c.mk().Polygon()
			if err != nil {
				return nil, err
			}
			return sdf.Polygon2D(p.Vertices())
		})
	}
}

//-----------------------------------------------------------------------------
// sdf: thread profiles and Screw3D

func partsSdfScrews(b *partsBuilder) {
	type profile struct {
		name string
		mk   func() (sdf.SDF2, error)
	}
	// a screw entry: Screw3D(profile, length, taper, pitch, starts)
	screw := func(name string, p func() (sdf.SDF2, error), length, taper, pitch float64, starts int) {
		b.add3("Screw3D", name, func() (sdf.SDF3, error) {
			t, err := p()
			if err != nil {
				return nil, err
			}
			return sdf.Screw3D(t, length, taper, pitch, starts)
		})
	}
	lookup := func(name string) (*sdf.ThreadParameters, error) { return sdf.ThreadLookup(name) }

	// the 2D thread profiles themselves
	profiles := []struct {
		ctor string
		p    profile
	}{
		{"AcmeThread", profile{"r5_p2", func() (sdf.SDF2, error) { return sdf.AcmeThread(5, 2) }}},
		{"AcmeThread", profile{"r24.25_p6", func() (sdf.SDF2, error) { return sdf.AcmeThread(24.25, 6) }}},
		{"ISOThread", profile{"test37_external", func() (sdf.SDF2, error) { return sdf.ISOThread(5.0, 2.0, true) }}},
		{"ISOThread", profile{"test37_internal", func() (sdf.SDF2, error) { return sdf.ISOThread(5.0, 2.0, false) }}},
		{"ISOThread", profile{"tapers_external", func() (sdf.SDF2, error) { return sdf.ISOThread(2.0, 0.5, true) }}},
		{"ANSIButtressThread", profile{"r5_p2", func() (sdf.SDF2, error) { return sdf.ANSIButtressThread(5, 2) }}},
		{"ANSIButtressThread", profile{"r24.25_p6", func() (sdf.SDF2, error) { return sdf.ANSIButtressThread(24.25, 6) }}},
		{"PlasticButtressThread", profile{"gas_cap", func() (sdf.SDF2, error) { return sdf.PlasticButtressThread(48.5/2.0, 6.0) }}},
		{"PlasticButtressThread", profile{"r5_p2", func() (sdf.SDF2, error) { return sdf.PlasticButtressThread(5, 2) }}},
	}
	for _, e := range profiles {
		e := e
		b.add2(e.ctor, e.p.name, e.p.mk)
	}

	// ISO external: examples/test (test37), bolt_container, fidget, tapers
	isoExt := func(r, p float64) func() (sdf.SDF2, error) {
		return func() (sdf.SDF2, error) { return sdf.ISOThread(r, p, true) }
	}
	isoInt := func(r, p float64) func() (sdf.SDF2, error) {
		return func() (sdf.SDF2, error) { return sdf.ISOThread(r, p, false) }
	}
	screw("iso_ext_test37", isoExt(5.0, 2.0), 50, 0, 2.0, 1)
	screw("iso_ext_2start", isoExt(5.0, 2.0), 30, 0, 2.0, 2)
	screw("iso_ext_lefthand", isoExt(5.0, 2.0), 30, 0, 2.0, -1)
	{
		const screwRadius = 40.0 * 0.7
		const threadPitch = screwRadius / 5.0
		screw("iso_ext_bolt_container", isoExt(screwRadius-0.5, threadPitch), 40.0, 0, threadPitch, 1)
	}
	screw("iso_ext_fidget", isoExt((8.0/2)*0.8-0.25, 1.0), 7.0, 0, 1.0, 1)
	screw("iso_int_fidget", isoInt((8.0/2)*0.8, 1.0), 7.0, 0, 1.0, 1)
	screw("iso_ext_tapers1_7start", isoExt(2.0, 0.5), 5.0, sdf.DtoR(20), 0.5, 7)
	screw("iso_ext_tapers1_7start_lefthand", isoExt(2.0, 0.5), 5.0, sdf.DtoR(20), 0.5, -7)
	screw("iso_ext_tapers2", isoExt(2.0, 0.5), 10.0, sdf.DtoR(3), 0.5, 1)
	screw("iso_int_taper3_2start", isoInt(5.0, 2.0), 20, sdf.DtoR(3), 2.0, 2)

	// as obj/bolt.go and obj/nut.go build them from the thread database
	boltThread := func(name, thread string, tol, length float64) {
		b.add3("Screw3D", name, func() (sdf.SDF3, error) {
			t, err := lookup(thread)
			if err != nil {
				return nil, err
			}
			iso, err := sdf.ISOThread(t.Radius-tol, t.Pitch, true)
			if err != nil {
				return nil, err
			}
			return sdf.Screw3D(iso, length, t.Taper, t.Pitch, 1)
		})
	}
	nutThread := func(name, thread string, tol float64) {
		b.add3("Screw3D", name, func() (sdf.SDF3, error) {
			t, err := lookup(thread)
			if err != nil {
				return nil, err
			}
			iso, err := sdf.ISOThread(t.Radius+tol, t.Pitch, false)
			if err != nil {
				return nil, err
			}
			return sdf.Screw3D(iso, t.HexHeight(), t.Taper, t.Pitch, 1)
		})
	}
	boltThread("bolt_M16x2", "M16x2", 0.3, 40.0)
	boltThread("bolt_unc_5/8", "unc_5/8", 0.3/sdf.MillimetresPerInch, 1.5)
	boltThread("bolt_npt_1/2_taper", "npt_1/2", 0, 1.25)
	nutThread("nut_M16x2", "M16x2", 0.3)
	nutThread("nut_unc_1/2", "unc_1/2", 0)
	nutThread("nut_npt_1/2_taper", "npt_1/2", 0)

	// acme, ANSI buttress, plastic buttress (examples/gas_cap): starts 1 and 2, taper 0 and != 0
	acme := func() (sdf.SDF2, error) { return sdf.AcmeThread(5, 2) }
	ansi := func() (sdf.SDF2, error) { return sdf.ANSIButtressThread(5, 2) }
	plastic := func() (sdf.SDF2, error) { return sdf.PlasticButtressThread(5, 2) }
	gasCap := func() (sdf.SDF2, error) { return sdf.PlasticButtressThread(48.5/2.0, 6.0) }
	screw("acme_1start", acme, 30, 0, 2, 1)
	screw("acme_2start", acme, 30, 0, 2, 2)
	screw("acme_taper5", acme, 20, sdf.DtoR(5), 2, 1)
	screw("ansi_buttress_1start", ansi, 30, 0, 2, 1)
	screw("ansi_buttress_2start", ansi, 30, 0, 2, 2)
	screw("ansi_buttress_taper5_2start", ansi, 20, sdf.DtoR(5), 2, 2)
	screw("plastic_buttress_gas_cap", gasCap, 28.0, 0, 6.0, 1)
	screw("plastic_buttress_gas_cap_2start", gasCap, 28.0, 0, 6.0, 2)
	screw("plastic_buttress_1start", plastic, 30, 0, 2, 1)
	screw("plastic_buttress_taper3", plastic, 20, sdf.DtoR(3), 2, 1)
}

//-----------------------------------------------------------------------------
// sdf: voxel cache of a small union (examples/monkey_hat uses meshCells 64 on an imported mesh)

func partsSdfVoxel(b *partsBuilder) {
	inner := func() (sdf.SDF3, error) {
		sphere, err := sdf.Sphere3D(1.0)
		if err != nil {
			return nil, err
		}
		box, err := sdf.Box3D(pv3(1.0, 1.5, 0.8), 0)
		if err != nil {
			return nil, err
		}
		box = sdf.Transform3D(box, sdf.Translate3d(pv3(1.0, 0.25, 0.5)))
		return sdf.Union3D(sphere, box), nil
	}
	for _, cells := range []int{8, 15} {
		cells := cells
		b.add3("NewVoxelSDF3", fmt.Sprintf("sphere_box_cells%d", cells), func() (sdf.SDF3, error) {
			s, err := inner()
			if err != nil {
				return nil, err
			}
			return sdf.NewVoxelSDF3(s, cells, nil), nil
		})
	}
}
