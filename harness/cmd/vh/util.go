package main

import "strconv"

func trimFloat(x float64) string { return strconv.FormatFloat(x, 'g', 8, 64) }
