package main

// C02 (cache clause) / C10: schedules of CacheConc.tla replayed against the REAL sdf.Cache2D.  The wrapped
// operand is gated: a goroutine that misses the cache is held inside the operand's Evaluate until the
// schedule says Finish, so every interleaving of the model is forced on the real code.  Observation: the
// replies in completion order [goroutine, point, value * 1e6, hit]; CacheConcTrace.tla judges.

import (
	"encoding/json"
	"math"
	"time"

	"github.com/deadsy/sdfx/sdf"
	v2 "github.com/deadsy/sdfx/vec/v2"
)

type cacheConcVec struct {
	H [][3]int `json:"h"` // [kind (1 Begin, 2 Finish), goroutine, point]
	R [][4]int `json:"r"` // the model's replies [goroutine, point, value, hit]
}

type cacheConcObs struct {
	Ev       string   `json:"ev"`
	H        [][3]int `json:"h"`
	R        [][4]int `json:"r"`        // model
	Real     [][4]int `json:"real"`     // real replies [goroutine, point, value*1e6 (rounded), hit]
	Realised bool     `json:"realised"` // every step of the schedule could be executed
	Stuck    int      `json:"stuck"`    // first step (1-based) that could not be executed, else 0
	Inner    int      `json:"inner"`    // calls of the wrapped shape
}

type gatedSDF2 struct {
	arriving int
	arrived  chan int
	release  map[int]chan struct{}
	calls    int
}

func (s *gatedSDF2) Evaluate(p v2.Vec) float64 {
	g := s.arriving
	s.calls++ // only one goroutine arrives at a time (the scheduler waits for it)
	s.arrived <- g
	<-s.release[g]
	return 10*p.X + 1
}
func (s *gatedSDF2) BoundingBox() sdf.Box2 {
	return sdf.Box2{Min: v2.Vec{X: -1, Y: -1}, Max: v2.Vec{X: 9, Y: 1}}
}

func cacheConcReplay(v cacheConcVec) cacheConcObs {
	o := cacheConcObs{Ev: "cacheconc", H: v.H, R: v.R, Real: [][4]int{}, Realised: true}
	ng := 0
	for _, st := range v.H {
		if st[1] > ng {
			ng = st[1]
		}
	}
	in := &gatedSDF2{arrived: make(chan int), release: map[int]chan struct{}{}}
	cs := sdf.Cache2D(in)
	work := map[int]chan int{}
	done := map[int]chan float64{}
	// all channels exist before any goroutine starts: the maps are read-only afterwards
	for g := 1; g <= ng; g++ {
		in.release[g] = make(chan struct{})
		work[g] = make(chan int)
		done[g] = make(chan float64, 1)
	}
	for g := 1; g <= ng; g++ {
		go func(w chan int, d chan float64) {
			for p := range w {
				d <- cs.Evaluate(v2.Vec{X: float64(p), Y: 0})
			}
		}(work[g], done[g])
	}
	cur := map[int]int{}
	reply := func(g, p int, d float64, hit int) {
		o.Real = append(o.Real, [4]int{g, p, int(math.Round(d * 1e6)), hit})
	}
	const wait = 3 * time.Second
	for i, st := range v.H {
		kind, g, p := st[0], st[1], st[2]
		if kind == 1 {
			in.arriving = g
			select {
			case work[g] <- p:
			case <-time.After(wait):
				o.Realised, o.Stuck = false, i+1
			}
			if !o.Realised {
				break
			}
			select {
			case d := <-done[g]:
				reply(g, p, d, 1)
			case <-in.arrived:
				cur[g] = p
			case <-time.After(wait):
				o.Realised, o.Stuck = false, i+1
			}
		} else {
			select {
			case in.release[g] <- struct{}{}:
				select {
				case d := <-done[g]:
					reply(g, cur[g], d, 0)
				case <-time.After(wait):
					o.Realised, o.Stuck = false, i+1
				}
			case <-time.After(wait):
				// the model has g inside the wrapped Evaluate, the real goroutine is not there
				o.Realised, o.Stuck = false, i+1
			}
		}
		if !o.Realised {
			break
		}
	}
	o.Inner = in.calls
	if o.Realised {
		for g := 1; g <= ng; g++ {
			close(work[g])
		}
	}
	return o
}

func c02CacheConc(args []string) error {
	stuck := 0
	readVectors("-", func(raw json.RawMessage) {
		var v cacheConcVec
		if err := json.Unmarshal(raw, &v); err != nil {
			fatal("bad vector: %v", err)
		}
		if stuck >= 8 {
			// each schedule that cannot be executed costs a time-out: after a few of them the rest is not tried
			emit(cacheConcObs{Ev: "cacheconc", H: v.H, R: v.R, Real: [][4]int{}, Stuck: -1})
			return
		}
		o := cacheConcReplay(v)
		if !o.Realised {
			stuck++
		}
		emit(o)
	})
	return nil
}

func init() { register("c02-cacheconc", c02CacheConc) }
