package main

// C12: fault enumeration on the real render-to-file calls, each in a child process.

import (
	"bufio"
	"bytes"
	"encoding/json"
	"fmt"
	"os"
	"os/exec"
	"os/signal"
	"path/filepath"
	"runtime"
	"strconv"
	"strings"
	"sync"
	"syscall"
	"time"

	"github.com/deadsy/sdfx/render"
	"github.com/deadsy/sdfx/sdf"
	v3 "github.com/deadsy/sdfx/vec/v3"
	"github.com/deadsy/sdfx/vec/v3i"
)

type faultVec struct {
	Sink  string `json:"sink"`  // stl | 3mf | dxf | svg
	Mode  string `json:"mode"`  // none | fsize | devfull | nodir | underfile | dangling | emptypath
	Limit int64  `json:"limit"` // RLIMIT_FSIZE in bytes (mode fsize)
	Items int    `json:"items"`
	Batch int    `json:"batch"`
	EvLog bool   `json:"evlog,omitempty"` // also return the child's Pipeline event log
	Real  string `json:"real,omitempty"`  // "" = scripted producer; else a real renderer: mcu:<cells> | mco:<cells> | msu:<cells> | msq:<cells>
	Dims  [3]int `json:"dims,omitempty"`  // real uniform renders: bounding box size in cells (lattice = dims+2 points per axis)
}

type faultObs struct {
	Ev        string   `json:"ev"`
	Vec       faultVec `json:"vec"`
	Returned  bool     `json:"returned"`
	Blocked   bool     `json:"blocked"`  // goroutine dump of the hung child shows a blocked channel send in the buffer
	Events    []string `json:"events"`   // hook events of the child, in order
	Errs      int      `json:"errs"`     // writer error events
	FailItem  int      `json:"failitem"` // items stored when the first error was reported (-1 = none)
	WallMs    int      `json:"wallms"`
	FileSize  int64    `json:"filesize"`
	ChildExit int      `json:"childexit"`
	EvLog     [][3]int `json:"evlog,omitempty"` // Pipeline events of the child (when requested)
	Panicked  bool     `json:"panicked"`        // the child died with a Go panic / runtime fault other than the deadlock report
	Fault     string   `json:"fault"`
}

// plainRenderer writes `items` numbered items in batches and closes the buffer (single producer).
type plainRenderer struct{ items, batch int }

func (r *plainRenderer) Info(s sdf.SDF3) string { return "plain" }
func (r *plainRenderer) Render(s sdf.SDF3, out sdf.Triangle3Writer) {
	for k := 1; k <= r.items; k += r.batch {
		n := r.batch
		if k+n-1 > r.items {
			n = r.items - k + 1
		}
		b := make([]*sdf.Triangle3, n)
		for i := range b {
			b[i] = itemTriangle(k + i)
		}
		out.Write(b)
	}
	out.Close()
}

type plainRenderer2 struct{ items, batch int }

func (r *plainRenderer2) Info(s sdf.SDF2) string { return "plain" }
func (r *plainRenderer2) Render(s sdf.SDF2, out sdf.Line2Writer) {
	for k := 1; k <= r.items; k += r.batch {
		n := r.batch
		if k+n-1 > r.items {
			n = r.items - k + 1
		}
		b := make([]*sdf.Line2, n)
		for i := range b {
			b[i] = itemLine(k + i)
		}
		out.Write(b)
	}
	out.Close()
}

// c12-child <sink> <mode> <limit> <items> <batch> <path>: one faulty render; hook events go to stdout
// line by line (flushed), so that the parent sees them even if the call never returns.
func c12Child(args []string) error {
	if len(args) < 6 {
		return fmt.Errorf("usage")
	}
	sink, mode := args[0], args[1]
	limit, _ := strconv.ParseInt(args[2], 10, 64)
	items, _ := strconv.Atoi(args[3])
	batch, _ := strconv.Atoi(args[4])
	path := args[5]
	real := ""
	var dims [3]int
	if len(args) >= 10 {
		real = args[6]
		dims[0], _ = strconv.Atoi(args[7])
		dims[1], _ = strconv.Atoi(args[8])
		dims[2], _ = strconv.Atoi(args[9])
	}
	var mu sync.Mutex
	say := func(s string) {
		mu.Lock()
		outW.WriteString(s + "\n")
		outW.Flush()
		mu.Unlock()
	}
	render.VerifHook = func(ev string, a, b, c int) {
		switch ev {
		case "wr.start", "wr.exit", "wr.eof", "top.createfail", "top.rendered", "top.return":
			say(fmt.Sprintf("%s %d", ev, b))
		case "wr.err":
			say(fmt.Sprintf("wr.err %d", b))
		case "wr.recv":
			say(fmt.Sprintf("wr.recv %d", c))
		}
	}
	sdf.VerifHook = func(ev string, a, b int) {
		if ev == "tb.send" || ev == "lb.send" {
			say(fmt.Sprintf("send %d", a))
		}
	}
	var pg *gate
	if os.Getenv("VERIF_C12_EVLOG") != "" {
		// full Pipeline event log (as c11-record) plus the writer's error event (kind 8)
		pg = newGate()
		pg.open, pg.log = true, true
		prevR, prevS := render.VerifHook, sdf.VerifHook
		render.VerifHook = func(ev string, a, b, c int) {
			prevR(ev, a, b, c)
			if ev == "wr.err" {
				pg.mu.Lock()
				pg.rec(8, b, 0)
				pg.mu.Unlock()
				return
			}
			pg.hookRender(ev, a, b, c)
		}
		sdf.VerifHook = func(ev string, a, b int) {
			prevS(ev, a, b)
			pg.hookSdf(ev, a, b)
		}
		defer func() {
			pg.mu.Lock()
			b, _ := json.Marshal(pg.events)
			pg.mu.Unlock()
			say("EVLOG " + string(b))
		}()
	}
	if mode == "fsize" {
		signal.Ignore(syscall.SIGXFSZ)
		lim := syscall.Rlimit{Cur: uint64(limit), Max: uint64(limit)}
		if err := syscall.Setrlimit(syscall.RLIMIT_FSIZE, &lim); err != nil {
			return err
		}
	}
	if real != "" {
		// a real renderer on a box-shaped solid whose bounding box is dims cells
		var cells int
		fmt.Sscanf(real[4:], "%d", &cells)
		bx, _ := sdf.Box3D(v3.Vec{X: float64(dims[0]), Y: float64(dims[1]), Z: float64(dims[2])}, 0)
		ci, _ := sdf.Circle2D(1)
		switch {
		case strings.HasPrefix(real, "mcu:") && sink == "stl":
			render.ToSTL(bx, path, render.NewMarchingCubesUniform(cells))
		case strings.HasPrefix(real, "mcu:") && sink == "3mf":
			render.To3MF(bx, path, render.NewMarchingCubesUniform(cells))
		case strings.HasPrefix(real, "mcol"):
			// a dense lattice of small balls: nearly every cube of every octree level holds surface (far more
			// simultaneously pending cubes than a compact solid ever produces)
			fmt.Sscanf(real[5:], "%d", &cells)
			ball, _ := sdf.Sphere3D(0.3)
			lat := sdf.Array3D(ball, v3i.Vec{X: dims[0], Y: dims[1], Z: dims[2]}, v3.Vec{X: 1, Y: 1, Z: 1})
			render.ToSTL(lat, path, render.NewMarchingCubesOctree(cells))
		case strings.HasPrefix(real, "mco:"):
			render.ToSTL(bx, path, render.NewMarchingCubesOctree(cells))
		case strings.HasPrefix(real, "msu:"):
			render.ToSVG(ci, path, render.NewMarchingSquaresUniform(cells))
		case strings.HasPrefix(real, "msq:"):
			render.ToDXF(ci, path, render.NewMarchingSquaresQuadtree(cells))
		default:
			return fmt.Errorf("real %q with sink %q", real, sink)
		}
		say("caller.return 0")
		return nil
	}
	switch sink {
	case "stl":
		render.ToSTL(dummy3{}, path, &plainRenderer{items, batch})
	case "3mf":
		render.To3MF(dummy3{}, path, &plainRenderer{items, batch})
	case "dxf":
		render.ToDXF(dummy2{}, path, &plainRenderer2{items, batch})
	case "svg":
		render.ToSVG(dummy2{}, path, &plainRenderer2{items, batch})
	default:
		return fmt.Errorf("sink %q", sink)
	}
	say("caller.return 0")
	return nil
}

func runFault(v faultVec, dir string, watchdog time.Duration) faultObs {
	o := faultObs{Ev: "fault", Vec: v, Events: []string{}, FailItem: -1}
	path := filepath.Join(dir, "out."+v.Sink)
	os.Remove(path)
	switch v.Mode {
	case "devfull":
		path = "/dev/full"
	case "nodir":
		path = filepath.Join(dir, "no-such-dir", "out."+v.Sink)
	case "dangling":
		// a symbolic link in an existing directory whose target directory does not exist
		path = filepath.Join(dir, "dangling."+v.Sink)
		os.Remove(path)
		os.Symlink(filepath.Join(dir, "gone", "away", "out."+v.Sink), path)
	case "emptypath":
		path = ""
	case "underfile":
		f := filepath.Join(dir, "plainfile")
		os.WriteFile(f, []byte("x"), 0644)
		path = filepath.Join(f, "out."+v.Sink)
	}
	cargs := []string{"c12-child", v.Sink, v.Mode, fmt.Sprint(v.Limit), fmt.Sprint(v.Items), fmt.Sprint(v.Batch), path}
	if v.Real != "" {
		cargs = append(cargs, v.Real, fmt.Sprint(v.Dims[0]), fmt.Sprint(v.Dims[1]), fmt.Sprint(v.Dims[2]))
	}
	cmd := exec.Command(os.Args[0], cargs...)
	cmd.Env = append(os.Environ(), "GOTRACEBACK=all")
	if v.EvLog {
		cmd.Env = append(cmd.Env, "VERIF_C12_EVLOG=1")
	}
	stdout, _ := cmd.StdoutPipe()
	var stderr bytes.Buffer
	cmd.Stderr = &stderr
	t0 := time.Now()
	if err := cmd.Start(); err != nil {
		fatal("start child: %v", err)
	}
	lines := make(chan string, 1024)
	go func() {
		sc := bufio.NewScanner(stdout)
		for sc.Scan() {
			lines <- sc.Text()
		}
		close(lines)
	}()
	timer := time.NewTimer(watchdog)
	defer timer.Stop()
	seenAtLastTick := 0
	open := true
	timedOut := false
	for open && !timedOut {
		select {
		case l, ok := <-lines:
			if !ok {
				open = false
				break
			}
			if strings.HasPrefix(l, "EVLOG ") {
				json.Unmarshal([]byte(l[6:]), &o.EvLog)
				continue
			}
			o.Events = append(o.Events, l)
			if strings.HasPrefix(l, "caller.return") {
				o.Returned = true
			}
			if strings.HasPrefix(l, "wr.err") {
				o.Errs++
				if o.FailItem < 0 {
					fmt.Sscanf(l, "wr.err %d", &o.FailItem)
				}
			}
		case <-timer.C:
			// the watchdog measures SILENCE, not duration: a render that is still sending and receiving batches is
			// slow, not stuck (up to 4 minutes in all)
			if len(o.Events) > seenAtLastTick && time.Since(t0) < 4*time.Minute {
				seenAtLastTick = len(o.Events)
				timer.Reset(watchdog)
				break
			}
			timedOut = true
		}
	}
	if timedOut && !o.Returned {
		// ask the child for its goroutines: the verdict never rests on time alone
		cmd.Process.Signal(syscall.SIGQUIT)
		done := make(chan struct{})
		go func() { cmd.Wait(); close(done) }()
		select {
		case <-done:
		case <-time.After(5 * time.Second):
			cmd.Process.Kill()
			<-done
		}
		o.Blocked = blockedInLibrary(stderr.String())
		o.ChildExit = -1
	} else {
		err := cmd.Wait()
		if err != nil {
			if ee, ok := err.(*exec.ExitError); ok {
				o.ChildExit = ee.ExitCode()
			} else {
				o.ChildExit = -2
			}
		}
		if !o.Returned {
			// in a process with nothing else to run the Go runtime itself reports the hang:
			// "fatal error: all goroutines are asleep - deadlock!" with the blocked send in the dump
			dump := stderr.String()
			o.Blocked = strings.Contains(dump, "all goroutines are asleep") && blockedInLibrary(dump)
			if !o.Blocked {
				for _, mark := range []string{"panic: ", "fatal error: "} {
					if i := strings.Index(dump, mark); i >= 0 {
						o.Panicked = true
						end := strings.IndexByte(dump[i:], '\n')
						if end < 0 {
							end = len(dump) - i
						}
						o.Fault = dump[i : i+end]
						break
					}
				}
			}
		}
	}
	o.WallMs = int(time.Since(t0) / time.Millisecond)
	if st, err := os.Stat(path); err == nil && v.Mode != "devfull" {
		o.FileSize = st.Size()
	}
	if len(o.Events) > 40 {
		o.Events = append(o.Events[:20], o.Events[len(o.Events)-20:]...)
	}
	return o
}

// blockedInLibrary: the goroutine dump shows a goroutine blocked on a channel or a WaitGroup /
// semaphore inside the library (the verdict on a hang never rests on time alone).
func blockedInLibrary(dump string) bool {
	for _, g := range strings.Split(dump, "\n\n") {
		if !strings.Contains(g, "github.com/deadsy/sdfx/") {
			continue
		}
		head := g
		if i := strings.IndexByte(g, '\n'); i >= 0 {
			head = g[:i]
		}
		if strings.Contains(head, "chan send") || strings.Contains(head, "chan receive") ||
			strings.Contains(head, "semacquire") || strings.Contains(head, "sync.WaitGroup.Wait") || strings.Contains(head, "select") {
			return true
		}
	}
	return false
}

func c12Replay(args []string) error {
	dir, err := os.MkdirTemp("", "vh-c12-")
	if err != nil {
		return err
	}
	defer os.RemoveAll(dir)
	wd := 8 * time.Second
	if len(args) > 0 {
		if s, err := strconv.Atoi(args[0]); err == nil {
			wd = time.Duration(s) * time.Second
		}
	}
	var vecs []faultVec
	readVectors("-", func(raw json.RawMessage) {
		var v faultVec
		if err := json.Unmarshal(raw, &v); err != nil {
			fatal("bad vector: %v", err)
		}
		vecs = append(vecs, v)
	})
	if len(vecs) == 0 {
		return fmt.Errorf("no vectors")
	}
	// children are independent: run several at a time
	res := make([]faultObs, len(vecs))
	sem := make(chan struct{}, 8)
	var wg sync.WaitGroup
	for i := range vecs {
		wg.Add(1)
		sem <- struct{}{}
		go func(i int) {
			defer wg.Done()
			sub := filepath.Join(dir, fmt.Sprint(i))
			os.MkdirAll(sub, 0755)
			res[i] = runFault(vecs[i], sub, wd)
			os.RemoveAll(sub)
			<-sem
		}(i)
	}
	wg.Wait()
	for _, o := range res {
		emit(o)
	}
	return nil
}

type gorObs struct {
	Ev     string `json:"ev"`
	What   string `json:"what"`
	K      int    `json:"k"`    // renders done
	Live   int    `json:"live"` // runtime.NumGoroutine() after they returned (settled)
	Base   int    `json:"base"` // before the first render
	NumCPU int    `json:"numcpu"`
	// a render of the history that did not return within the watchdog, with a goroutine of the process blocked in a
	// library frame on a channel / lock (both needed for a verdict: time alone never decides)
	Hung    bool `json:"hung"`
	Blocked bool `json:"blocked"`
}

// c12-goroutines: goroutines alive after k renders, for each renderer / entry point.
func c12Goroutines(args []string) error {
	dir, err := os.MkdirTemp("", "vh-c12g-")
	if err != nil {
		return err
	}
	defer os.RemoveAll(dir)
	sp, _ := sdf.Sphere3D(1)
	ci, _ := sdf.Circle2D(1)
	settle := func() int {
		n := runtime.NumGoroutine()
		for i := 0; i < 20; i++ {
			time.Sleep(5 * time.Millisecond)
			m := runtime.NumGoroutine()
			if m == n && i > 2 {
				break
			}
			n = m
		}
		return n
	}
	kinds := []struct {
		name string
		f    func(i int)
	}{
		{"ToTriangles/uniform", func(i int) { render.ToTriangles(sp, render.NewMarchingCubesUniform(6)) }},
		{"ToTriangles/octree", func(i int) { render.ToTriangles(sp, render.NewMarchingCubesOctree(8)) }},
		{"ToSTL/uniform", func(i int) { render.ToSTL(sp, filepath.Join(dir, "a.stl"), render.NewMarchingCubesUniform(5)) }},
		{"To3MF/octree", func(i int) { render.To3MF(sp, filepath.Join(dir, "a.3mf"), render.NewMarchingCubesOctree(6)) }},
		{"ToDXF/quadtree", func(i int) { render.ToDXF(ci, filepath.Join(dir, "a.dxf"), render.NewMarchingSquaresQuadtree(20)) }},
		{"ToSVG/uniform", func(i int) { render.ToSVG(ci, filepath.Join(dir, "a.svg"), render.NewMarchingSquaresUniform(20)) }},
		{"ToSTL/nodir", func(i int) { render.ToSTL(sp, filepath.Join(dir, "nodir", "a.stl"), render.NewMarchingCubesOctree(6)) }},
		{"ToSTL/devfull/octree", func(i int) { render.ToSTL(sp, "/dev/full", render.NewMarchingCubesOctree(24)) }},
		{"ToSTL/devfull/uniform", func(i int) { render.ToSTL(sp, "/dev/full", render.NewMarchingCubesUniform(16)) }},
		{"To3MF/nodir", func(i int) { render.To3MF(sp, filepath.Join(dir, "nodir", "a.3mf"), render.NewMarchingCubesOctree(6)) }},
		{"ToSVG/nodir", func(i int) {
			render.ToSVG(ci, filepath.Join(dir, "nodir", "a.svg"), render.NewMarchingSquaresUniform(20))
		}},
		{"ToDXF/nodir", func(i int) {
			render.ToDXF(ci, filepath.Join(dir, "nodir", "a.dxf"), render.NewMarchingSquaresQuadtree(20))
		}},
		{"ToDXF/devfull", func(i int) { render.ToDXF(ci, "/dev/full", render.NewMarchingSquaresUniform(40)) }},
		{"ToSVG/devfull", func(i int) { render.ToSVG(ci, "/dev/full", render.NewMarchingSquaresQuadtree(40)) }},
		{"To3MF/devfull", func(i int) { render.To3MF(sp, "/dev/full", render.NewMarchingCubesUniform(12)) }},
		// a pause between renders (workers or writers that give up when idle must come back)
		{"history/uniform,pause 2.6 s,uniform", func(i int) {
			if i == 3 || i == 9 {
				time.Sleep(2600 * time.Millisecond)
			}
			render.ToTriangles(sp, render.NewMarchingCubesUniform(9))
		}},
		// renders of very different sizes in turn (a pool sized to the render must not leave the previous one behind)
		{"history/uniform 3,40,5,24 cells in turn", func(i int) {
			render.ToTriangles(sp, render.NewMarchingCubesUniform([]int{3, 40, 5, 24}[i%4]))
		}},
		{"history/uniform 4 cells,octree 30,uniform 30", func(i int) {
			switch i % 3 {
			case 0:
				render.ToTriangles(sp, render.NewMarchingCubesUniform(4))
			case 1:
				render.ToTriangles(sp, render.NewMarchingCubesOctree(30))
			default:
				render.ToTriangles(sp, render.NewMarchingCubesUniform(30))
			}
		}},
		// histories: a failed render followed by a good one, over and over (state left behind by the failure -
		// a lock still held, a goroutine still parked - shows in the NEXT render or in the count)
		{"history/To3MF/devfull,good", func(i int) {
			if i%2 == 1 {
				render.To3MF(sp, "/dev/full", render.NewMarchingCubesOctree(8))
			} else {
				render.To3MF(sp, filepath.Join(dir, "h.3mf"), render.NewMarchingCubesOctree(8))
			}
		}},
		{"history/To3MF/nodir,good", func(i int) {
			if i%2 == 1 {
				render.To3MF(sp, filepath.Join(dir, "nodir", "h.3mf"), render.NewMarchingCubesUniform(6))
			} else {
				render.To3MF(sp, filepath.Join(dir, "h.3mf"), render.NewMarchingCubesUniform(6))
			}
		}},
		{"history/ToSTL/devfull,good", func(i int) {
			if i%2 == 1 {
				render.ToSTL(sp, "/dev/full", render.NewMarchingCubesOctree(16))
			} else {
				render.ToSTL(sp, filepath.Join(dir, "h.stl"), render.NewMarchingCubesUniform(8))
			}
		}},
		{"history/ToDXF/devfull,nodir,good", func(i int) {
			switch i % 3 {
			case 1:
				render.ToDXF(ci, "/dev/full", render.NewMarchingSquaresUniform(30))
			case 2:
				render.ToDXF(ci, filepath.Join(dir, "nodir", "h.dxf"), render.NewMarchingSquaresUniform(30))
			default:
				render.ToDXF(ci, filepath.Join(dir, "h.dxf"), render.NewMarchingSquaresQuadtree(30))
			}
		}},
		{"history/ToSVG/devfull,nodir,good", func(i int) {
			switch i % 3 {
			case 1:
				render.ToSVG(ci, "/dev/full", render.NewMarchingSquaresUniform(30))
			case 2:
				render.ToSVG(ci, filepath.Join(dir, "nodir", "h.svg"), render.NewMarchingSquaresUniform(30))
			default:
				render.ToSVG(ci, filepath.Join(dir, "h.svg"), render.NewMarchingSquaresQuadtree(30))
			}
		}},
	}
	marks := map[int]bool{1: true, 2: true, 4: true, 8: true, 16: true}
	for _, kd := range kinds {
		base := settle()
		for k := 1; k <= 16; k++ {
			done := make(chan struct{})
			go func() {
				defer close(done)
				defer func() { recover() }() // a panic of the library is judged by the fault cases, not here
				kd.f(k)
			}()
			select {
			case <-done:
			case <-time.After(20 * time.Second):
				// the render has not returned: verdict only if a goroutine is blocked in the library
				buf := make([]byte, 1<<22)
				dump := string(buf[:runtime.Stack(buf, true)])
				emit(gorObs{Ev: "gor", What: kd.name, K: k, Live: runtime.NumGoroutine(), Base: base, NumCPU: runtime.NumCPU(),
					Hung: true, Blocked: blockedInLibrary(dump)})
				flush()
				// the process is in an unknown state now: stop here (the parent judges what was emitted)
				return nil
			}
			if marks[k] {
				emit(gorObs{Ev: "gor", What: kd.name, K: k, Live: settle(), Base: base, NumCPU: runtime.NumCPU()})
			}
		}
	}
	return nil
}

func init() {
	register("c12-child", c12Child)
	register("c12-replay", c12Replay)
	register("c12-goroutines", c12Goroutines)
}
