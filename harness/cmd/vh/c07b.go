package main

import (
	"encoding/json"
	"fmt"
	"math"

	"github.com/deadsy/sdfx/render"
	"github.com/deadsy/sdfx/sdf"
	v2 "github.com/deadsy/sdfx/vec/v2"
)

type scenePart2 struct {
	Kind string `json:"kind"`
	C    [2]int `json:"c"`
	H    [2]int `json:"h"`
	W    int    `json:"w"`
	Op   string `json:"op"`
}

type sceneVec2 struct {
	M     int          `json:"m"`
	K     int          `json:"k"`
	Parts []scenePart2 `json:"parts"`
}

type sceneField2 struct {
	sc    sceneVec2
	scale float64
	bb    sdf.Box2
}

func (f *sceneField2) Evaluate(p v2.Vec) float64 {
	q := [2]float64{p.X, p.Y}
	for a := 0; a < 2; a++ {
		if r := math.Round(q[a]); math.Abs(q[a]-r) < 1e-9 {
			q[a] = r
		}
	}
	acc := 0.0
	for i, pt := range f.sc.Parts {
		var v float64
		if pt.Kind == "box" {
			v = math.Max(math.Abs(q[0]-float64(pt.C[0]))-float64(pt.H[0]), math.Abs(q[1]-float64(pt.C[1]))-float64(pt.H[1]))
			v *= float64(pt.W)
		} else {
			v = float64(pt.H[0])*(q[0]-float64(pt.C[0])) + float64(pt.H[1])*(q[1]-float64(pt.C[1]))
		}
		if i == 0 {
			acc = v
			continue
		}
		switch pt.Op {
		case "u":
			acc = math.Min(acc, v)
		case "d":
			acc = math.Max(acc, -v)
		default:
			acc = math.Max(acc, v)
		}
	}
	return acc / float64(f.sc.K) / f.scale
}

func (f *sceneField2) BoundingBox() sdf.Box2 { return f.bb }

type edgeSeg [2]edgeVertex

func projectSegsToEdges(ls []*sdf.Line2, cell float64) (out []edgeSeg, off int) {
	out = []edgeSeg{}
	for _, l := range ls {
		var es edgeSeg
		bad := false
		for j := 0; j < 2; j++ {
			ev, ok := projectToEdge([3]float64{l[j].X / cell, l[j].Y / cell, 0})
			if !ok {
				bad = true
			}
			es[j] = ev
		}
		if bad {
			off++
			continue
		}
		out = append(out, es)
	}
	return out, off
}

type quadObs struct {
	Ev        string    `json:"ev"`
	Scene     sceneVec2 `json:"scene"`
	Segs      []edgeSeg `json:"segs"`
	Flat      []edgeSeg `json:"flat"`
	Off       int       `json:"off"`
	Decisions [][5]int  `json:"decisions"`
}

func quadField(sc sceneVec2, scale float64) *sceneField2 {
	m := float64(sc.M)
	return &sceneField2{sc: sc, scale: scale, bb: sdf.NewBox2(v2.Vec{X: 1.01 * m, Y: 1.01 * m}, v2.Vec{X: 2 * m, Y: 2 * m})}
}

func renderQuadScene(sc sceneVec2) quadObs {
	o := quadObs{Ev: "quad2", Scene: sc, Decisions: [][5]int{}}
	hookMu.Lock()
	render.VerifHook5 = func(ev string, a, b, c, d, e int) {
		if ev == "dc2.empty" {
			o.Decisions = append(o.Decisions, [5]int{a, b, c, d, e})
		}
	}
	ls := collectLines(quadField(sc, 1), render.NewMarchingSquaresQuadtree(sc.M))
	render.VerifHook5 = nil
	hookMu.Unlock()
	var off1, off2 int
	o.Segs, off1 = projectSegsToEdges(ls, 2)
	ls2 := collectLines(quadField(sc, 1024), render.NewMarchingSquaresQuadtree(sc.M))
	o.Flat, off2 = projectSegsToEdges(ls2, 2)
	o.Off = off1 + off2
	return o
}

func c07Replay2(args []string) error {
	n := 0
	readVectors("-", func(raw json.RawMessage) {
		var sc sceneVec2
		if err := json.Unmarshal(raw, &sc); err != nil {
			fatal("bad vector: %v", err)
		}
		emit(renderQuadScene(sc))
		n++
	})
	if n == 0 {
		return fmt.Errorf("no vectors")
	}
	return nil
}

func init() { register("c07-replay2", c07Replay2) }
