package main

import (
	"encoding/json"
	"fmt"
	"sync/atomic"

	"github.com/deadsy/sdfx/render"
	"github.com/deadsy/sdfx/sdf"
	v3 "github.com/deadsy/sdfx/vec/v3"
)

type worldVec struct {
	Dims []int `json:"dims"`
	Base int   `json:"base"`
	Code int64 `json:"code"`
}

func maxi(xs ...int) int {
	m := xs[0]
	for _, x := range xs {
		if x > m {
			m = x
		}
	}
	return m
}

// worldFieldUniform positions a world so that the uniform marching cubes renderer samples
// exactly the lattice points 0..dims+1 (cell = 1).
func worldFieldUniform(w worldVec) (*field3, int) {
	n, cls := decodeWorld(w.Code, w.Base, w.Dims)
	f := &field3{n: [3]int{n[0], n[1], n[2]}, h: 1, origin: v3.Vec{}}
	f.val = make([]float64, len(cls))
	for i, c := range cls {
		f.val[i] = classVal[c]
	}
	size := v3.Vec{X: float64(w.Dims[0]), Y: float64(w.Dims[1]), Z: float64(w.Dims[2])}
	centre := v3.Vec{X: float64(w.Dims[0]+1) / 2, Y: float64(w.Dims[1]+1) / 2, Z: float64(w.Dims[2]+1) / 2}
	f.bb = sdf.NewBox3(centre, size)
	return f, maxi(w.Dims...)
}

// worldFieldOctree positions a world so that the octree renderer samples integer points with
// cell corners on even coordinates (cell = 2).
func worldFieldOctree(w worldVec) (*field3, int) {
	n, cls := decodeWorld(w.Code, w.Base, w.Dims)
	f := &field3{n: [3]int{n[0], n[1], n[2]}, h: 2, origin: v3.Vec{}, half: true}
	f.val = make([]float64, len(cls))
	for i, c := range cls {
		f.val[i] = classVal[c]
	}
	m := float64(maxi(w.Dims...) + 1)
	f.bb = sdf.NewBox3(v3.Vec{X: 1.01 * m, Y: 1.01 * m, Z: 1.01 * m}, v3.Vec{X: 2 * m, Y: 2 * m, Z: 2 * m})
	return f, int(m)
}

func renderWorld3(w worldVec, which string) meshObs {
	var f *field3
	var mc int
	var r render.Render3
	cell := 1.0
	switch which {
	case "mcu":
		f, mc = worldFieldUniform(w)
		r = render.NewMarchingCubesUniform(mc)
	case "mco":
		f, mc = worldFieldOctree(w)
		r = render.NewMarchingCubesOctree(mc)
		cell = 2
	default:
		fatal("renderer %q", which)
	}
	ts := render.ToTriangles(f, r)
	hi := [3]float64{float64(w.Dims[0] + 1), float64(w.Dims[1] + 1), float64(w.Dims[2] + 1)}
	o := projectMesh(ts, v3.Vec{}, cell, [3]float64{0, 0, 0}, hi)
	o.R, o.Dims, o.Base, o.Code = which, w.Dims, w.Base, w.Code
	o.Off = atomic.LoadInt64(&f.off)
	o.Evals = atomic.LoadInt64(&f.evals)
	if o.Off != 0 {
		// the renderer did not sample the lattice: positions cannot be compared with the model
		o.Aligned = false
		o.Pos = [][3]int{}
	}
	return o
}

// c05-replay: worlds (NDJSON on stdin) -> real meshes from both marching cubes renderers.
func c05Replay(args []string) error {
	which := []string{"mcu", "mco"}
	if len(args) > 0 {
		which = args
	}
	n := 0
	readVectors("-", func(raw json.RawMessage) {
		var w worldVec
		if err := json.Unmarshal(raw, &w); err != nil {
			fatal("bad vector: %v", err)
		}
		for _, r := range which {
			emit(renderWorld3(w, r))
		}
		n++
	})
	if n == 0 {
		return fmt.Errorf("no vectors")
	}
	return nil
}

func init() { register("c05-replay", c05Replay) }
