package main

import (
	"math"
	"math/rand"
	"strconv"

	"github.com/deadsy/sdfx/render"
	"github.com/deadsy/sdfx/sdf"
	v3 "github.com/deadsy/sdfx/vec/v3"
)

// planeSDF is a half-space n.(p-a) <= 0 restricted to a bounding box (exact distance to the plane).
type planeSDF struct {
	a, n v3.Vec
	bb   sdf.Box3
}

func (s *planeSDF) Evaluate(p v3.Vec) float64 { return p.Sub(s.a).Dot(s.n) }
func (s *planeSDF) BoundingBox() sdf.Box3     { return s.bb }

type measObs struct {
	Ev       string `json:"ev"`
	Shape    string `json:"shape"`
	Kind     string `json:"kind"` // plane | sphere | exact | csg
	R        string `json:"r"`
	Cells    int    `json:"cells"`
	Nt       int    `json:"nt"`
	MaxF     int64  `json:"maxf"`     // max |f(v)| / h * 1e6
	Sphere   int64  `json:"sphere"`   // max |f(v)| * 8 (R-h) / h^2 * 1e6 (spheres only, else 0)
	PlaneF   int64  `json:"planef"`   // max |f(v)| / h * 1e12 (planes: rounding only)
	MeshSurf int64  `json:"meshsurf"` // max over triangle centroids/vertices of |f| / celldiag * 1e6 (exact fields)
	SurfMesh int64  `json:"surfmesh"` // max over sampled resolvable surface points of dist to mesh / celldiag * 1e6
	Outside  int    `json:"outside"`  // vertices outside the sampled (padded) box
	BadNorm  int    `json:"badnorm"`  // non-sliver triangles whose normal disagrees with the gradient
	VolErr   int64  `json:"volerr"`   // |V - Vtrue| / Vtrue * 1e6 (0 if unknown)
	HasVol   bool   `json:"hasvol"`
	Seq      int    `json:"seq"` // resolution index within the shape (for convergence)
	Param    string `json:"param"`
}

func grad(s sdf.SDF3, p v3.Vec, e float64) v3.Vec {
	return v3.Vec{
		X: s.Evaluate(v3.Vec{X: p.X + e, Y: p.Y, Z: p.Z}) - s.Evaluate(v3.Vec{X: p.X - e, Y: p.Y, Z: p.Z}),
		Y: s.Evaluate(v3.Vec{X: p.X, Y: p.Y + e, Z: p.Z}) - s.Evaluate(v3.Vec{X: p.X, Y: p.Y - e, Z: p.Z}),
		Z: s.Evaluate(v3.Vec{X: p.X, Y: p.Y, Z: p.Z + e}) - s.Evaluate(v3.Vec{X: p.X, Y: p.Y, Z: p.Z - e}),
	}
}

func sat(x float64) int64 {
	if math.IsNaN(x) || x > 2e9 {
		return 2000000000
	}
	return int64(math.Ceil(x))
}

// sampledBox returns the box the renderer samples and its cell edge h.
func sampledBox(s sdf.SDF3, which string, cells int) (sdf.Box3, float64) {
	bb0 := s.BoundingBox()
	size := bb0.Size()
	h := size.MaxComponent() / float64(cells)
	if which == "mcu" {
		n := size.DivScalar(h).Ceil().AddScalar(1).MulScalar(h)
		return sdf.NewBox3(bb0.Center(), n), h
	}
	// the octree renderer pads the box by 1% about its centre (computed here, not with the library's helper)
	ctr := bb0.Min.Add(bb0.Max).MulScalar(0.5)
	hs := bb0.Max.Sub(bb0.Min).MulScalar(0.5 * 1.01)
	bb := sdf.Box3{Min: ctr.Sub(hs), Max: ctr.Add(hs)}
	long := bb.Size().MaxComponent()
	levels := math.Ceil(math.Log2(long/(0.5*h))) + 1
	side := math.Pow(2, levels-1) * 0.5 * h
	return sdf.Box3{Min: bb.Min, Max: bb.Min.AddScalar(side)}, h
}

type measShape struct {
	name, kind, param string
	s                 sdf.SDF3
	radius            float64
	vol               float64
	surf              func(r *rand.Rand) (v3.Vec, bool) // a random resolvable surface point
}

func measure(ms measShape, which string, cells, seq int, rnd *rand.Rand) measObs {
	// one renderer object per (kind, cells) for the whole run: a renderer may be used for any number of shapes
	key := which + "/" + strconv.Itoa(cells)
	r := sceneR3[key]
	if r == nil {
		if which == "mcu" {
			r = render.NewMarchingCubesUniform(cells)
		} else {
			r = render.NewMarchingCubesOctree(cells)
		}
		sceneR3[key] = r
	}
	ts := render.ToTriangles(ms.s, r)
	box, h := sampledBox(ms.s, which, cells)
	diag := h * math.Sqrt(3)
	o := measObs{Ev: "measure", Shape: ms.name, Kind: ms.kind, R: which, Cells: cells, Nt: len(ts), Seq: seq, Param: ms.param}
	maxf, maxms, vol := 0.0, 0.0, 0.0
	eps := 1e-9 * h
	for _, t := range ts {
		for j := 0; j < 3; j++ {
			f := math.Abs(ms.s.Evaluate(t[j]))
			maxf = math.Max(maxf, f)
			if t[j].X < box.Min.X-eps || t[j].Y < box.Min.Y-eps || t[j].Z < box.Min.Z-eps ||
				t[j].X > box.Max.X+eps || t[j].Y > box.Max.Y+eps || t[j].Z > box.Max.Z+eps {
				o.Outside++
			}
		}
		c := t[0].Add(t[1]).Add(t[2]).DivScalar(3)
		maxms = math.Max(maxms, math.Abs(ms.s.Evaluate(c)))
		e1, e2 := t[1].Sub(t[0]), t[2].Sub(t[0])
		n := e1.Cross(e2)
		area := n.Length() / 2
		if area > 0.02*h*h {
			g := grad(ms.s, c, 1e-4*h)
			if g.Length() > 0 && n.Normalize().Dot(g.Normalize()) < 0.2 {
				// ignore triangles next to a crease (gradient changes across the triangle)
				g0, g1, g2 := grad(ms.s, t[0], 1e-4*h), grad(ms.s, t[1], 1e-4*h), grad(ms.s, t[2], 1e-4*h)
				smooth := g0.Normalize().Dot(g1.Normalize()) > 0.9 && g1.Normalize().Dot(g2.Normalize()) > 0.9 &&
					g0.Normalize().Dot(g.Normalize()) > 0.9
				if smooth {
					o.BadNorm++
				}
			}
		}
		vol += t[0].Dot(t[1].Cross(t[2])) / 6
	}
	o.MaxF = sat(maxf / h * 1e6)
	if ms.kind == "sphere" {
		o.Sphere = sat(maxf * 8 * (ms.radius - h) / (h * h) * 1e6)
	}
	if ms.kind == "plane" {
		o.PlaneF = sat(maxf / h * 1e12)
	}
	if ms.kind != "csg" {
		o.MeshSurf = sat(maxms / diag * 1e6)
	}
	if ms.vol > 0 {
		o.HasVol = true
		o.VolErr = sat(math.Abs(vol-ms.vol) / ms.vol * 1e6)
	}
	if ms.surf != nil && len(ts) > 0 {
		// brute force nearest mesh vertex (vertex distance upper-bounds the distance to the mesh)
		worst := 0.0
		for k := 0; k < 60; k++ {
			p, ok := ms.surf(rnd)
			if !ok {
				continue
			}
			best := math.Inf(1)
			for _, t := range ts {
				for j := 0; j < 3; j++ {
					d := t[j].Sub(p).Length2()
					if d < best {
						best = d
					}
				}
			}
			worst = math.Max(worst, math.Sqrt(best))
		}
		o.SurfMesh = sat(worst / diag * 1e6)
	}
	return o
}

func randUnit(r *rand.Rand) v3.Vec {
	for {
		v := v3.Vec{X: r.NormFloat64(), Y: r.NormFloat64(), Z: r.NormFloat64()}
		if l := v.Length(); l > 1e-3 {
			return v.DivScalar(l)
		}
	}
}

func c06Measure(args []string) error {
	rnd := rand.New(rand.NewSource(seed()))
	res := []int{16, 32, 64}
	reps := 2
	if tier() == "thorough" {
		reps = 8
	}
	// long thin rods at more than 2^9 cells along each axis (lattice indices beyond 1024 half-cells)
	for ax := 0; ax < 3; ax++ {
		sz := [3]float64{1, 1, 1}
		sz[ax] = 40
		rod, _ := sdf.Box3D(v3.Vec{X: sz[0], Y: sz[1], Z: sz[2]}, 0)
		off := v3.Vec{X: rnd.Float64(), Y: rnd.Float64(), Z: rnd.Float64()}
		ms := measShape{name: "long-rod", kind: "exact", s: sdf.Transform3D(rod, sdf.Translate3d(off)), vol: 40, param: fmtf(float64(ax))}
		for _, which := range []string{"mcu", "mco"} {
			emit(measure(ms, which, 520, 0, rnd))
		}
	}
	// different shapes with the same bounding box, one after the other on the same renderer object
	{
		sp, _ := sdf.Sphere3D(1)
		cu, _ := sdf.Box3D(v3.Vec{X: 2, Y: 2, Z: 2}, 0)
		for _, which := range []string{"mcu", "mco"} {
			for round := 0; round < 2; round++ {
				emit(measure(measShape{name: "samebox-cube", kind: "exact", s: cu, vol: 8, param: fmtf(float64(round))}, which, 32, 0, rnd))
				emit(measure(measShape{name: "samebox-sphere", kind: "sphere", s: sp, radius: 1, vol: 4.0 / 3 * math.Pi, param: fmtf(float64(round)),
					surf: func(r *rand.Rand) (v3.Vec, bool) { return randUnit(r), true }}, which, 32, 0, rnd))
			}
		}
	}
	// very small and very large models (cell edges of 1e-5 and 1e3): every clause is relative to the cell
	for _, R := range []float64{1e-4, 3e-3, 3e4} {
		R := R
		c := v3.Vec{X: rnd.Float64(), Y: rnd.Float64(), Z: rnd.Float64()}.MulScalar(R)
		sp, _ := sdf.Sphere3D(R)
		ms := measShape{name: "scaled-sphere", kind: "sphere", s: sdf.Transform3D(sp, sdf.Translate3d(c)), radius: R,
			vol: 4.0 / 3 * math.Pi * R * R * R, param: fmtf(R),
			surf: func(r *rand.Rand) (v3.Vec, bool) { return c.Add(randUnit(r).MulScalar(R)), true }}
		for _, which := range []string{"mcu", "mco"} {
			emit(measure(ms, which, 24, 0, rnd))
		}
	}
	for rep := 0; rep < reps; rep++ {
		var shapes []measShape
		// sphere at a random centre
		R := 0.8 + 1.7*rnd.Float64()
		c := v3.Vec{X: rnd.Float64(), Y: rnd.Float64(), Z: rnd.Float64()}
		// every other repetition: away from the origin, in a different octant each time (the bounding box does not
		// contain the origin; its padding and the lattice origin must still be taken about the box, not the origin)
		far := v3.Vec{}
		if rep%2 == 1 {
			far = [4]v3.Vec{{X: 10, Y: 0, Z: 0}, {X: 0, Y: -7, Z: 12}, {X: -25, Y: 30, Z: 0}, {X: 6, Y: 9, Z: -14}}[(rep/2)%4]
			c = c.Add(far)
		}
		sp, _ := sdf.Sphere3D(R)
		sps := sdf.Transform3D(sp, sdf.Translate3d(c))
		shapes = append(shapes, measShape{name: "sphere", kind: "sphere", s: sps, radius: R, vol: 4.0 / 3 * math.Pi * R * R * R,
			param: fmtf(R, c.X, c.Y, c.Z),
			surf:  func(r *rand.Rand) (v3.Vec, bool) { return c.Add(randUnit(r).MulScalar(R)), true }})
		// plane at arbitrary orientation / offset inside a unit-ish box
		n := randUnit(rnd)
		a := v3.Vec{X: rnd.Float64() - 0.5, Y: rnd.Float64() - 0.5, Z: rnd.Float64() - 0.5}.MulScalar(0.6)
		shapes = append(shapes, measShape{name: "plane", kind: "plane", param: fmtf(n.X, n.Y, n.Z, a.X, a.Y, a.Z),
			s: &planeSDF{a: a, n: n, bb: sdf.NewBox3(v3.Vec{}, v3.Vec{X: 2, Y: 2.2, Z: 1.9})}})
		// box, rotated
		bs := v3.Vec{X: 1 + rnd.Float64(), Y: 1 + rnd.Float64(), Z: 1 + rnd.Float64()}
		bx, _ := sdf.Box3D(bs, 0)
		rot := sdf.Translate3d(far).Mul(sdf.RotateX(rnd.Float64())).Mul(sdf.RotateY(rnd.Float64())).Mul(sdf.RotateZ(rnd.Float64()))
		shapes = append(shapes, measShape{name: "box", kind: "exact", s: sdf.Transform3D(bx, rot), vol: bs.X * bs.Y * bs.Z,
			param: fmtf(bs.X, bs.Y, bs.Z)})
		// cylinder
		ch, cr := 1+rnd.Float64(), 0.5+rnd.Float64()
		cy, _ := sdf.Cylinder3D(ch, cr, 0)
		shapes = append(shapes, measShape{name: "cylinder", kind: "exact", s: sdf.Transform3D(cy, rot), vol: math.Pi * cr * cr * ch,
			param: fmtf(ch, cr)})
		// cone
		kh, r0, r1 := 1+rnd.Float64(), 0.6+rnd.Float64(), 0.2+0.3*rnd.Float64()
		if rep%2 == 1 {
			r0, r1 = r1, r0 // the wider end up
		}
		co, _ := sdf.Cone3D(kh, r0, r1, 0)
		shapes = append(shapes, measShape{name: "cone", kind: "exact", s: co, vol: math.Pi * kh / 3 * (r0*r0 + r0*r1 + r1*r1),
			param: fmtf(kh, r0, r1),
			// a point of the lateral surface (kept only where the shape itself says it is on the surface)
			surf: func(r *rand.Rand) (v3.Vec, bool) {
				t, a := r.Float64(), 2*math.Pi*r.Float64()
				rr := r0 + t*(r1-r0)
				p := v3.Vec{X: rr * math.Cos(a), Y: rr * math.Sin(a), Z: -kh/2 + t*kh}
				return p, math.Abs(co.Evaluate(p)) < 1e-9
			}})
		// union and difference of two spheres (csg: 1-Lipschitz, not exact)
		s2, _ := sdf.Sphere3D(0.7 * R)
		s2t := sdf.Transform3D(s2, sdf.Translate3d(c.Add(v3.Vec{X: 0.8 * R})))
		shapes = append(shapes, measShape{name: "union", kind: "csg", s: sdf.Union3D(sps, s2t), param: fmtf(R)})
		shapes = append(shapes, measShape{name: "difference", kind: "csg", s: sdf.Difference3D(sps, s2t), param: fmtf(R)})
		for _, ms := range shapes {
			for _, which := range []string{"mcu", "mco"} {
				for i, n := range res {
					emit(measure(ms, which, n, i+1, rnd))
				}
			}
		}
	}
	return nil
}

func fmtf(xs ...float64) string {
	s := ""
	for _, x := range xs {
		s += " " + ftoa(x)
	}
	return s
}

func ftoa(x float64) string {
	return trimFloat(x)
}

func init() { register("c06-measure", c06Measure) }
