package main

// C01 stage 2 (T): measured bounding-box probes for the constructors that have no lattice
// semantics.  The harness MEASURES (box finite / ordered, number of strictly negative probes outside
// the box, worst such probe); spec/trace/BBoxTrace.tla JUDGES.

import (
	"fmt"
	"math"
	"math/rand"
	"time"

	"github.com/deadsy/sdfx/sdf"
	v2 "github.com/deadsy/sdfx/vec/v2"
	v3 "github.com/deadsy/sdfx/vec/v3"
)

// probeShape is one constructed shape of the catalogue (exactly one of S2 / S3 is set, or Err).
type probeShape struct {
	Name string // parameter set / placement, unique within the constructor
	Ctor string // the constructor under test, e.g. "TwistExtrude3D", "obj.Bolt"
	S2   sdf.SDF2
	S3   sdf.SDF3
	Err  string // constructor error (valid parameters are expected to construct)
}

type bbObs struct {
	Ev     string `json:"ev"`
	Ctor   string `json:"ctor"`
	Name   string `json:"name"`
	Dim    int    `json:"dim"`
	Err    string `json:"err"`
	Fin    int    `json:"fin"`
	Ord    int    `json:"ord"`
	Probes int    `json:"probes"`
	Neg    int    `json:"neg"`    // strictly negative probes (vacuity guard: the probe saw material)
	NegOut int    `json:"negout"` // strictly negative probes outside the box (by more than 1e-9 of its size)
	NaN    int    `json:"nan"`
	Worst  []int  `json:"worst"` // worst escaping probe: coordinates and value, units 1e-6 (saturating)
	Size   int    `json:"size"`  // box diagonal, units 1e-6 (saturating)
}

func satMicro(x float64) int {
	if math.IsNaN(x) {
		return 0
	}
	x = math.Round(x * 1e6)
	if x > 2e9 {
		return 2000000000
	}
	if x < -2e9 {
		return -2000000000
	}
	return int(x)
}

func finite(xs ...float64) bool {
	for _, x := range xs {
		if math.IsNaN(x) || math.IsInf(x, 0) {
			return false
		}
	}
	return true
}

// probePoints3 yields stratified jittered samples over the box enlarged by 50%, samples on (and just
// outside) the six faces, and a shell further out.
func probeAxis(lo, hi float64, n int, rnd *rand.Rand) []float64 {
	size := hi - lo
	if size <= 0 {
		size = 1
	}
	a, b := lo-0.25*size, hi+0.25*size
	out := make([]float64, 0, n+6)
	for i := 0; i < n; i++ {
		out = append(out, a+(float64(i)+rnd.Float64())*(b-a)/float64(n))
	}
	eps := 1e-6 * size
	out = append(out, lo-eps, hi+eps, lo-0.02*size, hi+0.02*size, lo-0.6*size, hi+0.6*size)
	return out
}

func probe3(ps probeShape, n int, rnd *rand.Rand) bbObs {
	o := bbObs{Ev: "bbprobe", Ctor: ps.Ctor, Name: ps.Name, Dim: 3, Worst: []int{}}
	defer func() {
		if r := recover(); r != nil {
			o.Err = fmt.Sprintf("panic: %v", r)
		}
	}()
	s := ps.S3
	b := s.BoundingBox()
	if finite(b.Min.X, b.Min.Y, b.Min.Z, b.Max.X, b.Max.Y, b.Max.Z) {
		o.Fin = 1
	} else {
		return o
	}
	if b.Min.X <= b.Max.X && b.Min.Y <= b.Max.Y && b.Min.Z <= b.Max.Z {
		o.Ord = 1
	} else {
		return o
	}
	diag := b.Size().Length()
	o.Size = satMicro(diag)
	tol := 1e-9 * math.Max(diag, 1e-300)
	xs, ys, zs := probeAxis(b.Min.X, b.Max.X, n, rnd), probeAxis(b.Min.Y, b.Max.Y, n, rnd), probeAxis(b.Min.Z, b.Max.Z, n, rnd)
	worst := 0.0
	for _, x := range xs {
		for _, y := range ys {
			for _, z := range zs {
				p := v3.Vec{X: x, Y: y, Z: z}
				f := s.Evaluate(p)
				o.Probes++
				if math.IsNaN(f) {
					o.NaN++
					continue
				}
				if f < -tol {
					o.Neg++
					out := x < b.Min.X-tol || x > b.Max.X+tol || y < b.Min.Y-tol || y > b.Max.Y+tol || z < b.Min.Z-tol || z > b.Max.Z+tol
					if out {
						o.NegOut++
						if f < worst {
							worst = f
							o.Worst = []int{satMicro(x), satMicro(y), satMicro(z), satMicro(f)}
						}
					}
				}
			}
		}
	}
	return o
}

func probe2(ps probeShape, n int, rnd *rand.Rand) bbObs {
	o := bbObs{Ev: "bbprobe", Ctor: ps.Ctor, Name: ps.Name, Dim: 2, Worst: []int{}}
	defer func() {
		if r := recover(); r != nil {
			o.Err = fmt.Sprintf("panic: %v", r)
		}
	}()
	s := ps.S2
	b := s.BoundingBox()
	if finite(b.Min.X, b.Min.Y, b.Max.X, b.Max.Y) {
		o.Fin = 1
	} else {
		return o
	}
	if b.Min.X <= b.Max.X && b.Min.Y <= b.Max.Y {
		o.Ord = 1
	} else {
		return o
	}
	diag := b.Size().Length()
	o.Size = satMicro(diag)
	tol := 1e-9 * math.Max(diag, 1e-300)
	xs, ys := probeAxis(b.Min.X, b.Max.X, n, rnd), probeAxis(b.Min.Y, b.Max.Y, n, rnd)
	worst := 0.0
	for _, x := range xs {
		for _, y := range ys {
			f := s.Evaluate(v2.Vec{X: x, Y: y})
			o.Probes++
			if math.IsNaN(f) {
				o.NaN++
				continue
			}
			if f < -tol {
				o.Neg++
				out := x < b.Min.X-tol || x > b.Max.X+tol || y < b.Min.Y-tol || y > b.Max.Y+tol
				if out {
					o.NegOut++
					if f < worst {
						worst = f
						o.Worst = []int{satMicro(x), satMicro(y), satMicro(f)}
					}
				}
			}
		}
	}
	return o
}

// probeBudget picks the per-axis sample count so that one shape costs about `budget` seconds.
func probeBudget(eval func(), dim int, nmax int, budget float64) int {
	t0 := nowSec()
	for i := 0; i < 32; i++ {
		eval()
	}
	per := (nowSec() - t0) / 32
	if per <= 0 {
		return nmax
	}
	total := budget / per
	var n int
	if dim == 3 {
		n = int(math.Cbrt(total)) - 6
	} else {
		n = int(math.Sqrt(total)) - 6
	}
	lo := 5
	if dim == 2 {
		lo = 10
	}
	if n < lo {
		n = lo
	}
	if n > nmax {
		n = nmax
	}
	return n
}

// set by c01hook.go (obj parts, text, cams, gears ... live in c01parts.go)
var partsCatalogueHook func() []probeShape

func nowSec() float64 { return float64(time.Now().UnixNano()) / 1e9 }

func c01Probe(args []string) error {
	k, n3, n2, budget := 1, 12, 40, 0.25
	if tier() == "thorough" {
		k, n3, n2, budget = 4, 16, 60, 1.5
	}
	shapes := sdfCatalogue(seed(), k)
	if partsCatalogueHook != nil {
		shapes = append(shapes, partsCatalogueHook()...)
	}
	rnd := rand.New(rand.NewSource(seed()*7919 + 17))
	for _, ps := range shapes {
		switch {
		case ps.Err != "":
			emit(bbObs{Ev: "bbprobe", Ctor: ps.Ctor, Name: ps.Name, Err: ps.Err, Worst: []int{}})
		case ps.S3 != nil:
			s := ps.S3
			n := n3
			func() {
				defer func() { recover() }()
				c := s.BoundingBox().Center()
				n = probeBudget(func() { s.Evaluate(c) }, 3, n3, budget)
			}()
			emit(probe3(ps, n, rnd))
		case ps.S2 != nil:
			s := ps.S2
			n := n2
			func() {
				defer func() { recover() }()
				c := s.BoundingBox().Center()
				n = probeBudget(func() { s.Evaluate(c) }, 2, n2, budget)
			}()
			emit(probe2(ps, n, rnd))
		}
	}
	// first BoundingBox() calls that overlap, schedule forced through a held operand (c01conc.go)
	for _, o := range c01OverlappingFirstCalls() {
		emit(o)
	}
	return nil
}

func init() { register("c01-probe", c01Probe) }

// c01-at <ctor> <name> x y [z] ...: value of one catalogue shape at given points (for reports)
func c01At(args []string) error {
	if len(args) < 4 {
		return fmt.Errorf("usage: c01-at ctor name x y [z]")
	}
	k := 1
	if tier() == "thorough" {
		k = 4
	}
	shapes := sdfCatalogue(seed(), k)
	if partsCatalogueHook != nil {
		shapes = append(shapes, partsCatalogueHook()...)
	}
	var f []float64
	for _, a := range args[2:] {
		var x float64
		fmt.Sscanf(a, "%g", &x)
		f = append(f, x)
	}
	for _, ps := range shapes {
		if ps.Ctor != args[0] || ps.Name != args[1] {
			continue
		}
		if ps.S3 != nil {
			b := ps.S3.BoundingBox()
			emit(map[string]interface{}{"ctor": ps.Ctor, "name": ps.Name, "min": []float64{b.Min.X, b.Min.Y, b.Min.Z}, "max": []float64{b.Max.X, b.Max.Y, b.Max.Z},
				"p": f, "value": ps.S3.Evaluate(v3.Vec{X: f[0], Y: f[1], Z: f[2]})})
		} else if ps.S2 != nil {
			b := ps.S2.BoundingBox()
			emit(map[string]interface{}{"ctor": ps.Ctor, "name": ps.Name, "min": []float64{b.Min.X, b.Min.Y}, "max": []float64{b.Max.X, b.Max.Y},
				"p": f, "value": ps.S2.Evaluate(v2.Vec{X: f[0], Y: f[1]})})
		}
	}
	return nil
}

func init() { register("c01-at", c01At) }
