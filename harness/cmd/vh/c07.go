package main

import (
	"encoding/json"
	"fmt"
	"sync"

	"github.com/deadsy/sdfx/render"
	"github.com/deadsy/sdfx/sdf"
	v3 "github.com/deadsy/sdfx/vec/v3"
)

type octObs struct {
	Ev        string    `json:"ev"`
	Scene     sceneVec  `json:"scene"`
	Tris      []edgeTri `json:"tris"`      // real octree output for f
	Flat      []edgeTri `json:"flat"`      // real octree output for f/1024 (nothing can be pruned)
	Off       int       `json:"off"`       // triangles with a vertex on no lattice edge
	Decisions [][5]int  `json:"decisions"` // isEmpty decisions of the real traversal (hook)
}

var hookMu sync.Mutex

func octreeField(sc sceneVec, scale float64) *sceneField {
	m := float64(sc.M)
	return &sceneField{sc: sc, unit: 1, scale: scale,
		bb: sdf.NewBox3(v3.Vec{X: 1.01 * m, Y: 1.01 * m, Z: 1.01 * m}, v3.Vec{X: 2 * m, Y: 2 * m, Z: 2 * m})}
}

func renderOctScene(sc sceneVec) octObs {
	o := octObs{Ev: "oct3", Scene: sc, Decisions: [][5]int{}}
	hookMu.Lock()
	render.VerifHook5 = func(ev string, a, b, c, d, e int) {
		if ev == "dc3.empty" {
			o.Decisions = append(o.Decisions, [5]int{a, b, c, d, e})
		}
	}
	ts := render.ToTriangles(octreeField(sc, 1), render.NewMarchingCubesOctree(sc.M))
	render.VerifHook5 = nil
	hookMu.Unlock()
	var off1, off2 int
	o.Tris, off1 = projectTrisToEdges(ts, v3.Vec{}, 2)
	ts2 := render.ToTriangles(octreeField(sc, 1024), render.NewMarchingCubesOctree(sc.M))
	o.Flat, off2 = projectTrisToEdges(ts2, v3.Vec{}, 2)
	o.Off = off1 + off2
	return o
}

func c07Replay(args []string) error {
	n := 0
	readVectors("-", func(raw json.RawMessage) {
		var sc sceneVec
		if err := json.Unmarshal(raw, &sc); err != nil {
			fatal("bad vector: %v", err)
		}
		emit(renderOctScene(sc))
		n++
	})
	if n == 0 {
		return fmt.Errorf("no vectors")
	}
	return nil
}

func init() { register("c07-replay", c07Replay) }
