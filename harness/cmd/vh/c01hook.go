package main

// c01parts.go: obj parts with the examples' parameter sets, text, cams, flange, rack, spiral, splines,
// bezier, thread profiles and screws, voxel.
func init() { partsCatalogueHook = partsCatalogue }
