package main

// C20, T part: seeded random REAL point sets (10..300 points; uniform, clustered, near-collinear
// hulls, rings, wide coordinate ranges and offsets) through the real render.Delaunay2d and
// render.Delaunay2dSlow. The float64 coordinates are converted EXACTLY to integers on a common
// binary scale and every geometric fact is measured with exact integer predicates (math/big).
// Only counts and booleans are logged; spec/trace/DelTrace.tla judges them.

import (
	"encoding/json"
	"fmt"
	"math"
	"math/big"
	"math/rand"
	"sort"
	"sync"

	v2 "github.com/deadsy/sdfx/vec/v2"
)

type rndVec struct {
	Rnd  int   `json:"rnd"`  // case id; the set is a function of (seed, id)
	Seed int64 `json:"seed"` // 0: VERIF_SEED
}

type triFacts struct {
	Nt         int `json:"nt"`
	BadIdx     int `json:"badidx"`     // triangles with an index that is not an input point / repeated index
	Degen      int `json:"degen"`      // zero-area triangles
	Cw         int `json:"cw"`         // clockwise triangles
	Ccw        int `json:"ccw"`        // counter-clockwise triangles
	Dup        int `json:"dup"`        // triangles that repeat an earlier one (as canonical triples)
	Inside     int `json:"inside"`     // (triangle, point) pairs: point STRICTLY inside the circumcircle (exact)
	MaxDepth   int `json:"maxdepth"`   // largest (r^2-d^2)/r^2 of such a pair, in units of 1e-12 (saturating at 1e9)
	MinMargin  int `json:"minmargin"`  // smallest (d^2-r^2)/r^2 of the other pairs, same units (saturating)
	OnCirc     int `json:"oncirc"`     // pairs: point exactly on the circumcircle (not general position)
	DupEdge    int `json:"dupedge"`    // directed edges used by more than one triangle
	Bnd        int `json:"bnd"`        // directed edges without the opposite edge
	BndNotHull int `json:"bndnothull"` // ... that are not edges of the convex hull
	Unused     int `json:"unused"`     // input points used by no triangle
}

type rndObs struct {
	Ev       string   `json:"ev"`
	Rnd      int      `json:"rnd"`
	Seed     int64    `json:"seed"`
	Fam      string   `json:"fam"`
	Param    string   `json:"param"`
	N        int      `json:"n"`
	H        int      `json:"h"`    // strict vertices of the convex hull (exact)
	HCol     int      `json:"hcol"` // further points exactly on the hull boundary
	DupPt    int      `json:"duppt"`
	MinSep   int      `json:"minsep"`   // smallest squared distance of two input points / 1e-12 (saturating at 1e9)
	MissMinR int      `json:"missminr"` // min over triangles of slow \\ fast of circumradius / extent of the set (saturating at 1e9)
	Ferr     string   `json:"ferr"`
	Serr     string   `json:"serr"`
	F        triFacts `json:"f"`
	S        triFacts `json:"s"`
	Dfs      int      `json:"dfs"`  // |fast \ slow| as canonical triples
	Dsf      int      `json:"dsf"`  // |slow \ fast|
	Fseq     bool     `json:"fseq"` // REAL TriangleISet.Equals(fast, slow)
	// REAL TriangleISet.Equals(fast, copy) for seeded copies of the fast result
	RotK      int `json:"rotk"`
	RotFalse  int `json:"rotfalse"` // rotation-only copies reported different
	PermK     int `json:"permk"`
	PermFalse int `json:"permfalse"` // permuted + rotated copies reported different
	DiffK     int `json:"diffk"`
	DiffTrue  int `json:"difftrue"`  // genuinely different sets reported equal
	Conflicts int `json:"conflicts"` // pairs of canonical triples with equal [1] and oppositely ordered [0], [2] (capped at 1000)
}

// ---- exact arithmetic ------------------------------------------------------------------------

type ipt struct{ x, y *big.Int }

// exactInts converts float64 points to integers on a common power-of-two scale, exactly.
func exactInts(pts []v2.Vec) []ipt {
	type me struct {
		m int64
		e int
	}
	dec := func(f float64) me {
		if f == 0 {
			return me{0, 0}
		}
		fr, ex := math.Frexp(f)
		return me{int64(fr * (1 << 53)), ex - 53}
	}
	emin := math.MaxInt32
	ds := make([][2]me, len(pts))
	for i, p := range pts {
		ds[i] = [2]me{dec(p.X), dec(p.Y)}
		for _, d := range ds[i] {
			if d.m != 0 && d.e < emin {
				emin = d.e
			}
		}
	}
	if emin == math.MaxInt32 {
		emin = 0
	}
	mk := func(d me) *big.Int {
		z := big.NewInt(d.m)
		if d.m != 0 {
			z.Lsh(z, uint(d.e-emin))
		}
		return z
	}
	out := make([]ipt, len(pts))
	for i := range pts {
		out[i] = ipt{mk(ds[i][0]), mk(ds[i][1])}
	}
	return out
}

type exact struct {
	p                          []ipt
	f                          []v2.Vec // the same points as float64 (for the cheap margin filter only)
	t1, t2, t3, t4, t5, t6, t7 big.Int
	ax, ay, bx, by, cx, cy     big.Int
	la, lb, lc                 big.Int
}

// orient: sign of twice the signed area of (a, b, c); > 0 counter-clockwise.
func (e *exact) orient(a, b, c int) int {
	p := e.p
	e.ax.Sub(p[b].x, p[a].x)
	e.ay.Sub(p[b].y, p[a].y)
	e.bx.Sub(p[c].x, p[a].x)
	e.by.Sub(p[c].y, p[a].y)
	e.t1.Mul(&e.ax, &e.by)
	e.t2.Mul(&e.ay, &e.bx)
	return e.t1.Cmp(&e.t2)
}

// incircle: sign of the in-circle determinant of (a, b, c; d); for a counter-clockwise abc it is
// > 0 iff d is strictly inside the circumcircle.
func (e *exact) incircle(a, b, c, d int) int {
	p := e.p
	e.ax.Sub(p[a].x, p[d].x)
	e.ay.Sub(p[a].y, p[d].y)
	e.bx.Sub(p[b].x, p[d].x)
	e.by.Sub(p[b].y, p[d].y)
	e.cx.Sub(p[c].x, p[d].x)
	e.cy.Sub(p[c].y, p[d].y)
	e.la.Mul(&e.ax, &e.ax)
	e.t1.Mul(&e.ay, &e.ay)
	e.la.Add(&e.la, &e.t1)
	e.lb.Mul(&e.bx, &e.bx)
	e.t1.Mul(&e.by, &e.by)
	e.lb.Add(&e.lb, &e.t1)
	e.lc.Mul(&e.cx, &e.cx)
	e.t1.Mul(&e.cy, &e.cy)
	e.lc.Add(&e.lc, &e.t1)
	// la (bx cy - by cx) - lb (ax cy - ay cx) + lc (ax by - ay bx)
	e.t1.Mul(&e.bx, &e.cy)
	e.t2.Mul(&e.by, &e.cx)
	e.t1.Sub(&e.t1, &e.t2)
	e.t3.Mul(&e.la, &e.t1)
	e.t1.Mul(&e.ax, &e.cy)
	e.t2.Mul(&e.ay, &e.cx)
	e.t1.Sub(&e.t1, &e.t2)
	e.t4.Mul(&e.lb, &e.t1)
	e.t1.Mul(&e.ax, &e.by)
	e.t2.Mul(&e.ay, &e.bx)
	e.t1.Sub(&e.t1, &e.t2)
	e.t5.Mul(&e.lc, &e.t1)
	e.t3.Sub(&e.t3, &e.t4)
	e.t3.Add(&e.t3, &e.t5)
	return e.t3.Sign()
}

// hull returns the strict hull vertices in counter-clockwise order (monotone chain, exact).
func (e *exact) hull() []int {
	n := len(e.p)
	idx := make([]int, n)
	for i := range idx {
		idx[i] = i
	}
	sort.Slice(idx, func(i, j int) bool {
		c := e.p[idx[i]].x.Cmp(e.p[idx[j]].x)
		if c != 0 {
			return c < 0
		}
		return e.p[idx[i]].y.Cmp(e.p[idx[j]].y) < 0
	})
	var h []int
	for _, i := range idx {
		for len(h) >= 2 && e.orient(h[len(h)-2], h[len(h)-1], i) <= 0 {
			h = h[:len(h)-1]
		}
		h = append(h, i)
	}
	lo := len(h) + 1
	for k := n - 2; k >= 0; k-- {
		i := idx[k]
		for len(h) >= lo && e.orient(h[len(h)-2], h[len(h)-1], i) <= 0 {
			h = h[:len(h)-1]
		}
		h = append(h, i)
	}
	return h[:len(h)-1]
}

func satInt(x float64) int {
	if math.IsNaN(x) || x > 1e9 {
		return 1000000000
	}
	if x < 0 {
		return 0
	}
	return int(x)
}

func bigF(z *big.Int) float64 {
	f, _ := new(big.Float).SetInt(z).Float64()
	return f
}

// sides2 returns the product of the squared side lengths of (a, b, c) (integer units, as float64).
func (e *exact) sides2(a, b, c int) float64 {
	d2 := func(i, j int) float64 {
		var dx, dy, s big.Int
		dx.Sub(e.p[i].x, e.p[j].x)
		dy.Sub(e.p[i].y, e.p[j].y)
		s.Mul(&dx, &dx)
		dy.Mul(&dy, &dy)
		s.Add(&s, &dy)
		return bigF(&s)
	}
	return d2(a, b) * d2(b, c) * d2(c, a)
}

// relMargin: |r^2 - d^2| / r^2 for the point d and the circle through a, b, c, from the exact
// determinants: r^2 - d^2 = InCircle / Orient and r^2 = |ab|^2 |bc|^2 |ca|^2 / (4 Orient^2).
// Must be called right after e.incircle(a, b, c, d) (uses its determinant in e.t3).
func (e *exact) relMarginAfterIncircle(a, b, c int, sides float64) float64 {
	det := math.Abs(bigF(&e.t3))
	e.orient(a, b, c)
	var o big.Int
	o.Sub(&e.t1, &e.t2)
	return det * 4 * math.Abs(bigF(&o)) / sides
}

// approxRel: the same quantity in float64 (translated to d); only trusted when it is > 1e-6.
func (e *exact) approxRel(a, b, c, d int) float64 {
	f := e.f
	ax, ay := f[a].X-f[d].X, f[a].Y-f[d].Y
	bx, by := f[b].X-f[d].X, f[b].Y-f[d].Y
	cx, cy := f[c].X-f[d].X, f[c].Y-f[d].Y
	det := (ax*ax+ay*ay)*(bx*cy-by*cx) - (bx*bx+by*by)*(ax*cy-ay*cx) + (cx*cx+cy*cy)*(ax*by-ay*bx)
	ux, uy := f[b].X-f[a].X, f[b].Y-f[a].Y
	vx, vy := f[c].X-f[a].X, f[c].Y-f[a].Y
	wx, wy := f[c].X-f[b].X, f[c].Y-f[b].Y
	or := ux*vy - uy*vx
	return math.Abs(det) * 4 * math.Abs(or) / ((ux*ux + uy*uy) * (vx*vx + vy*vy) * (wx*wx + wy*wy))
}

// circumradius of (a, b, c) in integer units
func (e *exact) circumradius(a, b, c int) float64 {
	e.orient(a, b, c)
	var o big.Int
	o.Sub(&e.t1, &e.t2)
	return math.Sqrt(e.sides2(a, b, c)) / (2 * math.Abs(bigF(&o)))
}

func canon3(t [3]int) [3]int {
	if t[0] < t[1] && t[0] < t[2] {
		return t
	}
	if t[1] < t[0] && t[1] < t[2] {
		return [3]int{t[1], t[2], t[0]}
	}
	return [3]int{t[2], t[0], t[1]}
}

func (e *exact) facts(ts [][3]int, hullEdge map[[2]int]bool) triFacts {
	n := len(e.p)
	f := triFacts{Nt: len(ts), MinMargin: 1000000000}
	if len(ts) > 4*n+16 {
		// far more triangles than any triangulation of n points has: only the count is reported
		// (it is rejected by the count clause); measuring millions of triangles exactly would take hours
		return f
	}
	seen := map[[3]int]bool{}
	edges := map[[2]int]int{}
	used := make([]bool, n)
	for _, t := range ts {
		ok := true
		for k := 0; k < 3; k++ {
			if t[k] < 0 || t[k] >= n {
				ok = false
			}
		}
		if !ok || t[0] == t[1] || t[1] == t[2] || t[0] == t[2] {
			f.BadIdx++
			continue
		}
		c := canon3(t)
		if seen[c] {
			f.Dup++
		}
		seen[c] = true
		for k := 0; k < 3; k++ {
			used[t[k]] = true
			edges[[2]int{t[k], t[(k+1)%3]}]++
		}
		o := e.orient(t[0], t[1], t[2])
		switch {
		case o == 0:
			f.Degen++
			continue
		case o > 0:
			f.Ccw++
		default:
			f.Cw++
		}
		sides := e.sides2(t[0], t[1], t[2])
		for m := 0; m < n; m++ {
			if m == t[0] || m == t[1] || m == t[2] {
				continue
			}
			s := e.incircle(t[0], t[1], t[2], m) * o
			relf := e.approxRel(t[0], t[1], t[2], m)
			if s > 0 || !(relf > 1e-6) {
				relf = e.relMarginAfterIncircle(t[0], t[1], t[2], sides)
			}
			rel := satInt(relf * 1e12)
			if s > 0 {
				f.Inside++
				if rel > f.MaxDepth {
					f.MaxDepth = rel
				}
			} else {
				if s == 0 {
					f.OnCirc++
				}
				if rel < f.MinMargin {
					f.MinMargin = rel
				}
			}
		}
	}
	for ed, c := range edges {
		if c > 1 {
			f.DupEdge++
		}
		if edges[[2]int{ed[1], ed[0]}] == 0 {
			f.Bnd++
			if !hullEdge[ed] && !hullEdge[[2]int{ed[1], ed[0]}] {
				f.BndNotHull++
			}
		}
	}
	for _, u := range used {
		if !u {
			f.Unused++
		}
	}
	return f
}

// ---- generators ------------------------------------------------------------------------------

func pow10(k int) float64 { return math.Pow(10, float64(k)) }

// genSet: a seeded real point set; family and parameters are functions of (seed, id).
func genSet(sd int64, id int) (fam, param string, pts []v2.Vec) {
	rng := rand.New(rand.NewSource(sd*1000003 + int64(id)*7919 + 17))
	fams := []string{"uniform", "cluster", "hull", "ring", "wide", "offset", "quadrant", "xties"}
	fam = fams[id%len(fams)]
	sizes := []int{10, 17, 30, 60, 120, 300}
	n := sizes[(id/len(fams))%len(sizes)]
	scale := pow10([]int{0, -2, 2, 4}[rng.Intn(4)])
	cx, cy := 0.0, 0.0
	add := func(x, y float64) { pts = append(pts, v2.Vec{X: cx + scale*x, Y: cy + scale*y}) }
	switch fam {
	case "uniform":
		for i := 0; i < n; i++ {
			add(rng.Float64(), rng.Float64())
		}
		param = fmt.Sprintf("scale=%g", scale)
	case "cluster":
		k := 3 + rng.Intn(5)
		sig := pow10(-1 - rng.Intn(3))
		cs := make([][2]float64, k)
		for i := range cs {
			cs[i] = [2]float64{rng.Float64(), rng.Float64()}
		}
		for i := 0; i < n; i++ {
			c := cs[rng.Intn(k)]
			if i < 4 {
				add(rng.Float64(), rng.Float64()) // a few outliers
			} else {
				add(c[0]+sig*rng.NormFloat64(), c[1]+sig*rng.NormFloat64())
			}
		}
		param = fmt.Sprintf("scale=%g clusters=%d sigma=%g", scale, k, sig)
	case "hull":
		// points on the four sides of the unit square, each side bulged outwards by a parabola of
		// height delta (strictly convex: every such point is a hull vertex), plus interior points
		delta := pow10(-1 - rng.Intn(3))
		m := n / 8
		if m < 2 {
			m = 2
		}
		for s := 0; s < 4; s++ {
			for i := 0; i < m; i++ {
				t := (float64(i) + 0.2 + 0.6*rng.Float64()) / float64(m)
				b := delta * 4 * t * (1 - t) * (0.7 + 0.3*rng.Float64())
				switch s {
				case 0:
					add(t, -b)
				case 1:
					add(1+b, t)
				case 2:
					add(1-t, 1+b)
				default:
					add(-b, 1-t)
				}
			}
		}
		for len(pts) < n {
			add(0.05+0.9*rng.Float64(), 0.05+0.9*rng.Float64())
		}
		param = fmt.Sprintf("scale=%g bulge=%g perside=%d", scale, delta, m)
	case "ring":
		noise := pow10(-1 - rng.Intn(3))
		for i := 0; i < n; i++ {
			a := 2 * math.Pi * rng.Float64()
			r := 1 + noise*rng.NormFloat64()
			if i%5 == 0 {
				r = rng.Float64() * 0.9
			}
			add(r*math.Cos(a), r*math.Sin(a))
		}
		param = fmt.Sprintf("scale=%g radialnoise=%g", scale, noise)
	case "wide":
		asp := pow10(1 + rng.Intn(3))
		for i := 0; i < n; i++ {
			add(asp*rng.Float64(), rng.Float64())
		}
		param = fmt.Sprintf("scale=%g aspect=%g", scale, asp)
	case "xties":
		// several pairs (and a triple) of points with exactly the same x: the sweep sorts by x, so the order of tied
		// points is up to the sort - the result may not depend on it
		if n < 17 {
			n = 17
		}
		raw := make([][2]float64, n)
		for i := range raw {
			raw[i] = [2]float64{rng.Float64(), rng.Float64()}
		}
		ties := 2 + rng.Intn(5)
		for k := 0; k < ties; k++ {
			i, j := rng.Intn(n), rng.Intn(n)
			if i != j {
				raw[j][0] = raw[i][0]
			}
		}
		i, j, k := rng.Intn(n), rng.Intn(n), rng.Intn(n)
		if i != j && j != k && i != k {
			raw[j][0], raw[k][0] = raw[i][0], raw[i][0]
		}
		for _, q := range raw {
			add(q[0], q[1])
		}
		param = fmt.Sprintf("scale=%g tied-pairs=%d", scale, ties)
	case "quadrant":
		// one corner of the bounding box at (or within a per cent of the extent of) the origin: the whole set in
		// one quadrant, touching the axes (anything sized from a coordinate instead of the extent shows here)
		raw := make([][2]float64, n)
		lo, hi := [2]float64{1, 1}, [2]float64{0, 0}
		for i := range raw {
			raw[i] = [2]float64{rng.Float64(), rng.Float64()}
			for k := 0; k < 2; k++ {
				lo[k] = math.Min(lo[k], raw[i][k])
				hi[k] = math.Max(hi[k], raw[i][k])
			}
		}
		corner := rng.Intn(4)
		eps := []float64{0, 0, 0.003, -0.003, 0.01}[rng.Intn(5)]
		ox, oy := lo[0], lo[1]
		if corner&1 == 1 {
			ox = hi[0]
		}
		if corner&2 == 2 {
			oy = hi[1]
		}
		for _, q := range raw {
			add(q[0]-ox+eps, q[1]-oy+eps)
		}
		param = fmt.Sprintf("scale=%g corner=%d eps=%g", scale, corner, eps)
	default: // offset: the set is far from the origin relative to its size
		// up to 2e4 extents away: farther than the half-width of the super triangle (8192 extents), which must
		// be placed about the set, not about the origin
		off := pow10(1 + rng.Intn(4))
		cx, cy = scale*off*(1+rng.Float64()), -scale*off*(1+rng.Float64())
		for i := 0; i < n; i++ {
			add(rng.Float64(), rng.Float64())
		}
		param = fmt.Sprintf("scale=%g offset=%g", scale, off)
	}
	return
}

func c20RandomOne(sd int64, id int) rndObs {
	if sd == 0 {
		sd = seed()
	}
	fam, param, pts := genSet(sd, id)
	o := rndObs{Ev: "rnd", Rnd: id, Seed: sd, Fam: fam, Param: param, N: len(pts)}
	seenPt := map[v2.Vec]bool{}
	for _, p := range pts {
		if seenPt[p] {
			o.DupPt++
		}
		seenPt[p] = true
	}
	if o.DupPt > 0 {
		return o // not a set of distinct points: the trace spec skips it
	}
	ex := &exact{p: exactInts(pts), f: pts}
	hv := ex.hull()
	o.H = len(hv)
	hullEdge := map[[2]int]bool{}
	onHull := map[int]bool{}
	for i, a := range hv {
		hullEdge[[2]int{a, hv[(i+1)%len(hv)]}] = true
		onHull[a] = true
	}
	for m := range pts {
		if onHull[m] {
			continue
		}
		for i, a := range hv {
			if ex.orient(a, hv[(i+1)%len(hv)], m) == 0 {
				o.HCol++
				break
			}
		}
	}
	var fast, slow [][3]int
	fast, o.Ferr = runFast(pts)
	slow, o.Serr = runSlow(pts)
	o.F = ex.facts(fast, hullEdge)
	o.S = ex.facts(slow, hullEdge)
	fs, ss := map[[3]int]bool{}, map[[3]int]bool{}
	for _, t := range fast {
		fs[canon3(t)] = true
	}
	for _, t := range slow {
		ss[canon3(t)] = true
	}
	for t := range fs {
		if !ss[t] {
			o.Dfs++
		}
	}
	// extent of the set in the integer units of the exact coordinates
	var ex0, ex1 big.Int
	extent := 0.0
	{
		lo, hi := ex.p[0].x, ex.p[0].x
		loy, hiy := ex.p[0].y, ex.p[0].y
		for _, q := range ex.p {
			if q.x.Cmp(lo) < 0 {
				lo = q.x
			}
			if q.x.Cmp(hi) > 0 {
				hi = q.x
			}
			if q.y.Cmp(loy) < 0 {
				loy = q.y
			}
			if q.y.Cmp(hiy) > 0 {
				hiy = q.y
			}
		}
		ex0.Sub(hi, lo)
		ex1.Sub(hiy, loy)
		extent = math.Max(bigF(&ex0), bigF(&ex1))
	}
	o.MissMinR = 1000000000
	for t := range ss {
		if !fs[t] {
			o.Dsf++
			if t[0] != t[1] && t[1] != t[2] && t[0] != t[2] && ex.orient(t[0], t[1], t[2]) != 0 {
				if r := satInt(ex.circumradius(t[0], t[1], t[2]) / extent); r < o.MissMinR {
					o.MissMinR = r
				}
			}
		}
	}
	ms := math.Inf(1)
	for i := range pts {
		for j := i + 1; j < len(pts); j++ {
			dx, dy := pts[i].X-pts[j].X, pts[i].Y-pts[j].Y
			if d := dx*dx + dy*dy; d < ms {
				ms = d
			}
		}
	}
	o.MinSep = satInt(ms / 1e-12)
	o.Fseq = realEquals(fast, slow)
	// the real equality test on copies of the real triangulation
	rng := rand.New(rand.NewSource(sd*31 + int64(id)))
	cs := copiesOf(fast, 4, rng)
	for i, c := range cs {
		r := realEquals(fast, c)
		switch {
		case i == 0:
			o.RotK++
			if !r {
				o.RotFalse++
			}
		case i == len(cs)-1 && len(fast) > 0:
			o.DiffK++
			if r {
				o.DiffTrue++
			}
		default:
			o.PermK++
			if !r {
				o.PermFalse++
			}
		}
	}
	cf := make([][3]int, 0, len(fast))
	for _, t := range fast {
		cf = append(cf, canon3(t))
	}
	for i := 0; i < len(cf) && o.Conflicts < 1000; i++ {
		for j := i + 1; j < len(cf); j++ {
			a, b := cf[i], cf[j]
			if a[1] == b[1] && ((a[0] > b[0] && a[2] < b[2]) || (a[0] < b[0] && a[2] > b[2])) {
				o.Conflicts++
			}
		}
	}
	return o
}

func c20Random(args []string) error {
	ids := []rndVec{}
	readVectors("-", func(raw json.RawMessage) {
		var v rndVec
		if err := json.Unmarshal(raw, &v); err != nil {
			fatal("bad vector: %v", err)
		}
		ids = append(ids, v)
	})
	if len(ids) == 0 {
		return fmt.Errorf("no vectors")
	}
	// the cases are independent: a small pool, results emitted in input order
	res := make([]rndObs, len(ids))
	var wg sync.WaitGroup
	next := make(chan int, len(ids))
	for i := range ids {
		next <- i
	}
	close(next)
	for w := 0; w < 6; w++ {
		wg.Add(1)
		go func() {
			defer wg.Done()
			for i := range next {
				res[i] = c20RandomOne(ids[i].Seed, ids[i].Rnd)
			}
		}()
	}
	wg.Wait()
	for _, o := range res {
		emit(o)
	}
	return nil
}

func init() { register("c20-random", c20Random) }
