package main

// C19 - dual contouring (render/dc): worlds of lattice corner classes presented as continuous
// trilinear fields to the REAL renderers DualContouringV2 (uniform grid, vertex clamping on) and
// DualContouringV1 (octree, vertex locking on, simplification off).  The harness only projects:
// triangles -> vertex ids (coincidence within 1e-6 cell), per vertex the box of closed lattice
// cells that contain it, measured volume, counts.  DCTrace.tla judges.

import (
	"encoding/json"
	"fmt"
	"io"
	"log"
	"math"
	"reflect"
	"sync"
	"time"

	"github.com/deadsy/sdfx/render/dc"
	"github.com/deadsy/sdfx/sdf"
	v3 "github.com/deadsy/sdfx/vec/v3"
)

// dcField is a field3 that records which lattice points were sampled.
type dcField struct {
	*field3
	mu   sync.Mutex
	seen map[[3]int]struct{}
}

func (f *dcField) Evaluate(p v3.Vec) float64 {
	g := [3]float64{(p.X - f.origin.X) / f.h, (p.Y - f.origin.Y) / f.h, (p.Z - f.origin.Z) / f.h}
	var ip [3]int
	on := true
	for a := 0; a < 3; a++ {
		r := math.Round(g[a])
		if math.Abs(g[a]-r) > 1e-9 {
			on = false
			break
		}
		ip[a] = int(r)
	}
	if on {
		f.mu.Lock()
		f.seen[ip] = struct{}{}
		f.mu.Unlock()
	}
	return f.field3.Evaluate(p)
}

func nextPow2(v int) int {
	p := 1
	for p < v {
		p *= 2
	}
	return p
}

// dcWorldField positions a world (corners 0..d+1, cells 0..d, cell = 1) for the renderer:
// dc2: box [0, d+1], meshCells = max(d)+1  -> exactly the cells 0..d
// dc1: box [0, P] per axis with P = nextPow2(d+1), meshCells = max P -> leaves are the unit cells
func dcWorldField(w worldVec, which string) (*dcField, int, [3]float64) {
	n, cls := decodeWorld(w.Code, w.Base, w.Dims)
	f := &field3{n: [3]int{n[0], n[1], n[2]}, h: 1, origin: v3.Vec{}}
	f.val = make([]float64, len(cls))
	for i, c := range cls {
		f.val[i] = classVal[c]
	}
	var hi [3]float64
	mc := 0
	for a := 0; a < 3; a++ {
		c := w.Dims[a] + 1
		if which == "dc1" {
			c = nextPow2(c)
		}
		hi[a] = float64(c)
		if c > mc {
			mc = c
		}
	}
	f.bb = sdf.Box3{Min: v3.Vec{}, Max: v3.Vec{X: hi[0], Y: hi[1], Z: hi[2]}}
	if which == "dc1" {
		// the octree is a cube of side mc leaves whatever the box is
		hi = [3]float64{float64(mc), float64(mc), float64(mc)}
	}
	return &dcField{field3: f, seen: map[[3]int]struct{}{}}, mc, hi
}

type dcWarn struct {
	Holes  bool `json:"holes"`  // V2: "no vertex found for completing face, there will be holes"
	Clamp  bool `json:"clamp"`  // V2: some vertex was clamped to its cell
	Qef    bool `json:"qef"`    // V2: vertex positioning failed (centred)
	Raycst bool `json:"raycst"` // V2: raycast failed (fallback used)
}

// renderDC runs the real renderer and collects the triangles; a panic of the library is an outcome.
func renderDC(s sdf.SDF3, which string, cells int) (ts []*sdf.Triangle3, outcome string, wn dcWarn) {
	log.SetOutput(io.Discard)
	outcome = "ok"
	done := make(chan struct{})
	go func() {
		defer close(done)
		defer func() {
			if r := recover(); r != nil {
				outcome = fmt.Sprintf("panic: %v", r)
			}
		}()
		switch which {
		case "dc2", "dc2p0", "dc2re":
			r := dc.NewDualContouringDefault(cells) // FarAway 0.499999: vertex clamped to its cell
			if which == "dc2p0" {
				// clamping on, no push of the vertex towards the cell centre
				r = dc.NewDualContouringV2(0.499999, 0, 0, 1, 1e-4, 1000, cells)
			}
			if which == "dc2re" {
				// the same renderer object has rendered a DIFFERENT shape on the same lattice before
				prev := &boxed{s: otherShape(s), bb: s.BoundingBox()}
				pch := make(chan []*sdf.Triangle3, 64)
				go func() {
					for range pch {
					}
				}()
				r.Render(prev, pch)
				close(pch)
			}
			ch := make(chan []*sdf.Triangle3, 64)
			var wg sync.WaitGroup
			wg.Add(1)
			go func() {
				defer wg.Done()
				for b := range ch {
					ts = append(ts, b...)
				}
			}()
			func() {
				defer func() { close(ch); wg.Wait() }()
				r.Render(s, ch)
			}()
			rv := reflect.ValueOf(r).Elem()
			wn.Holes = rv.FieldByName("faceVertexNotFoundWarned").Bool()
			wn.Clamp = rv.FieldByName("farAwayWarned").Bool()
			wn.Qef = rv.FieldByName("qefFailedWarned").Bool()
			wn.Raycst = rv.FieldByName("raycastFailedWarned").Bool()
		case "dc1":
			r := dc.NewDualContouringV1(-1, 0, true) // no simplification, default RCond, vertices locked
			ch := make(chan *sdf.Triangle3, 64)
			var wg sync.WaitGroup
			wg.Add(1)
			go func() {
				defer wg.Done()
				for t := range ch {
					ts = append(ts, t)
				}
			}()
			func() {
				defer func() { close(ch); wg.Wait() }()
				r.Render(s, cells, ch)
			}()
		default:
			fatal("renderer %q", which)
		}
	}()
	select {
	case <-done:
	case <-time.After(600 * time.Second):
		fatal("renderer %s did not return within 600 s", which)
	}
	return
}

// otherShape: a ball filling about a third of the box of s (a different solid on the same lattice)
func otherShape(s sdf.SDF3) sdf.SDF3 {
	bb := s.BoundingBox()
	sp, _ := sdf.Sphere3D(bb.Size().MinComponent() * 0.3)
	return sdf.Transform3D(sp, sdf.Translate3d(bb.Center()))
}

func sameTriangles(a, b []*sdf.Triangle3) bool {
	if len(a) != len(b) {
		return false
	}
	for i := range a {
		for j := 0; j < 3; j++ {
			p, q := a[i][j], b[i][j]
			if math.Float64bits(p.X) != math.Float64bits(q.X) || math.Float64bits(p.Y) != math.Float64bits(q.Y) ||
				math.Float64bits(p.Z) != math.Float64bits(q.Z) {
				return false
			}
		}
	}
	return true
}

type dcObs struct {
	Ev      string   `json:"ev"`
	R       string   `json:"r"`
	Dims    []int    `json:"dims"`
	Base    int      `json:"base"`
	Code    int64    `json:"code"`
	Aligned bool     `json:"aligned"` // the renderer sampled every lattice corner of the world
	Outcome string   `json:"outcome"`
	Nt      int      `json:"nt"`
	Tris    [][3]int `json:"tris"`    // vertex ids (1-based) in emission order
	VBox    [][6]int `json:"vbox"`    // per vertex id: lo x,y,z and hi x,y,z of the closed unit cells containing it (1e-9)
	Vol     int64    `json:"vol"`     // 48 * measured volume in cell units, rounded
	Outside int      `json:"outside"` // vertex coordinates outside the sampled box (1e-9 cell)
	NaN     int      `json:"nan"`     // non-finite vertex coordinates
	Same    bool     `json:"same"`    // a second run produced bit-identical triangles in the same order
	Warn    dcWarn   `json:"warn"`
}

func finite3(p v3.Vec) bool {
	return !(math.IsNaN(p.X) || math.IsNaN(p.Y) || math.IsNaN(p.Z) || math.IsInf(p.X, 0) || math.IsInf(p.Y, 0) || math.IsInf(p.Z, 0))
}

// projectDC: triangles -> ids; coordinates in cell units (the worlds have cell = 1, origin 0).
func projectDC(ts []*sdf.Triangle3, lo, hi [3]float64) dcObs {
	vi := newVertexIndex(1e-6)
	o := dcObs{Ev: "dcmesh", Tris: [][3]int{}, VBox: [][6]int{}}
	vol := 0.0
	nanid := 0
	for _, t := range ts {
		var ids [3]int
		var q [3][3]float64
		bad := false
		for j := 0; j < 3; j++ {
			if !finite3(t[j]) {
				o.NaN++
				bad = true
				nanid++
				ids[j] = -nanid // resolved below: a fresh id per non-finite vertex
				continue
			}
			q[j] = [3]float64{t[j].X, t[j].Y, t[j].Z}
			ids[j] = vi.id(q[j]) + 1
			for a := 0; a < 3; a++ {
				if q[j][a] < lo[a]-1e-9 || q[j][a] > hi[a]+1e-9 {
					o.Outside++
				}
			}
		}
		o.Tris = append(o.Tris, ids)
		if !bad {
			a, b, c := q[0], q[1], q[2]
			vol += 8 * (a[0]*(b[1]*c[2]-b[2]*c[1]) - a[1]*(b[0]*c[2]-b[2]*c[0]) + a[2]*(b[0]*c[1]-b[1]*c[0]))
		}
	}
	for _, p := range vi.pts {
		var b [6]int
		for a := 0; a < 3; a++ {
			b[a] = int(math.Ceil(p[a] - 1 - 1e-9))
			b[3+a] = int(math.Floor(p[a] + 1e-9))
		}
		o.VBox = append(o.VBox, b)
	}
	nv := len(vi.pts)
	for i := range o.Tris {
		for j := 0; j < 3; j++ {
			if o.Tris[i][j] < 0 {
				o.Tris[i][j] = nv + (-o.Tris[i][j])
			}
		}
	}
	for k := 0; k < nanid; k++ {
		o.VBox = append(o.VBox, [6]int{1, 1, 1, 0, 0, 0}) // empty box: in no cell
	}
	o.Nt = len(ts)
	if math.Abs(vol) > 1e9 {
		vol = math.Copysign(1e9, vol)
	}
	o.Vol = int64(math.Round(vol))
	return o
}

func renderWorldDC(w worldVec, which string) dcObs {
	f, mc, hi := dcWorldField(w, which)
	ts, outcome, wn := renderDC(f, which, mc)
	o := projectDC(ts, [3]float64{0, 0, 0}, hi)
	o.R, o.Dims, o.Base, o.Code, o.Outcome, o.Warn = which, w.Dims, w.Base, w.Code, outcome, wn
	o.Aligned = true
	for x := 0; x <= w.Dims[0]+1 && o.Aligned; x++ {
		for y := 0; y <= w.Dims[1]+1 && o.Aligned; y++ {
			for z := 0; z <= w.Dims[2]+1; z++ {
				if _, ok := f.seen[[3]int{x, y, z}]; !ok {
					o.Aligned = false
					break
				}
			}
		}
	}
	// determinism: a second run with a fresh renderer and a fresh field
	f2, _, _ := dcWorldField(w, which)
	ts2, outcome2, _ := renderDC(f2, which, mc)
	o.Same = outcome == outcome2 && sameTriangles(ts, ts2)
	return o
}

// c19-replay: worlds (NDJSON on stdin) -> real meshes from both dual contouring renderers.
func c19Replay(args []string) error {
	which := []string{"dc2", "dc1"}
	if len(args) > 0 {
		which = args
	}
	n := 0
	readVectors("-", func(raw json.RawMessage) {
		var w worldVec
		if err := json.Unmarshal(raw, &w); err != nil {
			fatal("bad vector: %v", err)
		}
		for _, r := range which {
			emit(renderWorldDC(w, r))
		}
		n++
	})
	if n == 0 {
		return fmt.Errorf("no vectors")
	}
	return nil
}

func init() { register("c19-replay", c19Replay) }
